import TssVerif.Core.OpsCrypto
import TssVerif.Lemmas.VssPoly
/-! `Vss.create` (commitment part) and `Vss.verify` on a lawful curve. -/
set_option linter.style.haveILetI false
set_option linter.unusedSectionVars false
set_option autoImplicit false
namespace TssVerif

/-! ### the `Outcome` monad -/
namespace Outcome
instance : LawfulMonad Outcome := LawfulMonad.mk' (m := Outcome)
  (id_map := fun x => by cases x <;> rfl)
  (pure_bind := fun _ _ => rfl)
  (bind_assoc := fun x _ _ => by cases x <;> rfl)

@[simp] theorem ok_bind {α β} (a : α) (f : α → Outcome β) : (Outcome.ok a >>= f) = f a := rfl
@[simp] theorem err_bind {α β} (t : String) (f : α → Outcome β) : (Outcome.err t >>= f) = .err t := rfl
@[simp] theorem panic_bind {α β} (t : String) (f : α → Outcome β) :
    (Outcome.panic t >>= f) = .panic t := rfl
@[simp] theorem pure_eq {α} (a : α) : (pure a : Outcome α) = .ok a := rfl
end Outcome

namespace Vss
open OpsCrypto (curVss)
variable {P : Type} {C : Curve P}

/-- `vs` are the affine forms of `a_i · G` for the coefficient list `as` -/
def IsCommitment (C : Curve P) (as : List Nat) (vs : List ECPoint) : Prop :=
  List.Forall₂ (fun a v => C.toAffine (C.smul a C.base) = some v) as vs

theorem IsCommitment.length_eq {as : List Nat} {vs : List ECPoint} (h : IsCommitment C as vs) :
    as.length = vs.length := List.Forall₂.length_eq h

/-- every element of `vs` is accepted by `NewECPoint` -/
def AllOnCurve (C : Curve P) (vs : List ECPoint) : Prop := ∀ v ∈ vs, C.ecIsOnCurve v = true

/-! ### scalar facts on a lawful curve -/
section scalar
variable (hC : C.Lawful)
include hC

theorem toAffine_smul_base_eq_none_iff (k : Nat) :
    C.toAffine (C.smul k C.base) = none ↔ k % C.q = 0 ∧ C.toAffine C.zero = none := by
  rw [hC.toAffine_eq_none_iff, hC.smul_base_eq_zero_iff]

theorem toAffine_smul_base_isSome {k : Nat} (hk : k % C.q ≠ 0) :
    ∃ r, C.toAffine (C.smul k C.base) = some r := by
  cases hr : C.toAffine (C.smul k C.base) with
  | none => exact absurd ((toAffine_smul_base_eq_none_iff hC k).1 hr).1 hk
  | some r => exact ⟨r, rfl⟩

theorem toAffine_smul_base_isSome' (hz : C.toAffine C.zero ≠ none) (k : Nat) :
    ∃ r, C.toAffine (C.smul k C.base) = some r := by
  cases hr : C.toAffine (C.smul k C.base) with
  | none => exact absurd ((toAffine_smul_base_eq_none_iff hC k).1 hr).2 hz
  | some r => exact ⟨r, rfl⟩

theorem toAffine_smul_base_eq_iff (a b : Nat) :
    C.toAffine (C.smul a C.base) = C.toAffine (C.smul b C.base) ↔ a % C.q = b % C.q :=
  ⟨fun h => (hC.smul_base_eq_iff a b).1 (hC.toAffine_inj _ _ h),
   fun h => congrArg _ ((hC.smul_base_eq_iff a b).2 h)⟩

theorem mul_mod_ne_zero {a b : Nat} (ha : a % C.q ≠ 0) (hb : b % C.q ≠ 0) : (a * b) % C.q ≠ 0 := by
  intro h
  rcases (Nat.Prime.dvd_mul hC.q_prime).1 (Nat.dvd_of_mod_eq_zero h) with h1 | h1
  · exact ha (Nat.mod_eq_zero_of_dvd h1)
  · exact hb (Nat.mod_eq_zero_of_dvd h1)

theorem lift_of_toAffine {a : P} {v : ECPoint} (h : C.toAffine a = some v) : C.lift v = some a :=
  hC.toAffine_ofAffine v.1 v.2 a h

end scalar

/-! ### `create`: the commitment vector -/

theorem ecBaseMult_some (C : Curve P) {a : Nat} {r : ECPoint}
    (h : C.toAffine (C.smul a C.base) = some r) : C.ecBaseMult (a : Int) = .ok r := by
  simp only [Curve.ecBaseMult, Int.natAbs_natCast, h]

theorem ecBaseMult_none (C : Curve P) {a : Nat}
    (h : C.toAffine (C.smul a C.base) = none) :
    C.ecBaseMult (a : Int) = .panic "scalar-base-mult-identity" := by
  simp only [Curve.ecBaseMult, Int.natAbs_natCast, h]

theorem mapM_baseMult_ok (C : Curve P) (l : List Nat)
    (h : ∀ a ∈ l, ∃ r, C.toAffine (C.smul a C.base) = some r) :
    ∃ vs, l.mapM (fun (a : Nat) => C.ecBaseMult (a : Int)) = .ok vs ∧ IsCommitment C l vs := by
  induction l with
  | nil => exact ⟨[], rfl, List.Forall₂.nil⟩
  | cons a l ih =>
    obtain ⟨r, hr⟩ := h a (List.mem_cons_self ..)
    obtain ⟨vs, hvs, hcom⟩ := ih (fun b hb => h b (List.mem_cons_of_mem _ hb))
    refine ⟨r :: vs, ?_, List.Forall₂.cons hr hcom⟩
    rw [List.mapM_cons, ecBaseMult_some C hr, hvs]
    rfl

theorem mapM_baseMult_panic (C : Curve P) (l : List Nat)
    (h : ∃ a ∈ l, C.toAffine (C.smul a C.base) = none) :
    l.mapM (fun (a : Nat) => C.ecBaseMult (a : Int)) = .panic "scalar-base-mult-identity" := by
  induction l with
  | nil => obtain ⟨a, ha, _⟩ := h; cases ha
  | cons a l ih =>
    rw [List.mapM_cons]
    cases hr : C.toAffine (C.smul a C.base) with
    | none => rw [ecBaseMult_none C hr]; rfl
    | some r =>
      rw [ecBaseMult_some C hr]
      have : ∃ b ∈ l, C.toAffine (C.smul b C.base) = none := by
        obtain ⟨b, hb, hbn⟩ := h
        rcases List.mem_cons.1 hb with rfl | hb
        · rw [hr] at hbn; cases hbn
        · exact ⟨b, hb, hbn⟩
      rw [ih this]
      rfl

/-- the three guards of `create` -/
def createGuards (q threshold : Nat) (ids : List Nat) : Bool :=
  !(decide (threshold < 1)) && checkIndexes q ids && !(decide (ids.length < threshold))

theorem create_of_guards_fail (C : Curve P) (t secret : Nat) (ids coeffs : List Nat)
    (h : createGuards C.q t ids = false) : ∃ e, create C t secret ids coeffs = .err e := by
  unfold create
  unfold createGuards at h
  split
  · exact ⟨_, rfl⟩
  · split
    · exact ⟨_, rfl⟩
    · split
      · exact ⟨_, rfl⟩
      · simp_all

theorem create_of_guards (C : Curve P) (t secret : Nat) (ids coeffs : List Nat)
    (h : createGuards C.q t ids = true) :
    create C t secret ids coeffs =
      match (secret :: coeffs).mapM (fun (a : Nat) => C.ecBaseMult (a : Int)) with
      | .ok vs => .ok (vs, ids.map fun id => ⟨t, id, evalPoly C.q (secret :: coeffs) id⟩)
      | .err e => .err e
      | .panic e => .panic e := by
  unfold createGuards at h
  simp only [Bool.and_eq_true, Bool.not_eq_true', decide_eq_false_iff_not] at h
  obtain ⟨⟨h1, h2⟩, h3⟩ := h
  unfold create
  rw [if_neg h1, if_neg (by simp [h2]), if_neg h3]
  rfl

/-! ### `verify` -/

/-- scalar shadow of `verifyLoop`: the exponent of the accumulator; `none` when a partial sum is the
identity and (`nz`) the identity has no affine form -/
def sLoop (q id : Nat) (nz : Bool) : List Nat → Nat → Nat → Option Nat
  | [], _, S => some S
  | a :: as, t, S =>
    let t' := t * id % q
    let S' := S + t' * a
    if nz && S' % q == 0 then none else sLoop q id nz as t' S'

theorem verifyLoop_eq (hC : C.Lawful) (id : Nat) (hid : id % C.q ≠ 0) :
    ∀ (as : List Nat) (vs : List ECPoint) (t S : Nat) (v : ECPoint), IsCommitment C as vs →
      t % C.q ≠ 0 → C.toAffine (C.smul S C.base) = some v →
      verifyLoop C id vs t v =
        .ok ((sLoop C.q id (decide (C.toAffine C.zero = none)) as t S).bind
          fun S' => C.toAffine (C.smul S' C.base)) := by
  intro as
  induction as with
  | nil =>
    intro vs t S v hcom _ hv
    cases hcom
    simp [verifyLoop, sLoop, hv]
  | cons a as ih =>
    intro vs t S v hcom ht hv
    cases hcom with
    | cons ha hrest =>
    rename_i vj rest
    have ht' : (t * id % C.q) % C.q ≠ 0 := by
      rw [Nat.mod_mod]; exact mul_mod_ne_zero hC ht hid
    -- the scalar multiplication
    have hsm : C.smul (t * id % C.q) (C.smul a C.base) = C.smul (t * id % C.q * a) C.base :=
      (hC.smul_mul _ _ _).symm
    have hsome : ∃ r, C.toAffine (C.smul (t * id % C.q * a) C.base) = some r := by
      cases hr : C.toAffine (C.smul (t * id % C.q * a) C.base) with
      | some r => exact ⟨r, rfl⟩
      | none =>
        exfalso
        obtain ⟨h1, h2⟩ := (toAffine_smul_base_eq_none_iff hC _).1 hr
        have ha0 : a % C.q ≠ 0 := by
          intro h0
          have := (toAffine_smul_base_eq_none_iff hC a).2 ⟨h0, h2⟩
          rw [ha] at this; cases this
        exact mul_mod_ne_zero hC ht' ha0 h1
    obtain ⟨vjt, hvjt⟩ := hsome
    have hmul : C.ecScalarMult vj ((t * id % C.q : Nat) : Int) = .ok vjt := by
      unfold Curve.ecScalarMult
      rw [lift_of_toAffine hC ha]
      simp only [Int.natAbs_natCast]
      rw [hsm, hvjt]
    have hadd : C.add (C.smul S C.base) (C.smul (t * id % C.q * a) C.base) =
        C.smul (S + t * id % C.q * a) C.base := (hC.smul_add _ _ _).symm
    rw [verifyLoop]
    rw [hmul]
    simp only
    unfold Curve.ecAdd
    rw [lift_of_toAffine hC hv, lift_of_toAffine hC hvjt]
    simp only
    rw [hadd, sLoop]
    cases hr : C.toAffine (C.smul (S + t * id % C.q * a) C.base) with
    | none =>
      obtain ⟨h1, h2⟩ := (toAffine_smul_base_eq_none_iff hC _).1 hr
      simp [h1, h2]
    | some v' =>
      simp only
      rw [ih rest (t * id % C.q) (S + t * id % C.q * a) v' hrest ht' hr]
      have : ¬ ((S + t * id % C.q * a) % C.q = 0 ∧ C.toAffine C.zero = none) := by
        intro h
        rw [(toAffine_smul_base_eq_none_iff hC _).2 h] at hr
        cases hr
      have hc : (decide (C.toAffine C.zero = none) && (S + t * id % C.q * a) % C.q == 0) = false := by
        rw [Bool.and_eq_false_iff]
        by_cases hz : C.toAffine C.zero = none
        · right
          simpa using fun h0 => this ⟨h0, hz⟩
        · left; simpa using hz
      rw [hc]
      rfl

/-- the part of `verify` after its guards -/
def verifyTail (C : Curve P) (sh : Share) (vs : List ECPoint) : Outcome Bool :=
  match vs with
  | [] => .ok false
  | v0 :: rest =>
    match verifyLoop C sh.id rest 1 v0 with
    | .ok (some v) =>
      match C.ecBaseMult sh.share with
      | .ok sg => .ok (ecEquals sg v)
      | .err e => .err e
      | .panic e => .panic e
    | .ok none => .ok false
    | .err e => .err e
    | .panic e => .panic e

theorem verify_unfold (C : Curve P) (cfg : VerifyCfg) (t : Nat) (sh : Share) (vs : List ECPoint) :
    verify C cfg t sh vs =
      if sh.threshold != t || vs.length != t + 1 then .ok false else
      if cfg.rejectZero && (sh.share % C.q == 0 || sh.id % C.q == 0) then .ok false else
      verifyTail C sh vs := by
  unfold verify verifyTail
  rfl

theorem ecEquals_iff (a b : ECPoint) : ecEquals a b = true ↔ a = b := by
  obtain ⟨a1, a2⟩ := a
  obtain ⟨b1, b2⟩ := b
  simp [ecEquals]

/-- `verifyTail` in terms of the scalar loop, for commitments to `a0 :: as` -/
theorem verifyTail_eq (hC : C.Lawful) (a0 : Nat) (as : List Nat) (vs : List ECPoint)
    (hcom : IsCommitment C (a0 :: as) vs) (sh : Share) (hid : sh.id % C.q ≠ 0) :
    verifyTail C sh vs =
      match sLoop C.q sh.id (decide (C.toAffine C.zero = none)) as 1 a0 with
      | none => .ok false
      | some S' =>
        if sh.share % C.q = 0 ∧ C.toAffine C.zero = none then .panic "scalar-base-mult-identity"
        else .ok (decide (sh.share % C.q = S' % C.q)) := by
  cases hcom with
  | cons h0 hrest =>
  rename_i v0 rest
  have h1 : 1 % C.q ≠ 0 := by
    rw [Nat.mod_eq_of_lt hC.one_lt_q]; exact one_ne_zero
  unfold verifyTail
  simp only
  rw [verifyLoop_eq hC sh.id hid as rest 1 a0 v0 hrest h1 h0]
  cases hs : sLoop C.q sh.id (decide (C.toAffine C.zero = none)) as 1 a0 with
  | none => rfl
  | some S' =>
    simp only [Option.bind_some]
    cases hv : C.toAffine (C.smul S' C.base) with
    | none =>
      -- impossible: the loop only returns exponents whose point has an affine form … unless `as = []`
      exfalso
      revert hs hv
      suffices H : ∀ (as : List Nat) (t S : Nat), (∃ r, C.toAffine (C.smul S C.base) = some r) →
          sLoop C.q sh.id (decide (C.toAffine C.zero = none)) as t S = some S' →
          C.toAffine (C.smul S' C.base) = none → False from
        fun hs hv => H as 1 a0 ⟨v0, h0⟩ hs hv
      intro as
      induction as with
      | nil =>
        intro t S ⟨r, hr⟩ hs hv
        simp only [sLoop, Option.some.injEq] at hs
        subst hs
        rw [hr] at hv; cases hv
      | cons a as ih =>
        intro t S _ hs hv
        rw [sLoop] at hs
        split at hs
        · cases hs
        · rename_i hc
          refine ih _ _ ?_ hs hv
          cases hr : C.toAffine (C.smul (S + t * sh.id % C.q * a) C.base) with
          | some r => exact ⟨r, rfl⟩
          | none =>
            exfalso
            obtain ⟨e1, e2⟩ := (toAffine_smul_base_eq_none_iff hC _).1 hr
            apply hc
            simp [e1, e2]
    | some v =>
      simp only
      cases hsg : C.toAffine (C.smul sh.share C.base) with
      | none =>
        have := (toAffine_smul_base_eq_none_iff hC _).1 hsg
        rw [ecBaseMult_none C hsg]
        simp only
        rw [if_pos this]
      | some sg =>
        have hne : ¬ (sh.share % C.q = 0 ∧ C.toAffine C.zero = none) := by
          intro h
          rw [(toAffine_smul_base_eq_none_iff hC _).2 h] at hsg
          cases hsg
        rw [ecBaseMult_some C hsg]
        simp only
        rw [if_neg hne]
        congr 1
        rw [Bool.eq_iff_iff, ecEquals_iff, decide_eq_true_iff, ← toAffine_smul_base_eq_iff hC, hsg, hv,
          Option.some.injEq]

/-! ### the scalar loop is Horner evaluation -/
section sloop
variable {q : Nat}

theorem sLoop_some (id : Nat) (nz : Bool) (as : List Nat) (t S R : Nat)
    (h : sLoop q id nz as t S = some R) :
    (R : ZMod q) = (S : ZMod q) + t * id * (polyNat as id : Nat) := by
  induction as generalizing t S with
  | nil =>
    simp only [sLoop, Option.some.injEq] at h
    subst h
    simp [polyNat]
  | cons a as ih =>
    rw [sLoop] at h
    split at h
    · cases h
    · rw [ih _ _ h, polyNat]
      push_cast [ZMod.natCast_mod]
      ring

theorem sLoop_none_iff (id : Nat) (nz : Bool) (as : List Nat) (t S : Nat) :
    sLoop q id nz as t S = none ↔
      nz = true ∧ ∃ k, k < as.length ∧ (S + t * id * polyNat (as.take (k + 1)) id) % q = 0 := by
  induction as generalizing t S with
  | nil => simp [sLoop]
  | cons a as ih =>
    rw [sLoop]
    have key : ∀ (l : List Nat), ((S + t * id % q * a + t * id % q * id * polyNat l id : Nat) : ZMod q)
        = ((S + t * id * polyNat (a :: l) id : Nat) : ZMod q) := by
      intro l
      rw [polyNat]
      push_cast [ZMod.natCast_mod]
      ring
    have key' : ∀ (l : List Nat), (S + t * id % q * a + t * id % q * id * polyNat l id) % q
        = (S + t * id * polyNat (a :: l) id) % q := fun l =>
      (ZMod.natCast_eq_natCast_iff' _ _ _).1 (key l)
    split
    · rename_i hc
      simp only [Bool.and_eq_true, beq_iff_eq] at hc
      refine ⟨fun _ => ⟨hc.1, 0, by simp, ?_⟩, fun _ => rfl⟩
      have := key' []
      simp only [polyNat, Nat.mul_zero, Nat.add_zero] at this
      rw [List.take_succ_cons, List.take_zero, polyNat, polyNat, Nat.mul_zero, Nat.add_zero, ← this]
      exact hc.2
    · rename_i hc
      rw [ih]
      constructor
      · rintro ⟨hnz, k, hk, hz⟩
        refine ⟨hnz, k + 1, by simpa using hk, ?_⟩
        rw [List.take_succ_cons, ← key']
        exact hz
      · rintro ⟨hnz, k, hk, hz⟩
        refine ⟨hnz, ?_⟩
        cases k with
        | zero =>
          exfalso
          apply hc
          have := key' []
          simp only [polyNat, Nat.mul_zero, Nat.add_zero] at this
          rw [List.take_succ_cons, List.take_zero, polyNat, polyNat, Nat.mul_zero, Nat.add_zero,
            ← this] at hz
          simp [hnz, hz]
        | succ k =>
          refine ⟨k, by simpa using hk, ?_⟩
          rw [List.take_succ_cons, ← key'] at hz
          exact hz

end sloop

/-- no partial sum `a_0 + a_1 id + … + a_j id^j`, `1 ≤ j < t`, vanishes modulo `q`
(`as = [a_0, …, a_t]`); decidable -/
def PartialSumsNonzero (q : Nat) (as : List Nat) (id : Nat) : Prop :=
  ∀ j, j < as.length - 1 → 1 ≤ j → polyNat (as.take (j + 1)) id % q ≠ 0

instance (q : Nat) (as : List Nat) (id : Nat) : Decidable (PartialSumsNonzero q as id) :=
  inferInstanceAs (Decidable (∀ j, j < as.length - 1 → 1 ≤ j → polyNat (as.take (j + 1)) id % q ≠ 0))

/-- the scalar loop started as `verify` starts it -/
theorem sLoop_start_some {q : Nat} (id : Nat) (nz : Bool) (a0 : Nat) (as : List Nat) (R : Nat)
    (h : sLoop q id nz as 1 a0 = some R) : R % q = polyNat (a0 :: as) id % q := by
  apply (ZMod.natCast_eq_natCast_iff' _ _ _).1
  rw [sLoop_some id nz as 1 a0 R h, polyNat]
  push_cast
  ring

theorem sLoop_start_none {q : Nat} (id : Nat) (nz : Bool) (a0 : Nat) (as : List Nat)
    (h : sLoop q id nz as 1 a0 = none) :
    nz = true ∧ ∃ j, 1 ≤ j ∧ j < (a0 :: as).length ∧ polyNat ((a0 :: as).take (j + 1)) id % q = 0 := by
  obtain ⟨hnz, k, hk, hz⟩ := (sLoop_none_iff id nz as 1 a0).1 h
  refine ⟨hnz, k + 1, by omega, by simpa using hk, ?_⟩
  rw [List.take_succ_cons, polyNat]
  rw [Nat.one_mul] at hz
  exact hz

theorem sLoop_start_isSome {q : Nat} (id : Nat) (nz : Bool) (a0 : Nat) (as : List Nat)
    (h : nz = true → ∀ j, 1 ≤ j → j < (a0 :: as).length →
      polyNat ((a0 :: as).take (j + 1)) id % q ≠ 0) :
    ∃ R, sLoop q id nz as 1 a0 = some R := by
  cases hs : sLoop q id nz as 1 a0 with
  | some R => exact ⟨R, rfl⟩
  | none =>
    obtain ⟨hnz, j, h1, h2, h3⟩ := sLoop_start_none id nz a0 as hs
    exact absurd h3 (h hnz j h1 h2)

/-! ### `verify` with the K2 repair (`curVss.rejectZero = true`) -/

theorem verify_curVss_eq (C : Curve P) (t : Nat) (sh : Share) (vs : List ECPoint) :
    verify C curVss t sh vs =
      if sh.threshold = t ∧ vs.length = t + 1 ∧ sh.share % C.q ≠ 0 ∧ sh.id % C.q ≠ 0
      then verifyTail C sh vs else .ok false := by
  rw [verify_unfold]
  by_cases h1 : sh.threshold = t <;> by_cases h2 : vs.length = t + 1 <;>
    by_cases h3 : sh.share % C.q = 0 <;> by_cases h4 : sh.id % C.q = 0 <;>
    simp [h1, h2, h3, h4, curVss]

/-- complete description of `verify` on well-formed commitments: it never fails or panics, and accepts
exactly when the scalar loop survives and ends at the share value -/
theorem verify_commitment (hC : C.Lawful) (as : List Nat) (vs : List ECPoint)
    (hcom : IsCommitment C as vs) (t : Nat) (hlen : as.length = t + 1) (sh : Share) :
    ∃ b, verify C curVss t sh vs = .ok b ∧
      (b = true ↔ sh.threshold = t ∧ sh.share % C.q ≠ 0 ∧ sh.id % C.q ≠ 0 ∧
        ∃ R, sLoop C.q sh.id (decide (C.toAffine C.zero = none)) as.tail 1 as.head! = some R ∧
          sh.share % C.q = R % C.q) := by
  rw [verify_curVss_eq]
  have hvl : vs.length = t + 1 := by rw [← hcom.length_eq, hlen]
  by_cases hg : sh.threshold = t ∧ vs.length = t + 1 ∧ sh.share % C.q ≠ 0 ∧ sh.id % C.q ≠ 0
  · rw [if_pos hg]
    obtain ⟨h1, _, h3, h4⟩ := hg
    cases as with
    | nil => simp at hlen
    | cons a0 as =>
      rw [verifyTail_eq hC a0 as vs hcom sh h4]
      simp only [List.tail_cons, List.head!_cons]
      cases hs : sLoop C.q sh.id (decide (C.toAffine C.zero = none)) as 1 a0 with
      | none => exact ⟨false, rfl, by simp⟩
      | some R =>
        simp only
        rw [if_neg (fun h => h3 h.1)]
        refine ⟨_, rfl, ?_⟩
        simp [h1, h3, h4]
  · rw [if_neg hg]
    refine ⟨false, rfl, ?_⟩
    constructor
    · intro h; cases h
    · rintro ⟨h1, h3, h4, _⟩
      exact absurd ⟨h1, hvl, h3, h4⟩ hg

/-- before the K2 repair a share value `≡ 0 (mod q)` reaches `ScalarBaseMult` and crashes it, on a curve
whose identity has no affine form -/
theorem verify_unrepaired_panics (hC : C.Lawful) (hz : C.toAffine C.zero = none)
    (a0 : Nat) (as : List Nat) (vs : List ECPoint) (hcom : IsCommitment C (a0 :: as) vs)
    (t : Nat) (hlen : (a0 :: as).length = t + 1) (id s : Nat) (hid : id % C.q ≠ 0) (hs : s % C.q = 0)
    (hps : ∀ j, 1 ≤ j → j < (a0 :: as).length → polyNat ((a0 :: as).take (j + 1)) id % C.q ≠ 0) :
    verify C ⟨false⟩ t ⟨t, id, s⟩ vs = .panic "scalar-base-mult-identity" := by
  rw [verify_unfold]
  have hvl : vs.length = t + 1 := by rw [← hcom.length_eq, hlen]
  simp only [bne_self_eq_false, hvl, Bool.or_self, Bool.false_eq_true, ↓reduceIte, Bool.false_and]
  rw [verifyTail_eq hC a0 as vs hcom _ hid]
  obtain ⟨R, hR⟩ := sLoop_start_isSome (q := C.q) id (decide (C.toAffine C.zero = none)) a0 as
    (fun _ => hps)
  simp only [hR]
  rw [if_pos ⟨hs, hz⟩]

/-! ### no panic on arbitrary on-curve commitments -/

theorem verifyLoop_no_panic (hC : C.Lawful)
    (hcof : C.toAffine C.zero = none → ∀ p, C.smul C.q p = C.zero)
    (id : Nat) (hid : id % C.q ≠ 0) :
    ∀ (vs : List ECPoint) (t : Nat) (v : ECPoint), AllOnCurve C vs → C.ecIsOnCurve v = true →
      t % C.q ≠ 0 → ∃ r, verifyLoop C id vs t v = .ok r := by
  intro vs
  induction vs with
  | nil => intro t v _ _ _; exact ⟨_, rfl⟩
  | cons vj rest ih =>
    intro t v hvs hv ht
    have hvj : C.ecIsOnCurve vj = true := hvs vj (List.mem_cons_self ..)
    obtain ⟨pj, hpj⟩ : ∃ pj, C.lift vj = some pj := Option.isSome_iff_exists.1 hvj
    obtain ⟨pv, hpv⟩ : ∃ pv, C.lift v = some pv := Option.isSome_iff_exists.1 hv
    have ht' : (t * id % C.q) % C.q ≠ 0 := by
      rw [Nat.mod_mod]; exact mul_mod_ne_zero hC ht hid
    obtain ⟨vjt, hvjt⟩ : ∃ r, C.toAffine (C.smul (t * id % C.q) pj) = some r := by
      cases hr : C.toAffine (C.smul (t * id % C.q) pj) with
      | some r => exact ⟨r, rfl⟩
      | none =>
        exfalso
        obtain ⟨h1, h2⟩ := (hC.toAffine_eq_none_iff _).1 hr
        have h0 := hC.eq_zero_of_smul_eq_zero (hcof h2 pj) ht' h1
        have hpa := hC.ofAffine_toAffine _ _ _ hpj
        rw [h0, h2] at hpa
        cases hpa
    have hmul : C.ecScalarMult vj ((t * id % C.q : Nat) : Int) = .ok vjt := by
      unfold Curve.ecScalarMult
      rw [hpj]
      simp only [Int.natAbs_natCast]
      rw [hvjt]
    rw [verifyLoop, hmul]
    simp only
    unfold Curve.ecAdd
    rw [hpv, lift_of_toAffine hC hvjt]
    simp only
    cases hr : C.toAffine (C.add pv (C.smul (t * id % C.q) pj)) with
    | none => exact ⟨none, rfl⟩
    | some v' =>
      simp only
      refine ih _ v' (fun w hw => hvs w (List.mem_cons_of_mem _ hw)) ?_ ht'
      have := lift_of_toAffine hC hr
      unfold Curve.ecIsOnCurve
      unfold Curve.lift at this
      rw [this]; rfl

/-- **K2 repaired**: with `rejectZero` the verifier returns a verdict on every input whose commitments
are curve points (`hcof`: if the identity has no affine form, the group has prime order `q`) -/
theorem verify_no_panic (hC : C.Lawful)
    (hcof : C.toAffine C.zero = none → ∀ p, C.smul C.q p = C.zero)
    (t : Nat) (sh : Share) (vs : List ECPoint) (hvs : AllOnCurve C vs) :
    ∃ b, verify C curVss t sh vs = .ok b := by
  rw [verify_curVss_eq]
  split
  · rename_i hg
    obtain ⟨_, _, h3, h4⟩ := hg
    unfold verifyTail
    cases vs with
    | nil => exact ⟨_, rfl⟩
    | cons v0 rest =>
      simp only
      have h1 : 1 % C.q ≠ 0 := by
        rw [Nat.mod_eq_of_lt hC.one_lt_q]; exact one_ne_zero
      obtain ⟨r, hr⟩ := verifyLoop_no_panic hC hcof sh.id h4 rest 1 v0
        (fun w hw => hvs w (List.mem_cons_of_mem _ hw)) (hvs v0 (List.mem_cons_self ..)) h1
      rw [hr]
      cases r with
      | none => exact ⟨_, rfl⟩
      | some v =>
        simp only
        obtain ⟨sg, hsg⟩ := toAffine_smul_base_isSome hC h3
        rw [ecBaseMult_some C hsg]
        exact ⟨_, rfl⟩
  · exact ⟨_, rfl⟩

theorem IsCommitment.allOnCurve (hC : C.Lawful) {as : List Nat} {vs : List ECPoint}
    (h : IsCommitment C as vs) : AllOnCurve C vs := by
  induction h with
  | nil => intro v hv; cases hv
  | cons ha _ ih =>
    intro v hv
    rcases List.mem_cons.1 hv with rfl | hv
    · have := lift_of_toAffine hC ha
      unfold Curve.ecIsOnCurve
      unfold Curve.lift at this
      rw [this]; rfl
    · exact ih v hv

end Vss
end TssVerif
