import TssVerif.Lemmas.Engine2Hist
/-! Order independence of deliveries for the two-committee engine: local confluence, duplicates, permutations,
deliveries before `Start`. Port of `Lemmas/EngineOrder.lean`. -/
set_option autoImplicit false
namespace TssVerif.E2L
open TssVerif.Engine (Slot)
open TssVerif.Engine2

/-! ## 21. good messages -/

/-- `m` carries the flag every round that needs its type requires (from either committee), and it is not for the
party's own slot (a slot the party's own `Start` writes: own index and a type the party stores itself) -/
def Good (tbl : List RSpec) (self : Nat) (m : Msg) : Prop :=
  ¬ (m.frm = self ∧ ownTy tbl m.ty = true) ∧
  ∀ r ∈ tbl, (∀ tf ∈ r.needsOld, tf.1 = m.ty → tf.2 = m.slot.flag) ∧
             (∀ tf ∈ r.needsNew, tf.1 = m.ty → tf.2 = m.slot.flag)

theorem sat_storeMsg {needs : List (Nat × Bool)} {p : Party} {m : Msg}
    (hg : ∀ tf ∈ needs, tf.1 = m.ty → tf.2 = m.slot.flag) (j : Nat) (h : sat needs p.store j = true) :
    sat needs (storeMsg m p).store j = true := by
  rw [sat_iff] at *
  intro tf htf
  simp only [storeMsg]
  by_cases hc : tf.1 = m.ty ∧ j = m.frm
  · rw [if_pos hc]
    exact ⟨m.slot, rfl, (hg tf htf hc.1).symm⟩
  · rw [if_neg hc]; exact h tf htf

theorem scan_okOld_storeMsg {tbl : List RSpec} {r : RSpec} (hr : r ∈ tbl) {p : Party} {m : Msg}
    (hg : Good tbl p.self m) (j : Nat) (h : (scan r p).okOld j = true) : (scan r (storeMsg m p)).okOld j = true := by
  rw [scan_okOld_iff] at *
  rcases h with h | ⟨h1, h2, h3, h4⟩
  · exact Or.inl h
  · exact Or.inr ⟨h1, h2, h3, sat_storeMsg (hg.2 r hr).1 j h4⟩

theorem scan_okNew_storeMsg {tbl : List RSpec} {r : RSpec} (hr : r ∈ tbl) {p : Party} {m : Msg}
    (hg : Good tbl p.self m) (j : Nat) (h : (scan r p).okNew j = true) : (scan r (storeMsg m p)).okNew j = true := by
  rw [scan_okNew_iff] at *
  rcases h with h | ⟨h1, h2, h3, h4⟩
  · exact Or.inl h
  · exact Or.inr ⟨h1, h2, h3, sat_storeMsg (hg.2 r hr).2 j h4⟩

/-- K1: scanning, storing a good message and scanning again is the same as storing and scanning -/
theorem scan_store_scan {tbl : List RSpec} {r : RSpec} (hr : r ∈ tbl) {p : Party} {m : Msg}
    (hg : Good tbl p.self m) :
    scan r (storeMsg m (scan r p)) = scan r (storeMsg m p) := by
  have hst : (storeMsg m (scan r p)).store = (storeMsg m p).store := by
    simp only [storeMsg, scan_store]
  apply party_ext
  · rw [scan_nOld, scan_nOld]; exact scan_nOld r p
  · rw [scan_nNew, scan_nNew]; exact scan_nNew r p
  · unfold scan; split <;> rfl
  · rw [scan_self, scan_self]; exact scan_self r p
  · rw [scan_rnd, scan_rnd]; exact scan_rnd r p
  · rw [scan_done, scan_done]; exact scan_done r p
  · intro j
    apply Bool.eq_iff_iff.mpr
    rw [scan_okOld_iff, scan_okOld_iff, hst]
    have e1 : (storeMsg m (scan r p)).okOld j = (scan r p).okOld j := rfl
    have e2 : (storeMsg m p).okOld j = p.okOld j := rfl
    have e3 : (storeMsg m (scan r p)).nOld = p.nOld := scan_nOld r p
    have e4 : (storeMsg m p).nOld = p.nOld := rfl
    rw [e1, e2, e3, e4]
    constructor
    · rintro (h | h)
      · rcases (scan_okOld_iff r p j).mp h with h | ⟨h1, h2, h3, h4⟩
        · exact Or.inl h
        · exact Or.inr ⟨h1, h2, h3, sat_storeMsg (hg.2 r hr).1 j h4⟩
      · exact Or.inr h
    · rintro (h | h)
      · exact Or.inl ((scan_okOld_iff r p j).mpr (Or.inl h))
      · exact Or.inr h
  · intro j
    apply Bool.eq_iff_iff.mpr
    rw [scan_okNew_iff, scan_okNew_iff, hst]
    have e1 : (storeMsg m (scan r p)).okNew j = (scan r p).okNew j := rfl
    have e2 : (storeMsg m p).okNew j = p.okNew j := rfl
    have e3 : (storeMsg m (scan r p)).nNew = p.nNew := scan_nNew r p
    have e4 : (storeMsg m p).nNew = p.nNew := rfl
    rw [e1, e2, e3, e4]
    constructor
    · rintro (h | h)
      · rcases (scan_okNew_iff r p j).mp h with h | ⟨h1, h2, h3, h4⟩
        · exact Or.inl h
        · exact Or.inr ⟨h1, h2, h3, sat_storeMsg (hg.2 r hr).2 j h4⟩
      · exact Or.inr h
    · rintro (h | h)
      · exact Or.inl ((scan_okNew_iff r p j).mpr (Or.inl h))
      · exact Or.inr h
  · rw [scan_store, scan_store]; exact hst
  · rw [scan_out, scan_out]; exact scan_out r p
  · rw [scan_ended, scan_ended]; exact scan_ended r p

theorem putSelf_storeMsg_comm (self k : Nat) (ss : List (Nat × Bool)) (m : Msg)
    (hm : ¬ (m.frm = self ∧ (ss.any fun tf => tf.1 == m.ty) = true))
    (store : Nat → Nat → Option Slot) :
    putSelf self k ss (fun t j => if t = m.ty ∧ j = m.frm then some m.slot else store t j) =
    fun t j => if t = m.ty ∧ j = m.frm then some m.slot else putSelf self k ss store t j := by
  funext t j
  unfold putSelf
  by_cases h1 : j = self ∧ (ss.any fun tf => tf.1 == t) = true
  · have : ¬ (t = m.ty ∧ j = m.frm) := by
      rintro ⟨rfl, h3⟩
      exact hm ⟨h3 ▸ h1.1, h1.2⟩
    rw [if_pos h1, if_neg this, if_pos h1]
  · rw [if_neg h1, if_neg h1]

theorem not_own_of_good {tbl : List RSpec} {self : Nat} {m : Msg} (hg : Good tbl self m) {r : RSpec} (hr : r ∈ tbl) :
    ¬ (m.frm = self ∧ (r.selfStore.any fun tf => tf.1 == m.ty) = true) :=
  fun h => hg.1 ⟨h.1, ownTy_of_mem hr h.2⟩

theorem startRound_storeMsg {tbl : List RSpec} {r : RSpec} (hr : r ∈ tbl) (k : Nat) (m : Msg) (p : Party)
    (hg : Good tbl p.self m) : startRound r k (storeMsg m p) = storeMsg m (startRound r k p) := by
  simp only [startRound, storeMsg]
  congr 1
  rw [putSelf_storeMsg_comm _ _ _ _ (not_own_of_good hg hr)]

/-- K2: a productive step commutes with storing a good message -/
theorem step_storeMsg {tbl : List RSpec} {p p' : Party} {m : Msg} (hg : Good tbl p.self m)
    (hs : step tbl p = some p') : step tbl (storeMsg m p) = some (storeMsg m p') := by
  obtain ⟨hr0, hd, r, hr, hcp, hc⟩ := step_cases hs
  have hrm : r ∈ tbl := List.mem_of_getElem? hr
  have hcp0 := hcp
  rw [canProceed_iff, scan_nOld, scan_nNew] at hcp
  have hcp' : canProceed (scan r (storeMsg m p)) = true := by
    rw [canProceed_iff, scan_nOld, scan_nNew]
    exact ⟨fun j hj => scan_okOld_storeMsg hrm hg j (hcp.1 j hj), fun j hj => scan_okNew_storeMsg hrm hg j (hcp.2 j hj)⟩
  have hcp'' := hcp'
  rw [canProceed_iff, scan_nOld, scan_nNew] at hcp''
  rw [step_eq_of (p := storeMsg m p) hr0 hd hr, if_pos hcp']
  have e1 : (storeMsg m p).rnd = p.rnd := rfl
  rw [e1]
  rcases hc with ⟨r', hr', rfl⟩ | ⟨hr', rfl⟩
  · rw [hr']
    simp only
    congr 1
    have hr'm : r' ∈ tbl := List.mem_of_getElem? hr'
    apply party_ext
    · show (scan r (storeMsg m p)).nOld = (scan r p).nOld
      rw [scan_nOld, scan_nOld]; rfl
    · show (scan r (storeMsg m p)).nNew = (scan r p).nNew
      rw [scan_nNew, scan_nNew]; rfl
    · show (scan r (storeMsg m p)).isNew = (scan r p).isNew
      unfold scan; split <;> rfl
    · show (scan r (storeMsg m p)).self = (scan r p).self
      rw [scan_self, scan_self]; rfl
    · rfl
    · show (scan r (storeMsg m p)).done = (scan r p).done
      rw [scan_done, scan_done]; rfl
    · intro j; rfl
    · intro j
      show (r'.presetNew || r'.final || (r'.selfOkNew && j == (scan r (storeMsg m p)).self)) =
        (r'.presetNew || r'.final || (r'.selfOkNew && j == (scan r p).self))
      rw [scan_self, scan_self]; rfl
    · show putSelf (scan r (storeMsg m p)).self p.rnd r'.selfStore (scan r (storeMsg m p)).store =
        fun t j => if t = m.ty ∧ j = m.frm then some m.slot else
          putSelf (scan r p).self p.rnd r'.selfStore (scan r p).store t j
      rw [scan_self, scan_store, scan_self, scan_store]
      exact putSelf_storeMsg_comm _ _ _ _ (not_own_of_good hg hr'm) _
    · show (scan r (storeMsg m p)).out ++ _ = (scan r p).out ++ _
      rw [scan_out, scan_out, scan_nNew, scan_nNew]; rfl
    · show (scan r (storeMsg m p)).ended + _ = (scan r p).ended + _
      rw [scan_ended, scan_ended]; rfl
  · rw [hr']
    simp only
    congr 1
    apply party_ext
    · show (scan r (storeMsg m p)).nOld = (scan r p).nOld
      rw [scan_nOld, scan_nOld]; rfl
    · show (scan r (storeMsg m p)).nNew = (scan r p).nNew
      rw [scan_nNew, scan_nNew]; rfl
    · show (scan r (storeMsg m p)).isNew = (scan r p).isNew
      unfold scan; split <;> rfl
    · show (scan r (storeMsg m p)).self = (scan r p).self
      rw [scan_self, scan_self]; rfl
    · show (scan r (storeMsg m p)).rnd = (scan r p).rnd
      rw [scan_rnd, scan_rnd]; rfl
    · rfl
    · intro j
      show (scan r (storeMsg m p)).okOld j = (scan r p).okOld j
      by_cases hj : j < p.nOld
      · rw [hcp''.1 j hj, hcp.1 j hj]
      · apply Bool.eq_iff_iff.mpr
        rw [scan_okOld_iff, scan_okOld_iff]
        constructor
        · rintro (h | ⟨_, h, _⟩)
          · exact Or.inl h
          · exact absurd h hj
        · rintro (h | ⟨_, h, _⟩)
          · exact Or.inl h
          · exact absurd h hj
    · intro j
      show (scan r (storeMsg m p)).okNew j = (scan r p).okNew j
      by_cases hj : j < p.nNew
      · rw [hcp''.2 j hj, hcp.2 j hj]
      · apply Bool.eq_iff_iff.mpr
        rw [scan_okNew_iff, scan_okNew_iff]
        constructor
        · rintro (h | ⟨_, h, _⟩)
          · exact Or.inl h
          · exact absurd h hj
        · rintro (h | ⟨_, h, _⟩)
          · exact Or.inl h
          · exact absurd h hj
    · show (scan r (storeMsg m p)).store = fun t j => if t = m.ty ∧ j = m.frm then some m.slot else (scan r p).store t j
      rw [scan_store, scan_store]; rfl
    · show (scan r (storeMsg m p)).out = (scan r p).out
      rw [scan_out, scan_out]; rfl
    · show (scan r (storeMsg m p)).ended = (scan r p).ended
      rw [scan_ended, scan_ended]; rfl

/-- storing a good message after the closing scan = storing it before, once settled again -/
theorem settle_store_rest (tbl : List RSpec) (m : Msg) (p : Party) (hg : Good tbl p.self m) :
    settleF tbl (storeMsg m (rest tbl p)) = settleF tbl (storeMsg m p) := by
  rcases rest_cases tbl p with e | ⟨r, h0, hd, hr, e⟩
  · rw [e]
  · rw [e]
    have hrm : r ∈ tbl := List.mem_of_getElem? hr
    have h0' : (storeMsg m (scan r p)).rnd ≠ 0 := by show (scan r p).rnd ≠ 0; rw [scan_rnd]; exact h0
    have hd' : (storeMsg m (scan r p)).done = false := by show (scan r p).done = false; rw [scan_done]; exact hd
    have hr' : tbl[(storeMsg m (scan r p)).rnd - 1]? = some r := by
      show tbl[(scan r p).rnd - 1]? = some r
      rw [scan_rnd]; exact hr
    have hstep : step tbl (storeMsg m (scan r p)) = step tbl (storeMsg m p) := by
      rw [step_eq_of h0' hd' hr', step_eq_of (p := storeMsg m p) h0 hd hr, scan_store_scan hrm hg]
      have : (storeMsg m (scan r p)).rnd = (storeMsg m p).rnd := scan_rnd r p
      rw [this]
    have hrest : rest tbl (storeMsg m (scan r p)) = rest tbl (storeMsg m p) := by
      rw [rest_eq_of h0' hd' hr', rest_eq_of (p := storeMsg m p) h0 hd hr, scan_store_scan hrm hg]
    unfold settleF settle
    rw [hstep, hrest]

/-- the heart: settling before storing a good message changes nothing once settled again -/
theorem settle_store_settle (tbl : List RSpec) (m : Msg) (p : Party) (hg : Good tbl p.self m) :
    settleF tbl (storeMsg m (settleF tbl p)) = settleF tbl (storeMsg m p) := by
  refine settleF_induction (tbl := tbl)
    (fun p q => Good tbl p.self m → settleF tbl (storeMsg m q) = settleF tbl (storeMsg m p)) ?_ ?_ p hg
  · intro p _ hg
    exact settle_store_rest tbl m p hg
  · intro p p' hs ih hg
    rw [ih (by rw [step_self hs]; exact hg)]
    exact (settleF_of_step_some (step_storeMsg hg hs)).symm

theorem storeMsg_comm (a b : Msg) (p : Party) (hne : ¬ (a.ty = b.ty ∧ a.frm = b.frm)) :
    storeMsg a (storeMsg b p) = storeMsg b (storeMsg a p) := by
  simp only [storeMsg]
  congr 1
  funext t j
  by_cases h1 : t = a.ty ∧ j = a.frm <;> by_cases h2 : t = b.ty ∧ j = b.frm
  · exact absurd ⟨h1.1 ▸ h2.1, h1.2 ▸ h2.2⟩ hne
  · rw [if_pos h1, if_neg h2, if_pos h1]
  · rw [if_neg h1, if_pos h2, if_pos h2]
  · rw [if_neg h1, if_neg h2, if_neg h2, if_neg h1]

theorem storeMsg_idem (a : Msg) (p : Party) : storeMsg a (storeMsg a p) = storeMsg a p := by
  simp only [storeMsg]
  congr 1
  funext t j
  by_cases h1 : t = a.ty ∧ j = a.frm <;> simp [h1]

/-- two good messages for different slots may be delivered in either order -/
theorem deliver_comm (tbl : List RSpec) (a b : Msg) (p : Party)
    (ha : Good tbl p.self a) (hb : Good tbl p.self b) (hne : ¬ (a.ty = b.ty ∧ a.frm = b.frm)) :
    deliver tbl a (deliver tbl b p) = deliver tbl b (deliver tbl a p) := by
  simp only [deliver_eq]
  rw [settle_store_settle tbl a (storeMsg b p) ha, settle_store_settle tbl b (storeMsg a p) hb,
    storeMsg_comm a b p hne]

/-- duplicates are idempotent -/
theorem deliver_dup (tbl : List RSpec) (a : Msg) (p : Party) (ha : Good tbl p.self a) :
    deliver tbl a (deliver tbl a p) = deliver tbl a p := by
  simp only [deliver_eq]
  rw [settle_store_settle tbl a (storeMsg a p) ha, storeMsg_idem]

/-- delivering to a party after the full settle is delivering directly -/
theorem deliver_settleF (tbl : List RSpec) (m : Msg) (p : Party) (hg : Good tbl p.self m) :
    deliver tbl m (settleF tbl p) = settleF tbl (storeMsg m p) := settle_store_settle tbl m p hg

/-- … and likewise after the closing scan alone -/
theorem deliver_rest (tbl : List RSpec) (m : Msg) (p : Party) (hg : Good tbl p.self m) :
    deliver tbl m (rest tbl p) = settleF tbl (storeMsg m p) := settle_store_rest tbl m p hg

/-! ## 22. sequences -/

def GoodList (tbl : List RSpec) (self : Nat) (ms : List Msg) : Prop := ∀ m ∈ ms, Good tbl self m

def SlotConsistent (ms : List Msg) : Prop := ∀ a ∈ ms, ∀ b ∈ ms, a.ty = b.ty → a.frm = b.frm → a = b

theorem delivers_swap (tbl : List RSpec) (a b : Msg) (p : Party)
    (ha : Good tbl p.self a) (hb : Good tbl p.self b) (hc : a.ty = b.ty → a.frm = b.frm → a = b) :
    deliver tbl a (deliver tbl b p) = deliver tbl b (deliver tbl a p) := by
  by_cases hne : a.ty = b.ty ∧ a.frm = b.frm
  · rw [hc hne.1 hne.2]
  · exact deliver_comm tbl a b p ha hb hne

/-- permuting a slot-consistent list of good messages does not change the outcome -/
theorem delivers_perm (tbl : List RSpec) {ms ms' : List Msg} (hp : ms.Perm ms') :
    ∀ (p : Party), GoodList tbl p.self ms → SlotConsistent ms → delivers tbl ms p = delivers tbl ms' p := by
  induction hp with
  | nil => intro p _ _; rfl
  | cons a _ ih =>
    intro p hg hc
    rw [delivers_cons, delivers_cons]
    exact ih _ (by rw [deliver_self]; exact fun m hm => hg m (List.mem_cons_of_mem _ hm))
      (fun x hx y hy => hc x (List.mem_cons_of_mem _ hx) y (List.mem_cons_of_mem _ hy))
  | swap a b l =>
    intro p hg hc
    rw [delivers_cons, delivers_cons, delivers_cons, delivers_cons]
    congr 1
    exact delivers_swap tbl a b p (hg a (by simp)) (hg b (by simp)) (hc a (by simp) b (by simp))
  | trans h1 _ ih1 ih2 =>
    intro p hg hc
    rw [ih1 p hg hc]
    exact ih2 p (fun m hm => hg m (h1.mem_iff.mpr hm))
      (fun x hx y hy => hc x (h1.mem_iff.mpr hx) y (h1.mem_iff.mpr hy))

/-- a message that is going to be delivered anyway may be delivered first as well -/
theorem delivers_absorb (tbl : List RSpec) (a : Msg) :
    ∀ (ms : List Msg) (p : Party), a ∈ ms → GoodList tbl p.self ms → SlotConsistent ms →
      delivers tbl (a :: ms) p = delivers tbl ms p := by
  intro ms
  induction ms with
  | nil => intro p h; cases h
  | cons b l ih =>
    intro p hm hg hc
    have hga : Good tbl p.self a := hg a hm
    have hgb : Good tbl p.self b := hg b (by simp)
    by_cases hab : a = b
    · subst hab
      simp only [delivers_cons]
      rw [deliver_dup tbl a p hga]
    · have hal : a ∈ l := by
        rcases List.mem_cons.mp hm with h | h
        · exact absurd h hab
        · exact h
      simp only [delivers_cons]
      rw [delivers_swap tbl b a p hgb hga (hc b (by simp) a hm), ← delivers_cons]
      exact ih _ hal (by rw [deliver_self]; exact fun m hm => hg m (List.mem_cons_of_mem _ hm))
        (fun x hx y hy => hc x (List.mem_cons_of_mem _ hx) y (List.mem_cons_of_mem _ hy))

open Classical in
/-- remove earlier copies -/
noncomputable def dedupL : List Msg → List Msg
  | [] => []
  | a :: l => if a ∈ l then dedupL l else a :: dedupL l

theorem mem_dedupL (ms : List Msg) (m : Msg) : m ∈ dedupL ms ↔ m ∈ ms := by
  induction ms with
  | nil => simp [dedupL]
  | cons a l ih =>
    unfold dedupL
    split
    · rename_i h
      rw [ih]
      constructor
      · exact List.mem_cons_of_mem _
      · intro hm
        rcases List.mem_cons.mp hm with h' | h'
        · rw [h']; exact h
        · exact h'
    · rw [List.mem_cons, List.mem_cons, ih]

theorem nodup_dedupL (ms : List Msg) : (dedupL ms).Nodup := by
  induction ms with
  | nil => simp [dedupL]
  | cons a l ih =>
    unfold dedupL
    split
    · exact ih
    · rename_i h
      exact List.nodup_cons.mpr ⟨fun hm => h ((mem_dedupL l a).mp hm), ih⟩

theorem delivers_dedupL (tbl : List RSpec) :
    ∀ (ms : List Msg) (p : Party), GoodList tbl p.self ms → SlotConsistent ms →
      delivers tbl (dedupL ms) p = delivers tbl ms p := by
  intro ms
  induction ms with
  | nil => intro p _ _; rfl
  | cons a l ih =>
    intro p hg hc
    have hgl : GoodList tbl p.self l := fun m hm => hg m (List.mem_cons_of_mem _ hm)
    have hcl : SlotConsistent l := fun x hx y hy => hc x (List.mem_cons_of_mem _ hx) y (List.mem_cons_of_mem _ hy)
    unfold dedupL
    split
    · rename_i h
      rw [ih p hgl hcl]
      exact (delivers_absorb tbl a l p h hgl hcl).symm
    · rw [delivers_cons, delivers_cons]
      exact ih _ (by rw [deliver_self]; exact hgl) hcl

/-- the outcome depends only on the *set* of (slot-consistent, good) messages delivered -/
theorem delivers_same_set (tbl : List RSpec) (ms ms' : List Msg) (p : Party)
    (hset : ∀ m, m ∈ ms ↔ m ∈ ms') (hg : GoodList tbl p.self ms) (hc : SlotConsistent ms) :
    delivers tbl ms p = delivers tbl ms' p := by
  have hg' : GoodList tbl p.self ms' := fun m hm => hg m ((hset m).mpr hm)
  have hc' : SlotConsistent ms' := fun x hx y hy => hc x ((hset x).mpr hx) y ((hset y).mpr hy)
  rw [← delivers_dedupL tbl ms p hg hc, ← delivers_dedupL tbl ms' p hg' hc']
  have hperm : (dedupL ms).Perm (dedupL ms') :=
    (List.perm_ext_iff_of_nodup (nodup_dedupL ms) (nodup_dedupL ms')).mpr
      (fun m => by rw [mem_dedupL, mem_dedupL]; exact hset m)
  exact delivers_perm tbl hperm p (fun m hm => hg m ((mem_dedupL ms m).mp hm))
    (fun x hx y hy => hc x ((mem_dedupL ms x).mp hx) y ((mem_dedupL ms y).mp hy))

/-! ## 23. deliveries before `Start` -/

def stores (ms : List Msg) (p : Party) : Party := ms.foldl (fun p m => storeMsg m p) p

theorem stores_rnd (ms : List Msg) (p : Party) : (stores ms p).rnd = p.rnd := by
  induction ms generalizing p with
  | nil => rfl
  | cons m ms ih => exact ih (storeMsg m p)

theorem stores_self (ms : List Msg) (p : Party) : (stores ms p).self = p.self := by
  induction ms generalizing p with
  | nil => rfl
  | cons m ms ih => exact ih (storeMsg m p)

theorem delivers_of_not_started (tbl : List RSpec) (ms : List Msg) (p : Party) (h : p.rnd = 0) :
    delivers tbl ms p = stores ms p := by
  induction ms generalizing p with
  | nil => rfl
  | cons m ms ih =>
    rw [delivers_cons, deliver_of_not_started m (Or.inl h)]
    exact ih (storeMsg m p) h

theorem startRound_stores {tbl : List RSpec} {r : RSpec} (hr : r ∈ tbl) (k : Nat) (ms : List Msg) (p : Party)
    (hg : GoodList tbl p.self ms) : startRound r k (stores ms p) = stores ms (startRound r k p) := by
  induction ms generalizing p with
  | nil => rfl
  | cons m ms ih =>
    show startRound r k (stores ms (storeMsg m p)) = stores ms (storeMsg m (startRound r k p))
    rw [ih (storeMsg m p) (fun x hx => hg x (List.mem_cons_of_mem _ hx)),
      startRound_storeMsg hr k m p (hg m (by simp))]

/-- storing a list of good messages and settling once = settling and delivering them one by one -/
theorem settleF_stores (tbl : List RSpec) (ms : List Msg) (p : Party) (hg : GoodList tbl p.self ms) :
    settleF tbl (stores ms p) = delivers tbl ms (settleF tbl p) := by
  induction ms generalizing p with
  | nil => rfl
  | cons m ms ih =>
    show settleF tbl (stores ms (storeMsg m p)) = delivers tbl ms (deliver tbl m (settleF tbl p))
    rw [ih (storeMsg m p) (fun x hx => hg x (List.mem_cons_of_mem _ hx)),
      deliver_settleF tbl m p (hg m (by simp))]

/-- once one good message has been delivered it no longer matters whether `Start` ran the advance loop -/
theorem delivers_start_pre (tbl : List RSpec) (m : Msg) (ms : List Msg) (p : Party) (h0 : p.rnd = 0)
    (hg : GoodList tbl p.self (m :: ms)) :
    delivers tbl (m :: ms) (start tbl false p) = delivers tbl (m :: ms) (start tbl true p) := by
  cases hr : tbl[0]? with
  | none => rw [start_eq_of_none hr, start_eq_of_none hr]
  | some r =>
    rw [start_eq_false h0 hr, start_eq_true h0 hr, delivers_cons, delivers_cons]
    have hgm : Good tbl (startRound r 0 p).self m := hg m (by simp)
    rw [deliver_rest tbl m _ hgm, deliver_settleF tbl m _ hgm]

/-- **deliveries before `Start` followed by `Start` = `Start` followed by the same deliveries**
(`Start` runs the advance loop because something was stored) -/
theorem start_delivers (tbl : List RSpec) (ms : List Msg) (p : Party) (h0 : p.rnd = 0)
    (hg : GoodList tbl p.self ms) :
    start tbl (!ms.isEmpty) (delivers tbl ms p) = delivers tbl ms (start tbl false p) := by
  cases ms with
  | nil => rfl
  | cons m ms =>
    rw [delivers_start_pre tbl m ms p h0 hg]
    show start tbl true (delivers tbl (m :: ms) p) = _
    rw [delivers_of_not_started tbl _ p h0]
    cases hr : tbl[0]? with
    | none => rw [start_eq_of_none hr, start_eq_of_none hr, delivers_of_not_started tbl _ p h0]
    | some r =>
      have hrm : r ∈ tbl := List.mem_of_getElem? hr
      rw [start_eq_true (by rw [stores_rnd]; exact h0) hr, start_eq_true h0 hr, startRound_stores hrm 0 _ p hg]
      exact settleF_stores tbl _ (startRound r 0 p) hg

end TssVerif.E2L
