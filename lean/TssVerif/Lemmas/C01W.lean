import TssVerif.Lemmas.AlgLagrange
import TssVerif.Lemmas.MiscCkd
/-! `Sign.bigW` / `Sign.bigWs` (the public weighted points `bigWs[j]` of `PrepareForSigning`) against
`Sign.weight` (the private weights `w_j`): both are folds over the same positions with the same
factors `coef q ks[j] ks[c]`; the point fold goes through `Curve.ecScalarMult`, which refuses a product
without affine form. -/
set_option autoImplicit false
set_option linter.style.haveILetI false
set_option linter.unusedSectionVars false
namespace TssVerif.C01W
open TssVerif Sign

/-! ### the two loops, step by step -/

/-- one step of the `weight` loop of signer `i` at position `j` -/
def wstep (q : ℕ) (ks : List ℕ) (i : ℕ) (w j : ℕ) : Option ℕ :=
  if j = i then some w else (coef q (ks.getD i 0) (ks.getD j 0)).map fun c => w * c % q

/-- the `weight` computation cut after the first `m` positions: `x_i` times the first factors -/
def weightPrefix (q : ℕ) (ks : List ℕ) (i m xi : ℕ) : Option ℕ :=
  (List.range m).foldlM (wstep q ks i) xi

theorem weightPrefix_length (q : ℕ) (ks : List ℕ) (i xi : ℕ) :
    weightPrefix q ks i ks.length xi = weight q ks i xi := rfl

section
variable {P : Type} (C : Curve P)

/-- one step of the `bigW` loop of signer `j` at position `c` -/
def bstep (ks : List ℕ) (j : ℕ) (w : ECPoint) (c : ℕ) : Outcome ECPoint :=
  if c = j then .ok w else
    match coef C.q (ks.getD j 0) (ks.getD c 0) with
    | some io => C.ecScalarMult w io
    | none => .panic "nil-mod-inverse"

theorem bigW_eq_fold (ks : List ℕ) (j : ℕ) (xj : ECPoint) :
    bigW C ks j xj = (List.range ks.length).foldlM (bstep C ks j) xj := rfl

theorem weight_eq_fold (q : ℕ) (ks : List ℕ) (i xi : ℕ) :
    weight q ks i xi = (List.range ks.length).foldlM (wstep q ks i) xi := rfl

variable {C}

theorem bstep_self (ks : List ℕ) (j : ℕ) (w : ECPoint) : bstep C ks j w j = .ok w := by
  unfold bstep; rw [if_pos rfl]

theorem bstep_some {ks : List ℕ} {j c io : ℕ} (w : ECPoint) (hc : c ≠ j)
    (h : coef C.q (ks.getD j 0) (ks.getD c 0) = some io) :
    bstep C ks j w c = C.ecScalarMult w (io : Int) := by
  unfold bstep; rw [if_neg hc, h]

theorem bstep_none {ks : List ℕ} {j c : ℕ} (w : ECPoint) (hc : c ≠ j)
    (h : coef C.q (ks.getD j 0) (ks.getD c 0) = none) :
    bstep C ks j w c = .panic "nil-mod-inverse" := by
  unfold bstep; rw [if_neg hc, h]

theorem wstep_self (q : ℕ) (ks : List ℕ) (i w : ℕ) : wstep q ks i w i = some w := by
  unfold wstep; rw [if_pos rfl]

theorem wstep_some {q : ℕ} {ks : List ℕ} {i j io : ℕ} (w : ℕ) (hj : j ≠ i)
    (h : coef q (ks.getD i 0) (ks.getD j 0) = some io) :
    wstep q ks i w j = some (w * io % q) := by
  unfold wstep; rw [if_neg hj, h]; rfl

theorem wstep_none {q : ℕ} {ks : List ℕ} {i j : ℕ} (w : ℕ) (hj : j ≠ i)
    (h : coef q (ks.getD i 0) (ks.getD j 0) = none) :
    wstep q ks i w j = none := by
  unfold wstep; rw [if_neg hj, h]; rfl

/-! ### one `ScalarMult` -/

/-- `io·(a·G)`: either the product has no affine form (panic) or the result is `(a·io mod q)·G` -/
theorem ecScalarMult_base (hC : C.Lawful) {w0 : ECPoint} {a : ℕ} (io : ℕ)
    (h0 : C.lift w0 = some (C.smul a C.base)) :
    (C.toAffine (C.smul (a * io % C.q) C.base) = none ∧
        C.ecScalarMult w0 (io : Int) = .panic "scalar-mult-identity") ∨
    ∃ w1, C.ecScalarMult w0 (io : Int) = .ok w1 ∧ C.lift w1 = some (C.smul (a * io % C.q) C.base) := by
  have hmul : C.smul io (C.smul a C.base) = C.smul (a * io % C.q) C.base := by
    rw [← hC.smul_mul, ← hC.smul_base_mod, Nat.mul_comm]
  unfold Curve.ecScalarMult
  rw [h0]
  simp only [Int.natAbs_natCast, hmul]
  cases hr : C.toAffine (C.smul (a * io % C.q) C.base) with
  | none => exact Or.inl ⟨rfl, rfl⟩
  | some r => exact Or.inr ⟨r, rfl, Vss.lift_of_toAffine hC hr⟩

/-- `io·p` for any point `p` of the curve: never an error -/
theorem ecScalarMult_lift (hC : C.Lawful) {w0 : ECPoint} {p : P} (io : ℕ) (h0 : C.lift w0 = some p) :
    C.ecScalarMult w0 (io : Int) = .panic "scalar-mult-identity" ∨
    ∃ w1, C.ecScalarMult w0 (io : Int) = .ok w1 ∧ C.lift w1 = some (C.smul io p) := by
  unfold Curve.ecScalarMult
  rw [h0]
  simp only [Int.natAbs_natCast]
  cases hr : C.toAffine (C.smul io p) with
  | none => exact Or.inl rfl
  | some r => exact Or.inr ⟨r, rfl, Vss.lift_of_toAffine hC hr⟩

/-- the panic tag of `ScalarMult` -/
theorem ecScalarMult_panic_tag {w0 : ECPoint} {k : Int} {e : String}
    (h : C.ecScalarMult w0 k = .panic e) : e = "scalar-mult-identity" := by
  unfold Curve.ecScalarMult at h
  split at h
  · split at h
    · cases h
    · injection h with h; exact h.symm
  · cases h

/-! ### the factors -/

variable {q : ℕ} [Fact q.Prime]

/-- a factor `k_c/(k_c − k_j)` is `≢ 0` when `k_c ≢ 0` -/
theorem coef_mod_ne_zero {ki kj c : ℕ} (h : coef q ki kj = some c) (hk : kj % q ≠ 0) : c % q ≠ 0 := by
  have hc := AlgL.coef_cast h
  have hne : (kj : ZMod q) ≠ (ki : ZMod q) := by
    intro he
    rw [AlgL.coef_none_of_eq he] at h
    cases h
  have hk' : (kj : ZMod q) ≠ 0 := by
    rw [Ne, ZMod.natCast_eq_zero_iff]
    exact fun hd => hk (Nat.mod_eq_zero_of_dvd hd)
  have : (c : ZMod q) ≠ 0 := by
    rw [hc]
    exact mul_ne_zero hk' (inv_ne_zero (sub_ne_zero.2 hne))
  intro h0
  exact this ((ZMod.natCast_eq_zero_iff _ _).2 (Nat.dvd_of_mod_eq_zero h0))

omit [Fact q.Prime] in
/-- … and `≡ 0` when `k_c ≡ 0` -/
theorem coef_mod_eq_zero {ki kj c : ℕ} (h : coef q ki kj = some c) (hk : kj % q = 0) : c % q = 0 := by
  unfold coef at h
  cases hm : modInverse ((kj : Int) - (ki : Int)) q with
  | none => rw [hm] at h; cases h
  | some inv =>
    rw [hm] at h
    simp only [Option.map_some, Option.some.injEq] at h
    subst h
    rw [Nat.mod_mod, Nat.mul_mod, hk, Nat.zero_mul, Nat.zero_mod]

/-- ids pairwise distinct modulo `q`: every factor of signer `i` exists -/
theorem coef_isSome_of_nodup (ks : List ℕ) (hnd : (ks.map (· % q)).Nodup) {i j : ℕ}
    (hi : i < ks.length) (hj : j < ks.length) (hji : j ≠ i) :
    ∃ io, coef q (ks.getD i 0) (ks.getD j 0) = some io :=
  AlgL.coef_isSome fun h =>
    hji (AlgL.injOn_of_nodup ks hnd (by simpa using hj) (by simpa using hi) h)

omit [Fact q.Prime] in
theorem mul_mod_ne_zero' (hq : q.Prime) {a b : ℕ} (ha : a % q ≠ 0) (hb : b % q ≠ 0) :
    (a * b) % q ≠ 0 := by
  intro h
  rcases (Nat.Prime.dvd_mul hq).1 (Nat.dvd_of_mod_eq_zero h) with h1 | h1
  · exact ha (Nat.mod_eq_zero_of_dvd h1)
  · exact hb (Nat.mod_eq_zero_of_dvd h1)

/-- no id `≡ 0` among the positions, start `≢ 0`: the product stays `≢ 0` -/
theorem wfold_ne_zero (ks : List ℕ) (i : ℕ) (l : List ℕ)
    (hz : ∀ j ∈ l, j ≠ i → ks.getD j 0 % q ≠ 0) :
    ∀ (a w : ℕ), a % q ≠ 0 → l.foldlM (wstep q ks i) a = some w → w % q ≠ 0 := by
  induction l with
  | nil =>
    intro a w ha h
    simp only [List.foldlM_nil] at h
    obtain rfl := Option.some.inj h
    exact ha
  | cons j l ih =>
    intro a w ha h
    have hz' : ∀ k ∈ l, k ≠ i → ks.getD k 0 % q ≠ 0 := fun k hk => hz k (List.mem_cons_of_mem _ hk)
    rw [List.foldlM_cons] at h
    by_cases hj : j = i
    · subst hj
      rw [wstep_self] at h
      exact ih hz' a w ha h
    · cases hc : coef q (ks.getD i 0) (ks.getD j 0) with
      | none => rw [wstep_none _ hj hc] at h; cases h
      | some io =>
        rw [wstep_some _ hj hc] at h
        refine ih hz' _ w ?_ h
        rw [Nat.mod_mod]
        exact mul_mod_ne_zero' (Fact.out) ha (coef_mod_ne_zero hc (hz j (List.mem_cons_self ..) hj))

omit [Fact q.Prime] in
/-- once `≡ 0`, always `≡ 0` -/
theorem wfold_zero_of_zero (ks : List ℕ) (i : ℕ) (l : List ℕ) :
    ∀ (a w : ℕ), a % q = 0 → l.foldlM (wstep q ks i) a = some w → w % q = 0 := by
  induction l with
  | nil =>
    intro a w ha h
    simp only [List.foldlM_nil] at h
    obtain rfl := Option.some.inj h
    exact ha
  | cons j l ih =>
    intro a w ha h
    rw [List.foldlM_cons] at h
    by_cases hj : j = i
    · subst hj
      rw [wstep_self] at h
      exact ih a w ha h
    · cases hc : coef q (ks.getD i 0) (ks.getD j 0) with
      | none => rw [wstep_none _ hj hc] at h; cases h
      | some io =>
        rw [wstep_some _ hj hc] at h
        refine ih _ w ?_ h
        rw [Nat.mod_mod, Nat.mul_mod, ha, Nat.zero_mul, Nat.zero_mod]

omit [Fact q.Prime] in
/-- an id `≡ 0` among the other positions kills the product -/
theorem wfold_eq_zero (ks : List ℕ) (i : ℕ) (l : List ℕ)
    (hz : ∃ j ∈ l, j ≠ i ∧ ks.getD j 0 % q = 0) :
    ∀ (a w : ℕ), l.foldlM (wstep q ks i) a = some w → w % q = 0 := by
  induction l with
  | nil => obtain ⟨j, hj, _⟩ := hz; cases hj
  | cons j l ih =>
    intro a w h
    rw [List.foldlM_cons] at h
    by_cases hj : j = i
    · subst hj
      rw [wstep_self] at h
      refine ih ?_ a w h
      obtain ⟨k, hk, hki, hk0⟩ := hz
      rcases List.mem_cons.1 hk with rfl | hk
      · exact absurd rfl hki
      · exact ⟨k, hk, hki, hk0⟩
    · cases hc : coef q (ks.getD i 0) (ks.getD j 0) with
      | none => rw [wstep_none _ hj hc] at h; cases h
      | some io =>
        rw [wstep_some _ hj hc] at h
        by_cases hj0 : ks.getD j 0 % q = 0
        · refine wfold_zero_of_zero ks i l _ w ?_ h
          rw [Nat.mod_mod, Nat.mul_mod, coef_mod_eq_zero hc hj0, Nat.mul_zero, Nat.zero_mod]
        · refine ih ?_ _ w h
          obtain ⟨k, hk, hki, hk0⟩ := hz
          rcases List.mem_cons.1 hk with rfl | hk
          · exact absurd hk0 hj0
          · exact ⟨k, hk, hki, hk0⟩

/-- every factor exists: the `weight` fold returns -/
theorem wfold_isSome (ks : List ℕ) (i : ℕ) (l : List ℕ)
    (hl : ∀ j ∈ l, j ≠ i → ∃ io, coef q (ks.getD i 0) (ks.getD j 0) = some io) :
    ∀ a : ℕ, ∃ w, l.foldlM (wstep q ks i) a = some w := by
  induction l with
  | nil => intro a; exact ⟨a, rfl⟩
  | cons j l ih =>
    intro a
    have hl' : ∀ k ∈ l, k ≠ i → ∃ io, coef q (ks.getD i 0) (ks.getD k 0) = some io :=
      fun k hk => hl k (List.mem_cons_of_mem _ hk)
    rw [List.foldlM_cons]
    by_cases hj : j = i
    · subst hj
      rw [wstep_self]
      exact ih hl' a
    · obtain ⟨io, hc⟩ := hl j (List.mem_cons_self ..) hj
      rw [wstep_some _ hj hc]
      exact ih hl' _

end

/-! ### the point fold -/
section
variable {P : Type} {C : Curve P}

/-- **the point fold against the scalar fold**, all factors existing, start `a·G`: either both return
and the point is the scalar times `G`, or the point fold panics in `ScalarMult` and the scalar fold,
cut after some prefix of the positions, is a scalar `p` with `p·G` without affine form -/
theorem bfold_spec (hC : C.Lawful) (ks : List ℕ) (j : ℕ) (l : List ℕ)
    (hl : ∀ c ∈ l, c ≠ j → ∃ io, coef C.q (ks.getD j 0) (ks.getD c 0) = some io) :
    ∀ (w0 : ECPoint) (a : ℕ), C.lift w0 = some (C.smul a C.base) →
      (∃ W w, l.foldlM (bstep C ks j) w0 = .ok W ∧ l.foldlM (wstep C.q ks j) a = some w ∧
        C.lift W = some (C.smul w C.base)) ∨
      (l.foldlM (bstep C ks j) w0 = .panic "scalar-mult-identity" ∧
        ∃ m p, 1 ≤ m ∧ m ≤ l.length ∧ (l.take m).foldlM (wstep C.q ks j) a = some p ∧
          C.toAffine (C.smul p C.base) = none) := by
  induction l with
  | nil =>
    intro w0 a h0
    exact Or.inl ⟨w0, a, rfl, rfl, h0⟩
  | cons c l ih =>
    intro w0 a h0
    have hl' : ∀ d ∈ l, d ≠ j → ∃ io, coef C.q (ks.getD j 0) (ks.getD d 0) = some io :=
      fun d hd => hl d (List.mem_cons_of_mem _ hd)
    rw [List.foldlM_cons, List.foldlM_cons]
    by_cases hc : c = j
    · subst hc
      rw [bstep_self, wstep_self]
      rcases ih hl' w0 a h0 with ⟨W, w, h1, h2, h3⟩ | ⟨h1, m, p, hm1, hm2, h2, h3⟩
      · exact Or.inl ⟨W, w, h1, h2, h3⟩
      · refine Or.inr ⟨h1, m + 1, p, by omega, by simp only [List.length_cons]; omega, ?_, h3⟩
        rw [List.take_succ_cons, List.foldlM_cons, wstep_self]
        exact h2
    · obtain ⟨io, hio⟩ := hl c (List.mem_cons_self ..) hc
      rw [bstep_some _ hc hio, wstep_some _ hc hio]
      rcases ecScalarMult_base hC io h0 with ⟨hn, hp⟩ | ⟨w1, hw1, hl1⟩
      · refine Or.inr ⟨by rw [hp]; rfl, 1, a * io % C.q, le_refl _, by simp, ?_, hn⟩
        rw [List.take_succ_cons, List.take_zero, List.foldlM_cons, wstep_some _ hc hio]
        rfl
      · rw [hw1]
        rcases ih hl' w1 _ hl1 with ⟨W, w, h1, h2, h3⟩ | ⟨h1, m, p, hm1, hm2, h2, h3⟩
        · exact Or.inl ⟨W, w, h1, h2, h3⟩
        · refine Or.inr ⟨h1, m + 1, p, by omega, by simp only [List.length_cons]; omega, ?_, h3⟩
          rw [List.take_succ_cons, List.foldlM_cons, wstep_some _ hc hio]
          exact h2

/-- soundness without any hypothesis on the ids: when both folds return, the point is the scalar times `G` -/
theorem bfold_sound (hC : C.Lawful) (ks : List ℕ) (j : ℕ) (l : List ℕ) :
    ∀ (w0 : ECPoint) (a : ℕ) (W : ECPoint) (w : ℕ), C.lift w0 = some (C.smul a C.base) →
      l.foldlM (bstep C ks j) w0 = .ok W → l.foldlM (wstep C.q ks j) a = some w →
      C.lift W = some (C.smul w C.base) := by
  induction l with
  | nil =>
    intro w0 a W w h0 hb hw
    simp only [List.foldlM_nil] at hb hw
    injection hb with hb
    obtain rfl := Option.some.inj hw
    subst hb
    exact h0
  | cons c l ih =>
    intro w0 a W w h0 hb hw
    rw [List.foldlM_cons] at hb hw
    by_cases hc : c = j
    · subst hc
      rw [bstep_self] at hb
      rw [wstep_self] at hw
      exact ih w0 a W w h0 hb hw
    · cases hio : coef C.q (ks.getD j 0) (ks.getD c 0) with
      | none => rw [wstep_none _ hc hio] at hw; cases hw
      | some io =>
        rw [bstep_some _ hc hio] at hb
        rw [wstep_some _ hc hio] at hw
        rcases ecScalarMult_base hC io h0 with ⟨_, hp⟩ | ⟨w1, hw1, hl1⟩
        · rw [hp] at hb; cases hb
        · rw [hw1] at hb
          exact ih w1 _ W w hl1 hb hw

/-- the point fold never reports an error on a starting point of the curve -/
theorem bfold_ne_err (hC : C.Lawful) (ks : List ℕ) (j : ℕ) (l : List ℕ) :
    ∀ (w0 : ECPoint) (p : P) (e : String), C.lift w0 = some p →
      l.foldlM (bstep C ks j) w0 ≠ .err e := by
  induction l with
  | nil => intro w0 p e _ h; cases h
  | cons c l ih =>
    intro w0 p e h0 h
    rw [List.foldlM_cons] at h
    by_cases hc : c = j
    · subst hc
      rw [bstep_self] at h
      exact ih w0 p e h0 h
    · cases hio : coef C.q (ks.getD j 0) (ks.getD c 0) with
      | none => rw [bstep_none _ hc hio] at h; cases h
      | some io =>
        rw [bstep_some _ hc hio] at h
        rcases ecScalarMult_lift hC io h0 with hp | ⟨w1, hw1, hl1⟩
        · rw [hp] at h; cases h
        · rw [hw1] at h
          exact ih w1 _ e hl1 h

/-- the two panics of the point fold; `nil-mod-inverse` needs a missing factor (any curve record) -/
theorem bfold_panic_tag (ks : List ℕ) (j : ℕ) (l : List ℕ) :
    ∀ (w0 : ECPoint) (e : String), l.foldlM (bstep C ks j) w0 = .panic e →
      e = "scalar-mult-identity" ∨
      (e = "nil-mod-inverse" ∧ ∃ c ∈ l, c ≠ j ∧ coef C.q (ks.getD j 0) (ks.getD c 0) = none) := by
  induction l with
  | nil => intro w0 e h; cases h
  | cons c l ih =>
    intro w0 e h
    have lift : (e = "scalar-mult-identity" ∨
        (e = "nil-mod-inverse" ∧ ∃ d ∈ l, d ≠ j ∧ coef C.q (ks.getD j 0) (ks.getD d 0) = none)) →
        (e = "scalar-mult-identity" ∨
        (e = "nil-mod-inverse" ∧ ∃ d ∈ c :: l, d ≠ j ∧ coef C.q (ks.getD j 0) (ks.getD d 0) = none)) := by
      rintro (h1 | ⟨h1, d, hd, h2⟩)
      · exact Or.inl h1
      · exact Or.inr ⟨h1, d, List.mem_cons_of_mem _ hd, h2⟩
    rw [List.foldlM_cons] at h
    by_cases hc : c = j
    · subst hc
      rw [bstep_self] at h
      exact lift (ih w0 e h)
    · cases hio : coef C.q (ks.getD j 0) (ks.getD c 0) with
      | none =>
        rw [bstep_none _ hc hio] at h
        injection h with h
        exact Or.inr ⟨h.symm, c, List.mem_cons_self .., hc, hio⟩
      | some io =>
        rw [bstep_some _ hc hio] at h
        cases hs : C.ecScalarMult w0 (io : Int) with
        | ok w1 => rw [hs] at h; exact lift (ih w1 e h)
        | err e' => rw [hs] at h; cases h
        | panic e' =>
          rw [hs] at h
          injection h with h
          subst h
          exact Or.inl (ecScalarMult_panic_tag hs)

/-- a missing factor: the point fold does not return a point (any curve record) -/
theorem bfold_not_ok_of_none (ks : List ℕ) (j : ℕ) (l : List ℕ)
    (hn : ∃ c ∈ l, c ≠ j ∧ coef C.q (ks.getD j 0) (ks.getD c 0) = none) :
    ∀ (w0 W : ECPoint), l.foldlM (bstep C ks j) w0 ≠ .ok W := by
  induction l with
  | nil => obtain ⟨c, hc, _⟩ := hn; cases hc
  | cons c l ih =>
    intro w0 W h
    rw [List.foldlM_cons] at h
    have tail : c = j ∨ coef C.q (ks.getD j 0) (ks.getD c 0) ≠ none →
        ∃ d ∈ l, d ≠ j ∧ coef C.q (ks.getD j 0) (ks.getD d 0) = none := by
      intro hcase
      obtain ⟨d, hd, hdj, hdn⟩ := hn
      rcases List.mem_cons.1 hd with rfl | hd
      · rcases hcase with h1 | h1
        · exact absurd h1 hdj
        · exact absurd hdn h1
      · exact ⟨d, hd, hdj, hdn⟩
    by_cases hc : c = j
    · have ht := tail (Or.inl hc)
      subst hc
      rw [bstep_self] at h
      exact ih ht w0 W h
    · cases hio : coef C.q (ks.getD j 0) (ks.getD c 0) with
      | none => rw [bstep_none _ hc hio] at h; cases h
      | some io =>
        rw [bstep_some _ hc hio] at h
        cases hs : C.ecScalarMult w0 (io : Int) with
        | ok w1 =>
          rw [hs] at h
          exact ih (tail (Or.inr (by rw [hio]; exact Option.some_ne_none _))) w1 W h
        | err e' => rw [hs] at h; cases h
        | panic e' => rw [hs] at h; cases h

end

/-! ### `bigW` -/
section
variable {P : Type} {C : Curve P}

/-- W1, without any hypothesis on the ids -/
theorem bigW_lift (hC : C.Lawful) (ks : List ℕ) (j x w : ℕ) (xj W : ECPoint)
    (hx : C.lift xj = some (C.smul x C.base)) (hw : weight C.q ks j x = some w)
    (hW : bigW C ks j xj = .ok W) : C.lift W = some (C.smul w C.base) :=
  bfold_sound hC ks j _ xj x W w hx hW hw

theorem lift_of_ecBaseMult (hC : C.Lawful) {x : ℕ} {xj : ECPoint}
    (h : C.ecBaseMult (x : Int) = .ok xj) : C.lift xj = some (C.smul x C.base) := by
  unfold Curve.ecBaseMult at h
  simp only [Int.natAbs_natCast] at h
  cases hr : C.toAffine (C.smul x C.base) with
  | none => rw [hr] at h; cases h
  | some r =>
    rw [hr] at h
    injection h with h
    subst h
    exact Vss.lift_of_toAffine hC hr

theorem coefs_of_nodup (hC : C.Lawful) (ks : List ℕ) (hnd : (ks.map (· % C.q)).Nodup) (j : ℕ)
    (hj : j < ks.length) :
    ∀ c ∈ List.range ks.length, c ≠ j → ∃ io, coef C.q (ks.getD j 0) (ks.getD c 0) = some io := by
  haveI : Fact C.q.Prime := ⟨hC.q_prime⟩
  intro c hc hcj
  exact coef_isSome_of_nodup ks hnd hj (List.mem_range.1 hc) hcj

/-- the outcome of `bigW` on `xj = x·G`, ids pairwise distinct modulo `q` -/
theorem bigW_spec (hC : C.Lawful) (ks : List ℕ) (hnd : (ks.map (· % C.q)).Nodup) (j : ℕ)
    (hj : j < ks.length) (x : ℕ) (xj : ECPoint) (hx : C.lift xj = some (C.smul x C.base)) :
    (∃ W w, bigW C ks j xj = .ok W ∧ weight C.q ks j x = some w ∧
      C.lift W = some (C.smul w C.base)) ∨
    (bigW C ks j xj = .panic "scalar-mult-identity" ∧
      ∃ m p, 1 ≤ m ∧ m ≤ ks.length ∧ weightPrefix C.q ks j m x = some p ∧
        C.toAffine (C.smul p C.base) = none) := by
  rcases bfold_spec hC ks j _ (coefs_of_nodup hC ks hnd j hj) xj x hx with h | ⟨h1, m, p, hm1, hm2, h2, h3⟩
  · exact Or.inl h
  · rw [List.length_range] at hm2
    refine Or.inr ⟨h1, m, p, hm1, hm2, ?_, h3⟩
    unfold weightPrefix
    rw [List.take_range, Nat.min_eq_left hm2] at h2
    exact h2

/-- `xj = x·G` on a curve whose identity has no affine form: `x ≢ 0` -/
theorem scalar_ne_zero_of_lift (hC : C.Lawful) (hz : C.toAffine C.zero = none) {x : ℕ} {xj : ECPoint}
    (hx : C.lift xj = some (C.smul x C.base)) : x % C.q ≠ 0 := by
  intro h0
  rw [(hC.smul_base_eq_zero_iff x).2 h0] at hx
  have := hC.ofAffine_toAffine _ _ _ hx
  rw [hz] at this
  cases this

/-- `bigW` never reports an error on a point of the curve -/
theorem bigW_ne_err (hC : C.Lawful) (ks : List ℕ) (j : ℕ) (xj : ECPoint) (p : P)
    (hx : C.lift xj = some p) (e : String) : bigW C ks j xj ≠ .err e :=
  bfold_ne_err hC ks j _ xj p e hx

/-- ids pairwise distinct modulo the prime `q`: the only panic of `bigW` is the one of `ScalarMult`
(any curve record, any starting point) -/
theorem bigW_panic_tag (hq : C.q.Prime) (ks : List ℕ) (hnd : (ks.map (· % C.q)).Nodup) (j : ℕ)
    (hj : j < ks.length) (xj : ECPoint) (e : String) (h : bigW C ks j xj = .panic e) :
    e = "scalar-mult-identity" := by
  haveI : Fact C.q.Prime := ⟨hq⟩
  rcases bfold_panic_tag ks j _ xj e h with h1 | ⟨_, c, hc, hcj, hn⟩
  · exact h1
  · obtain ⟨io, hio⟩ := coef_isSome_of_nodup ks hnd hj (List.mem_range.1 hc) hcj
    rw [hio] at hn
    cases hn

/-- two ids congruent modulo `q`: `bigW` does not return a point (any curve record) -/
theorem bigW_not_ok_of_collision (hq : C.q.Prime) (ks : List ℕ) (j c : ℕ) (hc : c < ks.length)
    (hcj : c ≠ j) (h : ks.getD c 0 % C.q = ks.getD j 0 % C.q) (xj W : ECPoint) :
    bigW C ks j xj ≠ .ok W := by
  haveI : Fact C.q.Prime := ⟨hq⟩
  exact bfold_not_ok_of_none ks j _ ⟨c, List.mem_range.2 hc, hcj,
    AlgL.coef_none_of_eq ((ZMod.natCast_eq_natCast_iff' _ _ _).2 h)⟩ xj W

/-- a curve that represents its identity: `bigW` always returns -/
theorem bigW_ok_of_affine_zero (hC : C.Lawful) (hz : C.toAffine C.zero ≠ none) (ks : List ℕ)
    (hnd : (ks.map (· % C.q)).Nodup) (j : ℕ) (hj : j < ks.length) (x : ℕ) (xj : ECPoint)
    (hx : C.lift xj = some (C.smul x C.base)) :
    ∃ W w, bigW C ks j xj = .ok W ∧ weight C.q ks j x = some w ∧ C.lift W = some (C.smul w C.base) := by
  rcases bigW_spec hC ks hnd j hj x xj hx with h | ⟨_, m, p, _, _, _, h3⟩
  · exact h
  · exact absurd ((hC.toAffine_eq_none_iff _).1 h3).2 hz

/-- no other signer's id is `≡ 0`, `x ≢ 0`: `bigW` returns (every curve) -/
theorem bigW_ok_of_ids_ne_zero (hC : C.Lawful) (ks : List ℕ) (hnd : (ks.map (· % C.q)).Nodup) (j : ℕ)
    (hj : j < ks.length) (x : ℕ) (xj : ECPoint) (hx : C.lift xj = some (C.smul x C.base))
    (hx0 : x % C.q ≠ 0) (hids : ∀ c, c < ks.length → c ≠ j → ks.getD c 0 % C.q ≠ 0) :
    ∃ W w, bigW C ks j xj = .ok W ∧ weight C.q ks j x = some w ∧ C.lift W = some (C.smul w C.base) := by
  haveI : Fact C.q.Prime := ⟨hC.q_prime⟩
  rcases bigW_spec hC ks hnd j hj x xj hx with h | ⟨_, m, p, _, hm2, h2, h3⟩
  · exact h
  · exfalso
    have hp : p % C.q ≠ 0 := wfold_ne_zero ks j (List.range m)
      (fun c hc hcj => hids c (lt_of_lt_of_le (List.mem_range.1 hc) hm2) hcj) x p hx0 h2
    exact hp ((Vss.toAffine_smul_base_eq_none_iff hC p).1 h3).1

/-- the panic, seen from the scalars: a prefix product `x·∏ coef` is `≡ 0` (and the curve does not
represent its identity) -/
theorem bigW_panic_prefix (hC : C.Lawful) (ks : List ℕ) (hnd : (ks.map (· % C.q)).Nodup) (j : ℕ)
    (hj : j < ks.length) (x : ℕ) (xj : ECPoint) (hx : C.lift xj = some (C.smul x C.base))
    (e : String) (h : bigW C ks j xj = .panic e) :
    e = "scalar-mult-identity" ∧ C.toAffine C.zero = none ∧
    ∃ m p, 1 ≤ m ∧ m ≤ ks.length ∧ weightPrefix C.q ks j m x = some p ∧ p % C.q = 0 := by
  rcases bigW_spec hC ks hnd j hj x xj hx with ⟨W, w, h1, _⟩ | ⟨h1, m, p, hm1, hm2, h2, h3⟩
  · rw [h1] at h; cases h
  · rw [h1] at h
    injection h with h
    have := (Vss.toAffine_smul_base_eq_none_iff hC p).1 h3
    exact ⟨h.symm, this.2, m, p, hm1, hm2, h2, this.1⟩

/-- a curve that does not represent its identity, another signer's id `≡ 0`: `bigW` panics -/
theorem bigW_panic_of_zero_id (hC : C.Lawful) (hz : C.toAffine C.zero = none) (ks : List ℕ)
    (hnd : (ks.map (· % C.q)).Nodup) (j : ℕ) (hj : j < ks.length) (x : ℕ) (xj : ECPoint)
    (hx : C.lift xj = some (C.smul x C.base))
    (hid : ∃ c, c < ks.length ∧ c ≠ j ∧ ks.getD c 0 % C.q = 0) :
    bigW C ks j xj = .panic "scalar-mult-identity" := by
  rcases bigW_spec hC ks hnd j hj x xj hx with ⟨W, w, _, h2, h3⟩ | ⟨h1, _⟩
  · exfalso
    obtain ⟨c, hc, hcj, hc0⟩ := hid
    have hw0 : w % C.q = 0 :=
      wfold_eq_zero ks j (List.range ks.length) ⟨c, List.mem_range.2 hc, hcj, hc0⟩ x w h2
    rw [(hC.smul_base_eq_zero_iff w).2 hw0] at h3
    have := hC.ofAffine_toAffine _ _ _ h3
    rw [hz] at this
    cases this
  · exact h1

/-- **exact panic condition** on a curve that does not represent its identity -/
theorem bigW_panic_iff (hC : C.Lawful) (hz : C.toAffine C.zero = none) (ks : List ℕ)
    (hnd : (ks.map (· % C.q)).Nodup) (j : ℕ) (hj : j < ks.length) (x : ℕ) (xj : ECPoint)
    (hx : C.lift xj = some (C.smul x C.base)) :
    bigW C ks j xj = .panic "scalar-mult-identity" ↔
      ∃ c, c < ks.length ∧ c ≠ j ∧ ks.getD c 0 % C.q = 0 := by
  constructor
  · intro hp
    by_contra hno
    obtain ⟨W, _, hW, _⟩ := bigW_ok_of_ids_ne_zero hC ks hnd j hj x xj hx
      (scalar_ne_zero_of_lift hC hz hx) (fun c hc hcj h0 => hno ⟨c, hc, hcj, h0⟩)
    rw [hW] at hp
    cases hp
  · exact bigW_panic_of_zero_id hC hz ks hnd j hj x xj hx

/-- the same condition in scalars: some prefix product `x·∏ coef` is `≡ 0` -/
theorem bigW_panic_iff_prefix (hC : C.Lawful) (hz : C.toAffine C.zero = none) (ks : List ℕ)
    (hnd : (ks.map (· % C.q)).Nodup) (j : ℕ) (hj : j < ks.length) (x : ℕ) (xj : ECPoint)
    (hx : C.lift xj = some (C.smul x C.base)) :
    bigW C ks j xj = .panic "scalar-mult-identity" ↔
      ∃ m p, m ≤ ks.length ∧ weightPrefix C.q ks j m x = some p ∧ p % C.q = 0 := by
  haveI : Fact C.q.Prime := ⟨hC.q_prime⟩
  constructor
  · intro hp
    obtain ⟨_, _, m, p, _, hm2, h2, h3⟩ := bigW_panic_prefix hC ks hnd j hj x xj hx _ hp
    exact ⟨m, p, hm2, h2, h3⟩
  · rintro ⟨m, p, hm2, h2, h3⟩
    by_contra hnp
    have hno := mt (bigW_panic_iff hC hz ks hnd j hj x xj hx).2 hnp
    exact wfold_ne_zero ks j (List.range m)
      (fun c hc hcj h0 => hno ⟨c, lt_of_lt_of_le (List.mem_range.1 hc) hm2, hcj, h0⟩) x p
      (scalar_ne_zero_of_lift hC hz hx) h2 h3

/-- the `weight` fold returns on ids pairwise distinct modulo `q` -/
theorem weight_isSome_of_nodup (hq : C.q.Prime) (ks : List ℕ) (hnd : (ks.map (· % C.q)).Nodup)
    (j : ℕ) (hj : j < ks.length) (x : ℕ) : ∃ w, weight C.q ks j x = some w := by
  haveI : Fact C.q.Prime := ⟨hq⟩
  exact wfold_isSome ks j _
    (fun c hc hcj => coef_isSome_of_nodup ks hnd hj (List.mem_range.1 hc) hcj) x

/-! ### `bigWs` -/

theorem sum_map_range (g : ℕ → ℕ) (n : ℕ) :
    ((List.range n).map g).sum = ∑ i ∈ Finset.range n, g i := by
  induction n with
  | zero => rfl
  | succ n ih =>
    rw [List.range_succ, List.map_append, List.sum_append, Finset.sum_range_succ, ih]
    simp

/-- a successful `mapM` in `Outcome`, position by position -/
theorem mapM_ok_getElem? {α β : Type} (f : α → Outcome β) (l : List α) :
    ∀ (ws : List β), l.mapM f = .ok ws →
      ws.length = l.length ∧ ∀ (i : ℕ) (a : α), l[i]? = some a → ∃ w, ws[i]? = some w ∧ f a = .ok w := by
  induction l with
  | nil =>
    intro ws h
    rw [List.mapM_nil] at h
    injection h with h
    subst h
    exact ⟨rfl, fun i a hi => by simp at hi⟩
  | cons b l ih =>
    intro ws h
    rw [List.mapM_cons] at h
    cases hb : f b with
    | err e => rw [hb] at h; cases h
    | panic e => rw [hb] at h; cases h
    | ok w0 =>
      rw [hb, Outcome.ok_bind] at h
      cases hm : l.mapM f with
      | err e => rw [hm] at h; cases h
      | panic e => rw [hm] at h; cases h
      | ok ws' =>
        rw [hm, Outcome.ok_bind] at h
        injection h with h
        subst h
        obtain ⟨h1, h2⟩ := ih ws' hm
        refine ⟨by simp [h1], fun i a hi => ?_⟩
        cases i with
        | zero =>
          simp only [List.getElem?_cons_zero, Option.some.injEq] at hi
          subst hi
          exact ⟨w0, by simp, hb⟩
        | succ i =>
          simp only [List.getElem?_cons_succ] at hi ⊢
          exact h2 i a hi

/-- what `bigWs` returns, position by position -/
theorem bigWs_getElem? (ks : List ℕ) (xs ws : List ECPoint) (h : bigWs C ks xs = .ok ws) :
    ws.length = ks.length ∧ ∀ j, j < ks.length →
      ∃ X W, xs[j]? = some X ∧ ws[j]? = some W ∧ bigW C ks j X = .ok W := by
  unfold bigWs at h
  obtain ⟨h1, h2⟩ := mapM_ok_getElem? _ _ ws h
  rw [List.length_range] at h1
  refine ⟨h1, fun j hj => ?_⟩
  obtain ⟨W, hW, hf⟩ := h2 j j (by rw [List.getElem?_range hj])
  cases hX : xs[j]? with
  | none => rw [hX] at hf; cases hf
  | some X => rw [hX] at hf; exact ⟨X, W, rfl, hW, hf⟩

/-- adding up (in the group, after `lift`) the points returned for the positions `l` -/
theorem bigWs_sum_fold (hC : C.Lawful) (ks : List ℕ) (xs : List ECPoint) (x wv : ℕ → ℕ)
    (hxs : ∀ i, i < ks.length → ∃ X, xs[i]? = some X ∧ C.lift X = some (C.smul (x i) C.base))
    (hwv : ∀ i, i < ks.length → weight C.q ks i (x i) = some (wv i)) (l : List ℕ)
    (hl : ∀ j ∈ l, j < ks.length) :
    ∀ (ws : List ECPoint),
      l.mapM (fun j => match xs[j]? with
        | some X => bigW C ks j X
        | none => .panic "len(ks) != len(bigXs)") = .ok ws →
      ∀ acc : ℕ, ws.foldlM (fun a W => (C.lift W).map (C.add a)) (C.smul acc C.base) =
        some (C.smul (acc + (l.map wv).sum) C.base) := by
  induction l with
  | nil =>
    intro ws h acc
    rw [List.mapM_nil] at h
    injection h with h
    subst h
    rfl
  | cons j l ih =>
    intro ws h acc
    have hj : j < ks.length := hl j (List.mem_cons_self ..)
    obtain ⟨X, hX, hlX⟩ := hxs j hj
    rw [List.mapM_cons] at h
    simp only [hX] at h
    cases hb : bigW C ks j X with
    | err e => rw [hb] at h; cases h
    | panic e => rw [hb] at h; cases h
    | ok W =>
      rw [hb, Outcome.ok_bind] at h
      cases hm : l.mapM (fun j => match xs[j]? with
          | some X => bigW C ks j X
          | none => .panic "len(ks) != len(bigXs)") with
      | err e => rw [hm] at h; cases h
      | panic e => rw [hm] at h; cases h
      | ok ws' =>
        rw [hm, Outcome.ok_bind] at h
        injection h with h
        subst h
        have hW := bigW_lift hC ks j (x j) (wv j) X W hlX (hwv j hj) hb
        rw [List.foldlM_cons, hW]
        simp only [Option.map_some, Option.bind_eq_bind, Option.bind_some]
        rw [← hC.smul_add, ih (fun k hk => hl k (List.mem_cons_of_mem _ hk)) ws' hm (acc + wv j),
          List.map_cons, List.sum_cons, Nat.add_assoc]

/-- **W3**: the returned points add up to `secret·G` -/
theorem bigWs_sum (hC : C.Lawful) (ks : List ℕ) (xs ws : List ECPoint) (x : ℕ → ℕ)
    (f : Polynomial (ZMod C.q)) (secret : ℕ)
    (hnd : (ks.map (· % C.q)).Nodup) (hdeg : f.degree < (ks.length : ℕ))
    (hval : ∀ i, i < ks.length → (x i : ZMod C.q) = f.eval (ks.getD i 0 : ZMod C.q))
    (hsec : (secret : ZMod C.q) = f.eval 0)
    (hxs : ∀ i, i < ks.length → ∃ X, xs[i]? = some X ∧ C.lift X = some (C.smul (x i) C.base))
    (hws : bigWs C ks xs = .ok ws) :
    ws.foldlM (fun a W => (C.lift W).map (C.add a)) C.zero = some (C.smul secret C.base) := by
  haveI : Fact C.q.Prime := ⟨hC.q_prime⟩
  let wv : ℕ → ℕ := fun i => (weight C.q ks i (x i)).getD 0
  have hwv : ∀ i, i < ks.length → weight C.q ks i (x i) = some (wv i) := by
    intro i hi
    obtain ⟨w, hw⟩ := weight_isSome_of_nodup (C := C) hC.q_prime ks hnd i hi (x i)
    show _ = some ((weight C.q ks i (x i)).getD 0)
    rw [hw]; rfl
  have hsum := MiscL.weights_sum_eval ks x wv f hnd hdeg hval hwv
  have hfold := bigWs_sum_fold hC ks xs x wv hxs hwv (List.range ks.length)
    (fun j hj => List.mem_range.1 hj) ws hws 0
  rw [hC.smul_zero_left] at hfold
  rw [hfold, Nat.zero_add, sum_map_range]
  congr 1
  rw [hC.smul_base_eq_iff, ← ZMod.natCast_eq_natCast_iff, hsec, ← hsum]
  push_cast
  rfl

/-- every returned point is the private weight of its signer times `G` -/
theorem bigWs_each (hC : C.Lawful) (ks : List ℕ) (xs ws : List ECPoint) (x : ℕ → ℕ)
    (hnd : (ks.map (· % C.q)).Nodup)
    (hxs : ∀ i, i < ks.length → ∃ X, xs[i]? = some X ∧ C.lift X = some (C.smul (x i) C.base))
    (hws : bigWs C ks xs = .ok ws) :
    ws.length = ks.length ∧ ∀ j, j < ks.length → ∃ W w, ws[j]? = some W ∧
      weight C.q ks j (x j) = some w ∧ C.lift W = some (C.smul w C.base) := by
  obtain ⟨h1, h2⟩ := bigWs_getElem? ks xs ws hws
  refine ⟨h1, fun j hj => ?_⟩
  obtain ⟨X, W, hX, hW, hb⟩ := h2 j hj
  obtain ⟨X', hX', hl⟩ := hxs j hj
  rw [hX] at hX'
  injection hX' with hX'
  subst hX'
  obtain ⟨w, hw⟩ := weight_isSome_of_nodup (C := C) hC.q_prime ks hnd j hj (x j)
  exact ⟨W, w, hW, hw, bigW_lift hC ks j (x j) w X W hl hw hb⟩

theorem mapM_ok_of_forall {α β : Type} (f : α → Outcome β) (l : List α)
    (h : ∀ a ∈ l, ∃ w, f a = .ok w) : ∃ ws, l.mapM f = .ok ws := by
  induction l with
  | nil => exact ⟨[], rfl⟩
  | cons a l ih =>
    obtain ⟨w, hw⟩ := h a (List.mem_cons_self ..)
    obtain ⟨ws, hws⟩ := ih (fun b hb => h b (List.mem_cons_of_mem _ hb))
    exact ⟨w :: ws, by rw [List.mapM_cons, hw, hws]; rfl⟩

/-- `bigWs` returns as soon as every `bigW` does -/
theorem bigWs_ok_of_forall (ks : List ℕ) (xs : List ECPoint)
    (h : ∀ j, j < ks.length → ∃ X W, xs[j]? = some X ∧ bigW C ks j X = .ok W) :
    ∃ ws, bigWs C ks xs = .ok ws := by
  unfold bigWs
  refine mapM_ok_of_forall _ _ fun j hj => ?_
  obtain ⟨X, W, hX, hW⟩ := h j (List.mem_range.1 hj)
  exact ⟨W, by rw [hX]; exact hW⟩

end
end TssVerif.C01W
