import TssVerif.Core.Zk
import TssVerif.Lemmas.GoIntSpec
import TssVerif.Lemmas.VssVerify
import Mathlib.Data.Nat.ModEq
import Mathlib.Data.Int.ModEq
import Mathlib.Tactic.Ring
import Mathlib.Tactic.Linarith
/-! Shared arithmetic for the completeness proofs of C10: `expP` on natural arguments, the cancellation
lemma for Go's negative exponents, interval / gcd guards on casts, monadic list lemmas. -/
set_option autoImplicit false
namespace TssVerif.C10L
open TssVerif Zk

/-! ### guards on casts -/

theorem isInInterval_of_lt (a : Nat) (b : Int) (h : (a : Int) < b) : isInInterval (a : Int) b = true := by
  unfold isInInterval
  simp only [Bool.and_eq_true, decide_eq_true_eq]
  exact ⟨h, Int.natCast_nonneg a⟩

theorem natAbs_cast_mul (n : Nat) : ((n : Int) * (n : Int)).natAbs = n * n := by
  rw [Int.natAbs_mul, Int.natAbs_natCast]

/-! ### `expP` -/

theorem expP_of_nonneg (x : Int) {y : Int} {m : Nat} (hm : m ≠ 0) (hy : 0 ≤ y) :
    expP x y m = .ok ((x % (m : Int)).toNat ^ y.toNat % m) := by
  unfold expP nilPanic
  rw [goExp_of_nonneg x hm hy]; rfl

theorem emod_natCast_toNat (x m : Nat) : (((x : Int) % (m : Int)).toNat) = x % m := by
  rw [← Int.natCast_mod, Int.toNat_natCast]

/-- Go's `Exp` on non-negative arguments -/
theorem expP_nat (x e : Nat) {m : Nat} (hm : m ≠ 0) : expP (x : Int) (e : Int) m = .ok (x ^ e % m) := by
  rw [expP_of_nonneg _ hm (Int.natCast_nonneg e), emod_natCast_toNat, Int.toNat_natCast, ← Nat.pow_mod]

/-- `Exp(x, -e, m)` for a unit `x`: the value is `inv^e mod m` for the inverse `inv` Go computes; all one needs
to know is that it cancels `x^e`. Covers `e = 0`. -/
theorem expP_neg_cancel {A W Z e M : Nat} (hM : M ≠ 0) (hZ : Nat.Coprime Z M)
    (h : A ≡ W * Z ^ e [MOD M]) :
    ∃ zE, expP (Z : Int) (-(e : Int)) M = .ok zE ∧ A * zE % M = W % M := by
  by_cases he : e = 0
  · subst he
    refine ⟨1 % M, ?_, ?_⟩
    · have := expP_nat Z 0 hM
      simpa using this
    · have h' : A ≡ W [MOD M] := by simpa using h
      rw [Nat.mul_mod, Nat.mod_mod, ← Nat.mul_mod, Nat.mul_one]; exact h'
  · have hneg : -(e : Int) < 0 := by
      have : 0 < e := Nat.pos_of_ne_zero he
      omega
    have hg : Int.gcd (Z : Int) (M : Int) = 1 := by rw [Int.gcd_natCast_natCast]; exact hZ
    obtain ⟨inv, hinv, hspec, _⟩ := modInverse_exists hM hg
    refine ⟨inv ^ e % M, ?_, ?_⟩
    · unfold expP nilPanic
      rw [goExp_of_neg _ hM hneg, hinv]
      simp [Outcome.ofOption]
    · have h1 : Z * inv ≡ 1 [MOD M] := by
        have : (Z * inv) % M = 1 % M := by exact_mod_cast hspec
        exact this
      have h2 : A * (inv ^ e % M) ≡ W * Z ^ e * inv ^ e [MOD M] :=
        h.mul (Nat.mod_modEq _ _)
      have h3 : W * Z ^ e * inv ^ e = W * (Z * inv) ^ e := by rw [mul_pow, mul_assoc]
      have h4 : W * (Z * inv) ^ e ≡ W * 1 [MOD M] := by
        have := (h1.pow e)
        rw [one_pow] at this
        exact this.mul_left W
      rw [h3] at h2
      have := h2.trans h4
      rw [mul_one] at this
      exact this

/-- `Exp(x, v, m)` for an arbitrary integer exponent and a unit `x`: there is an `r` with
`x^a · r ≡ x^b` whenever `v = b − a`. -/
theorem expP_int_unit {Z M : Nat} (hM : M ≠ 0) (hZ : Nat.Coprime Z M) (v : Int) :
    ∃ zE, expP (Z : Int) v M = .ok zE ∧ zE < M ∧
      ∀ a b : Nat, v = (b : Int) - (a : Int) → Z ^ a * zE ≡ Z ^ b [MOD M] := by
  have hMpos : 0 < M := Nat.pos_of_ne_zero hM
  by_cases hv : 0 ≤ v
  · obtain ⟨k, rfl⟩ := Int.eq_ofNat_of_zero_le hv
    refine ⟨Z ^ k % M, expP_nat Z k hM, Nat.mod_lt _ hMpos, ?_⟩
    intro a b hab
    have : b = a + k := by omega
    subst this
    rw [pow_add]
    exact (Nat.mod_modEq _ _).mul_left _
  · have hneg : v < 0 := by omega
    obtain ⟨k, hk⟩ : ∃ k : Nat, v = -(k : Int) := ⟨(-v).toNat, by omega⟩
    subst hk
    have hA : Z ^ 0 ≡ 1 * Z ^ 0 [MOD M] := by simp [Nat.ModEq]
    have hg : Int.gcd (Z : Int) (M : Int) = 1 := by rw [Int.gcd_natCast_natCast]; exact hZ
    obtain ⟨inv, hinv, hspec, _⟩ := modInverse_exists hM hg
    refine ⟨inv ^ k % M, ?_, Nat.mod_lt _ hMpos, ?_⟩
    · unfold expP nilPanic
      rw [goExp_of_neg _ hM hneg, hinv]
      simp [Outcome.ofOption]
    · intro a b hab
      have : a = b + k := by omega
      subst this
      have h1 : Z * inv ≡ 1 [MOD M] := by
        have : (Z * inv) % M = 1 % M := by exact_mod_cast hspec
        exact this
      have h2 : Z ^ (b + k) * (inv ^ k % M) ≡ Z ^ (b + k) * inv ^ k [MOD M] :=
        (Nat.mod_modEq _ _).mul_left _
      have h3 : Z ^ (b + k) * inv ^ k = Z ^ b * (Z * inv) ^ k := by rw [pow_add, mul_pow, mul_assoc]
      rw [h3] at h2
      have h4 : Z ^ b * (Z * inv) ^ k ≡ Z ^ b * 1 [MOD M] := by
        have := h1.pow k
        rw [one_pow] at this
        exact this.mul_left _
      have := h2.trans h4
      rwa [mul_one] at this

/-! ### coprimality of products of powers -/

theorem coprime_mul_pow_mod {a b M : Nat} (x y : Nat) (ha : Nat.Coprime a M) (hb : Nat.Coprime b M) :
    Nat.Coprime (a ^ x % M * (b ^ y % M) % M) M := by
  have h : Nat.Coprime (a ^ x * b ^ y) M := Nat.Coprime.mul_left (ha.pow_left x) (hb.pow_left y)
  unfold Nat.Coprime at *
  have e : a ^ x % M * (b ^ y % M) % M = (a ^ x * b ^ y) % M := (Nat.mul_mod _ _ _).symm
  rw [e, ← Nat.gcd_rec, Nat.gcd_comm]
  exact h

theorem coprime_mod {a M : Nat} (ha : Nat.Coprime a M) : Nat.Coprime (a % M) M := by
  unfold Nat.Coprime at *
  rw [← Nat.gcd_rec, Nat.gcd_comm]; exact ha

theorem coprime_sq {a n : Nat} (h : Nat.Coprime a n) : Nat.Coprime a (n * n) := Nat.Coprime.mul_right h h

/-- congruent modulo `n` gives `n`-th powers congruent modulo `n²` -/
theorem pow_n_modEq_sq {a b n : Nat} (h : a ≡ b [MOD n]) : a ^ n ≡ b ^ n [MOD n * n] := by
  -- work in `Int`
  have hz : (a : Int) ≡ b [ZMOD n] := (Int.natCast_modEq_iff).2 h
  obtain ⟨k, hk⟩ : ∃ k : Int, (a : Int) = b + n * k := by
    have := Int.ModEq.dvd hz.symm
    obtain ⟨k, hk⟩ := this
    exact ⟨k, by linarith⟩
  have key : ∀ m : Nat, ∃ t : Int,
      (a : Int) ^ (m + 1) = (b : Int) ^ (m + 1) + (m + 1) * (b : Int) ^ m * (n * k) + (n * n) * t := by
    intro m
    induction m with
    | zero => exact ⟨0, by simp [hk]⟩
    | succ m ih =>
      obtain ⟨t, ht⟩ := ih
      refine ⟨t * a + (m + 1) * (b : Int) ^ m * k * k, ?_⟩
      rw [pow_succ, ht]
      push_cast
      rw [hk]
      ring
  rcases Nat.eq_zero_or_pos n with rfl | hn
  · simp [Nat.ModEq]
  obtain ⟨m, rfl⟩ : ∃ m, n = m + 1 := ⟨n - 1, by omega⟩
  obtain ⟨t, ht⟩ := key m
  have : (a : Int) ^ (m + 1) ≡ (b : Int) ^ (m + 1) [ZMOD (((m + 1) * (m + 1) : Nat) : Int)] := by
    rw [ht]
    push_cast
    have e : (b : Int) ^ (m + 1) + ((m : Int) + 1) * (b : Int) ^ m * (((m : Int) + 1) * k) + ((m : Int) + 1) * ((m : Int) + 1) * t
        = (b : Int) ^ (m + 1) + ((m : Int) + 1) * ((m : Int) + 1) * ((b : Int) ^ m * k + t) := by ring
    rw [e]
    exact Int.modEq_iff_dvd.2 ⟨-((b : Int) ^ m * k + t), by ring⟩
  have h' : ((a ^ (m + 1) : Nat) : Int) ≡ ((b ^ (m + 1) : Nat) : Int) [ZMOD (((m + 1) * (m + 1) : Nat) : Int)] := by
    push_cast; push_cast at this; exact this
  exact (Int.natCast_modEq_iff).1 h'

/-! ### monadic list lemmas -/

theorem mapM_ok_of {α β : Type} (f : α → Outcome β) (g : α → β) (l : List α)
    (h : ∀ a ∈ l, f a = .ok (g a)) : l.mapM f = .ok (l.map g) := by
  induction l with
  | nil => rfl
  | cons a l ih =>
    rw [List.mapM_cons, h a (List.mem_cons_self ..), ih (fun b hb => h b (List.mem_cons_of_mem _ hb))]
    rfl

theorem foldlM_true_of {ι : Type} (f : Bool → ι → Outcome Bool) (l : List ι)
    (h : ∀ i ∈ l, f true i = .ok true) : l.foldlM f true = .ok true := by
  induction l with
  | nil => rfl
  | cons a l ih =>
    rw [List.foldlM_cons, h a (List.mem_cons_self ..)]
    exact ih (fun b hb => h b (List.mem_cons_of_mem _ hb))

end TssVerif.C10L
