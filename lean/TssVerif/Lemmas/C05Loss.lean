import TssVerif.Core.BlameEc5
import TssVerif.Lemmas.Engine2
import TssVerif.Lemmas.Engine2Hist
import TssVerif.Lemmas.Engine2System
import TssVerif.Lemmas.Engine2Live
/-! Helpers for `Props/C05g.lean` (the last clause of C05: "a single deviating participant cannot make the honest
ones lose the key").

Specification glue (no Core change): `newMemberEmits` joins the two models that each describe one half of the final
round of a new member of a resharing: the round engine (`Core/Engine2.lean`: WHEN the final round is started) and
the round-5 check of the ECDSA new member (`Core/BlameEc5.lean`: WHAT the final round does before it emits).
Then the general facts (derived from the C04b lemmas) and the concrete schedules of the counterexample. -/
set_option autoImplicit false
namespace TssVerif.C05LossL
open TssVerif TssVerif.Engine2 TssVerif.E2L TssVerif.BlameEc

/-! ## 1. when does a new member emit key data -/

/-- the member has started its final round (round 5) and signalled `end` exactly once: for an old member "has erased
its share", for a new member "is in the round that saves the key data" -/
def inFinalRound (p : Party) : Prop := p.rnd = 5 ∧ p.ended = 1

instance (p : Party) : Decidable (inFinalRound p) := by unfold inFinalRound; infer_instance

/-- the protocol lets the new members send one another something point-to-point (a `perNewOther` emission in the
new-role table): ECDSA resharing does (`DGRound4Message1`, the no-small-factor proofs that travel with the
acknowledgement and are checked in round 5), EdDSA resharing does not -/
def hasRound5Check (P : Proto) : Bool := P.new.any fun r => r.emits.any fun e => e.2 == Cnt.perNewOther

theorem hasRound5Check_ecdsa : hasRound5Check ecdsaResharing = true := by decide
theorem hasRound5Check_eddsa : hasRound5Check eddsaResharing = false := by decide

/-- what the round-5 check of one new member runs on: its own ring-Pedersen parameters, the session id, whether it
tolerates missing proofs, and what the other new members sent it (Paillier modulus, no-small-factor proof) -/
structure R5View where
  noFac : Bool
  ssid : Bytes
  nTilde : Nat
  h1 : Nat
  h2 : Nat
  peers : List RsR4Peer

/-- the round-5 check of new member `i` (its own index is the verifier index of the proofs) on its view -/
def round5Check {Pt : Type} (C : Curve Pt) (H : HashFn) (zcfg : Zk.Cfg) (view : Nat → R5View) (i : Nat) :
    Outcome (Option (Nat × String)) :=
  rsRound5Fac C H zcfg (view i).noFac i (view i).ssid (view i).nTilde (view i).h1 (view i).h2 (view i).peers

/-- **new member `i` emits key data**: it has started its final round in the engine and — in a protocol whose final
round checks something (ECDSA) — the check returns "emit" (`.ok none`). For EdDSA the second conjunct is void. -/
def newMemberEmits {Pt : Type} (C : Curve Pt) (H : HashFn) (zcfg : Zk.Cfg) (P : Proto) (view : Nat → R5View)
    (s : Sys2) (i : Nat) : Prop :=
  inFinalRound (s.new i) ∧ (hasRound5Check P = true → round5Check C H zcfg view i = .ok none)

theorem newMemberEmits_ecdsa_iff {Pt : Type} (C : Curve Pt) (H : HashFn) (zcfg : Zk.Cfg) (view : Nat → R5View)
    (s : Sys2) (i : Nat) :
    newMemberEmits C H zcfg ecdsaResharing view s i ↔
      inFinalRound (s.new i) ∧ round5Check C H zcfg view i = .ok none := by
  unfold newMemberEmits
  rw [hasRound5Check_ecdsa]
  exact ⟨fun h => ⟨h.1, h.2 rfl⟩, fun h => ⟨h.1, fun _ => h.2⟩⟩

theorem newMemberEmits_eddsa_iff {Pt : Type} (C : Curve Pt) (H : HashFn) (zcfg : Zk.Cfg) (view : Nat → R5View)
    (s : Sys2) (i : Nat) :
    newMemberEmits C H zcfg eddsaResharing view s i ↔ inFinalRound (s.new i) := by
  unfold newMemberEmits
  rw [hasRound5Check_eddsa]
  exact ⟨fun h => h.1, fun h => ⟨h, fun h' => by cases h'⟩⟩

/-! ## 2. an erased old share and a quiescent network: everybody is in the final round -/

theorem out_nil_of_rnd_zero {tbl : List RSpec} {p : Party} (hc : Canon tbl p) (h0 : p.rnd = 0) : p.out = [] := by
  rw [hc.2.1, h0, emitsUpTo_zero]

/-- if some old member has erased, every member of both committees has been started: every new member has
acknowledged (`erase_after_all_acks`), and a new member acknowledges only after every old member has sent it its
share (`ack_after_shares`) -/
theorem allStarted_of_erased {P : Proto} (F : AckFacts P) {nOld nNew : Nat} {s : Sys2} (hN : 0 < nNew)
    (hinv : SysInv P nOld nNew s) {i : Nat} (he : (s.old i).ended = 1) : AllStarted nOld nNew s := by
  have hack := erase_after_all_acks_inv F hinv he
  intro c j hj h0
  cases c
  · -- an old member: new member 0 holds its share, which it therefore has emitted
    have h := (ack_after_shares_inv F hinv (hack 0 hN)).2 j hj
    have hout : shareTy P ∈ (s.party false j).out := h.2.2.1
    rw [out_nil_of_rnd_zero (hinv false j).canon h0] at hout
    cases hout
  · have hout : finalAck P ∈ (s.party true j).out := hack j hj
    rw [out_nil_of_rnd_zero (hinv true j).canon h0] at hout
    cases hout

/-- **an old member has erased and nothing is left to deliver ⟹ every member of both committees is in its final
round** (closed system with the library's `Start`, `strict = true`, as `no_deadlock2` needs; `0 < nNew` as
`no_deadlock2` needs) -/
theorem all_final_of_erased_quiescent {P : Proto} (hP : IsLib P) {nOld nNew : Nat} {s : Sys2} (hN : 0 < nNew)
    (hreach : Reach2 P nOld nNew true s) (hq : Quiescent2 P nOld nNew s) {i : Nat} (hi : i < nOld)
    (he : (s.old i).ended = 1) :
    (∀ k, k < nOld → inFinalRound (s.old k)) ∧ (∀ j, j < nNew → inFinalRound (s.new j)) := by
  have hO : 0 < nOld := Nat.lt_of_le_of_lt (Nat.zero_le _) hi
  have F := liveFacts_of_isLib hP
  have A := ackFacts_of_isLib hP
  have hst := allStarted_of_erased A hN (reach2_inv hreach) he
  have h := no_deadlock2_gen F hO hN hreach hst hq
  rw [A.lenOld] at h
  exact ⟨fun k hk => h false k hk, fun j hj => h true j hj⟩

/-- the part about the new members needs no hypothesis on `nNew` (void without new members) -/
theorem new_final_of_erased_quiescent {P : Proto} (hP : IsLib P) {nOld nNew : Nat} {s : Sys2}
    (hreach : Reach2 P nOld nNew true s) (hq : Quiescent2 P nOld nNew s) {i : Nat} (hi : i < nOld)
    (he : (s.old i).ended = 1) : ∀ j, j < nNew → inFinalRound (s.new j) := by
  intro j hj
  exact (all_final_of_erased_quiescent hP (Nat.lt_of_le_of_lt (Nat.zero_le _) hj) hreach hq hi he).2 j hj

/-! ## 3. the schedule of the counterexample (ECDSA resharing, 2 old + 2 new members)

Every member is started; every message any member emits is delivered to every member that needs it (nobody is sent
its own message). New member 0 is the deviator: its `DGRound4Message1` (type 6) for new member 1 carries a
no-small-factor proof that does not verify — the engine does not look at payloads, the ghost payload tag `1` marks
that delivery. -/

def lossRun : List Act :=
  [ .startOld 0 false, .startOld 1 false, .startNew 0 false, .startNew 1 false,
    -- DGRound1Message (1): every old member → every new member
    .toNew 0 false 0 1 0, .toNew 1 false 0 1 0, .toNew 0 false 1 1 0, .toNew 1 false 1 1 0,
    -- DGRound2Message1 (2): every new member → the other new members
    .toNew 1 true 0 2 0, .toNew 0 true 1 2 0,
    -- DGRound2Message2 (3): every new member → every old member
    .toOld 0 true 0 3 0, .toOld 1 true 0 3 0, .toOld 0 true 1 3 0, .toOld 1 true 1 3 0,
    -- DGRound3Message1 (4, the shares, point-to-point) and DGRound3Message2 (5): every old → every new member
    .toNew 0 false 0 4 0, .toNew 1 false 0 4 0, .toNew 0 false 1 4 0, .toNew 1 false 1 4 0,
    .toNew 0 false 0 5 0, .toNew 1 false 0 5 0, .toNew 0 false 1 5 0, .toNew 1 false 1 5 0,
    -- DGRound4Message1 (6, the no-small-factor proofs, point-to-point): new 0 → new 1 is the BAD one (tag 1)
    .toNew 1 true 0 6 1, .toNew 0 true 1 6 0,
    -- DGRound4Message2 (7, the acknowledgement): every new member → every old member, → the other new members
    .toOld 0 true 0 7 0, .toOld 1 true 0 7 0, .toOld 0 true 1 7 0, .toOld 1 true 1 7 0,
    .toNew 1 true 0 7 0, .toNew 0 true 1 7 0 ]

/-- the state the schedule ends in -/
def lossState : Sys2 := exec ecdsaResharing 2 2 true lossRun

theorem lossState_reachable : Reach2 ecdsaResharing 2 2 true lossState := reach2_exec _ _ _ _ _

/-- the same with ONE old member (the smallest committees the tables allow for a new-to-new message) -/
def lossRun12 : List Act :=
  [ .startOld 0 false, .startNew 0 false, .startNew 1 false,
    .toNew 0 false 0 1 0, .toNew 1 false 0 1 0,
    .toNew 1 true 0 2 0, .toNew 0 true 1 2 0,
    .toOld 0 true 0 3 0, .toOld 0 true 1 3 0,
    .toNew 0 false 0 4 0, .toNew 1 false 0 4 0, .toNew 0 false 0 5 0, .toNew 1 false 0 5 0,
    .toNew 1 true 0 6 1, .toNew 0 true 1 6 0,
    .toOld 0 true 0 7 0, .toOld 0 true 1 7 0,
    .toNew 1 true 0 7 0, .toNew 0 true 1 7 0 ]

def lossState12 : Sys2 := exec ecdsaResharing 1 2 true lossRun12

theorem lossState12_reachable : Reach2 ecdsaResharing 1 2 true lossState12 := reach2_exec _ _ _ _ _

set_option maxRecDepth 100000 in
/-- every delivery of the schedule was enabled (the logs hold all 26 deliveries), everybody has been started,
nothing is left to deliver -/
theorem lossState_quiescent :
    ((lossState.logOld 0).length = 4 ∧ (lossState.logOld 1).length = 4 ∧
     (lossState.logNew 0).length = 9 ∧ (lossState.logNew 1).length = 9) ∧
    AllStarted 2 2 lossState ∧ Quiescent2 ecdsaResharing 2 2 lossState :=
  ⟨by decide, allStartedB_spec (by decide), quiescentB_spec (by decide)⟩

set_option maxRecDepth 100000 in
/-- both old members have erased, both new members are in their final round; new member 1 holds the deviator's
`DGRound4Message1` (tag 1) -/
theorem lossState_final :
    inFinalRound (lossState.old 0) ∧ inFinalRound (lossState.old 1) ∧
    inFinalRound (lossState.new 0) ∧ inFinalRound (lossState.new 1) ∧
    (lossState.new 1).store 6 0 = some ⟨false, 1⟩ := by decide

set_option maxRecDepth 100000 in
theorem lossState12_quiescent :
    ((lossState12.logOld 0).length = 4 ∧ (lossState12.logNew 0).length = 6 ∧ (lossState12.logNew 1).length = 6) ∧
    AllStarted 1 2 lossState12 ∧ Quiescent2 ecdsaResharing 1 2 lossState12 :=
  ⟨by decide, allStartedB_spec (by decide), quiescentB_spec (by decide)⟩

set_option maxRecDepth 100000 in
theorem lossState12_final :
    inFinalRound (lossState12.old 0) ∧ inFinalRound (lossState12.new 0) ∧ inFinalRound (lossState12.new 1) ∧
    (lossState12.new 1).store 6 0 = some ⟨false, 1⟩ := by decide

/-! ## 4. the clause as a statement -/

/-- new member `j` accepts the record `p` (what one other new member sent it) in its round-5 check -/
def peerAccepted {Pt : Type} (C : Curve Pt) (H : HashFn) (zcfg : Zk.Cfg) (view : Nat → R5View) (j : Nat)
    (p : RsR4Peer) : Prop :=
  rsFacPeer C H zcfg (view j).noFac j (view j).ssid (view j).nTilde (view j).h1 (view j).h2 p = .ok none

/-- **the last clause of C05** for protocol `P` with `nOld` + `nNew` members: in every reachable state of the closed
system in which some old member has erased its share and nothing is left to deliver, whichever ONE new member `dev`
deviates (in the view of every other new member every record that does not carry `dev`'s index is accepted; the
records of `dev` are arbitrary), every new member other than `dev` emits key data. -/
def LastClause {Pt : Type} (C : Curve Pt) (H : HashFn) (zcfg : Zk.Cfg) (P : Proto) (nOld nNew : Nat) : Prop :=
  ∀ (s : Sys2) (view : Nat → R5View) (dev : Nat),
    Reach2 P nOld nNew true s → Quiescent2 P nOld nNew s → (∃ i, i < nOld ∧ (s.old i).ended = 1) →
    (∀ j, j < nNew → j ≠ dev → ∀ p ∈ (view j).peers, p.idx ≠ dev → peerAccepted C H zcfg view j p) →
    ∀ j, j < nNew → j ≠ dev → newMemberEmits C H zcfg P view s j

theorem round5Check_none_iff {Pt : Type} (C : Curve Pt) (H : HashFn) (zcfg : Zk.Cfg) (view : Nat → R5View) (j : Nat) :
    round5Check C H zcfg view j = .ok none ↔ ∀ p ∈ (view j).peers, peerAccepted C H zcfg view j p := by
  unfold round5Check peerAccepted
  induction (view j).peers with
  | nil => simp [rsRound5Fac]
  | cons p rest ih =>
    constructor
    · intro h q hq
      rw [rsRound5Fac] at h
      cases hp : rsFacPeer C H zcfg (view j).noFac j (view j).ssid (view j).nTilde (view j).h1 (view j).h2 p with
      | ok v =>
        rw [hp] at h
        cases v with
        | none =>
          rcases List.mem_cons.mp hq with rfl | hq
          · exact hp
          · exact ih.mp h q hq
        | some why => cases h
      | err e => rw [hp] at h; cases h
      | panic t => rw [hp] at h; cases h
    · intro h
      have hp := h p (List.mem_cons_self ..)
      rw [rsRound5Fac, hp]
      exact ih.mpr fun q hq => h q (List.mem_cons_of_mem _ hq)

end TssVerif.C05LossL
