import TssVerif.Core.BlameEc4
import TssVerif.Lemmas.C05Sg
import TssVerif.Lemmas.C11
import TssVerif.Lemmas.C10PaillierKey
/-! Helper lemmas for `TssVerif/Props/C05h.lean`: the last round of ECDSA key generation
(`ecdsa/keygen/round_4.go`, model `Core/BlameEc4.lean`) up to the culprit decision.

* `kgRound4` as an instance of the generic "every failing peer is named" theory of `Lemmas/C05Sg.lean`
  (`named`, `flagged`, `bad2`);
* the per-peer goroutine `kg4Peer` against the verifier `Paillier.proofVerify`: accepted / rejected / crash;
* what acceptance of `Proof.Verify` means on natural-number arguments (exact: iff);
* "not a crash" / "always a culprit list" when every proof has the 13 numbers that
  `KGRound3Message.ValidateBasic` asks for. -/
set_option autoImplicit false
set_option linter.unusedSectionVars false
set_option linter.unusedVariables false
namespace TssVerif.C05Kg4L
open TssVerif BlameEc C05L C06L C05SgL

/-! ## the per-peer goroutine -/
section peer
variable (H : HashFn) (pcfg : Paillier.ProofCfg) (pub : ECPoint)

/-- the verifier call inside `kg4Peer` -/
def verify4 (p : R3Peer) : Outcome Bool :=
  Paillier.proofVerify pcfg H (p.proof.map Int.ofNat) p.paillierN p.partyKey pub

/-- how the goroutine turns the verifier's outcome into a verdict -/
def verdictOf : Outcome Bool → Outcome Bool
  | .ok b => .ok b
  | .err _ => .ok false
  | .panic e => .panic e

theorem kg4Peer_eq (p : R3Peer) : kg4Peer H pcfg pub p = verdictOf (verify4 H pcfg pub p) := by
  unfold kg4Peer verify4
  cases Paillier.proofVerify pcfg H (p.proof.map Int.ofNat) p.paillierN p.partyKey pub <;> rfl

theorem kg4Peer_ok_iff (p : R3Peer) (b : Bool) :
    kg4Peer H pcfg pub p = .ok b ↔
      verify4 H pcfg pub p = .ok b ∨ (b = false ∧ ∃ e, verify4 H pcfg pub p = .err e) := by
  rw [kg4Peer_eq]
  cases verify4 H pcfg pub p with
  | ok c =>
    constructor
    · intro h; injection h with h; subst h; exact Or.inl rfl
    · rintro (h | ⟨_, e, h⟩)
      · injection h with h; subst h; rfl
      · cases h
  | err e =>
    constructor
    · intro h; injection h with h; exact Or.inr ⟨h.symm, e, rfl⟩
    · rintro (h | ⟨hb, _⟩)
      · cases h
      · subst hb; rfl
  | panic e =>
    constructor
    · intro h; cases h
    · rintro (h | ⟨_, e', h⟩) <;> cases h

theorem kg4Peer_true_iff' (p : R3Peer) :
    kg4Peer H pcfg pub p = .ok true ↔ verify4 H pcfg pub p = .ok true := by
  rw [kg4Peer_ok_iff]
  constructor
  · rintro (h | ⟨h, _⟩)
    · exact h
    · cases h
  · exact Or.inl

theorem kg4Peer_false_iff' (p : R3Peer) :
    kg4Peer H pcfg pub p = .ok false ↔
      verify4 H pcfg pub p = .ok false ∨ ∃ e, verify4 H pcfg pub p = .err e := by
  rw [kg4Peer_ok_iff]
  constructor
  · rintro (h | ⟨_, h⟩)
    · exact Or.inl h
    · exact Or.inr h
  · rintro (h | h)
    · exact Or.inl h
    · exact Or.inr ⟨rfl, h⟩

theorem kg4Peer_of_err (p : R3Peer) (e : String) (h : verify4 H pcfg pub p = .err e) :
    kg4Peer H pcfg pub p = .ok false :=
  (kg4Peer_false_iff' H pcfg pub p).2 (Or.inr ⟨e, h⟩)

theorem kg4Peer_panic_iff (p : R3Peer) (t : String) :
    kg4Peer H pcfg pub p = .panic t ↔ verify4 H pcfg pub p = .panic t := by
  rw [kg4Peer_eq]
  cases verify4 H pcfg pub p with
  | ok c => exact ⟨fun h => (nomatch h), fun h => (nomatch h)⟩
  | err e => exact ⟨fun h => (nomatch h), fun h => (nomatch h)⟩
  | panic e =>
    constructor
    · intro h; rw [Outcome.panic.inj h]
    · intro h; rw [Outcome.panic.inj h]; rfl

/-- the goroutine never reports an error of its own: a verifier error is a rejection -/
theorem kg4Peer_noErr (p : R3Peer) : C05EcL.NoErr (kg4Peer H pcfg pub p) := by
  intro e
  rw [kg4Peer_eq]
  cases verify4 H pcfg pub p <;> intro h <;> cases h

/-- exact crash condition of the goroutine: a proof that does not have 13 numbers, together with a modulus that
passes the small-prime screen and for which the 13 challenges exist -/
theorem kg4Peer_panic_iff' (p : R3Peer) (t : String) :
    kg4Peer H pcfg pub p = .panic t ↔
      t = "index" ∧ p.proof.length ≠ Paillier.proofIters ∧
      Paillier.smallPrimes.any (fun prm => (p.paillierN : Int) % (prm : Int) == 0) = false ∧
      (Paillier.generateXs H Paillier.proofIters p.partyKey p.paillierN pub).isSome = true := by
  rw [kg4Peer_panic_iff, verify4, proofVerify_panic_iff, List.length_map]

theorem kg4Peer_noPanic (p : R3Peer) (hlen : p.proof.length = Paillier.proofIters) :
    NoPanic (kg4Peer H pcfg pub p) := by
  intro t ht
  exact ((kg4Peer_panic_iff' H pcfg pub p t).1 ht).2.1 hlen

theorem kg4Peer_total (p : R3Peer) (hlen : p.proof.length = Paillier.proofIters) :
    ∃ b, kg4Peer H pcfg pub p = .ok b :=
  total_of (kg4Peer_noPanic H pcfg pub p hlen) (kg4Peer_noErr H pcfg pub p)

end peer

/-! ## what acceptance means -/
section accept
open Paillier

theorem smallPrimes_any_false_iff (n : Nat) :
    smallPrimes.any (fun prm => (n : Int) % (prm : Int) == 0) = false ↔
      ∀ q : Nat, q.Prime → q < 1000 → ¬ q ∣ n := by
  constructor
  · intro h q hq hlt hd
    rw [List.any_eq_false] at h
    apply h q ((C11L.mem_smallPrimes_iff q).2 ⟨hq, hlt⟩)
    rw [beq_iff_eq]
    exact Int.emod_eq_zero_of_dvd (Int.natCast_dvd_natCast.2 hd)
  · exact C10L.smallPrimes_any_false

theorem smallPrimes_any_true_of_dvd {n q : Nat} (hq : q.Prime) (hlt : q < 1000) (hd : q ∣ n) :
    smallPrimes.any (fun prm => (n : Int) % (prm : Int) == 0) = true := by
  cases h : smallPrimes.any (fun prm => (n : Int) % (prm : Int) == 0)
  · exact absurd hd ((smallPrimes_any_false_iff n).1 h q hq hlt)
  · rfl

/-- a modulus with a prime factor below 1000 is rejected before anything else is looked at -/
theorem proofVerify_small_factor (cfg : ProofCfg) (H : HashFn) (pf : List Int) (n : Nat) (k : Int) (pub : ECPoint)
    (q : Nat) (hq : q.Prime) (hlt : q < 1000) (hd : q ∣ n) :
    proofVerify cfg H pf (n : Int) k pub = .ok false := by
  unfold proofVerify
  rw [smallPrimes_any_true_of_dvd hq hlt hd]
  rfl

/-- one line of the verification loop on natural-number arguments -/
theorem verify_line (pf xs : List Nat) (n : Nat) (hn : 0 < n) (i : Nat) :
    (match goExp ((pf.map Int.ofNat).getD i 0) (n : Int) (n : Int).natAbs with
      | some y => (((xs.getD i 0 : Nat) : Int) % (n : Int)) == (y : Int)
      | none => false) = true ↔ (pf.getD i 0) ^ n % n = xs.getD i 0 % n := by
  have e1 : (pf.map Int.ofNat).getD i 0 = ((pf.getD i 0 : Nat) : Int) := by
    rw [List.getD_eq_getElem?_getD, List.getD_eq_getElem?_getD, List.getElem?_map]
    cases pf[i]? <;> rfl
  rw [e1, Int.natAbs_natCast, goExp_of_nonneg _ (by omega) (Int.natCast_nonneg _), C10L.emod_natCast_toNat,
    Int.toNat_natCast]
  simp only [beq_iff_eq]
  rw [← Int.natCast_mod, Int.natCast_inj, ← Nat.pow_mod]
  exact eq_comm

/-- **exact acceptance condition of `Proof.Verify`** on a natural-number modulus and proof: no prime below 1000
divides `N`; the 13 challenges `x_i` exist (`GenerateXs` did not give up); the proof has 13 numbers and
`proof[i]^N ≡ x_i (mod N)` for each of them -/
theorem proofVerify_true_iff_nat (cfg : ProofCfg) (H : HashFn) (pf : List Nat) (n : Nat) (k : Int) (pub : ECPoint) :
    proofVerify cfg H (pf.map Int.ofNat) (n : Int) k pub = .ok true ↔
      (∀ q : Nat, q.Prime → q < 1000 → ¬ q ∣ n) ∧
      ∃ xs, generateXs H proofIters k (n : Int) pub = some xs ∧ pf.length = proofIters ∧
        ∀ i, i < proofIters → (pf.getD i 0) ^ n % n = xs.getD i 0 % n := by
  rw [← smallPrimes_any_false_iff]
  unfold proofVerify
  cases hs : smallPrimes.any (fun prm => (n : Int) % (prm : Int) == 0)
  · simp only [Bool.false_eq_true, if_false, true_and]
    cases hx : generateXs H proofIters k (n : Int) pub with
    | none =>
      simp only
      constructor
      · intro h; split at h <;> cases h
      · rintro ⟨xs, h, _⟩; cases h
    | some xs =>
      simp only
      have hn : 0 < n := by
        have := C11L.generateXs_some_pos (m := proofIters) (Nat.succ_pos 12) hx
        omega
      by_cases hl : pf.length = proofIters
      · have hl' : ((pf.map Int.ofNat).length != proofIters) = false := by
          rw [List.length_map, hl]; exact bne_self_eq_false _
        rw [hl']
        simp only [Bool.false_eq_true, if_false, Outcome.ok.injEq, List.all_eq_true, List.mem_range]
        constructor
        · intro h
          exact ⟨xs, rfl, hl, fun i hi => (verify_line pf xs n hn i).1 (h i hi)⟩
        · rintro ⟨xs', he, _, h⟩ i hi
          have he := Option.some.inj he; subst he
          exact (verify_line pf xs n hn i).2 (h i hi)
      · have hl' : ((pf.map Int.ofNat).length != proofIters) = true := by
          rw [List.length_map]; exact bne_iff_ne.2 hl
        rw [hl']
        simp only [if_true]
        constructor
        · intro h; cases h
        · rintro ⟨_, _, h, _⟩; exact absurd h hl
  · simp only [if_true]
    constructor
    · intro h; cases h
    · rintro ⟨h, _⟩; cases h

end accept

/-! ## the round -/
section round
variable (H : HashFn) (pcfg : Paillier.ProofCfg) (pub : ECPoint)

theorem kgRound4_eq (peers : List R3Peer) :
    kgRound4 H pcfg pub peers =
      (peers.mapM (kg4Peer H pcfg pub) >>= fun vs =>
        Outcome.ok ((peers.zip vs).filterMap fun pv => if bad2 pv.2 then some pv.1.idx else none)) := by
  unfold kgRound4
  congr 1
  funext vs
  congr 2
  funext ⟨p, ok⟩
  cases ok <;> rfl

/-- the round returns a culprit list iff every goroutine returns, and the list is then the filter `named` -/
theorem kgRound4_ok_iff (peers : List R3Peer) (cs : List Nat) :
    kgRound4 H pcfg pub peers = .ok cs ↔
      (∀ p ∈ peers, ∃ v, kg4Peer H pcfg pub p = .ok v) ∧
      cs = named (·.idx) bad2 (kg4Peer H pcfg pub) peers := by
  rw [kgRound4_eq, mapM_bind_ok_iff]
  constructor
  · rintro ⟨vs, hvs, rfl⟩
    exact ⟨forall₂_left hvs, zip_filterMap_eq_named _ _ _ _ _ hvs⟩
  · rintro ⟨hall, rfl⟩
    obtain ⟨vs, hvs⟩ := mapM_total _ peers hall
    have hvs' := (mapM_ok_iff _ _ _).1 hvs
    exact ⟨vs, hvs', (zip_filterMap_eq_named _ _ _ _ _ hvs').symm⟩

theorem kgRound4_noPanic_of (peers : List R3Peer) (h : ∀ p ∈ peers, NoPanic (kg4Peer H pcfg pub p)) :
    NoPanic (kgRound4 H pcfg pub peers) := by
  rw [kgRound4_eq]
  exact NoPanic.bind (fun t => mapM_no_panic _ _ h t) (fun _ _ => NoPanic.ok _)

/-- `mapM` reports an error only if some element does -/
theorem mapM_no_err {α β : Type} (f : α → Outcome β) (l : List α) (h : ∀ a ∈ l, ∀ e, f a ≠ .err e) (e : String) :
    l.mapM f ≠ .err e := by
  revert e
  induction l with
  | nil => intro e; rw [List.mapM_nil]; nofun
  | cons a l ih =>
    intro e
    rw [List.mapM_cons]
    cases ha : f a with
    | err e' => exact absurd ha (h a (List.mem_cons_self ..) e')
    | panic e' => simp only [Outcome.panic_bind]; nofun
    | ok v =>
      simp only [Outcome.ok_bind]
      have := ih (fun b hb => h b (List.mem_cons_of_mem _ hb))
      cases hl : l.mapM f with
      | err e' => exact absurd hl (this e')
      | panic e' => simp only [Outcome.panic_bind]; nofun
      | ok ws => simp only [Outcome.ok_bind, Outcome.pure_eq]; nofun

/-- the round never reports an error without a culprit: for every configuration and every input -/
theorem kgRound4_noErr (peers : List R3Peer) : C05EcL.NoErr (kgRound4 H pcfg pub peers) := by
  rw [kgRound4_eq]
  exact C05EcL.NoErr.bind (fun e => mapM_no_err _ _ (fun p _ => kg4Peer_noErr H pcfg pub p) e)
    (fun _ _ => C05EcL.NoErr.ok _)

/-- with 13 numbers in every proof the round returns the filter, for every configuration -/
theorem kgRound4_total (peers : List R3Peer) (hlen : ∀ p ∈ peers, p.proof.length = Paillier.proofIters) :
    kgRound4 H pcfg pub peers = .ok (named (·.idx) bad2 (kg4Peer H pcfg pub) peers) :=
  (kgRound4_ok_iff H pcfg pub peers _).2 ⟨fun p hp => kg4Peer_total H pcfg pub p (hlen p hp), rfl⟩

/-- a crashing goroutine crashes the round when the goroutines before it return -/
theorem kgRound4_panic_of (pre post : List R3Peer) (p : R3Peer) (t : String)
    (hpre : ∀ q ∈ pre, ∃ v, kg4Peer H pcfg pub q = .ok v) (hp : kg4Peer H pcfg pub p = .panic t) :
    kgRound4 H pcfg pub (pre ++ p :: post) = .panic t := by
  rw [kgRound4_eq]
  have : (pre ++ p :: post).mapM (kg4Peer H pcfg pub) = .panic t := by
    induction pre with
    | nil => rw [List.nil_append, List.mapM_cons, hp]; rfl
    | cons q pre ih =>
      obtain ⟨v, hv⟩ := hpre q (List.mem_cons_self ..)
      rw [List.cons_append, List.mapM_cons, hv, ih (fun r hr => hpre r (List.mem_cons_of_mem _ hr))]
      rfl
  rw [this]; rfl

end round

end TssVerif.C05Kg4L
