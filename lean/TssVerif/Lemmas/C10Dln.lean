import TssVerif.Lemmas.C10Num
/-! Completeness of the discrete-log proof over a safe-prime product (`crypto/dlnproof`). -/
set_option autoImplicit false
namespace TssVerif.C10L
open TssVerif Zk

theorem getD_map' {α β : Type} (f : α → β) (l : List α) (i : Nat) (d : α) :
    (l.map f).getD i (f d) = f (l.getD i d) := by
  simp only [List.getD_eq_getElem?_getD, List.getElem?_map]
  cases l[i]? <;> rfl

theorem getD_of_lt {α : Type} (l : List α) (i : Nat) (d : α) (h : i < l.length) : l.getD i d = l[i] := by
  simp [List.getD_eq_getElem?_getD, List.getElem?_eq_getElem h]

/-- the prover's commitments `α_i = h1^{a_i} mod n` -/
def dlnAlphas (h1 n : Nat) (as : List Nat) : List Nat := as.map fun a => h1 ^ a % n

/-- the prover's challenge -/
def dlnC (H : HashFn) (h1 h2 n : Nat) (as : List Nat) : Nat :=
  dlnChallenge H h1 h2 n ((dlnAlphas h1 n as).map Int.ofNat)

/-- the prover's responses `t_i = a_i + c_i·x mod pq` -/
def dlnTs (H : HashFn) (h1 h2 x p q n : Nat) (as : List Nat) : List Nat :=
  (List.range as.length).map fun i =>
    (as.getD i 0 + (if (dlnC H h1 h2 n as).testBit i then 1 else 0) * x % (p * q)) % (p * q)

/-- side conditions of `dlnproof`: the verifier's range checks `1 < · mod n` on `h1`, `h2`, every `α_i`, every
`t_i`, and `h1 ≢ h2`. (The upper bounds `· mod n < n` hold automatically.) -/
def DlnGood (H : HashFn) (h1 h2 x p q n : Nat) (as : List Nat) : Prop :=
  1 < h1 % n ∧ 1 < h2 % n ∧ h1 % n ≠ h2 % n ∧
  (∀ al ∈ dlnAlphas h1 n as, 1 < al % n) ∧ (∀ t ∈ dlnTs H h1 h2 x p q n as, 1 < t % n)

instance (H : HashFn) (h1 h2 x p q n : Nat) (as : List Nat) : Decidable (DlnGood H h1 h2 x p q n as) := by
  unfold DlnGood; infer_instance

theorem dlnProve_eq (H : HashFn) (h1 h2 x p q n : Nat) (as : List Nat) (hn : n ≠ 0) :
    dlnProve H h1 h2 x p q n as = .ok (dlnAlphas h1 n as, dlnTs H h1 h2 x p q n as) := by
  unfold dlnProve
  have hm : as.mapM (fun (a : Nat) => expP (h1 : Int) (a : Int) n) = .ok (dlnAlphas h1 n as) :=
    mapM_ok_of _ _ as (fun a _ => expP_nat h1 a hn)
  rw [hm]
  rfl

/-- exponents may be reduced modulo any `m` with `h^m ≡ 1` -/
theorem pow_mod_of_order {h n m : Nat} (hord : h ^ m ≡ 1 [MOD n]) (k : Nat) : h ^ (k % m) ≡ h ^ k [MOD n] := by
  conv_rhs => rw [← Nat.div_add_mod k m, pow_add, pow_mul]
  have := (hord.pow (k / m)).mul_right (h ^ (k % m))
  rw [one_pow, one_mul] at this
  exact this.symm

theorem pow_congr_of_order {h n m a b : Nat} (hord : h ^ m ≡ 1 [MOD n]) (hab : a ≡ b [MOD m]) :
    h ^ a ≡ h ^ b [MOD n] := by
  have e : a % m = b % m := hab
  exact ((pow_mod_of_order hord a).symm.trans (by rw [e])).trans (pow_mod_of_order hord b)

/-- the key congruence: `h1^{(a + c·x mod pq) mod pq} ≡ h1^a · (h1^x)^c (mod n)` when `h1^{pq} ≡ 1` -/
theorem dln_key {h1 n m : Nat} (hord : h1 ^ m ≡ 1 [MOD n]) (a b : Nat) :
    h1 ^ ((a + b % m) % m) ≡ h1 ^ (a + b) [MOD n] := by
  refine (pow_mod_of_order hord _).trans ?_
  rw [pow_add, pow_add]
  exact (pow_mod_of_order hord b).mul_left _

theorem inRange_nat {v n : Nat} (h1 : 1 < v % n) (hn : 0 < n) :
    (decide (1 < (v : Int) % (n : Int)) && decide ((v : Int) % (n : Int) < (n : Int))) = true := by
  have h2 : v % n < n := Nat.mod_lt _ hn
  simp only [Bool.and_eq_true, decide_eq_true_eq]
  constructor <;> omega

theorem dlnVerify_eq_true (H : HashFn) (alpha t : List Nat) (h1 h2 n : Nat) (hn : 0 < n)
    (g1 : 1 < h1 % n) (g2 : 1 < h2 % n) (g3 : h1 % n ≠ h2 % n)
    (ga : ∀ al ∈ alpha, 1 < al % n) (gt : ∀ ti ∈ t, 1 < ti % n)
    (hstep : ∀ i < dlnIterations,
      h1 ^ (t.getD i 0) % n =
        alpha.getD i 0 * (h2 ^ (if (dlnChallenge H h1 h2 n (alpha.map Int.ofNat)).testBit i then 1 else 0) % n) % n) :
    dlnVerify H (alpha.map Int.ofNat) (t.map Int.ofNat) h1 h2 n = .ok true := by
  have hn0 : n ≠ 0 := Nat.pos_iff_ne_zero.1 hn
  unfold dlnVerify
  have e0 : ¬ ((n : Int) ≤ 0) := by omega
  have e3 : ((h1 : Int) % (n : Int) == (h2 : Int) % (n : Int)) = false := by
    rw [beq_eq_false_iff_ne]
    intro h
    apply g3
    have : ((h1 % n : Nat) : Int) = ((h2 % n : Nat) : Int) := by push_cast; exact h
    exact_mod_cast this
  have e4 : (List.map Int.ofNat t).all (fun v => decide (1 < v % (n : Int)) && decide (v % (n : Int) < (n : Int))) = true := by
    rw [List.all_eq_true]
    intro v hv
    obtain ⟨ti, hti, rfl⟩ := List.mem_map.1 hv
    exact inRange_nat (gt ti hti) hn
  have e5 : (List.map Int.ofNat alpha).all (fun v => decide (1 < v % (n : Int)) && decide (v % (n : Int) < (n : Int))) = true := by
    rw [List.all_eq_true]
    intro v hv
    obtain ⟨ti, hti, rfl⟩ := List.mem_map.1 hv
    exact inRange_nat (ga ti hti) hn
  simp only [e0, if_false, inRange_nat g1 hn, inRange_nat g2 hn, e3, e4, e5, Bool.not_true, Bool.false_eq_true,
    Int.toNat_natCast]
  apply foldlM_true_of
  intro i hi
  have hi' : i < dlnIterations := List.mem_range.1 hi
  have gt' : (List.map Int.ofNat t).getD i 0 = ((t.getD i 0 : Nat) : Int) := by
    exact getD_map' Int.ofNat _ i 0
  have ga' : (List.map Int.ofNat alpha).getD i 0 = ((alpha.getD i 0 : Nat) : Int) := by
    exact getD_map' Int.ofNat _ i 0
  have hci : ((if (dlnChallenge H h1 h2 n (alpha.map Int.ofNat)).testBit i then (1 : Int) else 0)) =
      (((if (dlnChallenge H h1 h2 n (alpha.map Int.ofNat)).testBit i then 1 else 0 : Nat)) : Int) := by
    split <;> rfl
  simp only [Bool.not_true, Bool.false_eq_true, if_false, gt', ga', hci, expP_nat _ _ hn0, Outcome.ok_bind,
    Outcome.pure_eq]
  congr 1
  rw [beq_iff_eq, hstep i hi']
  have : ((alpha.getD i 0 : Nat) : Int) * ((h2 ^ (if (dlnChallenge H h1 h2 n (alpha.map Int.ofNat)).testBit i then 1 else 0) % n : Nat) : Int) % (n : Int)
      = ((alpha.getD i 0 * (h2 ^ (if (dlnChallenge H h1 h2 n (alpha.map Int.ofNat)).testBit i then 1 else 0) % n) % n : Nat) : Int) := by
    push_cast; rfl
  rw [this, Int.toNat_natCast]

theorem dln_complete_aux (H : HashFn) (h1 h2 x p q n : Nat) (as : List Nat)
    (hn : 0 < n) (hlen : dlnIterations ≤ as.length)
    (hh2 : h2 = h1 ^ x % n) (hord : h1 ^ (p * q) ≡ 1 [MOD n])
    (hg : DlnGood H h1 h2 x p q n as) :
    (dlnProve H h1 h2 x p q n as >>= fun pf =>
      dlnVerify H (pf.1.map Int.ofNat) (pf.2.map Int.ofNat) h1 h2 n) = .ok true := by
  obtain ⟨g1, g2, g3, ga, gt⟩ := hg
  rw [dlnProve_eq H h1 h2 x p q n as (Nat.pos_iff_ne_zero.1 hn)]
  show dlnVerify H ((dlnAlphas h1 n as).map Int.ofNat) ((dlnTs H h1 h2 x p q n as).map Int.ofNat) h1 h2 n = .ok true
  apply dlnVerify_eq_true H _ _ h1 h2 n hn g1 g2 g3 ga gt
  intro i hi
  have hi' : i < as.length := Nat.lt_of_lt_of_le hi hlen
  have ht : (dlnTs H h1 h2 x p q n as).getD i 0 =
      (as.getD i 0 + (if (dlnC H h1 h2 n as).testBit i then 1 else 0) * x % (p * q)) % (p * q) := by
    unfold dlnTs
    rw [getD_of_lt _ _ _ (by simpa using hi')]
    simp
  have ha : (dlnAlphas h1 n as).getD i 0 = h1 ^ (as.getD i 0) % n := by
    unfold dlnAlphas
    rw [getD_of_lt _ _ _ (by simpa using hi'), getD_of_lt _ _ _ hi']
    simp
  rw [ht, ha]
  show _ = h1 ^ as.getD i 0 % n * (h2 ^ (if (dlnC H h1 h2 n as).testBit i then 1 else 0) % n) % n
  set ci : Nat := (if (dlnC H h1 h2 n as).testBit i then 1 else 0) with hci
  have k1 := dln_key hord (as.getD i 0) (ci * x)
  have k2 : h1 ^ (as.getD i 0 + ci * x) ≡ h1 ^ as.getD i 0 % n * (h2 ^ ci % n) [MOD n] := by
    rw [pow_add, hh2]
    refine (Nat.mod_modEq _ _).symm.mul ?_
    have : h1 ^ (ci * x) = (h1 ^ x) ^ ci := by rw [mul_comm, pow_mul]
    rw [this]
    exact ((Nat.mod_modEq _ _).pow ci).symm.trans (Nat.mod_modEq _ _).symm
  exact k1.trans k2

end TssVerif.C10L

namespace TssVerif.C10L
open TssVerif Zk

/-- every guard of `dlnVerify` is necessary for acceptance -/
theorem dlnVerify_true_guards (H : HashFn) (alpha t : List Nat) (h1 h2 n : Nat)
    (h : dlnVerify H (alpha.map Int.ofNat) (t.map Int.ofNat) h1 h2 n = .ok true) :
    0 < n ∧ 1 < h1 % n ∧ 1 < h2 % n ∧ h1 % n ≠ h2 % n ∧ (∀ al ∈ alpha, 1 < al % n) ∧ (∀ ti ∈ t, 1 < ti % n) := by
  unfold dlnVerify at h
  have key : ∀ v : Nat, (decide (1 < (v : Int) % (n : Int)) && decide ((v : Int) % (n : Int) < (n : Int))) = true →
      1 < v % n := by
    intro v hv
    simp only [Bool.and_eq_true, decide_eq_true_eq] at hv
    have : (1 : Int) < ((v % n : Nat) : Int) := by push_cast; exact hv.1
    exact_mod_cast this
  split at h
  · cases h
  next hn =>
  simp only [] at h
  split at h
  · cases h
  next g1 =>
  split at h
  · cases h
  next g2 =>
  split at h
  · cases h
  next g3 =>
  split at h
  · cases h
  next g4 =>
  split at h
  · cases h
  next g5 =>
  simp only [Bool.not_eq_eq_eq_not, Bool.not_true] at g1 g2 g4 g5
  refine ⟨by omega, key _ (by simpa using g1), key _ (by simpa using g2), ?_, ?_, ?_⟩
  · intro e
    apply g3
    rw [beq_iff_eq]
    have : ((h1 % n : Nat) : Int) = ((h2 % n : Nat) : Int) := by rw [e]
    push_cast at this
    exact this
  · intro al hal
    have g5' : (List.map Int.ofNat alpha).all (fun v => decide (1 < v % (n : Int)) && decide (v % (n : Int) < (n : Int))) = true := by
      simpa using g5
    rw [List.all_eq_true] at g5'
    exact key al (g5' _ (List.mem_map.2 ⟨al, hal, rfl⟩))
  · intro ti hti
    have g4' : (List.map Int.ofNat t).all (fun v => decide (1 < v % (n : Int)) && decide (v % (n : Int) < (n : Int))) = true := by
      simpa using g4
    rw [List.all_eq_true] at g4'
    exact key ti (g4' _ (List.mem_map.2 ⟨ti, hti, rfl⟩))

/-- the side conditions are also NECESSARY (no hypothesis on the statement needed) -/
theorem dln_good_of_accept (H : HashFn) (h1 h2 x p q n : Nat) (as : List Nat)
    (h : (dlnProve H h1 h2 x p q n as >>= fun pf =>
      dlnVerify H (pf.1.map Int.ofNat) (pf.2.map Int.ofNat) h1 h2 n) = .ok true) :
    DlnGood H h1 h2 x p q n as := by
  by_cases hn : n = 0
  · exfalso
    subst hn
    cases hp : dlnProve H h1 h2 x p q 0 as with
    | ok pf =>
      rw [hp, Outcome.ok_bind] at h
      unfold dlnVerify at h
      simp at h
    | err e => rw [hp] at h; cases h
    | panic e => rw [hp] at h; cases h
  · rw [dlnProve_eq H h1 h2 x p q n as hn, Outcome.ok_bind] at h
    obtain ⟨_, g1, g2, g3, ga, gt⟩ := dlnVerify_true_guards H _ _ h1 h2 n h
    exact ⟨g1, g2, g3, ga, gt⟩

end TssVerif.C10L
