import TssVerif.Core.Sign
import TssVerif.Lemmas.C16
/-! Byte-level facts used by `finalize` and by the EdDSA encoders: width of the minimal big-endian
encoding, left padding, and the little-endian helpers of `eddsa/signing/utils.go`. Core tactics only. -/
set_option autoImplicit false
namespace TssVerif.AlgL
open TssVerif

theorem natToBytesLE_length_le (k : Nat) : ∀ n : Nat, n < 256 ^ k → (natToBytesLE n).length ≤ k := by
  induction k with
  | zero =>
    intro n h
    have : n = 0 := by simpa using h
    subst this
    rw [natToBytesLE]; simp
  | succ k ih =>
    intro n h
    rw [natToBytesLE]
    split
    · simp
    · rw [List.length_cons]
      have : n / 256 < 256 ^ k := by
        rw [Nat.div_lt_iff_lt_mul (by decide)]
        rw [Nat.pow_succ] at h
        exact h
      have := ih _ this
      omega

theorem natToBytesBE_length_le {k n : Nat} (h : n < 256 ^ k) : (natToBytesBE n).length ≤ k := by
  unfold natToBytesBE
  rw [List.length_reverse]
  exact natToBytesLE_length_le k n h

theorem natToBytesBE_length_le_32 {n : Nat} (h : n < 2 ^ 256) : (natToBytesBE n).length ≤ 32 :=
  natToBytesBE_length_le (k := 32) (by
    have : (256 : Nat) ^ 32 = 2 ^ 256 := by decide
    omega)

theorem natToBytesLE_length_gt (k : Nat) : ∀ n : Nat, 256 ^ k ≤ n → k < (natToBytesLE n).length := by
  induction k with
  | zero =>
    intro n h
    rw [natToBytesLE]
    split
    · next h0 => subst h0; simp at h
    · simp
  | succ k ih =>
    intro n h
    rw [natToBytesLE]
    split
    · next h0 => subst h0; exact absurd h (by have := Nat.pow_pos (n := k + 1) (by decide : 0 < 256); omega)
    · rw [List.length_cons]
      have : 256 ^ k ≤ n / 256 := by
        rw [Nat.le_div_iff_mul_le (by decide)]
        rw [Nat.pow_succ] at h
        exact h
      have := ih _ this
      omega

theorem natToBytesBE_length_gt {k n : Nat} (h : 256 ^ k ≤ n) : k < (natToBytesBE n).length := by
  unfold natToBytesBE
  rw [List.length_reverse]
  exact natToBytesLE_length_gt k n h

theorem bytesToNat_foldl_zeros (k : Nat) (b : Bytes) (acc : Nat) :
    (List.replicate k (0 : UInt8) ++ b).foldl (fun acc x => acc * 256 + x.toNat) acc =
      b.foldl (fun acc x => acc * 256 + x.toNat) (acc * 256 ^ k) := by
  induction k generalizing acc with
  | zero => simp
  | succ k ih =>
    rw [List.replicate_succ, List.cons_append, List.foldl_cons, ih]
    congr 1
    show (acc * 256 + 0) * 256 ^ k = acc * 256 ^ (k + 1)
    rw [Nat.add_zero, Nat.pow_succ, Nat.mul_assoc, Nat.mul_comm 256]

/-- left padding with zero bytes does not change the value -/
theorem bytesToNat_padLeft (len : Nat) (b : Bytes) : bytesToNat (padLeft len b) = bytesToNat b := by
  unfold bytesToNat padLeft
  rw [bytesToNat_foldl_zeros, Nat.zero_mul]

theorem padLeft_length (len : Nat) (b : Bytes) : (padLeft len b).length = max len b.length := by
  unfold padLeft
  rw [List.length_append, List.length_replicate]
  omega

theorem padLeft_length_of_le {len : Nat} {b : Bytes} (h : b.length ≤ len) :
    (padLeft len b).length = len := by
  rw [padLeft_length]; omega

theorem padLeft_of_ge {len : Nat} {b : Bytes} (h : len ≤ b.length) : padLeft len b = b := by
  unfold padLeft
  rw [Nat.sub_eq_zero_of_le h]
  rfl

theorem padLeft_zero (b : Bytes) : padLeft 0 b = b := padLeft_of_ge (Nat.zero_le _)

/-- fixed-width encoding of a value below `2^256` -/
theorem padLeft32_natToBytesBE {n : Nat} (h : n < 2 ^ 256) :
    (padLeft 32 (natToBytesBE n)).length = 32 ∧ bytesToNat (padLeft 32 (natToBytesBE n)) = n :=
  ⟨padLeft_length_of_le (natToBytesBE_length_le_32 h),
   by rw [bytesToNat_padLeft, C16L.bytesToNat_natToBytesBE]⟩

/-! ### `bigIntToEncodedBytes` / `encodedBytesToBigInt` -/

theorem bigIntToEncodedBytes_length (a : Nat) : (Sign.Ed.bigIntToEncodedBytes a).length = 32 := by
  unfold Sign.Ed.bigIntToEncodedBytes
  rw [List.length_reverse, List.length_take, padLeft_length]
  omega

theorem enc_roundtrip {a : Nat} (h : a < 2 ^ 256) :
    Sign.Ed.encodedBytesToBigInt (Sign.Ed.bigIntToEncodedBytes a) = a := by
  unfold Sign.Ed.encodedBytesToBigInt Sign.Ed.bigIntToEncodedBytes
  rw [List.reverse_reverse, List.take_of_length_le (by rw [(padLeft32_natToBytesBE h).1]; exact Nat.le_refl _)]
  exact (padLeft32_natToBytesBE h).2

/-- for a value of more than 32 bytes the encoder keeps the 32 MOST significant bytes -/
theorem bigIntToEncodedBytes_of_ge {a : Nat} (h : 2 ^ 256 ≤ a) :
    Sign.Ed.bigIntToEncodedBytes a = ((natToBytesBE a).take 32).reverse := by
  unfold Sign.Ed.bigIntToEncodedBytes
  have : 32 < (natToBytesBE a).length := natToBytesBE_length_gt (k := 32) (by
    have : (256 : Nat) ^ 32 = 2 ^ 256 := by decide
    omega)
  rw [padLeft_of_ge (by omega)]

/-! ### truncation: the general form -/

theorem foldl_bytes_acc (b : Bytes) (acc : Nat) :
    b.foldl (fun acc x => acc * 256 + x.toNat) acc = acc * 256 ^ b.length + bytesToNat b := by
  unfold bytesToNat
  induction b generalizing acc with
  | nil => simp
  | cons x b ih =>
    rw [List.foldl_cons, List.foldl_cons, ih, ih (0 * 256 + x.toNat), List.length_cons, Nat.pow_succ]
    simp only [Nat.zero_mul, Nat.zero_add, Nat.add_mul]
    rw [Nat.mul_assoc, Nat.mul_comm 256, Nat.add_assoc]

theorem bytesToNat_append (a b : Bytes) :
    bytesToNat (a ++ b) = bytesToNat a * 256 ^ b.length + bytesToNat b := by
  show (a ++ b).foldl _ 0 = _
  rw [List.foldl_append, foldl_bytes_acc]
  rfl

theorem bytesToNat_cons (x : UInt8) (b : Bytes) :
    bytesToNat (x :: b) = x.toNat * 256 ^ b.length + bytesToNat b := by
  show (x :: b).foldl _ 0 = _
  rw [List.foldl_cons, foldl_bytes_acc, Nat.zero_mul, Nat.zero_add]

theorem bytesToNat_lt (b : Bytes) : bytesToNat b < 256 ^ b.length := by
  induction b with
  | nil => decide
  | cons x b ih =>
    rw [bytesToNat_cons, List.length_cons, Nat.pow_succ]
    have h1 := x.toNat_lt
    have h2 : x.toNat * 256 ^ b.length ≤ 255 * 256 ^ b.length := Nat.mul_le_mul_right _ (by omega)
    omega

/-- keeping the first `k` bytes of a big-endian string divides its value by `256^(len − k)` -/
theorem bytesToNat_take (b : Bytes) (k : Nat) :
    bytesToNat (b.take k) = bytesToNat b / 256 ^ (b.length - k) := by
  have h := bytesToNat_append (b.take k) (b.drop k)
  rw [List.take_append_drop, List.length_drop] at h
  have hlt := bytesToNat_lt (b.drop k)
  rw [List.length_drop] at hlt
  rw [h, Nat.add_comm, Nat.add_mul_div_right _ _ (Nat.pow_pos (by decide)), Nat.div_eq_of_lt hlt,
    Nat.zero_add]

/-- **what `bigIntToEncodedBytes` does to any value**: it is decoded back as `a` with the bytes beyond
the 32 most significant ones dropped (`a` itself when `a < 2^256`) -/
theorem enc_decode (a : Nat) :
    Sign.Ed.encodedBytesToBigInt (Sign.Ed.bigIntToEncodedBytes a) =
      a / 256 ^ ((natToBytesBE a).length - 32) := by
  unfold Sign.Ed.encodedBytesToBigInt Sign.Ed.bigIntToEncodedBytes
  rw [List.reverse_reverse, bytesToNat_take, bytesToNat_padLeft, C16L.bytesToNat_natToBytesBE,
    padLeft_length]
  congr 2
  omega

end TssVerif.AlgL
