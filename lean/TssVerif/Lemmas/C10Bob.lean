import TssVerif.Lemmas.C10Num
import TssVerif.Lemmas.C10Schnorr
/-! Completeness of Bob's proofs (`mta.ProofBob`, `mta.ProofBobWC`) on every lawful curve.
Helper lemmas for `TssVerif/Props/C10.lean`. -/
set_option autoImplicit false
set_option linter.style.haveILetI false
set_option linter.unusedSectionVars false
namespace TssVerif.C10L
open TssVerif Zk Vss

variable {P : Type} {C : Curve P}

/-! ### small arithmetic -/

theorem bob_mulI_nat (a b m : Nat) : (((a : Int) * (b : Int)) % (m : Int)).toNat = a * b % m := by
  rw [← Nat.cast_mul, emod_natCast_toNat]

theorem bob_cast_sq (n : Nat) : (n : Int) * (n : Int) = ((n * n : Nat) : Int) := by push_cast; rfl

theorem bob_cast_succ (n : Nat) : (n : Int) + 1 = ((n + 1 : Nat) : Int) := by push_cast; rfl

/-- the verifier on a proof whose fields are (casts of) naturals: every guard and the four final equations as
hypotheses -/
theorem bobVerify_eq_true (H : HashFn) (sess : Bytes) (n ntilde h1 h2 c1 c2 : Nat)
    (z zP t v w s s1 s2 t1 t2 : Nat) (xu : Option (ECPoint × ECPoint))
    (hn : 0 < n) (hnt : 0 < ntilde)
    (hz : z < ntilde) (hzP : zP < ntilde) (ht : t < ntilde) (hv : v < n * n) (hw : w < ntilde) (hs : s < n)
    (gz : Nat.gcd z ntilde = 1) (gzP : Nat.gcd zP ntilde = 1) (gt : Nat.gcd t ntilde = 1)
    (gv2 : Nat.gcd v (n * n) = 1) (gw : Nat.gcd w ntilde = 1) (s0 : s ≠ 0) (gs : Nat.gcd s n = 1)
    (v0 : v ≠ 0) (gv : Nat.gcd v n = 1)
    (ls1 : C.q ≤ s1) (ls2 : C.q ≤ s2) (lt1 : C.q ≤ t1) (lt2 : C.q ≤ t2)
    (us1 : s1 ≤ C.q ^ 3) (ut1 : t1 ≤ C.q ^ 7)
    (e : Nat) (he : e = bobChallenge C H sess n c1 c2 xu ⟨z, zP, t, v, w, s, s1, s2, t1, t2⟩)
    (hpt : ∀ X U, xu = some (X, U) → s1 % C.q ≠ 0 ∧ e ≠ 0 ∧ ∃ g xe,
      C.ecBaseMult ((s1 % C.q : Nat) : Int) = .ok g ∧ C.ecScalarMult X (e : Int) = .ok xe ∧ C.ecAdd xe U = .ok g)
    (h5 : h1 ^ s1 * h2 ^ s2 ≡ z ^ e * zP [MOD ntilde])
    (h6 : h1 ^ t1 * h2 ^ t2 ≡ t ^ e * w [MOD ntilde])
    (h7 : c1 ^ s1 * s ^ n * (n + 1) ^ t1 ≡ c2 ^ e * v [MOD n * n]) :
    bobVerify C H cur sess n ntilde h1 h2 c1 c2 ⟨z, zP, t, v, w, s, s1, s2, t1, t2⟩ xu = .ok true := by
  have hnt0 : ntilde ≠ 0 := Nat.pos_iff_ne_zero.1 hnt
  have hn20 : n * n ≠ 0 := Nat.mul_ne_zero (Nat.pos_iff_ne_zero.1 hn) (Nat.pos_iff_ne_zero.1 hn)
  have i1 := isInInterval_of_lt z (ntilde : Int) (by exact_mod_cast hz)
  have i2 := isInInterval_of_lt zP (ntilde : Int) (by exact_mod_cast hzP)
  have i3 := isInInterval_of_lt t (ntilde : Int) (by exact_mod_cast ht)
  have i4 := isInInterval_of_lt v ((n * n : Nat) : Int) (by exact_mod_cast hv)
  have i5 := isInInterval_of_lt w (ntilde : Int) (by exact_mod_cast hw)
  have i6 := isInInterval_of_lt s (n : Int) (by exact_mod_cast hs)
  have s0' : ((s : Int) == 0) = false := by
    rw [beq_eq_false_iff_ne]; exact_mod_cast s0
  have v0' : ((v : Int) == 0) = false := by
    rw [beq_eq_false_iff_ne]; exact_mod_cast v0
  have b1 : ¬ ((s1 : Int) < (C.q : Int)) := by exact_mod_cast Nat.not_lt.2 ls1
  have b2 : ¬ ((s2 : Int) < (C.q : Int)) := by exact_mod_cast Nat.not_lt.2 ls2
  have b3 : ¬ ((t1 : Int) < (C.q : Int)) := by exact_mod_cast Nat.not_lt.2 lt1
  have b4 : ¬ ((t2 : Int) < (C.q : Int)) := by exact_mod_cast Nat.not_lt.2 lt2
  have b5 : ¬ ((s1 : Int) > (C.q : Int) * (C.q : Int) * (C.q : Int)) := by
    have : C.q ^ 3 = C.q * C.q * C.q := by ring
    rw [this] at us1
    exact_mod_cast Nat.not_lt.2 us1
  have b6 : ¬ ((t1 : Int) > (C.q : Int) * (C.q : Int) * (C.q : Int) * ((C.q : Int) * (C.q : Int) * (C.q : Int)) * (C.q : Int)) := by
    have : C.q ^ 7 = C.q * C.q * C.q * (C.q * C.q * C.q) * C.q := by ring
    rw [this] at ut1
    exact_mod_cast Nat.not_lt.2 ut1
  have e5 : h1 ^ s1 % ntilde * (h2 ^ s2 % ntilde) % ntilde = z ^ e % ntilde * zP % ntilde := by
    rw [← Nat.mul_mod, Nat.mod_mul_mod]; exact h5
  have e6 : h1 ^ t1 % ntilde * (h2 ^ t2 % ntilde) % ntilde = t ^ e % ntilde * w % ntilde := by
    rw [← Nat.mul_mod, Nat.mod_mul_mod]; exact h6
  have e7 : c1 ^ s1 % (n * n) * (s ^ n % (n * n)) % (n * n) * ((n + 1) ^ t1 % (n * n)) % (n * n)
      = c2 ^ e % (n * n) * v % (n * n) := by
    have l : c1 ^ s1 % (n * n) * (s ^ n % (n * n)) % (n * n) * ((n + 1) ^ t1 % (n * n))
        ≡ c1 ^ s1 * s ^ n * (n + 1) ^ t1 [MOD n * n] :=
      ((Nat.mod_modEq _ _).trans ((Nat.mod_modEq _ _).mul (Nat.mod_modEq _ _))).mul (Nat.mod_modEq _ _)
    have r : c2 ^ e % (n * n) * v ≡ c2 ^ e * v [MOD n * n] := (Nat.mod_modEq _ _).mul_right _
    exact l.trans (h7.trans r.symm)
  unfold bobVerify
  simp only [bob_cast_sq n, bob_cast_succ, ← he]
  simp only [i1, i2, i3, i4, i5, i6, Int.gcd_natCast_natCast, gz, gzP, gt, gv2, gw, gs, gv, s0', v0',
    b1, b2, b3, b4, b5, b6, bne_self_eq_false, Bool.not_true, Bool.false_eq_true, if_false,
    Int.natAbs_natCast, expP_nat _ _ hnt0, expP_nat _ _ hn20, Outcome.ok_bind, Outcome.pure_eq, bob_mulI_nat,
    e5, e6, e7, beq_self_eq_true]
  cases xu with
  | none => rfl
  | some XU =>
    obtain ⟨X, U⟩ := XU
    obtain ⟨hs1q, he0, g, xe, hg, hxe, hadd⟩ := hpt X U rfl
    have hguard : (cur.bobWCGuards && (s1 % C.q == 0 || e == 0)) = false := by
      simp [cur, hs1q, he0]
    simp only [emod_natCast_toNat, hguard, Bool.false_eq_true, if_false, hg, hxe, hadd, Outcome.ok_bind,
      ecEquals_self]

/-! ### the three ring equations -/

/-- equations (5) and (6): `a^(e·x+al) · b^(e·r+rp) ≡ z^e · zp` for Pedersen-style commitments `z`, `zp` -/
theorem bob_ped_modEq {M a b x r al rp z zp : Nat} (e : Nat) (hz : z ≡ a ^ x * b ^ r [MOD M])
    (hzp : zp ≡ a ^ al * b ^ rp [MOD M]) :
    a ^ (e * x + al) * b ^ (e * r + rp) ≡ z ^ e * zp [MOD M] := by
  have h := (hz.pow e).mul hzp
  have e1 : (a ^ x * b ^ r) ^ e * (a ^ al * b ^ rp) = a ^ (e * x + al) * b ^ (e * r + rp) := by ring
  rw [e1] at h
  exact h.symm

/-- equation (7) -/
theorem bob_eq7 {n c1 c2 x y r al ga be s v : Nat} (e : Nat)
    (hc2 : c2 ≡ c1 ^ x * (n + 1) ^ y * r ^ n [MOD n * n])
    (hv : v ≡ c1 ^ al * (n + 1) ^ ga * be ^ n [MOD n * n])
    (hs : s ≡ r ^ e * be [MOD n]) :
    c1 ^ (e * x + al) * s ^ n * (n + 1) ^ (e * y + ga) ≡ c2 ^ e * v [MOD n * n] := by
  have h := (hc2.pow e).mul hv
  have hsn : s ^ n ≡ (r ^ e * be) ^ n [MOD n * n] := pow_n_modEq_sq hs
  have e1 : (c1 ^ x * (n + 1) ^ y * r ^ n) ^ e * (c1 ^ al * (n + 1) ^ ga * be ^ n)
      = c1 ^ (e * x + al) * (r ^ e * be) ^ n * (n + 1) ^ (e * y + ga) := by ring
  rw [e1] at h
  exact (((Nat.ModEq.refl _).mul hsn).mul (Nat.ModEq.refl _)).trans h.symm

theorem bob_coprime_succ_self (n : Nat) : Nat.Coprime (n + 1) n := by
  simp [Nat.coprime_self_add_left]

theorem bob_ne_zero_of_coprime {s n : Nat} (hn : 1 < n) (h : Nat.Coprime s n) : s ≠ 0 := by
  rintro rfl
  rw [Nat.Coprime, Nat.gcd_zero_left] at h
  omega

/-! ### the prover -/

/-- the part of Bob's proof that enters the challenge (the other fields are `0`), as `bobProve` computes it -/
def bobPf0 (n ntilde h1 h2 c1 x y : Nat) (k : BobCoins) : BobProof :=
  let n2 := n * n
  let z := modPow h1 x ntilde * modPow h2 k.rho ntilde % ntilde
  let zPrm := modPow h1 k.alpha ntilde * modPow h2 k.rhoPrm ntilde % ntilde
  let t := modPow h1 y ntilde * modPow h2 k.sigma ntilde % ntilde
  let v := modPow c1 k.alpha n2 * modPow (n + 1) k.gamma n2 % n2 * modPow k.beta n n2 % n2
  let w := modPow h1 k.gamma ntilde * modPow h2 k.tau ntilde % ntilde
  ⟨z, zPrm, t, v, w, 0, 0, 0, 0, 0⟩

/-- Bob's proof as a function of the challenge `e` -/
def bobPfE (n ntilde h1 h2 c1 x y r : Nat) (k : BobCoins) (e : Nat) : BobProof :=
  { bobPf0 n ntilde h1 h2 c1 x y k with
    s := modPow r e n * k.beta % n, s1 := e * x + k.alpha, s2 := e * k.rho + k.rhoPrm,
    t1 := e * y + k.gamma, t2 := e * k.sigma + k.tau }

/-- the point `U = alpha·G` of the "with check" variant (`none` without check, or where `ScalarBaseMult` crashes) -/
def bobU (C : Curve P) (X : Option ECPoint) (alpha : Nat) : Option ECPoint :=
  match X with
  | none => none
  | some _ => C.toAffine (C.smul alpha C.base)

/-- the pair `(X, U)` handed to the challenge and to the verifier -/
def bobXU (X u : Option ECPoint) : Option (ECPoint × ECPoint) :=
  match X, u with
  | some X, some U => some (X, U)
  | _, _ => none

/-- the prover's challenge, computed exactly as in `bobProve` -/
def bobE (C : Curve P) (H : HashFn) (sess : Bytes) (n ntilde h1 h2 c1 c2 x y : Nat) (X : Option ECPoint)
    (k : BobCoins) : Nat :=
  bobChallenge C H sess n c1 c2 (bobXU X (bobU C X k.alpha)) (bobPf0 n ntilde h1 h2 c1 x y k)

theorem bobChallenge_lt (hC : C.Lawful) (H : HashFn) (sess : Bytes) (n c1 c2 : Int)
    (xu : Option (ECPoint × ECPoint)) (pf : BobProof) : bobChallenge C H sess n c1 c2 xu pf < C.q :=
  Nat.mod_lt _ hC.q_pos

theorem bobProve_none (H : HashFn) (sess : Bytes) (n ntilde h1 h2 c1 c2 x y r : Nat) (k : BobCoins) :
    bobProve C H sess n ntilde h1 h2 c1 c2 x y r none k =
      .ok (bobPfE n ntilde h1 h2 c1 x y r k (bobE C H sess n ntilde h1 h2 c1 c2 x y none k), none) := rfl

theorem bobProve_some (H : HashFn) (sess : Bytes) (n ntilde h1 h2 c1 c2 x y r : Nat) (Xp U : ECPoint)
    (k : BobCoins) (hU : C.toAffine (C.smul k.alpha C.base) = some U) :
    bobProve C H sess n ntilde h1 h2 c1 c2 x y r (some Xp) k =
      .ok (bobPfE n ntilde h1 h2 c1 x y r k (bobE C H sess n ntilde h1 h2 c1 c2 x y (some Xp) k), some U) := by
  unfold bobProve bobE bobU
  simp only [ecBaseMult_nat_ok hU, Outcome.bind, Outcome.pure_eq, Outcome.ok_bind, hU]
  rfl

/-- the fields of `bobPfE` as casts of naturals, `modPow` evaluated -/
theorem bobPfE_eq (n ntilde h1 h2 c1 x y r : Nat) (k : BobCoins) (e : Nat) :
    bobPfE n ntilde h1 h2 c1 x y r k e =
      ⟨((h1 ^ x % ntilde * (h2 ^ k.rho % ntilde) % ntilde : Nat) : Int),
       ((h1 ^ k.alpha % ntilde * (h2 ^ k.rhoPrm % ntilde) % ntilde : Nat) : Int),
       ((h1 ^ y % ntilde * (h2 ^ k.sigma % ntilde) % ntilde : Nat) : Int),
       ((c1 ^ k.alpha % (n * n) * ((n + 1) ^ k.gamma % (n * n)) % (n * n) * (k.beta ^ n % (n * n)) % (n * n) : Nat) : Int),
       ((h1 ^ k.gamma % ntilde * (h2 ^ k.tau % ntilde) % ntilde : Nat) : Int),
       ((r ^ e % n * k.beta % n : Nat) : Int),
       ((e * x + k.alpha : Nat) : Int), ((e * k.rho + k.rhoPrm : Nat) : Int),
       ((e * y + k.gamma : Nat) : Int), ((e * k.sigma + k.tau : Nat) : Int)⟩ := by
  unfold bobPfE bobPf0
  simp only [modPow_spec]
  push_cast
  rfl

/-- the verifier accepts the honest proof computed with the challenge it will recompute; the point equation
of the "with check" variant is a hypothesis here -/
theorem bob_core (H : HashFn) (sess : Bytes) (n ntilde h1 h2 c1 c2 x y r : Nat) (k : BobCoins)
    (xu : Option (ECPoint × ECPoint)) (e : Nat)
    (hn : 1 < n) (hnt : 0 < ntilde)
    (hh1 : Nat.Coprime h1 ntilde) (hh2 : Nat.Coprime h2 ntilde)
    (hc1 : Nat.Coprime c1 n) (hr : Nat.Coprime r n) (hbeta : Nat.Coprime k.beta n)
    (hc2 : c2 ≡ c1 ^ x * (n + 1) ^ y * r ^ n [MOD n * n])
    (he : e = bobChallenge C H sess n c1 c2 xu (bobPf0 n ntilde h1 h2 c1 x y k))
    (ls1 : C.q ≤ e * x + k.alpha) (ls2 : C.q ≤ e * k.rho + k.rhoPrm)
    (lt1 : C.q ≤ e * y + k.gamma) (lt2 : C.q ≤ e * k.sigma + k.tau)
    (us1 : e * x + k.alpha ≤ C.q ^ 3) (ut1 : e * y + k.gamma ≤ C.q ^ 7)
    (hpt : ∀ X U, xu = some (X, U) → (e * x + k.alpha) % C.q ≠ 0 ∧ e ≠ 0 ∧ ∃ g xe,
      C.ecBaseMult (((e * x + k.alpha) % C.q : Nat) : Int) = .ok g ∧ C.ecScalarMult X (e : Int) = .ok xe ∧
        C.ecAdd xe U = .ok g) :
    bobVerify C H cur sess n ntilde h1 h2 c1 c2 (bobPfE n ntilde h1 h2 c1 x y r k e) xu = .ok true := by
  have hn0 : 0 < n := by omega
  have hn2 : 0 < n * n := Nat.mul_pos hn0 hn0
  have cn1 : Nat.Coprime (n + 1) (n * n) := coprime_sq (bob_coprime_succ_self n)
  have cV : Nat.Coprime
      (c1 ^ k.alpha % (n * n) * ((n + 1) ^ k.gamma % (n * n)) % (n * n) * (k.beta ^ n % (n * n)) % (n * n))
      (n * n) :=
    coprime_mod (Nat.Coprime.mul_left (coprime_mul_pow_mod k.alpha k.gamma (coprime_sq hc1) cn1)
      (coprime_mod ((coprime_sq hbeta).pow_left n)))
  have cS : Nat.Coprime (r ^ e % n * k.beta % n) n :=
    coprime_mod (Nat.Coprime.mul_left (coprime_mod (hr.pow_left e)) hbeta)
  have cVn : Nat.Coprime
      (c1 ^ k.alpha % (n * n) * ((n + 1) ^ k.gamma % (n * n)) % (n * n) * (k.beta ^ n % (n * n)) % (n * n)) n :=
    Nat.Coprime.coprime_mul_left_right cV
  rw [bobPfE_eq]
  refine bobVerify_eq_true (C := C) H sess n ntilde h1 h2 c1 c2 _ _ _ _ _ _ _ _ _ _ xu hn0 hnt
    (Nat.mod_lt _ hnt) (Nat.mod_lt _ hnt) (Nat.mod_lt _ hnt) (Nat.mod_lt _ hn2) (Nat.mod_lt _ hnt)
    (Nat.mod_lt _ hn0)
    (coprime_mul_pow_mod x k.rho hh1 hh2) (coprime_mul_pow_mod k.alpha k.rhoPrm hh1 hh2)
    (coprime_mul_pow_mod y k.sigma hh1 hh2) cV (coprime_mul_pow_mod k.gamma k.tau hh1 hh2)
    (bob_ne_zero_of_coprime hn cS) cS (bob_ne_zero_of_coprime hn cVn) cVn
    ls1 ls2 lt1 lt2 us1 ut1 e ?_ hpt ?_ ?_ ?_
  · rw [he]
    unfold bobChallenge bobPf0
    simp only [modPow_spec]
  · exact bob_ped_modEq e (((Nat.mod_modEq _ _).trans ((Nat.mod_modEq _ _).mul (Nat.mod_modEq _ _))))
      (((Nat.mod_modEq _ _).trans ((Nat.mod_modEq _ _).mul (Nat.mod_modEq _ _))))
  · exact bob_ped_modEq e (((Nat.mod_modEq _ _).trans ((Nat.mod_modEq _ _).mul (Nat.mod_modEq _ _))))
      (((Nat.mod_modEq _ _).trans ((Nat.mod_modEq _ _).mul (Nat.mod_modEq _ _))))
  · refine bob_eq7 (be := k.beta) e hc2 ?_ ?_
    · exact (Nat.mod_modEq _ _).trans (((Nat.mod_modEq _ _).trans
        ((Nat.mod_modEq _ _).mul (Nat.mod_modEq _ _))).mul (Nat.mod_modEq _ _))
    · exact (Nat.mod_modEq _ _).trans ((Nat.mod_modEq _ _).mul_right _)

/-! ### completeness -/

/-- The side conditions on Bob's coins `k` (and inputs) that the verifier checks and that do not follow from the
honest relation: `beta` is a unit modulo `N` (the Go prover samples it from `Z_N^*`); the responses `s1, s2, t1, t2`
are at least `q` and `s1 ≤ q³`, `t1 ≤ q⁷`; in the variant with check (`X = some _`) additionally the challenge is
non-zero, `s1 ≢ 0 (mod q)` (both rejected by the verifier since the K5 repair), and on a curve whose identity has
no affine form `alpha ≢ 0 (mod q)` (the prover's `ScalarBaseMult(alpha)` would crash). `r` does not enter. -/
def BobGood (C : Curve P) (H : HashFn) (sess : Bytes) (n ntilde h1 h2 c1 c2 x y _r : Nat) (X : Option ECPoint)
    (k : BobCoins) : Prop :=
  let q := C.q
  let e := bobE C H sess n ntilde h1 h2 c1 c2 x y X k
  Nat.gcd k.beta n = 1 ∧
  q ≤ e * x + k.alpha ∧ q ≤ e * k.rho + k.rhoPrm ∧ q ≤ e * y + k.gamma ∧ q ≤ e * k.sigma + k.tau ∧
  e * x + k.alpha ≤ q ^ 3 ∧ e * y + k.gamma ≤ q ^ 7 ∧
  (X.isSome = true →
    e ≠ 0 ∧ (e * x + k.alpha) % q ≠ 0 ∧ (C.toAffine C.zero = none → k.alpha % q ≠ 0))

instance (C : Curve P) (H : HashFn) (sess : Bytes) (n ntilde h1 h2 c1 c2 x y r : Nat) (X : Option ECPoint)
    (k : BobCoins) : Decidable (BobGood C H sess n ntilde h1 h2 c1 c2 x y r X k) := by
  unfold BobGood; infer_instance

/-- the point equation of the variant with check: `(s1 mod q)·G = e·X + U` with all three points affine -/
theorem bob_point (hC : C.Lawful) {x alpha e : Nat} {Xp U : ECPoint}
    (hX : C.toAffine (C.smul x C.base) = some Xp) (hU : C.toAffine (C.smul alpha C.base) = some U)
    (he0 : e ≠ 0) (helt : e < C.q) (hs1 : (e * x + alpha) % C.q ≠ 0) :
    ∃ g xe, C.ecBaseMult (((e * x + alpha) % C.q : Nat) : Int) = .ok g ∧
      C.ecScalarMult Xp (e : Int) = .ok xe ∧ C.ecAdd xe U = .ok g := by
  have hlX : C.lift Xp = some (C.smul x C.base) := lift_of_toAffine hC hX
  obtain ⟨g, hg⟩ := toAffine_smul_base_isSome hC (k := (e * x + alpha) % C.q) (by rw [Nat.mod_mod]; exact hs1)
  have heX : C.smul e (C.smul x C.base) = C.smul (e * x) C.base := (hC.smul_mul e x C.base).symm
  obtain ⟨xe, hxe⟩ : ∃ r, C.toAffine (C.smul e (C.smul x C.base)) = some r := by
    rw [heX]
    cases hr : C.toAffine (C.smul (e * x) C.base) with
    | some r => exact ⟨r, rfl⟩
    | none =>
      obtain ⟨h1, h2⟩ := (toAffine_smul_base_eq_none_iff hC _).1 hr
      have heq : e % C.q ≠ 0 := by rw [Nat.mod_eq_of_lt helt]; exact he0
      have hxq : x % C.q ≠ 0 := by
        intro h0
        have := (toAffine_smul_base_eq_none_iff hC x).2 ⟨h0, h2⟩
        rw [hX] at this; cases this
      exact absurd h1 (mul_mod_ne_zero hC heq hxq)
  have hsum : C.toAffine (C.add (C.smul e (C.smul x C.base)) (C.smul alpha C.base)) = some g := by
    rw [heX, ← hC.smul_add, hC.smul_base_mod]; exact hg
  exact ⟨g, xe, ecBaseMult_nat_ok hg, ecScalarMult_nat_ok hlX hxe,
    ecAdd_ok (lift_of_toAffine hC hxe) (lift_of_toAffine hC hU) hsum⟩

/-- **Completeness of Bob's proof**, without check (`X = none`: `ProveBob` / `(*ProofBob).Verify`) and with check
(`X = some Xp`: `ProveBobWC` / `(*ProofBobWC).Verify`, the verifier receives `(X, U)` with the prover's `U`).
`hc2` says `c2 = x ⊙ c1 ⊕ Enc(y; r)`; `hX` (used with check only) says `X = x·G`. `1 < n` cannot be weakened:
for `n = 1` the response `s` is `0`, which the verifier rejects (see the examples); `0 < ntilde` suffices. -/
theorem bob_complete_aux (hC : C.Lawful) (H : HashFn) (sess : Bytes) (n ntilde h1 h2 c1 c2 x y r : Nat)
    (X : Option ECPoint) (k : BobCoins)
    (hn : 1 < n) (hnt : 0 < ntilde)
    (hh1 : Nat.Coprime h1 ntilde) (hh2 : Nat.Coprime h2 ntilde)
    (hc1 : Nat.Coprime c1 n) (hr : Nat.Coprime r n)
    (hc2 : c2 ≡ c1 ^ x * (n + 1) ^ y * r ^ n [MOD n * n])
    (hX : ∀ Xp, X = some Xp → C.toAffine (C.smul x C.base) = some Xp)
    (hg : BobGood C H sess n ntilde h1 h2 c1 c2 x y r X k) :
    (bobProve C H sess n ntilde h1 h2 c1 c2 x y r X k >>= fun pu =>
      bobVerify C H cur sess n ntilde h1 h2 c1 c2 pu.1 (bobXU X pu.2)) = .ok true := by
  obtain ⟨hbeta, ls1, ls2, lt1, lt2, us1, ut1, hwc⟩ := hg
  cases X with
  | none =>
    rw [bobProve_none]
    exact bob_core H sess n ntilde h1 h2 c1 c2 x y r k none _ hn hnt hh1 hh2 hc1 hr hbeta hc2 rfl
      ls1 ls2 lt1 lt2 us1 ut1 (fun _ _ h => by cases h)
  | some Xp =>
    obtain ⟨he0, hs1, halpha⟩ := hwc rfl
    have hXp := hX Xp rfl
    obtain ⟨U, hU⟩ : ∃ U, C.toAffine (C.smul k.alpha C.base) = some U := by
      cases hr : C.toAffine (C.smul k.alpha C.base) with
      | some r => exact ⟨r, rfl⟩
      | none =>
        obtain ⟨h1, h2⟩ := (toAffine_smul_base_eq_none_iff hC k.alpha).1 hr
        exact absurd h1 (halpha h2)
    have hxu : bobXU (some Xp) (bobU C (some Xp) k.alpha) = some (Xp, U) := by
      unfold bobU; simp only [hU]; rfl
    have hE : bobE C H sess n ntilde h1 h2 c1 c2 x y (some Xp) k =
        bobChallenge C H sess n c1 c2 (some (Xp, U)) (bobPf0 n ntilde h1 h2 c1 x y k) := by
      unfold bobE; rw [hxu]
    rw [bobProve_some H sess n ntilde h1 h2 c1 c2 x y r Xp U k hU]
    have helt : bobE C H sess n ntilde h1 h2 c1 c2 x y (some Xp) k < C.q := by
      rw [hE]; exact bobChallenge_lt hC ..
    refine bob_core H sess n ntilde h1 h2 c1 c2 x y r k (some (Xp, U)) _ hn hnt hh1 hh2 hc1 hr hbeta hc2 hE
      ls1 ls2 lt1 lt2 us1 ut1 ?_
    intro X' U' h
    cases h
    exact ⟨hs1, he0, bob_point hC hXp hU he0 helt hs1⟩

/-! ### the converse: `BobGood` is necessary -/

theorem bob_ite_okfalse {c : Prop} [Decidable c] {x : Outcome Bool}
    (h : (if c then Outcome.ok false else x) = .ok true) : ¬ c ∧ x = .ok true := by
  split at h
  · cases h
  · exact ⟨‹_›, h⟩

/-- what an accepting run of the verifier tells about the guards that `BobGood` lists -/
theorem bobVerify_guards (H : HashFn) (sess : Bytes) (n ntilde h1 h2 c1 c2 : Int) (pf : BobProof)
    (xu : Option (ECPoint × ECPoint))
    (h : bobVerify C H cur sess n ntilde h1 h2 c1 c2 pf xu = .ok true) :
    Int.gcd pf.s n = 1 ∧ ¬ pf.s1 < (C.q : Int) ∧ ¬ pf.s2 < (C.q : Int) ∧ ¬ pf.t1 < (C.q : Int) ∧
      ¬ pf.t2 < (C.q : Int) ∧ ¬ pf.s1 > (C.q : Int) * (C.q : Int) * (C.q : Int) ∧
      ¬ pf.t1 > (C.q : Int) * (C.q : Int) * (C.q : Int) * ((C.q : Int) * (C.q : Int) * (C.q : Int)) * (C.q : Int) ∧
      (xu.isSome = true → (pf.s1 % (C.q : Int)).toNat ≠ 0 ∧ bobChallenge C H sess n c1 c2 xu pf ≠ 0) := by
  rw [bobVerify] at h
  dsimp only at h
  obtain ⟨_, h⟩ := bob_ite_okfalse h
  obtain ⟨_, h⟩ := bob_ite_okfalse h
  obtain ⟨_, h⟩ := bob_ite_okfalse h
  obtain ⟨_, h⟩ := bob_ite_okfalse h
  obtain ⟨_, h⟩ := bob_ite_okfalse h
  obtain ⟨_, h⟩ := bob_ite_okfalse h
  obtain ⟨_, h⟩ := bob_ite_okfalse h
  obtain ⟨_, h⟩ := bob_ite_okfalse h
  obtain ⟨_, h⟩ := bob_ite_okfalse h
  obtain ⟨_, h⟩ := bob_ite_okfalse h
  obtain ⟨_, h⟩ := bob_ite_okfalse h
  obtain ⟨_, h⟩ := bob_ite_okfalse h
  obtain ⟨gs, h⟩ := bob_ite_okfalse h
  obtain ⟨_, h⟩ := bob_ite_okfalse h
  obtain ⟨_, h⟩ := bob_ite_okfalse h
  obtain ⟨b1, h⟩ := bob_ite_okfalse h
  obtain ⟨b2, h⟩ := bob_ite_okfalse h
  obtain ⟨b3, h⟩ := bob_ite_okfalse h
  obtain ⟨b4, h⟩ := bob_ite_okfalse h
  obtain ⟨b5, h⟩ := bob_ite_okfalse h
  obtain ⟨b6, h⟩ := bob_ite_okfalse h
  refine ⟨by simpa using gs, b1, b2, b3, b4, b5, b6, ?_⟩
  intro hxu
  cases xu with
  | none => cases hxu
  | some XU =>
    obtain ⟨X, U⟩ := XU
    dsimp only at h
    by_cases hguard : (cur.bobWCGuards && ((pf.s1 % (C.q : Int)).toNat == 0 ||
        bobChallenge C H sess n c1 c2 (some (X, U)) pf == 0)) = true
    · rw [if_pos hguard] at h
      cases h
    · simpa [cur] using hguard

theorem bobProve_some_panic (H : HashFn) (sess : Bytes) (n ntilde h1 h2 c1 c2 x y r : Nat) (Xp : ECPoint)
    (k : BobCoins) (hU : C.toAffine (C.smul k.alpha C.base) = none) :
    bobProve C H sess n ntilde h1 h2 c1 c2 x y r (some Xp) k = .panic "scalar-base-mult-identity" := by
  unfold bobProve
  simp only [ecBaseMult_none C hU, Outcome.bind]
  rfl

/-- extraction of `BobGood` from the guard facts about the honest proof -/
theorem bobGood_of_guards (H : HashFn) (sess : Bytes) (n ntilde h1 h2 c1 c2 x y r : Nat)
    (X : Option ECPoint) (k : BobCoins) (xu : Option (ECPoint × ECPoint)) (e : Nat)
    (he : e = bobE C H sess n ntilde h1 h2 c1 c2 x y X k)
    (hce : bobChallenge C H sess n c1 c2 xu (bobPfE n ntilde h1 h2 c1 x y r k e) = e)
    (hxu : X.isSome = true → xu.isSome = true)
    (halpha : X.isSome = true → C.toAffine C.zero = none → k.alpha % C.q ≠ 0)
    (h : bobVerify C H cur sess n ntilde h1 h2 c1 c2 (bobPfE n ntilde h1 h2 c1 x y r k e) xu = .ok true) :
    BobGood C H sess n ntilde h1 h2 c1 c2 x y r X k := by
  obtain ⟨gs, b1, b2, b3, b4, b5, b6, hwc⟩ := bobVerify_guards H sess _ _ _ _ _ _ _ _ h
  rw [hce] at hwc
  change Int.gcd ((modPow r e n * k.beta % n : Nat) : Int) (n : Int) = 1 at gs
  change ¬ ((e : Int) * (x : Int) + (k.alpha : Int) < (C.q : Int)) at b1
  change ¬ ((e : Int) * (k.rho : Int) + (k.rhoPrm : Int) < (C.q : Int)) at b2
  change ¬ ((e : Int) * (y : Int) + (k.gamma : Int) < (C.q : Int)) at b3
  change ¬ ((e : Int) * (k.sigma : Int) + (k.tau : Int) < (C.q : Int)) at b4
  change ¬ ((e : Int) * (x : Int) + (k.alpha : Int) > (C.q : Int) * (C.q : Int) * (C.q : Int)) at b5
  change ¬ ((e : Int) * (y : Int) + (k.gamma : Int) >
    (C.q : Int) * (C.q : Int) * (C.q : Int) * ((C.q : Int) * (C.q : Int) * (C.q : Int)) * (C.q : Int)) at b6
  change xu.isSome = true → (((e : Int) * (x : Int) + (k.alpha : Int)) % (C.q : Int)).toNat ≠ 0 ∧ e ≠ 0 at hwc
  rw [Int.gcd_natCast_natCast] at gs
  have hbeta : Nat.gcd k.beta n = 1 := by
    apply Nat.eq_one_of_dvd_one
    rw [← gs]
    have d1 : Nat.gcd k.beta n ∣ n := Nat.gcd_dvd_right _ _
    have d2 : Nat.gcd k.beta n ∣ modPow r e n * k.beta := Dvd.dvd.mul_left (Nat.gcd_dvd_left _ _) _
    exact Nat.dvd_gcd ((Nat.dvd_mod_iff d1).2 d2) d1
  have q3 : C.q ^ 3 = C.q * C.q * C.q := by ring
  have q7 : C.q ^ 7 = C.q * C.q * C.q * (C.q * C.q * C.q) * C.q := by ring
  unfold BobGood
  dsimp only
  rw [← he, q3, q7]
  refine ⟨hbeta, ?_, ?_, ?_, ?_, ?_, ?_, ?_⟩
  · exact_mod_cast not_lt.1 b1
  · exact_mod_cast not_lt.1 b2
  · exact_mod_cast not_lt.1 b3
  · exact_mod_cast not_lt.1 b4
  · exact_mod_cast not_lt.1 b5
  · exact_mod_cast not_lt.1 b6
  · intro hX
    obtain ⟨w1, w2⟩ := hwc (hxu hX)
    refine ⟨w2, ?_, halpha hX⟩
    have ec : (e : Int) * (x : Int) + (k.alpha : Int) = ((e * x + k.alpha : Nat) : Int) := by push_cast; rfl
    rw [ec, emod_natCast_toNat] at w1
    exact w1

/-- **`BobGood` is necessary**: if the honest prover runs and the verifier accepts, then `BobGood` holds.
Together with `bob_complete_aux`: under the hypotheses of that theorem, acceptance ↔ `BobGood`. Only lawfulness
of the curve is needed (for: `alpha ≡ 0 (mod q)` makes `ScalarBaseMult(alpha)` crash when the identity has no
affine form). -/
theorem bob_good_of_accept (hC : C.Lawful) (H : HashFn) (sess : Bytes) (n ntilde h1 h2 c1 c2 x y r : Nat)
    (X : Option ECPoint) (k : BobCoins)
    (h : (bobProve C H sess n ntilde h1 h2 c1 c2 x y r X k >>= fun pu =>
      bobVerify C H cur sess n ntilde h1 h2 c1 c2 pu.1 (bobXU X pu.2)) = .ok true) :
    BobGood C H sess n ntilde h1 h2 c1 c2 x y r X k := by
  cases X with
  | none =>
    rw [bobProve_none] at h
    exact bobGood_of_guards H sess n ntilde h1 h2 c1 c2 x y r none k none _ rfl rfl
      (fun hX => by cases hX) (fun hX => by cases hX) h
  | some Xp =>
    cases hr : C.toAffine (C.smul k.alpha C.base) with
    | none =>
      rw [bobProve_some_panic H sess n ntilde h1 h2 c1 c2 x y r Xp k hr] at h
      cases h
    | some U =>
      rw [bobProve_some H sess n ntilde h1 h2 c1 c2 x y r Xp U k hr] at h
      have hxu : bobXU (some Xp) (bobU C (some Xp) k.alpha) = some (Xp, U) := by
        unfold bobU; simp only [hr]; rfl
      have hE : bobChallenge C H sess n c1 c2 (some (Xp, U)) (bobPf0 n ntilde h1 h2 c1 x y k) =
          bobE C H sess n ntilde h1 h2 c1 c2 x y (some Xp) k := by
        unfold bobE; rw [hxu]
      refine bobGood_of_guards H sess n ntilde h1 h2 c1 c2 x y r (some Xp) k (some (Xp, U)) _ rfl hE
        (fun _ => rfl) ?_ h
      intro _ hz h0
      have := (toAffine_smul_base_eq_none_iff hC k.alpha).2 ⟨h0, hz⟩
      rw [hr] at this
      cases this

/-- under the hypotheses of `bob_complete_aux`, the honest run is accepted exactly when `BobGood` holds -/
theorem bob_accept_iff (hC : C.Lawful) (H : HashFn) (sess : Bytes) (n ntilde h1 h2 c1 c2 x y r : Nat)
    (X : Option ECPoint) (k : BobCoins)
    (hn : 1 < n) (hnt : 0 < ntilde)
    (hh1 : Nat.Coprime h1 ntilde) (hh2 : Nat.Coprime h2 ntilde)
    (hc1 : Nat.Coprime c1 n) (hr : Nat.Coprime r n)
    (hc2 : c2 ≡ c1 ^ x * (n + 1) ^ y * r ^ n [MOD n * n])
    (hX : ∀ Xp, X = some Xp → C.toAffine (C.smul x C.base) = some Xp) :
    (bobProve C H sess n ntilde h1 h2 c1 c2 x y r X k >>= fun pu =>
      bobVerify C H cur sess n ntilde h1 h2 c1 c2 pu.1 (bobXU X pu.2)) = .ok true ↔
    BobGood C H sess n ntilde h1 h2 c1 c2 x y r X k :=
  ⟨bob_good_of_accept hC H sess n ntilde h1 h2 c1 c2 x y r X k,
   bob_complete_aux hC H sess n ntilde h1 h2 c1 c2 x y r X k hn hnt hh1 hh2 hc1 hr hc2 hX⟩

/-! ### non-vacuity: tiny instances on the proved-lawful toy curves of order 23

`N = 35`, `NTilde = 33`, `h1 = 2`, `h2 = 5`, `c1 = 2`, `x = 4`, `y = 6`, `r = 3`,
`c2 = c1^x · (N+1)^y · r^N mod N² = 1032`; a constant hash gives the challenge `e = 3`; coins
`alpha = 20, rho = 7, sigma = 5, tau = 11, rhoPrm = 10, beta = 2, gamma = 9`, hence
`s1 = 32, s2 = 31, t1 = 27, t2 = 26` (all in `[23, 23³]`), `s1 mod 23 = 9`. -/
section examples

local instance bobFact23 : Fact (Nat.Prime 23) := ⟨by decide⟩

/-- the coins of the examples -/
def bobExCoins : BobCoins := ⟨20, 7, 5, 11, 10, 2, 9⟩

/-- without check, on the curve whose identity has an affine form -/
example : (bobProve (zmodCurve 23) (fun _ => [3]) [] 35 33 2 5 2 1032 4 6 3 none bobExCoins >>= fun pu =>
    bobVerify (zmodCurve 23) (fun _ => [3]) cur [] 35 33 2 5 2 1032 pu.1 (bobXU none pu.2)) = .ok true :=
  bob_complete_aux (zmodCurve_lawful 23) (fun _ => [3]) [] 35 33 2 5 2 1032 4 6 3 none bobExCoins
    (by decide) (by decide) (by decide) (by decide) (by decide) (by decide) (by decide)
    (fun _ h => by cases h) (by decide)

/-- with check, on the curve whose identity has no affine form; `X = 4·G = (4, 0)` -/
example : (bobProve (zmodCurveW 23) (fun _ => [3]) [] 35 33 2 5 2 1032 4 6 3 (some (4, 0)) bobExCoins >>= fun pu =>
    bobVerify (zmodCurveW 23) (fun _ => [3]) cur [] 35 33 2 5 2 1032 pu.1 (bobXU (some (4, 0)) pu.2)) = .ok true :=
  bob_complete_aux (zmodCurveW_lawful 23) (fun _ => [3]) [] 35 33 2 5 2 1032 4 6 3 (some (4, 0)) bobExCoins
    (by decide) (by decide) (by decide) (by decide) (by decide) (by decide) (by decide)
    (fun Xp h => by cases h; decide) (by decide)

/-- with check, on the curve whose identity has an affine form -/
example : BobGood (zmodCurve 23) (fun _ => [3]) [] 35 33 2 5 2 1032 4 6 3 (some (4, 0)) bobExCoins := by decide

/-- the prover's challenge and output in the example with check -/
example : bobE (zmodCurveW 23) (fun _ => [3]) [] 35 33 2 5 2 1032 4 6 (some (4, 0)) bobExCoins = 3 := by decide

example : bobProve (zmodCurveW 23) (fun _ => [3]) [] 35 33 2 5 2 1032 4 6 3 (some (4, 0)) bobExCoins =
    .ok (⟨26, 1, 20, 688, 19, 19, 32, 31, 27, 26⟩, some (20, 0)) := by decide

/-- the model runs agree with the theorem -/
example : (bobProve (zmodCurve 23) (fun _ => [3]) [] 35 33 2 5 2 1032 4 6 3 none bobExCoins >>= fun pu =>
    bobVerify (zmodCurve 23) (fun _ => [3]) cur [] 35 33 2 5 2 1032 pu.1 (bobXU none pu.2)) = .ok true := by
  decide

example : (bobProve (zmodCurveW 23) (fun _ => [3]) [] 35 33 2 5 2 1032 4 6 3 (some (4, 0)) bobExCoins >>= fun pu =>
    bobVerify (zmodCurveW 23) (fun _ => [3]) cur [] 35 33 2 5 2 1032 pu.1 (bobXU (some (4, 0)) pu.2)) = .ok true := by
  decide

/-- a coin violating `BobGood` (`alpha = 11` makes `s1 = 23 ≡ 0 (mod q)`): the verifier with check rejects -/
example : ¬ BobGood (zmodCurveW 23) (fun _ => [3]) [] 35 33 2 5 2 1032 4 6 3 (some (4, 0))
    ⟨11, 7, 5, 11, 10, 2, 9⟩ := by decide

example : (bobProve (zmodCurveW 23) (fun _ => [3]) [] 35 33 2 5 2 1032 4 6 3 (some (4, 0)) ⟨11, 7, 5, 11, 10, 2, 9⟩
    >>= fun pu => bobVerify (zmodCurveW 23) (fun _ => [3]) cur [] 35 33 2 5 2 1032 pu.1
      (bobXU (some (4, 0)) pu.2)) = .ok false := by
  decide

/-- `1 < n` is needed: with `n = 1` every other hypothesis (including `BobGood`) holds and the verifier rejects -/
example : BobGood (zmodCurve 23) (fun _ => [3]) [] 1 33 2 5 0 0 4 6 0 none bobExCoins := by decide

example : (bobProve (zmodCurve 23) (fun _ => [3]) [] 1 33 2 5 0 0 4 6 0 none bobExCoins >>= fun pu =>
    bobVerify (zmodCurve 23) (fun _ => [3]) cur [] 1 33 2 5 0 0 pu.1 (bobXU none pu.2)) = .ok false := by
  decide

end examples

end TssVerif.C10L
