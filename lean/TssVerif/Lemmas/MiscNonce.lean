import TssVerif.Lemmas.CurveLaw
import TssVerif.Lemmas.ModInverse
import Mathlib.Algebra.Field.ZMod
import Mathlib.Tactic.FieldSimp
import Mathlib.Tactic.Ring
/-! Helper lemmas for C20: the map nonce `k ↦ R = k⁻¹·G` is injective modulo `q`, and the signature's
`r = R.x` determines the nonce up to sign. -/
set_option autoImplicit false
set_option linter.style.haveILetI false
namespace TssVerif.MiscL
open TssVerif

section
variable {P : Type} {C : Curve P}

/-- equal `x` coordinates only for a point and its negative (true on secp256k1: `y² = x³ + 7` has two roots) -/
def XDeterminesUpToSign (C : Curve P) : Prop :=
  ∀ (a b : P) (x y y' : Nat), C.toAffine a = some (x, y) → C.toAffine b = some (x, y') →
    a = b ∨ a = C.neg b

/-- negation keeps the `x` coordinate -/
def NegKeepsX (C : Curve P) : Prop :=
  ∀ (a : P) (x y : Nat), C.toAffine a = some (x, y) → ∃ y', C.toAffine (C.neg a) = some (x, y')

theorem inv_modEq_iff {q : Nat} (hq : q.Prime) {k k' ki ki' : Nat}
    (h : modInverse (k : Int) q = some ki) (h' : modInverse (k' : Int) q = some ki') :
    ki ≡ ki' [MOD q] ↔ k ≡ k' [MOD q] := by
  haveI : Fact q.Prime := ⟨hq⟩
  have e := modInverse_cast h
  have e' := modInverse_cast h'
  rw [← ZMod.natCast_eq_natCast_iff, ← ZMod.natCast_eq_natCast_iff, e, e', inv_inj]
  push_cast
  rfl

theorem inv_add_modEq_zero {q : Nat} (hq : q.Prime) {k k' ki ki' : Nat}
    (h : modInverse (k : Int) q = some ki) (h' : modInverse (k' : Int) q = some ki') :
    (ki + ki') % q = 0 ↔ (k + k') % q = 0 := by
  haveI : Fact q.Prime := ⟨hq⟩
  have e := modInverse_cast h
  have e' := modInverse_cast h'
  -- both are units
  have hk : ((k : ℤ) : ZMod q) ≠ 0 := by
    intro h0
    have h1 := (modInverse_specV h).1
    have : ((k * ki : ℤ) : ZMod q) = 1 := by
      have := (ZMod.intCast_eq_intCast_iff' (k * ki) 1 q).2 h1
      simpa using this
    rw [Int.cast_mul, h0, zero_mul] at this
    exact zero_ne_one this
  have hk' : ((k' : ℤ) : ZMod q) ≠ 0 := by
    intro h0
    have h1 := (modInverse_specV h').1
    have : ((k' * ki' : ℤ) : ZMod q) = 1 := by
      have := (ZMod.intCast_eq_intCast_iff' (k' * ki') 1 q).2 h1
      simpa using this
    rw [Int.cast_mul, h0, zero_mul] at this
    exact zero_ne_one this
  rw [← Nat.dvd_iff_mod_eq_zero, ← Nat.dvd_iff_mod_eq_zero, ← ZMod.natCast_eq_zero_iff,
    ← ZMod.natCast_eq_zero_iff, Nat.cast_add, Nat.cast_add, e, e']
  simp only [Int.cast_natCast] at hk hk' ⊢
  constructor
  · intro h0
    have : (k : ZMod q) + k' = (k : ZMod q) * k' * ((k : ZMod q)⁻¹ + (k' : ZMod q)⁻¹) := by
      field_simp
      ring
    rw [this, h0, mul_zero]
  · intro h0
    have : (k : ZMod q)⁻¹ + (k' : ZMod q)⁻¹ = ((k : ZMod q) + k') * ((k : ZMod q)⁻¹ * (k' : ZMod q)⁻¹) := by
      field_simp
      ring
    rw [this, h0, zero_mul]

/-- **the nonce point determines the nonce**: `k⁻¹·G = k'⁻¹·G ↔ k ≡ k' (mod q)` -/
theorem nonce_point_inj (hC : C.Lawful) {k k' ki ki' : Nat}
    (h : modInverse (k : Int) C.q = some ki) (h' : modInverse (k' : Int) C.q = some ki') :
    C.smul ki C.base = C.smul ki' C.base ↔ k ≡ k' [MOD C.q] := by
  rw [hC.smul_base_eq_iff, inv_modEq_iff hC.q_prime h h']

/-- `a = −b` for multiples of the base point -/
theorem smul_eq_neg_iff (hC : C.Lawful) (a b : Nat) :
    C.smul a C.base = C.neg (C.smul b C.base) ↔ (a + b) % C.q = 0 := by
  rw [← hC.smul_base_eq_zero_iff, hC.smul_add]
  letI := hC.groupLaws.addCommGroup
  show C.smul a C.base = -(C.smul b C.base) ↔ C.smul a C.base + C.smul b C.base = 0
  exact eq_neg_iff_add_eq_zero

/-- **`r` determines the nonce up to sign** -/
theorem nonce_r_inj (hC : C.Lawful) (hX : XDeterminesUpToSign C) {k k' ki ki' : Nat}
    (h : modInverse (k : Int) C.q = some ki) (h' : modInverse (k' : Int) C.q = some ki')
    {r y y' : Nat} (hR : C.toAffine (C.smul ki C.base) = some (r, y))
    (hR' : C.toAffine (C.smul ki' C.base) = some (r, y')) :
    k ≡ k' [MOD C.q] ∨ (k + k') % C.q = 0 := by
  rcases hX _ _ r y y' hR hR' with heq | hneg
  · exact Or.inl ((nonce_point_inj hC h h').1 heq)
  · exact Or.inr ((inv_add_modEq_zero hC.q_prime h h').1 ((smul_eq_neg_iff hC ki ki').1 hneg))

/-- conversely, nonces equal up to sign give the same `r` when negation keeps `x` -/
theorem nonce_r_collision (hC : C.Lawful) (hN : NegKeepsX C) {k k' ki ki' : Nat}
    (h : modInverse (k : Int) C.q = some ki) (h' : modInverse (k' : Int) C.q = some ki')
    (hk : k ≡ k' [MOD C.q] ∨ (k + k') % C.q = 0)
    {r y : Nat} (hR : C.toAffine (C.smul ki C.base) = some (r, y)) :
    ∃ y', C.toAffine (C.smul ki' C.base) = some (r, y') := by
  rcases hk with heq | hneg
  · rw [← (nonce_point_inj hC h h').2 heq]; exact ⟨y, hR⟩
  · have h1 : (ki' + ki) % C.q = 0 := by
      rw [Nat.add_comm]; exact (inv_add_modEq_zero hC.q_prime h h').2 hneg
    rw [(smul_eq_neg_iff hC ki' ki).2 h1]
    exact hN _ r y hR

end
end TssVerif.MiscL
