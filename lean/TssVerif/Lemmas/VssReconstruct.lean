import TssVerif.Lemmas.ModInverse
import TssVerif.Lemmas.VssVerify
import Mathlib.LinearAlgebra.Lagrange
/-! `Vss.reconstruct` is Lagrange interpolation at `0` over `ZMod q`. -/
set_option autoImplicit false
namespace TssVerif
namespace Vss
open Polynomial

variable {q : ℕ} [Fact q.Prime]

theorem getD_eq_getElem' {α : Type} (l : List α) (d : α) {i : ℕ} (h : i < l.length) :
    l.getD i d = l[i] := (List.getElem_eq_getD d).symm

/-- the field factor contributed by position `j` to the weight of position `i` -/
noncomputable def term (q : ℕ) (xs : List ℕ) (i j : ℕ) : ZMod q :=
  (xs.getD j 0 : ZMod q) * ((xs.getD j 0 : ZMod q) - (xs.getD i 0 : ZMod q))⁻¹

theorem times_fold (xs : List ℕ) (i : ℕ) (l : List ℕ)
    (hl : ∀ j ∈ l, j ≠ i → (xs.getD j 0 : ZMod q) ≠ (xs.getD i 0 : ZMod q)) :
    ∀ acc : ℕ, ∃ w : ℕ, l.foldlM (fun acc j =>
        if j = i then (pure acc : Outcome ℕ) else
          match modInverse (((xs.getD j 0 : Int) - (xs.getD i 0 : Int)) % (q : Int)) q with
          | some inv => pure (acc * (xs.getD j 0 * inv % q) % q)
          | none => .panic "nil-mod-inverse") acc = .ok w ∧
      (w : ZMod q) = acc * ((l.filter (· ≠ i)).map (term q xs i)).prod := by
  induction l with
  | nil => intro acc; exact ⟨acc, rfl, by simp⟩
  | cons j l ih =>
    intro acc
    have hl' : ∀ k ∈ l, k ≠ i → (xs.getD k 0 : ZMod q) ≠ (xs.getD i 0 : ZMod q) :=
      fun k hk => hl k (List.mem_cons_of_mem _ hk)
    rw [List.foldlM_cons]
    by_cases hj : j = i
    · rw [if_pos hj, Outcome.pure_eq, Outcome.ok_bind]
      obtain ⟨w, hw, hcast⟩ := ih hl' acc
      refine ⟨w, hw, ?_⟩
      rw [hcast]
      simp [hj]
    · rw [if_neg hj]
      have hne : (((((xs.getD j 0 : Int) - (xs.getD i 0 : Int)) % (q : Int) : ℤ)) : ZMod q) ≠ 0 := by
        rw [ZMod.intCast_mod]
        push_cast
        exact sub_ne_zero.2 (hl j (List.mem_cons_self ..) hj)
      obtain ⟨inv, hinv, hic⟩ := modInverse_of_ne_zero hne
      rw [hinv]
      simp only [Outcome.pure_eq, Outcome.ok_bind]
      obtain ⟨w, hw, hcast⟩ := ih hl' (acc * (xs.getD j 0 * inv % q) % q)
      refine ⟨w, hw, ?_⟩
      rw [hcast]
      have : ((acc * (xs.getD j 0 * inv % q) % q : ℕ) : ZMod q) = (acc : ZMod q) * term q xs i j := by
        rw [ZMod.natCast_mod, Nat.cast_mul, ZMod.natCast_mod, Nat.cast_mul, hic, ZMod.intCast_mod]
        push_cast
        rfl
      rw [this]
      simp [hj, mul_assoc]

/-- `times` succeeds on ids that are distinct modulo `q`, with the Lagrange weight at `0` -/
theorem times_spec (xs : List ℕ) (i : ℕ)
    (hinj : ∀ j, j < xs.length → j ≠ i → (xs.getD j 0 : ZMod q) ≠ (xs.getD i 0 : ZMod q)) :
    ∃ w : ℕ, times q xs i = .ok w ∧
      (w : ZMod q) = ∏ j ∈ (Finset.range xs.length).erase i, term q xs i j := by
  obtain ⟨w, hw, hcast⟩ := times_fold xs i (List.range xs.length)
    (fun j hj => hinj j (List.mem_range.1 hj)) 1
  refine ⟨w, hw, ?_⟩
  rw [hcast, Nat.cast_one, one_mul, ← List.prod_toFinset _ ((List.nodup_range).filter _)]
  congr 1
  ext j
  simp [and_comm]

theorem reconstruct_fold (shares : List Share) (xs : List ℕ) (T : ℕ → ZMod q) (l : List ℕ)
    (hq : 0 < q)
    (hT : ∀ i ∈ l, ∃ w : ℕ, times q xs i = .ok w ∧ (w : ZMod q) = T i) :
    ∀ acc : ℕ, ∃ r : ℕ, l.foldlM (fun secret i => do
        let t ← times q xs i
        pure ((secret + (shares.getD i ⟨0, 0, 0⟩).share * t % q) % q)) acc = .ok r ∧
      (r : ZMod q) = acc + (l.map fun i => ((shares.getD i ⟨0, 0, 0⟩).share : ZMod q) * T i).sum ∧
      ((acc < q ∨ l ≠ []) → r < q) := by
  induction l with
  | nil => intro acc; exact ⟨acc, rfl, by simp, fun h => h.elim id (fun h => absurd rfl h)⟩
  | cons i l ih =>
    intro acc
    obtain ⟨w, hw, hwc⟩ := hT i (List.mem_cons_self ..)
    rw [List.foldlM_cons, hw]
    simp only [Outcome.pure_eq, Outcome.ok_bind]
    obtain ⟨r, hr, hrc, hlt⟩ := ih (fun k hk => hT k (List.mem_cons_of_mem _ hk))
      ((acc + (shares.getD i ⟨0, 0, 0⟩).share * w % q) % q)
    refine ⟨r, hr, ?_, fun _ => hlt (Or.inl (Nat.mod_lt _ hq))⟩
    rw [hrc, List.map_cons, List.sum_cons, ← hwc]
    push_cast [ZMod.natCast_mod]
    ring

/-- **`reconstruct` is interpolation at 0**: for shares on a polynomial `f` of degree below the number
of shares, with ids distinct modulo `q` -/
theorem reconstruct_eq_eval (shares : List Share) (f : (ZMod q)[X]) (hne : shares ≠ [])
    (hthr : ∀ s0 ∈ shares.head?, s0.threshold ≤ shares.length)
    (hnd : (shares.map (fun s => s.id % q)).Nodup)
    (hdeg : f.degree < (shares.length : ℕ))
    (hval : ∀ sh ∈ shares, (sh.share : ZMod q) = f.eval (sh.id : ZMod q)) :
    reconstruct q shares = .ok (f.eval 0).val := by
  have hq : 0 < q := (Fact.out : q.Prime).pos
  set xs := shares.map (·.id) with hxs
  have hxlen : xs.length = shares.length := by simp [hxs]
  -- positions
  have hgetx : ∀ i, i < shares.length → xs.getD i 0 = (shares.getD i ⟨0, 0, 0⟩).id := by
    intro i hi
    rw [getD_eq_getElem' _ _ (by rw [hxlen]; exact hi), getD_eq_getElem' _ _ hi]
    simp [hxs]
  have hinj : Set.InjOn (fun j => (xs.getD j 0 : ZMod q)) (Finset.range xs.length : Set ℕ) := by
    intro i hi j hj hij
    have hi' : i < shares.length := by simpa [hxlen] using hi
    have hj' : j < shares.length := by simpa [hxlen] using hj
    simp only at hij
    rw [ZMod.natCast_eq_natCast_iff', hgetx i hi', hgetx j hj',
      getD_eq_getElem' _ _ hi', getD_eq_getElem' _ _ hj'] at hij
    have h1 : i < (shares.map (fun s => s.id % q)).length := by simpa using hi'
    have h2 : j < (shares.map (fun s => s.id % q)).length := by simpa using hj'
    have := (hnd.getElem_inj_iff (hi := h1) (hj := h2)).1 (by simpa using hij)
    exact this
  have htimes : ∀ i ∈ List.range shares.length, ∃ w : ℕ, times q xs i = .ok w ∧
      (w : ZMod q) = ∏ j ∈ (Finset.range xs.length).erase i, term q xs i j := by
    intro i hi
    have hi' : i < xs.length := by rw [hxlen]; exact List.mem_range.1 hi
    apply times_spec
    intro j hj hji h
    exact hji (hinj (by simpa using hj) (by simpa using hi') h)
  obtain ⟨r, hr, hrc, hlt⟩ := reconstruct_fold shares xs
    (fun i => ∏ j ∈ (Finset.range xs.length).erase i, term q xs i j) (List.range shares.length) hq
    htimes 0
  have hrq : r < q := hlt (Or.inl hq)
  -- unfold the model
  have hrec : reconstruct q shares = .ok r := by
    obtain ⟨s0, rest, hs⟩ := List.exists_cons_of_ne_nil hne
    have h0 : ¬ s0.threshold > shares.length := by
      have := hthr s0 (by rw [hs]; rfl)
      omega
    have hunf : reconstruct q shares =
        if s0.threshold > shares.length then .err "not-enough-shares" else
        (List.range shares.length).foldlM (fun secret i => do
          let t ← times q (shares.map (·.id)) i
          pure ((secret + (shares.getD i ⟨0, 0, 0⟩).share * t % q) % q)) 0 := by
      rw [hs]; rfl
    rw [hunf, if_neg h0]
    exact hr
  rw [hrec]
  congr 1
  -- the field computation
  rw [← ZMod.val_natCast_of_lt hrq]
  congr 1
  rw [hrc, Nat.cast_zero, zero_add, ← List.sum_toFinset _ List.nodup_range, List.toFinset_range]
  have hdeg' : f.degree < ((Finset.range xs.length).card : ℕ) := by
    simpa [hxlen] using hdeg
  have e := congrArg (eval 0) (Lagrange.eq_interpolate hinj hdeg')
  rw [e]
  simp only [Lagrange.interpolate_apply, eval_finsetSum, eval_mul, eval_C]
  rw [hxlen]
  refine Finset.sum_congr rfl fun i hi => ?_
  have hi' : i < shares.length := Finset.mem_range.mp hi
  have hmem : shares.getD i ⟨0, 0, 0⟩ ∈ shares := by
    rw [getD_eq_getElem' _ _ hi']; exact List.getElem_mem _
  rw [hval _ hmem, ← hgetx i hi']
  congr 1
  simp only [Lagrange.basis, eval_prod, Lagrange.basisDivisor, eval_mul, eval_C, eval_sub, eval_X]
  rw [← hxlen]
  refine Finset.prod_congr rfl fun j hj => ?_
  have hne' : (xs.getD j 0 : ZMod q) ≠ (xs.getD i 0 : ZMod q) := by
    intro h
    have hj' := Finset.mem_of_mem_erase hj
    have := hinj (Finset.mem_coe.2 hj') (Finset.mem_coe.2 (by rw [hxlen]; exact hi)) h
    exact (Finset.ne_of_mem_erase hj) this
  have h1 : (xs.getD j 0 : ZMod q) - (xs.getD i 0 : ZMod q) ≠ 0 := sub_ne_zero.2 hne'
  have h2 : (xs.getD i 0 : ZMod q) - (xs.getD j 0 : ZMod q) ≠ 0 := sub_ne_zero.2 (Ne.symm hne')
  show (xs.getD j 0 : ZMod q) * ((xs.getD j 0 : ZMod q) - (xs.getD i 0 : ZMod q))⁻¹
    = ((xs.getD i 0 : ZMod q) - (xs.getD j 0 : ZMod q))⁻¹ * (0 - (xs.getD j 0 : ZMod q))
  field_simp
  ring

end Vss
end TssVerif
