import TssVerif.Lemmas.C05Ec
/-! Helper lemmas for `TssVerif/Props/C05c.lean`: the parameter checks of ECDSA resharing round 4
(`BlameEc.rsRound4Params`). The loop `scanRs` is the loop `scan` of key generation round 2 on messages whose
sizes are right (`toR1`, `scan_toR1`), so the one-deviator analysis of `Lemmas/C05Ec.lean` is reused on the
level of the loop result; the verdict lists of the three job lists (modulus proof, first and second DLN proof)
are treated as filters, for arbitrary job functions (`rsGen`). -/
set_option autoImplicit false
set_option linter.unusedSectionVars false
set_option linter.unusedVariables false
namespace TssVerif.C05RsL
open TssVerif BlameEc Zk C05L C06L C05EcL

/-! ### facts about the key-generation loop `scan` alone (any list of `R1Msg`) -/

/-- whoever a structural failure of the loop names sent one of the messages -/
theorem scan_failure_senders (own : Nat) (L : List R1Msg) (why : String) (cs : List Nat)
    (h : (scan own [] L).2 = some (why, cs)) : ∀ c ∈ cs, ∃ m ∈ L, m.idx = c := by
  rcases scan_cases own L [] with ⟨h1, _⟩ | ⟨pre, m, post, f, h1, h2, h3, _⟩
  · rw [h1] at h; cases h
  · subst h1
    replace h : f = (why, cs) := by rw [h2] at h; exact Option.some.inj h
    subst h
    intro c hc
    rcases structural_some_cases own _ m _ _ h3 with ⟨_, hcs, _⟩ | ⟨hs, _, _⟩
    · rw [hcs, List.mem_singleton] at hc
      exact ⟨m, by simp, hc.symm⟩
    · obtain ⟨_, m', hm', _, hcs⟩ := structural_clash h3 hs
      rw [hcs] at hc
      rcases dup_subset _ _ _ c hc with e | e
      · exact ⟨m, by simp, e.symm⟩
      · exact ⟨m', List.mem_append_left _ hm', e.symm⟩

/-- in a one-deviator run a structural failure names nobody but the deviator -/
theorem _root_.TssVerif.C05EcL.OneDev.scan_failure_dev {own dev : Nat} {L : List R1Msg} (hd : OneDev own dev L) {why : String}
    {cs : List Nat} (h : (scan own [] L).2 = some (why, cs)) : ∀ c ∈ cs, c = dev := by
  rcases scan_cases own L [] with ⟨h1, _⟩ | ⟨pre, m, post, f, h1, h2, h3, _⟩
  · rw [h1] at h; cases h
  · subst h1
    replace h : f = (why, cs) := by rw [h2] at h; exact Option.some.inj h
    subst h
    exact hd.failure_names_dev h3

/-- a clash between the deviator's message and an honest one stops the loop with a duplicate failure whose
culprits are `duplicateCulprits` of `dev` and the index of an honest message clashing with the deviator's, in
the order in which the two were met -/
theorem _root_.TssVerif.C05EcL.OneDev.scan_clash {own dev : Nat} {L : List R1Msg} (hd : OneDev own dev L)
    {md mx : R1Msg} (hmd : md ∈ L) (hdev : md.idx = dev)
    (hsz : SizesOk md) (hmx : mx ∈ L) (hx : mx.idx ≠ dev) (hc : Clash md mx) :
    ∃ why cs other, (scan own [] L).2 = some (why, cs) ∧ (why = msgDupH1 ∨ why = msgDupH2) ∧
      other ∈ L ∧ other.idx ≠ dev ∧ Clash md other ∧
      (cs = duplicateCulprits own dev other.idx ∨ cs = duplicateCulprits own other.idx dev) := by
  obtain ⟨pre, m, post, why, cs, h1, h2, h3⟩ := hd.clash_fails hmd hmx (by rw [hdev]; exact hx) hc
  have hr : (scan own [] L).2 = some (why, cs) := by rw [h2]
  subst h1
  have hm : m ∈ pre ++ m :: post := by simp
  rcases hd.failure h3 with ⟨hmdev, hns, _, _⟩ | ⟨_, hw, m', hm', hcl, hcs, hor⟩
  · exfalso
    have : m = md := eq_of_idx_eq hd.nodup hm hmd (hmdev.trans hdev.symm)
    exact hns (this ▸ hsz)
  · have hne := idx_ne_of_split hd.nodup m' hm'
    rcases hor with hor | hor
    · have : m = md := eq_of_idx_eq hd.nodup hm hmd (hor.trans hdev.symm)
      subst this
      exact ⟨why, cs, m', hr, hw, List.mem_append_left _ hm', fun e => hne (e.trans hor.symm), hcl,
        Or.inl (by rw [hcs, hor])⟩
    · have : m' = md := eq_of_idx_eq hd.nodup (List.mem_append_left _ hm') hmd (hor.trans hdev.symm)
      subst this
      exact ⟨why, cs, m, hr, hw, hm, fun e => hne (hor.trans e.symm), hcl.symm,
        Or.inr (by rw [hcs, hor])⟩

theorem _root_.TssVerif.C05EcL.OneDev.scan_clash_with_own {own dev : Nat} {L : List R1Msg} (hd : OneDev own dev L)
    {md mo : R1Msg} (hmd : md ∈ L) (hdev : md.idx = dev)
    (hsz : SizesOk md) (hmo : mo ∈ L) (hown : mo.idx = own) (hc : Clash md mo)
    (hthird : ∀ m ∈ L, m.idx ≠ dev → m.idx ≠ own → ¬ Clash md m) :
    ∃ why, (scan own [] L).2 = some (why, [dev]) ∧ (why = msgDupH1 ∨ why = msgDupH2) := by
  obtain ⟨why, cs, other, hr, hw, ho, hod, hoc, hcs⟩ :=
    hd.scan_clash hmd hdev hsz hmo (by rw [hown]; exact fun e => hd.ne e.symm) hc
  have hoo : other.idx = own := by
    by_contra hne
    exact hthird other ho hod hne hoc
  refine ⟨why, ?_, hw⟩
  rw [hr]
  rcases hcs with hcs | hcs
  · rw [hcs, hoo, dup_own_right hd.ne]
  · rw [hcs, hoo, dup_own_left hd.ne]

theorem _root_.TssVerif.C05EcL.OneDev.scan_clash_with_third {own dev : Nat} {L : List R1Msg} (hd : OneDev own dev L)
    {md mt : R1Msg} (hmd : md ∈ L) (hdev : md.idx = dev)
    (hsz : SizesOk md) (hmt : mt ∈ L) (ht : mt.idx ≠ dev) (hc : Clash md mt)
    (hnown : ∀ m ∈ L, m.idx = own → ¬ Clash md m) :
    ∃ why, (scan own [] L).2 = some (why, []) ∧ (why = msgDupH1 ∨ why = msgDupH2) := by
  obtain ⟨why, cs, other, hr, hw, ho, hod, hoc, hcs⟩ := hd.scan_clash hmd hdev hsz hmt ht hc
  have hoo : other.idx ≠ own := fun e => hnown other ho e hoc
  refine ⟨why, ?_, hw⟩
  rw [hr]
  rcases hcs with hcs | hcs
  · rw [hcs, dup_neither hd.ne hoo]
  · rw [hcs, dup_neither hoo hd.ne]

/-- a size/shape failure of the deviator's message stops the loop naming the deviator -/
theorem _root_.TssVerif.C05EcL.OneDev.scan_bad_size {own dev : Nat} {L : List R1Msg} (hd : OneDev own dev L)
    {md : R1Msg} (hmd : md ∈ L) (hdev : md.idx = dev) (hsz : ¬ SizesOk md) :
    ∃ seen why, structural own seen md = some (why, [dev]) ∧ (scan own [] L).2 = some (why, [dev]) := by
  rcases scan_cases own L [] with ⟨_, hall⟩ | ⟨pre, m, post, f, h1, h2, h3, h4⟩
  · exfalso
    obtain ⟨pre, post, rfl⟩ := List.append_of_mem hmd
    exact hsz (structural_none_no_clash (hall pre md post rfl)).1
  · subst h1
    obtain ⟨why, cs⟩ := f
    have hm : m ∈ pre ++ m :: post := by simp
    rcases hd.failure h3 with ⟨hmdev, _, hcs, hw⟩ | ⟨hs, _, m', hm', _, _, hor⟩
    · subst hcs
      have : m = md := eq_of_idx_eq hd.nodup hm hmd (hmdev.trans hdev.symm)
      subst this
      exact ⟨_, why, h3, by rw [h2]⟩
    · exfalso
      rcases hor with hor | hor
      · have : m = md := eq_of_idx_eq hd.nodup hm hmd (hor.trans hdev.symm)
        exact hsz (this ▸ hs)
      · have : m' = md := eq_of_idx_eq hd.nodup (List.mem_append_left _ hm') hmd (hor.trans hdev.symm)
        subst this
        obtain ⟨p1, p2, rfl⟩ := List.append_of_mem hm'
        exact hsz (structural_none_no_clash (h4 p1 m' p2 rfl)).1

/-! ### the resharing loop is the key-generation loop on messages of the right sizes -/

/-- the key-generation message with the same index, values and DLN proofs, and 2048-bit moduli -/
def toR1 (m : RsR2Msg) : R1Msg := ⟨m.idx, 2 ^ 2047, 2 ^ 2047, m.h1, m.h2, m.dln1, m.dln2⟩

theorem bitLen_two_pow : bitLen (2 ^ 2047) = 2048 := by decide +kernel

theorem sizesOk_toR1 {m : RsR2Msg} (h : m.h1 ≠ m.h2) : SizesOk (toR1 m) :=
  ⟨bitLen_two_pow, h, bitLen_two_pow⟩

theorem structural_toR1 (own : Nat) (seen : List (Nat × Nat)) (m : RsR2Msg) :
    structural own seen (toR1 m) = structuralRs own seen m := by
  unfold structural structuralRs paillierBitsLen
  have e1 : (toR1 m).paillierN = 2 ^ 2047 := rfl
  have e2 : (toR1 m).nTilde = 2 ^ 2047 := rfl
  rw [e1, e2, bitLen_two_pow]
  rfl

theorem scanRs_nil (own : Nat) (seen : List (Nat × Nat)) : scanRs own seen [] = ([], none) := rfl

theorem scanRs_cons_some (own : Nat) (seen : List (Nat × Nat)) (m : RsR2Msg) (rest : List RsR2Msg)
    (f : String × List Nat) (h : structuralRs own seen m = some f) :
    scanRs own seen (m :: rest) = ([], some f) := by
  rw [scanRs, h]

theorem scanRs_cons_none (own : Nat) (seen : List (Nat × Nat)) (m : RsR2Msg) (rest : List RsR2Msg)
    (h : structuralRs own seen m = none) :
    scanRs own seen (m :: rest) =
      (m :: (scanRs own ((m.h1, m.idx) :: (m.h2, m.idx) :: seen) rest).1,
        (scanRs own ((m.h1, m.idx) :: (m.h2, m.idx) :: seen) rest).2) := by
  rw [scanRs, h]

theorem scan_toR1 (own : Nat) : ∀ (msgs : List RsR2Msg) (seen : List (Nat × Nat)),
    scan own seen (msgs.map toR1) = ((scanRs own seen msgs).1.map toR1, (scanRs own seen msgs).2) := by
  intro msgs
  induction msgs with
  | nil => intro seen; rfl
  | cons m rest ih =>
    intro seen
    rw [List.map_cons]
    cases hs : structuralRs own seen m with
    | some f =>
      rw [scan_cons_some own seen _ _ f (by rw [structural_toR1]; exact hs), scanRs_cons_some own seen m rest f hs]
      rfl
    | none =>
      rw [scan_cons_none own seen _ _ (by rw [structural_toR1]; exact hs), scanRs_cons_none own seen m rest hs]
      have := ih ((m.h1, m.idx) :: (m.h2, m.idx) :: seen)
      have e1 : (toR1 m).h1 = m.h1 := rfl
      have e2 : (toR1 m).h2 = m.h2 := rfl
      have e3 : (toR1 m).idx = m.idx := rfl
      rw [e1, e2, e3, this]
      rfl

/-- the structural failure found by the resharing loop is the one the key-generation loop finds -/
theorem scanRs_snd (own : Nat) (msgs : List RsR2Msg) :
    (scanRs own [] msgs).2 = (scan own [] (msgs.map toR1)).2 := by
  rw [scan_toR1]

/-- the spawned messages are a prefix of the stored ones -/
theorem scanRs_spawned_prefix (own : Nat) : ∀ (msgs : List RsR2Msg) (seen : List (Nat × Nat)),
    ∃ post, msgs = (scanRs own seen msgs).1 ++ post := by
  intro msgs
  induction msgs with
  | nil => intro seen; exact ⟨[], rfl⟩
  | cons m rest ih =>
    intro seen
    cases hs : structuralRs own seen m with
    | some f => rw [scanRs_cons_some own seen m rest f hs]; exact ⟨m :: rest, rfl⟩
    | none =>
      rw [scanRs_cons_none own seen m rest hs]
      obtain ⟨post, hp⟩ := ih ((m.h1, m.idx) :: (m.h2, m.idx) :: seen)
      exact ⟨post, by rw [List.cons_append, ← hp]⟩

theorem scanRs_spawned_subset (own : Nat) (msgs : List RsR2Msg) (seen : List (Nat × Nat)) :
    ∀ m ∈ (scanRs own seen msgs).1, m ∈ msgs := by
  obtain ⟨post, h⟩ := scanRs_spawned_prefix own msgs seen
  intro m hm
  rw [h]
  exact List.mem_append_left _ hm

/-- without a structural failure every stored message is handed to the pool -/
theorem scanRs_none_spawns_all (own : Nat) : ∀ (msgs : List RsR2Msg) (seen : List (Nat × Nat)),
    (scanRs own seen msgs).2 = none → (scanRs own seen msgs).1 = msgs := by
  intro msgs
  induction msgs with
  | nil => intro seen _; rfl
  | cons m rest ih =>
    intro seen h
    cases hs : structuralRs own seen m with
    | some f => rw [scanRs_cons_some own seen m rest f hs] at h; cases h
    | none =>
      rw [scanRs_cons_none own seen m rest hs] at h ⊢
      rw [ih _ h]

/-- a spawned message has `h1 ≠ h2` -/
theorem scanRs_spawned_shape (own : Nat) : ∀ (msgs : List RsR2Msg) (seen : List (Nat × Nat)),
    ∀ m ∈ (scanRs own seen msgs).1, m.h1 ≠ m.h2 := by
  intro msgs
  induction msgs with
  | nil => intro seen m hm; cases hm
  | cons a rest ih =>
    intro seen m hm
    cases hs : structuralRs own seen a with
    | some f => rw [scanRs_cons_some own seen a rest f hs] at hm; cases hm
    | none =>
      rw [scanRs_cons_none own seen a rest hs] at hm
      rcases List.mem_cons.1 hm with rfl | hm
      · intro e
        unfold structuralRs at hs
        rw [if_pos (by simp [e])] at hs
        cases hs
      · exact ih _ m hm

/-! ### the structural checks on one message -/

/-- the two ways the structural check of resharing fails -/
theorem structuralRs_some_cases (own : Nat) (seen : List (Nat × Nat)) (m : RsR2Msg) (why : String)
    (cs : List Nat) (h : structuralRs own seen m = some (why, cs)) :
    (m.h1 = m.h2 ∧ why = msgEqual ∧ cs = [m.idx]) ∨
    (m.h1 ≠ m.h2 ∧ ((why = msgDupH1 ∧ ∃ k, (m.h1, k) ∈ seen ∧ cs = duplicateCulprits own m.idx k) ∨
      (why = msgDupH2 ∧ ∃ k, (m.h2, k) ∈ seen ∧ cs = duplicateCulprits own m.idx k))) := by
  unfold structuralRs at h
  by_cases e : m.h1 = m.h2
  · left
    rw [if_pos (by simp [e])] at h
    injection h with h
    injection h with ha hb
    exact ⟨e, ha.symm, hb.symm⟩
  · right
    rw [if_neg (by simp [e])] at h
    refine ⟨e, ?_⟩
    cases h1 : seen.lookup m.h1 with
    | some k =>
      rw [h1] at h
      injection h with h
      injection h with ha hb
      exact Or.inl ⟨ha.symm, k, lookup_some_mem _ _ _ h1, hb.symm⟩
    | none =>
      rw [h1] at h
      cases h2 : seen.lookup m.h2 with
      | some k =>
        rw [h2] at h
        injection h with h
        injection h with ha hb
        exact Or.inr ⟨ha.symm, k, lookup_some_mem _ _ _ h2, hb.symm⟩
      | none => rw [h2] at h; cases h

theorem structuralRs_none_iff (own : Nat) (seen : List (Nat × Nat)) (m : RsR2Msg) :
    structuralRs own seen m = none ↔
      m.h1 ≠ m.h2 ∧ (∀ p ∈ seen, p.1 ≠ m.h1) ∧ (∀ p ∈ seen, p.1 ≠ m.h2) := by
  rw [← structural_toR1, structural_none_iff]
  constructor
  · rintro ⟨⟨_, h, _⟩, h1, h2⟩; exact ⟨h, h1, h2⟩
  · rintro ⟨h, h1, h2⟩; exact ⟨sizesOk_toR1 h, h1, h2⟩

/-- "no structural failure", spelled out -/
theorem scanRs_none_iff_aux (own : Nat) : ∀ (msgs : List RsR2Msg) (seen : List (Nat × Nat)),
    (scanRs own seen msgs).2 = none ↔
      (∀ m ∈ msgs, m.h1 ≠ m.h2 ∧ (∀ p ∈ seen, p.1 ≠ m.h1) ∧ (∀ p ∈ seen, p.1 ≠ m.h2)) ∧
      msgs.Pairwise (fun a b => a.h1 ≠ b.h1 ∧ a.h1 ≠ b.h2 ∧ a.h2 ≠ b.h1 ∧ a.h2 ≠ b.h2) := by
  intro msgs
  induction msgs with
  | nil => intro seen; simp [scanRs_nil]
  | cons a rest ih =>
    intro seen
    cases hs : structuralRs own seen a with
    | some f =>
      rw [scanRs_cons_some own seen a rest f hs]
      constructor
      · intro h; cases h
      · rintro ⟨h, _⟩
        have := (structuralRs_none_iff own seen a).2 (h a (List.mem_cons_self ..))
        rw [this] at hs; cases hs
    | none =>
      rw [scanRs_cons_none own seen a rest hs]
      show (scanRs own _ rest).2 = none ↔ _
      rw [ih, List.pairwise_cons]
      have ha := (structuralRs_none_iff own seen a).1 hs
      constructor
      · rintro ⟨h1, h2⟩
        refine ⟨?_, ?_, h2⟩
        · intro m hm
          rcases List.mem_cons.1 hm with rfl | hm
          · exact ha
          · obtain ⟨x, y, z⟩ := h1 m hm
            exact ⟨x, fun p hp => y p (List.mem_cons_of_mem _ (List.mem_cons_of_mem _ hp)),
              fun p hp => z p (List.mem_cons_of_mem _ (List.mem_cons_of_mem _ hp))⟩
        · intro b hb
          obtain ⟨x, y, z⟩ := h1 b hb
          exact ⟨y (a.h1, a.idx) (by simp), z (a.h1, a.idx) (by simp), y (a.h2, a.idx) (by simp),
            z (a.h2, a.idx) (by simp)⟩
      · rintro ⟨h1, h2, h3⟩
        refine ⟨?_, h3⟩
        intro m hm
        obtain ⟨x, y, z⟩ := h1 m (List.mem_cons_of_mem _ hm)
        obtain ⟨c1, c2, c3, c4⟩ := h2 m hm
        refine ⟨x, ?_, ?_⟩
        · intro p hp
          rcases List.mem_cons.1 hp with rfl | hp
          · exact c1
          · rcases List.mem_cons.1 hp with rfl | hp
            · exact c3
            · exact y p hp
        · intro p hp
          rcases List.mem_cons.1 hp with rfl | hp
          · exact c2
          · rcases List.mem_cons.1 hp with rfl | hp
            · exact c4
            · exact z p hp

theorem scanRs_none_iff (own : Nat) (msgs : List RsR2Msg) :
    (scanRs own [] msgs).2 = none ↔
      (∀ m ∈ msgs, m.h1 ≠ m.h2) ∧
      msgs.Pairwise (fun a b => a.h1 ≠ b.h1 ∧ a.h1 ≠ b.h2 ∧ a.h2 ≠ b.h1 ∧ a.h2 ≠ b.h2) := by
  rw [scanRs_none_iff_aux]
  constructor
  · rintro ⟨h1, h2⟩; exact ⟨fun m hm => (h1 m hm).1, h2⟩
  · rintro ⟨h1, h2⟩; exact ⟨fun m hm => ⟨h1 m hm, by nofun, by nofun⟩, h2⟩

/-! ### one deviator: the loop -/

/-- one of the values `h1`, `h2` of `a` equals one of the values `h1`, `h2` of `b` -/
def ClashRs (a b : RsR2Msg) : Prop := a.h1 = b.h1 ∨ a.h1 = b.h2 ∨ a.h2 = b.h1 ∨ a.h2 = b.h2

/-- the stored messages of a run in which every new member except `dev` is honest, as far as the structural
checks see them -/
structure OneDevRs (own dev : Nat) (msgs : List RsR2Msg) : Prop where
  ne : dev ≠ own
  nodup : (msgs.map (·.idx)).Nodup
  shape : ∀ m ∈ msgs, m.idx ≠ dev → m.h1 ≠ m.h2
  noClash : ∀ m ∈ msgs, ∀ m' ∈ msgs, m.idx ≠ dev → m'.idx ≠ dev → m.idx ≠ m'.idx → ¬ ClashRs m m'

theorem OneDevRs.toR1 {own dev : Nat} {msgs : List RsR2Msg} (h : OneDevRs own dev msgs) :
    OneDev own dev (msgs.map toR1) := by
  refine ⟨h.ne, ?_, ?_, ?_⟩
  · rw [List.map_map]; exact h.nodup
  · intro m hm hne
    obtain ⟨x, hx, rfl⟩ := List.mem_map.1 hm
    exact sizesOk_toR1 (h.shape x hx hne)
  · intro m hm m' hm' h1 h2 h3
    obtain ⟨x, hx, rfl⟩ := List.mem_map.1 hm
    obtain ⟨x', hx', rfl⟩ := List.mem_map.1 hm'
    exact h.noClash x hx x' hx' h1 h2 h3

theorem rs_failure_senders (own : Nat) (msgs : List RsR2Msg) (why : String) (cs : List Nat)
    (h : (scanRs own [] msgs).2 = some (why, cs)) : ∀ c ∈ cs, ∃ m ∈ msgs, m.idx = c := by
  rw [scanRs_snd] at h
  intro c hc
  obtain ⟨m, hm, hi⟩ := scan_failure_senders own _ why cs h c hc
  obtain ⟨x, hx, rfl⟩ := List.mem_map.1 hm
  exact ⟨x, hx, hi⟩

theorem OneDevRs.failure_dev {own dev : Nat} {msgs : List RsR2Msg} (hd : OneDevRs own dev msgs)
    {why : String} {cs : List Nat} (h : (scanRs own [] msgs).2 = some (why, cs)) : ∀ c ∈ cs, c = dev := by
  rw [scanRs_snd] at h
  exact hd.toR1.scan_failure_dev h

theorem OneDevRs.clash {own dev : Nat} {msgs : List RsR2Msg} (hd : OneDevRs own dev msgs)
    {md mx : RsR2Msg} (hmd : md ∈ msgs) (hdev : md.idx = dev) (hsz : md.h1 ≠ md.h2)
    (hmx : mx ∈ msgs) (hx : mx.idx ≠ dev) (hc : ClashRs md mx) :
    ∃ why cs other, (scanRs own [] msgs).2 = some (why, cs) ∧ (why = msgDupH1 ∨ why = msgDupH2) ∧
      other ∈ msgs ∧ other.idx ≠ dev ∧ ClashRs md other ∧
      (cs = duplicateCulprits own dev other.idx ∨ cs = duplicateCulprits own other.idx dev) := by
  obtain ⟨why, cs, other, hr, hw, ho, hod, hoc, hcs⟩ :=
    hd.toR1.scan_clash (List.mem_map.2 ⟨md, hmd, rfl⟩) hdev (sizesOk_toR1 hsz)
      (List.mem_map.2 ⟨mx, hmx, rfl⟩) hx hc
  obtain ⟨x, hx', rfl⟩ := List.mem_map.1 ho
  exact ⟨why, cs, x, by rw [scanRs_snd]; exact hr, hw, hx', hod, hoc, hcs⟩

theorem OneDevRs.clash_with_own {own dev : Nat} {msgs : List RsR2Msg} (hd : OneDevRs own dev msgs)
    {md mo : RsR2Msg} (hmd : md ∈ msgs) (hdev : md.idx = dev) (hsz : md.h1 ≠ md.h2)
    (hmo : mo ∈ msgs) (hown : mo.idx = own) (hc : ClashRs md mo)
    (hthird : ∀ m ∈ msgs, m.idx ≠ dev → m.idx ≠ own → ¬ ClashRs md m) :
    ∃ why, (scanRs own [] msgs).2 = some (why, [dev]) ∧ (why = msgDupH1 ∨ why = msgDupH2) := by
  obtain ⟨why, hr, hw⟩ :=
    hd.toR1.scan_clash_with_own (List.mem_map.2 ⟨md, hmd, rfl⟩) hdev (sizesOk_toR1 hsz)
      (List.mem_map.2 ⟨mo, hmo, rfl⟩) hown hc (fun m hm h1 h2 => by
        obtain ⟨x, hx, rfl⟩ := List.mem_map.1 hm
        exact hthird x hx h1 h2)
  exact ⟨why, by rw [scanRs_snd]; exact hr, hw⟩

theorem OneDevRs.clash_with_third {own dev : Nat} {msgs : List RsR2Msg} (hd : OneDevRs own dev msgs)
    {md mt : RsR2Msg} (hmd : md ∈ msgs) (hdev : md.idx = dev) (hsz : md.h1 ≠ md.h2)
    (hmt : mt ∈ msgs) (ht : mt.idx ≠ dev) (hc : ClashRs md mt)
    (hnown : ∀ m ∈ msgs, m.idx = own → ¬ ClashRs md m) :
    ∃ why, (scanRs own [] msgs).2 = some (why, []) ∧ (why = msgDupH1 ∨ why = msgDupH2) := by
  obtain ⟨why, hr, hw⟩ :=
    hd.toR1.scan_clash_with_third (List.mem_map.2 ⟨md, hmd, rfl⟩) hdev (sizesOk_toR1 hsz)
      (List.mem_map.2 ⟨mt, hmt, rfl⟩) ht hc (fun m hm h1 => by
        obtain ⟨x, hx, rfl⟩ := List.mem_map.1 hm
        exact hnown x hx h1)
  exact ⟨why, by rw [scanRs_snd]; exact hr, hw⟩

/-- the deviator's message with `h1 = h2` stops the loop naming the deviator -/
theorem OneDevRs.equal_fails {own dev : Nat} {msgs : List RsR2Msg} (hd : OneDevRs own dev msgs)
    {md : RsR2Msg} (hmd : md ∈ msgs) (hdev : md.idx = dev) (he : md.h1 = md.h2) :
    (scanRs own [] msgs).2 = some (msgEqual, [dev]) := by
  obtain ⟨seen, why, hs, hr⟩ := hd.toR1.scan_bad_size (List.mem_map.2 ⟨md, hmd, rfl⟩) hdev
    (fun h => h.2.1 he)
  rw [structural_toR1] at hs
  rcases structuralRs_some_cases own seen md why _ hs with ⟨_, hw, _⟩ | ⟨hne, _⟩
  · rw [scanRs_snd, hr, hw]
  · exact absurd he hne

/-! ### the round as a function of the loop result and the verdicts of three arbitrary job lists -/
section gen
variable (fM fA fB : RsR2Msg → Outcome Bool)

def decide3 (failure : Option (String × List Nat)) (sp : List RsR2Msg) (vm v1 v2 : List Bool) : Verdict :=
  match failure with
  | some (why, cs) => .fail why cs
  | none =>
    match ((sp.zip vm).filter (fun p => !p.2) ++ (sp.zip v1).filter (fun p => !p.2) ++
      (sp.zip v2).filter (fun p => !p.2)).map (·.1.idx) with
    | [] => .pass
    | j :: _ => .fail msgDln [j]

/-- `rsRound4Params` with the three jobs abstracted -/
def rsGen (own : Nat) (msgs : List RsR2Msg) : Outcome Verdict :=
  (scanRs own [] msgs).1.mapM fM >>= fun vm =>
  (scanRs own [] msgs).1.mapM fA >>= fun v1 =>
  (scanRs own [] msgs).1.mapM fB >>= fun v2 =>
  .ok (decide3 (scanRs own [] msgs).2 (scanRs own [] msgs).1 vm v1 v2)

theorem zip_filter_false' {α : Type} (chk : α → Outcome Bool) (l : List α) (vs : List Bool)
    (h : List.Forall₂ (fun m v => chk m = .ok v) l vs) :
    ((l.zip vs).filter (fun p => !p.2)).map (·.1) = l.filter (fun m => isFalse (chk m)) := by
  induction h with
  | nil => rfl
  | @cons m v l vs h1 _ ih =>
    rw [List.zip_cons_cons, List.filter_cons, List.filter_cons, h1]
    cases v with
    | false =>
      have hb : isFalse (Outcome.ok false) = true := rfl
      rw [hb]
      simp only [Bool.not_false, if_true, List.map_cons]
      rw [ih]
    | true =>
      have hb : isFalse (Outcome.ok true) = false := rfl
      rw [hb]
      simp only [Bool.not_true, Bool.false_eq_true, if_false]
      exact ih

/-- indices of the spawned messages with an invalid modulus proof, then of those with an invalid first DLN
proof, then of those with an invalid second DLN proof -/
def badIdx3 (sp : List RsR2Msg) : List Nat :=
  (sp.filter (fun m => isFalse (fM m)) ++ sp.filter (fun m => isFalse (fA m)) ++
    sp.filter (fun m => isFalse (fB m))).map (·.idx)

theorem decide3_eq (failure : Option (String × List Nat)) (sp : List RsR2Msg) (vm v1 v2 : List Bool)
    (hm : List.Forall₂ (fun m v => fM m = .ok v) sp vm)
    (h1 : List.Forall₂ (fun m v => fA m = .ok v) sp v1)
    (h2 : List.Forall₂ (fun m v => fB m = .ok v) sp v2) :
    decide3 failure sp vm v1 v2 = verdictOf failure (badIdx3 fM fA fB sp) := by
  unfold decide3 verdictOf
  cases failure with
  | some f => rfl
  | none =>
    have e : (fun (x : RsR2Msg × Bool) => x.1.idx) =
        (fun m : RsR2Msg => m.idx) ∘ (fun x : RsR2Msg × Bool => x.1) := rfl
    have hb : ((sp.zip vm).filter (fun p => !p.2) ++ (sp.zip v1).filter (fun p => !p.2) ++
        (sp.zip v2).filter (fun p => !p.2)).map (·.1.idx) = badIdx3 fM fA fB sp := by
      unfold badIdx3
      rw [e, ← List.map_map]
      simp only [List.map_append]
      rw [zip_filter_false' _ _ _ hm, zip_filter_false' _ _ _ h1, zip_filter_false' _ _ _ h2]
    simp only [hb]
    cases badIdx3 fM fA fB sp <;> rfl

/-- **the result when every job returns a verdict** -/
theorem rsGen_of_checks_ok (own : Nat) (msgs : List RsR2Msg)
    (hm : ∀ m ∈ (scanRs own [] msgs).1, ∃ b, fM m = .ok b)
    (h1 : ∀ m ∈ (scanRs own [] msgs).1, ∃ b, fA m = .ok b)
    (h2 : ∀ m ∈ (scanRs own [] msgs).1, ∃ b, fB m = .ok b) :
    rsGen fM fA fB own msgs =
      .ok (verdictOf (scanRs own [] msgs).2 (badIdx3 fM fA fB (scanRs own [] msgs).1)) := by
  obtain ⟨vm, hvm⟩ := mapM_total _ _ hm
  obtain ⟨v1, hv1⟩ := mapM_total _ _ h1
  obtain ⟨v2, hv2⟩ := mapM_total _ _ h2
  unfold rsGen
  rw [hvm, hv1, hv2]
  simp only [Outcome.ok_bind]
  rw [decide3_eq fM fA fB _ _ _ _ _ ((mapM_ok_iff _ _ _).1 hvm) ((mapM_ok_iff _ _ _).1 hv1)
    ((mapM_ok_iff _ _ _).1 hv2)]

/-- … and a result means every job did return a verdict -/
theorem rsGen_ok_inv (own : Nat) (msgs : List RsR2Msg) (v : Verdict) (h : rsGen fM fA fB own msgs = .ok v) :
    (∀ m ∈ (scanRs own [] msgs).1, ∃ b, fM m = .ok b) ∧
    (∀ m ∈ (scanRs own [] msgs).1, ∃ b, fA m = .ok b) ∧
    (∀ m ∈ (scanRs own [] msgs).1, ∃ b, fB m = .ok b) := by
  unfold rsGen at h
  cases hvm : (scanRs own [] msgs).1.mapM fM with
  | err e => rw [hvm] at h; cases h
  | panic e => rw [hvm] at h; cases h
  | ok vm =>
    rw [hvm] at h
    simp only [Outcome.ok_bind] at h
    cases hv1 : (scanRs own [] msgs).1.mapM fA with
    | err e => rw [hv1] at h; cases h
    | panic e => rw [hv1] at h; cases h
    | ok v1 =>
      rw [hv1] at h
      simp only [Outcome.ok_bind] at h
      cases hv2 : (scanRs own [] msgs).1.mapM fB with
      | err e => rw [hv2] at h; cases h
      | panic e => rw [hv2] at h; cases h
      | ok v2 =>
        exact ⟨forall₂_left_exists ((mapM_ok_iff _ _ _).1 hvm), forall₂_left_exists ((mapM_ok_iff _ _ _).1 hv1),
          forall₂_left_exists ((mapM_ok_iff _ _ _).1 hv2)⟩

theorem rsGen_noPanic_of (own : Nat) (msgs : List RsR2Msg)
    (hm : ∀ m ∈ msgs, NoPanic (fM m)) (h1 : ∀ m ∈ msgs, NoPanic (fA m)) (h2 : ∀ m ∈ msgs, NoPanic (fB m)) :
    NoPanic (rsGen fM fA fB own msgs) := by
  unfold rsGen
  have hs := scanRs_spawned_subset own msgs []
  refine NoPanic.bind (fun t => mapM_no_panic _ _ (fun m hx => hm m (hs m hx)) t) (fun _ _ => ?_)
  refine NoPanic.bind (fun t => mapM_no_panic _ _ (fun m hx => h1 m (hs m hx)) t) (fun _ _ => ?_)
  refine NoPanic.bind (fun t => mapM_no_panic _ _ (fun m hx => h2 m (hs m hx)) t) (fun _ _ => ?_)
  exact NoPanic.ok _

theorem mem_badIdx3 (sp : List RsR2Msg) (j : Nat) :
    j ∈ badIdx3 fM fA fB sp ↔
      ∃ m ∈ sp, m.idx = j ∧ (fM m = .ok false ∨ fA m = .ok false ∨ fB m = .ok false) := by
  unfold badIdx3
  simp only [List.mem_map, List.mem_append, List.mem_filter, isFalse_iff]
  constructor
  · rintro ⟨m, ((⟨hm, h⟩ | ⟨hm, h⟩) | ⟨hm, h⟩), rfl⟩
    · exact ⟨m, hm, rfl, Or.inl h⟩
    · exact ⟨m, hm, rfl, Or.inr (Or.inl h)⟩
    · exact ⟨m, hm, rfl, Or.inr (Or.inr h)⟩
  · rintro ⟨m, hm, rfl, (h | h | h)⟩
    · exact ⟨m, Or.inl (Or.inl ⟨hm, h⟩), rfl⟩
    · exact ⟨m, Or.inl (Or.inr ⟨hm, h⟩), rfl⟩
    · exact ⟨m, Or.inr ⟨hm, h⟩, rfl⟩

theorem badIdx3_eq_nil_iff (sp : List RsR2Msg) :
    badIdx3 fM fA fB sp = [] ↔
      ∀ m ∈ sp, fM m ≠ .ok false ∧ fA m ≠ .ok false ∧ fB m ≠ .ok false := by
  rw [List.eq_nil_iff_forall_not_mem]
  constructor
  · intro h m hm
    exact ⟨fun h0 => h m.idx ((mem_badIdx3 fM fA fB sp _).2 ⟨m, hm, rfl, Or.inl h0⟩),
      fun h1 => h m.idx ((mem_badIdx3 fM fA fB sp _).2 ⟨m, hm, rfl, Or.inr (Or.inl h1)⟩),
      fun h2 => h m.idx ((mem_badIdx3 fM fA fB sp _).2 ⟨m, hm, rfl, Or.inr (Or.inr h2)⟩)⟩
  · intro h j hj
    obtain ⟨m, hm, _, h0 | h1 | h2⟩ := (mem_badIdx3 fM fA fB sp j).1 hj
    · exact (h m hm).1 h0
    · exact (h m hm).2.1 h1
    · exact (h m hm).2.2 h2

/-- P1 -/
theorem rsGen_pass_iff (own : Nat) (msgs : List RsR2Msg) :
    rsGen fM fA fB own msgs = .ok .pass ↔
      (scanRs own [] msgs).2 = none ∧
      ∀ m ∈ (scanRs own [] msgs).1, fM m = .ok true ∧ fA m = .ok true ∧ fB m = .ok true := by
  constructor
  · intro h
    obtain ⟨k0, k1, k2⟩ := rsGen_ok_inv fM fA fB own msgs _ h
    rw [rsGen_of_checks_ok fM fA fB own msgs k0 k1 k2] at h
    injection h with h
    cases hf : (scanRs own [] msgs).2 with
    | some f => rw [hf] at h; cases h
    | none =>
      rw [hf] at h
      simp only [verdictOf] at h
      refine ⟨rfl, ?_⟩
      cases hbi : badIdx3 fM fA fB (scanRs own [] msgs).1 with
      | cons j t => rw [hbi] at h; cases h
      | nil =>
        intro m hm
        obtain ⟨n0, n1, n2⟩ := (badIdx3_eq_nil_iff fM fA fB _).1 hbi m hm
        obtain ⟨b0, e0⟩ := k0 m hm
        obtain ⟨b1, e1⟩ := k1 m hm
        obtain ⟨b2, e2⟩ := k2 m hm
        cases b0
        · exact absurd e0 n0
        · cases b1
          · exact absurd e1 n1
          · cases b2
            · exact absurd e2 n2
            · exact ⟨e0, e1, e2⟩
  · rintro ⟨hf, hall⟩
    rw [rsGen_of_checks_ok fM fA fB own msgs (fun m hm => ⟨true, (hall m hm).1⟩)
      (fun m hm => ⟨true, (hall m hm).2.1⟩) (fun m hm => ⟨true, (hall m hm).2.2⟩), hf]
    simp only [verdictOf]
    have : badIdx3 fM fA fB (scanRs own [] msgs).1 = [] := by
      rw [badIdx3_eq_nil_iff]
      intro m hm
      rw [(hall m hm).1, (hall m hm).2.1, (hall m hm).2.2]
      exact ⟨by nofun, by nofun, by nofun⟩
    rw [this]
    rfl

/-- P2 -/
theorem rsGen_culprits_are_senders (own : Nat) (msgs : List RsR2Msg) (why : String) (cs : List Nat)
    (h : rsGen fM fA fB own msgs = .ok (.fail why cs)) : ∀ c ∈ cs, ∃ m ∈ msgs, m.idx = c := by
  obtain ⟨k0, k1, k2⟩ := rsGen_ok_inv fM fA fB own msgs _ h
  rw [rsGen_of_checks_ok fM fA fB own msgs k0 k1 k2] at h
  injection h with h
  cases hf : (scanRs own [] msgs).2 with
  | some f =>
    obtain ⟨why', cs'⟩ := f
    rw [hf] at h
    simp only [verdictOf] at h
    injection h with hw hcs
    subst hw hcs
    exact rs_failure_senders own msgs _ _ hf
  | none =>
    rw [hf, scanRs_none_spawns_all own msgs [] hf] at h
    simp only [verdictOf] at h
    cases hbi : badIdx3 fM fA fB msgs with
    | nil => rw [hbi] at h; cases h
    | cons j t =>
      rw [hbi] at h
      simp only [dlnVerdict] at h
      injection h with _ hcs
      subst hcs
      intro c hc
      rw [List.mem_singleton] at hc
      subst hc
      have : c ∈ badIdx3 fM fA fB msgs := by rw [hbi]; exact List.mem_cons_self ..
      obtain ⟨m, hm, hi, _⟩ := (mem_badIdx3 fM fA fB msgs c).1 this
      exact ⟨m, hm, hi⟩

/-- the verdicts of the three job lists in a one-deviator run: valid for the honest messages, some verdict
for the deviator's -/
structure JobsOk (dev : Nat) (msgs : List RsR2Msg) : Prop where
  honest : ∀ m ∈ msgs, m.idx ≠ dev → fM m = .ok true ∧ fA m = .ok true ∧ fB m = .ok true
  dev : ∀ m ∈ msgs, m.idx = dev → (∃ b, fM m = .ok b) ∧ (∃ b, fA m = .ok b) ∧ ∃ b, fB m = .ok b

variable {fM fA fB}

theorem JobsOk.eq {own dev : Nat} {msgs : List RsR2Msg} (hk : JobsOk fM fA fB dev msgs) :
    rsGen fM fA fB own msgs =
      .ok (verdictOf (scanRs own [] msgs).2 (badIdx3 fM fA fB (scanRs own [] msgs).1)) := by
  have hs := scanRs_spawned_subset own msgs []
  refine rsGen_of_checks_ok fM fA fB own msgs (fun m hm => ?_) (fun m hm => ?_) (fun m hm => ?_) <;>
    by_cases h : m.idx = dev
  · exact (hk.dev m (hs m hm) h).1
  · exact ⟨true, (hk.honest m (hs m hm) h).1⟩
  · exact (hk.dev m (hs m hm) h).2.1
  · exact ⟨true, (hk.honest m (hs m hm) h).2.1⟩
  · exact (hk.dev m (hs m hm) h).2.2
  · exact ⟨true, (hk.honest m (hs m hm) h).2.2⟩

/-- only the deviator's proofs can be invalid -/
theorem bad3_is_dev {dev : Nat} {msgs sp : List RsR2Msg}
    (hh : ∀ m ∈ msgs, m.idx ≠ dev → fM m = .ok true ∧ fA m = .ok true ∧ fB m = .ok true)
    (hsub : ∀ m ∈ sp, m ∈ msgs) : ∀ j ∈ badIdx3 fM fA fB sp, j = dev := by
  intro j hj
  obtain ⟨m, hm, rfl, hb⟩ := (mem_badIdx3 fM fA fB sp j).1 hj
  by_contra hne
  obtain ⟨h0, h1, h2⟩ := hh m (hsub m hm) hne
  rcases hb with hb | hb | hb
  · rw [h0] at hb; cases hb
  · rw [h1] at hb; cases hb
  · rw [h2] at hb; cases hb

/-- P4 -/
theorem rsGen_single_deviator {own dev : Nat} {msgs : List RsR2Msg} (hd : OneDevRs own dev msgs)
    (hk : JobsOk fM fA fB dev msgs) :
    rsGen fM fA fB own msgs = .ok .pass ∨
      ∃ why cs, rsGen fM fA fB own msgs = .ok (.fail why cs) ∧ ∀ c ∈ cs, c = dev := by
  rw [hk.eq (own := own)]
  cases hf : (scanRs own [] msgs).2 with
  | some f =>
    obtain ⟨why, cs⟩ := f
    right
    exact ⟨why, cs, rfl, hd.failure_dev hf⟩
  | none =>
    rw [scanRs_none_spawns_all own msgs [] hf]
    simp only [verdictOf]
    have hb := bad3_is_dev (sp := msgs) hk.honest (fun _ h => h)
    cases hbi : badIdx3 fM fA fB msgs with
    | nil => left; rfl
    | cons j t =>
      right
      refine ⟨msgDln, [j], rfl, ?_⟩
      intro c hc
      rw [List.mem_singleton] at hc
      rw [hc]
      exact hb j (by rw [hbi]; exact List.mem_cons_self ..)

/-- the result without a structural failure: pass, or the deviator named for an invalid proof -/
theorem rsGen_of_scan_none {own dev : Nat} {msgs : List RsR2Msg} (hk : JobsOk fM fA fB dev msgs)
    (hscan : (scanRs own [] msgs).2 = none) :
    rsGen fM fA fB own msgs = .ok (dlnVerdict (badIdx3 fM fA fB msgs)) := by
  rw [hk.eq (own := own), hscan, scanRs_none_spawns_all own msgs [] hscan]
  rfl

/-- P5 -/
theorem rsGen_bad_job {own dev : Nat} {msgs : List RsR2Msg} (hk : JobsOk fM fA fB dev msgs)
    (hscan : (scanRs own [] msgs).2 = none) {md : RsR2Msg} (hmd : md ∈ msgs) (hdev : md.idx = dev)
    (hbad : fM md = .ok false ∨ fA md = .ok false ∨ fB md = .ok false) :
    rsGen fM fA fB own msgs = .ok (.fail msgDln [dev]) := by
  rw [rsGen_of_scan_none hk hscan]
  have hb := bad3_is_dev (sp := msgs) hk.honest (fun _ h => h)
  have hmem : dev ∈ badIdx3 fM fA fB msgs := (mem_badIdx3 fM fA fB msgs dev).2 ⟨md, hmd, hdev, hbad⟩
  cases hbi : badIdx3 fM fA fB msgs with
  | nil => rw [hbi] at hmem; cases hmem
  | cons j t =>
    have : j = dev := hb j (by rw [hbi]; exact List.mem_cons_self ..)
    subst this
    rfl

/-- all of the deviator's proofs are valid too and the loop finds nothing: the round passes -/
theorem rsGen_all_good {own dev : Nat} {msgs : List RsR2Msg} (hk : JobsOk fM fA fB dev msgs)
    (hscan : (scanRs own [] msgs).2 = none)
    (hgood : ∀ m ∈ msgs, m.idx = dev → fM m = .ok true ∧ fA m = .ok true ∧ fB m = .ok true) :
    rsGen fM fA fB own msgs = .ok .pass := by
  rw [rsGen_pass_iff]
  refine ⟨hscan, fun m hm => ?_⟩
  have hm' := scanRs_spawned_subset own msgs [] m hm
  by_cases h : m.idx = dev
  · exact hgood m hm' h
  · exact hk.honest m hm' h

/-- a structural failure decides the result whatever the jobs say -/
theorem rsGen_of_scan_some {own dev : Nat} {msgs : List RsR2Msg} (hk : JobsOk fM fA fB dev msgs)
    {why : String} {cs : List Nat} (hscan : (scanRs own [] msgs).2 = some (why, cs)) :
    rsGen fM fA fB own msgs = .ok (.fail why cs) := by
  rw [hk.eq (own := own), hscan]
  rfl

/-- P7, general form -/
theorem rsGen_clash {own dev : Nat} {msgs : List RsR2Msg} (hd : OneDevRs own dev msgs)
    (hk : JobsOk fM fA fB dev msgs) {md mx : RsR2Msg} (hmd : md ∈ msgs) (hdev : md.idx = dev)
    (hsz : md.h1 ≠ md.h2) (hmx : mx ∈ msgs) (hx : mx.idx ≠ dev) (hc : ClashRs md mx) :
    ∃ why cs other, rsGen fM fA fB own msgs = .ok (.fail why cs) ∧ (why = msgDupH1 ∨ why = msgDupH2) ∧
      other ∈ msgs ∧ other.idx ≠ dev ∧ ClashRs md other ∧
      (cs = duplicateCulprits own dev other.idx ∨ cs = duplicateCulprits own other.idx dev) := by
  obtain ⟨why, cs, other, hr, rest⟩ := hd.clash (own := own) hmd hdev hsz hmx hx hc
  exact ⟨why, cs, other, rsGen_of_scan_some hk hr, rest⟩

/-- P7, first half -/
theorem rsGen_clash_with_own {own dev : Nat} {msgs : List RsR2Msg} (hd : OneDevRs own dev msgs)
    (hk : JobsOk fM fA fB dev msgs) {md mo : RsR2Msg} (hmd : md ∈ msgs) (hdev : md.idx = dev)
    (hsz : md.h1 ≠ md.h2) (hmo : mo ∈ msgs) (hown : mo.idx = own) (hc : ClashRs md mo)
    (hthird : ∀ m ∈ msgs, m.idx ≠ dev → m.idx ≠ own → ¬ ClashRs md m) :
    ∃ why, rsGen fM fA fB own msgs = .ok (.fail why [dev]) ∧ (why = msgDupH1 ∨ why = msgDupH2) := by
  obtain ⟨why, hr, hw⟩ := hd.clash_with_own hmd hdev hsz hmo hown hc hthird
  exact ⟨why, rsGen_of_scan_some hk hr, hw⟩

/-- P7, second half -/
theorem rsGen_clash_with_third {own dev : Nat} {msgs : List RsR2Msg} (hd : OneDevRs own dev msgs)
    (hk : JobsOk fM fA fB dev msgs) {md mt : RsR2Msg} (hmd : md ∈ msgs) (hdev : md.idx = dev)
    (hsz : md.h1 ≠ md.h2) (hmt : mt ∈ msgs) (ht : mt.idx ≠ dev) (hc : ClashRs md mt)
    (hnown : ∀ m ∈ msgs, m.idx = own → ¬ ClashRs md m) :
    ∃ why, rsGen fM fA fB own msgs = .ok (.fail why []) ∧ (why = msgDupH1 ∨ why = msgDupH2) := by
  obtain ⟨why, hr, hw⟩ := hd.clash_with_third hmd hdev hsz hmt ht hc hnown
  exact ⟨why, rsGen_of_scan_some hk hr, hw⟩

/-- the deviator's `h1 = h2` is blamed on it (its own jobs are never spawned, so nothing is assumed on them) -/
theorem rsGen_equal {own dev : Nat} {msgs : List RsR2Msg} (hd : OneDevRs own dev msgs)
    (hh : ∀ m ∈ msgs, m.idx ≠ dev → fM m = .ok true ∧ fA m = .ok true ∧ fB m = .ok true)
    {md : RsR2Msg} (hmd : md ∈ msgs) (hdev : md.idx = dev) (he : md.h1 = md.h2) :
    rsGen fM fA fB own msgs = .ok (.fail msgEqual [dev]) := by
  have hr := hd.equal_fails (own := own) hmd hdev he
  -- the deviator's message is not among the spawned ones
  have hsp : ∀ m ∈ (scanRs own [] msgs).1, m.idx ≠ dev := by
    intro m hm hi
    have hm' := scanRs_spawned_subset own msgs [] m hm
    have : m = md := eq_of_nodup_map (fun q : RsR2Msg => q.idx) hd.nodup hm' hmd (hi.trans hdev.symm)
    subst this
    exact (scanRs_spawned_shape own msgs [] m hm) he
  have hs := scanRs_spawned_subset own msgs []
  rw [rsGen_of_checks_ok fM fA fB own msgs (fun m hm => ⟨true, (hh m (hs m hm) (hsp m hm)).1⟩)
    (fun m hm => ⟨true, (hh m (hs m hm) (hsp m hm)).2.1⟩)
    (fun m hm => ⟨true, (hh m (hs m hm) (hsp m hm)).2.2⟩), hr]
  rfl

end gen

/-! ### the three jobs of the model -/
section jobs
variable (H : HashFn) (zcfg : Zk.Cfg) (pcfg : ParseCfg) (noMod : Bool) (ssid : Bytes)

/-- the first DLN job -/
def dlnA (m : RsR2Msg) : Outcome Bool := dlnCheck H pcfg m.dln1 m.h1 m.h2 m.nTilde
/-- the second DLN job -/
def dlnB (m : RsR2Msg) : Outcome Bool := dlnCheck H pcfg m.dln2 m.h2 m.h1 m.nTilde

theorem rs_eq (own : Nat) (msgs : List RsR2Msg) :
    rsRound4Params H zcfg pcfg noMod own ssid msgs =
      rsGen (modJob H zcfg noMod ssid) (dlnA H pcfg) (dlnB H pcfg) own msgs := by
  unfold rsRound4Params rsGen
  obtain ⟨sp, f⟩ := scanRs own [] msgs
  show (sp.mapM (modJob H zcfg noMod ssid) >>= fun vm => sp.mapM (dlnA H pcfg) >>= fun v1 =>
    sp.mapM (dlnB H pcfg) >>= fun v2 => _) = _
  cases (sp.mapM (modJob H zcfg noMod ssid)) with
  | err e => rfl
  | panic e => rfl
  | ok vm =>
    simp only [Outcome.ok_bind]
    cases (sp.mapM (dlnA H pcfg)) with
    | err e => rfl
    | panic e => rfl
    | ok v1 =>
      simp only [Outcome.ok_bind]
      cases (sp.mapM (dlnB H pcfg)) with
      | err e => rfl
      | panic e => rfl
      | ok v2 =>
        simp only [Outcome.ok_bind]
        cases f with
        | some f => rfl
        | none =>
          simp only [decide3]
          generalize List.map (fun (x : RsR2Msg × Bool) => x.1.idx) _ = bad
          cases bad <;> rfl

/-- the modulus job on a proof that does not decode -/
theorem modJob_undecodable (m : RsR2Msg) (h : modFromBytes m.modProof = none) :
    modJob H zcfg noMod ssid m = .ok noMod := by
  unfold modJob; rw [h]

theorem modJob_iff (m : RsR2Msg) (b : Bool) :
    modJob H zcfg noMod ssid m = .ok b ↔
      (∃ w xs a c zs, modFromBytes m.modProof = some (w, xs, a, c, zs) ∧
        modVerify zcfg H (Blame.contextJ ssid m.idx) w (xs.map Int.ofNat) a c (zs.map Int.ofNat) m.paillierN
          = .ok b) ∨
      (modFromBytes m.modProof = none ∧ noMod = b) := by
  unfold modJob
  cases hd : modFromBytes m.modProof with
  | none =>
    simp only [reduceCtorEq, false_and, exists_false, true_and, false_or]
    constructor
    · intro h; injection h
    · intro h; rw [h]
  | some t =>
    obtain ⟨w, xs, a, c, zs⟩ := t
    simp

end jobs

/-! ### the modulus job returns a verdict -/

macro "ne_guard" : tactic =>
  `(tactic| refine NoErr.ite (fun _ => NoErr.ok _) (fun _ => ?_))
macro "ne_bind " t:term : tactic =>
  `(tactic| refine NoErr.bind $t (fun _ _ => ?_))

theorem goJacobi_noErr (a : Int) (n : Nat) : NoErr (goJacobi a n) := by
  unfold goJacobi
  split
  · exact fun _ => nofun
  · exact NoErr.ok _

theorem modYs_noErr (H : HashFn) (sess : Bytes) (w n : Int) :
    ∀ (k : Nat) (acc : List Nat), NoErr (modYs H sess w n k acc) := by
  intro k
  induction k with
  | zero => intro acc; exact NoErr.ok _
  | succ k ih =>
    intro acc
    unfold modYs
    split
    · exact fun _ => nofun
    · exact ih _

/-- the modulus-proof verifier only answers yes/no (or crashes), on every tree -/
theorem modVerify_noErr (cfg : Zk.Cfg) (H : HashFn) (sess : Bytes) (w : Int) (xs : List Int) (a b : Int)
    (zs : List Int) (n : Int) : NoErr (modVerify cfg H sess w xs a b zs n) := by
  unfold modVerify
  ne_guard; ne_guard
  ne_bind goJacobi_noErr _ _
  ne_guard; ne_guard; ne_guard; ne_guard; ne_guard; ne_guard; ne_guard; ne_guard
  ne_bind modYs_noErr H sess w n _ _
  ne_guard
  exact NoErr.ok _

/-- the modulus job never reports an error, on every tree -/
theorem modJob_noErr (H : HashFn) (zcfg : Zk.Cfg) (noMod : Bool) (ssid : Bytes) (m : RsR2Msg) :
    NoErr (modJob H zcfg noMod ssid m) := by
  unfold modJob
  split
  · exact NoErr.ok _
  · exact modVerify_noErr _ H _ _ _ _ _ _ _

/-- … and never crashes on the current tree -/
theorem modJob_noPanic (H : HashFn) (noMod : Bool) (ssid : Bytes) (m : RsR2Msg) :
    NoPanic (modJob H Zk.cur noMod ssid m) := by
  unfold modJob
  split
  · exact NoPanic.ok _
  · exact modVerify_noPanic H _ _ _ _ _ _ _

/-- **on the current tree the modulus job returns a verdict** -/
theorem modJob_total (H : HashFn) (noMod : Bool) (ssid : Bytes) (m : RsR2Msg) :
    ∃ b, modJob H Zk.cur noMod ssid m = .ok b := by
  cases h : modJob H Zk.cur noMod ssid m with
  | ok b => exact ⟨b, rfl⟩
  | err e => exact absurd h (modJob_noErr H _ noMod ssid m e)
  | panic t => exact absurd h (modJob_noPanic H noMod ssid m t)

theorem rs_noPanic (H : HashFn) (noMod : Bool) (own : Nat) (ssid : Bytes) (msgs : List RsR2Msg) :
    NoPanic (rsRound4Params H Zk.cur Ops16.curParse noMod own ssid msgs) := by
  rw [rs_eq]
  exact rsGen_noPanic_of _ _ _ own msgs (fun m _ => modJob_noPanic H noMod ssid m)
    (fun m _ => dlnCheck_noPanic H _ _ _ _) (fun m _ => dlnCheck_noPanic H _ _ _ _)

theorem rs_returns (H : HashFn) (noMod : Bool) (own : Nat) (ssid : Bytes) (msgs : List RsR2Msg) :
    ∃ v, rsRound4Params H Zk.cur Ops16.curParse noMod own ssid msgs = .ok v := by
  rw [rs_eq]
  exact ⟨_, rsGen_of_checks_ok _ _ _ own msgs (fun m _ => modJob_total H noMod ssid m)
    (fun m _ => dlnCheck_total H _ _ _ _) (fun m _ => dlnCheck_total H _ _ _ _)⟩

end TssVerif.C05RsL
