import TssVerif.Core.Mta
import TssVerif.Lemmas.GoIntSpec
import TssVerif.Lemmas.CurveLaw
import TssVerif.Lemmas.VssVerify
import TssVerif.Lemmas.C16
import TssVerif.Lemmas.C17
import Mathlib.Tactic.NormNum.Prime
/-! Helper lemmas for `TssVerif/Props/C06.lean`: a small calculus for "this `Outcome` is not a panic",
totality of `expP` under the guards the verifiers establish, the curve facts behind the Schnorr/Bob
point checks, and the fuel analysis of `generateXsLoop`. -/
set_option autoImplicit false
set_option linter.unusedSectionVars false
namespace TssVerif.C06L
open TssVerif

/-! ## "not a panic" -/

/-- the outcome is a value or a reported error -/
def NoPanic {α : Type} (o : Outcome α) : Prop := ∀ t, o ≠ .panic t

namespace NoPanic
variable {α β : Type}

theorem ok (a : α) : NoPanic (Outcome.ok a) := fun _ => nofun
theorem err (e : String) : NoPanic (Outcome.err e : Outcome α) := fun _ => nofun
theorem pure (a : α) : NoPanic (Pure.pure a : Outcome α) := fun _ => nofun

theorem bind {x : Outcome α} {f : α → Outcome β} (hx : NoPanic x)
    (hf : ∀ a, x = .ok a → NoPanic (f a)) : NoPanic (x >>= f) := by
  cases x with
  | ok a => exact hf a rfl
  | err e => exact err e
  | panic t => exact absurd rfl (hx t)

theorem ite {c : Prop} [Decidable c] {a b : Outcome α} (ha : c → NoPanic a) (hb : ¬ c → NoPanic b) :
    NoPanic (if c then a else b) := by
  split
  · exact ha ‹_›
  · exact hb ‹_›

theorem of_ok {o : Outcome α} {a : α} (h : o = .ok a) : NoPanic o := h ▸ ok a

theorem of_exists_ok {o : Outcome α} (h : ∃ a, o = .ok a) : NoPanic o := by
  obtain ⟨a, h⟩ := h; exact of_ok h

end NoPanic


macro "np_guard " h:ident : tactic =>
  `(tactic| refine NoPanic.ite (fun _ => NoPanic.ok _) (fun $h => ?_))
macro "np_bind " t:term : tactic =>
  `(tactic| refine NoPanic.bind $t (fun _ _ => ?_))

/-! ## integer guards -/
open Zk

/-- Go's `Exp` result is non-nil when the modulus is positive and either the exponent is non-negative
or the base is a unit -/
theorem expP_noPanic {x y : Int} {m : Nat} (hm : m ≠ 0) (h : 0 ≤ y ∨ Int.gcd x m = 1) :
    NoPanic (expP x y m) := by
  intro t ht
  unfold expP nilPanic at ht
  cases hg : goExp x y m with
  | some r => rw [hg] at ht; cases ht
  | none =>
    rcases (goExp_eq_none_iff x y m).1 hg with h0 | ⟨h1, h2⟩
    · exact hm h0
    · rcases h with h | h
      · omega
      · exact h2 h

theorem interval_of_guard {b bound : Int} (h : ¬ (!isInInterval b bound) = true) : 0 ≤ b ∧ b < bound := by
  simpa [isInInterval, and_comm] using h

theorem gcd_of_guard {a b : Int} (h : ¬ (Int.gcd a b != 1) = true) : Int.gcd a b = 1 := by
  simpa using h

theorem natAbs_ne_zero_of_pos {a : Int} (h : 0 < a) : a.natAbs ≠ 0 := by omega

theorem gcd_natAbs_right (a b : Int) : Int.gcd a (b.natAbs : Int) = Int.gcd a b := by
  rw [Int.gcd, Int.gcd, Int.natAbs_natCast]

/-! ## Alice's range proof -/

theorem rangeVerify_noPanic (H : HashFn) (q : Nat) (n ntilde h1 h2 c : Int) (pf : RangeProof) :
    NoPanic (rangeVerify cur H q n ntilde h1 h2 c pf) := by
  unfold rangeVerify
  dsimp only
  np_guard gz; np_guard gu; np_guard gw; np_guard gs
  np_guard cz; np_guard cu; np_guard cw
  np_guard s1q; np_guard s2q; np_guard _a; np_guard _b; np_guard _c; np_guard _d
  np_guard cc
  have gz := interval_of_guard gz
  have gu := interval_of_guard gu
  have gs := interval_of_guard gs
  have cz := gcd_of_guard cz
  have cc : Int.gcd c (n * n) = 1 := by simpa [cur] using cc
  have hm2 : (n * n).natAbs ≠ 0 := natAbs_ne_zero_of_pos (by omega)
  have hmt : ntilde.natAbs ≠ 0 := natAbs_ne_zero_of_pos (by omega)
  have hn : 0 ≤ n := by omega
  have hs1 : 0 ≤ pf.s1 := by omega
  have hs2 : 0 ≤ pf.s2 := by omega
  np_bind expP_noPanic hm2 (Or.inr (by rw [gcd_natAbs_right]; exact cc))
  np_bind expP_noPanic hm2 (Or.inl hn)
  np_bind expP_noPanic hm2 (Or.inl hs1)
  np_guard _e
  np_bind expP_noPanic hmt (Or.inl hs1)
  np_bind expP_noPanic hmt (Or.inl hs2)
  np_bind expP_noPanic hmt (Or.inr (by rw [gcd_natAbs_right]; exact cz))
  exact NoPanic.ok _

/-! ## curve side: Schnorr, Schnorr-V, Bob -/
section curve
variable {P : Type} {C : Curve P}

theorem ecAdd_noPanic (C : Curve P) (a b : ECPoint) : NoPanic (C.ecAdd a b) := by
  intro t ht
  have := C17L.ecAdd_total C a b
  rw [ht] at this; cases this

theorem ecBaseMult_noPanic (hC : C.Lawful) {k : Nat} (hk : k % C.q ≠ 0) :
    NoPanic (C.ecBaseMult (k : Int)) := by
  intro t ht
  have h := ((C17L.ecBaseMult_outcomes C (k : Int)).1 t).1 ht
  rw [Int.natAbs_natCast] at h
  exact hk ((Vss.toAffine_smul_base_eq_none_iff hC k).1 h.1).1

/-- scalar multiplication of a point by a scalar prime to `q` cannot reach the identity when every
point is killed by `q` (and the point itself, having affine coordinates, is not the identity) -/
theorem ecScalarMult_noPanic (hC : C.Lawful)
    (hcof : C.toAffine C.zero = none → ∀ p, C.smul C.q p = C.zero)
    (X : ECPoint) {c : Nat} (hc : c % C.q ≠ 0) : NoPanic (C.ecScalarMult X (c : Int)) := by
  intro t ht
  obtain ⟨⟨pa, hpa, hnone⟩, _⟩ := ((C17L.ecScalarMult_outcomes C X (c : Int)).1 t).1 ht
  rw [Int.natAbs_natCast] at hnone
  obtain ⟨h1, h2⟩ := (hC.toAffine_eq_none_iff _).1 hnone
  have h0 := hC.eq_zero_of_smul_eq_zero (hcof h2 pa) hc h1
  have hpa' := hC.ofAffine_toAffine _ _ _ hpa
  rw [h0, h2] at hpa'
  cases hpa'

theorem schnorrVerify_noPanic (hC : C.Lawful)
    (hcof : C.toAffine C.zero = none → ∀ p, C.smul C.q p = C.zero)
    (H : HashFn) (sess : Bytes) (X alpha : ECPoint) (t : Nat) :
    NoPanic (schnorrVerify C H cur sess X alpha t) := by
  unfold schnorrVerify
  dsimp only
  np_guard g
  have g' : t % C.q ≠ 0 ∧ schnorrChallenge C H sess X alpha ≠ 0 := by simpa [cur] using g
  have hc : schnorrChallenge C H sess X alpha % C.q ≠ 0 := by
    have : schnorrChallenge C H sess X alpha % C.q = schnorrChallenge C H sess X alpha := by
      unfold schnorrChallenge rejectionSample; exact Nat.mod_mod _ _
    rw [this]; exact g'.2
  np_bind ecBaseMult_noPanic hC g'.1
  np_bind ecScalarMult_noPanic hC hcof X hc
  have := ecAdd_noPanic C alpha ‹_›
  split
  · exact NoPanic.ok _
  · exact NoPanic.ok _
  · rename_i h; exact absurd h (this _)

macro "np_bindn " t:term " with " a:ident : tactic =>
  `(tactic| refine NoPanic.bind $t (fun $a _ => ?_))

theorem challenge_mod_ne_zero {q h : Nat} (hne : rejectionSample q h ≠ 0) : rejectionSample q h % q ≠ 0 := by
  unfold rejectionSample at *
  rw [Nat.mod_mod]; exact hne

theorem schnorrVVerify_noPanic (hC : C.Lawful)
    (hcof : C.toAffine C.zero = none → ∀ p, C.smul C.q p = C.zero)
    (H : HashFn) (sess : Bytes) (V R alpha : ECPoint) (t u : Nat) :
    NoPanic (schnorrVVerify C H cur sess V R alpha t u) := by
  unfold schnorrVVerify
  dsimp only
  np_guard _oc
  np_guard g
  have g' : (t % C.q ≠ 0 ∧ u % C.q ≠ 0) ∧ schnorrVChallenge C H sess V R alpha ≠ 0 := by
    simpa [cur, and_assoc] using g
  np_bindn ecScalarMult_noPanic hC hcof R g'.1.1 with tR
  np_bindn ecBaseMult_noPanic hC g'.1.2 with uG
  have h1 := ecAdd_noPanic C tR uG
  split
  · exact NoPanic.ite (fun _ => NoPanic.ok _) (fun h => absurd rfl h)
  · rename_i h; exact absurd h (h1 _)
  · np_bind ecScalarMult_noPanic hC hcof V (challenge_mod_ne_zero g'.2)
    have h2 := ecAdd_noPanic C alpha ‹_›
    split
    · exact NoPanic.ok _
    · exact NoPanic.ok _
    · rename_i h; exact absurd h (h2 _)

set_option hygiene false in
macro "bob_tail" : tactic => `(tactic| (
  np_bind expP_noPanic hmt (Or.inl hs1)
  np_bind expP_noPanic hmt (Or.inl hs2)
  np_bind expP_noPanic hmt (Or.inl (Int.natCast_nonneg _))
  np_guard _e1
  np_bind expP_noPanic hmt (Or.inl ht1)
  np_bind expP_noPanic hmt (Or.inl ht2)
  np_bind expP_noPanic hmt (Or.inl (Int.natCast_nonneg _))
  np_guard _e2
  np_bind expP_noPanic hm2 (Or.inl hs1)
  np_bind expP_noPanic hm2 (Or.inl hn)
  np_bind expP_noPanic hm2 (Or.inl ht1)
  np_bind expP_noPanic hm2 (Or.inl (Int.natCast_nonneg _))
  exact NoPanic.ok _))

theorem bobVerify_noPanic (hC : C.Lawful)
    (hcof : C.toAffine C.zero = none → ∀ p, C.smul C.q p = C.zero)
    (H : HashFn) (sess : Bytes) (n ntilde h1 h2 c1 c2 : Int) (pf : BobProof)
    (xu : Option (ECPoint × ECPoint)) :
    NoPanic (bobVerify C H cur sess n ntilde h1 h2 c1 c2 pf xu) := by
  unfold bobVerify
  dsimp only
  np_guard gz; np_guard gzp; np_guard gt; np_guard gv; np_guard gw; np_guard gs
  np_guard cz; np_guard czp; np_guard ct; np_guard cv; np_guard cw
  np_guard s0; np_guard cs; np_guard v0; np_guard cvn
  np_guard s1q; np_guard s2q; np_guard t1q; np_guard t2q; np_guard _a; np_guard _b
  have gz := interval_of_guard gz
  have gv := interval_of_guard gv
  have gs := interval_of_guard gs
  have hm2 : (n * n).natAbs ≠ 0 := natAbs_ne_zero_of_pos (by omega)
  have hmt : ntilde.natAbs ≠ 0 := natAbs_ne_zero_of_pos (by omega)
  have hn : 0 ≤ n := by omega
  have hs1 : 0 ≤ pf.s1 := by omega
  have hs2 : 0 ≤ pf.s2 := by omega
  have ht1 : 0 ≤ pf.t1 := by omega
  have ht2 : 0 ≤ pf.t2 := by omega
  split
  · simp only [Outcome.pure_eq, Outcome.ok_bind]
    bob_tail
  · rename_i X U
    refine NoPanic.ite (fun _ => ?_) (fun g => ?_)
    · simp only [Outcome.pure_eq, Outcome.ok_bind]
      exact NoPanic.ok _
    · have g' : (pf.s1 % (C.q : Int)).toNat ≠ 0 ∧ bobChallenge C H sess n c1 c2 (some (X, U)) pf ≠ 0 := by
        simpa [cur] using g
      have hq : (0 : Int) < C.q := by exact_mod_cast hC.q_pos
      have hlt : (pf.s1 % (C.q : Int)).toNat < C.q := by
        have := Int.emod_lt_of_pos pf.s1 hq
        omega
      have hs1q : (pf.s1 % (C.q : Int)).toNat % C.q ≠ 0 := by
        rw [Nat.mod_eq_of_lt hlt]; exact g'.1
      np_bindn ecBaseMult_noPanic hC hs1q with gS1
      np_bindn ecScalarMult_noPanic hC hcof X (challenge_mod_ne_zero g'.2) with xe
      have hadd := ecAdd_noPanic C xe U
      split
      · simp only [Outcome.pure_eq, Outcome.ok_bind]
        cases ecEquals gS1 ‹_›
        · exact NoPanic.ok _
        · dsimp only
          bob_tail
      · simp only [Outcome.pure_eq, Outcome.ok_bind]
        exact NoPanic.ok _
      · rename_i h; exact absurd h (hadd _)

/-- `(*ProofBob).Verify` (no point check): no assumption on the curve record at all -/
theorem bobVerify_none_noPanic (C : Curve P) (H : HashFn) (sess : Bytes) (n ntilde h1 h2 c1 c2 : Int)
    (pf : BobProof) : NoPanic (bobVerify C H cur sess n ntilde h1 h2 c1 c2 pf none) := by
  unfold bobVerify
  dsimp only
  np_guard gz; np_guard gzp; np_guard gt; np_guard gv; np_guard gw; np_guard gs
  np_guard cz; np_guard czp; np_guard ct; np_guard cv; np_guard cw
  np_guard s0; np_guard cs; np_guard v0; np_guard cvn
  np_guard s1q; np_guard s2q; np_guard t1q; np_guard t2q; np_guard _a; np_guard _b
  have gz := interval_of_guard gz
  have gv := interval_of_guard gv
  have gs := interval_of_guard gs
  have hm2 : (n * n).natAbs ≠ 0 := natAbs_ne_zero_of_pos (by omega)
  have hmt : ntilde.natAbs ≠ 0 := natAbs_ne_zero_of_pos (by omega)
  have hn : 0 ≤ n := by omega
  have hs1 : 0 ≤ pf.s1 := by omega
  have hs2 : 0 ≤ pf.s2 := by omega
  have ht1 : 0 ≤ pf.t1 := by omega
  have ht2 : 0 ≤ pf.t2 := by omega
  simp only [Outcome.pure_eq, Outcome.ok_bind]
  bob_tail

end curve

/-! ## `modproof`, `facproof` -/

theorem modYs_noPanic (H : HashFn) (sess : Bytes) (w n : Int) (hn : n ≠ 0) :
    ∀ (k : Nat) (acc : List Nat), NoPanic (modYs H sess w n k acc) := by
  intro k
  induction k with
  | zero => intro acc; exact NoPanic.ok _
  | succ k ih =>
    intro acc
    unfold modYs
    rw [if_neg hn]
    exact ih _

theorem goJacobi_noPanic (a : Int) {n : Nat} (hn : n % 2 ≠ 0) : NoPanic (goJacobi a n) := by
  unfold goJacobi
  rw [if_neg hn]
  exact NoPanic.ok _

theorem modVerify_noPanic (H : HashFn) (sess : Bytes) (w : Int) (xs : List Int) (a b : Int)
    (zs : List Int) (n : Int) : NoPanic (modVerify cur H sess w xs a b zs n) := by
  unfold modVerify
  np_guard g
  have g' : 0 < n ∧ n % 2 ≠ 0 := by simpa [cur] using g
  np_guard _n0
  have hodd : n.toNat % 2 ≠ 0 := by omega
  np_bind goJacobi_noPanic w hodd
  np_guard _j; np_guard _w; np_guard _g; np_guard _z; np_guard _x; np_guard _c; np_guard _a; np_guard _b
  np_bind modYs_noPanic H sess w n (by omega) _ _
  np_guard _p
  exact NoPanic.ok _

theorem facVerify_noPanic (H : HashFn) (q : Nat) (sess : Bytes) (n0 ncap s t : Int) (pf : FacProof)
    (hneg : (0 ≤ pf.w1 ∧ 0 ≤ pf.w2 ∧ 0 ≤ pf.sigma ∧ 0 ≤ pf.v) ∨ Int.gcd t ncap = 1) :
    NoPanic (facVerify cur H q sess n0 ncap s t pf) := by
  unfold facVerify
  np_guard gn0
  np_guard gcap
  dsimp only
  np_guard gz1; np_guard gz2
  have gcap' : 0 < ncap := by simpa [cur] using gcap
  have gz1 := interval_of_guard gz1
  have gz2 := interval_of_guard gz2
  rw [if_neg (by omega)]
  have hm : ncap.natAbs ≠ 0 := natAbs_ne_zero_of_pos gcap'
  have ht : ∀ y : Int, (y = pf.w1 ∨ y = pf.w2 ∨ y = pf.sigma ∨ y = pf.v) →
      0 ≤ y ∨ Int.gcd t (ncap.natAbs : Int) = 1 := by
    intro y hy
    rcases hneg with ⟨h1, h2, h3, h4⟩ | h
    · left; rcases hy with rfl | rfl | rfl | rfl <;> assumption
    · right; rw [gcd_natAbs_right]; exact h
  have he : ∀ k : Nat, (0 : Int) ≤ (k : Int) := fun k => Int.natCast_nonneg k
  np_bind expP_noPanic hm (Or.inl gz1.1)
  np_bind expP_noPanic hm (ht _ (Or.inl rfl))
  np_bind expP_noPanic hm (Or.inl (he _))
  np_guard _e1
  np_bind expP_noPanic hm (Or.inl gz2.1)
  np_bind expP_noPanic hm (ht _ (Or.inr (Or.inl rfl)))
  np_bind expP_noPanic hm (Or.inl (he _))
  np_guard _e2
  np_bind expP_noPanic hm (Or.inl (by omega))
  np_bind expP_noPanic hm (ht _ (Or.inr (Or.inr (Or.inl rfl))))
  np_bind expP_noPanic hm (Or.inl gz1.1)
  np_bind expP_noPanic hm (ht _ (Or.inr (Or.inr (Or.inr rfl))))
  np_bind expP_noPanic hm (Or.inl (he _))
  exact NoPanic.ok _

/-! ## `dlnproof`, parser, commitments -/

theorem foldlM_noPanic {α β : Type} (f : β → α → Outcome β) (hf : ∀ b a, NoPanic (f b a)) :
    ∀ (l : List α) (b : β), NoPanic (l.foldlM f b) := by
  intro l
  induction l with
  | nil => intro b; exact NoPanic.ok _
  | cons a l ih =>
    intro b
    rw [List.foldlM_cons]
    exact NoPanic.bind (hf b a) (fun b' _ => ih b')

theorem getD_nonneg {t : List Int} (h : ∀ v ∈ t, 0 ≤ v) (i : Nat) : 0 ≤ t.getD i 0 := by
  rw [List.getD_eq_getElem?_getD]
  cases hi : t[i]? with
  | none => simp
  | some v => simpa using h v (List.mem_of_getElem? hi)

theorem dlnVerify_noPanic (H : HashFn) (alpha t : List Int) (h1 h2 n : Int)
    (hneg : (∀ v ∈ t, 0 ≤ v) ∨ Int.gcd h1 n = 1) : NoPanic (dlnVerify H alpha t h1 h2 n) := by
  unfold dlnVerify
  np_guard gn
  dsimp only
  np_guard _a; np_guard _b; np_guard _c; np_guard _d; np_guard _e
  have hm : n.toNat ≠ 0 := by omega
  apply foldlM_noPanic
  intro acc i
  np_guard _f
  refine NoPanic.bind (expP_noPanic hm ?_) (fun _ _ => ?_)
  · rcases hneg with h | h
    · exact Or.inl (getD_nonneg h i)
    · right
      have : ((n.toNat : Nat) : Int) = n := Int.toNat_of_nonneg (by omega)
      rw [this]; exact h
  · refine NoPanic.bind (expP_noPanic hm (Or.inl ?_)) (fun _ _ => NoPanic.ok _)
    split <;> decide

theorem parse_cur_noPanic (xs : List Int) : NoPanic (parseSecretsCfg Ops16.curParse xs) := by
  intro t
  unfold parseSecretsCfg
  split
  · simp
  · exact C16L.parseLoop_cur_no_panic Ops16.curParse rfl xs t _ _ _ _ _ (Int.le_refl 0)

theorem dlnUnmarshal_noPanic (xs : List Int) : NoPanic (dlnUnmarshal Ops16.curParse xs) := by
  unfold dlnUnmarshal
  have := parse_cur_noPanic xs
  split
  · exact NoPanic.ite (fun _ => NoPanic.ok _) (fun _ => NoPanic.err _)
  · exact NoPanic.err _
  · exact NoPanic.err _
  · rename_i h; exact absurd h (this _)

theorem commitVerify_noPanic (H : HashFn) (c : Nat) (d : List Int) (hd : d ≠ []) :
    NoPanic (commitVerifyWith H c d) := by
  unfold commitVerifyWith sha512_256iWith
  cases d with
  | nil => exact absurd rfl hd
  | cons x d => exact NoPanic.ok _
open Paillier
/-! ## Paillier key proof -/

theorem proofVerify_panic_iff (cfg : ProofCfg) (H : HashFn) (pf : List Int) (pkN k : Int) (pub : ECPoint)
    (t : String) :
    proofVerify cfg H pf pkN k pub = .panic t ↔
      t = "index" ∧ pf.length ≠ proofIters ∧
      smallPrimes.any (fun prm => pkN % (prm : Int) == 0) = false ∧
      (generateXs H proofIters k pkN pub).isSome = true := by
  unfold proofVerify
  cases hs : smallPrimes.any (fun prm => pkN % (prm : Int) == 0)
  · cases hx : generateXs H proofIters k pkN pub with
    | none =>
      cases hb : cfg.boundedXs
      · exact ⟨nofun, fun h => by simp at h⟩
      · exact ⟨nofun, fun h => by simp at h⟩
    | some xs =>
      by_cases hl : pf.length = proofIters
      · have : (pf.length != proofIters) = false := by rw [hl]; exact bne_self_eq_false _
        simp only [Bool.false_eq_true, if_false, this]
        exact ⟨nofun, fun h => absurd hl h.2.1⟩
      · have : (pf.length != proofIters) = true := bne_iff_ne.2 hl
        simp only [Bool.false_eq_true, if_false, this, if_true]
        constructor
        · intro h; cases h; exact ⟨rfl, hl, trivial, rfl⟩
        · rintro ⟨rfl, _⟩; rfl
  · simp only [if_true]
    exact ⟨nofun, fun h => by simp at h⟩

theorem proofVerify_noPanic (cfg : ProofCfg) (H : HashFn) (pf : List Int) (pkN k : Int) (pub : ECPoint)
    (hlen : pf.length = proofIters) : NoPanic (proofVerify cfg H pf pkN k pub) := by
  intro t ht
  exact ((proofVerify_panic_iff cfg H pf pkN k pub t).1 ht).2.1 hlen

/-- how the `GenerateXs` loop can end -/
inductive XsExit where
  | outOfFuel
  | rejected
  | done (xs : List Nat)
deriving DecidableEq, Repr

def XsExit.toOption : XsExit → Option (List Nat)
  | .done xs => some xs
  | _ => none

/-- `generateXsLoop` with the reason for a `none` made visible -/
def generateXsLoopI (H : HashFn) (m : Nat) (kb sxb syb nb : Bytes) (nInt : Int) (blocks : Nat) :
    Nat → Nat → Nat → List Nat → XsExit
  | 0, _, _, _ => .outOfFuel
  | fuel + 1, i, cnt, acc =>
    if i ≥ m then .done acc.reverse else
    let x := xsCandidate H i cnt kb sxb syb nb blocks
    if isNumberInMultiplicativeGroup nInt x then
      generateXsLoopI H m kb sxb syb nb nInt blocks fuel (i + 1) cnt (x :: acc)
    else if cnt + 1 > maxXsRejections then .rejected
    else generateXsLoopI H m kb sxb syb nb nInt blocks fuel i (cnt + 1) acc

/-- instrumented `generateXs` -/
def generateXsI (H : HashFn) (m : Nat) (k : Int) (n : Int) (pub : ECPoint) : XsExit :=
  let bits := bitLen n.natAbs
  let blocks := (bits + 255) / 256
  generateXsLoopI H m (intToBytesBE k) (natToBytesBE pub.1) (natToBytesBE pub.2) (intToBytesBE n) n blocks
    (m + maxXsRejections + 2) 0 0 []

section loop
variable (H : HashFn) (m : Nat) (kb sxb syb nb : Bytes) (nInt : Int) (blocks : Nat)

theorem loopI_toOption : ∀ (fuel i cnt : Nat) (acc : List Nat),
    (generateXsLoopI H m kb sxb syb nb nInt blocks fuel i cnt acc).toOption =
      generateXsLoop H m kb sxb syb nb nInt blocks fuel i cnt acc := by
  intro fuel
  induction fuel with
  | zero => intro i cnt acc; rfl
  | succ fuel ih =>
    intro i cnt acc
    unfold generateXsLoopI generateXsLoop
    split
    · rfl
    · dsimp only
      split
      · exact ih _ _ _
      · split
        · rfl
        · exact ih _ _ _

theorem loopI_ne_outOfFuel : ∀ (fuel i cnt : Nat) (acc : List Nat), cnt ≤ maxXsRejections →
    (m - i) + (maxXsRejections - cnt) + 1 ≤ fuel →
    generateXsLoopI H m kb sxb syb nb nInt blocks fuel i cnt acc ≠ .outOfFuel := by
  intro fuel
  induction fuel with
  | zero => intro i cnt acc _ h; omega
  | succ fuel ih =>
    intro i cnt acc hc hf
    unfold generateXsLoopI
    split
    · nofun
    · dsimp only
      split
      · exact ih _ _ _ hc (by omega)
      · split
        · nofun
        · exact ih _ _ _ (by omega) (by omega)

theorem loopI_fuel_mono : ∀ (fuel extra i cnt : Nat) (acc : List Nat),
    generateXsLoopI H m kb sxb syb nb nInt blocks fuel i cnt acc ≠ .outOfFuel →
    generateXsLoopI H m kb sxb syb nb nInt blocks (fuel + extra) i cnt acc =
      generateXsLoopI H m kb sxb syb nb nInt blocks fuel i cnt acc := by
  intro fuel
  induction fuel with
  | zero => intro extra i cnt acc h; exact absurd rfl h
  | succ fuel ih =>
    intro extra i cnt acc h
    rw [Nat.add_right_comm]
    unfold generateXsLoopI at h ⊢
    split
    · rfl
    · rename_i hi
      rw [if_neg hi] at h
      dsimp only at h ⊢
      split
      · rename_i ha; rw [if_pos ha] at h; exact ih _ _ _ _ h
      · rename_i ha; rw [if_neg ha] at h
        split
        · rfl
        · rename_i hr; rw [if_neg hr] at h; exact ih _ _ _ _ h

/-- the `rejected` exit is taken only at rejection number `maxXsRejections + 1` of some index `i < m` -/
theorem loopI_rejected : ∀ (fuel i cnt : Nat) (acc : List Nat), cnt ≤ maxXsRejections →
    generateXsLoopI H m kb sxb syb nb nInt blocks fuel i cnt acc = .rejected →
    ∃ i', i ≤ i' ∧ i' < m ∧
      isNumberInMultiplicativeGroup nInt (xsCandidate H i' maxXsRejections kb sxb syb nb blocks) = false := by
  intro fuel
  induction fuel with
  | zero => intro i cnt acc _ h; cases h
  | succ fuel ih =>
    intro i cnt acc hc h
    unfold generateXsLoopI at h
    split at h
    · cases h
    · rename_i hi
      dsimp only at h
      split at h
      · obtain ⟨i', h1, h2⟩ := ih _ _ _ hc h
        exact ⟨i', by omega, h2⟩
      · rename_i ha
        split at h
        · rename_i hr
          have : cnt = maxXsRejections := by omega
          subst this
          exact ⟨i, Nat.le_refl _, by omega, by simpa using ha⟩
        · obtain ⟨i', h1, h2⟩ := ih _ _ _ (by omega) h
          exact ⟨i', h1, h2⟩
end loop

theorem generateXsI_toOption (H : HashFn) (m : Nat) (k n : Int) (pub : ECPoint) :
    (generateXsI H m k n pub).toOption = generateXs H m k n pub := by
  unfold generateXsI generateXs
  exact loopI_toOption ..

theorem generateXsI_ne_outOfFuel (H : HashFn) (m : Nat) (k n : Int) (pub : ECPoint) :
    generateXsI H m k n pub ≠ .outOfFuel := by
  unfold generateXsI
  exact loopI_ne_outOfFuel _ _ _ _ _ _ _ _ _ _ _ _ (Nat.zero_le _) (by omega)

/-! ## `Decrypt`, `AliceEnd` -/

theorem decrypt_noPanic (sk : PrivateKey) (c : Int)
    (hk : (modInverse (L (modPow (gamma sk.n) sk.lambdaN (nSquare sk.n)) sk.n) sk.n).isSome = true) :
    NoPanic (decrypt sk c) := by
  unfold decrypt
  dsimp only
  refine NoPanic.ite (fun _ => NoPanic.err _) (fun _ => ?_)
  refine NoPanic.ite (fun _ => NoPanic.err _) (fun _ => ?_)
  obtain ⟨inv, hinv⟩ := Option.isSome_iff_exists.1 hk
  rw [hinv]
  exact NoPanic.ok _

theorem aliceEnd_noPanic_of_decrypt {P : Type} {C : Curve P} (hC : C.Lawful)
    (hcof : C.toAffine C.zero = none → ∀ p, C.smul C.q p = C.zero)
    (H : HashFn) (sess : Bytes) (sk : PrivateKey) (pf : BobProof) (rpA : Mta.RP) (cA cB : Nat)
    (xu : Option (ECPoint × ECPoint)) (hk : ∀ c, NoPanic (decrypt sk c)) :
    NoPanic (Mta.aliceEnd C H cur sess sk pf rpA cA cB xu) := by
  unfold Mta.aliceEnd
  np_bind bobVerify_noPanic hC hcof H sess _ _ _ _ _ _ pf xu
  refine NoPanic.ite (fun _ => NoPanic.err _) (fun _ => ?_)
  np_bind hk _
  exact NoPanic.ok _

theorem aliceEnd_none_noPanic_of_decrypt {P : Type} (C : Curve P)
    (H : HashFn) (sess : Bytes) (sk : PrivateKey) (pf : BobProof) (rpA : Mta.RP) (cA cB : Nat)
    (hk : ∀ c, NoPanic (decrypt sk c)) :
    NoPanic (Mta.aliceEnd C H cur sess sk pf rpA cA cB none) := by
  unfold Mta.aliceEnd
  np_bind bobVerify_none_noPanic C H sess _ _ _ _ _ _ pf
  refine NoPanic.ite (fun _ => NoPanic.err _) (fun _ => ?_)
  np_bind hk _
  exact NoPanic.ok _

/-! ## `BobMid` -/

theorem bobProve_noPanic {P : Type} {C : Curve P} (hC : C.Lawful) (H : HashFn) (sess : Bytes)
    (n ntilde h1 h2 c1 c2 x y r : Nat) (X : Option ECPoint) (k : BobCoins)
    (hcoin : X = none ∨ k.alpha % C.q ≠ 0) :
    NoPanic (bobProve C H sess n ntilde h1 h2 c1 c2 x y r X k) := by
  unfold bobProve
  dsimp only
  cases X with
  | none => exact NoPanic.bind (NoPanic.ok _) (fun _ _ => NoPanic.ok _)
  | some X0 =>
    rcases hcoin with h | h
    · cases h
    · exact NoPanic.bind (NoPanic.bind (ecBaseMult_noPanic hC h) (fun _ _ => NoPanic.ok _))
        (fun _ _ => NoPanic.ok _)

theorem encryptWith_noPanic (n : Nat) (m : Int) (x : Nat) : NoPanic (encryptWith n m x) := by
  unfold encryptWith; exact NoPanic.ite (fun _ => NoPanic.err _) (fun _ => NoPanic.ok _)
theorem homoMult_noPanic (n : Nat) (m c : Int) : NoPanic (homoMult n m c) := by
  unfold homoMult
  exact NoPanic.ite (fun _ => NoPanic.err _) (fun _ => NoPanic.ite (fun _ => NoPanic.err _) (fun _ => NoPanic.ok _))
theorem homoAdd_noPanic (n : Nat) (c1 c2 : Int) : NoPanic (homoAdd n c1 c2) := by
  unfold homoAdd
  exact NoPanic.ite (fun _ => NoPanic.err _) (fun _ => NoPanic.ite (fun _ => NoPanic.err _) (fun _ => NoPanic.ok _))

/-- `BobMid` / `BobMidWC`: Alice's range proof and ciphertext cannot crash Bob; the only crash left is
Bob's OWN coin `alpha ≡ 0 (mod q)` in the with-check variant -/
theorem bobMid_noPanic {P : Type} {C : Curve P} (hC : C.Lawful) (H : HashFn) (sess : Bytes) (nA : Nat)
    (rpf : RangeProof) (b cA : Nat) (rpA rpB : Mta.RP) (B : Option ECPoint) (betaPrm xB : Nat) (k : BobCoins)
    (hcoin : B = none ∨ k.alpha % C.q ≠ 0) :
    NoPanic (Mta.bobMid C H cur sess nA rpf b cA rpA rpB B betaPrm xB k) := by
  unfold Mta.bobMid
  np_bind rangeVerify_noPanic H C.q _ _ _ _ _ rpf
  refine NoPanic.ite (fun _ => NoPanic.err _) (fun _ => ?_)
  np_bind encryptWith_noPanic _ _ _
  np_bind homoMult_noPanic _ _ _
  np_bind homoAdd_noPanic _ _ _
  dsimp only
  np_bind bobProve_noPanic hC H sess _ _ _ _ _ _ _ _ _ B k hcoin
  exact NoPanic.ok _
/-! ## the pre-K10 hang -/

theorem mem_smallPrimes_two_le {p : Nat} (h : p ∈ smallPrimes) : 2 ≤ p := by
  unfold smallPrimes at h
  have := (List.mem_filter.1 h).2
  simp only [Bool.and_eq_true, decide_eq_true_eq] at this
  exact this.1

theorem smallPrimes_any_one : smallPrimes.any (fun prm => (1 : Int) % (prm : Int) == 0) = false := by
  rw [Bool.eq_false_iff]
  intro h
  obtain ⟨p, hp, h0⟩ := List.any_eq_true.1 h
  have h2 := mem_smallPrimes_two_le hp
  have : (1 : Int) % (p : Int) = 1 := Int.emod_eq_of_lt (by omega) (by omega)
  rw [this] at h0
  cases h0

theorem mem_smallPrimes_lt {p : Nat} (h : p ∈ smallPrimes) : p < 1000 := by
  unfold smallPrimes at h
  exact List.mem_range.1 (List.mem_filter.1 h).1

theorem smallPrimes_any_1009 : smallPrimes.any (fun prm => (1009 : Int) % (prm : Int) == 0) = false := by
  rw [Bool.eq_false_iff]
  intro h
  obtain ⟨p, hp, h0⟩ := List.any_eq_true.1 h
  have h2 := mem_smallPrimes_two_le hp
  have h3 := mem_smallPrimes_lt hp
  have hd : p ∣ 1009 := by
    have : (1009 : Int) % (p : Int) = 0 := by simpa using h0
    exact_mod_cast Int.dvd_of_emod_eq_zero this
  have hprime : Nat.Prime 1009 := by norm_num
  rcases (Nat.dvd_prime hprime).1 hd with h | h <;> omega

/-- nothing is a unit modulo `n ≤ 1` … -/
theorem not_inGroup_of_le_one {n : Int} (hn : n ≤ 1) (v : Nat) : isNumberInMultiplicativeGroup n v = false := by
  unfold isNumberInMultiplicativeGroup
  rw [Bool.eq_false_iff]
  intro h
  simp only [Bool.and_eq_true, decide_eq_true_eq] at h
  omega

/-- … so every candidate is rejected and the loop leaves through the rejection bound -/
theorem loop_all_rejected (H : HashFn) (m : Nat) (kb sxb syb nb : Bytes) (nInt : Int) (blocks : Nat)
    (hn : nInt ≤ 1) : ∀ (fuel i cnt : Nat) (acc : List Nat), i < m → cnt ≤ maxXsRejections →
      maxXsRejections - cnt + 1 ≤ fuel →
      generateXsLoop H m kb sxb syb nb nInt blocks fuel i cnt acc = none := by
  intro fuel
  induction fuel with
  | zero => intro i cnt acc _ _ h; omega
  | succ fuel ih =>
    intro i cnt acc hi hc hf
    unfold generateXsLoop
    rw [if_neg (by omega)]
    dsimp only
    rw [not_inGroup_of_le_one hn]
    simp only [Bool.false_eq_true, if_false]
    split
    · rfl
    · exact ih _ _ _ hi (by omega) (by omega)

theorem generateXs_none_of_le_one (H : HashFn) {m : Nat} (hm : 0 < m) (k : Int) {n : Int} (hn : n ≤ 1)
    (pub : ECPoint) : generateXs H m k n pub = none := by
  unfold generateXs
  exact loop_all_rejected H m _ _ _ _ n _ hn _ _ _ _ hm (Nat.zero_le _) (by omega)

theorem proofVerify_one (cfg : ProofCfg) (H : HashFn) (pf : List Int) (k : Int) (pub : ECPoint) :
    proofVerify cfg H pf 1 k pub = if cfg.boundedXs then .err "xs" else .err "hang" := by
  unfold proofVerify
  rw [smallPrimes_any_one, generateXs_none_of_le_one H (by decide) k (Int.le_refl 1) pub]
  rfl

/-! ## a lawful curve with cofactor (shows the cofactor-1 hypothesis is needed) -/

/-- a lawful record WITH cofactor 2 whose identity has no affine form: the cyclic group of order 6 in
exponent representation, base point `2` of prime order `q = 3`; the point `3` has order 2 -/
def zmod6W : Curve (ZMod 6) where
  name := "zmod6W"
  p := 6
  q := 3
  zero := 0
  add := (· + ·)
  neg := fun a => -a
  base := 2
  toAffine := fun a => if a = 0 then none else some (a.val, 0)
  ofAffine := fun x y => if x < 6 ∧ y = 0 ∧ (x : ZMod 6) ≠ 0 then some (x : ZMod 6) else none
  beq := fun a b => decide (a = b)

theorem zmod6W_lawful : zmod6W.Lawful where
  add_assoc := fun a b c => _root_.add_assoc a b c
  add_comm := fun a b => _root_.add_comm a b
  zero_add := fun a => _root_.zero_add a
  neg_add := fun a => neg_add_cancel a
  q_prime := by decide
  smul_q_base := by decide
  base_ne_zero := by decide
  toAffine_inj := by decide
  ofAffine_toAffine := fun x y a hxy => by
    simp only [zmod6W] at hxy ⊢
    split at hxy
    · next hc =>
      obtain ⟨hx, rfl, hne⟩ := hc
      injection hxy with hxy
      subst hxy
      rw [if_neg hne, ZMod.val_natCast, Nat.mod_eq_of_lt hx]
    · exact absurd hxy (by simp)
  toAffine_ofAffine := fun x y a hxy => by
    simp only [zmod6W] at hxy ⊢
    by_cases ha : a = 0
    · simp [ha] at hxy
    · simp only [ha, if_false, Option.some.injEq, Prod.mk.injEq] at hxy
      obtain ⟨rfl, rfl⟩ := hxy
      rw [ZMod.natCast_zmod_val, if_pos ⟨ZMod.val_lt a, rfl, ha⟩]
  toAffine_none := by decide

end TssVerif.C06L
