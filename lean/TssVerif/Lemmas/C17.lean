import TssVerif.Core.Curve
import Mathlib.Data.Nat.ModEq
import Mathlib.Data.ZMod.Basic
import Mathlib.Algebra.Group.Basic
import Mathlib.Tactic.Ring
import Mathlib.Tactic.LinearCombination
/-! Helper lemmas for `TssVerif/Props/C17.lean`. -/
namespace TssVerif.C17L
open TssVerif

/-! ## generic API: decoders -/
section generic
variable {P : Type} (C : Curve P)

theorem ecNew_eq_some_iff {x y : Nat} {p : ECPoint} :
    C.ecNew x y = some p ↔ C.ecIsOnCurve (x, y) = true ∧ p = (x, y) := by
  unfold Curve.ecNew Curve.ecIsOnCurve
  cases h : C.ofAffine x y <;> simp [eq_comm]

theorem ecNew_isSome_iff {x y : Nat} :
    (C.ecNew x y).isSome = true ↔ C.ecIsOnCurve (x, y) = true := by
  unfold Curve.ecNew Curve.ecIsOnCurve
  cases h : C.ofAffine x y <;> simp

theorem ecNew_of_onCurve {x y : Nat} (h : C.ecIsOnCurve (x, y) = true) : C.ecNew x y = some (x, y) :=
  (ecNew_eq_some_iff C).2 ⟨h, rfl⟩

theorem unflatten_eq_some_iff : ∀ (xs : List Nat) (ps : List ECPoint),
    C.unflatten xs = some ps ↔ xs = flatten ps ∧ ∀ p ∈ ps, C.ecIsOnCurve p = true
  | [], ps => by
    cases ps with
    | nil => simp [Curve.unflatten, flatten]
    | cons p ps => simp [Curve.unflatten, flatten]
  | [a], ps => by
    cases ps with
    | nil => simp [Curve.unflatten, flatten]
    | cons p ps => simp [Curve.unflatten, flatten]
  | x :: y :: rest, ps => by
    have ih := unflatten_eq_some_iff rest
    unfold Curve.unflatten
    cases hn : C.ecNew x y with
    | none =>
      have hoc : ¬ C.ecIsOnCurve (x, y) = true := by
        intro h; rw [ecNew_of_onCurve C h] at hn; cases hn
      cases ps with
      | nil => simp [flatten]
      | cons p ps =>
        obtain ⟨p1, p2⟩ := p
        simp only [flatten, List.flatMap_cons, List.cons_append, List.nil_append, List.cons.injEq,
          List.mem_cons, forall_eq_or_imp]
        constructor
        · intro h; cases h
        · rintro ⟨⟨rfl, rfl, _⟩, h, _⟩; exact absurd h hoc
    | some p0 =>
      obtain ⟨hoc, rfl⟩ := (ecNew_eq_some_iff C).1 hn
      cases hr : C.unflatten rest with
      | none =>
        cases ps with
        | nil => simp [flatten]
        | cons p ps =>
          obtain ⟨p1, p2⟩ := p
          simp only [flatten, List.flatMap_cons, List.cons_append, List.nil_append, List.cons.injEq,
            List.mem_cons, forall_eq_or_imp]
          constructor
          · intro h; cases h
          · rintro ⟨⟨rfl, rfl, hrest⟩, _, hps⟩
            have := (ih ps).2 ⟨hrest, hps⟩
            rw [hr] at this; cases this
      | some qs =>
        obtain ⟨hq1, hq2⟩ := (ih qs).1 hr
        cases ps with
        | nil => simp [flatten]
        | cons p ps =>
          obtain ⟨p1, p2⟩ := p
          simp only [flatten, List.flatMap_cons, List.cons_append, List.nil_append, List.cons.injEq,
            List.mem_cons, forall_eq_or_imp, Option.some.injEq, Prod.mk.injEq]
          constructor
          · rintro ⟨⟨rfl, rfl⟩, rfl⟩
            exact ⟨⟨rfl, rfl, hq1⟩, hoc, hq2⟩
          · rintro ⟨⟨rfl, rfl, hrest⟩, _, hps⟩
            have := (ih ps).2 ⟨hrest, hps⟩
            rw [hr] at this
            exact ⟨⟨rfl, rfl⟩, Option.some.inj this⟩

theorem flatten_length (ps : List ECPoint) : (flatten ps).length = 2 * ps.length := by
  induction ps with
  | nil => rfl
  | cons p ps ih => simp [flatten] at ih ⊢; omega

theorem flatten_injective : ∀ {ps qs : List ECPoint}, flatten ps = flatten qs → ps = qs
  | [], [] => fun _ => rfl
  | [], q :: qs => by simp [flatten]
  | p :: ps, [] => by simp [flatten]
  | (p1, p2) :: ps, (q1, q2) :: qs => by
    intro h
    simp only [flatten, List.flatMap_cons, List.cons_append, List.nil_append, List.cons.injEq] at h
    obtain ⟨rfl, rfl, h⟩ := h
    rw [flatten_injective (ps := ps) (qs := qs) h]

end generic

/-! ## secp256k1 -/

theorem secp_onCurve_iff (x y : Nat) : Secp256k1.onCurve x y = true ↔
    x < Secp256k1.p ∧ y < Secp256k1.p ∧ y * y % Secp256k1.p = (x * x % Secp256k1.p * x + 7) % Secp256k1.p := by
  simp [Secp256k1.onCurve, and_assoc]

theorem secp_ecIsOnCurve_iff (x y : Nat) : Secp256k1.curve.ecIsOnCurve (x, y) = true ↔
    x < Secp256k1.p ∧ y < Secp256k1.p ∧ y * y % Secp256k1.p = (x * x % Secp256k1.p * x + 7) % Secp256k1.p := by
  rw [← secp_onCurve_iff]
  simp only [Curve.ecIsOnCurve, Secp256k1.curve]
  split <;> simp_all

theorem secp_eqn_iff_modEq (x y : Nat) :
    y * y % Secp256k1.p = (x * x % Secp256k1.p * x + 7) % Secp256k1.p ↔ y ^ 2 ≡ x ^ 3 + 7 [MOD Secp256k1.p] := by
  have h : x * x % Secp256k1.p * x + 7 ≡ x ^ 3 + 7 [MOD Secp256k1.p] := by
    have : x ^ 3 = x * x * x := by ring
    rw [this]
    exact ((Nat.mod_modEq _ _).mul_right x).add_right 7
  rw [pow_two]
  exact ⟨fun e => Nat.ModEq.trans e h, fun e => Nat.ModEq.trans e h.symm⟩

theorem secp_eqn_iff_zmod (x y : Nat) :
    y * y % Secp256k1.p = (x * x % Secp256k1.p * x + 7) % Secp256k1.p ↔
      ((y : ZMod Secp256k1.p) ^ 2 = (x : ZMod Secp256k1.p) ^ 3 + 7) := by
  rw [secp_eqn_iff_modEq, ← ZMod.natCast_eq_natCast_iff]
  push_cast
  rfl

/-! ## ed25519 -/

theorem ed_onCurve_iff (x y : Nat) : Ed25519.onCurve x y = true ↔
    x < Ed25519.p ∧ y < Ed25519.p ∧
      (y * y + (Ed25519.p - x * x % Ed25519.p)) % Ed25519.p =
        (1 + Ed25519.d * (x * x % Ed25519.p) % Ed25519.p * (y * y % Ed25519.p)) % Ed25519.p := by
  simp [Ed25519.onCurve, and_assoc]

theorem ed_ecIsOnCurve_iff (x y : Nat) : Ed25519.curve.ecIsOnCurve (x, y) = true ↔
    x < Ed25519.p ∧ y < Ed25519.p ∧
      (y * y + (Ed25519.p - x * x % Ed25519.p)) % Ed25519.p =
        (1 + Ed25519.d * (x * x % Ed25519.p) % Ed25519.p * (y * y % Ed25519.p)) % Ed25519.p := by
  rw [← ed_onCurve_iff]
  simp only [Curve.ecIsOnCurve, Ed25519.curve]
  split <;> simp_all

theorem ed_p_pos : 0 < Ed25519.p := by decide

theorem ed_eqn_iff_zmod (x y : Nat) :
    (y * y + (Ed25519.p - x * x % Ed25519.p)) % Ed25519.p =
        (1 + Ed25519.d * (x * x % Ed25519.p) % Ed25519.p * (y * y % Ed25519.p)) % Ed25519.p ↔
      (-(x : ZMod Ed25519.p) ^ 2 + (y : ZMod Ed25519.p) ^ 2
        = 1 + (Ed25519.d : ZMod Ed25519.p) * (x : ZMod Ed25519.p) ^ 2 * (y : ZMod Ed25519.p) ^ 2) := by
  change _ ≡ _ [MOD Ed25519.p] ↔ _
  rw [← ZMod.natCast_eq_natCast_iff]
  have hle : x * x % Ed25519.p ≤ Ed25519.p := (Nat.mod_lt _ ed_p_pos).le
  push_cast [Nat.cast_sub hle, ZMod.natCast_mod, ZMod.natCast_self]
  constructor <;> intro h <;> linear_combination h

/-! ## secp256k1: a point plus its negative -/

theorem sub_sq_mod {p y : Nat} (h : y ≤ p) : (p - y) * (p - y) % p = y * y % p := by
  obtain ⟨a, rfl⟩ := Nat.exists_eq_add_of_le h
  rw [Nat.add_sub_cancel_left]
  change a * a ≡ y * y [MOD y + a]
  have h1 : a * a + a * y ≡ y * y + a * y [MOD y + a] := by
    have e1 : a * a + a * y = (y + a) * a := by ring
    have e2 : y * y + a * y = (y + a) * y := by ring
    rw [e1, e2]
    exact (Nat.modEq_zero_iff_dvd.2 (Dvd.intro _ rfl)).trans (Nat.modEq_zero_iff_dvd.2 (Dvd.intro _ rfl)).symm
  exact Nat.ModEq.add_right_cancel' _ h1

theorem neg_mod_sq {p y : Nat} (h : y < p) : ((p - y) % p) * ((p - y) % p) % p = y * y % p := by
  rw [← Nat.mul_mod, sub_sq_mod h.le]

theorem secp_neg_onCurve {x y : Nat} (h : Secp256k1.onCurve x y = true) :
    Secp256k1.onCurve x ((Secp256k1.p - y) % Secp256k1.p) = true := by
  rw [secp_onCurve_iff] at h ⊢
  obtain ⟨hx, hy, he⟩ := h
  refine ⟨hx, Nat.mod_lt _ (by omega), ?_⟩
  rw [neg_mod_sq hy, he]

theorem secp_p_odd : Secp256k1.p % 2 = 1 := by decide

theorem secp_add_neg {x y : Nat} (hy : y < Secp256k1.p) :
    Secp256k1.add (some (x, y)) (some (x, (Secp256k1.p - y) % Secp256k1.p)) = none := by
  unfold Secp256k1.add
  simp only [if_true]
  by_cases h0 : y = 0
  · subst h0
    simp [Secp256k1.double]
  · have hne : y ≠ (Secp256k1.p - y) % Secp256k1.p := by
      have := secp_p_odd
      rw [Nat.mod_eq_of_lt (by omega)]
      omega
    simp [hne]

theorem secp_ecAdd_neg {x y : Nat} (h : Secp256k1.curve.ecIsOnCurve (x, y) = true) :
    Secp256k1.curve.ecAdd (x, y) (x, (Secp256k1.p - y) % Secp256k1.p) = .err "not-on-curve" := by
  have h1 : Secp256k1.onCurve x y = true := by
    rw [secp_onCurve_iff, ← secp_ecIsOnCurve_iff]; exact h
  have h2 := secp_neg_onCurve h1
  have hy : y < Secp256k1.p := ((secp_onCurve_iff x y).1 h1).2.1
  simp only [Curve.ecAdd, Curve.lift, Secp256k1.curve, h1, h2, if_true, id, secp_add_neg hy]

/-! ## cofactor clearing in an abstract commutative group -/
section cofactor
variable {G : Type*} [AddCommMonoid G]

/-- (i) the image of `x ↦ (8e)•x` on the `8q`-torsion is killed by `q` -/
theorem cofactor_image_order (q e : Nat) (x : G) (hx : (8 * q) • x = 0) : q • ((8 * e) • x) = 0 := by
  rw [← mul_nsmul]
  have : 8 * e * q = (8 * q) * e := by ring
  rw [this, mul_nsmul, hx, nsmul_zero]

/-- (ii) `q`-torsion points are fixed -/
theorem cofactor_fix (q e : Nat) (he : 8 * e ≡ 1 [MOD q]) (x : G) (hx : q • x = 0) : (8 * e) • x = x := by
  have h1 : 1 ≤ 8 * e ∨ q = 1 := by
    by_cases h : 1 ≤ 8 * e
    · exact Or.inl h
    · right
      have h0 : 8 * e = 0 := by omega
      rw [h0] at he
      have := (Nat.modEq_zero_iff_dvd.1 he.symm)
      exact Nat.dvd_one.1 this
  rcases h1 with h1 | rfl
  · obtain ⟨m, hm⟩ := (Nat.modEq_iff_dvd' h1).1 he.symm
    have : 8 * e = 1 + q * m := by omega
    rw [this, add_nsmul, one_nsmul, mul_nsmul, hx, nsmul_zero, add_zero]
  · rw [one_nsmul] at hx; rw [hx, nsmul_zero]

/-- (iii) adding an 8-torsion point does not change the image -/
theorem cofactor_kill_torsion (e : Nat) (x t : G) (ht : 8 • t = 0) : (8 * e) • (x + t) = (8 * e) • x := by
  rw [nsmul_add, mul_nsmul t, ht, nsmul_zero, add_zero]

end cofactor

/-! ## generic API: outcomes -/
section outcomes
variable {P : Type} (C : Curve P)

theorem ecAdd_cases (a b : ECPoint) :
    (∃ pa pb r, C.lift a = some pa ∧ C.lift b = some pb ∧ C.toAffine (C.add pa pb) = some r ∧ C.ecAdd a b = .ok r) ∨
    (∃ pa pb, C.lift a = some pa ∧ C.lift b = some pb ∧ C.toAffine (C.add pa pb) = none ∧ C.ecAdd a b = .err "not-on-curve") ∨
    ((C.lift a = none ∨ C.lift b = none) ∧ C.ecAdd a b = .err "operand-not-on-curve") := by
  unfold Curve.ecAdd
  cases ha : C.lift a with
  | none => simp
  | some pa =>
    cases hb : C.lift b with
    | none => simp
    | some pb =>
      cases hr : C.toAffine (C.add pa pb) with
      | none => simp [hr]
      | some r => simp [hr]

theorem ecScalarMult_cases (a : ECPoint) (k : Int) :
    (∃ pa r, C.lift a = some pa ∧ C.toAffine (C.smul k.natAbs pa) = some r ∧ C.ecScalarMult a k = .ok r) ∨
    (∃ pa, C.lift a = some pa ∧ C.toAffine (C.smul k.natAbs pa) = none ∧ C.ecScalarMult a k = .panic "scalar-mult-identity") ∨
    (C.lift a = none ∧ C.ecScalarMult a k = .err "operand-not-on-curve") := by
  unfold Curve.ecScalarMult
  cases ha : C.lift a with
  | none => simp
  | some pa =>
    cases hr : C.toAffine (C.smul k.natAbs pa) with
    | none => simp [hr]
    | some r => simp [hr]

theorem ecBaseMult_cases (k : Int) :
    (∃ r, C.toAffine (C.smul k.natAbs C.base) = some r ∧ C.ecBaseMult k = .ok r) ∨
    (C.toAffine (C.smul k.natAbs C.base) = none ∧ C.ecBaseMult k = .panic "scalar-base-mult-identity") := by
  unfold Curve.ecBaseMult
  cases hr : C.toAffine (C.smul k.natAbs C.base) with
  | none => simp
  | some r => simp

theorem ecBaseMult_of_none (k : Int) (h : C.toAffine (C.smul k.natAbs C.base) = none) :
    C.ecBaseMult k = .panic "scalar-base-mult-identity" := by
  unfold Curve.ecBaseMult; rw [h]

theorem ecBaseMult_of_some (k : Int) (r : ECPoint) (h : C.toAffine (C.smul k.natAbs C.base) = some r) :
    C.ecBaseMult k = .ok r := by
  unfold Curve.ecBaseMult; rw [h]

theorem ecScalarMult_of_none (a : ECPoint) (k : Int) (pa : P) (ha : C.lift a = some pa)
    (h : C.toAffine (C.smul k.natAbs pa) = none) : C.ecScalarMult a k = .panic "scalar-mult-identity" := by
  unfold Curve.ecScalarMult; rw [ha]; dsimp only; rw [h]

theorem lift_isSome (a : ECPoint) : (C.lift a).isSome = C.ecIsOnCurve a := rfl

theorem ecAdd_total (a b : ECPoint) : (C.ecAdd a b).isPanic = false := by
  rcases ecAdd_cases C a b with ⟨_, _, _, _, _, _, h⟩ | ⟨_, _, _, _, _, h⟩ | ⟨_, h⟩ <;> rw [h] <;> rfl

theorem ecAdd_ok_iff (a b r : ECPoint) : C.ecAdd a b = .ok r ↔
    ∃ pa pb, C.lift a = some pa ∧ C.lift b = some pb ∧ C.toAffine (C.add pa pb) = some r := by
  rcases ecAdd_cases C a b with ⟨pa, pb, r', ha, hb, hr, h⟩ | ⟨pa, pb, ha, hb, hr, h⟩ | ⟨hab, h⟩
  · rw [h]
    constructor
    · intro e; cases e; exact ⟨pa, pb, ha, hb, hr⟩
    · rintro ⟨pa', pb', ha', hb', hr'⟩
      rw [ha] at ha'; rw [hb] at hb'; cases ha'; cases hb'; rw [hr] at hr'; cases hr'; rfl
  · rw [h]
    constructor
    · intro e; cases e
    · rintro ⟨pa', pb', ha', hb', hr'⟩
      rw [ha] at ha'; rw [hb] at hb'; cases ha'; cases hb'; rw [hr] at hr'; cases hr'
  · rw [h]
    constructor
    · intro e; cases e
    · rintro ⟨pa', pb', ha', hb', _⟩
      rcases hab with h0 | h0
      · rw [h0] at ha'; cases ha'
      · rw [h0] at hb'; cases hb'

theorem ecAdd_err_iff (a b : ECPoint) (t : String) : C.ecAdd a b = .err t ↔
    ((C.ecIsOnCurve a = false ∨ C.ecIsOnCurve b = false) ∧ t = "operand-not-on-curve") ∨
    (∃ pa pb, C.lift a = some pa ∧ C.lift b = some pb ∧ C.toAffine (C.add pa pb) = none ∧
      t = "not-on-curve") := by
  have hl : ∀ c : ECPoint, C.ecIsOnCurve c = (C.lift c).isSome := fun _ => rfl
  rcases ecAdd_cases C a b with ⟨pa, pb, r', ha, hb, hr, h⟩ | ⟨pa, pb, ha, hb, hr, h⟩ | ⟨hab, h⟩
  · rw [h, hl, hl, ha, hb]
    constructor
    · intro e; cases e
    · rintro (⟨h0 | h0, _⟩ | ⟨pa', pb', ha', hb', hr', _⟩)
      · cases h0
      · cases h0
      · cases ha'; cases hb'; rw [hr] at hr'; cases hr'
  · rw [h, hl, hl, ha, hb]
    constructor
    · intro e; cases e; exact Or.inr ⟨pa, pb, rfl, rfl, hr, rfl⟩
    · rintro (⟨h0 | h0, _⟩ | ⟨_, _, _, _, _, rfl⟩)
      · cases h0
      · cases h0
      · rfl
  · rw [h, hl, hl]
    constructor
    · intro e; cases e
      refine Or.inl ⟨?_, rfl⟩
      rcases hab with h0 | h0 <;> rw [h0] <;> simp
    · rintro (⟨_, rfl⟩ | ⟨pa', pb', ha', hb', _⟩)
      · rfl
      · rcases hab with h0 | h0
        · rw [h0] at ha'; cases ha'
        · rw [h0] at hb'; cases hb'

theorem ecScalarMult_outcomes (a : ECPoint) (k : Int) :
    (∀ t, C.ecScalarMult a k = .panic t ↔
      (∃ pa, C.lift a = some pa ∧ C.toAffine (C.smul k.natAbs pa) = none) ∧ t = "scalar-mult-identity") ∧
    (∀ t, C.ecScalarMult a k = .err t ↔ C.ecIsOnCurve a = false ∧ t = "operand-not-on-curve") ∧
    (∀ r, C.ecScalarMult a k = .ok r ↔
      ∃ pa, C.lift a = some pa ∧ C.toAffine (C.smul k.natAbs pa) = some r) := by
  have hl : C.ecIsOnCurve a = (C.lift a).isSome := rfl
  rcases ecScalarMult_cases C a k with ⟨pa, r, ha, hr, h⟩ | ⟨pa, ha, hr, h⟩ | ⟨ha, h⟩
  · rw [h, hl, ha]
    refine ⟨fun t => ⟨nofun, ?_⟩, fun t => ⟨nofun, ?_⟩, fun r' => ⟨?_, ?_⟩⟩
    · rintro ⟨⟨pa', ha', hr'⟩, _⟩; cases ha'; rw [hr] at hr'; cases hr'
    · rintro ⟨h0, _⟩; cases h0
    · intro e; cases e; exact ⟨pa, rfl, hr⟩
    · rintro ⟨pa', ha', hr'⟩; cases ha'; rw [hr] at hr'; cases hr'; rfl
  · rw [h, hl, ha]
    refine ⟨fun t => ⟨?_, ?_⟩, fun t => ⟨nofun, ?_⟩, fun r' => ⟨nofun, ?_⟩⟩
    · intro e; cases e; exact ⟨⟨pa, rfl, hr⟩, rfl⟩
    · rintro ⟨_, rfl⟩; rfl
    · rintro ⟨h0, _⟩; cases h0
    · rintro ⟨pa', ha', hr'⟩; cases ha'; rw [hr] at hr'; cases hr'
  · rw [h, hl, ha]
    refine ⟨fun t => ⟨nofun, ?_⟩, fun t => ⟨?_, ?_⟩, fun r' => ⟨nofun, ?_⟩⟩
    · rintro ⟨⟨pa', ha', _⟩, _⟩; cases ha'
    · intro e; cases e; exact ⟨rfl, rfl⟩
    · rintro ⟨_, rfl⟩; rfl
    · rintro ⟨pa', ha', _⟩; cases ha'

theorem ecBaseMult_outcomes (k : Int) :
    (∀ t, C.ecBaseMult k = .panic t ↔
      C.toAffine (C.smul k.natAbs C.base) = none ∧ t = "scalar-base-mult-identity") ∧
    (∀ t, C.ecBaseMult k ≠ .err t) ∧
    (∀ r, C.ecBaseMult k = .ok r ↔ C.toAffine (C.smul k.natAbs C.base) = some r) := by
  rcases ecBaseMult_cases C k with ⟨r, hr, h⟩ | ⟨hr, h⟩
  · rw [h, hr]
    refine ⟨fun t => ⟨nofun, ?_⟩, fun t => nofun, fun r' => ⟨?_, ?_⟩⟩
    · rintro ⟨h0, _⟩; cases h0
    · intro e; cases e; rfl
    · intro e; cases e; rfl
  · rw [h, hr]
    refine ⟨fun t => ⟨?_, ?_⟩, fun t => nofun, fun r' => ⟨nofun, nofun⟩⟩
    · intro e; cases e; exact ⟨rfl, rfl⟩
    · rintro ⟨_, rfl⟩; rfl

end outcomes

/-! ## outcomes on the two executable curves -/

theorem ed_never_panics (a : ECPoint) (k : Int) :
    (Ed25519.curve.ecScalarMult a k).isPanic = false ∧ (Ed25519.curve.ecBaseMult k).isPanic = false ∧
    (Ed25519.eightInvEight a).isPanic = false := by
  have h1 : ∀ a k, (Ed25519.curve.ecScalarMult a k).isPanic = false := by
    intro a k
    rcases ecScalarMult_cases Ed25519.curve a k with ⟨_, _, _, _, h⟩ | ⟨_, _, hr, _⟩ | ⟨_, h⟩
    · rw [h]; rfl
    · cases hr
    · rw [h]; rfl
  refine ⟨h1 a k, rfl, ?_⟩
  unfold Ed25519.eightInvEight
  cases h : Ed25519.curve.ecScalarMult a 8 with
  | ok e => exact h1 e _
  | err t => rfl
  | panic t => have := h1 a 8; rw [h] at this; cases this

theorem secp_scalarMult_panic_iff (x y : Nat) (k : Int) (t : String) :
    Secp256k1.curve.ecScalarMult (x, y) k = .panic t ↔
      (x < Secp256k1.p ∧ y < Secp256k1.p ∧
        y * y % Secp256k1.p = (x * x % Secp256k1.p * x + 7) % Secp256k1.p) ∧ Secp256k1.curve.smul k.natAbs (some (x, y)) = none ∧ t = "scalar-mult-identity" := by
  rw [(ecScalarMult_outcomes Secp256k1.curve (x, y) k).1 t, ← secp_ecIsOnCurve_iff]
  by_cases h : Secp256k1.onCurve x y = true
  · have hl : Secp256k1.curve.lift (x, y) = some (some (x, y)) := by
      simp [Curve.lift, Secp256k1.curve, h]
    have ho : Secp256k1.curve.ecIsOnCurve (x, y) = true := by
      simp [Curve.ecIsOnCurve, Secp256k1.curve, h]
    rw [hl, ho]
    constructor
    · rintro ⟨⟨pa, hpa, hr⟩, ht⟩; cases hpa; exact ⟨rfl, hr, ht⟩
    · rintro ⟨_, hr, ht⟩; exact ⟨⟨_, rfl, hr⟩, ht⟩
  · have hl : Secp256k1.curve.lift (x, y) = none := by
      simp [Curve.lift, Secp256k1.curve, h]
    have ho : Secp256k1.curve.ecIsOnCurve (x, y) = false := by
      simp [Curve.ecIsOnCurve, Secp256k1.curve, h]
    rw [hl, ho]
    constructor
    · rintro ⟨⟨pa, hpa, _⟩, _⟩; cases hpa
    · rintro ⟨h0, _⟩; cases h0

end TssVerif.C17L
