import TssVerif.Lemmas.Engine2Hist
/-! The closed two-committee system: `nOld` old-role and `nNew` new-role parties over the two tables of a
resharing protocol, a network that delivers only what has been emitted. Safety: an old member starts its final
round (erasing its share) and a new member starts its final round (saving key material) only after every new
member has emitted its final acknowledgement. -/
set_option autoImplicit false
namespace TssVerif.E2L
open TssVerif.Engine (Slot)
open TssVerif.Engine2

/-! ## 16. the system -/

/-- state of the closed system; `logOld i` / `logNew i` are ghost fields: what has been delivered so far to old
member `i` / new member `i` -/
structure Sys2 where
  old : Nat → Party
  new : Nat → Party
  logOld : Nat → List Msg
  logNew : Nat → List Msg

def upd {α : Type} (f : Nat → α) (i : Nat) (a : α) : Nat → α := fun k => if k = i then a else f k

theorem upd_same {α : Type} (f : Nat → α) (i : Nat) (a : α) : upd f i a i = a := by simp [upd]
theorem upd_other {α : Type} (f : Nat → α) (i k : Nat) (a : α) (h : k ≠ i) : upd f i a k = f k := by simp [upd, h]

/-- the party with index `j` in the new (`c = true`) or old (`c = false`) committee -/
def Sys2.party (s : Sys2) (c : Bool) (j : Nat) : Party := if c then s.new j else s.old j

def Sys2.log (s : Sys2) (c : Bool) (j : Nat) : List Msg := if c then s.logNew j else s.logOld j

def csize (nOld nNew : Nat) (c : Bool) : Nat := if c then nNew else nOld

/-- the flag a genuine message of type `ty` carries: broadcast iff the type is emitted `once` -/
def flagOf2 (P : Proto) (ty : Nat) : Bool :=
  match ((P.old ++ P.new).flatMap (·.emits)).find? (fun e => e.1 == ty) with
  | some e => (match e.2 with | .once => true | _ => false)
  | none => true

/-- a genuine message: type `ty`, sender index `j`, the flag the tables prescribe, any payload -/
def mkMsg (P : Proto) (ty j payload : Nat) : Msg := ⟨ty, j, ⟨flagOf2 P ty, payload⟩⟩

def initSys (nOld nNew : Nat) : Sys2 :=
  { old := fun i => fresh nOld nNew false i, new := fun i => fresh nOld nNew true i,
    logOld := fun _ => [], logNew := fun _ => [] }

/-- states reachable in the closed system. Any member of either committee may be started at any time; the network
may deliver to any member `i` of either committee a message of any type `ty` that the member with index `j` of
committee `c` has emitted (`ty` is in its emission log), with the flag the tables prescribe — at any time (before
the recipient's `Start`, rounds early), any number of times, in any order.
`strict = true`: `Start` runs the advance loop whenever a message was stored before (`pre`, as the library does);
`strict = false`: `pre` is arbitrary. -/
inductive Reach2 (P : Proto) (nOld nNew : Nat) (strict : Bool) : Sys2 → Prop
  | init : Reach2 P nOld nNew strict (initSys nOld nNew)
  | startOld (s : Sys2) (i : Nat) (pre : Bool) : Reach2 P nOld nNew strict s → i < nOld →
      (strict = true → s.logOld i ≠ [] → pre = true) →
      Reach2 P nOld nNew strict { s with old := upd s.old i (start P.old pre (s.old i)) }
  | startNew (s : Sys2) (i : Nat) (pre : Bool) : Reach2 P nOld nNew strict s → i < nNew →
      (strict = true → s.logNew i ≠ [] → pre = true) →
      Reach2 P nOld nNew strict { s with new := upd s.new i (start P.new pre (s.new i)) }
  | deliverOld (s : Sys2) (i : Nat) (c : Bool) (j ty payload : Nat) : Reach2 P nOld nNew strict s → i < nOld →
      j < csize nOld nNew c → ty ∈ (s.party c j).out →
      Reach2 P nOld nNew strict { s with
        old := upd s.old i (deliver P.old (mkMsg P ty j payload) (s.old i))
        logOld := upd s.logOld i (s.logOld i ++ [mkMsg P ty j payload]) }
  | deliverNew (s : Sys2) (i : Nat) (c : Bool) (j ty payload : Nat) : Reach2 P nOld nNew strict s → i < nNew →
      j < csize nOld nNew c → ty ∈ (s.party c j).out →
      Reach2 P nOld nNew strict { s with
        new := upd s.new i (deliver P.new (mkMsg P ty j payload) (s.new i))
        logNew := upd s.logNew i (s.logNew i ++ [mkMsg P ty j payload]) }

/-! ## 17. emission logs only grow -/

def OutSub (p q : Party) : Prop := ∀ ty, ty ∈ p.out → ty ∈ q.out

theorem outSub_moves (tbl : List RSpec) (p0 : Party) : Moves tbl (OutSub p0) where
  scan := by
    intro p r h _ _ _ ty hty
    rw [scan_out]; exact h ty hty
  adv := fun _ _ _ h _ _ _ _ _ _ hty => List.mem_append_left _ (h _ hty)
  fin := fun _ h _ _ _ => h

theorem outSub_deliver (tbl : List RSpec) (m : Msg) (p : Party) : OutSub p (deliver tbl m p) :=
  (outSub_moves tbl p).deliver m (fun _ h => h)

theorem outSub_start (tbl : List RSpec) (pre : Bool) (p : Party) : OutSub p (start tbl pre p) :=
  (outSub_moves tbl p).start pre (fun _ h => h) (fun _ _ _ _ hty => List.mem_append_left _ hty)

/-! ## 18. the system invariant -/

/-- `m` is a genuine message: some member of some committee has emitted its type, and the flag is the prescribed one -/
def Emitted (P : Proto) (nOld nNew : Nat) (s : Sys2) (m : Msg) : Prop :=
  ∃ c, m.frm < csize nOld nNew c ∧ m.ty ∈ (s.party c m.frm).out ∧ m.slot.flag = flagOf2 P m.ty

/-- invariant of one member -/
structure PInv (P : Proto) (nOld nNew : Nat) (s : Sys2) (c : Bool) (i : Nat) : Prop where
  cfgSelf : (s.party c i).self = i
  cfgOld : (s.party c i).nOld = nOld
  cfgNew : (s.party c i).nNew = nNew
  canon : Canon (tblOf P c) (s.party c i)
  hist : Hist (tblOf P c) (s.log c i) (s.party c i)
  emitted : ∀ m ∈ s.log c i, Emitted P nOld nNew s m

def SysInv (P : Proto) (nOld nNew : Nat) (s : Sys2) : Prop := ∀ c i, PInv P nOld nNew s c i

theorem Emitted.mono {P : Proto} {nOld nNew : Nat} {s s' : Sys2} {m : Msg}
    (hsub : ∀ c j, OutSub (s.party c j) (s'.party c j)) (h : Emitted P nOld nNew s m) : Emitted P nOld nNew s' m := by
  obtain ⟨c, h1, h2, h3⟩ := h
  exact ⟨c, h1, hsub c m.frm _ h2, h3⟩

theorem outSub_refl (p : Party) : OutSub p p := fun _ h => h

/-- one transition: member `(c, i)` moves to `q'` and its log to `l'` -/
theorem pinv_transition {P : Proto} {nOld nNew : Nat} {s s' : Sys2} (c : Bool) (i : Nat) (q' : Party) (l' : List Msg)
    (hinv : SysInv P nOld nNew s)
    (hother : ∀ c' k, ¬ (c' = c ∧ k = i) → s'.party c' k = s.party c' k ∧ s'.log c' k = s.log c' k)
    (hq : s'.party c i = q') (hl : s'.log c i = l')
    (hcfg : SameCfg (s.party c i) q')
    (hout : OutSub (s.party c i) q')
    (hcanon : Canon (tblOf P c) q')
    (hhist : Hist (tblOf P c) l' q')
    (hlog : ∀ m ∈ l', m ∈ s.log c i ∨ Emitted P nOld nNew s m) : SysInv P nOld nNew s' := by
  have hsub : ∀ c' j, OutSub (s.party c' j) (s'.party c' j) := by
    intro c' j
    by_cases hc : c' = c ∧ j = i
    · rw [hc.1, hc.2, hq]; exact hout
    · rw [(hother c' j hc).1]; exact outSub_refl _
  intro c' k
  by_cases hc : c' = c ∧ k = i
  · obtain ⟨rfl, rfl⟩ := hc
    have h := hinv c' k
    refine ⟨?_, ?_, ?_, ?_, ?_, ?_⟩
    · rw [hq, hcfg.2.2.2]; exact h.cfgSelf
    · rw [hq, hcfg.1]; exact h.cfgOld
    · rw [hq, hcfg.2.1]; exact h.cfgNew
    · rw [hq]; exact hcanon
    · rw [hq, hl]; exact hhist
    · intro m hm
      rw [hl] at hm
      rcases hlog m hm with h1 | h1
      · exact (h.emitted m h1).mono hsub
      · exact h1.mono hsub
  · have h := hinv c' k
    obtain ⟨e1, e2⟩ := hother c' k hc
    refine ⟨?_, ?_, ?_, ?_, ?_, ?_⟩
    · rw [e1]; exact h.cfgSelf
    · rw [e1]; exact h.cfgOld
    · rw [e1]; exact h.cfgNew
    · rw [e1]; exact h.canon
    · rw [e1, e2]; exact h.hist
    · intro m hm
      rw [e2] at hm
      exact (h.emitted m hm).mono hsub

theorem sysInv_init (P : Proto) (nOld nNew : Nat) : SysInv P nOld nNew (initSys nOld nNew) := by
  intro c i
  cases c
  · exact ⟨rfl, rfl, rfl, canon_fresh _ _ _ _ _, hist_fresh _ _ _ _ _, fun _ h => by cases h⟩
  · exact ⟨rfl, rfl, rfl, canon_fresh _ _ _ _ _, hist_fresh _ _ _ _ _, fun _ h => by cases h⟩

theorem party_old_same (s : Sys2) (i : Nat) (q : Party) (l : List Msg) :
    ({ s with old := upd s.old i q, logOld := upd s.logOld i l } : Sys2).party false i = q := by
  simp [Sys2.party, upd]
theorem log_old_same (s : Sys2) (i : Nat) (q : Party) (l : List Msg) :
    ({ s with old := upd s.old i q, logOld := upd s.logOld i l } : Sys2).log false i = l := by
  simp [Sys2.log, upd]
theorem party_new_same (s : Sys2) (i : Nat) (q : Party) (l : List Msg) :
    ({ s with new := upd s.new i q, logNew := upd s.logNew i l } : Sys2).party true i = q := by
  simp [Sys2.party, upd]
theorem log_new_same (s : Sys2) (i : Nat) (q : Party) (l : List Msg) :
    ({ s with new := upd s.new i q, logNew := upd s.logNew i l } : Sys2).log true i = l := by
  simp [Sys2.log, upd]

theorem other_old (s : Sys2) (i : Nat) (q : Party) (l : List Msg) (c' : Bool) (k : Nat)
    (h : ¬ (c' = false ∧ k = i)) :
    ({ s with old := upd s.old i q, logOld := upd s.logOld i l } : Sys2).party c' k = s.party c' k ∧
    ({ s with old := upd s.old i q, logOld := upd s.logOld i l } : Sys2).log c' k = s.log c' k := by
  cases c'
  · have hk : k ≠ i := fun e => h ⟨rfl, e⟩
    simp [upd, hk, Sys2.party, Sys2.log]
  · simp [Sys2.party, Sys2.log]

theorem other_new (s : Sys2) (i : Nat) (q : Party) (l : List Msg) (c' : Bool) (k : Nat)
    (h : ¬ (c' = true ∧ k = i)) :
    ({ s with new := upd s.new i q, logNew := upd s.logNew i l } : Sys2).party c' k = s.party c' k ∧
    ({ s with new := upd s.new i q, logNew := upd s.logNew i l } : Sys2).log c' k = s.log c' k := by
  cases c'
  · simp [Sys2.party, Sys2.log]
  · have hk : k ≠ i := fun e => h ⟨rfl, e⟩
    simp [upd, hk, Sys2.party, Sys2.log]

theorem upd_self_eq {α : Type} (f : Nat → α) (i : Nat) : upd f i (f i) = f := by
  funext k
  by_cases h : k = i
  · rw [h, upd_same]
  · rw [upd_other _ _ _ _ h]

/-- **the invariant holds in every reachable state** -/
theorem reach2_inv {P : Proto} {nOld nNew : Nat} {strict : Bool} {s : Sys2} (h : Reach2 P nOld nNew strict s) :
    SysInv P nOld nNew s := by
  induction h with
  | init => exact sysInv_init P nOld nNew
  | startOld s i pre _ _ _ ih =>
    have e : ({ s with old := upd s.old i (start P.old pre (s.old i)) } : Sys2) =
        { s with old := upd s.old i (start P.old pre (s.old i)), logOld := upd s.logOld i (s.logOld i) } := by
      rw [upd_self_eq]
    rw [e]
    have h := ih false i
    exact pinv_transition false i _ _ ih (other_old s i _ _) (party_old_same _ _ _ _) (log_old_same _ _ _ _)
      (sameCfg_start _ _ _) (outSub_start _ _ _) (canon_start pre h.canon) (hist_start pre h.hist)
      (fun m hm => Or.inl hm)
  | startNew s i pre _ _ _ ih =>
    have e : ({ s with new := upd s.new i (start P.new pre (s.new i)) } : Sys2) =
        { s with new := upd s.new i (start P.new pre (s.new i)), logNew := upd s.logNew i (s.logNew i) } := by
      rw [upd_self_eq]
    rw [e]
    have h := ih true i
    exact pinv_transition true i _ _ ih (other_new s i _ _) (party_new_same _ _ _ _) (log_new_same _ _ _ _)
      (sameCfg_start _ _ _) (outSub_start _ _ _) (canon_start pre h.canon) (hist_start pre h.hist)
      (fun m hm => Or.inl hm)
  | deliverOld s i c j ty payload _ _ hj hty ih =>
    have h := ih false i
    refine pinv_transition false i _ _ ih (other_old s i _ _) (party_old_same _ _ _ _) (log_old_same _ _ _ _)
      (sameCfg_deliver _ _ _) (outSub_deliver _ _ _) (canon_deliver _ h.canon) (hist_deliver _ h.hist) ?_
    intro m hm
    rcases List.mem_append.mp hm with hm | hm
    · exact Or.inl hm
    · simp only [List.mem_singleton] at hm
      subst hm
      exact Or.inr ⟨c, hj, hty, rfl⟩
  | deliverNew s i c j ty payload _ _ hj hty ih =>
    have h := ih true i
    refine pinv_transition true i _ _ ih (other_new s i _ _) (party_new_same _ _ _ _) (log_new_same _ _ _ _)
      (sameCfg_deliver _ _ _) (outSub_deliver _ _ _) (canon_deliver _ h.canon) (hist_deliver _ h.hist) ?_
    intro m hm
    rcases List.mem_append.mp hm with hm | hm
    · exact Or.inl hm
    · simp only [List.mem_singleton] at hm
      subst hm
      exact Or.inr ⟨c, hj, hty, rfl⟩

/-! ## 19. safety of the hand-over -/

/-- whoever has had the final acknowledgement of new index `j` delivered: new member `j` has emitted it -/
theorem ack_delivered_was_emitted {P : Proto} (F : AckFacts P) {nOld nNew : Nat} {s : Sys2}
    (hinv : SysInv P nOld nNew s) {c : Bool} {i j : Nat} (hd : Deliv (s.log c i) (finalAck P) j true) :
    j < nNew ∧ finalAck P ∈ (s.new j).out := by
  obtain ⟨m, hm, h1, h2, _⟩ := hd
  obtain ⟨c', hlt, hout, _⟩ := (hinv c i).emitted m hm
  rw [h1, h2] at hout
  rw [h2] at hlt
  cases c'
  · exact absurd hout (ack_not_in_out_old F (hinv false j).canon)
  · exact ⟨hlt, hout⟩

theorem erase_after_all_acks_inv {P : Proto} (F : AckFacts P) {nOld nNew : Nat} {s : Sys2}
    (hinv : SysInv P nOld nNew s) {i : Nat} (he : (s.old i).ended = 1) :
    ∀ j, j < nNew → finalAck P ∈ (s.new j).out := by
  intro j hj
  have h := hinv false i
  have := old_final_acks F h.canon h.hist he j (by rw [h.cfgNew]; exact hj)
  exact (ack_delivered_was_emitted F hinv this).2

theorem save_after_all_acks_inv {P : Proto} (F : AckFacts P) {nOld nNew : Nat} {s : Sys2}
    (hinv : SysInv P nOld nNew s) {i : Nat} (he : (s.new i).ended = 1) :
    ∀ j, j < nNew → finalAck P ∈ (s.new j).out := by
  intro j hj
  have h := hinv true i
  by_cases hji : j = i
  · subst hji
    have h5 := (ended_iff_rnd_new F h.canon).mp he
    exact (ack_in_out_iff F h.canon).mpr (by have : (s.party true j).rnd = 5 := h5; omega)
  · have := new_final_acks F h.canon h.hist he j (by rw [h.cfgNew]; exact hj) (by rw [h.cfgSelf]; exact hji)
    exact (ack_delivered_was_emitted F hinv this).2

/-- a new member emits its final acknowledgement only after the share and the de-commitment of every old member
have been delivered to it — and those were emitted by the old members -/
theorem ack_after_shares_inv {P : Proto} (F : AckFacts P) {nOld nNew : Nat} {s : Sys2}
    (hinv : SysInv P nOld nNew s) {i : Nat} (hack : finalAck P ∈ (s.new i).out) :
    4 ≤ (s.new i).rnd ∧ ∀ j, j < nOld →
      Deliv (s.logNew i) (shareTy P) j false ∧ Deliv (s.logNew i) (decomTy P) j true ∧
      shareTy P ∈ (s.old j).out ∧ decomTy P ∈ (s.old j).out := by
  have h := hinv true i
  have h4 : 4 ≤ (s.new i).rnd := (ack_in_out_iff F h.canon).mp hack
  refine ⟨h4, ?_⟩
  intro j hj
  obtain ⟨d1, d2⟩ := new_round4_shares F h.hist h4 j (by rw [h.cfgOld]; exact hj)
  have hem : ∀ {ty : Nat} {fl : Bool}, (ty = shareTy P ∨ ty = decomTy P) → Deliv (s.logNew i) ty j fl →
      ty ∈ (s.old j).out := by
    intro ty fl hty hd
    obtain ⟨m, hm, h1, h2, _⟩ := hd
    obtain ⟨c', _, hout, _⟩ := h.emitted m hm
    rw [h1, h2] at hout
    cases c'
    · exact hout
    · have := share_not_in_out_new F (hinv true j).canon
      rcases hty with rfl | rfl
      · exact absurd hout this.1
      · exact absurd hout this.2
  exact ⟨d1, d2, hem (Or.inl rfl) d1, hem (Or.inr rfl) d2⟩

/-! ## 20. executable schedules (to exhibit reachable states) -/

inductive Act where
  | startOld (i : Nat) (pre : Bool)
  | startNew (i : Nat) (pre : Bool)
  /-- deliver to old member `i` the message of type `ty` of member `j` of committee `c` -/
  | toOld (i : Nat) (c : Bool) (j ty payload : Nat)
  | toNew (i : Nat) (c : Bool) (j ty payload : Nat)

/-- perform an action if the system allows it (otherwise do nothing) -/
def execAct (P : Proto) (nOld nNew : Nat) (strict : Bool) (s : Sys2) : Act → Sys2
  | .startOld i pre =>
    if i < nOld ∧ (!strict || (s.logOld i).isEmpty || pre) = true then
      { s with old := upd s.old i (start P.old pre (s.old i)) } else s
  | .startNew i pre =>
    if i < nNew ∧ (!strict || (s.logNew i).isEmpty || pre) = true then
      { s with new := upd s.new i (start P.new pre (s.new i)) } else s
  | .toOld i c j ty payload =>
    if i < nOld ∧ j < csize nOld nNew c ∧ ty ∈ (s.party c j).out then
      { s with old := upd s.old i (deliver P.old (mkMsg P ty j payload) (s.old i))
               logOld := upd s.logOld i (s.logOld i ++ [mkMsg P ty j payload]) } else s
  | .toNew i c j ty payload =>
    if i < nNew ∧ j < csize nOld nNew c ∧ ty ∈ (s.party c j).out then
      { s with new := upd s.new i (deliver P.new (mkMsg P ty j payload) (s.new i))
               logNew := upd s.logNew i (s.logNew i ++ [mkMsg P ty j payload]) } else s

def exec (P : Proto) (nOld nNew : Nat) (strict : Bool) (acts : List Act) : Sys2 :=
  acts.foldl (execAct P nOld nNew strict) (initSys nOld nNew)

theorem strict_cond {strict pre : Bool} {l : List Msg} (h : (!strict || l.isEmpty || pre) = true) :
    strict = true → l ≠ [] → pre = true := by
  intro hs hl
  cases l with
  | nil => exact absurd rfl hl
  | cons a l => subst hs; simpa using h

theorem reach2_execAct {P : Proto} {nOld nNew : Nat} {strict : Bool} {s : Sys2} (a : Act)
    (h : Reach2 P nOld nNew strict s) : Reach2 P nOld nNew strict (execAct P nOld nNew strict s a) := by
  cases a with
  | startOld i pre =>
    simp only [execAct]; split
    · rename_i hc; exact Reach2.startOld s i pre h hc.1 (strict_cond hc.2)
    · exact h
  | startNew i pre =>
    simp only [execAct]; split
    · rename_i hc; exact Reach2.startNew s i pre h hc.1 (strict_cond hc.2)
    · exact h
  | toOld i c j ty payload =>
    simp only [execAct]; split
    · rename_i hc; exact Reach2.deliverOld s i c j ty payload h hc.1 hc.2.1 hc.2.2
    · exact h
  | toNew i c j ty payload =>
    simp only [execAct]; split
    · rename_i hc; exact Reach2.deliverNew s i c j ty payload h hc.1 hc.2.1 hc.2.2
    · exact h

/-- whatever the schedule, the state it leads to is reachable -/
theorem reach2_exec (P : Proto) (nOld nNew : Nat) (strict : Bool) (acts : List Act) :
    Reach2 P nOld nNew strict (exec P nOld nNew strict acts) := by
  unfold exec
  suffices h : ∀ s, Reach2 P nOld nNew strict s →
      Reach2 P nOld nNew strict (acts.foldl (execAct P nOld nNew strict) s) from h _ Reach2.init
  induction acts with
  | nil => intro s h; exact h
  | cons a acts ih => intro s h; exact ih _ (reach2_execAct a h)

end TssVerif.E2L
