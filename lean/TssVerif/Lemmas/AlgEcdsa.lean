import TssVerif.Core.Sign
import TssVerif.Lemmas.CurveLaw
import TssVerif.Lemmas.ModInverse
import TssVerif.Lemmas.AlgBytes
import Mathlib.Algebra.Field.ZMod
import Mathlib.Tactic.LinearCombination
/-! ECDSA verification on a lawful curve: a complete description of `Sign.ecdsaVerify`, the textbook
correctness computation `u1·G + u2·PK = k⁻¹·G`, invariance under `s ↦ q − s`, and the shape of
`Sign.ecdsaFinalize`. -/
set_option autoImplicit false
set_option linter.style.haveILetI false
namespace TssVerif.AlgL
open TssVerif Sign

variable {P : Type} {C : Curve P}

/-- the x-coordinate of `−P` is that of `P` (true of Weierstrass and Edwards... curves in `y`/`x`
respectively; an explicit hypothesis of the low-S theorems) -/
def NegX (C : Curve P) : Prop :=
  ∀ p x y, C.toAffine p = some (x, y) → ∃ y', C.toAffine (C.neg p) = some (x, y')

/-- complete description of `ecdsaVerify` (no hypothesis on the curve record) -/
theorem ecdsaVerify_iff (C : Curve P) (pub : ECPoint) (m r s : Nat) :
    ecdsaVerify C pub m r s = true ↔
      r ≠ 0 ∧ s ≠ 0 ∧ r < C.q ∧ s < C.q ∧
      ∃ w pk x y, modInverse s C.q = some w ∧ C.lift pub = some pk ∧
        C.toAffine (C.add (C.smul (m % C.q * w % C.q) C.base) (C.smul (r * w % C.q) pk)) = some (x, y) ∧
        x % C.q = r := by
  unfold ecdsaVerify
  by_cases hg : r = 0 ∨ s = 0 ∨ r ≥ C.q ∨ s ≥ C.q
  · rw [if_pos hg]
    constructor
    · intro h; cases h
    · rintro ⟨h1, h2, h3, h4, _⟩
      rcases hg with h | h | h | h <;> omega
  · rw [if_neg hg]
    have hg' : r ≠ 0 ∧ s ≠ 0 ∧ r < C.q ∧ s < C.q := by omega
    cases hw : modInverse (s : Int) C.q with
    | none =>
      constructor
      · intro h; simp at h
      · rintro ⟨_, _, _, _, w, pk, x, y, h5, _⟩; cases h5
    | some w =>
      cases hpk : C.lift pub with
      | none =>
        constructor
        · intro h; simp at h
        · rintro ⟨_, _, _, _, w, pk, x, y, _, h6, _⟩; cases h6
      | some pk =>
        simp only
        cases haff : C.toAffine (C.add (C.smul (m % C.q * w % C.q) C.base) (C.smul (r * w % C.q) pk)) with
        | none =>
          constructor
          · intro h; cases h
          · rintro ⟨_, _, _, _, w', pk', x, y, h5, h6, h7, _⟩
            cases h5; cases h6
            rw [haff] at h7; cases h7
        | some xy =>
          obtain ⟨x, y⟩ := xy
          simp only [beq_iff_eq]
          constructor
          · intro h
            exact ⟨hg'.1, hg'.2.1, hg'.2.2.1, hg'.2.2.2, w, pk, x, y, rfl, rfl, haff, h⟩
          · rintro ⟨_, _, _, _, w', pk', x', y', h5, h6, h7, h8⟩
            cases h5; cases h6
            rw [haff] at h7
            cases h7
            exact h8

theorem lift_of_toAffine (hC : C.Lawful) {a : P} {v : ECPoint} (h : C.toAffine a = some v) :
    C.lift v = some a :=
  hC.toAffine_ofAffine v.1 v.2 a h

theorem natCast_ne_zero_of_pos_lt {q s : ℕ} (h0 : s ≠ 0) (hq : s < q) : (s : ZMod q) ≠ 0 := by
  intro h
  rw [ZMod.natCast_eq_zero_iff] at h
  exact h0 (Nat.eq_zero_of_dvd_of_lt h hq)

/-- `modInverse` of a non-zero residue modulo the (prime) group order, with its field value -/
theorem modInverse_nat_of_lawful (hC : C.Lawful) {s : ℕ} (h0 : s ≠ 0) (hq : s < C.q) :
    ∃ w, modInverse (s : Int) C.q = some w ∧ w < C.q ∧
      (w : ZMod C.q) = (s : ZMod C.q)⁻¹ := by
  haveI : Fact C.q.Prime := ⟨hC.q_prime⟩
  have hne : (((s : ℤ)) : ZMod C.q) ≠ 0 := by
    rw [Int.cast_natCast]; exact natCast_ne_zero_of_pos_lt h0 hq
  obtain ⟨w, hw, hc⟩ := modInverse_of_ne_zero hne
  refine ⟨w, hw, (modInverse_specV hw).2, ?_⟩
  rw [hc, Int.cast_natCast]

/-- **textbook ECDSA correctness in the GG18 convention** (`R = k⁻¹·G`, `s = k(m + r x)`), for the
model verifier on every lawful curve. `kinv` is any inverse of `k` modulo `q`. -/
theorem ecdsa_verify_of_algebra (hC : C.Lawful) (x k kinv m r s Rx Ry : ℕ) (pub : ECPoint)
    (hpub : C.toAffine (C.smul x C.base) = some pub)
    (hk : k * kinv ≡ 1 [MOD C.q])
    (hR : C.toAffine (C.smul kinv C.base) = some (Rx, Ry))
    (hr : r = Rx % C.q) (hr0 : r ≠ 0)
    (hs : s ≡ k * (m + r * x) [MOD C.q]) (hs0 : 0 < s) (hsq : s < C.q) :
    ecdsaVerify C pub m r s = true := by
  haveI : Fact C.q.Prime := ⟨hC.q_prime⟩
  rw [ecdsaVerify_iff]
  have hs0' : s ≠ 0 := by omega
  obtain ⟨w, hw, _, hwc⟩ := modInverse_nat_of_lawful hC hs0' hsq
  refine ⟨hr0, hs0', by rw [hr]; exact Nat.mod_lt _ hC.q_pos, hsq, w, C.smul x C.base, Rx, Ry, hw,
    lift_of_toAffine hC hpub, ?_, hr.symm⟩
  rw [← hR]
  congr 1
  rw [← hC.smul_mul, ← hC.smul_add, hC.smul_base_eq_iff, ← ZMod.natCast_eq_natCast_iff]
  have hsne : (s : ZMod C.q) ≠ 0 := natCast_ne_zero_of_pos_lt hs0' hsq
  have hs' : (s : ZMod C.q) = k * (m + r * x) := by
    have := (ZMod.natCast_eq_natCast_iff _ _ _).2 hs
    push_cast at this
    exact this
  have hk' : (k : ZMod C.q) * kinv = 1 := by
    have := (ZMod.natCast_eq_natCast_iff _ _ _).2 hk
    push_cast at this
    exact this
  push_cast [ZMod.natCast_mod]
  rw [hwc]
  have : (kinv : ZMod C.q) = ((m : ZMod C.q) + r * x) * (s : ZMod C.q)⁻¹ := by
    rw [eq_mul_inv_iff_mul_eq₀ hsne, hs']
    linear_combination ((m : ZMod C.q) + r * x) * hk'
  rw [this]
  ring

/-! ### the low-S flip -/

/-- if `q` kills `p` and `a + b ≡ 0 (mod q)` then `b·p = −(a·p)` -/
theorem smul_eq_neg_smul (hC : C.Lawful) {p : P} (hq : C.smul C.q p = C.zero) {a b : ℕ}
    (h : (a + b) % C.q = 0) : C.smul b p = C.neg (C.smul a p) := by
  letI := hC.groupLaws.addCommGroup
  obtain ⟨t, ht⟩ := Nat.dvd_of_mod_eq_zero h
  have h0 : C.smul (a + b) p = C.zero := by
    rw [ht, hC.smul_eq_nsmul, mul_nsmul]
    rw [hC.smul_eq_nsmul] at hq
    rw [hq]
    exact nsmul_zero t
  rw [hC.smul_add] at h0
  exact eq_neg_of_add_eq_zero_right h0

theorem neg_add_neg (hC : C.Lawful) (a b : P) : C.add (C.neg a) (C.neg b) = C.neg (C.add a b) := by
  letI := hC.groupLaws.addCommGroup
  exact (neg_add a b).symm

/-- **`(r, s)` valid ⟹ `(r, q − s)` valid**, on a lawful curve whose points are all killed by `q`
and where negation keeps the x-coordinate -/
theorem ecdsaVerify_flip (hC : C.Lawful) (hord : ∀ p, C.smul C.q p = C.zero) (hneg : NegX C)
    (pub : ECPoint) (m r s : ℕ) (h : ecdsaVerify C pub m r s = true) :
    ecdsaVerify C pub m r (C.q - s) = true := by
  haveI : Fact C.q.Prime := ⟨hC.q_prime⟩
  rw [ecdsaVerify_iff] at h ⊢
  obtain ⟨hr0, hs0, hrq, hsq, w, pk, x, y, hw, hpk, haff, hx⟩ := h
  have hs0' : C.q - s ≠ 0 := by omega
  have hsq' : C.q - s < C.q := by omega
  obtain ⟨w', hw', _, hwc'⟩ := modInverse_nat_of_lawful hC hs0' hsq'
  have hwc : (w : ZMod C.q) = (s : ZMod C.q)⁻¹ := by
    have := modInverse_cast hw
    rwa [Int.cast_natCast] at this
  have hww : (w' : ZMod C.q) = -(w : ZMod C.q) := by
    rw [hwc', hwc, Nat.cast_sub (le_of_lt hsq), ZMod.natCast_self, zero_sub, inv_neg]
  obtain ⟨y', hy'⟩ := hneg _ x y haff
  refine ⟨hr0, hs0', hrq, hsq', w', pk, x, y', hw', hpk, ?_, hx⟩
  rw [← hy']
  congr 1
  rw [smul_eq_neg_smul hC hC.smul_q_base (a := m % C.q * w % C.q) (b := m % C.q * w' % C.q),
    smul_eq_neg_smul hC (hord pk) (a := r * w % C.q) (b := r * w' % C.q), neg_add_neg hC]
  · rw [← Nat.dvd_iff_mod_eq_zero, ← ZMod.natCast_eq_zero_iff]
    push_cast [ZMod.natCast_mod]
    rw [hww]; ring
  · rw [← Nat.dvd_iff_mod_eq_zero, ← ZMod.natCast_eq_zero_iff]
    push_cast [ZMod.natCast_mod]
    rw [hww]; ring

/-! ### `ecdsaFinalize` -/

/-- the echoed message bytes of `finalize` (`fullLen = 0`: not requested) -/
def echo (m fullLen : ℕ) : Outcome Bytes :=
  if fullLen = 0 then .ok (natToBytesBE m)
  else if (natToBytesBE m).length > fullLen then .panic "fill-bytes"
  else .ok (padLeft fullLen (natToBytesBE m))

/-- the low-S normalisation -/
def lowS (q s : ℕ) : ℕ := if s > q / 2 then q - s else s

/-- the recovery id byte -/
def recidOf (q rx ry s : ℕ) : ℕ :=
  let recid0 := (if rx > q then 2 else 0) ||| (if ry % 2 = 1 then 1 else 0)
  if s > q / 2 then recid0 ^^^ 1 else recid0

theorem ecdsaFinalize_eq (C : Curve P) (pub : ECPoint) (rx ry sumS m fullLen : ℕ) :
    ecdsaFinalize C pub rx ry sumS m fullLen =
      match echo m fullLen with
      | .ok mb =>
        if ecdsaVerify C pub (hashToInt C.q mb) rx (lowS C.q sumS) then
          .ok ⟨padLeft 32 (natToBytesBE rx), padLeft 32 (natToBytesBE (lowS C.q sumS)),
            padLeft 32 (natToBytesBE rx) ++ padLeft 32 (natToBytesBE (lowS C.q sumS)),
            recidOf C.q rx ry sumS, mb⟩
        else .err "signature verification failed"
      | .err e => .err e
      | .panic e => .panic e := by
  unfold ecdsaFinalize echo lowS recidOf
  by_cases h : sumS > C.q / 2
  · simp only [h, if_true]; rfl
  · simp only [h, if_false]; rfl

theorem lowS_le_half (q s : ℕ) : lowS q s ≤ q / 2 := by
  unfold lowS; split <;> omega

theorem lowS_lt_two_pow {q s : ℕ} (hq : q < 2 ^ 256) : lowS q s < 2 ^ 256 := by
  have := lowS_le_half q s
  omega

theorem recidOf_lt (q rx ry s : ℕ) : recidOf q rx ry s < 4 := by
  unfold recidOf
  by_cases h1 : rx > q <;> by_cases h2 : ry % 2 = 1 <;> by_cases h3 : s > q / 2 <;>
    simp only [h1, h2, h3, if_true, if_false] <;> decide

end TssVerif.AlgL
