import TssVerif.Lemmas.C01W
/-! # C01b — the public weighted points `bigWs[j]` of `PrepareForSigning`

Model: `Sign.bigW` / `Sign.bigWs` (`ecdsa/signing/prepare.go`: `bigWj = bigXj`, then for every other signer
`c`: `iota = ks[c]·(ks[c] − ks[j])⁻¹ mod q`, `bigWj = bigWj.ScalarMult(iota)`), `Sign.weight` (the private
`w_i` of the same function), `Curve.ecScalarMult` (panics when the product has no affine form).

* W1 `bigW_eq_weight_smul` (+ `_affine`, `_baseMult`): what `bigW` returns for `X_j = x_j·G` is `w_j·G`, `w_j` the
  private weight — no hypothesis on the ids is needed for this direction (both results are given).
  Totality: `bigW_never_errors`, `bigW_returns_of_identity_affine` (curves that represent the identity:
  always), `bigW_returns_of_ids_ne_zero`, and on curves that do NOT represent the identity the exact panic
  condition `bigW_panic_iff` (another signer's id `≡ 0 mod q`), with the prefix-product form `bigW_panic_prefix`.
* W2 `bigW_never_inverse_failure`: ids pairwise distinct modulo the prime `q`: every `coef` exists, `weight`
  returns, `bigW` does not take the `"nil-mod-inverse"` branch; `bigW_collision_not_ok` for the converse.
* W3 `bigWs_sum_is_public_key` (+ `bigWs_each_is_weight_smul`, `bigWs_returns`): the returned points add up to
  `x·G`.
* W4 `bigW_sign_slip_witness…`: the sign-slipped factor `ks[c]·(ks[j] − ks[c])⁻¹` negates the point for an even
  number of signers and is invisible for an odd number. -/
set_option autoImplicit false
set_option linter.style.haveILetI false
namespace TssVerif.C01b
open TssVerif Sign C01W

section general
variable {P : Type} {C : Curve P}

/-! ## W1 — the public weight is the private weight times the generator -/

/-- **`bigWs[j] = w_j·G`.** Lawful curve, `X_j = x·G` (as a lifted point), the private weight `w` of signer
`j` for the share `x`, and `bigW` returned `W`: then `W` is (the affine form of) `w·G`.
The ids need NOT be assumed distinct for this direction (a returned `w`/`W` certifies that every inverse
existed); `j < ks.length` is not needed either. See `bigW_eq_weight_smul_baseMult` for the form with the
hypotheses `ids pairwise distinct modulo q`, `j < ks.length`, `ecBaseMult x = .ok X_j`. -/
theorem bigW_eq_weight_smul (hC : C.Lawful) (ks : List ℕ) (j x w : ℕ) (xj W : ECPoint)
    (hx : C.lift xj = some (C.smul x C.base)) (hw : weight C.q ks j x = some w)
    (hW : bigW C ks j xj = .ok W) : C.lift W = some (C.smul w C.base) :=
  bigW_lift hC ks j x w xj W hx hw hW

/-- the same, affine view: `W` is the pair of coordinates of `w·G` -/
theorem bigW_eq_weight_smul_affine (hC : C.Lawful) (ks : List ℕ) (j x w : ℕ) (xj W : ECPoint)
    (hx : C.lift xj = some (C.smul x C.base)) (hw : weight C.q ks j x = some w)
    (hW : bigW C ks j xj = .ok W) : C.toAffine (C.smul w C.base) = some W :=
  hC.ofAffine_toAffine _ _ _ (bigW_lift hC ks j x w xj W hx hw hW)

/-- Go view: ids pairwise distinct modulo `q`, `X_j = ScalarBaseMult(x)`; if `bigW` returns `W` then the
private weight `w` exists and `W = ScalarBaseMult(w)`. -/
theorem bigW_eq_weight_smul_baseMult (hC : C.Lawful) (ks : List ℕ) (hnd : (ks.map (· % C.q)).Nodup)
    (j : ℕ) (hj : j < ks.length) (x : ℕ) (xj W : ECPoint)
    (hx : C.ecBaseMult (x : Int) = .ok xj) (hW : bigW C ks j xj = .ok W) :
    ∃ w, weight C.q ks j x = some w ∧ C.lift W = some (C.smul w C.base) ∧
      C.ecBaseMult (w : Int) = .ok W := by
  obtain ⟨w, hw⟩ := weight_isSome_of_nodup (C := C) hC.q_prime ks hnd j hj x
  have hl := bigW_lift hC ks j x w xj W (lift_of_ecBaseMult hC hx) hw hW
  exact ⟨w, hw, hl, Vss.ecBaseMult_some C (hC.ofAffine_toAffine _ _ _ hl)⟩

/-- `bigW` never reports an error on a starting point of the curve (any point, any ids) -/
theorem bigW_never_errors (hC : C.Lawful) (ks : List ℕ) (j : ℕ) (xj : ECPoint) (p : P)
    (hx : C.lift xj = some p) (e : String) : bigW C ks j xj ≠ .err e :=
  bigW_ne_err hC ks j xj p hx e

/-- **totality on curves that represent their identity** (edwards25519-like): `bigW` returns, and what it
returns is `w_j·G` -/
theorem bigW_returns_of_identity_affine (hC : C.Lawful) (hz : C.toAffine C.zero ≠ none) (ks : List ℕ)
    (hnd : (ks.map (· % C.q)).Nodup) (j : ℕ) (hj : j < ks.length) (x : ℕ) (xj : ECPoint)
    (hx : C.lift xj = some (C.smul x C.base)) :
    ∃ W w, bigW C ks j xj = .ok W ∧ weight C.q ks j x = some w ∧ C.lift W = some (C.smul w C.base) :=
  bigW_ok_of_affine_zero hC hz ks hnd j hj x xj hx

/-- **totality on every lawful curve**: `x ≢ 0` and no other signer's id `≡ 0 (mod q)` -/
theorem bigW_returns_of_ids_ne_zero (hC : C.Lawful) (ks : List ℕ) (hnd : (ks.map (· % C.q)).Nodup)
    (j : ℕ) (hj : j < ks.length) (x : ℕ) (xj : ECPoint) (hx : C.lift xj = some (C.smul x C.base))
    (hx0 : x % C.q ≠ 0) (hids : ∀ c, c < ks.length → c ≠ j → ks.getD c 0 % C.q ≠ 0) :
    ∃ W w, bigW C ks j xj = .ok W ∧ weight C.q ks j x = some w ∧ C.lift W = some (C.smul w C.base) :=
  bigW_ok_of_ids_ne_zero hC ks hnd j hj x xj hx hx0 hids

/-- **exact panic condition on curves that do not represent their identity** (secp256k1-like): `bigW`
crashes in `ScalarMult` iff another signer's id is `≡ 0 (mod q)` (`x ≢ 0` is automatic there: `X_j` is a
point with coordinates) -/
theorem bigW_panic_iff (hC : C.Lawful) (hz : C.toAffine C.zero = none) (ks : List ℕ)
    (hnd : (ks.map (· % C.q)).Nodup) (j : ℕ) (hj : j < ks.length) (x : ℕ) (xj : ECPoint)
    (hx : C.lift xj = some (C.smul x C.base)) :
    bigW C ks j xj = .panic "scalar-mult-identity" ↔
      ∃ c, c < ks.length ∧ c ≠ j ∧ ks.getD c 0 % C.q = 0 :=
  C01W.bigW_panic_iff hC hz ks hnd j hj x xj hx

/-- the three outcomes: `bigW` returns `w_j·G`, or it panics with `"scalar-mult-identity"` — never an error,
never another panic -/
theorem bigW_outcomes (hC : C.Lawful) (ks : List ℕ) (hnd : (ks.map (· % C.q)).Nodup) (j : ℕ)
    (hj : j < ks.length) (x : ℕ) (xj : ECPoint) (hx : C.lift xj = some (C.smul x C.base)) :
    (∃ W w, bigW C ks j xj = .ok W ∧ weight C.q ks j x = some w ∧
      C.lift W = some (C.smul w C.base)) ∨
    (bigW C ks j xj = .panic "scalar-mult-identity" ∧
      ∃ m p, 1 ≤ m ∧ m ≤ ks.length ∧ weightPrefix C.q ks j m x = some p ∧
        C.toAffine (C.smul p C.base) = none) :=
  bigW_spec hC ks hnd j hj x xj hx

/-- the panic in scalars: some prefix product `x·∏_{c<m, c≠j} coef` (`weightPrefix`, the `weight` loop cut
after `m` positions; `weightPrefix … ks.length = weight` by `rfl`) is `≡ 0`, on a curve that does not
represent its identity -/
theorem bigW_panic_prefix (hC : C.Lawful) (ks : List ℕ) (hnd : (ks.map (· % C.q)).Nodup) (j : ℕ)
    (hj : j < ks.length) (x : ℕ) (xj : ECPoint) (hx : C.lift xj = some (C.smul x C.base))
    (e : String) (h : bigW C ks j xj = .panic e) :
    e = "scalar-mult-identity" ∧ C.toAffine C.zero = none ∧
    ∃ m p, 1 ≤ m ∧ m ≤ ks.length ∧ weightPrefix C.q ks j m x = some p ∧ p % C.q = 0 :=
  C01W.bigW_panic_prefix hC ks hnd j hj x xj hx e h

/-- … and the exact condition in that form: on a curve that does not represent its identity `bigW` panics
iff `x` times the product of a prefix of the factors is `≡ 0 (mod q)` -/
theorem bigW_panic_iff_prefix (hC : C.Lawful) (hz : C.toAffine C.zero = none) (ks : List ℕ)
    (hnd : (ks.map (· % C.q)).Nodup) (j : ℕ) (hj : j < ks.length) (x : ℕ) (xj : ECPoint)
    (hx : C.lift xj = some (C.smul x C.base)) :
    bigW C ks j xj = .panic "scalar-mult-identity" ↔
      ∃ m p, m ≤ ks.length ∧ weightPrefix C.q ks j m x = some p ∧ p % C.q = 0 :=
  C01W.bigW_panic_iff_prefix hC hz ks hnd j hj x xj hx

/-! ## W2 — no nil inverse on ids pairwise distinct modulo `q` -/

/-- **The `"nil-mod-inverse"` branch is not taken** (`q` prime, ids pairwise distinct modulo `q`; every
curve record, every starting point): each factor `coef` exists, `weight` returns, and `bigW` does not
panic with `"nil-mod-inverse"` — its only possible panic is the one of `ScalarMult`. -/
theorem bigW_never_inverse_failure (hq : C.q.Prime) (ks : List ℕ) (hnd : (ks.map (· % C.q)).Nodup)
    (j : ℕ) (hj : j < ks.length) :
    (∀ c, c < ks.length → c ≠ j → ∃ io, coef C.q (ks.getD j 0) (ks.getD c 0) = some io) ∧
    (∀ x, ∃ w, weight C.q ks j x = some w) ∧
    (∀ xj, bigW C ks j xj ≠ .panic "nil-mod-inverse") ∧
    (∀ xj e, bigW C ks j xj = .panic e → e = "scalar-mult-identity") := by
  haveI : Fact C.q.Prime := ⟨hq⟩
  refine ⟨fun c hc hcj => coef_isSome_of_nodup ks hnd hj hc hcj,
    fun x => weight_isSome_of_nodup (C := C) hq ks hnd j hj x, fun xj h => ?_,
    fun xj e h => bigW_panic_tag hq ks hnd j hj xj e h⟩
  have := bigW_panic_tag hq ks hnd j hj xj _ h
  exact absurd this (by decide)

/-- conversely two ids congruent modulo `q` (possibly different integers): neither loop returns -/
theorem bigW_collision_not_ok (hq : C.q.Prime) (ks : List ℕ) (j c : ℕ) (hc : c < ks.length)
    (hcj : c ≠ j) (h : ks.getD c 0 % C.q = ks.getD j 0 % C.q) :
    (∀ x, weight C.q ks j x = none) ∧ (∀ xj W, bigW C ks j xj ≠ .ok W) := by
  haveI : Fact C.q.Prime := ⟨hq⟩
  exact ⟨fun x => AlgL.weight_none_of_collision ks j c x hc hcj
      ((ZMod.natCast_eq_natCast_iff' _ _ _).2 h),
    fun xj W => bigW_not_ok_of_collision hq ks j c hc hcj h xj W⟩

/-! ## W3 — the public weighted points add up to the public key -/

/-- **`Σ_j bigWs[j] = x·G`.** Lawful curve; the shares `x j` are the values at `ks[j]` of one polynomial `f`
over `ZMod q` of degree below the number of signers (the formulation of `C18.weights_sum_secret`), `secret`
a representative of `f(0)`; `xs[j] = (x j)·G`; `bigWs` returned `ws`. Then adding the `ws` in the group
(each one lifted to the curve) from the identity gives `secret·G`. -/
theorem bigWs_sum_is_public_key (hC : C.Lawful) (ks : List ℕ) (xs ws : List ECPoint) (x : ℕ → ℕ)
    (f : Polynomial (ZMod C.q)) (secret : ℕ)
    (hnd : (ks.map (· % C.q)).Nodup) (hdeg : f.degree < (ks.length : ℕ))
    (hval : ∀ i, i < ks.length → (x i : ZMod C.q) = f.eval (ks.getD i 0 : ZMod C.q))
    (hsec : (secret : ZMod C.q) = f.eval 0)
    (hxs : ∀ i, i < ks.length → ∃ X, xs[i]? = some X ∧ C.lift X = some (C.smul (x i) C.base))
    (hws : bigWs C ks xs = .ok ws) :
    ws.foldlM (fun a W => (C.lift W).map (C.add a)) C.zero = some (C.smul secret C.base) :=
  bigWs_sum hC ks xs ws x f secret hnd hdeg hval hsec hxs hws

/-- position by position: `ws` has one point per signer and `ws[j] = w_j·G` -/
theorem bigWs_each_is_weight_smul (hC : C.Lawful) (ks : List ℕ) (xs ws : List ECPoint) (x : ℕ → ℕ)
    (hnd : (ks.map (· % C.q)).Nodup)
    (hxs : ∀ i, i < ks.length → ∃ X, xs[i]? = some X ∧ C.lift X = some (C.smul (x i) C.base))
    (hws : bigWs C ks xs = .ok ws) :
    ws.length = ks.length ∧ ∀ j, j < ks.length → ∃ W w, ws[j]? = some W ∧
      weight C.q ks j (x j) = some w ∧ C.lift W = some (C.smul w C.base) :=
  bigWs_each hC ks xs ws x hnd hxs hws

/-- `bigWs` returns when the curve represents its identity, or when no share and no id is `≡ 0` -/
theorem bigWs_returns (hC : C.Lawful) (ks : List ℕ) (xs : List ECPoint) (x : ℕ → ℕ)
    (hnd : (ks.map (· % C.q)).Nodup)
    (hxs : ∀ i, i < ks.length → ∃ X, xs[i]? = some X ∧ C.lift X = some (C.smul (x i) C.base))
    (h : C.toAffine C.zero ≠ none ∨
      ((∀ i, i < ks.length → x i % C.q ≠ 0) ∧ ∀ c, c < ks.length → ks.getD c 0 % C.q ≠ 0)) :
    ∃ ws, bigWs C ks xs = .ok ws := by
  refine bigWs_ok_of_forall ks xs fun j hj => ?_
  obtain ⟨X, hX, hl⟩ := hxs j hj
  rcases h with hz | ⟨h1, h2⟩
  · obtain ⟨W, _, hW, _⟩ := bigW_ok_of_affine_zero hC hz ks hnd j hj (x j) X hl
    exact ⟨X, W, hX, hW⟩
  · obtain ⟨W, _, hW, _⟩ := bigW_ok_of_ids_ne_zero hC ks hnd j hj (x j) X hl (h1 j hj)
      (fun c hc _ => h2 c hc)
    exact ⟨X, W, hX, hW⟩

end general

/-! ## W4 — the sign slip -/

/-- the sign-slipped factor `k_c·(k_j − k_c)⁻¹` (the correct one is `coef q k_j k_c = k_c·(k_c − k_j)⁻¹`) -/
def coefSlip (q kj kc : ℕ) : Option ℕ :=
  (modInverse ((kj : Int) - (kc : Int)) q).map fun inv => kc * inv % q

/-- `bigW` with the slipped factor -/
def bigWSlip {P : Type} (C : Curve P) (ks : List ℕ) (j : ℕ) (xj : ECPoint) : Outcome ECPoint :=
  (List.range ks.length).foldlM (fun w c =>
    if c = j then .ok w else
      match coefSlip C.q (ks.getD j 0) (ks.getD c 0) with
      | some io => C.ecScalarMult w io
      | none => .panic "nil-mod-inverse") xj

section toy
local instance : Fact (Nat.Prime 23) := ⟨by decide⟩
/-- toy curve with an affine identity -/
abbrev E := zmodCurve 23
/-- toy curve without affine identity -/
abbrev Ew := zmodCurveW 23

/-- **2 signers (even): the slipped product is the NEGATED point.** ids `1, 2`, signer `0`, share `5`:
weight `10`, `bigW = 10·G`, slipped `13·G = −10·G ≠ 10·G`; so W1 fails for the slipped variant. -/
theorem bigW_sign_slip_witness :
    weight 23 [1, 2] 0 5 = some 10 ∧
    bigW E [1, 2] 0 (5, 0) = .ok (10, 0) ∧ E.lift (10, 0) = some (E.smul 10 E.base) ∧
    bigWSlip E [1, 2] 0 (5, 0) = .ok (13, 0) ∧
    E.lift (13, 0) = some (E.neg (E.smul 10 E.base)) ∧
    E.lift (13, 0) ≠ some (E.smul 10 E.base) := by
  decide

/-- 4 signers (even), ids `1, 2, 3, 4`: negated again (`3 = −20 mod 23`), for the signers at positions 0 and 2 -/
theorem bigW_sign_slip_witness_four :
    weight 23 [1, 2, 3, 4] 0 5 = some 20 ∧ bigW E [1, 2, 3, 4] 0 (5, 0) = .ok (20, 0) ∧
    bigWSlip E [1, 2, 3, 4] 0 (5, 0) = .ok (3, 0) ∧
    E.lift (3, 0) = some (E.neg (E.smul 20 E.base)) ∧ E.lift (3, 0) ≠ some (E.smul 20 E.base) ∧
    bigW E [1, 2, 3, 4] 2 (5, 0) = .ok (20, 0) ∧ bigWSlip E [1, 2, 3, 4] 2 (5, 0) = .ok (3, 0) := by
  decide +kernel

/-- 2 signers, EVERY point of the toy curve, both signers: slipped `= (q − 1)·bigW = −bigW` … -/
theorem bigW_sign_slip_even_all :
    ∀ j < 2, ∀ a < 23, bigWSlip E [1, 2] j (a, 0) = (bigW E [1, 2] j (a, 0) >>= fun W => E.ecScalarMult W 22) := by
  decide +kernel

/-- … where multiplying by `q − 1 = 22` is negation, which moves every point but the identity -/
theorem toy_neg :
    ∀ a < 23, E.ecScalarMult (a, 0) 22 = .ok ((23 - a) % 23, 0) ∧
      E.lift ((23 - a) % 23, 0) = (E.lift (a, 0)).map E.neg ∧ (a ≠ 0 → (23 - a) % 23 ≠ a) := by
  decide +kernel

/-- **3 signers (odd): the slip is invisible** — for every signer and every point the slipped product
coincides with `bigW` -/
theorem bigW_sign_slip_odd_coincides :
    ∀ j < 3, ∀ a < 23, bigWSlip E [1, 2, 3] j (a, 0) = bigW E [1, 2, 3] j (a, 0) := by
  decide +kernel

/-! ## the hypotheses are satisfiable (3 signers, `f = 4 + 5X`, ids `1, 2, 3`, shares `9, 14, 19`) -/

example : E.Lawful := zmodCurve_lawful 23
example : Ew.Lawful ∧ Ew.toAffine Ew.zero = none := ⟨zmodCurveW_lawful 23, by decide⟩

/-- W1 with all hypotheses discharged by evaluation; the conclusion agrees with the run -/
example : E.lift (4, 0) = some (E.smul 4 E.base) :=
  bigW_eq_weight_smul (C := E) (zmodCurve_lawful 23) [1, 2, 3] 1 14 4 (14, 0) (4, 0)
    (by decide) (by decide) (by decide)
example : ∃ w, weight E.q [1, 2, 3] 1 14 = some w ∧ E.lift (4, 0) = some (E.smul w E.base) ∧
    E.ecBaseMult (w : Int) = .ok (4, 0) :=
  bigW_eq_weight_smul_baseMult (C := E) (zmodCurve_lawful 23) [1, 2, 3] (by decide) 1 (by decide) 14
    (14, 0) (4, 0) (by decide) (by decide)

/-- W3: the run, and the theorem applied to it -/
example : bigWs E [1, 2, 3] [(9, 0), (14, 0), (19, 0)] = .ok [(4, 0), (4, 0), (19, 0)] := by decide +kernel
example : ([(4, 0), (4, 0), (19, 0)] : List ECPoint).foldlM (fun a W => (E.lift W).map (E.add a)) E.zero
    = some (E.smul 4 E.base) := by
  have hdeg : (Vss.polyZ 23 [4, 5]).degree < (([1, 2, 3] : List ℕ).length : ℕ) :=
    lt_of_lt_of_le (Vss.polyZ_degree_lt _) (by norm_num)
  have hval : ∀ i, i < ([1, 2, 3] : List ℕ).length →
      ((([9, 14, 19] : List ℕ).getD i 0 : ℕ) : ZMod 23) =
        (Vss.polyZ 23 [4, 5]).eval ((([1, 2, 3] : List ℕ).getD i 0 : ℕ) : ZMod 23) := by
    intro i hi
    have hi' : i < 3 := hi
    rw [Vss.polyZ_eval_natCast]
    interval_cases i <;> rfl
  have hsec : ((4 : ℕ) : ZMod 23) = (Vss.polyZ 23 [4, 5]).eval 0 := by
    have := Vss.polyZ_eval_natCast (q := 23) [4, 5] 0
    rw [Nat.cast_zero] at this
    rw [this]; rfl
  exact bigWs_sum_is_public_key (C := E) (zmodCurve_lawful 23) [1, 2, 3] [(9, 0), (14, 0), (19, 0)]
    [(4, 0), (4, 0), (19, 0)] (fun i => [9, 14, 19].getD i 0) (Vss.polyZ 23 [4, 5]) 4
    (by decide) hdeg hval hsec
    (by
      intro i hi
      have hi' : i < 3 := hi
      interval_cases i
      · exact ⟨(9, 0), rfl, by decide⟩
      · exact ⟨(14, 0), rfl, by decide⟩
      · exact ⟨(19, 0), rfl, by decide⟩)
    (by decide +kernel)
example : ([(4, 0), (4, 0), (19, 0)] : List ECPoint).foldlM (fun a W => (E.lift W).map (E.add a)) E.zero
    = some (E.smul 4 E.base) := by decide

/-- the panic of W1's totality part is real: id `23 ≡ 0` on the curve without affine identity; the same
ids on the curve with one return the identity; ids `1, 24` collide modulo `23` -/
example : bigW Ew [1, 23] 0 (5, 0) = .panic "scalar-mult-identity" :=
  (bigW_panic_iff (C := Ew) (zmodCurveW_lawful 23) (by decide) [1, 23] (by decide) 0 (by decide) 5 (5, 0)
    (by decide)).2 ⟨1, by decide, by decide, by decide⟩
example : bigW Ew [1, 23] 0 (5, 0) = .panic "scalar-mult-identity" ∧ bigW E [1, 23] 0 (5, 0) = .ok (0, 0) ∧
    bigW Ew [1, 23] 1 (5, 0) = .ok (5, 0) ∧ bigW E [1, 24] 0 (5, 0) = .panic "nil-mod-inverse" := by
  decide +kernel
example : ∀ xj W, bigW E [1, 24] 0 xj ≠ .ok W :=
  (bigW_collision_not_ok (C := E) (by decide) [1, 24] 0 1 (by decide) (by decide) (by decide)).2
example : ∀ xj, bigW E [1, 2, 3] 1 xj ≠ .panic "nil-mod-inverse" :=
  (bigW_never_inverse_failure (C := E) (by decide) [1, 2, 3] (by decide) 1 (by decide)).2.2.1

end toy

end TssVerif.C01b
