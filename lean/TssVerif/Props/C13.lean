import TssVerif.Core.Mta
import TssVerif.Lemmas.Paillier
import TssVerif.Lemmas.CurveLaw
import TssVerif.Lemmas.C16
import TssVerif.Lemmas.C13
import Mathlib.Tactic.NormNum.Prime
/-! # C13 — the multiplicative-to-additive exchange (`crypto/mta/share_protocol.go`)

Property theorems only; helper lemmas live in `TssVerif/Lemmas/C13.lean`.

Conventions. Alice owns the Paillier key `sk` (`sk.n = P * Q`, `sk.lambdaN = lcm (P-1) (Q-1)`,
`gcd(λ, n) = 1` — the hypotheses of `C14.dec_enc`); `a` is her secret, `x` her encryption coin;
`b` is Bob's secret, `betaPrm` (`β'`) his mask and `xB` his encryption coin. `cfgB`/`cfgA` are the guard
configurations the two verifiers run with (the current tree is `Zk.cur`; nothing depends on them).
`B = none`, `xu = none` is `BobMid`/`AliceEnd`; `B = some _`, `xu = some (_, _)` is `BobMidWC`/`AliceEndWC`.

That the proof gates accept (completeness of `rangeProve`/`rangeVerify` and `bobProve`/`bobVerify`) is a
*hypothesis* in `mta_correct*` — it enters as "the three calls returned `.ok`". Conversely `mta_progress`
shows that the gates are the only way to fail. The toy runs at the end evaluate all three calls, gates
included, on the executable model. -/
set_option autoImplicit false
namespace TssVerif.C13
open TssVerif TssVerif.Paillier TssVerif.PaillierL TssVerif.Zk TssVerif.Mta TssVerif.C13L

/-! ## 1. arithmetic core -/

/-- **share arithmetic.** Alice's share is `(a b + β') mod n mod q`, Bob's is the Go expression
`modQ.Sub(zero, betaPrm)`, i.e. `((0 - β') % q).toNat` as in `bobMid`; their sum is `a b` modulo `q`
as soon as the plaintext did not wrap modulo `n`. (Stated with the weakest hypotheses: `0 < q` follows
from `a < q`; the bounds `a, b < q`, `β' < q⁵` are only what makes the no-wrap condition true for real
parameters, see `mta_no_wrap` and `mta_arith_of_bounds`.) -/
theorem mta_arith {q n a b betaPrm : Nat} (hq : 0 < q) (hnw : a * b + betaPrm < n) :
    ((a * b + betaPrm) % n % q + (((0 : Int) - (betaPrm : Int)) % (q : Int)).toNat) % q = a * b % q :=
  mta_arith_general hq hnw

/-- **2048-bit Paillier moduli never wrap**: `a b + β' < q² + q⁵ < 2^1281 ≤ 2^2047 ≤ n` -/
theorem mta_no_wrap {q n a b betaPrm : Nat} (hq : q < 2 ^ 256) (hn : 2 ^ 2047 ≤ n)
    (ha : a < q) (hb : b < q) (hbp : betaPrm < q ^ 5) : a * b + betaPrm < n :=
  C13L.mta_no_wrap hq hn ha hb hbp

/-- the two together, with the bounds of the protocol as the only hypotheses -/
theorem mta_arith_of_bounds {q n a b betaPrm : Nat} (hq : q < 2 ^ 256) (hn : 2 ^ 2047 ≤ n)
    (ha : a < q) (hb : b < q) (hbp : betaPrm < q ^ 5) :
    ((a * b + betaPrm) % n % q + (((0 : Int) - (betaPrm : Int)) % (q : Int)).toNat) % q = a * b % q :=
  mta_arith_general (by omega) (C13L.mta_no_wrap hq hn ha hb hbp)

/-! ## 2. end-to-end correctness on the model functions -/

/-- **correctness, both variants at once**: whatever public point Bob attaches (`B`) and whatever pair Alice
checks against (`xu`), if the three calls return, then `α + β ≡ a b (mod q)`. The algebra goes through
`encryptWith`, `homoMult`, `homoAdd`, `decrypt`: `out.cB` is a well-formed ciphertext of `b a + β'`
(`C13L.cB_isCt`) and every well-formed ciphertext decrypts to its plaintext modulo `n` (`decrypt_isCt`). -/
theorem mta_correct_any {Pt : Type} (C : Curve Pt) (H : HashFn) {P Q : Nat}
    (hP : P.Prime) (hQ : Q.Prime) (hne : P ≠ Q)
    (hlam : Nat.gcd (Nat.lcm (P - 1) (Q - 1)) (P * Q) = 1)
    (sk : PrivateKey) (hn : sk.n = P * Q) (hl : sk.lambdaN = Nat.lcm (P - 1) (Q - 1))
    (cfgB cfgA : Cfg) (sess : Bytes) (rpA rpB : RP) {a b x xB betaPrm : Nat} (al be ga rho : Nat) (k : BobCoins)
    (B : Option ECPoint) (xu : Option (ECPoint × ECPoint))
    (hq : 0 < C.q) (hx : Nat.gcd x sk.n = 1) (hxB : Nat.gcd xB sk.n = 1)
    (hnw : a * b + betaPrm < sk.n)
    {cA : Nat} {rpf : RangeProof} {out : BobOut} {alpha : Nat}
    (h1 : aliceInit C H sk.n a rpB x al be ga rho = .ok (cA, rpf))
    (h2 : bobMid C H cfgB sess sk.n rpf b cA rpA rpB B betaPrm xB k = .ok out)
    (h3 : aliceEnd C H cfgA sess sk out.pf rpA cA out.cB xu = .ok alpha) :
    (alpha + out.beta) % C.q = a * b % C.q := by
  have hk : LamOK sk.n sk.lambdaN := by rw [hn, hl]; exact lamOK_of_primes hP hQ hne hlam
  obtain ⟨-, halpha, hbeta⟩ := mta_core C H hk hx hxB h1 h2 h3
  rw [halpha, hbeta]
  exact mta_arith_general hq hnw

/-- **`AliceInit` / `BobMid` / `AliceEnd`** (no public-point check). Only `C.q` of the curve matters. -/
theorem mta_correct {Pt : Type} (C : Curve Pt) (H : HashFn) {P Q : Nat}
    (hP : P.Prime) (hQ : Q.Prime) (hne : P ≠ Q)
    (hlam : Nat.gcd (Nat.lcm (P - 1) (Q - 1)) (P * Q) = 1)
    (sk : PrivateKey) (hn : sk.n = P * Q) (hl : sk.lambdaN = Nat.lcm (P - 1) (Q - 1))
    (cfgB cfgA : Cfg) (sess : Bytes) (rpA rpB : RP) {a b x xB betaPrm : Nat} (al be ga rho : Nat) (k : BobCoins)
    (hq : 0 < C.q) (hx : Nat.gcd x sk.n = 1) (hxB : Nat.gcd xB sk.n = 1)
    (hnw : a * b + betaPrm < sk.n)
    {cA : Nat} {rpf : RangeProof} {out : BobOut} {alpha : Nat}
    (h1 : aliceInit C H sk.n a rpB x al be ga rho = .ok (cA, rpf))
    (h2 : bobMid C H cfgB sess sk.n rpf b cA rpA rpB none betaPrm xB k = .ok out)
    (h3 : aliceEnd C H cfgA sess sk out.pf rpA cA out.cB none = .ok alpha) :
    (alpha + out.beta) % C.q = a * b % C.q :=
  mta_correct_any C H hP hQ hne hlam sk hn hl cfgB cfgA sess rpA rpB al be ga rho k none none hq hx hxB hnw h1 h2 h3

/-- **`AliceInit` / `BobMidWC` / `AliceEndWC`**: Bob attaches the point `Bpt` (honestly `b·G`), Alice checks
against `(Bpt, U)`. The conclusion does not need `Bpt = b·G` as a hypothesis: if the gates let the run
through, the shares are right. What acceptance says about `Bpt` is `mta_wc_point_check`. -/
theorem mta_correct_wc {Pt : Type} (C : Curve Pt) (H : HashFn) {P Q : Nat}
    (hP : P.Prime) (hQ : Q.Prime) (hne : P ≠ Q)
    (hlam : Nat.gcd (Nat.lcm (P - 1) (Q - 1)) (P * Q) = 1)
    (sk : PrivateKey) (hn : sk.n = P * Q) (hl : sk.lambdaN = Nat.lcm (P - 1) (Q - 1))
    (cfgB cfgA : Cfg) (sess : Bytes) (rpA rpB : RP) {a b x xB betaPrm : Nat} (al be ga rho : Nat) (k : BobCoins)
    (Bpt U : ECPoint)
    (hq : 0 < C.q) (hx : Nat.gcd x sk.n = 1) (hxB : Nat.gcd xB sk.n = 1)
    (hnw : a * b + betaPrm < sk.n)
    {cA : Nat} {rpf : RangeProof} {out : BobOut} {alpha : Nat}
    (h1 : aliceInit C H sk.n a rpB x al be ga rho = .ok (cA, rpf))
    (h2 : bobMid C H cfgB sess sk.n rpf b cA rpA rpB (some Bpt) betaPrm xB k = .ok out)
    (h3 : aliceEnd C H cfgA sess sk out.pf rpA cA out.cB (some (Bpt, U)) = .ok alpha) :
    (alpha + out.beta) % C.q = a * b % C.q :=
  mta_correct_any C H hP hQ hne hlam sk hn hl cfgB cfgA sess rpA rpB al be ga rho k (some Bpt) (some (Bpt, U))
    hq hx hxB hnw h1 h2 h3

/-- the same with the protocol's bounds instead of the no-wrap condition: secrets in `[0, q)`,
`β' < q⁵`, a curve order below `2^256` and a Paillier modulus of at least 2048 bits -/
theorem mta_correct_of_bounds {Pt : Type} (C : Curve Pt) (H : HashFn) {P Q : Nat}
    (hP : P.Prime) (hQ : Q.Prime) (hne : P ≠ Q)
    (hlam : Nat.gcd (Nat.lcm (P - 1) (Q - 1)) (P * Q) = 1)
    (sk : PrivateKey) (hn : sk.n = P * Q) (hl : sk.lambdaN = Nat.lcm (P - 1) (Q - 1))
    (cfgB cfgA : Cfg) (sess : Bytes) (rpA rpB : RP) {a b x xB betaPrm : Nat} (al be ga rho : Nat) (k : BobCoins)
    (B : Option ECPoint) (xu : Option (ECPoint × ECPoint))
    (hq : C.q < 2 ^ 256) (hbits : 2 ^ 2047 ≤ sk.n)
    (ha : a < C.q) (hb : b < C.q) (hbp : betaPrm < C.q ^ 5)
    (hx : Nat.gcd x sk.n = 1) (hxB : Nat.gcd xB sk.n = 1)
    {cA : Nat} {rpf : RangeProof} {out : BobOut} {alpha : Nat}
    (h1 : aliceInit C H sk.n a rpB x al be ga rho = .ok (cA, rpf))
    (h2 : bobMid C H cfgB sess sk.n rpf b cA rpA rpB B betaPrm xB k = .ok out)
    (h3 : aliceEnd C H cfgA sess sk out.pf rpA cA out.cB xu = .ok alpha) :
    (alpha + out.beta) % C.q = a * b % C.q :=
  mta_correct_any C H hP hQ hne hlam sk hn hl cfgB cfgA sess rpA rpB al be ga rho k B xu (by omega) hx hxB
    (C13L.mta_no_wrap hq hbits ha hb hbp) h1 h2 h3

/-- **the values of the two shares**: Alice decrypts exactly `a b + β'` (no reduction happened),
`α = (a b + β') mod q`, `β = −β' mod q`, and Bob's record carries the `β'` he was given -/
theorem mta_shares {Pt : Type} (C : Curve Pt) (H : HashFn) {P Q : Nat}
    (hP : P.Prime) (hQ : Q.Prime) (hne : P ≠ Q)
    (hlam : Nat.gcd (Nat.lcm (P - 1) (Q - 1)) (P * Q) = 1)
    (sk : PrivateKey) (hn : sk.n = P * Q) (hl : sk.lambdaN = Nat.lcm (P - 1) (Q - 1))
    (cfgB cfgA : Cfg) (sess : Bytes) (rpA rpB : RP) {a b x xB betaPrm : Nat} (al be ga rho : Nat) (k : BobCoins)
    (B : Option ECPoint) (xu : Option (ECPoint × ECPoint))
    (hx : Nat.gcd x sk.n = 1) (hxB : Nat.gcd xB sk.n = 1) (hnw : a * b + betaPrm < sk.n)
    {cA : Nat} {rpf : RangeProof} {out : BobOut} {alpha : Nat}
    (h1 : aliceInit C H sk.n a rpB x al be ga rho = .ok (cA, rpf))
    (h2 : bobMid C H cfgB sess sk.n rpf b cA rpA rpB B betaPrm xB k = .ok out)
    (h3 : aliceEnd C H cfgA sess sk out.pf rpA cA out.cB xu = .ok alpha) :
    decrypt sk (out.cB : Int) = .ok (a * b + betaPrm) ∧
    alpha = (a * b + betaPrm) % C.q ∧
    out.beta = (((0 : Int) - (betaPrm : Int)) % (C.q : Int)).toNat ∧
    out.betaPrm = betaPrm := by
  have hk : LamOK sk.n sk.lambdaN := by rw [hn, hl]; exact lamOK_of_primes hP hQ hne hlam
  obtain ⟨hdec, halpha, hbeta⟩ := mta_core C H hk hx hxB h1 h2 h3
  obtain ⟨-, _, _, -, -, -, -, -, hbp'⟩ := bobMid_ok C H h2
  rw [Nat.mod_eq_of_lt hnw] at hdec halpha
  exact ⟨hdec, halpha, hbeta, hbp'⟩

/-- **progress: the proof gates are the only way to fail.** With in-range inputs and unit coins, if
Alice's range proof verifies, Bob's prover returns and Bob's proof verifies, then `BobMid(WC)` and
`AliceEnd(WC)` both return, with the ciphertext and shares in closed form (no error from the Paillier
operations, no crash in `Decrypt`). -/
theorem mta_progress {Pt : Type} (C : Curve Pt) (H : HashFn) {P Q : Nat}
    (hP : P.Prime) (hQ : Q.Prime) (hne : P ≠ Q)
    (hlam : Nat.gcd (Nat.lcm (P - 1) (Q - 1)) (P * Q) = 1)
    (sk : PrivateKey) (hn : sk.n = P * Q) (hl : sk.lambdaN = Nat.lcm (P - 1) (Q - 1))
    (cfgB cfgA : Cfg) (sess : Bytes) (rpA rpB : RP) {a b x xB betaPrm : Nat} (al be ga rho : Nat) (k : BobCoins)
    (B : Option ECPoint) (xu : Option (ECPoint × ECPoint))
    (ha : a < sk.n) (hb : b < sk.n) (hbp : betaPrm < sk.n)
    (hx : Nat.gcd x sk.n = 1) (hxB : Nat.gcd xB sk.n = 1)
    {cA : Nat} {rpf : RangeProof} {pf : BobProof} {u : Option ECPoint}
    (h1 : aliceInit C H sk.n a rpB x al be ga rho = .ok (cA, rpf))
    (hR : rangeVerify cfgB H C.q (sk.n : Int) rpB.ntilde rpB.h1 rpB.h2 (cA : Int) rpf = .ok true)
    (hPr : bobProve C H sess sk.n rpA.ntilde rpA.h1 rpA.h2 cA (cBOf sk.n a b betaPrm x xB)
      b betaPrm xB B k = .ok (pf, u))
    (hV : bobVerify C H cfgA sess (sk.n : Int) rpA.ntilde rpA.h1 rpA.h2 (cA : Int)
      (cBOf sk.n a b betaPrm x xB : Int) pf xu = .ok true) :
    cA = encNat sk.n a x ∧
    bobMid C H cfgB sess sk.n rpf b cA rpA rpB B betaPrm xB k =
      .ok ⟨(((0 : Int) - (betaPrm : Int)) % (C.q : Int)).toNat, cBOf sk.n a b betaPrm x xB, betaPrm, pf, u⟩ ∧
    aliceEnd C H cfgA sess sk pf rpA cA (cBOf sk.n a b betaPrm x xB) xu =
      .ok ((a * b + betaPrm) % sk.n % C.q) := by
  have hk : LamOK sk.n sk.lambdaN := by rw [hn, hl]; exact lamOK_of_primes hP hQ hne hlam
  obtain ⟨hA, -⟩ := aliceInit_ok C H h1
  rw [encryptWith_eq ha] at hA
  injection hA with hA
  subst hA
  exact ⟨rfl, bobMid_progress C H hb hbp hR hPr, aliceEnd_progress C H hk hx hxB hV⟩

/-! ## 3. the gates -/

/-- Alice produces a share only if Bob's proof verified … -/
theorem mta_gate_alice {Pt : Type} (C : Curve Pt) (H : HashFn) {cfg : Cfg} {sess : Bytes} {sk : PrivateKey}
    {pf : BobProof} {rpA : RP} {cA cB : Nat} {xu : Option (ECPoint × ECPoint)} {alpha : Nat}
    (h : aliceEnd C H cfg sess sk pf rpA cA cB xu = .ok alpha) :
    bobVerify C H cfg sess (sk.n : Int) rpA.ntilde rpA.h1 rpA.h2 (cA : Int) (cB : Int) pf xu = .ok true :=
  (aliceEnd_ok C H h).1

/-- … and her share is the decryption of Bob's ciphertext reduced modulo `q` -/
theorem mta_alpha_is_decrypt_mod_q {Pt : Type} (C : Curve Pt) (H : HashFn) {cfg : Cfg} {sess : Bytes}
    {sk : PrivateKey} {pf : BobProof} {rpA : RP} {cA cB : Nat} {xu : Option (ECPoint × ECPoint)} {alpha : Nat}
    (h : aliceEnd C H cfg sess sk pf rpA cA cB xu = .ok alpha) :
    ∃ alphaPrm : Nat, decrypt sk (cB : Int) = .ok alphaPrm ∧ alpha = alphaPrm % C.q :=
  (aliceEnd_ok C H h).2

/-- Bob answers only if Alice's range proof verified -/
theorem mta_gate_bob {Pt : Type} (C : Curve Pt) (H : HashFn) {cfg : Cfg} {sess : Bytes} {nA : Nat}
    {rpf : RangeProof} {b cA : Nat} {rpA rpB : RP} {B : Option ECPoint} {betaPrm xB : Nat} {k : BobCoins}
    {out : BobOut}
    (h : bobMid C H cfg sess nA rpf b cA rpA rpB B betaPrm xB k = .ok out) :
    rangeVerify cfg H C.q (nA : Int) rpB.ntilde rpB.h1 rpB.h2 (cA : Int) rpf = .ok true :=
  (bobMid_ok C H h).1

/-- a rejected `ProofBob(WC)` is reported as an error, no share is produced -/
theorem mta_reject_alice {Pt : Type} (C : Curve Pt) (H : HashFn) {cfg : Cfg} {sess : Bytes} {sk : PrivateKey}
    {pf : BobProof} {rpA : RP} {cA cB : Nat} {xu : Option (ECPoint × ECPoint)}
    (h : bobVerify C H cfg sess (sk.n : Int) rpA.ntilde rpA.h1 rpA.h2 (cA : Int) (cB : Int) pf xu = .ok false) :
    aliceEnd C H cfg sess sk pf rpA cA cB xu = .err "bob-proof-rejected" :=
  aliceEnd_of_reject C H h

/-- a rejected `RangeProofAlice` is reported as an error, Bob computes nothing -/
theorem mta_reject_bob {Pt : Type} (C : Curve Pt) (H : HashFn) {cfg : Cfg} {sess : Bytes} {nA : Nat}
    {rpf : RangeProof} {b cA : Nat} {rpA rpB : RP} {B : Option ECPoint} {betaPrm xB : Nat} {k : BobCoins}
    (h : rangeVerify cfg H C.q (nA : Int) rpB.ntilde rpB.h1 rpB.h2 (cA : Int) rpf = .ok false) :
    bobMid C H cfg sess nA rpf b cA rpA rpB B betaPrm xB k = .err "range-proof-rejected" :=
  bobMid_of_reject C H h

/-- `BobMidWC` returns `U = α·G` next to the proof (this is the `U` Alice must be given) -/
theorem mta_wc_returns_u {Pt : Type} (C : Curve Pt) (H : HashFn) {cfg : Cfg} {sess : Bytes} {nA : Nat}
    {rpf : RangeProof} {b cA : Nat} {rpA rpB : RP} {Bpt : ECPoint} {betaPrm xB : Nat} {k : BobCoins}
    {out : BobOut}
    (h : bobMid C H cfg sess nA rpf b cA rpA rpB (some Bpt) betaPrm xB k = .ok out) :
    ∃ U, out.u = some U ∧ C.ecBaseMult (k.alpha : Int) = .ok U := by
  obtain ⟨-, _, _, -, -, -, hp, -, -⟩ := bobMid_ok C H h
  exact bobProve_some_u C H hp

/-! ## 4. the public-point check of the WC variant -/

/-- **acceptance forces the point relation.** If `AliceEndWC` returns a share then, with
`e = bobChallenge …` and `s1q = s1 mod q`, the three curve calls of `ProofBobWC.Verify` succeeded and
`s1q·G` and `e·X + U` have equal coordinates; on the current tree (`bobWCGuards`) moreover `s1q ≠ 0`, `e ≠ 0`. -/
theorem mta_wc_point_check {Pt : Type} (C : Curve Pt) (H : HashFn) {cfg : Cfg} {sess : Bytes} {sk : PrivateKey}
    {pf : BobProof} {rpA : RP} {cA cB : Nat} {X U : ECPoint} {alpha : Nat}
    (h : aliceEnd C H cfg sess sk pf rpA cA cB (some (X, U)) = .ok alpha) :
    ∃ gS1 xe xeu : ECPoint,
      C.ecBaseMult ((pf.s1 % (C.q : Int)).toNat : Int) = .ok gS1 ∧
      C.ecScalarMult X (bobChallenge C H sess sk.n cA cB (some (X, U)) pf : Int) = .ok xe ∧
      C.ecAdd xe U = .ok xeu ∧ ecEquals gS1 xeu = true ∧
      (cfg.bobWCGuards = true →
        (pf.s1 % (C.q : Int)).toNat ≠ 0 ∧ bobChallenge C H sess sk.n cA cB (some (X, U)) pf ≠ 0) :=
  bobVerify_point C H (aliceEnd_ok C H h).1

/-- the same as an equation between group elements of a lawful curve: `X` and `U` are coordinates of
curve points `pX`, `pU` and `(s1 mod q)·G = e·pX + pU` -/
theorem mta_wc_point_relation {Pt : Type} (C : Curve Pt) (hC : C.Lawful) (H : HashFn) {cfg : Cfg} {sess : Bytes}
    {sk : PrivateKey} {pf : BobProof} {rpA : RP} {cA cB : Nat} {X U : ECPoint} {alpha : Nat}
    (h : aliceEnd C H cfg sess sk pf rpA cA cB (some (X, U)) = .ok alpha) :
    ∃ pX pU : Pt, C.lift X = some pX ∧ C.lift U = some pU ∧
      C.smul (pf.s1 % (C.q : Int)).toNat C.base =
        C.add (C.smul (bobChallenge C H sess sk.n cA cB (some (X, U)) pf) pX) pU := by
  obtain ⟨gS1, xe, xeu, h1, h2, h3, h4, -⟩ := mta_wc_point_check C H h
  exact point_relation C hC h1 h2 h3 h4

/-! ## 5. the ciphertexts are inputs of the challenges -/

/-- Bob's challenge is the hash of `bobPreimage n c1 c2 xu pf = [N, N+1, (X), c1, c2, (U), z, z', t, v, w]`,
tagged with the session … -/
theorem bob_challenge_preimage {Pt : Type} (C : Curve Pt) (H : HashFn) (sess : Bytes) (n c1 c2 : Int)
    (xu : Option (ECPoint × ECPoint)) (pf : BobProof) :
    bobChallenge C H sess n c1 c2 xu pf =
      rejectionSample C.q ((sha512_256iTaggedWith H sess (bobPreimage n c1 c2 xu pf)).getD 0) ∧
    bobChallenge C H sess n c1 c2 xu pf =
      bytesToNat (H (taggedPreimage H sess (bobPreimage n c1 c2 xu pf))) % C.q :=
  ⟨bobChallenge_eq C H sess n c1 c2 xu pf, bobChallenge_bytes C H sess n c1 c2 xu pf⟩

/-- … and Alice's range-proof challenge is the hash of `rangePreimage n c z u w = [N, N+1, c, z, u, w]` -/
theorem range_challenge_preimage (H : HashFn) (q : Nat) (n c z u w : Int) :
    rangeChallenge H q n c z u w =
      rejectionSample q ((sha512_256iWith H (rangePreimage n c z u w)).getD 0) ∧
    rangeChallenge H q n c z u w =
      bytesToNat (H (frame ((rangePreimage n c z u w).map intToBytesBE))) % q :=
  ⟨rfl, rfl⟩

/-- the list fed to Bob's challenge hash determines every input: modulus, both ciphertexts, the points,
and the five commitments of the proof -/
theorem bob_preimage_injective {n c1 c2 n' c1' c2' : Int} {xu xu' : Option (ECPoint × ECPoint)}
    {pf pf' : BobProof} (h : bobPreimage n c1 c2 xu pf = bobPreimage n' c1' c2' xu' pf') :
    n = n' ∧ c1 = c1' ∧ c2 = c2' ∧ xu = xu' ∧
      pf.z = pf'.z ∧ pf.zPrm = pf'.zPrm ∧ pf.t = pf'.t ∧ pf.v = pf'.v ∧ pf.w = pf'.w :=
  bobPreimage_inj h

/-- altering Alice's ciphertext `c1 = cA` changes what Bob's challenge hashes (whatever else changes) -/
theorem bob_preimage_c1_injective {n c1 c2 n' c1' c2' : Int} {xu xu' : Option (ECPoint × ECPoint)}
    {pf pf' : BobProof} (hne : c1 ≠ c1') :
    bobPreimage n c1 c2 xu pf ≠ bobPreimage n' c1' c2' xu' pf' :=
  fun h => hne (bobPreimage_inj h).2.1

/-- altering Bob's ciphertext `c2 = cB` changes what Bob's challenge hashes (whatever else changes) -/
theorem bob_preimage_c2_injective {n c1 c2 n' c1' c2' : Int} {xu xu' : Option (ECPoint × ECPoint)}
    {pf pf' : BobProof} (hne : c2 ≠ c2') :
    bobPreimage n c1 c2 xu pf ≠ bobPreimage n' c1' c2' xu' pf' :=
  fun h => hne (bobPreimage_inj h).2.2.1

/-- altering Alice's ciphertext changes what her range-proof challenge hashes (whatever else changes) -/
theorem range_preimage_c_injective {n c z u w n' c' z' u' w' : Int} (hne : c ≠ c') :
    rangePreimage n c z u w ≠ rangePreimage n' c' z' u' w' :=
  fun h => hne (rangePreimage_inj h).2.1

/-- **tampering changes the pre-image**: the three statements for a message altered in transit, everything
else unchanged — `cA` on its way to Bob (range-proof challenge), `cA` or `cB` on the way back to Alice
(Bob's challenge) -/
theorem mta_tamper_changes_preimage {n cA cA' cB cB' z u w : Int} {xu : Option (ECPoint × ECPoint)}
    {pf : BobProof} :
    (cA ≠ cA' → rangePreimage n cA z u w ≠ rangePreimage n cA' z u w) ∧
    (cA ≠ cA' → bobPreimage n cA cB xu pf ≠ bobPreimage n cA' cB xu pf) ∧
    (cB ≠ cB' → bobPreimage n cA cB xu pf ≠ bobPreimage n cA cB' xu pf) :=
  ⟨range_preimage_c_injective, bob_preimage_c1_injective, bob_preimage_c2_injective⟩

/-- **byte level, Bob's challenge**: for ciphertexts as they travel (natural numbers), a changed `cA` or
`cB` changes the byte string that reaches `H` — the framing of `SHA512_256i_TAGGED` is injective
(`C16.frame_injective`) and `Bytes()` is injective on naturals. `Short`: every element is shorter than
`2^64` bytes. -/
theorem bob_hash_input_injective (H : HashFn) (sess : Bytes) {n n' : Int} {cA cB cA' cB' : Nat}
    {xu xu' : Option (ECPoint × ECPoint)} {pf pf' : BobProof}
    (hs : C16L.Short ((bobPreimage n cA cB xu pf).map intToBytesBE))
    (hs' : C16L.Short ((bobPreimage n' cA' cB' xu' pf').map intToBytesBE))
    (h : taggedPreimage H sess (bobPreimage n cA cB xu pf) =
      taggedPreimage H sess (bobPreimage n' cA' cB' xu' pf')) :
    cA = cA' ∧ cB = cB' := by
  have := tagged_int_natAbs H hs hs' h
  rcases xu with _ | ⟨⟨X1, X2⟩, ⟨U1, U2⟩⟩ <;> rcases xu' with _ | ⟨⟨X1', X2'⟩, ⟨U1', U2'⟩⟩ <;>
    simp [bobPreimage] at this
  · exact ⟨this.2.2.1, this.2.2.2.1⟩
  · exact ⟨this.2.2.2.2.1, this.2.2.2.2.2.1⟩

/-- **byte level, Alice's range-proof challenge** -/
theorem range_hash_input_injective {n n' z u w z' u' w' : Int} {cA cA' : Nat}
    (hs : C16L.Short ((rangePreimage n cA z u w).map intToBytesBE))
    (hs' : C16L.Short ((rangePreimage n' cA' z' u' w').map intToBytesBE))
    (h : frame ((rangePreimage n cA z u w).map intToBytesBE) =
      frame ((rangePreimage n' cA' z' u' w').map intToBytesBE)) :
    cA = cA' := by
  have := frame_int_natAbs hs hs' h
  simp [rangePreimage] at this
  exact this.2.2.1

/-- hence: a tampered ciphertext that leaves Bob's challenge digest unchanged exhibits a collision of `H` -/
theorem bob_tamper_collision (H : HashFn) (sess : Bytes) {n n' : Int} {cA cB cA' cB' : Nat}
    {xu xu' : Option (ECPoint × ECPoint)} {pf pf' : BobProof}
    (hs : C16L.Short ((bobPreimage n cA cB xu pf).map intToBytesBE))
    (hs' : C16L.Short ((bobPreimage n' cA' cB' xu' pf').map intToBytesBE))
    (hne : cA ≠ cA' ∨ cB ≠ cB')
    (h : H (taggedPreimage H sess (bobPreimage n cA cB xu pf)) =
      H (taggedPreimage H sess (bobPreimage n' cA' cB' xu' pf'))) :
    ∃ x y : Bytes, x ≠ y ∧ H x = H y :=
  ⟨_, _, fun he => by
    obtain ⟨e1, e2⟩ := bob_hash_input_injective H sess hs hs' he
    rcases hne with hne | hne
    · exact hne e1
    · exact hne e2, h⟩

/-! ## the hypotheses are satisfiable; runs of the executable model

Toy parameters: Alice's key `P = 29`, `Q = 31` (`n = 899`, `λ = 420`); the exponent curve
`zmodCurve 5` (`q = 5`, proved lawful); ring-Pedersen parameters `Ñ = 253 = 11·23`; secrets `a = 3`,
`b = 4`, mask `β' = 102 < 5⁵`, `a b + β' = 114 < 899`. -/
namespace Toy

instance fact5 : Fact (Nat.Prime 5) := ⟨by norm_num⟩
abbrev C5 : Curve (ZMod 5) := zmodCurve 5
/-- a constant hash: every challenge is `1` (evaluated by `decide`) -/
def H1 : HashFn := fun _ => [1]
/-- a hash that depends on every input byte: the byte sum (evaluated by `decide +kernel`: the byte
encoding `natToBytesLE` is a well-founded recursion, which only the kernel unfolds) -/
def Hsum : HashFn := fun b => [UInt8.ofNat (b.foldl (fun acc x => acc + x.toNat) 0)]
def sk : PrivateKey := ⟨899, 420, 840, 29, 31⟩
def rpA : RP := ⟨253, 4, 16⟩
def rpB : RP := ⟨253, 9, 3⟩
def kB : BobCoins := ⟨12, 11, 13, 17, 19, 23, 29⟩
deriving instance DecidableEq for TssVerif.Mta.BobOut

/-- Alice's message `(cA, range proof)`; the same for both hashes (the challenge happens to be `1` in both) -/
def msgA : Nat × RangeProof := (7983, ⟨47, 787638, 174, 6, 13, 12⟩)
/-- Bob's answer under `H1`, without and with the public point `B = 4·G = (4, 0)`; `U = 12·G = (2, 0)` -/
def outB : BobOut := ⟨3, 662636, 102, ⟨26, 232, 31, 417259, 9, 69, 16, 30, 131, 30⟩, none⟩
def outBwc : BobOut := { outB with u := some (2, 0) }

/-- the arithmetic hypotheses of `mta_arith`, `mta_correct` hold -/
example : 3 < C5.q ∧ 4 < C5.q ∧ 102 < C5.q ^ 5 ∧ 3 * 4 + 102 < sk.n ∧ Nat.gcd 2 sk.n = 1 ∧ Nat.gcd 3 sk.n = 1 ∧
    sk.n = 29 * 31 ∧ sk.lambdaN = Nat.lcm (29 - 1) (31 - 1) ∧
    Nat.gcd (Nat.lcm (29 - 1) (31 - 1)) (29 * 31) = 1 := by decide
example : C5.Lawful := zmodCurve_lawful 5

/-- `mta_arith` instantiated: `α = 114 mod 5 = 4`, `β = −102 mod 5 = 3`, `4 + 3 ≡ 12 (mod 5)` -/
example : ((3 * 4 + 102) % 899 % 5 + (((0 : Int) - ((102 : Nat) : Int)) % ((5 : Nat) : Int)).toNat) % 5 = 3 * 4 % 5 :=
  mta_arith (by omega) (by omega)

/-- **a full run through the proof gates**, no public point: all three calls evaluated on the model -/
theorem run_init : aliceInit C5 H1 899 3 rpB 2 10 3 7 5 = .ok msgA := by decide
theorem run_mid : bobMid C5 H1 cur [] 899 msgA.2 4 msgA.1 rpA rpB none 102 3 kB = .ok outB := by decide
theorem run_end : aliceEnd C5 H1 cur [] sk outB.pf rpA msgA.1 outB.cB none = .ok 4 := by decide

/-- `mta_correct` applied to that run -/
example : (4 + outB.beta) % C5.q = 3 * 4 % C5.q :=
  mta_correct C5 H1 (P := 29) (Q := 31) (by norm_num) (by norm_num) (by omega) (by decide) sk rfl (by decide)
    cur cur [] rpA rpB 10 3 7 5 kB (by decide) (by decide) (by decide) (by decide) run_init run_mid run_end
example : outB.beta = 3 ∧ (4 + 3) % 5 = 3 * 4 % 5 := by decide

/-- **the WC run**: Bob attaches `B = b·G = (4, 0)` and Alice checks against `(B, U)` -/
theorem run_mid_wc : bobMid C5 H1 cur [] 899 msgA.2 4 msgA.1 rpA rpB (some (4, 0)) 102 3 kB = .ok outBwc := by
  decide
theorem run_end_wc : aliceEnd C5 H1 cur [] sk outBwc.pf rpA msgA.1 outBwc.cB (some ((4, 0), (2, 0))) = .ok 4 := by
  decide
example : (4 + outBwc.beta) % C5.q = 3 * 4 % C5.q :=
  mta_correct_wc C5 H1 (P := 29) (Q := 31) (by norm_num) (by norm_num) (by omega) (by decide) sk rfl (by decide)
    cur cur [] rpA rpB 10 3 7 5 kB (4, 0) (2, 0) (by decide) (by decide) (by decide) (by decide)
    run_init run_mid_wc run_end_wc
example : C5.ecBaseMult 4 = .ok (4, 0) := by decide

/-- a public point that is not `b·G` (`3·G` instead of `4·G`): Alice rejects -/
example : aliceEnd C5 H1 cur [] sk outBwc.pf rpA msgA.1 outBwc.cB (some ((3, 0), (2, 0))) =
    .err "bob-proof-rejected" := by decide

/-- tampering in transit: Alice's ciphertext altered on the way to Bob; Bob's ciphertext (or the copy of
Alice's) altered on the way back — the receiving side rejects, no share is produced -/
example : bobMid C5 H1 cur [] 899 msgA.2 4 (msgA.1 + 1) rpA rpB none 102 3 kB = .err "range-proof-rejected" := by
  decide
example : aliceEnd C5 H1 cur [] sk outB.pf rpA msgA.1 (outB.cB + 1) none = .err "bob-proof-rejected" := by decide
example : aliceEnd C5 H1 cur [] sk outB.pf rpA (msgA.1 + 1) outB.cB none = .err "bob-proof-rejected" := by decide
example : aliceEnd C5 H1 cur [] sk outBwc.pf rpA msgA.1 (outBwc.cB + 1) (some ((4, 0), (2, 0))) =
    .err "bob-proof-rejected" := by decide

/-- the same runs with a hash that reads its input (`Hsum`), evaluated by the kernel -/
def outS : BobOut := ⟨3, 662636, 102, ⟨26, 232, 31, 417259, 9, 207, 20, 41, 233, 43⟩, none⟩
def outSwc : BobOut := ⟨3, 662636, 102, ⟨26, 232, 31, 417259, 9, 621, 24, 52, 335, 56⟩, some (2, 0)⟩
example : aliceInit C5 Hsum 899 3 rpB 2 10 3 7 5 = .ok msgA := by decide +kernel
example : bobMid C5 Hsum cur [] 899 msgA.2 4 msgA.1 rpA rpB none 102 3 kB = .ok outS := by decide +kernel
example : aliceEnd C5 Hsum cur [] sk outS.pf rpA msgA.1 outS.cB none = .ok 4 := by decide +kernel
example : bobMid C5 Hsum cur [] 899 msgA.2 4 msgA.1 rpA rpB (some (4, 0)) 102 3 kB = .ok outSwc := by
  decide +kernel
example : aliceEnd C5 Hsum cur [] sk outSwc.pf rpA msgA.1 outSwc.cB (some ((4, 0), (2, 0))) = .ok 4 := by
  decide +kernel
example : aliceEnd C5 Hsum cur [] sk outSwc.pf rpA msgA.1 outSwc.cB (some ((3, 0), (2, 0))) =
    .err "bob-proof-rejected" := by decide +kernel
example : aliceEnd C5 Hsum cur [] sk outS.pf rpA msgA.1 (outS.cB + 1) none = .err "bob-proof-rejected" := by
  decide +kernel
example : bobMid C5 Hsum cur [] 899 msgA.2 4 (msgA.1 + 1) rpA rpB none 102 3 kB = .err "range-proof-rejected" := by
  decide +kernel

/-- wrap-around is real when the modulus is too small: `a b + β' = 12 + 890 ≥ 899` decrypts to `3`, and
`α + β = 3 + 0 ≢ 12 (mod 5)` — the no-wrap hypothesis of `mta_arith` cannot be dropped -/
example : ((3 * 4 + 890) % 899 % 5 + (((0 : Int) - ((890 : Nat) : Int)) % ((5 : Nat) : Int)).toNat) % 5 ≠ 3 * 4 % 5 := by
  decide

/-- … and the model has no guard against it: with `β' = 890` every gate accepts, Alice gets `α = 3`,
Bob `β = 0`, and `3 + 0 ≢ 12 (mod 5)`. The no-wrap hypothesis of `mta_correct` cannot be dropped; for real
parameters it holds by `mta_no_wrap`. -/
example : (bobMid C5 H1 cur [] 899 msgA.2 4 msgA.1 rpA rpB none 890 3 kB >>= fun out =>
    aliceEnd C5 H1 cur [] sk out.pf rpA msgA.1 out.cB none >>= fun alpha =>
      (.ok (alpha, out.beta) : Outcome (Nat × Nat))) = .ok (3, 0) := by decide

end Toy

end TssVerif.C13
