import TssVerif.Lemmas.C05Kg4
import Mathlib.Tactic.NormNum.Prime
/-! # C05h — one deviating participant in the last round of ECDSA key generation: who is named

Property C05: "… every error an honest participant reports names no participant other than the deviating one …,
and whenever the altered value is covered by a … zero-knowledge proof the reporting participant names exactly the
deviating one. No honest participant outputs key data … [when a check fails]."

The object is the round-level model `BlameEc.kgRound4` / `BlameEc.kg4Peer` of `Core/BlameEc4.lean`
(`ecdsa/keygen/round_4.go`): every peer's Paillier key-correctness proof (`KGRound3Message`) is verified with
`Paillier.proofVerify` against the modulus saved for that peer in round 2, the peer's party key and the group public
key; a verifier error counts as "not accepted"; EVERY peer whose proof is not accepted is named, in index order; the
result `[]` means the party emits its key data. Everything holds for every hash `H`, every verifier configuration
`pcfg`, every public key and unboundedly many peers. "Every peer except `dev` is honest" is the judgement "every peer
with `idx ≠ dev` passes its per-peer check"; the party's own index is simply not among `peers.map (·.idx)`.

How the clauses of the property are covered:

* "an error names nobody but the deviator": `kg4_culprit_iff` (exactly the failing peers are named),
  `kg4_single_deviator` (parts 1, 4);
* "a value covered by a zero-knowledge proof names exactly the deviator": `kg4Peer_true_iff`,
  `kg4Peer_false_iff`, `kg4_verifier_error_is_rejection`, `kg4Peer_accept_spec` (what acceptance means: no prime
  below 1000 divides `N`, the 13 challenges exist, 13 numbers with `proof[i]^N ≡ x_i (mod N)`),
  `kg4_small_factor_blamed`, `kg4_covered_alteration_blamed`, `kg4_single_deviator` (parts 2, 3);
* "no honest participant is named" / the party never names itself: `kg4_culprits_are_senders`,
  `kg4_never_names_self` (with `kg4_single_deviator`: an honest peer passes, so it is not named);
* "no key data when a check fails": `kg4_pass_iff`, `kg4_clean_iff`, `kg4_no_key_data_when_a_check_fails`;
* "the call returns": `kg4_no_panic`, `kg4_returns` (every proof has the 13 numbers that
  `KGRound3Message.ValidateBasic` requires; every `pcfg`), `kg4_no_unattributed_error` (no hypothesis);
  the hypothesis is needed in the model: `kg4Peer_panics_iff`, `kg4_short_proof_panics_witness`,
  `kg4_short_proof_panics_round_witness`. -/
set_option autoImplicit false
namespace TssVerif.C05h
open TssVerif BlameEc C05SgL C05Kg4L C06L

variable (H : HashFn) (pcfg : Paillier.ProofCfg) (ecdsaPub : ECPoint)

/-! ## 1. exactly the failing peers are named -/

/-- **(a) exactly the failing peers are named** -/
theorem kg4_culprit_iff (peers : List R3Peer) (cs : List Nat)
    (h : kgRound4 H pcfg ecdsaPub peers = .ok cs) (j : Nat) :
    j ∈ cs ↔ ∃ p ∈ peers, p.idx = j ∧ kg4Peer H pcfg ecdsaPub p = .ok false := by
  obtain ⟨_, rfl⟩ := (kgRound4_ok_iff H pcfg ecdsaPub peers cs).1 h
  rw [mem_named]
  constructor
  · rintro ⟨p, hp, hj, v, hv, hb⟩
    exact ⟨p, hp, hj, (flagged_bad2_iff _).1 ((flagged_iff bad2 _).2 ⟨v, hv, hb⟩)⟩
  · rintro ⟨p, hp, hj, hf⟩
    exact ⟨p, hp, hj, false, hf, rfl⟩

/-- **(b) the names are a sub-list of the peer indices** (peer order, no duplicates when these are distinct) -/
theorem kg4_culprits_are_senders (peers : List R3Peer) (cs : List Nat)
    (h : kgRound4 H pcfg ecdsaPub peers = .ok cs) :
    cs.Sublist (peers.map (·.idx)) ∧ (∀ c ∈ cs, c ∈ peers.map (·.idx)) ∧
      ((peers.map (·.idx)).Nodup → cs.Nodup) := by
  obtain ⟨_, rfl⟩ := (kgRound4_ok_iff H pcfg ecdsaPub peers cs).1 h
  have hs := named_sublist (fun p : R3Peer => p.idx) bad2 (kg4Peer H pcfg ecdsaPub) peers
  exact ⟨hs, fun c hc => hs.subset hc, fun hnd => hnd.sublist hs⟩

/-- … so the party never names itself (its own index is not among the peers') -/
theorem kg4_never_names_self (peers : List R3Peer) (cs : List Nat) (self : Nat)
    (hself : self ∉ peers.map (·.idx)) (h : kgRound4 H pcfg ecdsaPub peers = .ok cs) : self ∉ cs :=
  fun hm => hself ((kg4_culprits_are_senders H pcfg ecdsaPub peers cs h).2.1 self hm)

/-! ## 2. key data only when every peer passes -/

/-- **(d) the round passes (the key data is emitted) iff every peer's proof is accepted** -/
theorem kg4_pass_iff (peers : List R3Peer) :
    kgRound4 H pcfg ecdsaPub peers = .ok [] ↔ ∀ p ∈ peers, kg4Peer H pcfg ecdsaPub p = .ok true := by
  rw [kgRound4_ok_iff]
  constructor
  · rintro ⟨hall, hnil⟩ p hp
    obtain ⟨v, hv⟩ := hall p hp
    have := (named_eq_nil_iff _ _ _ _).1 hnil.symm p hp
    rw [hv] at this ⊢
    cases v
    · cases this
    · rfl
  · intro hall
    refine ⟨fun p hp => ⟨true, hall p hp⟩, ((named_eq_nil_iff _ _ _ _).2 fun p hp => ?_).symm⟩
    exact flagged_bad2_of_true (hall p hp)

/-- the same for a returned list: it is empty iff every peer's proof is accepted -/
theorem kg4_clean_iff (peers : List R3Peer) (cs : List Nat) (h : kgRound4 H pcfg ecdsaPub peers = .ok cs) :
    cs = [] ↔ ∀ p ∈ peers, kg4Peer H pcfg ecdsaPub p = .ok true := by
  rw [← kg4_pass_iff, h]
  constructor
  · intro hc; rw [hc]
  · intro hc; exact Outcome.ok.inj hc

/-- **no key data when a check fails**: if some peer's proof is not accepted the round does not return `[]`
(it returns a non-empty culprit list, or does not return a list at all) -/
theorem kg4_no_key_data_when_a_check_fails (peers : List R3Peer) (p : R3Peer) (hp : p ∈ peers)
    (hbad : kg4Peer H pcfg ecdsaPub p ≠ .ok true) : kgRound4 H pcfg ecdsaPub peers ≠ .ok [] :=
  fun h => hbad ((kg4_pass_iff H pcfg ecdsaPub peers).1 h p hp)

/-! ## 3. one deviator -/

/-- **(c) one deviator**: every peer other than `dev` passes. Then (1) whatever the round returns names nobody
but `dev`; (2) for distinct indices it returns exactly `[dev]` iff `dev`'s own check failed; (3) if `dev`'s
check fails the round does return `[dev]`; (4) if it passes too the round returns `[]`. -/
theorem kg4_single_deviator (peers : List R3Peer) (dev : Nat)
    (hothers : ∀ p ∈ peers, p.idx ≠ dev → kg4Peer H pcfg ecdsaPub p = .ok true) :
    (∀ cs, kgRound4 H pcfg ecdsaPub peers = .ok cs → ∀ c ∈ cs, c = dev) ∧
    (∀ cs, (peers.map (·.idx)).Nodup → kgRound4 H pcfg ecdsaPub peers = .ok cs →
      (cs = [dev] ↔ ∃ d ∈ peers, d.idx = dev ∧ kg4Peer H pcfg ecdsaPub d = .ok false)) ∧
    (∀ d ∈ peers, d.idx = dev → (peers.map (·.idx)).Nodup → kg4Peer H pcfg ecdsaPub d = .ok false →
      kgRound4 H pcfg ecdsaPub peers = .ok [dev]) ∧
    ((∀ d ∈ peers, d.idx = dev → kg4Peer H pcfg ecdsaPub d = .ok true) →
      kgRound4 H pcfg ecdsaPub peers = .ok []) := by
  have ho : ∀ p ∈ peers, p.idx ≠ dev → flagged bad2 (kg4Peer H pcfg ecdsaPub p) = false :=
    fun p hp hne => flagged_bad2_of_true (hothers p hp hne)
  obtain ⟨h1, h2⟩ := named_single_deviator (fun p : R3Peer => p.idx) bad2 (kg4Peer H pcfg ecdsaPub) peers dev ho
  refine ⟨?_, ?_, ?_, ?_⟩
  · intro cs h
    obtain ⟨_, rfl⟩ := (kgRound4_ok_iff H pcfg ecdsaPub peers cs).1 h
    exact h1
  · intro cs hnd h
    obtain ⟨_, rfl⟩ := (kgRound4_ok_iff H pcfg ecdsaPub peers cs).1 h
    rw [h2 hnd]
    constructor
    · rintro ⟨d, hd, hdev, hb⟩; exact ⟨d, hd, hdev, (flagged_bad2_iff _).1 hb⟩
    · rintro ⟨d, hd, hdev, hb⟩; exact ⟨d, hd, hdev, (flagged_bad2_iff _).2 hb⟩
  · intro d hd hdev hnd hbad
    refine (kgRound4_ok_iff H pcfg ecdsaPub peers [dev]).2 ⟨fun p hp => ?_, ?_⟩
    · by_cases he : p.idx = dev
      · have : p = d := eq_of_nodup_map' (fun q : R3Peer => q.idx) hnd hp hd (he.trans hdev.symm)
        exact ⟨false, this ▸ hbad⟩
      · exact ⟨true, hothers p hp he⟩
    · exact ((h2 hnd).2 ⟨d, hd, hdev, (flagged_bad2_iff _).2 hbad⟩).symm
  · intro hdev
    refine (kg4_pass_iff H pcfg ecdsaPub peers).2 fun p hp => ?_
    by_cases he : p.idx = dev
    · exact hdev p hp he
    · exact hothers p hp he

/-! ## 4. the per-peer check against the verifier -/

/-- **(e) accepted iff the verifier says `true`** -/
theorem kg4Peer_true_iff (p : R3Peer) :
    kg4Peer H pcfg ecdsaPub p = .ok true ↔
      Paillier.proofVerify pcfg H (p.proof.map Int.ofNat) p.paillierN p.partyKey ecdsaPub = .ok true :=
  kg4Peer_true_iff' H pcfg ecdsaPub p

/-- rejected iff the verifier says `false` or reports an error -/
theorem kg4Peer_false_iff (p : R3Peer) :
    kg4Peer H pcfg ecdsaPub p = .ok false ↔
      Paillier.proofVerify pcfg H (p.proof.map Int.ofNat) p.paillierN p.partyKey ecdsaPub = .ok false ∨
      ∃ e, Paillier.proofVerify pcfg H (p.proof.map Int.ofNat) p.paillierN p.partyKey ecdsaPub = .err e :=
  kg4Peer_false_iff' H pcfg ecdsaPub p

/-- **a verifier error is a rejection** (`GenerateXs` giving up: `ok, err := Verify(..); if err != nil { false }`) -/
theorem kg4_verifier_error_is_rejection (p : R3Peer) (e : String)
    (h : Paillier.proofVerify pcfg H (p.proof.map Int.ofNat) p.paillierN p.partyKey ecdsaPub = .err e) :
    kg4Peer H pcfg ecdsaPub p = .ok false :=
  kg4Peer_of_err H pcfg ecdsaPub p e h

/-- the goroutine itself never reports an error -/
theorem kg4Peer_no_error (p : R3Peer) (e : String) : kg4Peer H pcfg ecdsaPub p ≠ .err e :=
  kg4Peer_noErr H pcfg ecdsaPub p e

/-- **(f) what acceptance means** (exact: iff): no prime below 1000 divides the peer's modulus `N`; the 13
challenges `x_i = GenerateXs(13, partyKey, N, ecdsaPub)` exist; the proof has 13 numbers and
`proof[i]^N ≡ x_i (mod N)` for each. (That `N`-th roots of 13 hash-derived units exist only when
`gcd(N, φ(N)) = 1`, up to probability, is the statistical step and is not stated.) -/
theorem kg4Peer_accept_spec (p : R3Peer) :
    kg4Peer H pcfg ecdsaPub p = .ok true ↔
      (∀ q : Nat, q.Prime → q < 1000 → ¬ q ∣ p.paillierN) ∧
      ∃ xs, Paillier.generateXs H Paillier.proofIters p.partyKey p.paillierN ecdsaPub = some xs ∧
        p.proof.length = Paillier.proofIters ∧
        ∀ i, i < Paillier.proofIters → (p.proof.getD i 0) ^ p.paillierN % p.paillierN = xs.getD i 0 % p.paillierN := by
  rw [kg4Peer_true_iff]
  exact proofVerify_true_iff_nat pcfg H p.proof p.paillierN p.partyKey ecdsaPub

/-- … in particular an accepted modulus is positive and the accepted proof has 13 numbers -/
theorem kg4Peer_accept_basic (p : R3Peer) (h : kg4Peer H pcfg ecdsaPub p = .ok true) :
    0 < p.paillierN ∧ p.proof.length = 13 := by
  obtain ⟨_, xs, hx, hl, _⟩ := (kg4Peer_accept_spec H pcfg ecdsaPub p).1 h
  have := C11L.generateXs_some_pos (m := Paillier.proofIters) (Nat.succ_pos 12) hx
  exact ⟨by omega, hl⟩

/-- **a modulus with a prime factor below 1000 is rejected**, whatever the proof is -/
theorem kg4_small_factor_blamed (p : R3Peer) (q : Nat) (hq : q.Prime) (hlt : q < 1000) (hd : q ∣ p.paillierN) :
    kg4Peer H pcfg ecdsaPub p = .ok false :=
  (kg4Peer_false_iff H pcfg ecdsaPub p).2
    (Or.inl (proofVerify_small_factor pcfg H _ p.paillierN p.partyKey ecdsaPub q hq hlt hd))

/-- **a covered alteration is blamed on its sender**: a proof the verifier does not accept (rejected, or a verifier
error) puts the peer's index in the list, and the key data is not emitted -/
theorem kg4_covered_alteration_blamed (peers : List R3Peer) (cs : List Nat) (p : R3Peer) (hp : p ∈ peers)
    (hbad : Paillier.proofVerify pcfg H (p.proof.map Int.ofNat) p.paillierN p.partyKey ecdsaPub = .ok false ∨
      ∃ e, Paillier.proofVerify pcfg H (p.proof.map Int.ofNat) p.paillierN p.partyKey ecdsaPub = .err e)
    (h : kgRound4 H pcfg ecdsaPub peers = .ok cs) : p.idx ∈ cs ∧ cs ≠ [] := by
  have hm := (kg4_culprit_iff H pcfg ecdsaPub peers cs h p.idx).2
    ⟨p, hp, rfl, (kg4Peer_false_iff H pcfg ecdsaPub p).2 hbad⟩
  exact ⟨hm, List.ne_nil_of_mem hm⟩

/-! ## 5. the call returns -/

/-- exact crash condition of the per-peer check, for every configuration: a proof that does not have 13 numbers
with a modulus that passes the small-prime screen and for which the 13 challenges exist -/
theorem kg4Peer_panics_iff (p : R3Peer) (tag : String) :
    kg4Peer H pcfg ecdsaPub p = .panic tag ↔
      tag = "index" ∧ p.proof.length ≠ Paillier.proofIters ∧
      (∀ q : Nat, q.Prime → q < 1000 → ¬ q ∣ p.paillierN) ∧
      (Paillier.generateXs H Paillier.proofIters p.partyKey p.paillierN ecdsaPub).isSome = true := by
  rw [kg4Peer_panic_iff', smallPrimes_any_false_iff]

/-- **round 4 never crashes** when every proof has the 13 numbers `KGRound3Message.ValidateBasic` asks for
(in Go the proof is the array type `[ProofIters]*big.Int`); for every `pcfg`, nothing else assumed -/
theorem kg4_no_panic (peers : List R3Peer) (hlen : ∀ p ∈ peers, p.proof.length = Paillier.proofIters)
    (tag : String) : kgRound4 H pcfg ecdsaPub peers ≠ .panic tag :=
  kgRound4_noPanic_of H pcfg ecdsaPub peers (fun p hp => kg4Peer_noPanic H pcfg ecdsaPub p (hlen p hp)) tag

/-- … more: it always returns a culprit list -/
theorem kg4_returns (peers : List R3Peer) (hlen : ∀ p ∈ peers, p.proof.length = Paillier.proofIters) :
    ∃ cs, kgRound4 H pcfg ecdsaPub peers = .ok cs :=
  ⟨_, kgRound4_total H pcfg ecdsaPub peers hlen⟩

/-- and, with no hypothesis at all, it never reports an error without a culprit -/
theorem kg4_no_unattributed_error (peers : List R3Peer) (e : String) : kgRound4 H pcfg ecdsaPub peers ≠ .err e :=
  kgRound4_noErr H pcfg ecdsaPub peers e

/-- **the length hypothesis is needed in the model**: an empty proof with the prime modulus `1009` (passes the
small-prime screen; with the constant hash `[1]` every challenge is the unit `1`) indexes out of range — for
every configuration -/
theorem kg4_short_proof_panics_witness :
    kg4Peer (fun _ => [1]) pcfg (1, 2) ⟨1, 1009, 5, []⟩ = .panic "index" := by
  refine (kg4Peer_panics_iff _ _ _ _ _).2 ⟨rfl, by decide, fun q hq hlt hd => ?_, by decide⟩
  have := (Nat.prime_dvd_prime_iff_eq hq (by norm_num : Nat.Prime 1009)).1 hd
  omega

/-- … and the crash reaches the round, also behind a peer that is rejected -/
theorem kg4_short_proof_panics_round_witness :
    kgRound4 (fun _ => [1]) pcfg (1, 2) [⟨1, 1009, 5, []⟩] = .panic "index" ∧
    kgRound4 (fun _ => [1]) pcfg (1, 2) [⟨2, 15, 5, []⟩, ⟨1, 1009, 5, []⟩] = .panic "index" := by
  refine ⟨kgRound4_panic_of _ pcfg _ [] [] _ _ (fun _ h => nomatch h) (kg4_short_proof_panics_witness pcfg), ?_⟩
  refine kgRound4_panic_of _ pcfg _ [⟨2, 15, 5, []⟩] [] _ _ (fun q hq => ?_) (kg4_short_proof_panics_witness pcfg)
  rw [List.mem_singleton.1 hq]
  exact ⟨false, kg4_small_factor_blamed _ pcfg _ ⟨2, 15, 5, []⟩ 3 (by norm_num) (by omega) ⟨5, rfl⟩⟩

/-! ## 6. the hypotheses are satisfiable -/

/-- a trivial "hash": every digest is the byte `3` (the theorems hold for every `H`) -/
def H0 : HashFn := fun _ => [3]

/-- an honest-looking peer: `N = 1009·1013`, every challenge is `3`, its `N`-th root modulo `N` is `1008729` -/
def good : R3Peer := ⟨1, 1009 * 1013, 1, List.replicate 13 1008729⟩

/-- a peer whose modulus `15` has the factor `3` -/
def bad : R3Peer := ⟨2, 15, 1, List.replicate 13 1⟩

theorem no_small_factor_1009_1013 : ∀ q : Nat, q.Prime → q < 1000 → ¬ q ∣ 1009 * 1013 := by
  intro q hq hlt hd
  rcases (Nat.Prime.dvd_mul hq).1 hd with h | h
  · have := (Nat.prime_dvd_prime_iff_eq hq (by norm_num : Nat.Prime 1009)).1 h
    omega
  · have := (Nat.prime_dvd_prime_iff_eq hq (by norm_num : Nat.Prime 1013)).1 h
    omega

set_option maxRecDepth 100000 in
/-- the good peer is accepted (kernel evaluation of the verifier, for every configuration) -/
theorem good_accepted : kg4Peer H0 pcfg (1, 2) good = .ok true := by
  rw [kg4Peer_true_iff]
  unfold Paillier.proofVerify
  rw [show ((good.paillierN : Nat) : Int) = ((1009 * 1013 : Nat) : Int) from rfl,
    (smallPrimes_any_false_iff (1009 * 1013)).2 no_small_factor_1009_1013]
  have hx : Paillier.generateXs H0 Paillier.proofIters ((good.partyKey : Nat) : Int) ((1009 * 1013 : Nat) : Int)
      (1, 2) = some (List.replicate 13 3) := by decide
  rw [hx]
  simp only [Bool.false_eq_true, if_false]
  decide

/-- the bad peer is rejected (`kg4_small_factor_blamed` applies) -/
theorem bad_rejected : kg4Peer H0 pcfg (1, 2) bad = .ok false :=
  kg4_small_factor_blamed H0 pcfg (1, 2) bad 3 (by norm_num) (by omega) ⟨5, rfl⟩

/-- the acceptance condition holds of the good peer -/
example : (∀ q : Nat, q.Prime → q < 1000 → ¬ q ∣ good.paillierN) ∧
    ∃ xs, Paillier.generateXs H0 Paillier.proofIters good.partyKey good.paillierN (1, 2) = some xs ∧
      good.proof.length = Paillier.proofIters ∧
      ∀ i, i < Paillier.proofIters → (good.proof.getD i 0) ^ good.paillierN % good.paillierN =
        xs.getD i 0 % good.paillierN :=
  (kg4Peer_accept_spec H0 pcfg (1, 2) good).1 (good_accepted pcfg)

/-- a two-peer list where exactly one is named -/
example : kgRound4 H0 pcfg (1, 2) [good, bad] = .ok [2] := by
  refine (kg4_single_deviator H0 pcfg (1, 2) [good, bad] 2 ?_).2.2.1 bad (by simp) rfl (by decide) (bad_rejected pcfg)
  intro p hp hne
  rcases List.mem_cons.1 hp with rfl | hp
  · exact good_accepted pcfg
  · rw [List.mem_singleton.1 hp] at hne; exact absurd rfl hne

example : kgRound4 H0 pcfg (1, 2) [bad, good] = .ok [2] := by
  refine (kg4_single_deviator H0 pcfg (1, 2) [bad, good] 2 ?_).2.2.1 bad (by simp) rfl (by decide) (bad_rejected pcfg)
  intro p hp hne
  rcases List.mem_cons.1 hp with rfl | hp
  · exact absurd rfl hne
  · rw [List.mem_singleton.1 hp]; exact good_accepted pcfg

/-- the hypotheses of `kg4_single_deviator` hold of `[good, bad]` with `dev = 2`: the other peer passes, the
indices are distinct, the deviator is in the list and fails -/
example : (∀ p ∈ [good, bad], p.idx ≠ 2 → kg4Peer H0 pcfg (1, 2) p = .ok true) ∧
    ([good, bad].map (·.idx)).Nodup ∧ bad ∈ [good, bad] ∧ bad.idx = 2 ∧ kg4Peer H0 pcfg (1, 2) bad = .ok false := by
  refine ⟨fun p hp hne => ?_, by decide, by simp, rfl, bad_rejected pcfg⟩
  rcases List.mem_cons.1 hp with rfl | hp
  · exact good_accepted pcfg
  · rw [List.mem_singleton.1 hp] at hne; exact absurd rfl hne

/-- the passing branch: with only the good peer nobody is named and the key data is emitted -/
example : kgRound4 H0 pcfg (1, 2) [good] = .ok [] :=
  (kg4_pass_iff H0 pcfg (1, 2) [good]).2 fun p hp => by rw [List.mem_singleton.1 hp]; exact good_accepted pcfg

/-- the hypotheses of `kg4_no_panic` / `kg4_returns` hold of `[good, bad]`; `self = 0` is not a sender -/
example : (∀ p ∈ [good, bad], p.proof.length = Paillier.proofIters) ∧ 0 ∉ [good, bad].map (·.idx) := by
  refine ⟨fun p hp => ?_, by decide⟩
  rcases List.mem_cons.1 hp with rfl | hp
  · rfl
  · rw [List.mem_singleton.1 hp]; rfl

/-- a verifier error (the modulus `1`: no unit exists, `GenerateXs` gives up) is a rejection -/
example : kg4Peer H pcfg ecdsaPub ⟨3, 1, 0, []⟩ = .ok false := by
  cases hb : pcfg.boundedXs
  · exact kg4_verifier_error_is_rejection H pcfg ecdsaPub ⟨3, 1, 0, []⟩ "hang"
      (by rw [show (((⟨3, 1, 0, []⟩ : R3Peer).paillierN : Nat) : Int) = 1 from rfl, proofVerify_one, hb]; rfl)
  · exact kg4_verifier_error_is_rejection H pcfg ecdsaPub ⟨3, 1, 0, []⟩ "xs"
      (by rw [show (((⟨3, 1, 0, []⟩ : R3Peer).paillierN : Nat) : Int) = 1 from rfl, proofVerify_one, hb]; rfl)

end TssVerif.C05h
