import TssVerif.Lemmas.C05Sg
import TssVerif.Props.C11
/-! # C05d — one deviating participant in threshold-ECDSA signing rounds 2, 3, 5 and 7: who is named

Property C05: "A misbehaving peer cannot cause a bad output and is the one blamed: if one party deviates by
sending an altered message, every honest party either finishes with a valid output or reports an error whose
culprit list names nobody but the deviator; when the alteration is one the checks cover (a proof, a commitment
opening, a share), the error names exactly the deviator. No honest party is ever named."

The objects are the round-level models of `Core/BlameSg.lean`: what an honest signer checks about its peers in
`ecdsa/signing/round_2.go` (as Bob: `round2` / `r2Peer`), `round_3.go` (as Alice: `round3` / `r3Peer`),
`round_5.go` (`round5` / `r5Peer`) and `round_7.go` (`round7` / `r7Peer`), up to the culprit decision. Everything
holds for every curve record `C`, every hash `H`, unboundedly many peers, and — except the no-crash theorems,
which are about the current tree `Zk.cur` — every guard configuration `cfg`. "Every peer except `dev` is honest"
is the judgement "every peer with `idx ≠ dev` passes its per-peer check"; the party's own index is simply not
among `peers.map (·.idx)`.

How the clauses of the property are covered (rounds 2/3 name EVERY failing peer, rounds 5/7 the FIRST one):

* "an error names nobody but the deviator":
  `sg2_culprit_iff`, `sg2_single_deviator` (parts 1, 4); `sg3_culprit_iff`, `sg3_single_deviator`;
  `sg5_first_failing_named`, `sg5_single_deviator`, `sg5_single_deviator_affine_identity`;
  `sg7_first_failing_named`, `sg7_single_deviator`;
* "a covered alteration (proof, commitment opening, share/ciphertext) names exactly the deviator":
  `r2Peer_true_iff`, `r2Peer_undecodable_fails`, `r2Peer_rejected_fails`, `r2Peer_bad_ciphertext_fails`,
  `sg2_covered_alteration_blamed`, `sg2_single_deviator` (parts 2, 3);
  `r3Peer_some_iff`, `sg3_covered_alteration_blamed`, `sg3_wrong_point_blamed`, `sg3_single_deviator`;
  `r5Peer_pass_iff`, `sg5_covered_alteration_fails`, `sg5_deviator_blamed_exactly`;
  `r7Peer_pass_iff`, `sg7_covered_alteration_fails`, `sg7_deviator_blamed_exactly`;
* "no honest party is ever named" / the party never names itself:
  `sg2_culprits_are_senders`, `sg2_never_names_self`, `sg3_culprits_are_senders`, `sg3_never_names_self`,
  `sg5_culprit_is_sender`, `sg7_culprit_is_sender` (with the single-deviator theorems: an honest peer passes,
  so it is not named);
* "finishes with a valid output": `sg2_pass_iff`, `sg3_pass_iff`, `sg3_shares_only_when_clean`,
  `sg3_shares_length`, `sg3_shares_are_the_peers`, `sg5_pass_sum`, `sg7_pass_all`;
  (`sg3_covered_alteration_fails` is the per-peer form; `r5Peer_names_its_peer`, `r7Peer_names_its_peer`: a
  per-peer check only ever names the peer it checks; `sg5_hadd_needed_witness`: why `sg5_single_deviator` asks
  for representable additions; `sg5_no_unattributed_error`: round 5 never returns an error without a culprit);
* "the call returns" (current tree): `sg2_no_panic`, `sg2_returns` (no hypothesis); `sg3_no_panic`,
  `sg3_returns` (lawful curve, cofactor 1 where the identity has no affine form, the party's OWN Paillier key
  sound, and every `proofBobWC` not a ten-part list — needed: `bobWC_ten_parts_panics_witness`,
  `sg3_ten_parts_panics_witness`, exact condition `bobWCFromBytes_panics_iff`); `sg5_no_panic`, `sg5_returns`,
  `sg7_no_panic`, `sg7_returns` (lawful curve, cofactor 1, non-empty de-commitments — needed:
  `sg5_empty_decommitment_panics_witness`, `sg7_empty_decommitment_panics_witness`; `sg7_returns` also needs the
  party's own `R` on the curve). -/
set_option autoImplicit false
namespace TssVerif.C05d
open TssVerif BlameSg Zk C05SgL C06L

variable {P : Type} (C : Curve P) (H : HashFn)

/-! ## 1. round 2 (the party is Bob): every failing peer is named -/
section r2
variable (cfg : Cfg) (own : Mta.RP)

/-- **(a) exactly the failing peers are named** -/
theorem sg2_culprit_iff (peers : List R1Peer) (cs : List Nat)
    (h : round2 C H cfg own peers = .ok cs) (j : Nat) :
    j ∈ cs ↔ ∃ p ∈ peers, p.idx = j ∧ r2Peer C H cfg own p = .ok false := by
  obtain ⟨_, rfl⟩ := (round2_ok_iff C H cfg own peers cs).1 h
  rw [mem_named]
  constructor
  · rintro ⟨p, hp, hj, v, hv, hb⟩
    exact ⟨p, hp, hj, (flagged_bad2_iff _).1 ((flagged_iff bad2 _).2 ⟨v, hv, hb⟩)⟩
  · rintro ⟨p, hp, hj, hf⟩
    exact ⟨p, hp, hj, false, hf, rfl⟩

/-- **(b) the names are a sub-list of the peer indices** (peer order, no duplicates when these are distinct) -/
theorem sg2_culprits_are_senders (peers : List R1Peer) (cs : List Nat)
    (h : round2 C H cfg own peers = .ok cs) :
    cs.Sublist (peers.map (·.idx)) ∧ (∀ c ∈ cs, c ∈ peers.map (·.idx)) ∧
      ((peers.map (·.idx)).Nodup → cs.Nodup) := by
  obtain ⟨_, rfl⟩ := (round2_ok_iff C H cfg own peers cs).1 h
  have hs := named_sublist (fun p : R1Peer => p.idx) bad2 (r2Peer C H cfg own) peers
  exact ⟨hs, fun c hc => hs.subset hc, fun hnd => hnd.sublist hs⟩

/-- … so the party never names itself -/
theorem sg2_never_names_self (peers : List R1Peer) (cs : List Nat) (self : Nat)
    (hself : self ∉ peers.map (·.idx)) (h : round2 C H cfg own peers = .ok cs) : self ∉ cs :=
  fun hm => hself ((sg2_culprits_are_senders C H cfg own peers cs h).2.1 self hm)

/-- **(d) the round passes iff every peer passes** -/
theorem sg2_pass_iff (peers : List R1Peer) :
    round2 C H cfg own peers = .ok [] ↔ ∀ p ∈ peers, r2Peer C H cfg own p = .ok true := by
  rw [round2_ok_iff]
  constructor
  · rintro ⟨hall, hnil⟩ p hp
    obtain ⟨v, hv⟩ := hall p hp
    have := (named_eq_nil_iff _ _ _ _).1 hnil.symm p hp
    rw [hv] at this ⊢
    cases v
    · cases this
    · rfl
  · intro hall
    refine ⟨fun p hp => ⟨true, hall p hp⟩, ((named_eq_nil_iff _ _ _ _).2 fun p hp => ?_).symm⟩
    exact flagged_bad2_of_true (hall p hp)

/-- **(c) one deviator**: every peer other than `dev` passes. Then (1) whatever the round returns names nobody
but `dev`; (2) for distinct indices it returns exactly `[dev]` iff `dev`'s own check failed; (3) if `dev`'s
check fails the round does return `[dev]`; (4) if it passes too the round returns `[]`. -/
theorem sg2_single_deviator (peers : List R1Peer) (dev : Nat)
    (hothers : ∀ p ∈ peers, p.idx ≠ dev → r2Peer C H cfg own p = .ok true) :
    (∀ cs, round2 C H cfg own peers = .ok cs → ∀ c ∈ cs, c = dev) ∧
    (∀ cs, (peers.map (·.idx)).Nodup → round2 C H cfg own peers = .ok cs →
      (cs = [dev] ↔ ∃ d ∈ peers, d.idx = dev ∧ r2Peer C H cfg own d = .ok false)) ∧
    (∀ d ∈ peers, d.idx = dev → (peers.map (·.idx)).Nodup → r2Peer C H cfg own d = .ok false →
      round2 C H cfg own peers = .ok [dev]) ∧
    ((∀ d ∈ peers, d.idx = dev → r2Peer C H cfg own d = .ok true) → round2 C H cfg own peers = .ok []) := by
  have ho : ∀ p ∈ peers, p.idx ≠ dev → flagged bad2 (r2Peer C H cfg own p) = false :=
    fun p hp hne => flagged_bad2_of_true (hothers p hp hne)
  obtain ⟨h1, h2⟩ := named_single_deviator (fun p : R1Peer => p.idx) bad2 (r2Peer C H cfg own) peers dev ho
  refine ⟨?_, ?_, ?_, ?_⟩
  · intro cs h
    obtain ⟨_, rfl⟩ := (round2_ok_iff C H cfg own peers cs).1 h
    exact h1
  · intro cs hnd h
    obtain ⟨_, rfl⟩ := (round2_ok_iff C H cfg own peers cs).1 h
    rw [h2 hnd]
    constructor
    · rintro ⟨d, hd, hdev, hb⟩; exact ⟨d, hd, hdev, (flagged_bad2_iff _).1 hb⟩
    · rintro ⟨d, hd, hdev, hb⟩; exact ⟨d, hd, hdev, (flagged_bad2_iff _).2 hb⟩
  · intro d hd hdev hnd hbad
    refine (round2_ok_iff C H cfg own peers [dev]).2 ⟨fun p hp => ?_, ?_⟩
    · by_cases he : p.idx = dev
      · have : p = d := eq_of_nodup_map' (fun q : R1Peer => q.idx) hnd hp hd (he.trans hdev.symm)
        exact ⟨false, this ▸ hbad⟩
      · exact ⟨true, hothers p hp he⟩
    · exact ((h2 hnd).2 ⟨d, hd, hdev, (flagged_bad2_iff _).2 hbad⟩).symm
  · intro hdev
    refine (sg2_pass_iff C H cfg own peers).2 fun p hp => ?_
    by_cases he : p.idx = dev
    · exact hdev p hp he
    · exact hothers p hp he

/-- **(e) exact pass condition of the per-peer check**: the range proof decodes (six non-empty parts) and is
accepted under the party's own ring-Pedersen parameters, and the ciphertext is in `[0, N_A²)` with `N_A > 0`
(the domain guard of `HomoMult`) -/
theorem r2Peer_true_iff (p : R1Peer) :
    r2Peer C H cfg own p = .ok true ↔
      ∃ pf, rangeFromBytes p.proof = some pf ∧
        rangeVerify cfg H C.q p.nA own.ntilde own.h1 own.h2 p.cA pf = .ok true ∧
        0 < p.nA ∧ p.cA < p.nA * p.nA :=
  r2Peer_true_iff' C H cfg own p

/-- **(f) a proof that does not decode fails the peer** -/
theorem r2Peer_undecodable_fails (p : R1Peer) (h : rangeFromBytes p.proof = none) :
    r2Peer C H cfg own p = .ok false :=
  r2Peer_undecodable C H cfg own p h

/-- a proof that decodes and is rejected (altered proof, altered ciphertext, altered modulus) fails the peer -/
theorem r2Peer_rejected_fails (p : R1Peer) (pf : RangeProof) (h : rangeFromBytes p.proof = some pf)
    (hv : rangeVerify cfg H C.q p.nA own.ntilde own.h1 own.h2 p.cA pf = .ok false) :
    r2Peer C H cfg own p = .ok false :=
  r2Peer_rejected C H cfg own p pf h hv

/-- an accepted proof with a ciphertext outside `[0, N_A²)` fails the peer -/
theorem r2Peer_bad_ciphertext_fails (p : R1Peer) (pf : RangeProof) (h : rangeFromBytes p.proof = some pf)
    (hv : rangeVerify cfg H C.q p.nA own.ntilde own.h1 own.h2 p.cA pf = .ok true)
    (hc : p.nA = 0 ∨ p.nA * p.nA ≤ p.cA) : r2Peer C H cfg own p = .ok false :=
  r2Peer_bad_ciphertext C H cfg own p pf h hv hc

/-- **a covered alteration is blamed on its sender**: a failing check puts the peer's index in the list -/
theorem sg2_covered_alteration_blamed (peers : List R1Peer) (cs : List Nat) (p : R1Peer) (hp : p ∈ peers)
    (hbad : rangeFromBytes p.proof = none ∨
      ∃ pf, rangeFromBytes p.proof = some pf ∧
        (rangeVerify cfg H C.q p.nA own.ntilde own.h1 own.h2 p.cA pf = .ok false ∨
          (rangeVerify cfg H C.q p.nA own.ntilde own.h1 own.h2 p.cA pf = .ok true ∧
            (p.nA = 0 ∨ p.nA * p.nA ≤ p.cA))))
    (h : round2 C H cfg own peers = .ok cs) : p.idx ∈ cs := by
  refine (sg2_culprit_iff C H cfg own peers cs h p.idx).2 ⟨p, hp, rfl, ?_⟩
  rcases hbad with hb | ⟨pf, hd, hb | ⟨hv, hc⟩⟩
  · exact r2Peer_undecodable C H cfg own p hb
  · exact r2Peer_rejected C H cfg own p pf hd hb
  · exact r2Peer_bad_ciphertext C H cfg own p pf hd hv hc

/-- **round 2 never crashes** on the current tree, whatever the peers sent; no hypothesis -/
theorem sg2_no_panic (peers : List R1Peer) (tag : String) : round2 C H cur own peers ≠ .panic tag :=
  round2_noPanic C H own peers tag

/-- … more: it always returns a culprit list (no unattributed error either) -/
theorem sg2_returns (peers : List R1Peer) : ∃ cs, round2 C H cur own peers = .ok cs :=
  ⟨_, round2_total C H own peers⟩

end r2

/-! ## 2. round 3 (the party is Alice): every failing peer is named, shares only when nobody is -/
section r3
variable (cfg : Cfg) (ssid : Bytes) (sk : Paillier.PrivateKey) (own : Mta.RP)

/-- **(a) exactly the failing peers are named** -/
theorem sg3_culprit_iff (peers : List R2Peer) (r : R3Result)
    (h : round3 C H cfg ssid sk own peers = .ok r) (j : Nat) :
    j ∈ r.culprits ↔ ∃ p ∈ peers, p.idx = j ∧ r3Peer C H cfg ssid sk own p = .ok none := by
  obtain ⟨vs, _, hc, _⟩ := (round3_ok_iff C H cfg ssid sk own peers r).1 h
  rw [hc, mem_named]
  constructor
  · rintro ⟨p, hp, hj, v, hv, hb⟩
    exact ⟨p, hp, hj, (flagged_bad3_iff _).1 ((flagged_iff bad3 _).2 ⟨v, hv, hb⟩)⟩
  · rintro ⟨p, hp, hj, hf⟩
    exact ⟨p, hp, hj, none, hf, rfl⟩

/-- **(b) the names are a sub-list of the peer indices** -/
theorem sg3_culprits_are_senders (peers : List R2Peer) (r : R3Result)
    (h : round3 C H cfg ssid sk own peers = .ok r) :
    r.culprits.Sublist (peers.map (·.idx)) ∧ (∀ c ∈ r.culprits, c ∈ peers.map (·.idx)) ∧
      ((peers.map (·.idx)).Nodup → r.culprits.Nodup) := by
  obtain ⟨vs, _, hc, _⟩ := (round3_ok_iff C H cfg ssid sk own peers r).1 h
  have hs := named_sublist (fun p : R2Peer => p.idx) bad3 (r3Peer C H cfg ssid sk own) peers
  rw [← hc] at hs
  exact ⟨hs, fun c hc => hs.subset hc, fun hnd => hnd.sublist hs⟩

theorem sg3_never_names_self (peers : List R2Peer) (r : R3Result) (self : Nat)
    (hself : self ∉ peers.map (·.idx)) (h : round3 C H cfg ssid sk own peers = .ok r) : self ∉ r.culprits :=
  fun hm => hself ((sg3_culprits_are_senders C H cfg ssid sk own peers r h).2.1 self hm)

/-- **shares are returned only when nobody is blamed** -/
theorem sg3_shares_only_when_clean (peers : List R2Peer) (r : R3Result)
    (h : round3 C H cfg ssid sk own peers = .ok r) (hc : r.culprits ≠ []) : r.shares = [] := by
  obtain ⟨vs, _, _, hs⟩ := (round3_ok_iff C H cfg ssid sk own peers r).1 h
  rw [hs]
  have : r.culprits.isEmpty = false := by
    cases hcs : r.culprits with
    | nil => exact absurd hcs hc
    | cons a l => rfl
  rw [this]; rfl

/-- **and then they are the peers' shares, one pair per peer, in peer order** -/
theorem sg3_shares_are_the_peers (peers : List R2Peer) (r : R3Result)
    (h : round3 C H cfg ssid sk own peers = .ok r) (hc : r.culprits = []) :
    List.Forall₂ (fun p s => r3Peer C H cfg ssid sk own p = .ok (some s)) peers r.shares := by
  obtain ⟨vs, hvs, hcul, hs⟩ := (round3_ok_iff C H cfg ssid sk own peers r).1 h
  rw [hs, hc]
  simp only [List.isEmpty_nil, if_true]
  refine filterMap_id_of_clean _ _ _ hvs ?_
  rw [hc] at hcul
  exact (named_eq_nil_iff _ _ _ _).1 hcul.symm

theorem sg3_shares_length (peers : List R2Peer) (r : R3Result)
    (h : round3 C H cfg ssid sk own peers = .ok r) (hc : r.culprits = []) :
    r.shares.length = peers.length :=
  forall₂_length (sg3_shares_are_the_peers C H cfg ssid sk own peers r h hc)

/-- **(d) the round names nobody iff every peer passes** -/
theorem sg3_pass_iff (peers : List R2Peer) :
    (∃ r, round3 C H cfg ssid sk own peers = .ok r ∧ r.culprits = []) ↔
      ∀ p ∈ peers, ∃ s, r3Peer C H cfg ssid sk own p = .ok (some s) := by
  constructor
  · rintro ⟨r, h, hc⟩ p hp
    exact forall₂_left (sg3_shares_are_the_peers C H cfg ssid sk own peers r h hc) p hp
  · intro hall
    obtain ⟨vs, hvs⟩ := C05L.mapM_total (r3Peer C H cfg ssid sk own) peers (fun p hp => by
      obtain ⟨s, hs⟩ := hall p hp
      exact ⟨some s, hs⟩)
    have hvs' := (C05L.mapM_ok_iff _ _ _).1 hvs
    have hnil : named (fun p : R2Peer => p.idx) bad3 (r3Peer C H cfg ssid sk own) peers = [] :=
      (named_eq_nil_iff _ _ _ _).2 fun p hp => by
        obtain ⟨s, hs⟩ := hall p hp
        exact flagged_bad3_of_some hs
    refine ⟨⟨[], vs.filterMap id⟩, (round3_ok_iff C H cfg ssid sk own peers _).2 ⟨vs, hvs', hnil.symm, rfl⟩, rfl⟩

/-- **(c) one deviator**: every peer other than `dev` passes. Then (1) whatever the round returns names nobody
but `dev`; (2) for distinct indices the list is exactly `[dev]` iff `dev`'s own check failed; (3) if `dev`'s
check fails the round does return `[dev]` and no shares; (4) if it passes too the round names nobody. -/
theorem sg3_single_deviator (peers : List R2Peer) (dev : Nat)
    (hothers : ∀ p ∈ peers, p.idx ≠ dev → ∃ s, r3Peer C H cfg ssid sk own p = .ok (some s)) :
    (∀ r, round3 C H cfg ssid sk own peers = .ok r → ∀ c ∈ r.culprits, c = dev) ∧
    (∀ r, (peers.map (·.idx)).Nodup → round3 C H cfg ssid sk own peers = .ok r →
      (r.culprits = [dev] ↔ ∃ d ∈ peers, d.idx = dev ∧ r3Peer C H cfg ssid sk own d = .ok none)) ∧
    (∀ d ∈ peers, d.idx = dev → (peers.map (·.idx)).Nodup → r3Peer C H cfg ssid sk own d = .ok none →
      round3 C H cfg ssid sk own peers = .ok ⟨[dev], []⟩) ∧
    ((∀ d ∈ peers, d.idx = dev → ∃ s, r3Peer C H cfg ssid sk own d = .ok (some s)) →
      ∃ r, round3 C H cfg ssid sk own peers = .ok r ∧ r.culprits = []) := by
  have ho : ∀ p ∈ peers, p.idx ≠ dev → flagged bad3 (r3Peer C H cfg ssid sk own p) = false := by
    intro p hp hne
    obtain ⟨s, hs⟩ := hothers p hp hne
    exact flagged_bad3_of_some hs
  obtain ⟨h1, h2⟩ :=
    named_single_deviator (fun p : R2Peer => p.idx) bad3 (r3Peer C H cfg ssid sk own) peers dev ho
  refine ⟨?_, ?_, ?_, ?_⟩
  · intro r h
    obtain ⟨vs, _, hc, _⟩ := (round3_ok_iff C H cfg ssid sk own peers r).1 h
    rw [hc]; exact h1
  · intro r hnd h
    obtain ⟨vs, _, hc, _⟩ := (round3_ok_iff C H cfg ssid sk own peers r).1 h
    rw [hc, h2 hnd]
    constructor
    · rintro ⟨d, hd, hdev, hb⟩; exact ⟨d, hd, hdev, (flagged_bad3_iff _).1 hb⟩
    · rintro ⟨d, hd, hdev, hb⟩; exact ⟨d, hd, hdev, (flagged_bad3_iff _).2 hb⟩
  · intro d hd hdev hnd hbad
    have hall : ∀ p ∈ peers, ∃ v, r3Peer C H cfg ssid sk own p = .ok v := by
      intro p hp
      by_cases he : p.idx = dev
      · have : p = d := eq_of_nodup_map' (fun q : R2Peer => q.idx) hnd hp hd (he.trans hdev.symm)
        exact ⟨none, this ▸ hbad⟩
      · obtain ⟨s, hs⟩ := hothers p hp he
        exact ⟨some s, hs⟩
    obtain ⟨vs, hvs⟩ := C05L.mapM_total _ peers hall
    refine (round3_ok_iff C H cfg ssid sk own peers _).2 ⟨vs, (C05L.mapM_ok_iff _ _ _).1 hvs, ?_, rfl⟩
    exact ((h2 hnd).2 ⟨d, hd, hdev, (flagged_bad3_iff _).2 hbad⟩).symm
  · intro hdev
    refine (sg3_pass_iff C H cfg ssid sk own peers).2 fun p hp => ?_
    by_cases he : p.idx = dev
    · exact hdev p hp he
    · exact hothers p hp he

/-- **(e) exact pass condition of the per-peer check**: both proofs decode (the second one with its point `U`
on the curve) and both `AliceEnd` calls — Bob's proof under the session `ssid ‖ bytes(idx)` and the party's own
parameters, then decryption — succeed; the pair of shares is exactly what they return -/
theorem r3Peer_some_iff (p : R2Peer) (a u : Nat) :
    r3Peer C H cfg ssid sk own p = .ok (some (a, u)) ↔
      ∃ pf1 pf2 uPt, bobFromBytes p.proofBob = some pf1 ∧
        bobWCFromBytes C p.proofBobWC = .ok (some (pf2, uPt)) ∧
        Mta.aliceEnd C H cfg (Blame.contextJ ssid p.idx) sk pf1 own p.ownCA p.c1 none = .ok a ∧
        Mta.aliceEnd C H cfg (Blame.contextJ ssid p.idx) sk pf2 own p.ownCA p.c2 (some (p.bigW, uPt)) = .ok u :=
  r3Peer_some_iff' C H cfg ssid sk own p a u

/-- **a covered alteration fails the peer** (whenever its check returns): a proof that does not decode, a point
`U` off the curve, or an `AliceEnd` call that reports an error (Bob's proof rejected, response ciphertext out of
range or not a unit) -/
theorem sg3_covered_alteration_fails (p : R2Peer)
    (hbad : bobFromBytes p.proofBob = none ∨
      (∃ pf e, bobFromBytes p.proofBob = some pf ∧
        Mta.aliceEnd C H cfg (Blame.contextJ ssid p.idx) sk pf own p.ownCA p.c1 none = .err e) ∨
      bobWCFromBytes C p.proofBobWC = .ok none ∨
      (∃ pf uPt e, bobWCFromBytes C p.proofBobWC = .ok (some (pf, uPt)) ∧
        Mta.aliceEnd C H cfg (Blame.contextJ ssid p.idx) sk pf own p.ownCA p.c2 (some (p.bigW, uPt)) = .err e))
    (v : Option (Nat × Nat)) (hv : r3Peer C H cfg ssid sk own p = .ok v) : v = none := by
  rcases hbad with hb | ⟨pf, e, hd, he⟩ | hb | ⟨pf, uPt, e, hd, he⟩
  · refine r3Peer_none_of_stepA C H cfg ssid sk own p ?_ v hv
    unfold stepA; rw [hb]
  · refine r3Peer_none_of_stepA C H cfg ssid sk own p ?_ v hv
    unfold stepA; rw [hd]
    exact (aliceStep_none_iff C H cfg sk own _ _ _ _ _).2 ⟨e, he⟩
  · refine r3Peer_none_of_stepW C H cfg ssid sk own p ?_ v hv
    unfold stepW; rw [hb]; rfl
  · refine r3Peer_none_of_stepW C H cfg ssid sk own p ?_ v hv
    unfold stepW; rw [hd]
    exact (aliceStep_none_iff C H cfg sk own _ _ _ _ _).2 ⟨e, he⟩

/-- … and is blamed on its sender when the round returns -/
theorem sg3_covered_alteration_blamed (peers : List R2Peer) (r : R3Result) (p : R2Peer) (hp : p ∈ peers)
    (hbad : bobFromBytes p.proofBob = none ∨
      (∃ pf e, bobFromBytes p.proofBob = some pf ∧
        Mta.aliceEnd C H cfg (Blame.contextJ ssid p.idx) sk pf own p.ownCA p.c1 none = .err e) ∨
      bobWCFromBytes C p.proofBobWC = .ok none ∨
      (∃ pf uPt e, bobWCFromBytes C p.proofBobWC = .ok (some (pf, uPt)) ∧
        Mta.aliceEnd C H cfg (Blame.contextJ ssid p.idx) sk pf own p.ownCA p.c2 (some (p.bigW, uPt)) = .err e))
    (h : round3 C H cfg ssid sk own peers = .ok r) : p.idx ∈ r.culprits ∧ r.shares = [] := by
  obtain ⟨vs, hvs, _, _⟩ := (round3_ok_iff C H cfg ssid sk own peers r).1 h
  obtain ⟨v, hv⟩ := forall₂_left hvs p hp
  have := sg3_covered_alteration_fails C H cfg ssid sk own p hbad v hv
  subst this
  have hm := (sg3_culprit_iff C H cfg ssid sk own peers r h p.idx).2 ⟨p, hp, rfl, hv⟩
  exact ⟨hm, sg3_shares_only_when_clean C H cfg ssid sk own peers r h (List.ne_nil_of_mem hm)⟩

/-- **a response for another public point is blamed** (current tree, lawful curve): if the point `U` of the
proof and the peer's public weighted point `W_j` held by the party do not satisfy `(s1 mod q)·G = e·W_j + U` in
the group, the peer fails whenever its check returns -/
theorem sg3_wrong_point_blamed (hC : C.Lawful) (p : R2Peer) (pf : BobProof) (uPt : ECPoint)
    (hdec : bobWCFromBytes C p.proofBobWC = .ok (some (pf, uPt)))
    (hwrong : ∀ pW pU, C.lift p.bigW = some pW → C.lift uPt = some pU →
      C.smul (pf.s1 % (C.q : Int)).toNat C.base ≠
        C.add (C.smul (bobChallenge C H (Blame.contextJ ssid p.idx) sk.n p.ownCA p.c2 (some (p.bigW, uPt)) pf) pW) pU)
    (v : Option (Nat × Nat)) (hv : r3Peer C H cur ssid sk own p = .ok v) : v = none := by
  cases v with
  | none => rfl
  | some x =>
    exfalso
    obtain ⟨a, u⟩ := x
    obtain ⟨pf1, pf2, uPt2, _, hd2, _, h2⟩ := (r3Peer_some_iff' C H cur ssid sk own p a u).1 hv
    rw [hdec] at hd2
    injection hd2 with hd2; injection hd2 with hd2; injection hd2 with e1 e2
    subst e1; subst e2
    obtain ⟨hb, _⟩ := aliceEnd_ok_bob C H cur sk own _ _ _ _ _ _ h2
    obtain ⟨_, _, _, pW, pU, hW, hU, heq⟩ := C11.bobWC_accept_implies_point C hC H _ _ _ _ _ _ _ pf p.bigW uPt hb
    exact hwrong pW pU hW hU heq

/-- **round 3 never crashes** on the current tree. Hypotheses: a lawful curve record; `hcof` — on a curve whose
identity has no affine form every point is killed by `q` (cofactor 1, as on secp256k1); `hk` — the party's OWN
Paillier key is sound (`L(γ^λ mod n²)` invertible mod `n`); and no `proofBobWC` is a ten-part list (the Go
message validation only lets twelve-part lists through). Nothing else is assumed about the peers' values. -/
theorem sg3_no_panic (hC : C.Lawful) (hcof : C.toAffine C.zero = none → ∀ q, C.smul C.q q = C.zero)
    (hk : (modInverse (Paillier.L (modPow (Paillier.gamma sk.n) sk.lambdaN (Paillier.nSquare sk.n)) sk.n)
      sk.n).isSome = true)
    (peers : List R2Peer) (hparts : ∀ p ∈ peers, p.proofBobWC.length = bobWCParts) (tag : String) :
    round3 C H cur ssid sk own peers ≠ .panic tag :=
  round3_noPanic_of C H cur ssid sk own peers
    (fun p hp => r3Peer_noPanic C H hC hcof ssid sk own hk p (by rw [hparts p hp]; decide)) tag

/-- … more: it always returns a result record -/
theorem sg3_returns (hC : C.Lawful) (hcof : C.toAffine C.zero = none → ∀ q, C.smul C.q q = C.zero)
    (hk : (modInverse (Paillier.L (modPow (Paillier.gamma sk.n) sk.lambdaN (Paillier.nSquare sk.n)) sk.n)
      sk.n).isSome = true)
    (peers : List R2Peer) (hparts : ∀ p ∈ peers, p.proofBobWC.length = bobWCParts) :
    ∃ r, round3 C H cur ssid sk own peers = .ok r := by
  obtain ⟨vs, hvs⟩ := C05L.mapM_total (r3Peer C H cur ssid sk own) peers fun p hp =>
    total_of (r3Peer_noPanic C H hC hcof ssid sk own hk p (by rw [hparts p hp]; decide))
      (r3Peer_noErr C H cur ssid sk own p)
  exact ⟨result3 peers vs, by rw [round3_eq, hvs]; rfl⟩

/-- exact crash condition of `ProofBobWCFromBytes` in the model: a list of exactly ten non-empty parts -/
theorem bobWCFromBytes_panics_iff (bzs : List Bytes) (t : String) :
    bobWCFromBytes C bzs = .panic t ↔ t = "index-out-of-range" ∧ nonEmptyMultiBytes bzs bobParts = true :=
  bobWCFromBytes_panic_iff C bzs t

/-- **the hypothesis on the number of parts is needed in the model**: `ProofBobWCFromBytes` accepts ten parts
through `ProofBobFromBytes` and then indexes parts 10 and 11 — for EVERY curve record. (In Go,
`SignRound2Message.ValidateBasic` requires `ProofBobWCBytesParts = 12` parts before the message is stored.) -/
theorem bobWC_ten_parts_panics_witness :
    bobWCFromBytes C (List.replicate 10 [1]) = .panic "index-out-of-range" :=
  (bobWCFromBytes_panic_iff C _ _).2 ⟨rfl, by decide⟩

/-- … and the crash reaches the round: for every curve, hash, configuration, key and session -/
theorem sg3_ten_parts_panics_witness :
    round3 C H cfg ssid sk own [⟨1, 0, 0, [], 0, List.replicate 10 [1], (0, 0)⟩] = .panic "index-out-of-range" := by
  have h1 : r3Peer C H cfg ssid sk own ⟨1, 0, 0, [], 0, List.replicate 10 [1], (0, 0)⟩ =
      .panic "index-out-of-range" := by
    rw [r3Peer_eq]
    have hA : stepA C H cfg ssid sk own ⟨1, 0, 0, [], 0, List.replicate 10 [1], (0, 0)⟩ = .ok none := rfl
    have hW : stepW C H cfg ssid sk own ⟨1, 0, 0, [], 0, List.replicate 10 [1], (0, 0)⟩ =
        .panic "index-out-of-range" := by
      unfold stepW
      rw [show (⟨1, 0, 0, [], 0, List.replicate 10 [1], (0, 0)⟩ : R2Peer).proofBobWC = List.replicate 10 [1] from rfl,
        bobWC_ten_parts_panics_witness C]
      rfl
    rw [hA, hW]; rfl
  rw [round3_eq, List.mapM_cons, h1]; rfl

end r3

/-! ## 3. round 5: the first failing peer is named -/
section r5
variable (cfg : Cfg) (ssid : Bytes)

/-- **the error names the first failing peer**: the list splits as `pre ++ p :: post`, every peer of `pre`
passed (with points `gs`), the running sum `Γ_i + Σ gs` is `acc`, `p.idx` is the name, and either `p`'s own
check failed (with this reason) or `acc + Γ_p` is not representable (the identity of secp256k1). Exact: iff. -/
theorem sg5_first_failing_named (ownGamma : ECPoint) (peers : List R4Peer) (why : String) (c : Nat) :
    round5 C H cfg ssid ownGamma peers = .ok (.fail why c) ↔
      ∃ pre p post gs acc, peers = pre ++ p :: post ∧
        List.Forall₂ (fun q g => r5Peer C H cfg ssid q = .ok (.pass g)) pre gs ∧
        gs.foldlM C.ecAdd ownGamma = .ok acc ∧ p.idx = c ∧
        (r5Peer C H cfg ssid p = .ok (.fail why c) ∨
          ∃ g e, r5Peer C H cfg ssid p = .ok (.pass g) ∧ C.ecAdd acc g = .err e ∧ why = "R.Add(bigGammaJ)") :=
  round5_fail_iff C H cfg ssid peers ownGamma why c

/-- the per-peer check only ever names the peer it checks -/
theorem r5Peer_names_its_peer (p : R4Peer) (why : String) (c : Nat)
    (h : r5Peer C H cfg ssid p = .ok (.fail why c)) : c = p.idx :=
  r5Peer_fail_idx C H cfg ssid p why c h

/-- **the name is a peer's index**, never the party's own -/
theorem sg5_culprit_is_sender (ownGamma : ECPoint) (peers : List R4Peer) (why : String) (c : Nat)
    (h : round5 C H cfg ssid ownGamma peers = .ok (.fail why c)) : c ∈ peers.map (·.idx) := by
  obtain ⟨p, hp, hc⟩ := round5_culprit_mem C H cfg ssid peers ownGamma why c h
  exact List.mem_map.2 ⟨p, hp, hc⟩

/-- **on `.pass r`** every peer passed and `r` is the left fold of `Add` over the party's own `Γ_i` and the
peers' points, in peer order. Exact: iff. -/
theorem sg5_pass_sum (ownGamma : ECPoint) (peers : List R4Peer) (r : ECPoint) :
    round5 C H cfg ssid ownGamma peers = .ok (.pass r) ↔
      ∃ gs, List.Forall₂ (fun q g => r5Peer C H cfg ssid q = .ok (.pass g)) peers gs ∧
        gs.foldlM C.ecAdd ownGamma = .ok r :=
  round5_pass_iff C H cfg ssid peers ownGamma r

/-- **exact pass condition of the per-peer check**: the de-commitment opens the round-1 commitment to exactly
two numbers, they are the coordinates of a curve point `Γ_j`, the proof's point decodes, and the Schnorr proof
for `Γ_j` verifies under the session `ssid ‖ bytes(idx)` -/
theorem r5Peer_pass_iff (p : R4Peer) (g : ECPoint) :
    r5Peer C H cfg ssid p = .ok (.pass g) ↔
      ∃ x y al, decommitWith H p.commitment (p.decommitment.map Int.ofNat) = .ok (some [x, y]) ∧
        C.ecNew x.toNat y.toNat = some g ∧ C.ecNew p.alpha.1 p.alpha.2 = some al ∧
        schnorrVerify C H cfg (Blame.contextJ ssid p.idx) g al p.t = .ok true :=
  r5Peer_pass_iff' C H cfg ssid p g

/-- **a covered alteration fails the peer, naming it**: a de-commitment that does not open the commitment, an
opened pair that is not a curve point, or a Schnorr proof that is rejected -/
theorem sg5_covered_alteration_fails (p : R4Peer) :
    (decommitWith H p.commitment (p.decommitment.map Int.ofNat) = .ok none →
      r5Peer C H cfg ssid p = .ok (.fail "commitment verify failed" p.idx)) ∧
    (∀ x y, decommitWith H p.commitment (p.decommitment.map Int.ofNat) = .ok (some [x, y]) →
      C.ecNew x.toNat y.toNat = none → r5Peer C H cfg ssid p = .ok (.fail "NewECPoint(bigGammaJ)" p.idx)) ∧
    (∀ x y g al, decommitWith H p.commitment (p.decommitment.map Int.ofNat) = .ok (some [x, y]) →
      C.ecNew x.toNat y.toNat = some g → C.ecNew p.alpha.1 p.alpha.2 = some al →
      schnorrVerify C H cfg (Blame.contextJ ssid p.idx) g al p.t = .ok false →
      r5Peer C H cfg ssid p = .ok (.fail "failed to prove bigGamma" p.idx)) :=
  ⟨r5Peer_bad_decommit C H cfg ssid p, fun x y => r5Peer_bad_point C H cfg ssid p x y,
    fun x y g al => r5Peer_bad_proof C H cfg ssid p x y g al⟩

/-- **one deviator**: every peer other than `dev` passes, and adding an honest peer's point to the running sum
is representable (`hadd`; on secp256k1 this fails only if the sum is the identity). Then a failure names `dev`.
`hadd` cannot be dropped in the model: the deviator's point could be the negative of what follows. -/
theorem sg5_single_deviator (ownGamma : ECPoint) (peers : List R4Peer) (dev : Nat)
    (hothers : ∀ p ∈ peers, p.idx ≠ dev → ∃ g, r5Peer C H cfg ssid p = .ok (.pass g))
    (hadd : ∀ pre p post gs acc g, peers = pre ++ p :: post → p.idx ≠ dev →
      List.Forall₂ (fun q g => r5Peer C H cfg ssid q = .ok (.pass g)) pre gs →
      gs.foldlM C.ecAdd ownGamma = .ok acc → r5Peer C H cfg ssid p = .ok (.pass g) → ∀ e, C.ecAdd acc g ≠ .err e)
    (why : String) (c : Nat) (h : round5 C H cfg ssid ownGamma peers = .ok (.fail why c)) : c = dev :=
  round5_single_deviator C H cfg ssid peers ownGamma dev hothers hadd why c h

/-- on a lawful curve whose identity has affine coordinates (edwards25519-like) `hadd` holds by itself -/
theorem sg5_single_deviator_affine_identity (hC : C.Lawful) (hz : C.toAffine C.zero ≠ none)
    (ownGamma : ECPoint) (hown : C.ecIsOnCurve ownGamma = true) (peers : List R4Peer) (dev : Nat)
    (hothers : ∀ p ∈ peers, p.idx ≠ dev → ∃ g, r5Peer C H cfg ssid p = .ok (.pass g))
    (why : String) (c : Nat) (h : round5 C H cfg ssid ownGamma peers = .ok (.fail why c)) : c = dev := by
  refine round5_single_deviator C H cfg ssid peers ownGamma dev hothers ?_ why c h
  intro pre p post gs acc g _ _ _ hfold hg e he
  obtain ⟨r, hr⟩ := ecAdd_ok_of_affine_identity C hC hz acc g
    (foldlM_ecAdd_onCurve C hC gs ownGamma acc hown hfold) (r5Peer_pass_onCurve C H cfg ssid p g hg)
  rw [hr] at he; cases he

/-- **exactly the deviator is named**: distinct indices, the others pass and their additions are representable,
and `dev`'s own check fails — then the round reports that failure, naming `dev` -/
theorem sg5_deviator_blamed_exactly (ownGamma : ECPoint) (peers : List R4Peer) (d : R4Peer)
    (hnd : (peers.map (·.idx)).Nodup) (hd : d ∈ peers)
    (hothers : ∀ p ∈ peers, p.idx ≠ d.idx → ∃ g, r5Peer C H cfg ssid p = .ok (.pass g))
    (hadd : ∀ pre p post gs acc g, peers = pre ++ p :: post → p.idx ≠ d.idx →
      List.Forall₂ (fun q g => r5Peer C H cfg ssid q = .ok (.pass g)) pre gs →
      gs.foldlM C.ecAdd ownGamma = .ok acc → r5Peer C H cfg ssid p = .ok (.pass g) → ∀ e, C.ecAdd acc g ≠ .err e)
    (why : String) (c : Nat) (hbad : r5Peer C H cfg ssid d = .ok (.fail why c)) :
    round5 C H cfg ssid ownGamma peers = .ok (.fail why d.idx) :=
  round5_deviator_blamed C H cfg ssid peers ownGamma d hnd hd hothers hadd why c hbad

/-- **round 5 never crashes** on the current tree: lawful curve, cofactor 1 where the identity has no affine
form, non-empty de-commitments (`SignRound4Message.ValidateBasic` requires three non-empty parts) -/
theorem sg5_no_panic (hC : C.Lawful) (hcof : C.toAffine C.zero = none → ∀ q, C.smul C.q q = C.zero)
    (ownGamma : ECPoint) (peers : List R4Peer) (hd : ∀ p ∈ peers, p.decommitment ≠ []) (tag : String) :
    round5 C H cur ssid ownGamma peers ≠ .panic tag :=
  round5_noPanic_of C H cur ssid peers (fun p hp => r5Peer_noPanic C H hC hcof ssid p (hd p hp)) ownGamma tag

/-- … more: it always returns a verdict; and for EVERY configuration it never reports an unattributed error -/
theorem sg5_returns (hC : C.Lawful) (hcof : C.toAffine C.zero = none → ∀ q, C.smul C.q q = C.zero)
    (ownGamma : ECPoint) (peers : List R4Peer) (hd : ∀ p ∈ peers, p.decommitment ≠ []) :
    ∃ v, round5 C H cur ssid ownGamma peers = .ok v :=
  total_of (round5_noPanic_of C H cur ssid peers (fun p hp => r5Peer_noPanic C H hC hcof ssid p (hd p hp)) ownGamma)
    (round5_noErr_of C H cur ssid peers ownGamma)

theorem sg5_no_unattributed_error (ownGamma : ECPoint) (peers : List R4Peer) (e : String) :
    round5 C H cfg ssid ownGamma peers ≠ .err e :=
  round5_noErr_of C H cfg ssid peers ownGamma e

end r5

/-! ## 4. round 7: the first failing peer is named -/
section r7
variable (cfg : Cfg) (ssid : Bytes) (bigR : ECPoint)

/-- **the error names the first failing peer**. Exact: iff. -/
theorem sg7_first_failing_named (peers : List R6Peer) (why : String) (c : Nat) :
    round7 C H cfg ssid bigR peers = .ok (.fail why c) ↔
      ∃ pre p post, peers = pre ++ p :: post ∧
        (∀ q ∈ pre, ∃ va, r7Peer C H cfg ssid bigR q = .ok (.pass va)) ∧
        r7Peer C H cfg ssid bigR p = .ok (.fail why c) ∧ p.idx = c :=
  round7_fail_iff C H cfg ssid bigR peers why c

theorem r7Peer_names_its_peer (p : R6Peer) (why : String) (c : Nat)
    (h : r7Peer C H cfg ssid bigR p = .ok (.fail why c)) : c = p.idx :=
  r7Peer_fail_idx C H cfg ssid bigR p why c h

theorem sg7_culprit_is_sender (peers : List R6Peer) (why : String) (c : Nat)
    (h : round7 C H cfg ssid bigR peers = .ok (.fail why c)) : c ∈ peers.map (·.idx) := by
  obtain ⟨p, hp, hc⟩ := round7_culprit_mem C H cfg ssid bigR peers why c h
  exact List.mem_map.2 ⟨p, hp, hc⟩

/-- **exact pass condition of the per-peer check**: the de-commitment opens the round-5 commitment to exactly
four numbers, the coordinates of two curve points `V_j`, `A_j`; both proof points decode; the Schnorr proof for
`A_j` and the Schnorr-V proof for `V_j` (against the party's `R`) verify under `ssid ‖ bytes(idx)` -/
theorem r7Peer_pass_iff (p : R6Peer) (bigV bigA : ECPoint) :
    r7Peer C H cfg ssid bigR p = .ok (.pass (bigV, bigA)) ↔
      ∃ x1 y1 x2 y2 alA alV,
        decommitWith H p.commitment (p.decommitment.map Int.ofNat) = .ok (some [x1, y1, x2, y2]) ∧
        C.ecNew x1.toNat y1.toNat = some bigV ∧ C.ecNew x2.toNat y2.toNat = some bigA ∧
        C.ecNew p.alphaA.1 p.alphaA.2 = some alA ∧
        schnorrVerify C H cfg (Blame.contextJ ssid p.idx) bigA alA p.tA = .ok true ∧
        C.ecNew p.alphaV.1 p.alphaV.2 = some alV ∧
        schnorrVVerify C H cfg (Blame.contextJ ssid p.idx) bigV bigR alV p.tV p.uV = .ok true :=
  r7Peer_pass_iff' C H cfg ssid bigR p bigV bigA

/-- **on `.pass l`** every peer passed, `l` has one entry per peer, in peer order, and each entry is that
peer's `(V_j, A_j)` as opened from its commitment. Exact: iff. -/
theorem sg7_pass_all (peers : List R6Peer) (l : List (ECPoint × ECPoint)) :
    round7 C H cfg ssid bigR peers = .ok (.pass l) ↔
      List.Forall₂ (fun q va => r7Peer C H cfg ssid bigR q = .ok (.pass va)) peers l :=
  round7_pass_iff C H cfg ssid bigR peers l

theorem sg7_pass_length (peers : List R6Peer) (l : List (ECPoint × ECPoint))
    (h : round7 C H cfg ssid bigR peers = .ok (.pass l)) : l.length = peers.length :=
  forall₂_length ((round7_pass_iff C H cfg ssid bigR peers l).1 h)

/-- **a covered alteration fails the peer, naming it**: a de-commitment that does not open the commitment, a
rejected (or undecodable) Schnorr proof for `A_j`, a rejected (or undecodable) Schnorr-V proof for `V_j` -/
theorem sg7_covered_alteration_fails (p : R6Peer) :
    (decommitWith H p.commitment (p.decommitment.map Int.ofNat) = .ok none →
      r7Peer C H cfg ssid bigR p = .ok (.fail "de-commitment for bigVj and bigAj failed" p.idx)) ∧
    (∀ x1 y1 x2 y2 bigV bigA,
      decommitWith H p.commitment (p.decommitment.map Int.ofNat) = .ok (some [x1, y1, x2, y2]) →
      C.ecNew x1.toNat y1.toNat = some bigV → C.ecNew x2.toNat y2.toNat = some bigA →
      (C.ecNew p.alphaA.1 p.alphaA.2 = none ∨ ∃ al, C.ecNew p.alphaA.1 p.alphaA.2 = some al ∧
        schnorrVerify C H cfg (Blame.contextJ ssid p.idx) bigA al p.tA = .ok false) →
      r7Peer C H cfg ssid bigR p = .ok (.fail "schnorr verify for Aj failed" p.idx)) ∧
    (∀ x1 y1 x2 y2 bigV bigA alA,
      decommitWith H p.commitment (p.decommitment.map Int.ofNat) = .ok (some [x1, y1, x2, y2]) →
      C.ecNew x1.toNat y1.toNat = some bigV → C.ecNew x2.toNat y2.toNat = some bigA →
      C.ecNew p.alphaA.1 p.alphaA.2 = some alA →
      schnorrVerify C H cfg (Blame.contextJ ssid p.idx) bigA alA p.tA = .ok true →
      (C.ecNew p.alphaV.1 p.alphaV.2 = none ∨ ∃ al, C.ecNew p.alphaV.1 p.alphaV.2 = some al ∧
        schnorrVVerify C H cfg (Blame.contextJ ssid p.idx) bigV bigR al p.tV p.uV = .ok false) →
      r7Peer C H cfg ssid bigR p = .ok (.fail "vverify for Vj failed" p.idx)) := by
  refine ⟨r7Peer_bad_decommit C H cfg ssid bigR p, ?_, ?_⟩
  · intro x1 y1 x2 y2 bigV bigA hd hV hA hbad
    refine r7Peer_bad_proofA C H cfg ssid bigR p x1 y1 x2 y2 bigV bigA hd hV hA ?_
    unfold okA7
    rcases hbad with h | ⟨al, h, hs⟩
    · rw [h]
    · rw [h]; exact hs
  · intro x1 y1 x2 y2 bigV bigA alA hd hV hA hal hs hbad
    refine r7Peer_bad_proofV C H cfg ssid bigR p x1 y1 x2 y2 bigV bigA hd hV hA ?_ ?_
    · unfold okA7; rw [hal]; exact hs
    · unfold okV7
      rcases hbad with h | ⟨al, h, hv⟩
      · rw [h]
      · rw [h]; exact hv

/-- **one deviator**: every peer other than `dev` passes; then a failure names `dev` -/
theorem sg7_single_deviator (peers : List R6Peer) (dev : Nat)
    (hothers : ∀ p ∈ peers, p.idx ≠ dev → ∃ va, r7Peer C H cfg ssid bigR p = .ok (.pass va))
    (why : String) (c : Nat) (h : round7 C H cfg ssid bigR peers = .ok (.fail why c)) : c = dev :=
  round7_single_deviator C H cfg ssid bigR peers dev hothers why c h

/-- **exactly the deviator is named**, with the reason of its own check -/
theorem sg7_deviator_blamed_exactly (peers : List R6Peer) (d : R6Peer)
    (hnd : (peers.map (·.idx)).Nodup) (hd : d ∈ peers)
    (hothers : ∀ p ∈ peers, p.idx ≠ d.idx → ∃ va, r7Peer C H cfg ssid bigR p = .ok (.pass va))
    (why : String) (c : Nat) (hbad : r7Peer C H cfg ssid bigR d = .ok (.fail why c)) :
    round7 C H cfg ssid bigR peers = .ok (.fail why d.idx) :=
  round7_deviator_blamed C H cfg ssid bigR peers d hnd hd hothers why c hbad

/-- **round 7 never crashes** on the current tree: lawful curve, cofactor 1 where the identity has no affine
form, non-empty de-commitments (`SignRound6Message.ValidateBasic` requires five non-empty parts). Nothing is
assumed about `R` or the peers' points and proofs. -/
theorem sg7_no_panic (hC : C.Lawful) (hcof : C.toAffine C.zero = none → ∀ q, C.smul C.q q = C.zero)
    (peers : List R6Peer) (hd : ∀ p ∈ peers, p.decommitment ≠ []) (tag : String) :
    round7 C H cur ssid bigR peers ≠ .panic tag :=
  round7_noPanic_of C H cur ssid bigR peers (fun p hp => r7Peer_noPanic C H hC hcof ssid bigR p (hd p hp)) tag

/-- … more: with the party's own `R` on the curve it always returns a verdict -/
theorem sg7_returns (hC : C.Lawful) (hcof : C.toAffine C.zero = none → ∀ q, C.smul C.q q = C.zero)
    (hR : C.ecIsOnCurve bigR = true) (peers : List R6Peer) (hd : ∀ p ∈ peers, p.decommitment ≠ []) :
    ∃ v, round7 C H cur ssid bigR peers = .ok v :=
  total_of
    (round7_noPanic_of C H cur ssid bigR peers (fun p hp => r7Peer_noPanic C H hC hcof ssid bigR p (hd p hp)))
    (round7_noErr_of C H cur ssid bigR peers (fun p _ => r7Peer_noErr C H cur ssid bigR hR p))

end r7

/-! ## the hypotheses are satisfiable (kernel evaluation of the model on a toy curve) -/
section examples

instance fact23 : Fact (Nat.Prime 23) := ⟨by decide⟩
/-- toy lawful curve of order 23 whose identity has affine coordinates: the point `a·G` is `(a, 0)` -/
abbrev E := zmodCurve 23
/-- a "hash" whose digests are the byte `1`: every commitment value and every Schnorr challenge is `1` -/
def Hone : HashFn := fun _ => [1]
/-- a "hash" whose digests are the byte `5`: every challenge is `5` -/
def H5 : HashFn := fun _ => [5]

/-! ### rounds 5 and 7 -/

/-- honest round-4 record of peer `idx`: `Γ = x·G`, commitment `1` opened by `[blind, x, 0]`, Schnorr proof with
coin `a`: `alpha = a·G`, `t = a + 1·x` -/
def g5 (idx x a : Nat) : R4Peer := ⟨idx, 1, [9, x, 0], (a, 0), (a + x) % 23⟩

example : r5Peer E Hone cur [] (g5 1 3 4) = .ok (.pass (3, 0)) := by decide
example : r5Peer E Hone cur [] (g5 2 5 6) = .ok (.pass (5, 0)) := by decide

/-- two honest peers: the round passes with `R = Γ_own + Γ_1 + Γ_2 = (2 + 3 + 5)·G` -/
example : round5 E Hone cur [] (2, 0) [g5 1 3 4, g5 2 5 6] = .ok (.pass (10, 0)) := by decide

/-- a wrong response `t`, a commitment that does not open, a point that does not decode: the peer is named -/
example : round5 E Hone cur [] (2, 0) [g5 1 3 4, ⟨2, 1, [9, 5, 0], (6, 0), 12⟩, g5 3 7 8] =
    .ok (.fail "failed to prove bigGamma" 2) := by decide
example : round5 E Hone cur [] (2, 0) [g5 1 3 4, ⟨2, 0, [9, 5, 0], (6, 0), 11⟩, g5 3 7 8] =
    .ok (.fail "commitment verify failed" 2) := by decide
example : round5 E Hone cur [] (2, 0) [g5 1 3 4, ⟨2, 1, [9, 5, 1], (6, 0), 11⟩, g5 3 7 8] =
    .ok (.fail "NewECPoint(bigGammaJ)" 2) := by decide

/-- the hypotheses of `sg5_single_deviator_affine_identity` / `sg5_deviator_blamed_exactly` hold for three
peers with the deviator `2` in the middle, whatever it sends -/
theorem honest5 (md : R4Peer) (hd : md.idx = 2) :
    ∀ p ∈ [g5 1 3 4, md, g5 3 7 8], p.idx ≠ 2 → ∃ g, r5Peer E Hone cur [] p = .ok (.pass g) := by
  intro p hp hne
  simp only [List.mem_cons, List.not_mem_nil, or_false] at hp
  rcases hp with rfl | rfl | rfl
  · exact ⟨(3, 0), by decide⟩
  · exact absurd hd hne
  · exact ⟨(7, 0), by decide⟩

example (md : R4Peer) (hd : md.idx = 2) (why : String) (c : Nat)
    (h : round5 E Hone cur [] (2, 0) [g5 1 3 4, md, g5 3 7 8] = .ok (.fail why c)) : c = 2 :=
  sg5_single_deviator_affine_identity E Hone cur [] (zmodCurve_lawful 23) (by decide) (2, 0) (by decide) _ 2
    (honest5 md hd) why c h

/-- `sg5_no_panic`'s hypotheses on the toy curve (`hcof` is vacuous: the identity has affine coordinates) -/
example : E.Lawful ∧ (E.toAffine E.zero = none → ∀ q, E.smul E.q q = E.zero) :=
  ⟨zmodCurve_lawful 23, fun h => absurd h (by decide)⟩

/-- the hypothesis "non-empty de-commitment" is needed in the model: `DeCommit` of an empty list compares a nil
hash (`ValidateBasic` rejects such a message before it is stored) -/
theorem sg5_empty_decommitment_panics_witness :
    round5 E Hone cur [] (2, 0) [⟨1, 1, [], (4, 0), 7⟩] = .panic "nil-hash-cmp" := by decide

/-- **`hadd` is needed in the model** (curve whose identity has no affine form, like secp256k1): both peers send
well-formed messages that pass their own checks, but peer 1 chose `Γ_1 = 18·G` so that `Γ_own + Γ_1 + Γ_2` is
the identity — `R.Add(bigGammaJ)` fails at peer 2 and names peer 2. (In the protocol the `Γ_j` are committed in
round 1 before any is opened, so peer 1 cannot aim at this; the model has no such restriction.) -/
theorem sg5_hadd_needed_witness :
    r5Peer (zmodCurveW 23) Hone cur [] (g5 1 18 4) = .ok (.pass (18, 0)) ∧
    r5Peer (zmodCurveW 23) Hone cur [] (g5 2 3 4) = .ok (.pass (3, 0)) ∧
    round5 (zmodCurveW 23) Hone cur [] (2, 0) [g5 1 18 4, g5 2 3 4] = .ok (.fail "R.Add(bigGammaJ)" 2) := by
  decide

/-- honest round-6 record of peer `idx` against `R = 2·G`: `V = v·G`, `A = x·G`, commitment `1` opened by
`[blind, v, 0, x, 0]`; Schnorr proof for `A` with coin `a`; Schnorr-V proof `alpha = al·G`, `t·2 + u = al + 1·v` -/
def g7 (idx v x a al t u : Nat) : R6Peer := ⟨idx, 1, [9, v, 0, x, 0], (a, 0), (a + x) % 23, (al, 0), t, u⟩

example : r7Peer E Hone cur [] (2, 0) (g7 1 5 3 4 6 3 5) = .ok (.pass ((5, 0), (3, 0))) := by decide

example : round7 E Hone cur [] (2, 0) [g7 1 5 3 4 6 3 5, g7 2 7 4 5 6 4 5] =
    .ok (.pass [((5, 0), (3, 0)), ((7, 0), (4, 0))]) := by decide

/-- a wrong `u` in the Schnorr-V proof, a wrong `t` in the Schnorr proof, a commitment that does not open -/
example : round7 E Hone cur [] (2, 0) [g7 1 5 3 4 6 3 5, g7 2 7 4 5 6 4 6, g7 3 5 3 4 6 3 5] =
    .ok (.fail "vverify for Vj failed" 2) := by decide
example : round7 E Hone cur [] (2, 0) [g7 1 5 3 4 6 3 5, ⟨2, 1, [9, 7, 0, 4, 0], (5, 0), 10, (6, 0), 4, 5⟩] =
    .ok (.fail "schnorr verify for Aj failed" 2) := by decide
example : round7 E Hone cur [] (2, 0) [⟨1, 0, [9, 7, 0, 4, 0], (5, 0), 9, (6, 0), 4, 5⟩, g7 2 7 4 5 6 4 5] =
    .ok (.fail "de-commitment for bigVj and bigAj failed" 1) := by decide

theorem honest7 (md : R6Peer) (hd : md.idx = 2) :
    ∀ p ∈ [g7 1 5 3 4 6 3 5, md, g7 3 5 3 4 6 3 5], p.idx ≠ 2 →
      ∃ va, r7Peer E Hone cur [] (2, 0) p = .ok (.pass va) := by
  intro p hp hne
  simp only [List.mem_cons, List.not_mem_nil, or_false] at hp
  rcases hp with rfl | rfl | rfl
  · exact ⟨((5, 0), (3, 0)), by decide⟩
  · exact absurd hd hne
  · exact ⟨((5, 0), (3, 0)), by decide⟩

example (md : R6Peer) (hd : md.idx = 2) (why : String) (c : Nat)
    (h : round7 E Hone cur [] (2, 0) [g7 1 5 3 4 6 3 5, md, g7 3 5 3 4 6 3 5] = .ok (.fail why c)) : c = 2 :=
  sg7_single_deviator E Hone cur [] (2, 0) _ 2 (honest7 md hd) why c h

example : round7 E Hone cur [] (2, 0) [g7 1 5 3 4 6 3 5, g7 2 7 4 5 6 4 6, g7 3 5 3 4 6 3 5] =
    .ok (.fail "vverify for Vj failed" 2) :=
  sg7_deviator_blamed_exactly E Hone cur [] (2, 0) _ (g7 2 7 4 5 6 4 6) (by decide) (by simp)
    (honest7 _ rfl) _ 2 (by decide)

theorem sg7_empty_decommitment_panics_witness :
    round7 E Hone cur [] (2, 0) [⟨1, 1, [], (4, 0), 7, (6, 0), 3, 5⟩] = .panic "nil-hash-cmp" := by decide


/-! ### rounds 2 and 3: Paillier `N = 35 = 5·7`, ring-Pedersen `Ñ = 77`, `h1 = 2`, `h2 = 4`, `q = 23`; the proofs
are outputs of the model's provers (`rangeProve`, `bobProve`) -/

/-- the party's own ring-Pedersen parameters and Paillier key (`λ = lcm(4, 6) = 12`) -/
def ownRP : Mta.RP := ⟨77, 2, 4⟩
def ownSk : Paillier.PrivateKey := ⟨35, 12, 24, 5, 7⟩

/-- honest round-1 record: ciphertext `683` of `3` under `N_A = 35` with an accepted range proof -/
def g2 (idx : Nat) : R1Peer := ⟨idx, 35, 683, [[43], [3, 189], [23], [26], [45], [35]]⟩

example : r2Peer E H5 cur ownRP (g2 1) = .ok true := by decide +kernel

example : round2 E H5 cur ownRP [g2 1, g2 2] = .ok [] := by decide +kernel

/-- an altered proof (`s2`: 35 → 36), a ciphertext out of range, a proof with five parts -/
example : round2 E H5 cur ownRP [g2 1, ⟨2, 35, 683, [[43], [3, 189], [23], [26], [45], [36]]⟩, g2 3] = .ok [2] := by
  decide +kernel
example : round2 E H5 cur ownRP [g2 1, ⟨2, 35, 683 + 1225, [[43], [3, 189], [23], [26], [45], [35]]⟩, g2 3] =
    .ok [2] := by decide +kernel
example : round2 E H5 cur ownRP [g2 1, ⟨2, 35, 683, [[43], [3, 189], [23], [26], [45]]⟩, ⟨3, 35, 683, []⟩] =
    .ok [2, 3] := by decide +kernel

theorem honest2 (md : R1Peer) (hd : md.idx = 2) :
    ∀ p ∈ [g2 1, md, g2 3], p.idx ≠ 2 → r2Peer E H5 cur ownRP p = .ok true := by
  intro p hp hne
  simp only [List.mem_cons, List.not_mem_nil, or_false] at hp
  rcases hp with rfl | rfl | rfl
  · decide +kernel
  · exact absurd hd hne
  · decide +kernel

/-- honest round-2 record: the party's ciphertext `683` (of `3`), the peer's responses `886` (of `3·3 + 7`) with
Bob's proofs for the secret `3`, public point `W = 3·G`, `U = 2·G` -/
def bobParts10 : List Bytes := [[8], [2], [50], [4, 0], [60], [29], [40], [183], [75], [187]]
def g3 (idx : Nat) : R2Peer := ⟨idx, 683, 886, bobParts10, 886, bobParts10 ++ [[2], [0]], (3, 0)⟩

example : r3Peer E H5 cur [] ownSk ownRP (g3 1) = .ok (some (16, 16)) := by decide +kernel

example : round3 E H5 cur [] ownSk ownRP [g3 1, g3 2] = .ok ⟨[], [(16, 16), (16, 16)]⟩ := by decide +kernel

/-- a response proved for another public point (`W = 4·G` held by the party), an altered response ciphertext,
a `proofBob` with nine parts: exactly the deviator is named, and no shares are returned -/
example : round3 E H5 cur [] ownSk ownRP
    [g3 1, ⟨2, 683, 886, bobParts10, 886, bobParts10 ++ [[2], [0]], (4, 0)⟩, g3 3] = .ok ⟨[2], []⟩ := by
  decide +kernel
example : round3 E H5 cur [] ownSk ownRP
    [g3 1, ⟨2, 683, 887, bobParts10, 886, bobParts10 ++ [[2], [0]], (3, 0)⟩, g3 3] = .ok ⟨[2], []⟩ := by
  decide +kernel
example : round3 E H5 cur [] ownSk ownRP
    [g3 1, ⟨2, 683, 886, bobParts10.drop 1, 886, bobParts10 ++ [[2], [0]], (3, 0)⟩, g3 3] = .ok ⟨[2], []⟩ := by
  decide +kernel

theorem honest3 (md : R2Peer) (hd : md.idx = 2) :
    ∀ p ∈ [g3 1, md, g3 3], p.idx ≠ 2 → ∃ s, r3Peer E H5 cur [] ownSk ownRP p = .ok (some s) := by
  intro p hp hne
  simp only [List.mem_cons, List.not_mem_nil, or_false] at hp
  rcases hp with rfl | rfl | rfl
  · exact ⟨(16, 16), by decide +kernel⟩
  · exact absurd hd hne
  · exact ⟨(16, 16), by decide +kernel⟩

/-- so, whatever party 2 sends, a returned culprit list names nobody else (`sg2_single_deviator`,
`sg3_single_deviator`) -/
example (md : R1Peer) (hd : md.idx = 2) (cs : List Nat)
    (h : round2 E H5 cur ownRP [g2 1, md, g2 3] = .ok cs) : ∀ c ∈ cs, c = 2 :=
  (sg2_single_deviator E H5 cur ownRP _ 2 (honest2 md hd)).1 cs h
example (md : R2Peer) (hd : md.idx = 2) (r : R3Result)
    (h : round3 E H5 cur [] ownSk ownRP [g3 1, md, g3 3] = .ok r) : ∀ c ∈ r.culprits, c = 2 :=
  (sg3_single_deviator E H5 cur [] ownSk ownRP _ 2 (honest3 md hd)).1 r h

/-- the hypotheses of `sg3_no_panic` / `sg3_returns`: the toy key is sound, the lists have twelve parts -/
example : (modInverse (Paillier.L (modPow (Paillier.gamma ownSk.n) ownSk.lambdaN (Paillier.nSquare ownSk.n))
    ownSk.n) ownSk.n).isSome = true := by decide
example : ∀ p ∈ [g3 1, g3 2], p.proofBobWC.length = bobWCParts := by decide

/-- the hypotheses of `sg3_wrong_point_blamed` hold for the record with `W = 4·G`: `17·G ≠ 5·(4·G) + 2·G` -/
example (v : Option (Nat × Nat))
    (hv : r3Peer E H5 cur [] ownSk ownRP ⟨2, 683, 886, bobParts10, 886, bobParts10 ++ [[2], [0]], (4, 0)⟩ = .ok v) :
    v = none :=
  sg3_wrong_point_blamed E H5 [] ownSk ownRP (zmodCurve_lawful 23) _ ⟨8, 2, 50, 1024, 60, 29, 40, 183, 75, 187⟩
    (2, 0) (by decide +kernel) (by decide +kernel) v hv


end examples

end TssVerif.C05d
