import TssVerif.Gen.Facts
import TssVerif.Core.EngineTables
import TssVerif.Core.Zk
import TssVerif.Core.Commit
/-! Decidable obligations over the facts regenerated from `/repo` on every run (`vh facts`):
the hand-written tables and constants of the model equal what the running code exhibits.
A change that flips a flag, drops or adds a round or a message type, or changes a security
parameter makes one of these `decide` proofs fail. Imported by the property files that rely on them. -/
namespace TssVerif.GenObl
open TssVerif Engine

/-- the acceptance table a model protocol prescribes: per round the (type name, flag) pairs -/
def acceptOf (p : Proto) : List (List (String × Bool)) :=
  p.table.map fun r => r.needs.map fun tf => (typeName p tf.1, tf.2)

/-- per type: is it emitted once per peer (addressed to one recipient) in the model table -/
def routingOf (p : Proto) : List (String × Bool × Bool) :=
  (List.range p.types.length).map fun i =>
    let id := i + 1
    let perPeer := p.table.any fun r => r.emits.any fun e => e.1 == id && e.2
    let flag := p.table.any fun r => r.needs.any fun tf => tf.1 == id && tf.2
    (typeName p id, flag, perPeer)

theorem eddsaKeygen_types : Gen.eddsaKeygenTypes = eddsaKeygen.types := by decide
theorem eddsaSigning_types : Gen.eddsaSigningTypes = eddsaSigning.types := by decide
theorem ecdsaKeygen_types : Gen.ecdsaKeygenTypes = ecdsaKeygen.types := by decide
theorem ecdsaSigning_types : Gen.ecdsaSigningTypes = ecdsaSigning.types := by decide

theorem eddsaKeygen_accept : Gen.eddsaKeygenAccept = acceptOf eddsaKeygen := by decide
theorem eddsaSigning_accept : Gen.eddsaSigningAccept = acceptOf eddsaSigning := by decide
theorem ecdsaKeygen_accept : Gen.ecdsaKeygenAccept = acceptOf ecdsaKeygen := by decide
theorem ecdsaSigning_accept : Gen.ecdsaSigningAccept = acceptOf ecdsaSigning := by decide

/-- a type flagged broadcast is never addressed to one recipient and vice versa; the routing emitted by
the code equals the routing the model table prescribes -/
theorem eddsaKeygen_routing : Gen.eddsaKeygenRouting = routingOf eddsaKeygen := by decide
theorem eddsaSigning_routing : Gen.eddsaSigningRouting = routingOf eddsaSigning := by decide
theorem ecdsaKeygen_routing : Gen.ecdsaKeygenRouting = routingOf ecdsaKeygen := by decide
theorem ecdsaSigning_routing : Gen.ecdsaSigningRouting = routingOf ecdsaSigning := by decide

/-- every message type is accepted in exactly one round, with exactly one flag value -/
def AcceptedOnce (acc : List (List (String × Bool))) (types : List String) : Bool :=
  types.all fun t => ((acc.flatten.filter fun tf => tf.1 == t).length == 1)

theorem accepted_once :
    AcceptedOnce Gen.eddsaKeygenAccept Gen.eddsaKeygenTypes ∧ AcceptedOnce Gen.eddsaSigningAccept Gen.eddsaSigningTypes ∧
    AcceptedOnce Gen.ecdsaKeygenAccept Gen.ecdsaKeygenTypes ∧ AcceptedOnce Gen.ecdsaSigningAccept Gen.ecdsaSigningTypes := by decide

/-- channel discipline: a type is point-to-point (not broadcast) iff it goes to exactly one recipient -/
def Disciplined (rt : List (String × Bool × Bool)) : Bool := rt.all fun x => x.2.1 != x.2.2

theorem channel_discipline :
    Disciplined Gen.eddsaKeygenRouting ∧ Disciplined Gen.eddsaSigningRouting ∧
    Disciplined Gen.ecdsaKeygenRouting ∧ Disciplined Gen.ecdsaSigningRouting := by decide

/-- the secret-bearing types (key shares, MtA ciphertexts and responses) are exactly the point-to-point ones -/
theorem secret_bearing_are_p2p :
    (Gen.eddsaKeygenRouting.filter fun x => !x.2.1).map (·.1) = ["KGRound2Message1"] ∧
    (Gen.ecdsaKeygenRouting.filter fun x => !x.2.1).map (·.1) = ["KGRound2Message1"] ∧
    (Gen.ecdsaSigningRouting.filter fun x => !x.2.1).map (·.1) = ["SignRound1Message1", "SignRound2Message"] ∧
    (Gen.eddsaSigningRouting.filter fun x => !x.2.1).map (·.1) = [] := by decide

/-- security parameters and limits of the model equal the constants in the source tree -/
theorem constants_match :
    Gen.dlnproof_Iterations = Zk.dlnIterations ∧ Gen.modproof_Iterations = Zk.modIterations ∧
    Gen.paillier_ProofIters = Paillier.proofIters ∧ Gen.paillier_maxXsRejections = Paillier.maxXsRejections ∧
    Gen.commitments_PartsCap = partsCap ∧ Gen.commitments_MaxPartSize = maxPartSize ∧
    Gen.modproof_ProofModBytesParts = 2 * Zk.modIterations + 3 ∧
    Gen.paillier_verifyPrimesUntil = 1000 ∧ Gen.keygen_paillierModulusLen = 2048 ∧ Gen.keygen_safePrimeBitLen = 1024 ∧
    Gen.commitments_HashLength = 256 ∧ Gen.ckd_HardenedKeyStart = 2 ^ 31 ∧ Gen.ckd_maxDepth = 255 ∧
    Gen.facproof_ProofFacBytesParts = 11 ∧ Gen.mta_RangeProofAliceBytesParts = 6 ∧
    Gen.mta_ProofBobBytesParts = 10 ∧ Gen.mta_ProofBobWCBytesParts = 12 := by decide

end TssVerif.GenObl
