import TssVerif.Lemmas.C05Sg9
/-! # C05e — one deviating participant in threshold-ECDSA signing round 9: who is named

Property C05: "A misbehaving peer cannot cause a bad output and is the one blamed: if one party deviates by
sending an altered message, every honest party either finishes with a valid output or reports an error whose
culprit list names nobody but the deviator; when the alteration is one the checks cover (a proof, a commitment
opening, a share), the error names exactly the deviator. No honest party is ever named."

The object is the model of `ecdsa/signing/round_9.go` in `Core/BlameSg9.lean`: `round9Go C H checkPoints own u t
peers` (the loop on the running sums `u = U_i + …`, `t = T_i + …`, internal points) and its wrapper `round9` (own
points given by coordinates). `checkPoints = true` is the tree as it is now (after the repair), `false` the tree
before it. Everything holds for every curve record `C`, every hash `H`, unboundedly many peers. The judgements
about ONE peer's opening are defined in `Lemmas/C05Sg9.lean` and spelled out in section 0 (`opens_iff`, …):
`Opens C H p uj tj` (valid: the de-commitment opens the commitment to at least four values, the first pair are
the coordinates of the curve point `uj`, the second of `tj`), `NoOpen` (does not open), `Short` (opens to fewer
than four values), `OffU` / `OffT` (opens, and the pair for `U_j` / `T_j` is not a point of the curve).
"Every peer except `dev` is honest" is "every peer with `idx ≠ dev` opens validly".

How the clauses of the property are covered (round 9 names the FIRST failing peer, and itself for the final
comparison `U = T`):

* "an error names nobody but the deviator": `sg9_first_failing_named` (exact, both trees),
  `sg9_first_failing_named_cur` (current tree), `sg9_culprit_is_sender_or_own`,
  `sg9_self_blame_only_for_local_assertion`, `sg9_single_deviator` (part 1);
  the party names ITSELF only for the final comparison after every opening was valid — that report is the
  protocol's own "something is wrong, no culprit known" and is not an accusation of a peer;
* "a covered alteration (a commitment opening, a point off the curve) names exactly the deviator":
  `sg9_offcurve_names_sender` (THE REPAIR), `sg9_bad_opening_names_sender`, `sg9_single_deviator` (part 2);
  before the repair this FAILED for points off the curve: `sg9_old_tree_offcurve_names_self` (general),
  `sg9_old_tree_self_blame_witness` (concrete), `sg9_first_failing_named_old`;
* "no honest party is ever named": `sg9_culprit_is_sender_or_own` with `sg9_single_deviator`: a peer that opens
  validly is never the one named; `sg9_honest_peer_not_named`;
* "finishes with a valid output": `sg9_pass_iff` (the share is revealed iff every opening is valid and the two
  sums have the same affine form);
* "the call returns": `sg9_no_panic`, `sg9_returns`, `sg9_no_unattributed_error`, exact crash condition
  `sg9_panic_iff`; the hypothesis (five-part de-commitments, as `SignRound8Message.ValidateBasic` enforces) is
  needed: `sg9_short_opening_panics`, `sg9_short_opening_panics_witness`, `sg9_empty_decommitment_panics_witness`;
* the wrapper: `round9_eq`, `round9_err_iff`. -/
set_option autoImplicit false
namespace TssVerif.C05e
open TssVerif BlameSg C05Sg9L

variable {P : Type} (C : Curve P) (H : HashFn)

/-! ## 0. the judgements about one peer's opening, spelled out -/
section judgements
variable (p : R8Peer)

theorem opens_iff (uj tj : P) :
    Opens C H p uj tj ↔
      ∃ v, decommitWith H p.commitment (p.decommitment.map Int.ofNat) = .ok (some v) ∧ 4 ≤ v.length ∧
        C.ofAffine (v.getD 0 0).toNat (v.getD 1 0).toNat = some uj ∧
        C.ofAffine (v.getD 2 0).toNat (v.getD 3 0).toNat = some tj := Iff.rfl

theorem noOpen_iff : NoOpen H p ↔ decommitWith H p.commitment (p.decommitment.map Int.ofNat) = .ok none := Iff.rfl

theorem short_iff :
    Short H p ↔ ∃ v, decommitWith H p.commitment (p.decommitment.map Int.ofNat) = .ok (some v) ∧ v.length < 4 :=
  Iff.rfl

theorem offU_iff :
    OffU C H p ↔
      ∃ v, decommitWith H p.commitment (p.decommitment.map Int.ofNat) = .ok (some v) ∧ 4 ≤ v.length ∧
        C.ofAffine (v.getD 0 0).toNat (v.getD 1 0).toNat = none := Iff.rfl

theorem offT_iff :
    OffT C H p ↔
      ∃ v uj, decommitWith H p.commitment (p.decommitment.map Int.ofNat) = .ok (some v) ∧ 4 ≤ v.length ∧
        C.ofAffine (v.getD 0 0).toNat (v.getD 1 0).toNat = some uj ∧
        C.ofAffine (v.getD 2 0).toNat (v.getD 3 0).toNat = none := Iff.rfl

/-- who an off-curve pair is blamed on: after the repair the sender (with the tag of the failed decoding);
before it the party itself (with the text of the final assertion) -/
theorem named_iff (cp : Bool) (own : Nat) (tag why : String) (c : Nat) :
    Named cp own p tag why c ↔
      (cp = true ∧ why = tag ∧ c = p.idx) ∨ (cp = false ∧ why = "U doesn't equal T" ∧ c = own) := Iff.rfl

/-- the judgements exclude each other and (unless `DeCommit` itself crashes, which needs an empty list) exhaust
the cases: a valid opening has exactly one pair of points -/
theorem opening_trichotomy :
    (∃ e, decommitWith H p.commitment (p.decommitment.map Int.ofNat) = .panic e) ∨
      NoOpen H p ∨ Short H p ∨ OffU C H p ∨ OffT C H p ∨ ∃ uj tj, Opens C H p uj tj :=
  opening_cases C H p

theorem opens_functional (uj tj uj' tj' : P) (h : Opens C H p uj tj) (h' : Opens C H p uj' tj') :
    uj = uj' ∧ tj = tj' :=
  opens_unique C H p h h'

theorem opens_excludes (uj tj : P) (h : Opens C H p uj tj) :
    ¬ NoOpen H p ∧ ¬ Short H p ∧ ¬ OffU C H p ∧ ¬ OffT C H p := by
  have hp := peer9_of_opens C H true 0 p h
  refine ⟨fun hn => ?_, fun hs => ?_, fun hu => ?_, fun ht => ?_⟩
  · rw [peer9_of_noOpen C H true 0 p hn] at hp; cases hp
  · rw [peer9_of_short C H true 0 p hs] at hp; cases hp
  · rw [peer9_of_offU C H true 0 p hu] at hp; cases hp
  · rw [peer9_of_offT C H true 0 p ht] at hp; cases hp

end judgements

/-! ## 1. the error names the first failing peer, or the party itself for the final comparison -/
section first
variable (cp : Bool) (own : Nat) (u t : P)

/-- **both trees, exact**: the loop reports `why` naming `c` iff either every peer opened validly (points
`uts`), the affine forms of `u + Σ U_j` and `t + Σ T_j` differ, and the party names itself for "U doesn't equal
T"; or the list splits as `pre ++ p :: post`, every peer of `pre` opened validly, and `p` is rejected: its
de-commitment does not open (names `p`), or a pair is off the curve (names `p` after the repair, the party itself
before it). -/
theorem sg9_first_failing_named (peers : List R8Peer) (why : String) (c : Nat) :
    round9Go C H cp own u t peers = .ok (.fail why c) ↔
      (∃ uts : List (P × P), List.Forall₂ (fun q ut => Opens C H q ut.1 ut.2) peers uts ∧
        C.toAffine ((uts.map (·.1)).foldl C.add u) ≠ C.toAffine ((uts.map (·.2)).foldl C.add t) ∧
        why = "U doesn't equal T" ∧ c = own) ∨
      (∃ pre p post, peers = pre ++ p :: post ∧ (∀ q ∈ pre, ∃ uj tj, Opens C H q uj tj) ∧
        ((NoOpen H p ∧ why = "de-commitment for bigVj and bigAj failed" ∧ c = p.idx) ∨
         (OffU C H p ∧ Named cp own p "NewECPoint(Uj)" why c) ∨
         (OffT C H p ∧ Named cp own p "NewECPoint(Tj)" why c))) := by
  rw [round9Go_fail_iff]
  constructor
  · rintro (h | ⟨pre, p, post, he, hpre, hf⟩)
    · exact Or.inl h
    · exact Or.inr ⟨pre, p, post, he, hpre, (peer9_fail_iff C H cp own p why c).1 hf⟩
  · rintro (h | ⟨pre, p, post, he, hpre, hf⟩)
    · exact Or.inl h
    · exact Or.inr ⟨pre, p, post, he, hpre, (peer9_fail_iff C H cp own p why c).2 hf⟩

/-- **current tree, exact**: the party names itself only for the final comparison after valid openings
throughout; otherwise the FIRST peer whose opening is not valid is named, with the reason of its rejection -/
theorem sg9_first_failing_named_cur (peers : List R8Peer) (why : String) (c : Nat) :
    round9Go C H true own u t peers = .ok (.fail why c) ↔
      (c = own ∧ why = "U doesn't equal T" ∧
        ∃ uts : List (P × P), List.Forall₂ (fun q ut => Opens C H q ut.1 ut.2) peers uts ∧
          C.toAffine ((uts.map (·.1)).foldl C.add u) ≠ C.toAffine ((uts.map (·.2)).foldl C.add t)) ∨
      (∃ pre p post, peers = pre ++ p :: post ∧ p.idx = c ∧ (∀ q ∈ pre, ∃ uj tj, Opens C H q uj tj) ∧
        ((NoOpen H p ∧ why = "de-commitment for bigVj and bigAj failed") ∨
         (OffU C H p ∧ why = "NewECPoint(Uj)") ∨ (OffT C H p ∧ why = "NewECPoint(Tj)"))) := by
  rw [sg9_first_failing_named]
  constructor
  · rintro (⟨uts, ha, hne, hw, hc⟩ | ⟨pre, p, post, he, hpre, hr⟩)
    · exact Or.inl ⟨hc, hw, uts, ha, hne⟩
    · refine Or.inr ⟨pre, p, post, he, ?_, hpre, ?_⟩
      · rcases hr with ⟨_, _, hc⟩ | ⟨_, ⟨_, _, hc⟩ | ⟨h, _⟩⟩ | ⟨_, ⟨_, _, hc⟩ | ⟨h, _⟩⟩
        · exact hc.symm
        · exact hc.symm
        · cases h
        · exact hc.symm
        · cases h
      · rcases hr with ⟨hn, hw, _⟩ | ⟨hu, ⟨_, hw, _⟩ | ⟨h, _⟩⟩ | ⟨ht, ⟨_, hw, _⟩ | ⟨h, _⟩⟩
        · exact Or.inl ⟨hn, hw⟩
        · exact Or.inr (Or.inl ⟨hu, hw⟩)
        · cases h
        · exact Or.inr (Or.inr ⟨ht, hw⟩)
        · cases h
  · rintro (⟨hc, hw, uts, ha, hne⟩ | ⟨pre, p, post, he, hc, hpre, hr⟩)
    · exact Or.inl ⟨uts, ha, hne, hw, hc⟩
    · refine Or.inr ⟨pre, p, post, he, hpre, ?_⟩
      rcases hr with ⟨hn, hw⟩ | ⟨hu, hw⟩ | ⟨ht, hw⟩
      · exact Or.inl ⟨hn, hw, hc.symm⟩
      · exact Or.inr (Or.inl ⟨hu, Or.inl ⟨rfl, hw, hc.symm⟩⟩)
      · exact Or.inr (Or.inr ⟨ht, Or.inl ⟨rfl, hw, hc.symm⟩⟩)

/-- **tree before the repair, exact**: the party names itself for the final comparison AND for the first peer
whose opened pair is off the curve; a peer is named only for a de-commitment that does not open -/
theorem sg9_first_failing_named_old (peers : List R8Peer) (why : String) (c : Nat) :
    round9Go C H false own u t peers = .ok (.fail why c) ↔
      (c = own ∧ why = "U doesn't equal T" ∧
        ((∃ uts : List (P × P), List.Forall₂ (fun q ut => Opens C H q ut.1 ut.2) peers uts ∧
          C.toAffine ((uts.map (·.1)).foldl C.add u) ≠ C.toAffine ((uts.map (·.2)).foldl C.add t)) ∨
         (∃ pre p post, peers = pre ++ p :: post ∧ (∀ q ∈ pre, ∃ uj tj, Opens C H q uj tj) ∧
          (OffU C H p ∨ OffT C H p)))) ∨
      (∃ pre p post, peers = pre ++ p :: post ∧ p.idx = c ∧ (∀ q ∈ pre, ∃ uj tj, Opens C H q uj tj) ∧
        NoOpen H p ∧ why = "de-commitment for bigVj and bigAj failed") := by
  rw [sg9_first_failing_named]
  constructor
  · rintro (⟨uts, ha, hne, hw, hc⟩ | ⟨pre, p, post, he, hpre, hr⟩)
    · exact Or.inl ⟨hc, hw, Or.inl ⟨uts, ha, hne⟩⟩
    · rcases hr with ⟨hn, hw, hc⟩ | ⟨hu, ⟨h, _⟩ | ⟨_, hw, hc⟩⟩ | ⟨ht, ⟨h, _⟩ | ⟨_, hw, hc⟩⟩
      · exact Or.inr ⟨pre, p, post, he, hc.symm, hpre, hn, hw⟩
      · cases h
      · exact Or.inl ⟨hc, hw, Or.inr ⟨pre, p, post, he, hpre, Or.inl hu⟩⟩
      · cases h
      · exact Or.inl ⟨hc, hw, Or.inr ⟨pre, p, post, he, hpre, Or.inr ht⟩⟩
  · rintro (⟨hc, hw, ⟨uts, ha, hne⟩ | ⟨pre, p, post, he, hpre, hoff⟩⟩ | ⟨pre, p, post, he, hc, hpre, hn, hw⟩)
    · exact Or.inl ⟨uts, ha, hne, hw, hc⟩
    · refine Or.inr ⟨pre, p, post, he, hpre, ?_⟩
      rcases hoff with hu | ht
      · exact Or.inr (Or.inl ⟨hu, Or.inr ⟨rfl, hw, hc⟩⟩)
      · exact Or.inr (Or.inr ⟨ht, Or.inr ⟨rfl, hw, hc⟩⟩)
    · exact Or.inr ⟨pre, p, post, he, hpre, Or.inl ⟨hn, hw, hc.symm⟩⟩

end first

/-! ## 2. a covered alteration names exactly its sender (the repair), and did not before -/
section covered
variable (own : Nat) (u t : P)

/-- **THE REPAIR**: on the current tree, if every peer before `p` opens validly and `p` opens (four values or
more) to a pair that is not a point of the curve — for `U_j`, resp. for `T_j` with `U_j` on the curve — the round
reports the failed decoding and names `p` -/
theorem sg9_offcurve_names_sender (pre post : List R8Peer) (p : R8Peer)
    (hpre : ∀ q ∈ pre, ∃ uj tj, Opens C H q uj tj) :
    (OffU C H p → round9Go C H true own u t (pre ++ p :: post) = .ok (.fail "NewECPoint(Uj)" p.idx)) ∧
    (OffT C H p → round9Go C H true own u t (pre ++ p :: post) = .ok (.fail "NewECPoint(Tj)" p.idx)) := by
  refine ⟨fun hu => ?_, fun ht => ?_⟩
  · exact (round9Go_fail_iff C H true own u t _ _ _).2
      (Or.inr ⟨pre, p, post, rfl, hpre, by rw [peer9_of_offU C H true own p hu]; rfl⟩)
  · exact (round9Go_fail_iff C H true own u t _ _ _).2
      (Or.inr ⟨pre, p, post, rfl, hpre, by rw [peer9_of_offT C H true own p ht]; rfl⟩)

/-- a de-commitment that does not open the commitment names its sender (both trees) -/
theorem sg9_bad_opening_names_sender (cp : Bool) (pre post : List R8Peer) (p : R8Peer)
    (hpre : ∀ q ∈ pre, ∃ uj tj, Opens C H q uj tj) (hn : NoOpen H p) :
    round9Go C H cp own u t (pre ++ p :: post) =
      .ok (.fail "de-commitment for bigVj and bigAj failed" p.idx) :=
  (round9Go_fail_iff C H cp own u t _ _ _).2
    (Or.inr ⟨pre, p, post, rfl, hpre, peer9_of_noOpen C H cp own p hn⟩)

/-- **before the repair the property failed**: the same alteration — a pair off the curve from peer `p` — made
the party name ITSELF (in the model: by the convention of `Core/BlameSg9.lean` for the unspecified raw addition) -/
theorem sg9_old_tree_offcurve_names_self (pre post : List R8Peer) (p : R8Peer)
    (hpre : ∀ q ∈ pre, ∃ uj tj, Opens C H q uj tj) (hoff : OffU C H p ∨ OffT C H p) :
    round9Go C H false own u t (pre ++ p :: post) = .ok (.fail "U doesn't equal T" own) := by
  refine (round9Go_fail_iff C H false own u t _ _ _).2 (Or.inr ⟨pre, p, post, rfl, hpre, ?_⟩)
  rcases hoff with hu | ht
  · rw [peer9_of_offU C H false own p hu]; rfl
  · rw [peer9_of_offT C H false own p ht]; rfl

end covered

/-! ## 3. who can be named at all -/
section names
variable (cp : Bool) (own : Nat) (u t : P)

/-- **the name is the party's own index or a peer's** -/
theorem sg9_culprit_is_sender_or_own (peers : List R8Peer) (why : String) (c : Nat)
    (h : round9Go C H cp own u t peers = .ok (.fail why c)) : c = own ∨ c ∈ peers.map (·.idx) := by
  rcases (round9Go_fail_iff C H cp own u t peers why c).1 h with ⟨_, _, _, _, hc⟩ | ⟨pre, p, post, he, _, hf⟩
  · exact Or.inl hc
  · rcases peer9_fail_idx C H cp own p why c hf with hc | ⟨_, hc, _⟩
    · exact Or.inr (List.mem_map.2 ⟨p, by rw [he]; simp, hc.symm⟩)
    · exact Or.inl hc

/-- **current tree**: a failure is either the local assertion — reason "U doesn't equal T", names the party,
every opening valid, the sums differ — or it has another reason and names a peer -/
theorem sg9_fail_kinds (peers : List R8Peer) (why : String) (c : Nat)
    (h : round9Go C H true own u t peers = .ok (.fail why c)) :
    (why = "U doesn't equal T" ∧ c = own ∧
      ∃ uts : List (P × P), List.Forall₂ (fun q ut => Opens C H q ut.1 ut.2) peers uts ∧
        C.toAffine ((uts.map (·.1)).foldl C.add u) ≠ C.toAffine ((uts.map (·.2)).foldl C.add t)) ∨
    (why ≠ "U doesn't equal T" ∧ c ∈ peers.map (·.idx)) := by
  rcases (round9Go_fail_iff C H true own u t peers why c).1 h with
    ⟨uts, ha, hne, hw, hc⟩ | ⟨pre, p, post, he, _, hf⟩
  · exact Or.inl ⟨hw, hc, uts, ha, hne⟩
  · obtain ⟨hc, hw, _⟩ := peer9_fail_cur C H own p why c hf
    exact Or.inr ⟨hw, List.mem_map.2 ⟨p, by rw [he]; simp, hc.symm⟩⟩

/-- **the party names itself only for its local assertion** (current tree; the party's own index is not a
peer's): then the reason is "U doesn't equal T" and every peer's opening was valid -/
theorem sg9_self_blame_only_for_local_assertion (peers : List R8Peer) (hself : own ∉ peers.map (·.idx))
    (why : String) (h : round9Go C H true own u t peers = .ok (.fail why own)) :
    why = "U doesn't equal T" ∧
      ∃ uts : List (P × P), List.Forall₂ (fun q ut => Opens C H q ut.1 ut.2) peers uts ∧
        C.toAffine ((uts.map (·.1)).foldl C.add u) ≠ C.toAffine ((uts.map (·.2)).foldl C.add t) := by
  rcases sg9_fail_kinds C H own u t peers why own h with ⟨hw, _, hex⟩ | ⟨_, hm⟩
  · exact ⟨hw, hex⟩
  · exact absurd hm hself

/-- **a peer that opens validly is never the one named** (current tree, distinct indices, the party's own index
not a peer's) -/
theorem sg9_honest_peer_not_named (peers : List R8Peer) (hnd : (peers.map (·.idx)).Nodup)
    (hself : own ∉ peers.map (·.idx)) (q : R8Peer) (hq : q ∈ peers) (uj tj : P) (ho : Opens C H q uj tj)
    (why : String) (c : Nat) (h : round9Go C H true own u t peers = .ok (.fail why c)) : c ≠ q.idx := by
  intro hc
  rcases (round9Go_fail_iff C H true own u t peers why c).1 h with
    ⟨_, _, _, _, hc'⟩ | ⟨pre, p, post, he, _, hf⟩
  · exact hself (List.mem_map.2 ⟨q, hq, by rw [← hc, hc']⟩)
  · obtain ⟨hcp, _, _⟩ := peer9_fail_cur C H own p why c hf
    have hpq : p = q :=
      C05SgL.eq_of_nodup_map' (fun r : R8Peer => r.idx) hnd (by rw [he]; simp) hq (by rw [← hcp, hc])
    subst hpq
    rw [peer9_of_opens C H true own p ho] at hf
    cases hf

end names

/-! ## 4. one deviator -/
section deviator
variable (own : Nat) (u t : P)

/-- **one deviator, current tree**: every peer other than `dev` opens validly. Then (1) a failure names `dev`,
or it is the local assertion — the party itself, "U doesn't equal T", every opening (also `dev`'s) valid and the
sums different; (2) for distinct indices, if `dev`'s de-commitment does not open, or opens to a pair off the
curve, the round reports exactly that, naming exactly `dev`. -/
theorem sg9_single_deviator (peers : List R8Peer) (dev : Nat)
    (hothers : ∀ p ∈ peers, p.idx ≠ dev → ∃ uj tj, Opens C H p uj tj) :
    (∀ why c, round9Go C H true own u t peers = .ok (.fail why c) →
      c = dev ∨ (c = own ∧ why = "U doesn't equal T" ∧
        ∃ uts : List (P × P), List.Forall₂ (fun q ut => Opens C H q ut.1 ut.2) peers uts ∧
          C.toAffine ((uts.map (·.1)).foldl C.add u) ≠ C.toAffine ((uts.map (·.2)).foldl C.add t))) ∧
    (∀ d ∈ peers, d.idx = dev → (peers.map (·.idx)).Nodup →
      (NoOpen H d → round9Go C H true own u t peers =
        .ok (.fail "de-commitment for bigVj and bigAj failed" dev)) ∧
      (OffU C H d → round9Go C H true own u t peers = .ok (.fail "NewECPoint(Uj)" dev)) ∧
      (OffT C H d → round9Go C H true own u t peers = .ok (.fail "NewECPoint(Tj)" dev))) := by
  constructor
  · intro why c h
    rcases (round9Go_fail_iff C H true own u t peers why c).1 h with
      ⟨uts, ha, hne, hw, hc⟩ | ⟨pre, p, post, he, _, hf⟩
    · exact Or.inr ⟨hc, hw, uts, ha, hne⟩
    · obtain ⟨hcp, _, _⟩ := peer9_fail_cur C H own p why c hf
      left
      rw [hcp]
      apply Classical.byContradiction
      intro hne
      obtain ⟨uj, tj, ho⟩ := hothers p (by rw [he]; simp) hne
      rw [peer9_of_opens C H true own p ho] at hf
      cases hf
  · intro d hd hdev hnd
    obtain ⟨pre, post, he⟩ := List.append_of_mem hd
    have hpre : ∀ q ∈ pre, ∃ uj tj, Opens C H q uj tj := by
      intro q hq
      refine hothers q (by rw [he]; simp [hq]) ?_
      rw [← hdev]
      exact idx_ne_of_nodup (by rw [← he]; exact hnd) q hq
    subst hdev
    refine ⟨fun hn => ?_, fun hu => ?_, fun ht => ?_⟩
    · rw [he]; exact sg9_bad_opening_names_sender C H own u t true pre post d hpre hn
    · rw [he]; exact (sg9_offcurve_names_sender C H own u t pre post d hpre).1 hu
    · rw [he]; exact (sg9_offcurve_names_sender C H own u t pre post d hpre).2 ht

/-- **one deviator, tree before the repair**: a failure names `dev` or the party itself — and the party itself
also when `dev` sent a pair off the curve (`sg9_old_tree_offcurve_names_self`) -/
theorem sg9_single_deviator_old (peers : List R8Peer) (dev : Nat)
    (hothers : ∀ p ∈ peers, p.idx ≠ dev → ∃ uj tj, Opens C H p uj tj)
    (why : String) (c : Nat) (h : round9Go C H false own u t peers = .ok (.fail why c)) :
    c = dev ∨ (c = own ∧ why = "U doesn't equal T") := by
  rcases (round9Go_fail_iff C H false own u t peers why c).1 h with
    ⟨_, _, _, hw, hc⟩ | ⟨pre, p, post, he, _, hf⟩
  · exact Or.inr ⟨hc, hw⟩
  · rcases peer9_fail_idx C H false own p why c hf with hcp | ⟨_, hc, hw, _⟩
    · left
      rw [hcp]
      apply Classical.byContradiction
      intro hne
      obtain ⟨uj, tj, ho⟩ := hothers p (by rw [he]; simp) hne
      rw [peer9_of_opens C H false own p ho] at hf
      cases hf
    · exact Or.inr ⟨hc, hw⟩

end deviator

/-! ## 5. the share is revealed iff everything checks -/
section pass
variable (cp : Bool) (own : Nat) (u t : P)

/-- **exact pass condition** (both trees): every peer opens validly (points `uts`, in peer order) and the affine
forms of `u + Σ U_j` and `t + Σ T_j` (left folds of the curve's addition) are equal -/
theorem sg9_pass_iff (peers : List R8Peer) :
    round9Go C H cp own u t peers = .ok (.pass ()) ↔
      ∃ uts : List (P × P), List.Forall₂ (fun q ut => Opens C H q ut.1 ut.2) peers uts ∧
        C.toAffine ((uts.map (·.1)).foldl C.add u) = C.toAffine ((uts.map (·.2)).foldl C.add t) :=
  round9Go_pass_iff C H cp own u t peers

/-- … in particular every peer's opening was valid -/
theorem sg9_pass_all_open (peers : List R8Peer) (h : round9Go C H cp own u t peers = .ok (.pass ())) :
    ∀ q ∈ peers, ∃ uj tj, Opens C H q uj tj := by
  obtain ⟨uts, ha, _⟩ := (round9Go_pass_iff C H cp own u t peers).1 h
  exact forall_of_allOpen C H ha

/-- the verdict does not depend on the tree when every opening is valid: the repair changes nothing for honest
peers -/
theorem sg9_trees_agree_on_valid_openings (peers : List R8Peer)
    (hall : ∀ q ∈ peers, ∃ uj tj, Opens C H q uj tj) :
    round9Go C H true own u t peers = round9Go C H false own u t peers := by
  obtain ⟨uts, ha⟩ := allOpen_of_forall C H peers hall
  have h1 := round9Go_append C H true own peers uts u t [] ha
  have h2 := round9Go_append C H false own peers uts u t [] ha
  rw [List.append_nil] at h1 h2
  rw [h1, h2]
  rfl

end pass

/-! ## 6. the call returns -/
section returns
variable (cp : Bool) (own : Nat) (u t : P)

/-- **exact crash condition** (both trees): the first peer whose opening is not valid either has an empty
de-commitment list (`DeCommit` compares a nil hash) or opens its commitment to fewer than four values -/
theorem sg9_panic_iff (peers : List R8Peer) (e : String) :
    round9Go C H cp own u t peers = .panic e ↔
      ∃ pre p post, peers = pre ++ p :: post ∧ (∀ q ∈ pre, ∃ uj tj, Opens C H q uj tj) ∧
        (decommitWith H p.commitment (p.decommitment.map Int.ofNat) = .panic e ∨
          (Short H p ∧ e = "index-out-of-range")) := by
  rw [round9Go_panic_iff]
  constructor
  · rintro ⟨pre, p, post, he, hpre, hp⟩
    exact ⟨pre, p, post, he, hpre, (peer9_panic_iff C H cp own p e).1 hp⟩
  · rintro ⟨pre, p, post, he, hpre, hp⟩
    exact ⟨pre, p, post, he, hpre, (peer9_panic_iff C H cp own p e).2 hp⟩

/-- a successful `DeCommit` returns the list without its first entry: five parts open to four values -/
theorem decommit_length (c : Nat) (d v : List Int) (h : decommitWith H c d = .ok (some v)) :
    v.length = d.length - 1 :=
  decommit_some_length H h

/-- **round 9 never crashes** (both trees) when every de-commitment has five entries — what
`SignRound8Message.ValidateBasic` enforces before a message is stored. No hypothesis on the curve or the hash. -/
theorem sg9_no_panic (peers : List R8Peer) (h5 : ∀ p ∈ peers, p.decommitment.length = 5) (e : String) :
    round9Go C H cp own u t peers ≠ .panic e := by
  intro h
  obtain ⟨pre, p, post, he, _, hp⟩ := (round9Go_panic_iff C H cp own u t peers e).1 h
  exact peer9_no_panic_of_five C H cp own p (h5 p (by rw [he]; simp)) e hp

/-- it never reports an error without a culprit, whatever the peers sent -/
theorem sg9_no_unattributed_error (peers : List R8Peer) (e : String) :
    round9Go C H cp own u t peers ≠ .err e :=
  round9Go_no_err C H cp own u t peers e

/-- … so with five-part de-commitments it always returns a verdict -/
theorem sg9_returns (peers : List R8Peer) (h5 : ∀ p ∈ peers, p.decommitment.length = 5) :
    ∃ v, round9Go C H cp own u t peers = .ok v := by
  cases h : round9Go C H cp own u t peers with
  | ok v => exact ⟨v, rfl⟩
  | err e => exact absurd h (round9Go_no_err C H cp own u t peers e)
  | panic e => exact absurd h (sg9_no_panic C H cp own u t peers h5 e)

/-- **the hypothesis is needed in the model**: a de-commitment that opens the commitment to fewer than four
values (after valid openings) crashes the round at `values[3]`, for every curve and hash, in both trees -/
theorem sg9_short_opening_panics (pre post : List R8Peer) (p : R8Peer)
    (hpre : ∀ q ∈ pre, ∃ uj tj, Opens C H q uj tj)
    (v : List Int) (hv : decommitWith H p.commitment (p.decommitment.map Int.ofNat) = .ok (some v))
    (hl : v.length < 4) :
    round9Go C H cp own u t (pre ++ p :: post) = .panic "index-out-of-range" :=
  (round9Go_panic_iff C H cp own u t _ _).2 ⟨pre, p, post, rfl, hpre, peer9_of_short C H cp own p ⟨v, hv, hl⟩⟩

end returns

/-! ## 7. the wrapper on coordinates -/
section wrapper
variable (cp : Bool) (own : Nat)

/-- `round9` is the loop on the party's own points, lifted -/
theorem round9_eq (ownU ownT : ECPoint) (u t : P) (hu : C.lift ownU = some u) (ht : C.lift ownT = some t)
    (peers : List R8Peer) : round9 C H cp own ownU ownT peers = round9Go C H cp own u t peers := by
  unfold round9; rw [hu, ht]

/-- an error without culprit is reported iff one of the party's OWN points is not on the curve -/
theorem round9_err_iff (ownU ownT : ECPoint) (peers : List R8Peer) (e : String) :
    round9 C H cp own ownU ownT peers = .err e ↔
      (C.ecIsOnCurve ownU = false ∨ C.ecIsOnCurve ownT = false) ∧ e = "own-point-not-on-curve" := by
  unfold round9 Curve.ecIsOnCurve Curve.lift
  cases hu : C.ofAffine ownU.1 ownU.2 with
  | none =>
    cases ht : C.ofAffine ownT.1 ownT.2 <;>
      exact ⟨fun h => ⟨Or.inl rfl, by injection h with h; exact h.symm⟩, fun ⟨_, h⟩ => by rw [h]⟩
  | some u =>
    cases ht : C.ofAffine ownT.1 ownT.2 with
    | none => exact ⟨fun h => ⟨Or.inr rfl, by injection h with h; exact h.symm⟩, fun ⟨_, h⟩ => by rw [h]⟩
    | some t =>
      simp only [Option.isSome_some, reduceCtorEq, or_self, false_and, iff_false]
      exact round9Go_no_err C H cp own u t peers e

end wrapper

/-! ## the hypotheses are satisfiable; the witnesses (kernel evaluation of the model on a toy curve) -/
section examples

instance fact23 : Fact (Nat.Prime 23) := ⟨by decide⟩
/-- toy lawful curve of order 23 whose identity has affine coordinates: the point `a·G` is `(a, 0)`; a pair
`(x, y)` with `y ≠ 0` is not a point of it -/
abbrev E := zmodCurve 23
/-- a "hash" whose digests are the byte `1`: every commitment value is `1` -/
def Hone : HashFn := fun _ => [1]

/-- round-8 record of peer `idx`: commitment `1` opened by `[blind, a, 0, b, 0]`, i.e. `U = a·G`, `T = b·G` -/
def g9 (idx a b : Nat) : R8Peer := ⟨idx, 1, [9, a, 0, b, 0]⟩

example : Opens E Hone (g9 1 3 5) 3 5 := ⟨[3, 0, 5, 0], by decide, by decide, by decide, by decide⟩

/-- two honest peers with `U_own + U_1 + U_2 = T_own + T_1 + T_2` (`2 + 3 + 5 = 2 + 5 + 3`): the share is
revealed, on both trees -/
example : round9 E Hone true 0 (2, 0) (2, 0) [g9 1 3 5, g9 2 5 3] = .ok (.pass ()) := by decide
example : round9 E Hone false 0 (2, 0) (2, 0) [g9 1 3 5, g9 2 5 3] = .ok (.pass ()) := by decide

/-- valid openings, different sums: the local assertion, the party (index `0`) names itself -/
example : round9 E Hone true 0 (2, 0) (2, 0) [g9 1 3 5, g9 2 5 4] = .ok (.fail "U doesn't equal T" 0) := by
  decide

/-- a commitment that does not open; `U_2` off the curve; `T_2` off the curve: peer 2 is named (current tree) -/
example : round9 E Hone true 0 (2, 0) (2, 0) [g9 1 3 5, ⟨2, 0, [9, 5, 0, 3, 0]⟩, g9 3 1 1] =
    .ok (.fail "de-commitment for bigVj and bigAj failed" 2) := by decide
example : round9 E Hone true 0 (2, 0) (2, 0) [g9 1 3 5, ⟨2, 1, [9, 5, 1, 3, 0]⟩, g9 3 1 1] =
    .ok (.fail "NewECPoint(Uj)" 2) := by decide
example : round9 E Hone true 0 (2, 0) (2, 0) [g9 1 3 5, ⟨2, 1, [9, 5, 0, 3, 1]⟩, g9 3 1 1] =
    .ok (.fail "NewECPoint(Tj)" 2) := by decide

/-- **the defect the repair removed**: peer 2 opens its commitment to a pair `(5, 1)` that is not a point of the
curve. The tree before the repair makes the honest party `0` name ITSELF; the current tree names peer 2. -/
theorem sg9_old_tree_self_blame_witness :
    round9 E Hone false 0 (2, 0) (2, 0) [g9 1 3 5, ⟨2, 1, [9, 5, 1, 3, 0]⟩, g9 3 1 1] =
      .ok (.fail "U doesn't equal T" 0) ∧
    round9 E Hone true 0 (2, 0) (2, 0) [g9 1 3 5, ⟨2, 1, [9, 5, 1, 3, 0]⟩, g9 3 1 1] =
      .ok (.fail "NewECPoint(Uj)" 2) ∧
    OffU E Hone ⟨2, 1, [9, 5, 1, 3, 0]⟩ :=
  ⟨by decide, by decide, [5, 1, 3, 0], by decide, by decide, by decide⟩

/-- the hypotheses of `sg9_single_deviator` hold for three peers with the deviator `2` in the middle, whatever
it sends -/
theorem honest9 (md : R8Peer) (hd : md.idx = 2) :
    ∀ p ∈ [g9 1 3 5, md, g9 3 1 1], p.idx ≠ 2 → ∃ uj tj, Opens E Hone p uj tj := by
  intro p hp hne
  simp only [List.mem_cons, List.not_mem_nil, or_false] at hp
  rcases hp with rfl | rfl | rfl
  · exact ⟨3, 5, [3, 0, 5, 0], by decide, by decide, by decide, by decide⟩
  · exact absurd hd hne
  · exact ⟨1, 1, [1, 0, 1, 0], by decide, by decide, by decide, by decide⟩

example (md : R8Peer) (hd : md.idx = 2) (why : String) (c : Nat)
    (h : round9Go E Hone true 0 2 2 [g9 1 3 5, md, g9 3 1 1] = .ok (.fail why c)) :
    c = 2 ∨ (c = 0 ∧ why = "U doesn't equal T") := by
  rcases (sg9_single_deviator E Hone 0 2 2 _ 2 (honest9 md hd)).1 why c h with h | ⟨h1, h2, _⟩
  · exact Or.inl h
  · exact Or.inr ⟨h1, h2⟩

example : round9Go E Hone true 0 2 2 [g9 1 3 5, ⟨2, 1, [9, 5, 1, 3, 0]⟩, g9 3 1 1] =
    .ok (.fail "NewECPoint(Uj)" 2) :=
  ((sg9_single_deviator E Hone 0 2 2 _ 2 (honest9 _ rfl)).2 ⟨2, 1, [9, 5, 1, 3, 0]⟩ (by simp) rfl
    (by decide)).2.1 ⟨[5, 1, 3, 0], by decide, by decide, by decide⟩

/-- the hypothesis of `sg9_no_panic` -/
example : ∀ p ∈ [g9 1 3 5, g9 2 5 3], p.decommitment.length = 5 := by decide

/-- **the five-part hypothesis is needed**: a three-part de-commitment `[blind, 1, 0]` opens the commitment `1`
(under this hash) to two values; the round indexes `values[3]` — both trees -/
theorem sg9_short_opening_panics_witness :
    round9 E Hone true 0 (2, 0) (2, 0) [g9 1 3 5, ⟨2, 1, [9, 1, 0]⟩] = .panic "index-out-of-range" ∧
    round9 E Hone false 0 (2, 0) (2, 0) [g9 1 3 5, ⟨2, 1, [9, 1, 0]⟩] = .panic "index-out-of-range" ∧
    Short Hone ⟨2, 1, [9, 1, 0]⟩ :=
  ⟨by decide, by decide, [1, 0], by decide, by decide⟩

/-- … and an empty de-commitment crashes inside `DeCommit` (nil hash compared) -/
theorem sg9_empty_decommitment_panics_witness :
    round9 E Hone true 0 (2, 0) (2, 0) [⟨1, 1, []⟩] = .panic "nil-hash-cmp" := by decide

/-- a longer opening (six parts, five values) is let through by the `!ok && len(values) != 4` guard: the extra
value is ignored (`ValidateBasic` rejects such a message before it is stored) -/
example : round9 E Hone true 0 (2, 0) (2, 0) [⟨1, 1, [9, 3, 0, 3, 0, 7]⟩] = .ok (.pass ()) := by decide

/-- the party's own point off the curve: an error without culprit -/
example : round9 E Hone true 0 (2, 1) (2, 0) [g9 1 3 5] = .err "own-point-not-on-curve" := by decide

end examples

end TssVerif.C05e
