import TssVerif.Lemmas.C05Loss
import TssVerif.Props.C04b
import TssVerif.Props.C05f
/-! # C05g — the last clause of C05 ("the honest ones do not lose the key"): false for ECDSA resharing, what holds

Property C05 ends with the clause

  "In resharing a single deviating participant cannot make the honest ones lose the key: if an honest old
  member's share has been erased then, once all sent messages are delivered, every honest new member has emitted
  valid key data."

On the running code the clause is FALSE for ECDSA resharing (recorded as a known finding): the new members'
no-small-factor proofs travel with the acknowledgement (`DGRound4Message1`, round 4) and are verified only in the
final round 5 (`round_5_new_step_3.go`) — after every new member has acknowledged, hence after the old members
erase. A new member that sends ANOTHER new member a bad proof makes that honest member return an error in round 5
without emitting key data, while every old member has already erased its share. The final round of an EdDSA new
member checks nothing, so there the clause holds.

Two models each describe one half of a new member's final round: the two-committee round engine
(`Core/Engine2.lean`, `Props/C04b.lean`: WHEN the final round is started — "ended"/"final round" there means "the
round that saves has been started") and `BlameEc.rsRound5Fac` (`Core/BlameEc5.lean`, `Props/C05f.lean`: WHAT the
ECDSA new member checks there; `.ok none` = emit, `.ok (some (j, why))` = error naming `j`). The glue is a
definition in `Lemmas/C05Loss.lean` (specification, not Core):

* `inFinalRound p` := `p.rnd = 5 ∧ p.ended = 1` (old member: has erased; new member: is in the saving round);
* `round5Check C H zcfg view i` := `rsRound5Fac` of new member `i` (verifier index `i`) on `view i : R5View` (its
  own ring-Pedersen parameters, ssid, tolerance flag, and the records the other new members sent it);
* `newMemberEmits C H zcfg P view s i` := `inFinalRound (s.new i) ∧ (hasRound5Check P = true → round5Check … i =
  .ok none)`, where `hasRound5Check P` = "the new-role table of `P` has a new-to-new point-to-point emission"
  (ECDSA: true, EdDSA: false). So for ECDSA: final round reached AND the check says emit; for EdDSA: final round
  reached (`emits_ecdsa_iff`, `emits_eddsa_iff`);
* `LastClause C H zcfg P nOld nNew`: the clause itself, quantified over reachable quiescent states with an erased
  old share, over the deviator `dev` and over everything `dev` may have sent.

The three theorems.

1. `c05_last_clause_false_witness` (the negation, concrete): ECDSA resharing, 2 old + 2 new members, the explicit
   schedule `lossRun` (30 events: 4 starts, 26 deliveries — every emitted message to everybody who needs it; the
   state is `lossState = exec … lossRun`, reachable by `reach2_exec`, and every delivery was enabled: the logs hold
   all 26). In that state everybody has started, nothing is left to deliver, BOTH old members have erased, both new
   members are in the final round, and the round-5 check of the honest new member 1 on the rejected proof of
   `C05f.rs5_reject_witness` (sent by new member 0, the only deviator) is `.ok (some (0, "facProof verify
   failed"))`: new member 1 does not emit. `c05_last_clause_false_witness_1_2` is the same with ONE old member;
   `c05_last_clause_ecdsa_false : ¬ LastClause T2 Hone Zk.cur ecdsaResharing 2 2` is the clause negated.
2. `c05_last_clause_partial` (what does hold; both library protocols, any committee sizes, any reachable state): if
   an old member has erased and nothing is left to deliver then every new member has reached its final round.
   Hypotheses beyond the clause's own: `strict = true` in `Reach2` (`Start` runs the advance loop when a message was
   stored before it, as the library does — `no_deadlock2` needs it). NOT needed: `AllStarted` (derived: an erased
   old share means every new member acknowledged, `erase_after_all_acks`, which means every old member sent its
   shares, `ack_after_shares`), `0 < nOld` (given by the old member), `0 < nNew` (the conclusion is void without
   new members). `c05_last_clause_all_final` adds: every old member has erased too (needs `0 < nNew`).
3. Consequences: `c05_last_clause_eddsa` (EdDSA: every new member emits — `LastClause` holds,
   `c05_last_clause_eddsa_holds`), `c05_last_clause_ecdsa_iff` (ECDSA: a new member emits iff its round-5 check
   passes), `c05_last_clause_ecdsa_single_deviator` (with `C05f`: with one deviator `dev`, an honest new member emits
   iff it accepts every record `dev` sent it, and otherwise its error names `dev` and nobody else). -/
set_option autoImplicit false
namespace TssVerif.C05g
open TssVerif TssVerif.Engine2 TssVerif.E2L TssVerif.BlameEc TssVerif.C05LossL

/-! ## 0. the definition of "emits", per protocol -/

/-- ECDSA: a new member emits key data iff it has reached its final round AND its round-5 check says "emit" -/
theorem emits_ecdsa_iff {Pt : Type} (C : Curve Pt) (H : HashFn) (zcfg : Zk.Cfg) (view : Nat → R5View) (s : Sys2)
    (i : Nat) :
    newMemberEmits C H zcfg ecdsaResharing view s i ↔
      inFinalRound (s.new i) ∧
      rsRound5Fac C H zcfg (view i).noFac i (view i).ssid (view i).nTilde (view i).h1 (view i).h2 (view i).peers =
        .ok none :=
  newMemberEmits_ecdsa_iff C H zcfg view s i

/-- EdDSA: iff it has reached its final round -/
theorem emits_eddsa_iff {Pt : Type} (C : Curve Pt) (H : HashFn) (zcfg : Zk.Cfg) (view : Nat → R5View) (s : Sys2)
    (i : Nat) : newMemberEmits C H zcfg eddsaResharing view s i ↔ inFinalRound (s.new i) :=
  newMemberEmits_eddsa_iff C H zcfg view s i

/-! ## 1. the clause is false for ECDSA resharing: a concrete run -/

/-- what the new members hold in round 5 of the run `lossRun`: new member 1 (honest; the verifier of
`C05f.rs5_reject_witness`: ssid `[7]`, `NTilde = 5`, `h1 = 1`, `h2 = 0`) holds the rejected proof `C05f.badProof`
from new member 0; new member 0 (the deviator) holds the accepted proof `C05f.okProof` from new member 1 -/
def lossView : Nat → R5View := fun i =>
  if i = 1 then ⟨false, [7], 5, 1, 0, [⟨0, 9, C05f.badProof⟩]⟩ else ⟨false, [7], 5, 1, 0, [⟨1, 9, C05f.okProof⟩]⟩

/-- the round-5 check of the honest new member 1 names the deviator (the record is the one of
`C05f.rs5_reject_witness`; the sender index plays no role in the judgement, `C05f.rs5_sender_index_irrelevant`) -/
theorem lossView_rejected :
    round5Check C05f.T2 C05f.Hone Zk.cur lossView 1 = .ok (some (0, "facProof verify failed")) :=
  C05Rs5L.rsRound5Fac_cons_some C05f.T2 C05f.Hone Zk.cur false 1 [7] 5 1 0 ⟨0, 9, C05f.badProof⟩ [] _
    C05f.rs5_reject_witness

/-- **the last clause of C05 fails for ECDSA resharing** (2 old + 2 new members, one deviator: new member 0).
The state `lossState` is reachable in the closed system (by the explicit schedule `lossRun`), every member of both
committees has been started, nothing is left to deliver, every old member has erased its share, every new member is
in its final round — and the round-5 check of the honest new member 1 returns an error naming new member 0, so new
member 1 does not emit key data, and it never will: it has ended, and no message is outstanding. The only rejected
record in the system is the deviator's (the view of new member 1 has no other record; the deviator's own check of
the honest member's proof passes). -/
theorem c05_last_clause_false_witness :
    Reach2 ecdsaResharing 2 2 true lossState ∧
    AllStarted 2 2 lossState ∧ Quiescent2 ecdsaResharing 2 2 lossState ∧
    (∀ i, i < 2 → inFinalRound (lossState.old i)) ∧
    (∀ j, j < 2 → inFinalRound (lossState.new j)) ∧
    round5Check C05f.T2 C05f.Hone Zk.cur lossView 1 = .ok (some (0, "facProof verify failed")) ∧
    (∀ p ∈ (lossView 1).peers, p.idx ≠ 0 → peerAccepted C05f.T2 C05f.Hone Zk.cur lossView 1 p) ∧
    ¬ newMemberEmits C05f.T2 C05f.Hone Zk.cur ecdsaResharing lossView lossState 1 := by
  have hq := lossState_quiescent
  have hf := lossState_final
  refine ⟨lossState_reachable, hq.2.1, hq.2.2, ?_, ?_, lossView_rejected, ?_, ?_⟩
  · intro i hi
    have : i = 0 ∨ i = 1 := by omega
    rcases this with rfl | rfl
    · exact hf.1
    · exact hf.2.1
  · intro j hj
    have : j = 0 ∨ j = 1 := by omega
    rcases this with rfl | rfl
    · exact hf.2.2.1
    · exact hf.2.2.2.1
  · intro p hp hne
    have : p = ⟨0, 9, C05f.badProof⟩ := by simpa [lossView] using hp
    subst this
    exact absurd rfl hne
  · intro h
    have h2 := ((emits_ecdsa_iff _ _ _ _ _ _).mp h).2
    have h3 := lossView_rejected
    unfold round5Check at h3
    rw [h3] at h2
    cases h2

/-- the same with ONE old member (1 + 2, the smallest committees with a new-to-new message) -/
theorem c05_last_clause_false_witness_1_2 :
    Reach2 ecdsaResharing 1 2 true lossState12 ∧
    AllStarted 1 2 lossState12 ∧ Quiescent2 ecdsaResharing 1 2 lossState12 ∧
    inFinalRound (lossState12.old 0) ∧
    (∀ j, j < 2 → inFinalRound (lossState12.new j)) ∧
    round5Check C05f.T2 C05f.Hone Zk.cur lossView 1 = .ok (some (0, "facProof verify failed")) ∧
    ¬ newMemberEmits C05f.T2 C05f.Hone Zk.cur ecdsaResharing lossView lossState12 1 := by
  have hq := lossState12_quiescent
  have hf := lossState12_final
  refine ⟨lossState12_reachable, hq.2.1, hq.2.2, hf.1, ?_, lossView_rejected, ?_⟩
  · intro j hj
    have : j = 0 ∨ j = 1 := by omega
    rcases this with rfl | rfl
    · exact hf.2.1
    · exact hf.2.2.1
  · intro h
    have h2 := ((emits_ecdsa_iff _ _ _ _ _ _).mp h).2
    have h3 := lossView_rejected
    unfold round5Check at h3
    rw [h3] at h2
    cases h2

/-- **the clause, as a statement, is false for ECDSA resharing** -/
theorem c05_last_clause_ecdsa_false : ¬ LastClause C05f.T2 C05f.Hone Zk.cur ecdsaResharing 2 2 := by
  intro h
  obtain ⟨hr, _, hq, ho, _, _, hacc, hno⟩ := c05_last_clause_false_witness
  refine hno (h lossState lossView 0 hr hq ⟨0, by omega, (ho 0 (by omega)).2⟩ ?_ 1 (by omega) (by omega))
  intro j hj hne p hp hidx
  have : j = 1 := by omega
  subst this
  exact hacc p hp hidx

/-! ## 2. what does hold -/

/-- **an erased old share and a quiescent network ⟹ every new member has reached its final round.** Both library
protocols, any committee sizes, any reachable state of the closed system with the library's `Start`
(`strict = true`, needed by `no_deadlock2`). No `AllStarted`, no `0 < nNew` hypothesis. -/
theorem c05_last_clause_partial (P : Proto) (hP : IsLib P) (nOld nNew : Nat) (s : Sys2)
    (hreach : Reach2 P nOld nNew true s) (hq : Quiescent2 P nOld nNew s)
    (i : Nat) (hi : i < nOld) (he : (s.old i).ended = 1) :
    ∀ j, j < nNew → inFinalRound (s.new j) :=
  new_final_of_erased_quiescent hP hreach hq hi he

/-- … and every old member has erased (with at least one new member) -/
theorem c05_last_clause_all_final (P : Proto) (hP : IsLib P) (nOld nNew : Nat) (hN : 0 < nNew) (s : Sys2)
    (hreach : Reach2 P nOld nNew true s) (hq : Quiescent2 P nOld nNew s)
    (i : Nat) (hi : i < nOld) (he : (s.old i).ended = 1) :
    AllStarted nOld nNew s ∧ (∀ k, k < nOld → inFinalRound (s.old k)) ∧ (∀ j, j < nNew → inFinalRound (s.new j)) :=
  ⟨allStarted_of_erased (ackFacts_of_isLib hP) hN (reach2_inv hreach) he,
   all_final_of_erased_quiescent hP hN hreach hq hi he⟩

/-- **EdDSA resharing: every new member emits key data** -/
theorem c05_last_clause_eddsa {Pt : Type} (C : Curve Pt) (H : HashFn) (zcfg : Zk.Cfg) (view : Nat → R5View)
    (nOld nNew : Nat) (s : Sys2)
    (hreach : Reach2 eddsaResharing nOld nNew true s) (hq : Quiescent2 eddsaResharing nOld nNew s)
    (i : Nat) (hi : i < nOld) (he : (s.old i).ended = 1) :
    ∀ j, j < nNew → newMemberEmits C H zcfg eddsaResharing view s j := fun j hj =>
  (emits_eddsa_iff C H zcfg view s j).mpr (c05_last_clause_partial _ (Or.inl rfl) nOld nNew s hreach hq i hi he j hj)

/-- … so the clause holds for EdDSA resharing, whatever the committee sizes and whatever is "checked" -/
theorem c05_last_clause_eddsa_holds {Pt : Type} (C : Curve Pt) (H : HashFn) (zcfg : Zk.Cfg) (nOld nNew : Nat) :
    LastClause C H zcfg eddsaResharing nOld nNew := by
  intro s view dev hreach hq ⟨i, hi, he⟩ _ j hj _
  exact c05_last_clause_eddsa C H zcfg view nOld nNew s hreach hq i hi he j hj

/-- **ECDSA resharing: a new member emits key data iff its round-5 check passes** -/
theorem c05_last_clause_ecdsa_iff {Pt : Type} (C : Curve Pt) (H : HashFn) (zcfg : Zk.Cfg) (view : Nat → R5View)
    (nOld nNew : Nat) (s : Sys2)
    (hreach : Reach2 ecdsaResharing nOld nNew true s) (hq : Quiescent2 ecdsaResharing nOld nNew s)
    (i : Nat) (hi : i < nOld) (he : (s.old i).ended = 1) :
    ∀ j, j < nNew →
      (newMemberEmits C H zcfg ecdsaResharing view s j ↔
        rsRound5Fac C H zcfg (view j).noFac j (view j).ssid (view j).nTilde (view j).h1 (view j).h2 (view j).peers =
          .ok none) := fun j hj =>
  (emits_ecdsa_iff C H zcfg view s j).trans
    ⟨fun h => h.2, fun h => ⟨c05_last_clause_partial _ (Or.inr rfl) nOld nNew s hreach hq i hi he j hj, h⟩⟩

/-- **ECDSA resharing, one deviator `dev`**: if new member `j` accepts every record that does not carry `dev`'s
index, it emits iff it accepts every record `dev` sent it; and any error it returns instead names `dev`. -/
theorem c05_last_clause_ecdsa_single_deviator {Pt : Type} (C : Curve Pt) (H : HashFn) (zcfg : Zk.Cfg)
    (view : Nat → R5View) (nOld nNew : Nat) (s : Sys2)
    (hreach : Reach2 ecdsaResharing nOld nNew true s) (hq : Quiescent2 ecdsaResharing nOld nNew s)
    (i : Nat) (hi : i < nOld) (he : (s.old i).ended = 1) (j : Nat) (hj : j < nNew) (dev : Nat)
    (hothers : ∀ p ∈ (view j).peers, p.idx ≠ dev → peerAccepted C H zcfg view j p) :
    (newMemberEmits C H zcfg ecdsaResharing view s j ↔
      ∀ p ∈ (view j).peers, p.idx = dev → peerAccepted C H zcfg view j p) ∧
    (∀ c why, round5Check C H zcfg view j = .ok (some (c, why)) → c = dev) := by
  refine ⟨?_, ?_⟩
  · rw [c05_last_clause_ecdsa_iff C H zcfg view nOld nNew s hreach hq i hi he j hj]
    have := round5Check_none_iff C H zcfg view j
    unfold round5Check at this
    rw [this]
    constructor
    · intro h p hp _; exact h p hp
    · intro h p hp
      by_cases hd : p.idx = dev
      · exact h p hp hd
      · exact hothers p hp hd
  · exact (C05f.rs5_single_deviator C H zcfg (view j).noFac j (view j).ssid (view j).nTilde (view j).h1 (view j).h2
      (view j).peers dev hothers).1

/-! ## 3. the hypotheses are satisfiable -/

/-- the hypotheses of `c05_last_clause_partial` / `c05_last_clause_ecdsa_iff` hold in the state of the
counterexample (so the theorems are not vacuous) — and there the deviator, whose own check passes, does emit -/
example : Reach2 ecdsaResharing 2 2 true lossState ∧ Quiescent2 ecdsaResharing 2 2 lossState ∧
    (lossState.old 0).ended = 1 ∧ newMemberEmits C05f.T2 C05f.Hone Zk.cur ecdsaResharing lossView lossState 0 := by
  have hq := lossState_quiescent
  have hf := lossState_final
  refine ⟨lossState_reachable, hq.2.2, hf.1.2, ?_⟩
  rw [c05_last_clause_ecdsa_iff _ _ _ _ 2 2 lossState lossState_reachable hq.2.2 0 (by omega) hf.1.2 0 (by omega)]
  refine C05Rs5L.rsRound5Fac_cons_none C05f.T2 C05f.Hone Zk.cur false 0 [7] 5 1 0 ⟨1, 9, C05f.okProof⟩ [] ?_ |>.trans rfl
  rw [C05f.rsFacPeer_none_iff]
  exact Or.inl ⟨⟨1, 1, 1, 1, 1, 0, 0, 0, 0, 0, 0⟩, by decide, by decide⟩

/-- an honest EdDSA run (the schedule of `Props/C04b.lean`): the hypotheses of `c05_last_clause_eddsa` hold -/
example : Reach2 eddsaResharing 2 2 true (exec eddsaResharing 2 2 true (C04b.honest eddsaResharing)) :=
  reach2_exec _ _ _ _ _
set_option maxRecDepth 100000 in
example : Quiescent2 eddsaResharing 2 2 (exec eddsaResharing 2 2 true (C04b.honest eddsaResharing)) ∧
    ((exec eddsaResharing 2 2 true (C04b.honest eddsaResharing)).old 0).ended = 1 :=
  ⟨quiescentB_spec (by decide), by decide⟩

end TssVerif.C05g
