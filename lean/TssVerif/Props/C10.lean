import TssVerif.Lemmas.C10Schnorr
import TssVerif.Lemmas.C10Dln
import TssVerif.Lemmas.C10Range
import TssVerif.Lemmas.C10PaillierKey
import TssVerif.Lemmas.C10Fac
import TssVerif.Lemmas.C10Bob
import TssVerif.Lemmas.C10Wire
import TssVerif.Lemmas.C10Mod
import Mathlib.Tactic.NormNum.Prime
/-! # C10 — completeness of the zero-knowledge proof systems

"For each proof system in the library a proof produced by the prover for a true statement with valid
parameters is accepted by the verifier under the same session, and is still accepted after being serialised
to its wire parts and parsed back."

Property theorems only; the proofs are in `TssVerif/Lemmas/C10*.lean`.

Shape of every `X_complete`: for EVERY hash `H`, session, witness, valid parameter set and coin vector
satisfying the explicit decidable predicate `X.GoodCoins`,

  `(X.prove … coins >>= fun pf => X.verify cur … pf) = .ok true`

(the prover's result is an `Outcome`; the equation says it is `.ok pf` and the verifier, run in the
configuration `Zk.cur` of the current tree on exactly that `pf` and the same session, returns `.ok true`).
`X.GoodCoins` collects the guards of the verifier (and the crash sites of the prover) that do not follow from the
statement being true: each fails only for a negligible fraction of coins / hash outputs. Every other guard is
derived. The hash enters only through the challenge, which prover and verifier compute from the same data.

After encoding: the Go `…FromBytes` constructors accept a part list iff `common.NonEmptyMultiBytes` holds and
decode each part with `SetBytes`, i.e. they return the ABSOLUTE values: `wire_roundtrip_general`. So a proof
survives the wire iff no part is zero and no part is negative (`wire_roundtrip`, `wire_drops_sign`,
`wire_roundtrip_pos`); `X_complete_wire` combine this with `X_complete` for the proofs with integer fields. -/
set_option autoImplicit false
namespace TssVerif.C10
open TssVerif Zk TssVerif.C10L

variable {P : Type} {C : Curve P}

/-! ## 1. Schnorr (`schnorr.ZKProof`, `schnorr.ZKVProof`) -/

/-- side conditions on the coin `a` of `NewZKProof`, with `α = a·G`, `c = H(…, X, G, α) mod q`:
* on a curve whose identity has no affine form (secp256k1): `a ≢ 0 (mod q)` (`ScalarBaseMult(0)` crashes);
* `c ≠ 0` and `t = a + c·x mod q ≠ 0` (rejected by the verifier since the K1 repair). -/
abbrev Schnorr.GoodCoins (C : Curve P) (H : HashFn) (sess : Bytes) (x : Int) (X : ECPoint) (a : Nat) : Prop :=
  SchnorrGood C H sess x X a

example (C : Curve P) (H : HashFn) (sess : Bytes) (x : Int) (X : ECPoint) (a : Nat) :
    Schnorr.GoodCoins C H sess x X a ↔
      ((C.toAffine C.zero = none → a % C.q ≠ 0) ∧
       schnorrChallenge C H sess X ((C.toAffine (C.smul a C.base)).getD (0, 0)) ≠ 0 ∧
       ((a : Int) + (schnorrChallenge C H sess X ((C.toAffine (C.smul a C.base)).getD (0, 0)) : Int) * x)
          % (C.q : Int) ≠ 0) := Iff.rfl

/-- **Schnorr completeness**, for every lawful curve, hash, session, witness `x : ℤ` (used modulo `q`) with
`X = x·G`, and good coin `a`. The algebra: `t·G = a·G + c·(x·G)`. -/
theorem schnorr_complete (hC : C.Lawful) (H : HashFn) (sess : Bytes) (x : Int) (X : ECPoint) (a : Nat)
    (hX : C.toAffine (C.smul (x % (C.q : Int)).toNat C.base) = some X)
    (hg : Schnorr.GoodCoins C H sess x X a) :
    (schnorrProve C H sess x X a >>= fun pf => schnorrVerify C H cur sess X pf.1 pf.2) = .ok true :=
  schnorr_complete_aux hC H sess x X a hX hg

/-- … and the side conditions are exactly right: on a true statement the honest run is accepted IFF the coin
is good -/
theorem schnorr_complete_iff (hC : C.Lawful) (H : HashFn) (sess : Bytes) (x : Int) (X : ECPoint) (a : Nat)
    (hX : C.toAffine (C.smul (x % (C.q : Int)).toNat C.base) = some X) :
    (schnorrProve C H sess x X a >>= fun pf => schnorrVerify C H cur sess X pf.1 pf.2) = .ok true ↔
      Schnorr.GoodCoins C H sess x X a :=
  ⟨schnorr_good_of_accept hC H sess x X a hX, schnorr_complete hC H sess x X a hX⟩

/-- the same for a natural witness given without reduction -/
theorem schnorr_complete_nat (hC : C.Lawful) (H : HashFn) (sess : Bytes) (x : Nat) (X : ECPoint) (a : Nat)
    (hX : C.toAffine (C.smul x C.base) = some X)
    (hg : Schnorr.GoodCoins C H sess x X a) :
    (schnorrProve C H sess x X a >>= fun pf => schnorrVerify C H cur sess X pf.1 pf.2) = .ok true := by
  apply schnorr_complete hC H sess x X a _ hg
  rw [← Int.natCast_mod, Int.toNat_natCast, ← hC.smul_base_mod]; exact hX

/-- side conditions on the coins `a, b` of `NewZKVProof` (`pR` is the internal form of the point `R`), with
`A = a·R + b·G`, `c` the challenge, `t = a + c·s mod q`, `u = b + c·l mod q`:
* `c ≠ 0`, `t ≠ 0`, `u ≠ 0` (verifier guards since the K1 repair);
* on a curve whose identity has no affine form: `a, b ≢ 0 (mod q)`, and neither `A` nor `t·R + u·G` is the
  identity (`ScalarMult` / `Add` would crash resp. fail). -/
abbrev SchnorrV.GoodCoins (C : Curve P) (H : HashFn) (sess : Bytes) (V R : ECPoint) (pR : P) (s l : Int)
    (a b : Nat) : Prop :=
  SchnorrVGood C H sess V R pR s l a b

example (C : Curve P) (H : HashFn) (sess : Bytes) (V R : ECPoint) (pR : P) (s l : Int) (a b : Nat) :
    SchnorrV.GoodCoins C H sess V R pR s l a b ↔
      (let c := schnorrVChallenge C H sess V R
          ((C.toAffine (C.add (C.smul a pR) (C.smul b C.base))).getD (0, 0))
       let t := (((a : Int) + (c : Int) * s) % (C.q : Int)).toNat
       let u := (((b : Int) + (c : Int) * l) % (C.q : Int)).toNat
       c ≠ 0 ∧ t ≠ 0 ∧ u ≠ 0 ∧
       (C.toAffine C.zero = none → a % C.q ≠ 0 ∧ b % C.q ≠ 0 ∧
         C.toAffine (C.add (C.smul a pR) (C.smul b C.base)) ≠ none ∧
         C.toAffine (C.add (C.smul t pR) (C.smul u C.base)) ≠ none)) := Iff.rfl

/-- **Schnorr-V completeness**: `V = s·R + l·G` for a point `R` of the curve killed by `q` (automatic on a
cofactor-1 curve; on edwards25519 it says that `R` lies in the prime-order subgroup). -/
theorem schnorrV_complete (hC : C.Lawful) (H : HashFn) (sess : Bytes) (V R : ECPoint) (pR : P)
    (s l : Int) (a b : Nat)
    (hR : C.lift R = some pR) (hRq : C.smul C.q pR = C.zero)
    (hV : C.toAffine (C.add (C.smul (s % (C.q : Int)).toNat pR) (C.smul (l % (C.q : Int)).toNat C.base)) = some V)
    (hg : SchnorrV.GoodCoins C H sess V R pR s l a b) :
    (schnorrVProve C H sess V R s l a b >>= fun pf => schnorrVVerify C H cur sess V R pf.1 pf.2.1 pf.2.2)
      = .ok true :=
  schnorrV_complete_aux hC H sess V R pR s l a b hR hRq hV hg

theorem schnorrV_complete_iff (hC : C.Lawful) (H : HashFn) (sess : Bytes) (V R : ECPoint) (pR : P)
    (s l : Int) (a b : Nat)
    (hR : C.lift R = some pR) (hRq : C.smul C.q pR = C.zero)
    (hV : C.toAffine (C.add (C.smul (s % (C.q : Int)).toNat pR) (C.smul (l % (C.q : Int)).toNat C.base)) = some V) :
    (schnorrVProve C H sess V R s l a b >>= fun pf => schnorrVVerify C H cur sess V R pf.1 pf.2.1 pf.2.2)
      = .ok true ↔ SchnorrV.GoodCoins C H sess V R pR s l a b :=
  ⟨schnorrV_good_of_accept hC H sess V R pR s l a b hR hRq hV,
   schnorrV_complete hC H sess V R pR s l a b hR hRq hV⟩

/-! ## 2. discrete-log proof over a safe-prime product (`dlnproof`) -/

/-- side conditions of `dlnproof.NewDLNProof` with coins `as`: the verifier's checks `1 < v mod n` on `h1`,
`h2`, every `α_i = h1^{a_i} mod n` and every `t_i = a_i + c_i·x mod pq`, and `h1 ≢ h2 (mod n)`. -/
abbrev Dln.GoodCoins (H : HashFn) (h1 h2 x p q n : Nat) (as : List Nat) : Prop := DlnGood H h1 h2 x p q n as

example (H : HashFn) (h1 h2 x p q n : Nat) (as : List Nat) :
    Dln.GoodCoins H h1 h2 x p q n as ↔
      (1 < h1 % n ∧ 1 < h2 % n ∧ h1 % n ≠ h2 % n ∧
       (∀ al ∈ as.map (fun a => h1 ^ a % n), 1 < al % n) ∧
       (∀ t ∈ dlnTs H h1 h2 x p q n as, 1 < t % n)) := Iff.rfl

/-- **DLN completeness**: `h2 = h1^x mod n`, the order of `h1` divides `p·q`, at least `Iterations` coins
(the verifier reads exactly 128 entries; no bound on the coins is needed).
Key fact: `h1^{(a + c·x mod pq) mod pq} ≡ h1^a · h2^c (mod n)`. -/
theorem dln_complete (H : HashFn) (h1 h2 x p q n : Nat) (as : List Nat)
    (hn : 0 < n) (hlen : dlnIterations ≤ as.length)
    (hh2 : h2 = h1 ^ x % n) (hord : h1 ^ (p * q) ≡ 1 [MOD n])
    (hg : Dln.GoodCoins H h1 h2 x p q n as) :
    (dlnProve H h1 h2 x p q n as >>= fun pf =>
      dlnVerify H (pf.1.map Int.ofNat) (pf.2.map Int.ofNat) h1 h2 n) = .ok true :=
  dln_complete_aux H h1 h2 x p q n as hn hlen hh2 hord hg

theorem dln_complete_iff (H : HashFn) (h1 h2 x p q n : Nat) (as : List Nat)
    (hn : 0 < n) (hlen : dlnIterations ≤ as.length)
    (hh2 : h2 = h1 ^ x % n) (hord : h1 ^ (p * q) ≡ 1 [MOD n]) :
    (dlnProve H h1 h2 x p q n as >>= fun pf =>
      dlnVerify H (pf.1.map Int.ofNat) (pf.2.map Int.ofNat) h1 h2 n) = .ok true ↔
      Dln.GoodCoins H h1 h2 x p q n as :=
  ⟨dln_good_of_accept H h1 h2 x p q n as, dln_complete H h1 h2 x p q n as hn hlen hh2 hord⟩

/-! ## 3. Alice's range proof (`mta.RangeProofAlice`) -/

/-- side conditions on the coins `alpha, beta, gamma, rho` of `ProveRangeAlice`, with `e` the challenge,
`s1 = e·m + alpha`, `s2 = e·rho + gamma`, `s = r^e·beta mod n`, `z = h1^m h2^rho mod ntilde`:
`gcd(beta, n) = 1` (sampled so in Go; gives the verifier's unit check on `u`), `q ≤ s1 ≤ q³`, `q ≤ s2`,
`s ≠ 1`, `z ≠ 1`, `s1 ≠ s2`. -/
abbrev Range.GoodCoins (H : HashFn) (q n c nt h1 h2 m r alpha beta gamma rho : Nat) : Prop :=
  RangeGood H q n c nt h1 h2 m r alpha beta gamma rho

example (H : HashFn) (q n c nt h1 h2 m r alpha beta gamma rho : Nat) :
    Range.GoodCoins H q n c nt h1 h2 m r alpha beta gamma rho ↔
      (let e := rangeE H q n c nt h1 h2 m alpha beta gamma rho
       Nat.gcd beta n = 1 ∧ q ≤ e * m + alpha ∧ q ≤ e * rho + gamma ∧
       r ^ e % n * beta % n ≠ 1 ∧ h1 ^ m % nt * (h2 ^ rho % nt) % nt ≠ 1 ∧
       e * m + alpha ≠ e * rho + gamma ∧ e * m + alpha ≤ q * q * q) := Iff.rfl

/-- **range-proof completeness**: `c ≡ (n+1)^m r^n (mod n²)` (any representative; in particular
`c = Enc(m; r)`), `r` a unit mod `n`, `h1, h2` units mod `ntilde`. Derived (not assumed): all interval checks,
the unit checks on `z, u, w` and on the ciphertext `c`, and both verification equations
`(n+1)^{s1} s^n c^{-e} ≡ u (mod n²)`, `h1^{s1} h2^{s2} z^{-e} ≡ w (mod ntilde)` through Go's negative-exponent
`Exp` (modular inverse of `c` resp. `z`). -/
theorem range_complete (H : HashFn) (q n c nt h1 h2 m r alpha beta gamma rho : Nat)
    (hn : 0 < n) (hnt : 0 < nt) (hr : Nat.Coprime r n)
    (hh1 : Nat.Coprime h1 nt) (hh2 : Nat.Coprime h2 nt)
    (hc : c ≡ (n + 1) ^ m * r ^ n [MOD n * n])
    (hg : Range.GoodCoins H q n c nt h1 h2 m r alpha beta gamma rho) :
    (rangeProve H q n c nt h1 h2 m r alpha beta gamma rho >>= fun pf =>
      rangeVerify cur H q n nt h1 h2 c pf) = .ok true :=
  range_complete_aux H q n c nt h1 h2 m r alpha beta gamma rho hn hnt hr hh1 hh2 hc hg

theorem range_complete_iff (H : HashFn) (q n c nt h1 h2 m r alpha beta gamma rho : Nat)
    (hn : 0 < n) (hnt : 0 < nt) (hr : Nat.Coprime r n)
    (hh1 : Nat.Coprime h1 nt) (hh2 : Nat.Coprime h2 nt)
    (hc : c ≡ (n + 1) ^ m * r ^ n [MOD n * n]) :
    (rangeProve H q n c nt h1 h2 m r alpha beta gamma rho >>= fun pf =>
      rangeVerify cur H q n nt h1 h2 c pf) = .ok true ↔
      Range.GoodCoins H q n c nt h1 h2 m r alpha beta gamma rho :=
  ⟨range_good_of_accept H q n c nt h1 h2 m r alpha beta gamma rho hn,
   range_complete H q n c nt h1 h2 m r alpha beta gamma rho hn hnt hr hh1 hh2 hc⟩

/-- the statement in terms of `EncryptAndReturnRandomness` -/
theorem range_complete_enc (H : HashFn) (q n c nt h1 h2 m r alpha beta gamma rho : Nat)
    (hnt : 0 < nt) (hr : Nat.Coprime r n)
    (hh1 : Nat.Coprime h1 nt) (hh2 : Nat.Coprime h2 nt)
    (hc : Paillier.encryptWith n (m : Int) r = .ok c)
    (hg : Range.GoodCoins H q n c nt h1 h2 m r alpha beta gamma rho) :
    (rangeProve H q n c nt h1 h2 m r alpha beta gamma rho >>= fun pf =>
      rangeVerify cur H q n nt h1 h2 c pf) = .ok true := by
  obtain ⟨_, hm, rfl⟩ := PaillierL.encryptWith_ok_iff.1 hc
  rw [Int.toNat_natCast] at hg ⊢
  exact range_complete H q n _ nt h1 h2 m r alpha beta gamma rho (by omega) hnt hr hh1 hh2
    (PaillierL.encNat_modEq n m r) hg

/-! ## 4. Paillier key proof (`(*PrivateKey).Proof`, `Proof.Verify`) -/

/-- **Paillier key-proof completeness** (no coins): `n = P·Q` with distinct primes, `gcd(n, φ) = 1`, no prime
below 1000 divides `n`, and `GenerateXs` finds its 13 challenges (the same deterministic call on both sides;
it gives up only after 1000 rejected candidates). `(x^{n⁻¹ mod φ})^n ≡ x (mod n)` for the units `x`. Holds for
either value of the `ProofCfg` switch. -/
theorem paillierKey_complete (cfg : Paillier.ProofCfg) (H : HashFn) (sk : Paillier.PrivateKey) (k : Int)
    (pub : ECPoint) (P Q : Nat) (hP : P.Prime) (hQ : Q.Prime) (hne : P ≠ Q)
    (hn : sk.n = P * Q) (hphi : sk.phiN = (P - 1) * (Q - 1))
    (hcop : Nat.Coprime (P * Q) ((P - 1) * (Q - 1)))
    (hsmall : ∀ p : Nat, p.Prime → p < 1000 → ¬ p ∣ P * Q)
    (hxs : (Paillier.generateXs H Paillier.proofIters k (sk.n : Int) pub).isSome) :
    (Paillier.proof H sk k pub >>= fun pf =>
      Paillier.proofVerify cfg H (pf.map Int.ofNat) (sk.n : Int) k pub) = .ok true :=
  paillierKey_complete_aux cfg H sk k pub P Q hP hQ hne hn hphi hcop hsmall hxs

/-- `hsmall` for primes `≥ 1000` -/
theorem no_small_factor {P Q : Nat} (hP : P.Prime) (hQ : Q.Prime) (h1 : 1000 ≤ P) (h2 : 1000 ≤ Q) :
    ∀ p : Nat, p.Prime → p < 1000 → ¬ p ∣ P * Q := by
  intro p hp hlt hd
  rcases (Nat.Prime.dvd_mul hp).1 hd with h | h
  · have := (Nat.prime_dvd_prime_iff_eq hp hP).1 h; omega
  · have := (Nat.prime_dvd_prime_iff_eq hp hQ).1 h; omega

/-! ## 5. no-small-factor proof (`facproof`) and Bob's proofs (`mta.ProofBob`, `mta.ProofBobWC`) -/

/-- side conditions on the coins of `facproof.NewProof`, with `e` the challenge: the two interval checks
`z1 = e·p + alpha < q³·⌊√N0⌋` and `z2 = e·q + beta < q³·⌊√N0⌋`. (Nothing on the sign of `v`.) -/
abbrev Fac.GoodCoins (H : HashFn) (q : Nat) (sess : Bytes) (n0 ncap s t n0p n0q : Nat) (k : FacCoins) : Prop :=
  FacGood H q sess n0 ncap s t n0p n0q k

example (H : HashFn) (q : Nat) (sess : Bytes) (n0 ncap s t n0p n0q : Nat) (k : FacCoins) :
    Fac.GoodCoins H q sess n0 ncap s t n0p n0q k ↔
      (facE H q sess n0 ncap s t n0p n0q k * n0p + k.alpha < q * q * q * isqrt n0 ∧
       facE H q sess n0 ncap s t n0p n0q k * n0q + k.beta < q * q * q * isqrt n0) := Iff.rfl

/-- **`facproof` completeness**: `N0 = p·q > 0`, `NCap > 0`, `t` a unit modulo `NCap` (needed: the prover's
`v = e(σ − ν p) + r` can be negative and `t^v` then goes through `ModInverse(t, NCap)`; both signs are covered). -/
theorem fac_complete (H : HashFn) (q : Nat) (sess : Bytes) (n0 ncap s t n0p n0q : Nat) (k : FacCoins)
    (hn0 : n0 = n0p * n0q) (hn0pos : 0 < n0) (hncap : 0 < ncap) (ht : Nat.Coprime t ncap)
    (hg : Fac.GoodCoins H q sess n0 ncap s t n0p n0q k) :
    (facProve H q sess n0 ncap s t n0p n0q k >>= fun pf => facVerify cur H q sess n0 ncap s t pf) = .ok true :=
  fac_complete_aux H q sess n0 ncap s t n0p n0q k hn0 hn0pos hncap ht hg

theorem fac_complete_iff (H : HashFn) (q : Nat) (sess : Bytes) (n0 ncap s t n0p n0q : Nat) (k : FacCoins)
    (hn0 : n0 = n0p * n0q) (hn0pos : 0 < n0) (hncap : 0 < ncap) (ht : Nat.Coprime t ncap) :
    (facProve H q sess n0 ncap s t n0p n0q k >>= fun pf => facVerify cur H q sess n0 ncap s t pf) = .ok true ↔
      Fac.GoodCoins H q sess n0 ncap s t n0p n0q k :=
  ⟨fac_good_of_accept H q sess n0 ncap s t n0p n0q k,
   fac_complete H q sess n0 ncap s t n0p n0q k hn0 hn0pos hncap ht⟩

/-- side conditions on Bob's coins (both variants), with `q = C.q`, `e` the challenge, `s1 = e·x + alpha`,
`s2 = e·rho + rhoPrm`, `t1 = e·y + gamma`, `t2 = e·sigma + tau`: `gcd(beta, n) = 1`, `q ≤ s1, s2, t1, t2`,
`s1 ≤ q³`, `t1 ≤ q⁷`; with check (`X = some _`) additionally `e ≠ 0`, `s1 ≢ 0 (mod q)` (K5 repair) and, on a
curve whose identity has no affine form, `alpha ≢ 0 (mod q)`. -/
abbrev Bob.GoodCoins (C : Curve P) (H : HashFn) (sess : Bytes) (n ntilde h1 h2 c1 c2 x y r : Nat)
    (X : Option ECPoint) (k : BobCoins) : Prop :=
  BobGood C H sess n ntilde h1 h2 c1 c2 x y r X k

example (C : Curve P) (H : HashFn) (sess : Bytes) (n ntilde h1 h2 c1 c2 x y r : Nat) (X : Option ECPoint)
    (k : BobCoins) :
    Bob.GoodCoins C H sess n ntilde h1 h2 c1 c2 x y r X k ↔
      (let q := C.q
       let e := bobE C H sess n ntilde h1 h2 c1 c2 x y X k
       Nat.gcd k.beta n = 1 ∧
       q ≤ e * x + k.alpha ∧ q ≤ e * k.rho + k.rhoPrm ∧ q ≤ e * y + k.gamma ∧ q ≤ e * k.sigma + k.tau ∧
       e * x + k.alpha ≤ q ^ 3 ∧ e * y + k.gamma ≤ q ^ 7 ∧
       (X.isSome = true →
         e ≠ 0 ∧ (e * x + k.alpha) % q ≠ 0 ∧ (C.toAffine C.zero = none → k.alpha % q ≠ 0))) := Iff.rfl

/-- the pair `(X, U)` handed to `(*ProofBobWC).Verify`: the statement's `X` and the prover's `U`; `none` for
`(*ProofBob).Verify` -/
example (X u : Option ECPoint) : bobXU X u = (match X, u with
    | some Xp, some U => some (Xp, U)
    | _, _ => none) := rfl

/-- **completeness of Bob's proof, both variants** (`X = none`: `ProveBob`; `X = some Xp` with `Xp = x·G`:
`ProveBobWC`, the verifier receives `(Xp, U)` with the prover's `U`). `c2 ≡ c1^x (n+1)^y r^n (mod n²)`, i.e.
`c2 = x ⊙ c1 ⊕ Enc(y; r)`; `c1`, `r` units mod `n`; `h1, h2` units mod `ntilde`; `1 < n` (for `n = 1` the
verifier rejects `s = 0`). -/
theorem bob_complete (hC : C.Lawful) (H : HashFn) (sess : Bytes) (n ntilde h1 h2 c1 c2 x y r : Nat)
    (X : Option ECPoint) (k : BobCoins)
    (hn : 1 < n) (hnt : 0 < ntilde)
    (hh1 : Nat.Coprime h1 ntilde) (hh2 : Nat.Coprime h2 ntilde)
    (hc1 : Nat.Coprime c1 n) (hr : Nat.Coprime r n)
    (hc2 : c2 ≡ c1 ^ x * (n + 1) ^ y * r ^ n [MOD n * n])
    (hX : ∀ Xp, X = some Xp → C.toAffine (C.smul x C.base) = some Xp)
    (hg : Bob.GoodCoins C H sess n ntilde h1 h2 c1 c2 x y r X k) :
    (bobProve C H sess n ntilde h1 h2 c1 c2 x y r X k >>= fun pu =>
      bobVerify C H cur sess n ntilde h1 h2 c1 c2 pu.1 (bobXU X pu.2)) = .ok true :=
  bob_complete_aux hC H sess n ntilde h1 h2 c1 c2 x y r X k hn hnt hh1 hh2 hc1 hr hc2 hX hg

/-- … IFF the coins are good (the converse needs no hypothesis besides lawfulness of the curve) -/
theorem bob_complete_iff (hC : C.Lawful) (H : HashFn) (sess : Bytes) (n ntilde h1 h2 c1 c2 x y r : Nat)
    (X : Option ECPoint) (k : BobCoins)
    (hn : 1 < n) (hnt : 0 < ntilde)
    (hh1 : Nat.Coprime h1 ntilde) (hh2 : Nat.Coprime h2 ntilde)
    (hc1 : Nat.Coprime c1 n) (hr : Nat.Coprime r n)
    (hc2 : c2 ≡ c1 ^ x * (n + 1) ^ y * r ^ n [MOD n * n])
    (hX : ∀ Xp, X = some Xp → C.toAffine (C.smul x C.base) = some Xp) :
    (bobProve C H sess n ntilde h1 h2 c1 c2 x y r X k >>= fun pu =>
      bobVerify C H cur sess n ntilde h1 h2 c1 c2 pu.1 (bobXU X pu.2)) = .ok true ↔
      Bob.GoodCoins C H sess n ntilde h1 h2 c1 c2 x y r X k :=
  ⟨bob_good_of_accept hC H sess n ntilde h1 h2 c1 c2 x y r X k,
   bob_complete hC H sess n ntilde h1 h2 c1 c2 x y r X k hn hnt hh1 hh2 hc1 hr hc2 hX⟩

/-! ## 6. Paillier-Blum modulus proof (`modproof`) -/

/-- `modproof` has no prover coins besides the non-residue `w`; the side condition is on the HASH OUTPUTS: the
challenge chain `Y_1 … Y_80` (`Y_i = H(session; w, n, Y_1 … Y_{i-1}) mod n`) consists of units modulo `n`.
(A zero challenge makes `z_i = 0` fail the verifier's `0 < z` check; for a non-unit challenge no candidate
`±Y`, `±wY` has Jacobi symbol 1 modulo both primes and the prover crashes on the nil `X[i]`.) -/
abbrev Mod.GoodCoins (H : HashFn) (sess : Bytes) (n w : Nat) : Prop := ModGood H sess n w

example (H : HashFn) (sess : Bytes) (n w : Nat) :
    Mod.GoodCoins H sess n w ↔
      (match modYs H sess (w : Int) (n : Int) modIterations [] with
       | .ok ys => ∀ y ∈ ys, Nat.Coprime y n
       | _ => False) := Iff.rfl

/-- the candidate the prover tries for index `j ∈ {0,1,2,3}`: `y, −y, w·y, −w·y (mod n)`, as `pickJ` computes it -/
example (n w y j : Nat) : modCand n w y j =
    (let y1 := if j % 2 > 0 then ((-1 : Int) * (y : Int) % (n : Int)).toNat else y
     if j / 2 % 2 > 0 then w * y1 % n else y1) := rfl

/-- the number-theoretic fact about Blum integers, stated for the model's `goJacobi`: for every unit `y < n`,
(i) one of the four candidates has Jacobi symbol 1 modulo both `p` and `q`, and (ii) every candidate `c` that has
satisfies `(c^expo)^4 ≡ c (mod n)`, `expo = ((φ+4)/8)² mod φ`. It is PROVED below for Blum integers
(`fourthRootFact_of_blum`), so `mod_complete_partial` is superseded by `mod_complete`. -/
example (n p q w : Nat) : FourthRootFact n p q w ↔
    (∀ y, y < n → Nat.Coprime y n →
      (∃ j, j < 4 ∧ goJacobi (modCand n w y j : Nat) p = .ok 1 ∧ goJacobi (modCand n w y j : Nat) q = .ok 1) ∧
      (∀ j, j < 4 → goJacobi (modCand n w y j : Nat) p = .ok 1 → goJacobi (modCand n w y j : Nat) q = .ok 1 →
        (modCand n w y j ^ (((p - 1) * (q - 1) + 4) / 8 * (((p - 1) * (q - 1) + 4) / 8) % ((p - 1) * (q - 1)))) ^ 4
          ≡ modCand n w y j [MOD n])) := Iff.rfl

/-- **`modproof` completeness with `FourthRootFact` as a hypothesis**: `n = p·q`, distinct primes,
`gcd(n, φ) = 1`, `w < n` a unit whose Jacobi symbol (as the verifier computes it) is not 1, `n` recognised as
composite by the model's deterministic Miller–Rabin (NOT implied by `n = p·q`: strong pseudoprimes to the 12
fixed bases exist). -/
theorem mod_complete_partial (H : HashFn) (sess : Bytes) (n p q w : Nat)
    (hn : n = p * q) (hp : p.Prime) (hq : q.Prime) (hpq : p ≠ q)
    (hcop : Nat.Coprime n ((p - 1) * (q - 1)))
    (hwn : w < n) (hwc : Nat.Coprime w n)
    (hj : ∃ j, goJacobi (w : Int) n = .ok j ∧ j ≠ 1)
    (hcomp : isProbablyPrime n = false)
    (hroot : FourthRootFact n p q w)
    (hg : Mod.GoodCoins H sess n w) :
    (modProve H sess n p q w >>= fun pf =>
      modVerify cur H sess (pf.1 : Int) (pf.2.1.map Int.ofNat) (pf.2.2.1 : Int) (pf.2.2.2.1 : Int)
        (pf.2.2.2.2.map Int.ofNat) (n : Int)) = .ok true :=
  C10L.mod_complete_partial H sess n p q w hn hp hq hpq hcop hwn hwc hj hcomp hroot hg

/-- the model's binary Jacobi algorithm (with its fuel `4·log2 n + 8`) computes the Jacobi symbol -/
theorem goJacobi_correct (a : Int) {n : Nat} (hn : n % 2 = 1) : goJacobi a n = .ok (jacobiSym a n) :=
  goJacobi_eq_jacobiSym a hn

/-- **`FourthRootFact` proved** for Blum integers and `w` of Jacobi symbol −1 -/
theorem fourthRootFact_blum {n p q w : Nat} (hn : n = p * q) (hp : p.Prime) (hq : q.Prime) (hpq : p ≠ q)
    (hp4 : p % 4 = 3) (hq4 : q % 4 = 3) (hj : goJacobi (w : Int) n = .ok (-1)) :
    FourthRootFact n p q w :=
  (fourthRootFact_of_blum hn hp hq hpq hp4 hq4 hj).1

/-- **`modproof` completeness**, nothing assumed: `n = p·q` a Blum integer (`p ≡ q ≡ 3 (mod 4)`, distinct
primes) with `gcd(n, φ) = 1`, `w < n` with Jacobi symbol −1 (what `GetRandomQuadraticNonResidue` returns). -/
theorem mod_complete (H : HashFn) (sess : Bytes) (n p q w : Nat)
    (hn : n = p * q) (hp : p.Prime) (hq : q.Prime) (hpq : p ≠ q) (hp4 : p % 4 = 3) (hq4 : q % 4 = 3)
    (hcop : Nat.Coprime n ((p - 1) * (q - 1)))
    (hwn : w < n)
    (hj : goJacobi (w : Int) n = .ok (-1))
    (hcomp : isProbablyPrime n = false)
    (hg : Mod.GoodCoins H sess n w) :
    (modProve H sess n p q w >>= fun pf =>
      modVerify cur H sess (pf.1 : Int) (pf.2.1.map Int.ofNat) (pf.2.2.1 : Int) (pf.2.2.2.1 : Int)
        (pf.2.2.2.2.map Int.ofNat) (n : Int)) = .ok true :=
  C10L.mod_complete H sess n p q w hn hp hq hpq hp4 hq4 hcop hwn hj hcomp hg

/-! ## 7. the wire -/

/-- **the wire round trip, completely**: `Bytes()` of every part then `…FromBytes` succeeds iff the arity
matches, is non-zero and no part is zero — and it returns the absolute values. -/
theorem wire_roundtrip_general (parts : List Int) (n : Nat) :
    wireRoundTrip parts n =
      if parts.length = n ∧ n ≠ 0 ∧ ∀ p ∈ parts, p ≠ 0 then some (parts.map Int.natAbs) else none :=
  wireRoundTrip_eq parts n

/-- for non-negative parts the round trip is the identity iff arity and non-zero conditions hold -/
theorem wire_roundtrip (parts : List Int) (n : Nat) (h : ∀ p ∈ parts, 0 ≤ p) :
    wireRoundTrip parts n = some (parts.map Int.toNat) ↔ parts.length = n ∧ n ≠ 0 ∧ ∀ p ∈ parts, p ≠ 0 :=
  wire_roundtrip_aux parts n h

/-- the same for proofs whose components are naturals (Schnorr, Schnorr-V, `modproof`, Paillier key proof) -/
theorem wire_roundtrip_nat (l : List Nat) (n : Nat) :
    wireRoundTrip (l.map Int.ofNat) n = some l ↔ l.length = n ∧ n ≠ 0 ∧ ∀ x ∈ l, x ≠ 0 := by
  have := wire_roundtrip (l.map Int.ofNat) n (by intro p hp; obtain ⟨x, _, rfl⟩ := List.mem_map.1 hp; exact Int.natCast_nonneg x)
  have e : (l.map Int.ofNat).map Int.toNat = l := by
    rw [List.map_map]; conv_rhs => rw [← List.map_id l]
    exact List.map_congr_left (fun x _ => Int.toNat_natCast x)
  rw [e] at this
  rw [this, List.length_map]
  constructor
  · rintro ⟨h1, h2, h3⟩
    exact ⟨h1, h2, fun x hx h0 => h3 (x : Int) (List.mem_map.2 ⟨x, hx, rfl⟩) (by rw [h0]; rfl)⟩
  · rintro ⟨h1, h2, h3⟩
    refine ⟨h1, h2, fun p hp => ?_⟩
    obtain ⟨x, hx, rfl⟩ := List.mem_map.1 hp
    intro h0
    exact h3 x hx (Int.natCast_eq_zero.1 h0)

/-- **the sign is lost**: whenever the round trip succeeds it returns absolute values; a negative part `p`
comes back as `-p ≠ p`. This is why a negative `v` of `facproof` (possible, with negligible probability)
does not survive the wire. -/
theorem wire_drops_sign (parts : List Int) (n : Nat) (l : List Nat) (h : wireRoundTrip parts n = some l) :
    l = parts.map Int.natAbs ∧
    ∀ i (hi : i < parts.length), parts[i] < 0 → ((l.getD i 0 : Nat) : Int) = -parts[i] ∧
      ((l.getD i 0 : Nat) : Int) ≠ parts[i] := by
  rw [wire_roundtrip_general] at h
  split at h
  · injection h with h
    subst h
    refine ⟨rfl, fun i hi hneg => ?_⟩
    have : (parts.map Int.natAbs).getD i 0 = parts[i].natAbs := by
      rw [getD_of_lt _ _ _ (by simpa using hi)]; simp
    rw [this]
    omega
  · cases h

/-- concretely -/
example : wireRoundTrip [5, -32, 7] 3 = some [5, 32, 7] := by
  rw [wire_roundtrip_general]; decide

/-- the Schnorr proof `(α, t)` travels as the three parts `α.x, α.y, t`: it comes back unchanged iff none is zero
(instance of `wire_roundtrip_nat`; likewise `(α, t, u)` for Schnorr-V, the 13 values of the Paillier key proof,
and `w, x_1…x_80, a, b, z_1…z_80` for `modproof`) -/
example (alpha : ECPoint) (t : Nat) :
    wireRoundTrip ([alpha.1, alpha.2, t].map Int.ofNat) 3 = some [alpha.1, alpha.2, t] ↔
      alpha.1 ≠ 0 ∧ alpha.2 ≠ 0 ∧ t ≠ 0 := by
  rw [wire_roundtrip_nat]; simp

/-- strictly positive parts come back unchanged -/
theorem wire_roundtrip_pos (parts : List Int) (n : Nat) (hlen : parts.length = n) (hn : n ≠ 0)
    (h : ∀ p ∈ parts, 0 < p) :
    (wireRoundTrip parts n).map (fun l => l.map Int.ofNat) = some parts :=
  C10L.wire_roundtrip_pos parts n hlen hn h

/-- `Serialize` then `UnmarshalDLNProof` on proofs with exactly `Iterations` entries per array
(through `C16.builder_roundtrip`) -/
theorem dln_serialize_roundtrip (alpha t : List Int) (ha : alpha.length = dlnIterations)
    (ht : t.length = dlnIterations) :
    (dlnSerialize alpha t >>= fun s => dlnUnmarshal Ops16.curParse s) = .ok (alpha, t) :=
  dln_serialize_roundtrip_aux alpha t ha ht

/-- a proof record sent as `k` wire parts and parsed back (`toList`/`ofList` are the field lists of
`Core/OpsZk.lean`) -/
def viaWire {α : Type} (toList : α → List Int) (ofList : List Int → Option α) (k : Nat) (pf : α) : Option α :=
  (wireRoundTrip (toList pf) k).bind fun l => ofList (l.map Int.ofNat)

theorem viaWire_pos {α : Type} (toList : α → List Int) (ofList : List Int → Option α) (k : Nat) (pf : α)
    (hinv : ofList (toList pf) = some pf) (hlen : (toList pf).length = k) (hk : k ≠ 0)
    (hpos : ∀ p ∈ toList pf, 0 < p) : viaWire toList ofList k pf = some pf := by
  unfold viaWire
  have := wire_roundtrip_pos (toList pf) k hlen hk hpos
  cases hw : wireRoundTrip (toList pf) k with
  | none => rw [hw] at this; cases this
  | some l =>
    rw [hw] at this
    simp only [Option.map_some, Option.some.injEq] at this
    simp only [Option.bind_some, this, hinv]

/-- verify what arrives -/
def verifyWire {α : Type} (v : α → Outcome Bool) : Option α → Outcome Bool
  | some pf => v pf
  | none => .err "wire"

/-- all wire parts of the prover's output are strictly positive (decidable) -/
def WirePos {α : Type} (toList : α → List Int) : Outcome α → Prop
  | .ok pf => ∀ p ∈ toList pf, 0 < p
  | _ => True

instance {α : Type} (toList : α → List Int) (o : Outcome α) : Decidable (WirePos toList o) := by
  cases o <;> unfold WirePos <;> infer_instance

/-- **after encoding, `facproof`**: if moreover all eleven parts of the prover's output are positive — in
particular `v > 0` — the proof is still accepted after `Bytes()` / `NewProofFromBytes`. -/
theorem fac_complete_wire (H : HashFn) (q : Nat) (sess : Bytes) (n0 ncap s t n0p n0q : Nat) (k : FacCoins)
    (hn0 : n0 = n0p * n0q) (hn0pos : 0 < n0) (hncap : 0 < ncap) (ht : Nat.Coprime t ncap)
    (hg : Fac.GoodCoins H q sess n0 ncap s t n0p n0q k)
    (hpos : WirePos OpsZk.facToList (facProve H q sess n0 ncap s t n0p n0q k)) :
    (facProve H q sess n0 ncap s t n0p n0q k >>= fun pf =>
      verifyWire (facVerify cur H q sess n0 ncap s t) (viaWire OpsZk.facToList OpsZk.facOfList 11 pf)) = .ok true := by
  have h := fac_complete H q sess n0 ncap s t n0p n0q k hn0 hn0pos hncap ht hg
  cases hp : facProve H q sess n0 ncap s t n0p n0q k with
  | ok pf =>
    rw [hp] at h hpos
    rw [Outcome.ok_bind] at h ⊢
    rw [viaWire_pos _ _ 11 pf (facOfList_toList pf) rfl (by decide) hpos]
    exact h
  | err e => rw [hp] at h; cases h
  | panic e => rw [hp] at h; cases h

/-- **after encoding, range proof**: same with the six parts of `RangeProofAlice` -/
theorem range_complete_wire (H : HashFn) (q n c nt h1 h2 m r alpha beta gamma rho : Nat)
    (hn : 0 < n) (hnt : 0 < nt) (hr : Nat.Coprime r n)
    (hh1 : Nat.Coprime h1 nt) (hh2 : Nat.Coprime h2 nt)
    (hc : c ≡ (n + 1) ^ m * r ^ n [MOD n * n])
    (hg : Range.GoodCoins H q n c nt h1 h2 m r alpha beta gamma rho)
    (hpos : WirePos OpsZk.rangeToList (rangeProve H q n c nt h1 h2 m r alpha beta gamma rho)) :
    (rangeProve H q n c nt h1 h2 m r alpha beta gamma rho >>= fun pf =>
      verifyWire (rangeVerify cur H q n nt h1 h2 c) (viaWire OpsZk.rangeToList OpsZk.rangeOfList 6 pf)) = .ok true := by
  have h := range_complete H q n c nt h1 h2 m r alpha beta gamma rho hn hnt hr hh1 hh2 hc hg
  cases hp : rangeProve H q n c nt h1 h2 m r alpha beta gamma rho with
  | ok pf =>
    rw [hp] at h hpos
    rw [Outcome.ok_bind] at h ⊢
    rw [viaWire_pos _ _ 6 pf (rangeOfList_toList pf) rfl (by decide) hpos]
    exact h
  | err e => rw [hp] at h; cases h
  | panic e => rw [hp] at h; cases h

/-- **after encoding, Bob's proof**: same with the ten parts of `ProofBob` (the point `U` of `ProofBobWC`
travels as two further parts, which are naturals: `wire_roundtrip_nat`) -/
theorem bob_complete_wire (hC : C.Lawful) (H : HashFn) (sess : Bytes) (n ntilde h1 h2 c1 c2 x y r : Nat)
    (X : Option ECPoint) (k : BobCoins)
    (hn : 1 < n) (hnt : 0 < ntilde)
    (hh1 : Nat.Coprime h1 ntilde) (hh2 : Nat.Coprime h2 ntilde)
    (hc1 : Nat.Coprime c1 n) (hr : Nat.Coprime r n)
    (hc2 : c2 ≡ c1 ^ x * (n + 1) ^ y * r ^ n [MOD n * n])
    (hX : ∀ Xp, X = some Xp → C.toAffine (C.smul x C.base) = some Xp)
    (hg : Bob.GoodCoins C H sess n ntilde h1 h2 c1 c2 x y r X k)
    (hpos : WirePos (fun pu : BobProof × Option ECPoint => OpsZk.bobToList pu.1)
      (bobProve C H sess n ntilde h1 h2 c1 c2 x y r X k)) :
    (bobProve C H sess n ntilde h1 h2 c1 c2 x y r X k >>= fun pu =>
      verifyWire (fun pf => bobVerify C H cur sess n ntilde h1 h2 c1 c2 pf (bobXU X pu.2))
        (viaWire OpsZk.bobToList OpsZk.bobOfList 10 pu.1)) = .ok true := by
  have h := bob_complete hC H sess n ntilde h1 h2 c1 c2 x y r X k hn hnt hh1 hh2 hc1 hr hc2 hX hg
  cases hp : bobProve C H sess n ntilde h1 h2 c1 c2 x y r X k with
  | ok pu =>
    rw [hp] at h hpos
    rw [Outcome.ok_bind] at h ⊢
    rw [viaWire_pos _ _ 10 pu.1 (bobOfList_toList pu.1) rfl (by decide) hpos]
    exact h
  | err e => rw [hp] at h; cases h
  | panic e => rw [hp] at h; cases h

/-! ## the hypotheses are satisfiable: tiny instances, every hypothesis (including `GoodCoins`) discharged -/
section examples

instance fact23 : Fact (Nat.Prime 23) := ⟨by decide⟩

/-- toy curves of order 23: with (`E`, like edwards25519) and without (`W`, like secp256k1) affine identity -/
abbrev E := zmodCurve 23
abbrev W := zmodCurveW 23
/-- a constant hash: every challenge is `3 mod q` -/
def H3 : HashFn := fun _ => [3]

/-- Schnorr: `x = 5`, `X = 5·G`, coin `a = 7`, challenge `3`, response `t = 7 + 3·5 = 22` -/
example : (schnorrProve W H3 [] 5 (5, 0) 7 >>= fun pf => schnorrVerify W H3 cur [] (5, 0) pf.1 pf.2) = .ok true :=
  schnorr_complete (zmodCurveW_lawful 23) H3 [] 5 (5, 0) 7 (by decide) (by decide)
example : (schnorrProve E H3 [] 5 (5, 0) 7 >>= fun pf => schnorrVerify E H3 cur [] (5, 0) pf.1 pf.2) = .ok true :=
  schnorr_complete (zmodCurve_lawful 23) H3 [] 5 (5, 0) 7 (by decide) (by decide)
/-- the model run agrees -/
example : (schnorrProve W H3 [] 5 (5, 0) 7 >>= fun pf => schnorrVerify W H3 cur [] (5, 0) pf.1 pf.2) = .ok true := by
  decide
/-- a bad coin: `a = 8` gives `t = 8 + 15 = 23 ≡ 0`, rejected -/
example : ¬ Schnorr.GoodCoins W H3 [] 5 (5, 0) 8 := by decide
example : (schnorrProve W H3 [] 5 (5, 0) 8 >>= fun pf => schnorrVerify W H3 cur [] (5, 0) pf.1 pf.2) = .ok false := by
  decide

/-- Schnorr-V: `R = 2·G`, `s = 3`, `l = 4`, `V = 3·R + 4·G = 10·G`, coins `a = 5`, `b = 7` -/
example : (schnorrVProve W H3 [] (10, 0) (2, 0) 3 4 5 7 >>= fun pf =>
    schnorrVVerify W H3 cur [] (10, 0) (2, 0) pf.1 pf.2.1 pf.2.2) = .ok true :=
  schnorrV_complete (zmodCurveW_lawful 23) H3 [] (10, 0) (2, 0) 2 3 4 5 7 (by decide) (by decide) (by decide)
    (by decide)
example : (schnorrVProve W H3 [] (10, 0) (2, 0) 3 4 5 7 >>= fun pf =>
    schnorrVVerify W H3 cur [] (10, 0) (2, 0) pf.1 pf.2.1 pf.2.2) = .ok true := by decide
/-- a bad coin pair on `W`: `b = 6` makes `t·R + u·G` the identity -/
example : ¬ SchnorrV.GoodCoins W H3 [] (10, 0) (2, 0) 2 3 4 5 6 := by decide

/-- DLN: `n = 35 = 5·7`, `p·q = 2·3`, `h1 = 4` (order 6), `x = 5`, `h2 = 4^5 mod 35 = 9`, all coins `4` -/
example : (dlnProve H3 4 9 5 2 3 35 (List.replicate 128 4) >>= fun pf =>
    dlnVerify H3 (pf.1.map Int.ofNat) (pf.2.map Int.ofNat) 4 9 35) = .ok true :=
  dln_complete H3 4 9 5 2 3 35 (List.replicate 128 4) (by decide) (by simp [dlnIterations]) (by decide)
    (by decide) (by decide +kernel)

/-- range proof: `n = 35`, `ntilde = 33`, `h1 = 2`, `h2 = 5`, `q = 5`, `m = 2`, `r = 3`,
coins `alpha = 4, beta = 2, gamma = 3, rho = 1`; `e = 3`, `s1 = 10`, `s2 = 6` -/
example : (rangeProve H3 5 35 (36 ^ 2 * 3 ^ 35 % 1225) 33 2 5 2 3 4 2 3 1 >>= fun pf =>
    rangeVerify cur H3 5 35 33 2 5 (36 ^ 2 * 3 ^ 35 % 1225 : Nat) pf) = .ok true :=
  range_complete H3 5 35 (36 ^ 2 * 3 ^ 35 % 1225) 33 2 5 2 3 4 2 3 1 (by decide) (by decide) (by decide)
    (by decide) (by decide) (Nat.mod_modEq _ _) (by decide)
example : (rangeProve H3 5 35 (36 ^ 2 * 3 ^ 35 % 1225) 33 2 5 2 3 4 2 3 1 >>= fun pf =>
    rangeVerify cur H3 5 35 33 2 5 (36 ^ 2 * 3 ^ 35 % 1225 : Nat) pf) = .ok true := by decide
/-- … and it survives the wire (all six parts positive) -/
example : (rangeProve H3 5 35 (36 ^ 2 * 3 ^ 35 % 1225) 33 2 5 2 3 4 2 3 1 >>= fun pf =>
    verifyWire (rangeVerify cur H3 5 35 33 2 5 (36 ^ 2 * 3 ^ 35 % 1225 : Nat))
      (viaWire OpsZk.rangeToList OpsZk.rangeOfList 6 pf)) = .ok true :=
  range_complete_wire H3 5 35 (36 ^ 2 * 3 ^ 35 % 1225) 33 2 5 2 3 4 2 3 1 (by decide) (by decide) (by decide)
    (by decide) (by decide) (Nat.mod_modEq _ _) (by decide) (by decide)

/-- Paillier key proof: `P = 1009`, `Q = 1013` -/
example : (Paillier.proof H3 ⟨1009 * 1013, 0, 1008 * 1012, 1009, 1013⟩ 1 (1, 2) >>= fun pf =>
    Paillier.proofVerify ⟨true⟩ H3 (pf.map Int.ofNat) ((1009 * 1013 : Nat) : Int) 1 (1, 2)) = .ok true :=
  paillierKey_complete ⟨true⟩ H3 ⟨1009 * 1013, 0, 1008 * 1012, 1009, 1013⟩ 1 (1, 2) 1009 1013
    (by norm_num) (by norm_num) (by decide) rfl rfl (by decide)
    (no_small_factor (by norm_num) (by norm_num) (by decide) (by decide)) (by decide)

/-- `facproof`: `q = 11`, `N0 = 15 = 3·5`, `NCap = 35`, `s = 2`, `t = 3`; here `v = −32 < 0` -/
example : (facProve H3 11 [] 15 35 2 3 3 5 ⟨1, 2, 1, 4, 1, 1, 1, 1⟩ >>= fun pf =>
    facVerify cur H3 11 [] 15 35 2 3 pf) = .ok true :=
  fac_complete H3 11 [] 15 35 2 3 3 5 ⟨1, 2, 1, 4, 1, 1, 1, 1⟩ (by decide) (by decide) (by decide) (by decide)
    (by decide)
/-- … accepted in memory, but NOT after the wire: the sign of `v` is lost -/
example : (facProve H3 11 [] 15 35 2 3 3 5 ⟨1, 2, 1, 4, 1, 1, 1, 1⟩ >>= fun pf =>
    verifyWire (facVerify cur H3 11 [] 15 35 2 3) (viaWire OpsZk.facToList OpsZk.facOfList 11 pf)) = .ok false := by
  simp only [viaWire, wire_roundtrip_general]
  decide
/-- with `sigma = 20` instead, `v = 3·(20 − 12) + 1 = 25 > 0` and the proof survives the wire -/
example : (facProve H3 11 [] 15 35 2 3 3 5 ⟨1, 2, 1, 4, 20, 1, 1, 1⟩ >>= fun pf =>
    verifyWire (facVerify cur H3 11 [] 15 35 2 3) (viaWire OpsZk.facToList OpsZk.facOfList 11 pf)) = .ok true :=
  fac_complete_wire H3 11 [] 15 35 2 3 3 5 ⟨1, 2, 1, 4, 20, 1, 1, 1⟩ (by decide) (by decide) (by decide)
    (by decide) (by decide) (by decide)

/-- `modproof`: `n = 77 = 7·11` (Blum, `gcd(77, 60) = 1`), `w = 2` (Jacobi symbol −1), all challenges `3` -/
example : (modProve H3 [] 77 7 11 2 >>= fun pf =>
    modVerify cur H3 [] (pf.1 : Int) (pf.2.1.map Int.ofNat) (pf.2.2.1 : Int) (pf.2.2.2.1 : Int)
      (pf.2.2.2.2.map Int.ofNat) ((77 : Nat) : Int)) = .ok true :=
  mod_complete H3 [] 77 7 11 2 (by decide) (by decide) (by decide) (by decide) (by decide) (by decide)
    (by decide) (by decide) (by decide +kernel) (by decide +kernel) (by decide +kernel)
/-- the same through `mod_complete_partial`, `FourthRootFact 77 7 11 2` checked by evaluation -/
example : (modProve H3 [] 77 7 11 2 >>= fun pf =>
    modVerify cur H3 [] (pf.1 : Int) (pf.2.1.map Int.ofNat) (pf.2.2.1 : Int) (pf.2.2.2.1 : Int)
      (pf.2.2.2.2.map Int.ofNat) ((77 : Nat) : Int)) = .ok true :=
  mod_complete_partial H3 [] 77 7 11 2 (by decide) (by decide) (by decide) (by decide) (by decide)
    (by decide) (by decide) ⟨-1, by decide +kernel, by decide⟩ (by decide +kernel) (by decide +kernel)
    (by decide +kernel)

/-- Bob, without check on `E` and with check on `W` (`X = 4·G`) -/
example : (bobProve E H3 [] 35 33 2 5 2 1032 4 6 3 none ⟨20, 7, 5, 11, 10, 2, 9⟩ >>= fun pu =>
    bobVerify E H3 cur [] 35 33 2 5 2 1032 pu.1
      (bobXU none pu.2)) = .ok true :=
  bob_complete (zmodCurve_lawful 23) H3 [] 35 33 2 5 2 1032 4 6 3 none ⟨20, 7, 5, 11, 10, 2, 9⟩
    (by decide) (by decide) (by decide) (by decide) (by decide) (by decide) (by decide)
    (fun _ h => by cases h) (by decide)
example : (bobProve W H3 [] 35 33 2 5 2 1032 4 6 3 (some (4, 0)) ⟨20, 7, 5, 11, 10, 2, 9⟩ >>= fun pu =>
    bobVerify W H3 cur [] 35 33 2 5 2 1032 pu.1
      (bobXU (some (4, 0)) pu.2)) = .ok true :=
  bob_complete (zmodCurveW_lawful 23) H3 [] 35 33 2 5 2 1032 4 6 3 (some (4, 0)) ⟨20, 7, 5, 11, 10, 2, 9⟩
    (by decide) (by decide) (by decide) (by decide) (by decide) (by decide) (by decide)
    (fun Xp h => by cases h; decide) (by decide)

end examples

end TssVerif.C10
