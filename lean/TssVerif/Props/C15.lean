import TssVerif.Lemmas.VssCreate
/-! # C15 — Feldman VSS (`crypto/vss/feldman_vss.go`) on every lawful curve

"For any secret, threshold t and admissible distinct ids, every dealt share verifies against the
published commitments under its own id and under no other id, the first commitment is secret*G, every
subset of at least t+1 shares reconstructs exactly the secret while fewer than t+1 never do, and the
shares lie on one polynomial of degree t. Any altered share value, id or commitment fails verification,
and dealing is refused when an id is 0 modulo the group order or two ids coincide modulo it."

Conventions: `as = [a_0, …, a_t]` are the dealer coefficients (`a_0 = secret`), `polyNat as x` is
`Σ a_i x^i` in `ℕ` (unreduced), `polyZ q as` the same polynomial in `(ZMod q)[X]`,
`IsCommitment C as vs` says `vs[i]` is the affine form of `a_i·G`.
No bound on `t`, the number of ids, or the size of any integer. -/
set_option autoImplicit false
set_option linter.style.haveILetI false
namespace TssVerif.C15
open TssVerif Vss Polynomial
open _root_.TssVerif.OpsCrypto (curVss)

variable {P : Type} {C : Curve P}

/-! ## `evaluatePolynomial` -/

/-- `evalPoly` is `Σ a_i·id^i` modulo `q`, and exactly its residue as soon as there is one
coefficient beyond `a_0` (`a_0` itself enters unreduced). -/
theorem evalPoly_spec (q a0 : Nat) (as : List Nat) (id : Nat) :
    evalPoly q (a0 :: as) id ≡
        ∑ i ∈ Finset.range (as.length + 1), (a0 :: as).getD i 0 * id ^ i [MOD q] ∧
    (as ≠ [] → 0 < q → evalPoly q (a0 :: as) id =
        (∑ i ∈ Finset.range (as.length + 1), (a0 :: as).getD i 0 * id ^ i) % q) := by
  have h := polyNat_eq_sum (a0 :: as) id
  rw [List.length_cons] at h
  rw [← h]
  exact ⟨evalPoly_modEq a0 as id, fun has hq => evalPoly_eq_mod hq a0 as has id⟩

/-! ## `Create` -/

/-- A successful `create` publishes `secret·G` first, `t+1` commitments `a_i·G` in all, and one share
`f(id)` per id, in order. (No hypothesis on the curve.) -/
theorem vss_first_commitment (t secret : Nat) (ids coeffs : List Nat) (hlen : coeffs.length = t)
    (vs : List ECPoint) (shares : List Share)
    (h : create C t secret ids coeffs = .ok (vs, shares)) :
    vs[0]? = C.toAffine (C.smul secret C.base) ∧ vs.length = t + 1 ∧
    IsCommitment C (secret :: coeffs) vs ∧
    shares = ids.map (fun id => ⟨t, id, evalPoly C.q (secret :: coeffs) id⟩) := by
  obtain ⟨_, hcom, hsh⟩ := (create_eq_ok_iff C t secret ids coeffs vs shares).1 h
  refine ⟨?_, ?_, hcom, hsh⟩
  · cases hcom with
    | cons h0 _ => simp [h0]
  · rw [← hcom.length_eq]; simp [hlen]

/-- `create` reports an error exactly when `t < 1`, some id is `0 (mod q)`, two ids are congruent
`(mod q)`, or there are fewer ids than `t`. (No hypothesis on the curve or on `coeffs`.) -/
theorem vss_create_refuses_iff (t secret : Nat) (ids coeffs : List Nat) :
    (∃ e, create C t secret ids coeffs = .err e) ↔
      t < 1 ∨ (∃ id ∈ ids, id % C.q = 0) ∨
      (∃ i j, i < j ∧ j < ids.length ∧ ids.getD i 0 ≡ ids.getD j 0 [MOD C.q]) ∨
      ids.length < t := by
  rw [create_err_iff, createGuards_eq_false_iff]

/-- `create` crashes exactly when the guards pass and the secret or a coefficient is `0 (mod q)` on a
curve whose identity has no affine form (`ScalarBaseMult` cannot return the point at infinity). -/
theorem vss_create_panics_iff (hC : C.Lawful) (t secret : Nat) (ids coeffs : List Nat) :
    (∃ e, create C t secret ids coeffs = .panic e) ↔
      (1 ≤ t ∧ (∀ id ∈ ids, id % C.q ≠ 0) ∧ (ids.map (· % C.q)).Nodup ∧ t ≤ ids.length) ∧
      C.toAffine C.zero = none ∧ ∃ a ∈ secret :: coeffs, a % C.q = 0 := by
  rw [create_panic_iff, createGuards_eq_true_iff]
  constructor
  · rintro ⟨hg, a, ha, hn⟩
    obtain ⟨h1, h2⟩ := (toAffine_smul_base_eq_none_iff hC a).1 hn
    exact ⟨hg, h2, a, ha, h1⟩
  · rintro ⟨hg, hz, a, ha, h0⟩
    exact ⟨hg, a, ha, (toAffine_smul_base_eq_none_iff hC a).2 ⟨h0, hz⟩⟩

/-- in every other case `create` succeeds (so: it never fails on a curve with an affine identity once
the guards pass) -/
theorem vss_create_ok_iff (hC : C.Lawful) (t secret : Nat) (ids coeffs : List Nat) :
    (∃ r, create C t secret ids coeffs = .ok r) ↔
      (1 ≤ t ∧ (∀ id ∈ ids, id % C.q ≠ 0) ∧ (ids.map (· % C.q)).Nodup ∧ t ≤ ids.length) ∧
      (C.toAffine C.zero = none → ∀ a ∈ secret :: coeffs, a % C.q ≠ 0) := by
  have h1 := vss_create_panics_iff hC t secret ids coeffs
  have h2 := create_err_iff C t secret ids coeffs
  rw [← createGuards_eq_true_iff]
  rw [← createGuards_eq_true_iff] at h1
  cases hc : create C t secret ids coeffs with
  | ok r =>
    rw [hc] at h1 h2
    simp only [reduceCtorEq, exists_false, false_iff, not_and, not_exists] at h1 h2
    have hg : createGuards C.q t ids = true := by simpa using h2
    refine ⟨fun _ => ⟨hg, fun hz a ha h0 => h1 hg hz a ha h0⟩, fun _ => ⟨r, rfl⟩⟩
  | err e =>
    rw [hc] at h2
    have hg : createGuards C.q t ids = false := h2.1 ⟨e, rfl⟩
    simp [hg]
  | panic e =>
    rw [hc] at h1
    obtain ⟨hg, hz, a, ha, h0⟩ := h1.1 ⟨e, rfl⟩
    simp only [reduceCtorEq, exists_false, false_iff, not_and, not_forall]
    intro _
    exact ⟨hz, a, ha, fun h => h h0⟩

/-! ## `Verify` -/

/-- **Soundness of `verify`, no proviso**: an accepted share lies on the committed polynomial. -/
theorem vss_verify_sound (hC : C.Lawful) (as : List Nat) (vs : List ECPoint)
    (hcom : IsCommitment C as vs) (t : Nat) (hlen : as.length = t + 1) (sh : Share)
    (h : verify C curVss t sh vs = .ok true) :
    sh.threshold = t ∧ sh.id % C.q ≠ 0 ∧ sh.share % C.q ≠ 0 ∧
      polyNat as sh.id ≡ sh.share [MOD C.q] := by
  obtain ⟨b, hb, hiff⟩ := verify_commitment hC as vs hcom t hlen sh
  rw [hb] at h
  injection h with h
  obtain ⟨h1, h2, h3, R, hR, hs⟩ := hiff.1 h
  refine ⟨h1, h3, h2, ?_⟩
  cases as with
  | nil => simp at hlen
  | cons a0 as =>
    simp only [List.tail_cons, List.head!_cons] at hR
    exact ((sLoop_start_some sh.id _ a0 as R hR).symm.trans hs.symm)

/-- **The central statement.** For commitments to `f = Σ a_i X^i`, an id and a share value that are
non-zero modulo `q`: `verify` accepts iff `f(id) ≡ s (mod q)` — provided that, on a curve whose identity
has no affine form (secp256k1), no intermediate partial sum `v_0 + … + id^j·v_j` (`1 ≤ j < t`) is the
point at infinity (`ecAdd` reports an error there and `Verify` answers `false`). -/
theorem vss_verify_iff (hC : C.Lawful) (as : List Nat) (vs : List ECPoint)
    (hcom : IsCommitment C as vs) (t : Nat) (hlen : as.length = t + 1) (id s : Nat)
    (hid : id % C.q ≠ 0) (hs : s % C.q ≠ 0)
    (hps : C.toAffine C.zero = none → PartialSumsNonzero C.q as id) :
    verify C curVss t ⟨t, id, s⟩ vs = .ok true ↔ polyNat as id ≡ s [MOD C.q] := by
  constructor
  · intro h
    exact (vss_verify_sound hC as vs hcom t hlen _ h).2.2.2
  · intro hf
    obtain ⟨b, hb, hiff⟩ := verify_commitment hC as vs hcom t hlen ⟨t, id, s⟩
    rw [hb]
    congr 1
    rw [hiff]
    refine ⟨rfl, hs, hid, ?_⟩
    cases as with
    | nil => simp at hlen
    | cons a0 as =>
      simp only [List.tail_cons, List.head!_cons]
      cases hsl : sLoop C.q id (decide (C.toAffine C.zero = none)) as 1 a0 with
      | some R => exact ⟨R, rfl, (hf.symm.trans (sLoop_start_some id _ a0 as R hsl).symm)⟩
      | none =>
        exfalso
        obtain ⟨hnz, j, hj1, hj2, hj0⟩ := sLoop_start_none id _ a0 as hsl
        have hz : C.toAffine C.zero = none := by simpa using hnz
        by_cases hlast : j + 1 < (a0 :: as).length
        · exact hps hz j (by omega) hj1 hj0
        · have : (a0 :: as).take (j + 1) = a0 :: as := List.take_of_length_le (by omega)
          rw [this] at hj0
          exact hs ((show s % C.q = _ from hf.symm).trans hj0)

/-- the unconditional version, for curves whose identity has affine coordinates (edwards25519) -/
theorem vss_verify_iff_of_affine_zero (hC : C.Lawful) (hz : C.toAffine C.zero ≠ none)
    (as : List Nat) (vs : List ECPoint)
    (hcom : IsCommitment C as vs) (t : Nat) (hlen : as.length = t + 1) (id s : Nat)
    (hid : id % C.q ≠ 0) (hs : s % C.q ≠ 0) :
    verify C curVss t ⟨t, id, s⟩ vs = .ok true ↔ polyNat as id ≡ s [MOD C.q] :=
  vss_verify_iff hC as vs hcom t hlen id s hid hs (fun h => absurd h hz)

/-- the proviso of `vss_verify_iff` cannot be dropped: when an intermediate partial sum is the point at
infinity of such a curve the verifier rejects whatever the share is -/
theorem vss_verify_partial_sum_rejects (hC : C.Lawful) (hz : C.toAffine C.zero = none)
    (as : List Nat) (vs : List ECPoint)
    (hcom : IsCommitment C as vs) (t : Nat) (hlen : as.length = t + 1) (id s : Nat)
    (hps : ¬ PartialSumsNonzero C.q as id) :
    verify C curVss t ⟨t, id, s⟩ vs = .ok false := by
  obtain ⟨b, hb, hiff⟩ := verify_commitment hC as vs hcom t hlen ⟨t, id, s⟩
  rw [hb]
  congr 1
  cases b with
  | false => rfl
  | true =>
    exfalso
    obtain ⟨_, _, _, R, hR, _⟩ := hiff.1 rfl
    apply hps
    intro j hj hj1
    cases as with
    | nil => simp at hlen
    | cons a0 as =>
      simp only [List.tail_cons, List.head!_cons] at hR
      intro h0
      have hnone : sLoop C.q id (decide (C.toAffine C.zero = none)) as 1 a0 = none := by
        rw [sLoop_none_iff]
        refine ⟨by simpa using hz, j - 1, by simp at hj; omega, ?_⟩
        have : j - 1 + 1 = j := by omega
        rw [Nat.one_mul, this]
        rw [List.take_succ_cons, polyNat] at h0
        exact h0
      rw [hnone] at hR
      cases hR

/-- **K2 repaired.** With the zero checks (`curVss.rejectZero = true`) `verify` returns a verdict —
never an error, never a crash — on every input whose commitments are curve points. `hcof`: on a curve
whose identity has no affine form every point has order dividing `q` (cofactor 1, as on secp256k1). -/
theorem vss_verify_no_panic (hC : C.Lawful)
    (hcof : C.toAffine C.zero = none → ∀ p, C.smul C.q p = C.zero)
    (t : Nat) (sh : Share) (vs : List ECPoint) (hvs : ∀ v ∈ vs, C.ecIsOnCurve v = true) :
    ∃ b, verify C curVss t sh vs = .ok b :=
  verify_no_panic hC hcof t sh vs hvs

/-- on honest commitments no cofactor assumption is needed -/
theorem vss_verify_no_panic_commitment (hC : C.Lawful) (as : List Nat) (vs : List ECPoint)
    (hcom : IsCommitment C as vs) (t : Nat) (hlen : as.length = t + 1) (sh : Share) :
    ∃ b, verify C curVss t sh vs = .ok b := by
  obtain ⟨b, hb, _⟩ := verify_commitment hC as vs hcom t hlen sh
  exact ⟨b, hb⟩

/-- **K2 as it was.** Without the zero checks, a share value `≡ 0 (mod q)` crashes the verifier on a
curve whose identity has no affine form (whenever the accumulation loop itself goes through). -/
theorem vss_verify_unrepaired_panics (hC : C.Lawful) (hz : C.toAffine C.zero = none)
    (a0 : Nat) (as : List Nat) (vs : List ECPoint) (hcom : IsCommitment C (a0 :: as) vs)
    (t : Nat) (hlen : (a0 :: as).length = t + 1) (id s : Nat) (hid : id % C.q ≠ 0)
    (hs : s % C.q = 0)
    (hps : ∀ j, 1 ≤ j → j < (a0 :: as).length →
      polyNat ((a0 :: as).take (j + 1)) id % C.q ≠ 0) :
    verify C ⟨false⟩ t ⟨t, id, s⟩ vs = .panic "scalar-base-mult-identity" :=
  verify_unrepaired_panics hC hz a0 as vs hcom t hlen id s hid hs hps

/-- **Every dealt share verifies under its own id** — except (this is the K2 repair's price) a share
whose value is `0 (mod q)`, which is rejected, see `vss_zero_share_rejected`. -/
theorem vss_share_verifies (hC : C.Lawful) (t secret : Nat) (ids coeffs : List Nat)
    (hlen : coeffs.length = t) (vs : List ECPoint) (shares : List Share)
    (h : create C t secret ids coeffs = .ok (vs, shares)) (sh : Share) (hsh : sh ∈ shares)
    (hnz : sh.share % C.q ≠ 0)
    (hps : C.toAffine C.zero = none → PartialSumsNonzero C.q (secret :: coeffs) sh.id) :
    verify C curVss t sh vs = .ok true := by
  obtain ⟨hg, hcom, hshares⟩ := (create_eq_ok_iff C t secret ids coeffs vs shares).1 h
  obtain ⟨_, hidnz, _, _⟩ := (createGuards_eq_true_iff _ _ _).1 hg
  rw [hshares] at hsh
  obtain ⟨id, hid, rfl⟩ := List.mem_map.1 hsh
  exact (vss_verify_iff hC (secret :: coeffs) vs hcom t (by simp [hlen]) id _ (hidnz id hid) hnz
    hps).2 (evalPoly_modEq secret coeffs id).symm

/-- a dealt share that happens to be `0 (mod q)` (probability `1/q`) is rejected by the repaired verifier -/
theorem vss_zero_share_rejected (t : Nat) (sh : Share) (vs : List ECPoint)
    (h0 : sh.share % C.q = 0) : verify C curVss t sh vs = .ok false := by
  rw [verify_curVss_eq, if_neg (fun h => h.2.2.1 h0)]

/-- a share value accepted under another id `id'` must be `f(id')` -/
theorem vss_other_id (hC : C.Lawful) (as : List Nat) (vs : List ECPoint)
    (hcom : IsCommitment C as vs) (t : Nat) (hlen : as.length = t + 1) (id id' : Nat)
    (h : verify C curVss t ⟨t, id', polyNat as id % C.q⟩ vs = .ok true) :
    polyNat as id' ≡ polyNat as id [MOD C.q] := by
  have := (vss_verify_sound hC as vs hcom t hlen _ h).2.2.2
  exact this.trans (Nat.mod_modEq _ _)

/-- **… and under (almost) no other id**: if `f` is not constant modulo `q`, a share value `s` is
accepted under at most `t` ids that are pairwise distinct modulo `q` (its own included). -/
theorem vss_other_id_bound (hC : C.Lawful) (as : List Nat) (vs : List ECPoint)
    (hcom : IsCommitment C as vs) (t : Nat) (hlen : as.length = t + 1)
    (hnc : ∃ j, 1 ≤ j ∧ as.getD j 0 % C.q ≠ 0) (s : Nat) (ids' : List Nat)
    (hnd : (ids'.map (· % C.q)).Nodup)
    (hver : ∀ id' ∈ ids', verify C curVss t ⟨t, id', s⟩ vs = .ok true) :
    ids'.length ≤ t := by
  haveI : Fact C.q.Prime := ⟨hC.q_prime⟩
  exact value_count_le as t hlen hnc s ids' hnd
    (fun x hx => (vss_verify_sound hC as vs hcom t hlen _ (hver x hx)).2.2.2)

/-- **An altered share value is rejected.** -/
theorem vss_tamper_rejected (hC : C.Lawful) (as : List Nat) (vs : List ECPoint)
    (hcom : IsCommitment C as vs) (t : Nat) (hlen : as.length = t + 1) (id s s' : Nat)
    (hs : polyNat as id ≡ s [MOD C.q]) (hne : ¬ s' ≡ s [MOD C.q]) :
    verify C curVss t ⟨t, id, s'⟩ vs = .ok false := by
  obtain ⟨b, hb⟩ := vss_verify_no_panic_commitment hC as vs hcom t hlen ⟨t, id, s'⟩
  rw [hb]
  congr 1
  cases b with
  | false => rfl
  | true =>
    have := (vss_verify_sound hC as vs hcom t hlen _ hb).2.2.2
    exact absurd (this.symm.trans hs) hne

/-- **An altered commitment is rejected**: changing one published coefficient commitment `a_j·G` into
`a_j'·G` with `a_j' ≢ a_j` makes every share that verified before fail. -/
theorem vss_tamper_commitment_rejected (hC : C.Lawful) (as as' : List Nat) (vs vs' : List ECPoint)
    (hcom : IsCommitment C as vs) (hcom' : IsCommitment C as' vs') (t : Nat)
    (hlen : as.length = t + 1) (hlen' : as'.length = t + 1) (j : Nat)
    (hsame : ∀ i, i ≠ j → as'.getD i 0 = as.getD i 0)
    (hdiff : ¬ as'.getD j 0 ≡ as.getD j 0 [MOD C.q])
    (sh : Share) (hok : verify C curVss t sh vs = .ok true) :
    verify C curVss t sh vs' = .ok false := by
  haveI : Fact C.q.Prime := ⟨hC.q_prime⟩
  obtain ⟨b, hb⟩ := vss_verify_no_panic_commitment hC as' vs' hcom' t hlen' sh
  rw [hb]
  congr 1
  cases b with
  | false => rfl
  | true =>
    exfalso
    obtain ⟨_, hid, _, h1⟩ := vss_verify_sound hC as vs hcom t hlen sh hok
    obtain ⟨_, _, _, h2⟩ := vss_verify_sound hC as' vs' hcom' t hlen' sh hb
    have e : ((polyNat as' sh.id : ℕ) : ZMod C.q) = ((polyNat as sh.id : ℕ) : ZMod C.q) :=
      (ZMod.natCast_eq_natCast_iff' _ _ _).2 (h2.trans h1.symm)
    rw [← polyZ_eval_natCast, ← polyZ_eval_natCast] at e
    have hpoly : polyZ C.q as' = polyZ C.q as +
        Polynomial.C ((as'.getD j 0 : ZMod C.q) - (as.getD j 0 : ZMod C.q)) * X ^ j := by
      ext m
      rw [coeff_add, coeff_C_mul, coeff_X_pow, polyZ_coeff, polyZ_coeff]
      by_cases hm : m = j
      · subst hm; simp
      · rw [if_neg hm, mul_zero, add_zero, hsame m hm]
    rw [hpoly, eval_add, eval_mul, eval_C, eval_pow, eval_X] at e
    have hz : ((as'.getD j 0 : ZMod C.q) - (as.getD j 0 : ZMod C.q)) * (sh.id : ZMod C.q) ^ j = 0 := by
      have := e
      rwa [add_eq_left] at this
    rcases mul_eq_zero.1 hz with h0 | h0
    · apply hdiff
      exact (ZMod.natCast_eq_natCast_iff' _ _ _).1 (sub_eq_zero.1 h0)
    · have hj0 : j ≠ 0 := by
        intro hj0; subst hj0; simp at h0
      have := (pow_eq_zero_iff hj0).1 h0
      rw [ZMod.natCast_eq_zero_iff] at this
      exact hid (Nat.mod_eq_zero_of_dvd this)

/-! ## `ReConstruct` -/

/-- **`t+1` or more shares give `f(0)`.** Shares on `f = Σ a_i X^i` of degree `≤ t`, ids distinct
modulo the prime `q`, at least `t+1` of them, the first one's `threshold` field not above their number
(the only guard of the Go code). -/
theorem vss_reconstruct {q : Nat} (hq : q.Prime) (as : List Nat) (t : Nat) (hlen : as.length = t + 1)
    (shares : List Share) (hn : t + 1 ≤ shares.length)
    (hthr : ∀ s0 ∈ shares.head?, s0.threshold ≤ shares.length)
    (hnd : (shares.map (fun s => s.id % q)).Nodup)
    (hval : ∀ sh ∈ shares, sh.share ≡ polyNat as sh.id [MOD q]) :
    reconstruct q shares = .ok (polyNat as 0 % q) := by
  haveI : Fact q.Prime := ⟨hq⟩
  have hne : shares ≠ [] := by
    intro h0; rw [h0] at hn; simp at hn
  have hdeg : (polyZ q as).degree < (shares.length : ℕ) :=
    lt_of_lt_of_le (polyZ_degree_lt as) (by exact_mod_cast (by omega : as.length ≤ shares.length))
  rw [reconstruct_eq_eval shares (polyZ q as) hne hthr hnd hdeg
    (fun sh hsh => by
      rw [polyZ_eval_natCast]
      exact (ZMod.natCast_eq_natCast_iff' _ _ _).2 (hval sh hsh))]
  congr 1
  have : (polyZ q as).eval 0 = ((polyNat as 0 : ℕ) : ZMod q) := by
    have := polyZ_eval_natCast (q := q) as 0
    rwa [Nat.cast_zero] at this
  rw [this, ZMod.val_natCast]

/-- **Every subset of at least `t+1` dealt shares reconstructs exactly the secret** (reduced). -/
theorem vss_reconstruct_dealt (hq : C.q.Prime) (t secret : Nat) (ids coeffs : List Nat)
    (hlen : coeffs.length = t) (vs : List ECPoint) (shares : List Share)
    (h : create C t secret ids coeffs = .ok (vs, shares))
    (sub : List Share) (hsub : sub.Sublist shares) (hn : t + 1 ≤ sub.length) :
    reconstruct C.q sub = .ok (secret % C.q) := by
  obtain ⟨hg, _, hshares⟩ := (create_eq_ok_iff C t secret ids coeffs vs shares).1 h
  obtain ⟨_, _, hnd, _⟩ := (createGuards_eq_true_iff _ _ _).1 hg
  have hall : ∀ sh ∈ shares, sh.threshold = t ∧
      sh.share ≡ polyNat (secret :: coeffs) sh.id [MOD C.q] := by
    intro sh hsh
    rw [hshares] at hsh
    obtain ⟨id, _, rfl⟩ := List.mem_map.1 hsh
    exact ⟨rfl, evalPoly_modEq secret coeffs id⟩
  have hnd' : (shares.map (fun s => s.id % C.q)).Nodup := by
    rw [hshares, List.map_map]
    exact hnd
  have := vss_reconstruct hq (secret :: coeffs) t (by simp [hlen]) sub hn
    (fun s0 hs0 => by
      have : s0 ∈ sub := List.mem_of_mem_head? hs0
      rw [(hall s0 (hsub.subset this)).1]; omega)
    (List.Nodup.sublist (hsub.map _) hnd')
    (fun sh hsh => (hall sh (hsub.subset hsh)).2)
  rw [this, polyNat_zero]

/-- fewer than `t` dealt shares are refused (with an error, given at least one share) -/
theorem vss_fewer_shares_refused (t secret : Nat) (ids coeffs : List Nat)
    (vs : List ECPoint) (shares : List Share)
    (h : create C t secret ids coeffs = .ok (vs, shares))
    (sub : List Share) (hsub : sub.Sublist shares) (hne : sub ≠ []) (hn : sub.length < t) :
    reconstruct C.q sub = .err "not-enough-shares" := by
  obtain ⟨_, _, hshares⟩ := (create_eq_ok_iff C t secret ids coeffs vs shares).1 h
  obtain ⟨s0, rest, rfl⟩ := List.exists_cons_of_ne_nil hne
  have : s0 ∈ shares := hsub.subset (List.mem_cons_self ..)
  rw [hshares] at this
  obtain ⟨id, _, rfl⟩ := List.mem_map.1 this
  unfold reconstruct
  simp only
  rw [if_pos hn]

/-- **Exactly `t` shares** are not refused by the Go code (`Threshold > len(shares)` is the only guard).
They interpolate `f − a_t·∏(X − id_i)`, so the result is `f(0)` iff `a_t ≡ 0` or some id `≡ 0 (mod q)`. -/
theorem vss_t_shares_iff {q : Nat} (hq : q.Prime) (as : List Nat) (t : Nat) (hlen : as.length = t + 1)
    (ht : 1 ≤ t) (shares : List Share) (hsl : shares.length = t)
    (hthr : ∀ s0 ∈ shares.head?, s0.threshold ≤ shares.length)
    (hnd : (shares.map (fun s => s.id % q)).Nodup)
    (hval : ∀ sh ∈ shares, sh.share ≡ polyNat as sh.id [MOD q]) :
    ∃ r, reconstruct q shares = .ok r ∧
      (r = polyNat as 0 % q ↔ (as.getD t 0 % q = 0 ∨ ∃ sh ∈ shares, sh.id % q = 0)) := by
  haveI : Fact q.Prime := ⟨hq⟩
  refine ⟨_, reconstruct_t_shares as t hlen shares hsl ht hthr hnd hval, ?_⟩
  have h0 : polyNat as 0 % q = ((as.getD 0 0 : ℕ) : ZMod q).val := by
    cases as with
    | nil => simp at hlen
    | cons a0 as => rw [polyNat_zero, List.getD_cons_zero, ZMod.val_natCast]
  rw [h0]
  rw [(ZMod.val_injective q).eq_iff, sub_eq_self, mul_eq_zero, ZMod.natCast_eq_zero_iff,
    Multiset.prod_eq_zero_iff]
  apply or_congr
  · exact ⟨Nat.mod_eq_zero_of_dvd, Nat.dvd_of_mod_eq_zero⟩
  · simp only [Multiset.mem_coe, List.mem_map, zero_sub]
    constructor
    · rintro ⟨sh, hsh, h⟩
      refine ⟨sh, hsh, ?_⟩
      rw [neg_eq_zero, ZMod.natCast_eq_zero_iff] at h
      exact Nat.mod_eq_zero_of_dvd h
    · rintro ⟨sh, hsh, h⟩
      refine ⟨sh, hsh, ?_⟩
      rw [neg_eq_zero, ZMod.natCast_eq_zero_iff]
      exact Nat.dvd_of_mod_eq_zero h

/-- the same with the condition written as in the informal statement: `a_t · ∏ id_i ≡ 0 (mod q)` -/
theorem vss_t_shares_iff_prod {q : Nat} (hq : q.Prime) (as : List Nat) (t : Nat)
    (hlen : as.length = t + 1)
    (ht : 1 ≤ t) (shares : List Share) (hsl : shares.length = t)
    (hthr : ∀ s0 ∈ shares.head?, s0.threshold ≤ shares.length)
    (hnd : (shares.map (fun s => s.id % q)).Nodup)
    (hval : ∀ sh ∈ shares, sh.share ≡ polyNat as sh.id [MOD q]) :
    ∃ r, reconstruct q shares = .ok r ∧
      (r = polyNat as 0 % q ↔ (as.getD t 0 * (shares.map (·.id)).prod) % q = 0) := by
  obtain ⟨r, hr, hiff⟩ := vss_t_shares_iff hq as t hlen ht shares hsl hthr hnd hval
  refine ⟨r, hr, hiff.trans ?_⟩
  rw [← Nat.dvd_iff_mod_eq_zero, ← Nat.dvd_iff_mod_eq_zero, hq.dvd_mul,
    (Nat.Prime.prime hq).dvd_prod_iff]
  apply or_congr Iff.rfl
  simp only [List.mem_map]
  constructor
  · rintro ⟨sh, hsh, h0⟩
    exact ⟨sh.id, ⟨sh, hsh, rfl⟩, Nat.dvd_of_mod_eq_zero h0⟩
  · rintro ⟨_, ⟨sh, hsh, rfl⟩, h0⟩
    exact ⟨sh, hsh, Nat.mod_eq_zero_of_dvd h0⟩

/-- **`t` dealt shares never give the secret** when the leading coefficient is `≢ 0 (mod q)` (the Go
sampler `GetRandomPositiveInt` draws it from `[1, q)`). -/
theorem vss_t_shares_wrong (hq : C.q.Prime) (t secret : Nat) (ids coeffs : List Nat)
    (hlen : coeffs.length = t) (hlead : (secret :: coeffs).getD t 0 % C.q ≠ 0)
    (vs : List ECPoint) (shares : List Share)
    (h : create C t secret ids coeffs = .ok (vs, shares))
    (sub : List Share) (hsub : sub.Sublist shares) (hn : sub.length = t) :
    ∃ r, reconstruct C.q sub = .ok r ∧ r ≠ secret % C.q := by
  obtain ⟨hg, _, hshares⟩ := (create_eq_ok_iff C t secret ids coeffs vs shares).1 h
  obtain ⟨ht, hidnz, hnd, _⟩ := (createGuards_eq_true_iff _ _ _).1 hg
  have hall : ∀ sh ∈ shares, sh.threshold = t ∧ sh.id % C.q ≠ 0 ∧
      sh.share ≡ polyNat (secret :: coeffs) sh.id [MOD C.q] := by
    intro sh hsh
    rw [hshares] at hsh
    obtain ⟨id, hid, rfl⟩ := List.mem_map.1 hsh
    exact ⟨rfl, hidnz id hid, evalPoly_modEq secret coeffs id⟩
  have hnd' : (shares.map (fun s => s.id % C.q)).Nodup := by
    rw [hshares, List.map_map]
    exact hnd
  obtain ⟨r, hr, hiff⟩ := vss_t_shares_iff hq (secret :: coeffs) t (by simp [hlen]) ht sub hn
    (fun s0 hs0 => by
      have : s0 ∈ sub := List.mem_of_mem_head? hs0
      rw [(hall s0 (hsub.subset this)).1]; omega)
    (List.Nodup.sublist (hsub.map _) hnd')
    (fun sh hsh => (hall sh (hsub.subset hsh)).2.2)
  refine ⟨r, hr, fun hrs => ?_⟩
  rw [polyNat_zero] at hiff
  rcases hiff.1 hrs with h0 | ⟨sh, hsh, h0⟩
  · exact hlead h0
  · exact (hall sh (hsub.subset hsh)).2.1 h0

/-! ## privacy and the one polynomial -/

/-- **Privacy of `≤ t` shares**, at the level of the code: for any `≤ t` points with ids distinct and
non-zero modulo `q` and ANY candidate secret there are dealer coefficients `a_1 … a_t` for which `create`
would hand out exactly these share values (modulo `q`) — the points carry no information on the secret. -/
theorem vss_privacy {q : Nat} (hq : q.Prime) (t : Nat) (pts : List (Nat × Nat))
    (hlen : pts.length ≤ t) (hnd : (pts.map (·.1 % q)).Nodup) (hnz : ∀ p ∈ pts, p.1 % q ≠ 0)
    (secret : Nat) :
    ∃ coeffs : List Nat, coeffs.length = t ∧
      ∀ p ∈ pts, evalPoly q (secret :: coeffs) p.1 ≡ p.2 [MOD q] := by
  haveI : Fact q.Prime := ⟨hq⟩
  obtain ⟨f, hdeg, h0, hpts⟩ := privacy_poly pts hnd hnz secret
  have hdeg' : f.degree < ((t + 1 : ℕ) : WithBot ℕ) :=
    lt_of_lt_of_le hdeg (by exact_mod_cast (by omega : pts.length + 1 ≤ t + 1))
  obtain ⟨coeffs, hcl, hpoly⟩ := exists_coeffs_of_poly f t hdeg' secret h0
  refine ⟨coeffs, hcl, fun p hp => ?_⟩
  apply (ZMod.natCast_eq_natCast_iff' _ _ _).1
  rw [evalPoly_eval, hpoly]
  exact hpts p hp

/-- the same over `ZMod q`: a polynomial of degree `≤ t` with the chosen constant term through the points -/
theorem vss_privacy_poly {q : Nat} (hq : q.Prime) (t : Nat) (pts : List (Nat × Nat))
    (hlen : pts.length ≤ t) (hnd : (pts.map (·.1 % q)).Nodup) (hnz : ∀ p ∈ pts, p.1 % q ≠ 0)
    (secret : Nat) :
    ∃ f : (ZMod q)[X], f.natDegree ≤ t ∧ f.eval 0 = (secret : ZMod q) ∧
      ∀ p ∈ pts, f.eval (p.1 : ZMod q) = (p.2 : ZMod q) := by
  obtain ⟨coeffs, hcl, hpts⟩ := vss_privacy hq t pts hlen hnd hnz secret
  refine ⟨polyZ q (secret :: coeffs), ?_, polyZ_eval_zero secret coeffs, fun p hp => ?_⟩
  · have := polyZ_natDegree_le (q := q) (secret :: coeffs)
    simpa [hcl] using this
  · rw [← evalPoly_eval]
    exact (ZMod.natCast_eq_natCast_iff' _ _ _).2 (hpts p hp)

/-- **The dealt shares lie on ONE polynomial of degree `≤ t`**, namely `secret + Σ coeffs_i X^(i+1)`;
every share carries the threshold `t`. -/
theorem vss_one_polynomial (t secret : Nat) (ids coeffs : List Nat) (hlen : coeffs.length = t)
    (vs : List ECPoint) (shares : List Share)
    (h : create C t secret ids coeffs = .ok (vs, shares)) :
    ∃ f : (ZMod C.q)[X], f.natDegree ≤ t ∧ f.coeff 0 = (secret : ZMod C.q) ∧
      (∀ i, f.coeff (i + 1) = (coeffs.getD i 0 : ZMod C.q)) ∧
      ∀ sh ∈ shares, sh.threshold = t ∧ (sh.share : ZMod C.q) = f.eval (sh.id : ZMod C.q) := by
  obtain ⟨_, _, hshares⟩ := (create_eq_ok_iff C t secret ids coeffs vs shares).1 h
  refine ⟨polyZ C.q (secret :: coeffs), ?_, ?_, ?_, ?_⟩
  · have := polyZ_natDegree_le (q := C.q) (secret :: coeffs)
    simpa [hlen] using this
  · rw [polyZ_coeff, List.getD_cons_zero]
  · intro i; rw [polyZ_coeff, List.getD_cons_succ]
  · intro sh hsh
    rw [hshares] at hsh
    obtain ⟨id, _, rfl⟩ := List.mem_map.1 hsh
    exact ⟨rfl, evalPoly_eval secret coeffs id⟩

/-! ## Non-vacuity: a 2-of-3 sharing over the proved-lawful toy curves of order 23

`f = 5 + 7X`, ids `1, 2, 3`, shares `12, 19, 3`. `zmodCurve` has an affine identity (like edwards25519),
`zmodCurveW` has none (like secp256k1). -/
section examples

instance fact23 : Fact (Nat.Prime 23) := ⟨by decide⟩

abbrev E := zmodCurve 23
abbrev W := zmodCurveW 23

example : E.Lawful := zmodCurve_lawful 23
example : W.Lawful := zmodCurveW_lawful 23

theorem dealE : create E 1 5 [1, 2, 3] [7] =
    .ok ([(5, 0), (7, 0)], [⟨1, 1, 12⟩, ⟨1, 2, 19⟩, ⟨1, 3, 3⟩]) := by decide

theorem dealW : create W 1 5 [1, 2, 3] [7] =
    .ok ([(5, 0), (7, 0)], [⟨1, 1, 12⟩, ⟨1, 2, 19⟩, ⟨1, 3, 3⟩]) := by decide

/-- the commitments are commitments, the first one is `5·G` -/
example : IsCommitment E [5, 7] [(5, 0), (7, 0)] :=
  (vss_first_commitment 1 5 [1, 2, 3] [7] rfl _ _ dealE).2.2.1

/-- share 2 verifies (through the theorem, hypotheses discharged) -/
example : verify E curVss 1 ⟨1, 2, 19⟩ [(5, 0), (7, 0)] = .ok true :=
  vss_share_verifies (zmodCurve_lawful 23) 1 5 [1, 2, 3] [7] rfl _ _ dealE _ (by decide) (by decide)
    (fun h => absurd h (zmodCurve_toAffine_zero 23))

example : verify W curVss 1 ⟨1, 2, 19⟩ [(5, 0), (7, 0)] = .ok true :=
  vss_share_verifies (zmodCurveW_lawful 23) 1 5 [1, 2, 3] [7] rfl _ _ dealW _ (by decide) (by decide)
    (fun _ => by decide)

/-- and the theorem agrees with running the model -/
example : verify W curVss 1 ⟨1, 2, 19⟩ [(5, 0), (7, 0)] = .ok true := by decide

/-- `vss_verify_iff` instantiated, both directions usable -/
example (s : Nat) (hs : s % 23 ≠ 0) :
    verify W curVss 1 ⟨1, 2, s⟩ [(5, 0), (7, 0)] = .ok true ↔ polyNat [5, 7] 2 ≡ s [MOD 23] :=
  vss_verify_iff (zmodCurveW_lawful 23) [5, 7] _
    (vss_first_commitment 1 5 [1, 2, 3] [7] rfl _ _ dealW).2.2.1 1 rfl 2 s (by decide) hs
    (fun _ => by decide)

/-- tampered share value -/
example : verify W curVss 1 ⟨1, 2, 20⟩ [(5, 0), (7, 0)] = .ok false :=
  vss_tamper_rejected (zmodCurveW_lawful 23) [5, 7] _
    (vss_first_commitment 1 5 [1, 2, 3] [7] rfl _ _ dealW).2.2.1 1 rfl 2 19 20 (by decide) (by decide)

/-- other id: the share of id 2 is accepted under at most `t = 1` id -/
example (ids' : List Nat) (hnd : (ids'.map (· % 23)).Nodup)
    (h : ∀ id' ∈ ids', verify W curVss 1 ⟨1, id', 19⟩ [(5, 0), (7, 0)] = .ok true) : ids'.length ≤ 1 :=
  vss_other_id_bound (zmodCurveW_lawful 23) [5, 7] _
    (vss_first_commitment 1 5 [1, 2, 3] [7] rfl _ _ dealW).2.2.1 1 rfl ⟨1, by decide, by decide⟩ 19
    ids' hnd h

/-- K2 before the repair: a zero share crashes the verifier on the curve without affine identity … -/
example : verify W ⟨false⟩ 1 ⟨1, 2, 23⟩ [(5, 0), (7, 0)] = .panic "scalar-base-mult-identity" :=
  vss_verify_unrepaired_panics (zmodCurveW_lawful 23) (zmodCurveW_toAffine_zero 23) 5 [7] _
    (vss_first_commitment 1 5 [1, 2, 3] [7] rfl _ _ dealW).2.2.1 1 rfl 2 23 (by decide) (by decide)
    (by decide)

/-- … (the model run agrees) and after the repair it is a clean rejection -/
example : verify W ⟨false⟩ 1 ⟨1, 2, 23⟩ [(5, 0), (7, 0)] = .panic "scalar-base-mult-identity" := by
  decide
example : verify W curVss 1 ⟨1, 2, 23⟩ [(5, 0), (7, 0)] = .ok false :=
  vss_zero_share_rejected 1 _ _ (by decide)

/-- the proviso of `vss_verify_iff` is needed: for `f = 5 + 6X + 3X²` at id 3 the partial sum
`5 + 6·3 = 23 ≡ 0`, so on `W` the correct share `f(3) = 50 ≡ 4` is rejected, while `E` accepts it. -/
example : polyNat [5, 6, 3] 3 ≡ 4 [MOD 23] := by decide
example : ¬ PartialSumsNonzero 23 [5, 6, 3] 3 := by decide
example : verify W curVss 2 ⟨2, 3, 4⟩ [(5, 0), (6, 0), (3, 0)] = .ok false := by decide
example : verify E curVss 2 ⟨2, 3, 4⟩ [(5, 0), (6, 0), (3, 0)] = .ok true := by decide

/-- any two of the three shares give back the secret -/
example : reconstruct 23 [⟨1, 1, 12⟩, ⟨1, 3, 3⟩] = .ok 5 :=
  vss_reconstruct_dealt (C := E) fact23.out 1 5 [1, 2, 3] [7] rfl _ _ dealE _
    (by decide) (by decide)

/-- one share (`= t`) is not refused and gives a wrong value -/
example : ∃ r, reconstruct 23 [⟨1, 2, 19⟩] = .ok r ∧ r ≠ 5 :=
  vss_t_shares_wrong (C := E) fact23.out 1 5 [1, 2, 3] [7] rfl (by decide) _ _ dealE _
    (by decide) rfl

/-- privacy: one point `(2, 19)` is compatible with every secret -/
example (secret : Nat) : ∃ coeffs : List Nat, coeffs.length = 1 ∧
    ∀ p ∈ [((2 : Nat), (19 : Nat))], evalPoly 23 (secret :: coeffs) p.1 ≡ p.2 [MOD 23] :=
  vss_privacy fact23.out 1 _ (by decide) (by decide) (by decide) secret

/-- refusal: id 23 ≡ 0, ids 1 and 24 congruent -/
example : ∃ e, create E 1 5 [1, 23] [7] = .err e :=
  (vss_create_refuses_iff 1 5 [1, 23] [7]).2 (Or.inr (Or.inl ⟨23, by decide, by decide⟩))
example : ∃ e, create E 1 5 [1, 2, 24] [7] = .err e :=
  (vss_create_refuses_iff 1 5 [1, 2, 24] [7]).2
    (Or.inr (Or.inr (Or.inl ⟨0, 2, by decide, by decide, by decide⟩)))
/-- crash: coefficient 46 ≡ 0 on the curve without affine identity -/
example : ∃ e, create W 1 5 [1, 2, 3] [46] = .panic e :=
  (vss_create_panics_iff (zmodCurveW_lawful 23) 1 5 [1, 2, 3] [46]).2
    ⟨by decide, zmodCurveW_toAffine_zero 23, 46, by decide, by decide⟩

end examples

end TssVerif.C15
