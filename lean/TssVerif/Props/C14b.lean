import TssVerif.Props.C14
/-! # C14 (continued) — the affine chain `HomoAdd(HomoMult(b, Enc a), Enc β)` and symmetry of `HomoAdd`

Property theorems only, over the same executable definitions (`Core/Paillier.lean`) and therefore under
the same correspondence operations as `Props/C14.lean`. -/
namespace TssVerif.C14
open TssVerif TssVerif.Paillier TssVerif.PaillierL

/-- **the chain MtA runs on the responder's side decrypts to `b·a + β (mod n)`**:
`Decrypt(HomoAdd(HomoMult(b, Enc a), Enc β)) = (b·a + β) mod n`, stated on the three real calls in
sequence (every intermediate result passes the next call's domain checks) -/
theorem homo_affine {P Q : Nat} (hP : P.Prime) (hQ : Q.Prime) (hne : P ≠ Q)
    (hlam : Nat.gcd (Nat.lcm (P - 1) (Q - 1)) (P * Q) = 1)
    (sk : PrivateKey) (hn : sk.n = P * Q) (hl : sk.lambdaN = Nat.lcm (P - 1) (Q - 1))
    {a b β x1 x2 ca cβ : Nat} (hb : b < P * Q)
    (hx1 : Nat.gcd x1 (P * Q) = 1) (hx2 : Nat.gcd x2 (P * Q) = 1)
    (h1 : encryptWith (P * Q) (a : Int) x1 = .ok ca) (h2 : encryptWith (P * Q) (β : Int) x2 = .ok cβ) :
    (homoMult (P * Q) (b : Int) (ca : Int) >>= fun c1 =>
      homoAdd (P * Q) (c1 : Int) (cβ : Int) >>= fun c2 => decrypt sk (c2 : Int)) =
      .ok ((b * a + β) % (P * Q)) := by
  have hK : LamOK sk.n sk.lambdaN := by rw [hn, hl]; exact lamOK_of_primes hP hQ hne hlam
  have hN := one_lt_mul_primes hP hQ
  obtain ⟨-, -, rfl⟩ := encryptWith_ok_iff.1 h1
  obtain ⟨-, -, rfl⟩ := encryptWith_ok_iff.1 h2
  simp only [Int.toNat_natCast]
  have i1 := isCt_encNat hN hx1 a
  have i2 := isCt_encNat hN hx2 β
  have i3 := IsCt.homoMult hN b i1
  have i4 := IsCt.homoAdd hN i3 i2
  rw [homoMult_eq hb i1.1, ok_bind, homoAdd_eq i3.1 i2.1, ok_bind]
  rw [← hn] at i4 ⊢
  exact decrypt_isCt hK i4

/-- `HomoAdd` is symmetric in its two ciphertexts on accepted inputs -/
theorem homoAdd_comm_ok (n : Nat) {c1 c2 : Int} {c : Nat} (h : homoAdd n c1 c2 = .ok c) :
    homoAdd n c2 c1 = .ok c := by
  unfold homoAdd at h ⊢
  simp only [] at h ⊢
  split at h
  · cases h
  · split at h
    · cases h
    · rename_i g1 g2
      rw [if_neg g2, if_neg g1, Nat.mul_comm]
      exact h

/-- `HomoAdd` refuses in one order exactly when it refuses in the other -/
theorem homoAdd_comm_refuses (n : Nat) (c1 c2 : Int) :
    (∃ c, homoAdd n c1 c2 = .ok c) ↔ (∃ c, homoAdd n c2 c1 = .ok c) :=
  ⟨fun ⟨c, h⟩ => ⟨c, homoAdd_comm_ok n h⟩, fun ⟨c, h⟩ => ⟨c, homoAdd_comm_ok n h⟩⟩

/-! ## hypotheses are satisfiable; the chain evaluated on the executable model

`Dec(HomoAdd(HomoMult(7, Enc 200), Enc 800)) = (7·200 + 800) mod 899 = 402` -/
example : (do let ca ← encryptWith 899 200 5
              let cb ← encryptWith 899 800 3
              let c1 ← homoMult 899 7 ca
              let c2 ← homoAdd 899 c1 cb
              decrypt (keyOf 29 31) c2) = .ok 402 := by decide
example : (7 * 200 + 800) % (29 * 31) = 402 := by decide

end TssVerif.C14
