import TssVerif.Lemmas.AlgKeygen
import TssVerif.Lemmas.AlgToy
import TssVerif.Props.C03
import Mathlib.Logic.Relation
/-! # C04 — resharing keeps the key

"Resharing hands a (t', n') sharing of the SAME secret to the new committee: the public key is
unchanged, the new shares match the new public share points, and this survives any number of
resharings."

Setting: the old sharing polynomial `F` (degree below the number `ks.length` of participating old
members, ids `ks` distinct modulo `q`), old member `i` holds `xs[i] ≡ F(ks[i])` and computes
`ws[i] = Sign.weight q ks i xs[i]` (`PrepareForSigning`); it deals `ws[i]` with a fresh polynomial
`g i = [≡ ws[i], b_{i,1}, …, b_{i,t'}]`. The new member with id `k'` ends with
`share q (range n) g k' = (Σ_i evalPoly q (g i) k') mod q`. Notation of C03 (`sumPoly`, `share`, `combined`,
`pubShare`, `psum`). -/
set_option autoImplicit false
set_option linter.style.haveILetI false
namespace TssVerif.C04
open TssVerif AlgL Polynomial

variable {P : Type} {C : Curve P}

/-- **The new polynomial `G' = Σ_i g_i` shares the same secret, with the new threshold.**
`G'(0) = F(0)`, `deg G' ≤ t'`, the new member `k'` holds `G'(k')`. -/
theorem reshare_same_secret {q : ℕ} [Fact q.Prime] (F : (ZMod q)[X]) (ks xs ws : List ℕ)
    (hdeg : F.degree < ks.length) (hnd : (ks.map (· % q)).Nodup)
    (hx : ∀ i < ks.length, (xs.getD i 0 : ZMod q) = F.eval (ks.getD i 0 : ZMod q))
    (hw : ∀ i < ks.length, Sign.weight q ks i (xs.getD i 0) = some (ws.getD i 0))
    (g : ℕ → List ℕ) (t' : ℕ)
    (hg : ∀ i < ks.length, (g i).length = t' + 1 ∧ (g i).getD 0 0 ≡ ws.getD i 0 [MOD q]) :
    (sumPoly q (List.range ks.length) g).eval 0 = F.eval 0 ∧
    (sumPoly q (List.range ks.length) g).degree < ((t' + 1 : ℕ) : WithBot ℕ) ∧
    ∀ k' : ℕ, share q (List.range ks.length) g k' =
      ((sumPoly q (List.range ks.length) g).eval (k' : ZMod q)).val := by
  have hne : ∀ i ∈ List.range ks.length, g i ≠ [] := fun i hi h => by
    have := (hg i (List.mem_range.1 hi)).1; rw [h] at this; simp at this
  refine ⟨?_, ?_, fun k' => share_eq_val _ g hne k'⟩
  · rw [sumPoly_eval_zero, cast_list_sum, ← C01.lagrange_weights_sum ks xs ws F hdeg hnd hx hw,
      ← List.sum_toFinset _ List.nodup_range, List.toFinset_range]
    refine Finset.sum_congr rfl fun i hi => ?_
    exact (ZMod.natCast_eq_natCast_iff _ _ _).2 (hg i (Finset.mem_range.1 hi)).2
  · exact sumPoly_degree_lt' _ g (t' + 1) (t' + 1)
      (fun i hi => le_of_eq (hg i (List.mem_range.1 hi)).1) (le_refl _)

/-- **Resharing keeps the key** (honest run, every lawful curve): with `PK = F(0)·G`, the new polynomial
has `G'(0) = F(0)` and degree `≤ t'`; the constant terms dealt by the old members add up to `PK`
(`Σ_i g_i(0)·G = PK`, the check of the new members); every new share matches its new public share
point; and any `t'+1` new members with ids distinct mod `q` reconstruct the old secret. -/
theorem reshare_same_key (hC : C.Lawful) (F : (ZMod C.q)[X]) (ks xs ws : List ℕ)
    (hdeg : F.degree < ks.length) (hnd : (ks.map (· % C.q)).Nodup)
    (hx : ∀ i < ks.length, (xs.getD i 0 : ZMod C.q) = F.eval (ks.getD i 0 : ZMod C.q))
    (hw : ∀ i < ks.length, Sign.weight C.q ks i (xs.getD i 0) = some (ws.getD i 0))
    (g : ℕ → List ℕ) (t' : ℕ)
    (hg : ∀ i < ks.length, (g i).length = t' + 1 ∧ (g i).getD 0 0 ≡ ws.getD i 0 [MOD C.q])
    (PK : P) (hPK : PK = C.smul (F.eval 0).val C.base) :
    (sumPoly C.q (List.range ks.length) g).eval 0 = F.eval 0 ∧
    (sumPoly C.q (List.range ks.length) g).degree < ((t' + 1 : ℕ) : WithBot ℕ) ∧
    psum C ((List.range ks.length).map fun i => C.smul ((g i).getD 0 0) C.base) = PK ∧
    combined C (List.range ks.length) (honestCommit C g) 0 = PK ∧
    (∀ k' : ℕ, C.smul (share C.q (List.range ks.length) g k') C.base =
      pubShare C (combined C (List.range ks.length) (honestCommit C g)) t' k') ∧
    (∀ ks' : List ℕ, t' + 1 ≤ ks'.length → (ks'.map (· % C.q)).Nodup →
      Vss.reconstruct C.q (ks'.map fun k' => ⟨t', k', share C.q (List.range ks.length) g k'⟩) =
        .ok (F.eval 0).val) := by
  haveI : Fact C.q.Prime := ⟨hC.q_prime⟩
  obtain ⟨h0, hd, _⟩ := reshare_same_secret F ks xs ws hdeg hnd hx hw g t' hg
  have hlen : ∀ i ∈ List.range ks.length, (g i).length = t' + 1 :=
    fun i hi => (hg i (List.mem_range.1 hi)).1
  obtain ⟨_, _, h3, h4, _, _⟩ :=
    C03.keygen_public_points_on_polynomial hC (List.range ks.length) g t' hlen 0
  have hpk : combined C (List.range ks.length) (honestCommit C g) 0 = PK := by
    rw [← h3, h0, hPK]
  refine ⟨h0, hd, by rw [← h4, hpk], hpk,
    fun k' => C03.keygen_share_matches_public hC _ g t' hlen k', ?_⟩
  intro ks' hn' hnd'
  have := (C03.keygen_any_t1_interpolates (q := C.q) (List.range ks.length) g t' hlen ks' hn' hnd').2
  rw [this]
  congr 1
  rw [← h0, sumPoly_eval_zero, ZMod.val_natCast]

/-- **The `V_0` check of a new member is sound, whatever the old members sent**: arbitrary commitment
vectors `Vi i` (points) and dealt values `s i`; if `Σ_i V_i[0] = PK` (the check) and every received share
passes the Feldman equation, then the new share matches the public share point of the combined
commitments, whose constant term is `PK`. -/
theorem reshare_v0_check_sound (hC : C.Lawful) {ι : Type} (ds : List ι) (s : ι → ℕ) (Vi : ι → ℕ → P)
    (t' k' : ℕ) (PK : P)
    (hV0 : psum C (ds.map fun i => Vi i 0) = PK)
    (h : ∀ i ∈ ds, C.smul (s i) C.base = pubShare C (Vi i) t' k') :
    C.smul ((ds.map s).sum % C.q) C.base = pubShare C (combined C ds Vi) t' k' ∧
    combined C ds Vi 0 = PK :=
  ⟨C03.feldman_accept_implies_consistent hC ds s Vi t' k' h, hV0⟩

/-- … and then **the new shares determine a secret whose public key is `PK`** (group killed by `q`):
for any `t'+1` (or more) new members with ids `ks'` distinct modulo `q` whose shares `x' j` all passed,
the Lagrange combination `x* = Σ_j λ_j·x'_j` (the secret the new committee holds) satisfies
`x*·G = PK` — dishonest old members cannot change the key without being caught. -/
theorem reshare_v0_check_key_preserved (hC : C.Lawful) (hord : ∀ p, C.smul C.q p = C.zero)
    (Vc : ℕ → P) (t' : ℕ) (PK : P) (hV0 : Vc 0 = PK)
    (ks' lam x' : List ℕ) (hlen : lam.length = ks'.length) (ht : t' < ks'.length)
    (hnd : (ks'.map (· % C.q)).Nodup)
    (hlam : ∀ j < ks'.length, Sign.weight C.q ks' j 1 = some (lam.getD j 0))
    (hx : ∀ j < ks'.length, C.smul (x'.getD j 0) C.base = pubShare C Vc t' (ks'.getD j 0)) :
    C.smul ((List.range ks'.length).map fun j => lam.getD j 0 * x'.getD j 0).sum C.base = PK := by
  rw [← hV0, ← C03.public_shares_interpolate hC hord Vc t' ks' lam hlen ht hnd hlam,
    ← psum_smul_base hC]
  apply psum_congr
  intro j hj
  rw [hC.smul_mul, hx j (List.mem_range.1 hj)]

/-! ## chains of resharings -/

/-- one honest resharing from the sharing polynomial `F` to `F'` -/
def ReshareStep (q : ℕ) (F F' : (ZMod q)[X]) : Prop :=
  ∃ (ks xs ws : List ℕ) (g : ℕ → List ℕ) (t' : ℕ),
    F.degree < ks.length ∧ (ks.map (· % q)).Nodup ∧
    (∀ i < ks.length, (xs.getD i 0 : ZMod q) = F.eval (ks.getD i 0 : ZMod q)) ∧
    (∀ i < ks.length, Sign.weight q ks i (xs.getD i 0) = some (ws.getD i 0)) ∧
    (∀ i < ks.length, (g i).length = t' + 1 ∧ (g i).getD 0 0 ≡ ws.getD i 0 [MOD q]) ∧
    F' = sumPoly q (List.range ks.length) g

/-- **The secret (hence the public key) is invariant along any chain of resharings**, each step
satisfying the hypotheses of `reshare_same_key` on the output of the previous one. -/
theorem reshare_chain {q : ℕ} [Fact q.Prime] (F F' : (ZMod q)[X])
    (h : Relation.ReflTransGen (ReshareStep q) F F') : F'.eval 0 = F.eval 0 := by
  induction h with
  | refl => rfl
  | tail _ hstep ih =>
    obtain ⟨ks, xs, ws, g, t', hdeg, hnd, hx, hw, hg, rfl⟩ := hstep
    rw [(reshare_same_secret _ ks xs ws hdeg hnd hx hw g t' hg).1, ih]

/-- the public key along a chain -/
theorem reshare_chain_pk (hC : C.Lawful) (F F' : (ZMod C.q)[X])
    (h : letI : Fact C.q.Prime := ⟨hC.q_prime⟩; Relation.ReflTransGen (ReshareStep C.q) F F') :
    C.smul (F'.eval 0).val C.base = C.smul (F.eval 0).val C.base := by
  haveI : Fact C.q.Prime := ⟨hC.q_prime⟩
  rw [reshare_chain F F' h]

/-! ## Non-vacuity on the toy curve of order 23

Old sharing `F = 8 + 9X` (C03's example, `PK = 8·G`); old members with ids `1, 3` hold `17, 12`,
weights `14, 17`. They deal `g_0 = 14 + 4X`, `g_1 = 17 + 10X` (`t' = 1`) to new ids `2, 5, 6`:
`G' = 31 + 14X ≡ 8 + 14X`, new shares `13, 9, 0`. -/
section examples

abbrev W := zmodCurveW 23

def g2 : ℕ → List ℕ
  | 0 => [14, 4]
  | _ => [17, 10]

theorem oldF : (Vss.polyZ 23 [8, 9]).degree < (([1, 3] : List ℕ).length : ℕ) :=
  lt_of_lt_of_le (Vss.polyZ_degree_lt _) (by simp)

theorem oldShares : ∀ i < ([1, 3] : List ℕ).length,
    ((([17, 12] : List ℕ).getD i 0 : ℕ) : ZMod 23) =
      (Vss.polyZ 23 [8, 9]).eval ((([1, 3] : List ℕ).getD i 0 : ℕ) : ZMod 23) := by
  intro i hi
  have hi' : i < 2 := hi
  rw [Vss.polyZ_eval_natCast]
  interval_cases i <;> rfl

example : share 23 [0, 1] g2 2 = 13 ∧ share 23 [0, 1] g2 5 = 9 ∧ share 23 [0, 1] g2 6 = 0 := by decide

/-- the theorem, hypotheses discharged: constant terms add up to the old public key `8·G`, the new
share of id `5` matches its public share point, and new members `2, 6` reconstruct `8` -/
example : psum W ((List.range 2).map fun i => W.smul ((g2 i).getD 0 0) W.base) = W.smul 8 W.base ∧
    W.smul (share 23 (List.range 2) g2 5) W.base =
      pubShare W (combined W (List.range 2) (honestCommit W g2)) 1 5 ∧
    Vss.reconstruct 23 ([2, 6].map fun k' => ⟨1, k', share 23 (List.range 2) g2 k'⟩) = .ok 8 := by
  have h8 : ((Vss.polyZ 23 [8, 9]).eval 0).val = 8 := by rw [Vss.polyZ_eval_zero]; rfl
  obtain ⟨_, _, h3, _, h5, h6⟩ := reshare_same_key (C := W) (zmodCurveW_lawful 23) (Vss.polyZ 23 [8, 9])
    [1, 3] [17, 12] [14, 17] oldF (by decide) oldShares (by decide) g2 1 (by decide)
    (W.smul 8 W.base) (congrArg (fun n => W.smul n W.base) h8).symm
  exact ⟨h3, h5 5, (h6 [2, 6] (by decide) (by decide)).trans (congrArg Outcome.ok h8)⟩

/-- the model run agrees -/
example : Vss.reconstruct 23 [⟨1, 2, 13⟩, ⟨1, 6, 0⟩] = .ok 8 := by decide

/-- the `V_0` check with commitments that are just points: `V_0 = (14, 4)`, `V_1 = (17, 10)` -/
example : W.smul (([0, 1].map fun i => if i = 0 then 11 else 21).sum % 23) W.base =
      pubShare W (combined W [0, 1] fun i c =>
        if i = 0 then (if c = 0 then 14 else 4) else (if c = 0 then 17 else 10)) 1 5 ∧
    combined W [0, 1] (fun i c =>
        if i = 0 then (if c = 0 then (14 : ZMod 23) else 4) else (if c = 0 then 17 else 10)) 0 = 8 :=
  reshare_v0_check_sound (C := W) (zmodCurveW_lawful 23) [0, 1] (fun i => if i = 0 then 11 else 21)
    (fun i c => if i = 0 then (if c = 0 then 14 else 4) else (if c = 0 then 17 else 10)) 1 5 8
    (by decide) (by decide)

/-- new members `2, 6` (`λ = 13, 11`): `13·13 + 11·0 = 169 ≡ 8` -/
example : W.smul ((List.range 2).map fun j =>
    ([13, 11] : List ℕ).getD j 0 * ([13, 0] : List ℕ).getD j 0).sum W.base = 8 :=
  reshare_v0_check_key_preserved (C := W) (zmodCurveW_lawful 23) (zmodCurveW_order 23)
    (fun c => if c = 0 then 8 else 14) 1 8 rfl [2, 6] [13, 11] [13, 0] rfl (by decide) (by decide)
    (by decide) (by decide)

/-- a chain of two resharings of `F = 8 + 9X` (the second one back to ids `1, 3` with fresh polynomials) -/
example : ReshareStep 23 (Vss.polyZ 23 [8, 9]) (sumPoly 23 (List.range 2) g2) :=
  ⟨[1, 3], [17, 12], [14, 17], g2, 1, oldF, by decide, oldShares, by decide, by decide, rfl⟩

example (F' : (ZMod 23)[X]) (h : ReshareStep 23 (sumPoly 23 (List.range 2) g2) F') :
    F'.eval 0 = 8 := by
  have h1 : Relation.ReflTransGen (ReshareStep 23) (Vss.polyZ 23 [8, 9]) F' :=
    Relation.ReflTransGen.tail (Relation.ReflTransGen.single
      ⟨[1, 3], [17, 12], [14, 17], g2, 1, oldF, by decide, oldShares, by decide, by decide, rfl⟩) h
  rw [reshare_chain _ _ h1]
  exact Vss.polyZ_eval_zero 8 [9]

end examples

end TssVerif.C04
