import TssVerif.Props.C16
/-! # C16 (continued) — the parts framing is unambiguous; in-range lengths are read exactly;
`DeCommit` releases the secrets only when `Verify` accepts

Property theorems only; they are corollaries of `Props/C16.lean` over the same executable
definitions (`Core/Commit.lean`), so the correspondence operations that tie those definitions to
`crypto/commitments` (`builder_secrets`, `parse_secrets`, `commit_verify`, `decommit`) tie these too. -/
namespace TssVerif.C16
open TssVerif

/-! ## the parts framing is injective -/

/-- **unambiguous parts framing**: two part lists that the builder packs into the same element
sequence are the same part list (no re-grouping, no shifted boundary, no dropped or added empty
part); stated for every packing of at least two elements, which is every packing the parser accepts -/
theorem builder_injective {p p' : List (List Int)} {s : List Int}
    (hp : builderSecrets p = .ok s) (hp' : builderSecrets p' = .ok s)
    (h2 : 2 ≤ (p.map fun x => x.length + 1).sum) (h2' : 2 ≤ (p'.map fun x => x.length + 1).sum) :
    p = p' := by
  obtain ⟨a1, a2⟩ := (builder_refuses_iff p).mp ⟨s, hp⟩
  obtain ⟨b1, b2⟩ := (builder_refuses_iff p').mp ⟨s, hp'⟩
  obtain ⟨t, ht, hpar⟩ := builder_roundtrip p a1 a2 h2
  obtain ⟨t', ht', hpar'⟩ := builder_roundtrip p' b1 b2 h2'
  rw [hp] at ht; rw [hp'] at ht'
  cases ht; cases ht'
  rw [hpar] at hpar'
  cases hpar'
  rfl

/-- what the parser returns for a packed sequence is what was packed: a party that parses
`builder.Secrets()` of a peer can never obtain a different part list than the peer built -/
theorem parse_of_packed_unique {p q : List (List Int)} {s : List Int}
    (hp : builderSecrets p = .ok s) (h2 : 2 ≤ (p.map fun x => x.length + 1).sum)
    (hq : parseSecretsCfg curParse s = .ok q) : q = p := by
  obtain ⟨a1, a2⟩ := (builder_refuses_iff p).mp ⟨s, hp⟩
  obtain ⟨t, ht, hpar⟩ := builder_roundtrip p a1 a2 h2
  rw [hp] at ht; cases ht
  rw [hpar] at hq; cases hq; rfl

/-! ## `Int64()` of a length element -/

/-- a length element inside the int64 range is read exactly (the wrap-around of `(*big.Int).Int64()`
can only be reached by an element outside the range, which the current tree refuses) -/
theorem goInt64_exact (v : Int) (h1 : -(2 ^ 63 : Int) ≤ v) (h2 : v < (2 ^ 63 : Int)) : goInt64 v = v := by
  unfold goInt64
  simp only []
  have hp : (2 : Int) ^ 63 = 9223372036854775808 := by decide
  have hq : (2 : Int) ^ 64 = 18446744073709551616 := by decide
  have hn : (2 : Nat) ^ 64 = 18446744073709551616 := by decide
  rw [hp] at h1 h2
  rw [hp, hq, hn]
  by_cases hv : v < 0
  · have hab : (v.natAbs : Int) = -v := by omega
    have hm : ((v.natAbs % 18446744073709551616 : Nat) : Int) = -v := by
      have : v.natAbs < 18446744073709551616 := by omega
      rw [Nat.mod_eq_of_lt this]; exact hab
    rw [if_pos hv, hm]
    simp only [Int.neg_neg]
    have : v % 18446744073709551616 = v + 18446744073709551616 := by omega
    rw [this]
    split <;> omega
  · have hab : (v.natAbs : Int) = v := by omega
    have hm : ((v.natAbs % 18446744073709551616 : Nat) : Int) = v := by
      have : v.natAbs < 18446744073709551616 := by omega
      rw [Nat.mod_eq_of_lt this]; exact hab
    rw [if_neg hv, hm]
    have : v % 18446744073709551616 = v := by omega
    rw [this]
    split <;> omega

/-- the wrap-around exists in the model as in Go: `2^63` reads as `-2^63` (the K4 input) -/
theorem goInt64_wraps_witness : goInt64 (2 ^ 63) = -(2 ^ 63 : Int) := by decide

/-! ## `DeCommit` follows `Verify` -/

/-- `DeCommit` hands out secrets exactly when `Verify` accepts, and then they are the decommitment
without its randomness element -/
theorem decommit_some_iff_verify (H : HashFn) (c : Nat) (d : List Int) (s : List Int) :
    decommitWith H c d = .ok (some s) ↔ (commitVerifyWith H c d = .ok true ∧ s = d.drop 1) := by
  unfold decommitWith
  constructor
  · intro h
    split at h <;> simp_all
  · rintro ⟨h, rfl⟩
    simp [h]

/-- a decommitment that does not hash to the commitment releases nothing -/
theorem decommit_refuses_wrong_opening (H : HashFn) (c : Nat) (d : List Int)
    (h : commitVerifyWith H c d = .ok false) : decommitWith H c d = .ok none := by
  simp [decommitWith, h]

/-- two accepted openings of one commitment that release different secrets exhibit a collision of the
hash (binding, stated on what `DeCommit` returns rather than on `Verify`) -/
theorem decommit_binding (H : HashFn) (c : Nat) {d d' : List Nat} {s s' : List Int}
    (hd : Short (d.map natToBytesBE)) (hd' : Short (d'.map natToBytesBE))
    (h1 : decommitWith H c (d.map fun (n : Nat) => (n : Int)) = .ok (some s))
    (h2 : decommitWith H c (d'.map fun (n : Nat) => (n : Int)) = .ok (some s'))
    (hne : s ≠ s') : ∃ a b : Bytes, a ≠ b ∧ bytesToNat (H a) = bytesToNat (H b) := by
  obtain ⟨v1, e1⟩ := (decommit_some_iff_verify H c _ s).mp h1
  obtain ⟨v2, e2⟩ := (decommit_some_iff_verify H c _ s').mp h2
  have hdd : d ≠ d' := by
    intro heq; subst heq; exact hne (e1.trans e2.symm)
  exact commit_binding H c hd hd' hdd v1 v2

/-! ## hypotheses are satisfiable -/
example : builderSecrets [[7], [], [8, 9]] = .ok [1, 7, 0, 2, 8, 9] ∧
    2 ≤ (([[7], [], [8, 9]] : List (List Int)).map fun x => x.length + 1).sum := by decide

end TssVerif.C16
