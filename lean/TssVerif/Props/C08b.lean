import TssVerif.Props.C08
/-! # C08 (continued) — what a party has emitted is determined by the round it has reached

Property theorems only; corollaries of `Props/C08.lean` (`emits_once_in_order`). -/
set_option autoImplicit false
namespace TssVerif.C08
open TssVerif TssVerif.Engine TssVerif.EngineL

/-- **two histories that reach the same round have emitted the same messages, in the same order, and
the same number of `end` results** — whatever was delivered, in whatever order, before or after `Start` -/
theorem emissions_determined_by_round (tbl : List RoundSpec) (n self : Nat) (evs evs' : List Ev)
    (h : (run tbl evs (fresh n self)).rnd = (run tbl evs' (fresh n self)).rnd) :
    (run tbl evs (fresh n self)).out = (run tbl evs' (fresh n self)).out ∧
    (run tbl evs (fresh n self)).ended = (run tbl evs' (fresh n self)).ended := by
  obtain ⟨_, o1, e1⟩ := emits_once_in_order tbl n self evs
  obtain ⟨_, o2, e2⟩ := emits_once_in_order tbl n self evs'
  exact ⟨by rw [o1, o2, h], by rw [e1, e2, h]⟩

/-- the sender's identity does not enter what is emitted: parties of one session that are in the same
round have emitted logs of the same shape (`emitsUpTo` depends on the table, `n` and the round only) -/
theorem emissions_independent_of_self (tbl : List RoundSpec) (n self self' : Nat) (evs evs' : List Ev)
    (h : (run tbl evs (fresh n self)).rnd = (run tbl evs' (fresh n self')).rnd) :
    (run tbl evs (fresh n self)).out = (run tbl evs' (fresh n self')).out ∧
    (run tbl evs (fresh n self)).ended = (run tbl evs' (fresh n self')).ended := by
  obtain ⟨_, o1, e1⟩ := emits_once_in_order tbl n self evs
  obtain ⟨_, o2, e2⟩ := emits_once_in_order tbl n self' evs'
  exact ⟨by rw [o1, o2, h], by rw [e1, e2, h]⟩

end TssVerif.C08
