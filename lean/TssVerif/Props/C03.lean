import TssVerif.Lemmas.AlgKeygen
import TssVerif.Lemmas.AlgToy
import TssVerif.Props.C01
/-! # C03 — key generation yields a consistent (t, n) sharing

"Key generation yields a consistent (t,n) sharing of one secret whose public key is the sum of all
contributions: every party's share matches its public share point, the public share points lie on one
polynomial of degree t through the public key, and any t+1 shares determine the secret."

Setting (every `Curve.Lawful` record `C`, `q = C.q` prime; any number of dealers and parties, any `t`):
* dealers `ds : List ι`, dealer `i` has coefficients `f i = [u_i, a_{i,1}, …, a_{i,t}]`;
  `F = Σ_i f_i` is `sumPoly q ds f : (ZMod q)[X]`;
* the party with id `k` ends with `share q ds f k = (Σ_i evalPoly q (f i) k) mod q` (round 3);
* commitments `V_i[c]` (points), combined `Vc[c] = Σ_i V_i[c]` (`combined`), and the public share point
  `pubShare C Vc t k = Vc[0] + Σ_{c=1..t} (k^c mod q)·Vc[c]` (`BigXj`, with the running product `zpow`).
Sums of points are `psum C` (a fold with `C.add`); no instance is needed to read the statements. -/
set_option autoImplicit false
set_option linter.style.haveILetI false
namespace TssVerif.C03
open TssVerif AlgL Polynomial

variable {P : Type} {C : Curve P} {ι : Type}

/-! ## honest run -/

/-- **Every party's share matches its public share point**: `x_k·G = BigX_k`. -/
theorem keygen_share_matches_public (hC : C.Lawful) (ds : List ι) (f : ι → List ℕ) (t : ℕ)
    (hlen : ∀ i ∈ ds, (f i).length = t + 1) (k : ℕ) :
    C.smul (share C.q ds f k) C.base = pubShare C (combined C ds (honestCommit C f)) t k :=
  feldman_sum hC ds (fun i => Vss.evalPoly C.q (f i) k) (honestCommit C f) t k
    (fun i hi => feldman_honest hC (f i) t (hlen i hi) k)

/-- **The public share points lie on `F`, through the public key, and nobody's contribution is dropped**:
`x_k = F(k)`, `BigX_k = F(k)·G`, `F(0)·G = Vc[0] = Σ_i u_i·G`, `F(0) = Σ_i u_i`, `deg F ≤ t`. -/
theorem keygen_public_points_on_polynomial (hC : C.Lawful) (ds : List ι) (f : ι → List ℕ) (t : ℕ)
    (hlen : ∀ i ∈ ds, (f i).length = t + 1) (k : ℕ) :
    share C.q ds f k = ((sumPoly C.q ds f).eval (k : ZMod C.q)).val ∧
    pubShare C (combined C ds (honestCommit C f)) t k =
      C.smul ((sumPoly C.q ds f).eval (k : ZMod C.q)).val C.base ∧
    C.smul ((sumPoly C.q ds f).eval 0).val C.base = combined C ds (honestCommit C f) 0 ∧
    combined C ds (honestCommit C f) 0 = psum C (ds.map fun i => C.smul ((f i).getD 0 0) C.base) ∧
    (sumPoly C.q ds f).eval 0 = (((ds.map fun i => (f i).getD 0 0).sum : ℕ) : ZMod C.q) ∧
    (sumPoly C.q ds f).degree < ((t + 1 : ℕ) : WithBot ℕ) := by
  haveI : Fact C.q.Prime := ⟨hC.q_prime⟩
  have hne : ∀ i ∈ ds, f i ≠ [] := fun i hi h => by
    have := hlen i hi; rw [h] at this; simp at this
  have hsh := share_eq_val (q := C.q) ds f hne k
  refine ⟨hsh, ?_, ?_, rfl, sumPoly_eval_zero ds f, ?_⟩
  · rw [← keygen_share_matches_public hC ds f t hlen k]
    exact congrArg (fun n => C.smul n C.base) hsh
  · show _ = psum C (ds.map fun i => C.smul ((f i).getD 0 0) C.base)
    rw [psum_smul_base hC, hC.smul_base_eq_iff, ← ZMod.natCast_eq_natCast_iff, ZMod.natCast_val,
      ZMod.cast_id', id, sumPoly_eval_zero]
  · exact sumPoly_degree_lt' ds f (t + 1) (t + 1) (fun i hi => le_of_eq (hlen i hi)) (le_refl _)

/-- **Any `t+1` (or more) parties determine the secret**: for party ids `ks` pairwise distinct modulo
`q`, at least `t+1` of them, (a) the `PrepareForSigning` weights of their shares sum to
`F(0) = Σu_i (mod q)`, and (b) `ReConstruct` on their shares returns `(Σu_i) mod q`. -/
theorem keygen_any_t1_interpolates {q : ℕ} [Fact q.Prime] (ds : List ι) (f : ι → List ℕ) (t : ℕ)
    (hlen : ∀ i ∈ ds, (f i).length = t + 1)
    (ks : List ℕ) (hn : t + 1 ≤ ks.length) (hnd : (ks.map (· % q)).Nodup) :
    (∀ ws : List ℕ, ws.length = ks.length →
      (∀ i < ks.length, Sign.weight q ks i (share q ds f (ks.getD i 0)) = some (ws.getD i 0)) →
      ws.sum % q = (ds.map fun i => (f i).getD 0 0).sum % q) ∧
    Vss.reconstruct q (ks.map fun k => ⟨t, k, share q ds f k⟩) =
      .ok ((ds.map fun i => (f i).getD 0 0).sum % q) := by
  have hne : ∀ i ∈ ds, f i ≠ [] := fun i hi h => by
    have := hlen i hi; rw [h] at this; simp at this
  have hdeg : (sumPoly q ds f).degree < (ks.length : ℕ) :=
    sumPoly_degree_lt' ds f (t + 1) ks.length (fun i hi => le_of_eq (hlen i hi)) hn
  have h0 : ((sumPoly q ds f).eval 0).val = (ds.map fun i => (f i).getD 0 0).sum % q := by
    rw [sumPoly_eval_zero, ZMod.val_natCast]
  constructor
  · intro ws hwl hw
    have := (C01.lagrange_weights_sum_list ks (ks.map fun k => share q ds f k) ws (sumPoly q ds f)
      hwl hdeg hnd (fun i hi => by
        rw [getD_map_of_lt ks _ 0 0 hi]
        exact share_cast ds f hne _)
      (fun i hi => by
        rw [getD_map_of_lt ks _ 0 0 hi]; exact hw i hi)).2
    rw [this, h0]
  · rw [← h0]
    apply Vss.reconstruct_eq_eval
    · intro h
      rw [List.map_eq_nil_iff] at h
      rw [h] at hn; simp at hn
    · intro s0 hs0
      rw [List.head?_map] at hs0
      cases hk : ks.head? with
      | none => rw [hk] at hs0; cases hs0
      | some k0 =>
        rw [hk] at hs0
        injection hs0 with hs0
        subst hs0
        rw [List.length_map]
        exact Nat.le_of_succ_le hn
    · rw [List.map_map]
      exact hnd
    · rw [List.length_map]; exact hdeg
    · intro sh hsh
      obtain ⟨k, _, rfl⟩ := List.mem_map.1 hsh
      exact share_cast ds f hne k

/-! ## whatever the dealers sent -/

/-- **Verification alone gives consistency** (arbitrary, possibly dishonest, dealt shares `s i` and
commitment vectors `Vi i` of arbitrary points): if every share satisfies the Feldman equation
`s_i·G = V_i[0] + Σ_{c=1..t}(k^c mod q)·V_i[c]`, then `(Σ_i s_i mod q)·G = BigX_k` computed from the
combined commitments. -/
theorem feldman_accept_implies_consistent (hC : C.Lawful) (ds : List ι) (s : ι → ℕ) (Vi : ι → ℕ → P)
    (t k : ℕ) (h : ∀ i ∈ ds, C.smul (s i) C.base = pubShare C (Vi i) t k) :
    C.smul ((ds.map s).sum % C.q) C.base = pubShare C (combined C ds Vi) t k :=
  feldman_sum hC ds s Vi t k h

/-- the same from the verifier of the code: if `Vss.verify` accepted every received share (all for my
id `k`), against the received coordinate lists `vss i`, then my summed share matches the public share
point of the combined commitments, the `V_i[c]` being the points those coordinates denote -/
theorem verify_accept_implies_consistent (hC : C.Lawful) (cfg : Vss.VerifyCfg) (ds : List ι) (t k : ℕ)
    (sh : ι → Vss.Share) (vss : ι → List ECPoint)
    (hid : ∀ i ∈ ds, (sh i).id = k)
    (hv : ∀ i ∈ ds, Vss.verify C cfg t (sh i) (vss i) = .ok true) :
    (∀ i ∈ ds, (vss i).length = t + 1 ∧ ∀ v ∈ vss i, C.ecIsOnCurve v = true) ∧
    C.smul ((ds.map fun i => (sh i).share).sum % C.q) C.base =
      pubShare C (combined C ds fun i c => ((vss i).map (liftD C)).getD c C.zero) t k := by
  have key : ∀ i ∈ ds, ((vss i).length = t + 1 ∧ ∀ v ∈ vss i, C.ecIsOnCurve v = true) ∧
      C.smul (sh i).share C.base =
        pubShare C (fun c => ((vss i).map (liftD C)).getD c C.zero) t k := by
    intro i hi
    obtain ⟨V, hV, hVl, _, heq⟩ := verify_true_feldman hC cfg t (sh i) (vss i) (hv i hi)
    rw [hid i hi, forall₂_lift_eq_map hV] at heq
    exact ⟨⟨by rw [hV.length_eq, hVl], forall₂_lift_onCurve hV⟩, heq⟩
  exact ⟨fun i hi => (key i hi).1,
    feldman_sum hC ds (fun i => (sh i).share) _ t k (fun i hi => (key i hi).2)⟩

/-- **Any `t+1` public share points interpolate to the combined constant term, whatever the dealers
sent** (a group all of whose points are killed by `q`): with the pure Lagrange coefficients
`λ_j = Sign.weight q ks j 1` of ids distinct modulo `q`, `Σ_j λ_j·BigX_{k_j} = Vc[0]`. Hence the shares
`x_j` that passed verification (`x_j·G = BigX_{k_j}`) interpolate, in the exponent, to the public key. -/
theorem public_shares_interpolate (hC : C.Lawful) (hord : ∀ p, C.smul C.q p = C.zero)
    (V : ℕ → P) (t : ℕ) (ks lam : List ℕ) (hlen : lam.length = ks.length) (ht : t < ks.length)
    (hnd : (ks.map (· % C.q)).Nodup)
    (hlam : ∀ j < ks.length, Sign.weight C.q ks j 1 = some (lam.getD j 0)) :
    psum C ((List.range ks.length).map fun j =>
      C.smul (lam.getD j 0) (pubShare C V t (ks.getD j 0))) = V 0 := by
  haveI : Fact C.q.Prime := ⟨hC.q_prime⟩
  exact pubShare_combination hC hord V t ks lam hlen (fun c hc =>
    lagrange_coeff_pow ks lam (injOn_of_nodup ks hnd) hlam c (by omega))

/-! ## Non-vacuity: two dealers, `t = 1`, ids `1, 2, 3`, on the toy curves of order 23

`f_0 = 5 + 7X`, `f_1 = 3 + 2X`, `F = 8 + 9X`: shares `17, 3, 12`; `PK = 8·G`. -/
section examples

instance fact23 : Fact (Nat.Prime 23) := ⟨by decide⟩

abbrev E := zmodCurve 23
abbrev W := zmodCurveW 23

def f2 : ℕ → List ℕ
  | 0 => [5, 7]
  | _ => [3, 2]

example : share 23 [0, 1] f2 1 = 17 ∧ share 23 [0, 1] f2 2 = 3 ∧ share 23 [0, 1] f2 3 = 12 := by decide

/-- share 2 matches its public share point (theorem, then the model run of both sides) -/
example : W.smul (share 23 [0, 1] f2 2) W.base =
    pubShare W (combined W [0, 1] (honestCommit W f2)) 1 2 :=
  keygen_share_matches_public (zmodCurveW_lawful 23) [0, 1] f2 1 (by decide) 2
example : W.smul 3 W.base = 3 ∧ pubShare W (combined W [0, 1] (honestCommit W f2)) 1 2 = 3 := by decide

/-- the public key is `(5 + 3)·G` -/
example : combined W [0, 1] (honestCommit W f2) 0 = W.smul 8 W.base := by decide

/-- parties 1 and 3 interpolate: weights `3·2⁻¹·17`, `1·(−2)⁻¹·12`, and `ReConstruct` -/
example : Sign.weight 23 [1, 3] 0 17 = some 14 ∧ Sign.weight 23 [1, 3] 1 12 = some 17 ∧
    (14 + 17) % 23 = 8 := by decide
example : Vss.reconstruct 23 ([1, 3].map fun k => ⟨1, k, share 23 [0, 1] f2 k⟩) = .ok ((5 + 3) % 23) :=
  (keygen_any_t1_interpolates (q := 23) [0, 1] f2 1 (by decide) [1, 3] (by decide) (by decide)).2
example : ([14, 17] : List ℕ).sum % 23 = ([0, 1].map fun i => (f2 i).getD 0 0).sum % 23 :=
  (keygen_any_t1_interpolates (q := 23) [0, 1] f2 1 (by decide) [1, 3] (by decide) (by decide)).1
    [14, 17] rfl (by decide)

/-- a dishonest dealer 1 commits to `3 + 2X` but sends party 2 the share of `3 + 2X` anyway while
dealer 0 commits to points unrelated to any polynomial it knows: acceptance is all that matters -/
example : W.smul ((([0, 1] : List ℕ).map fun i => if i = 0 then 19 else 7).sum % 23) W.base =
    pubShare W (combined W [0, 1] fun i c => if i = 0 then (if c = 0 then 5 else 7) else
      (if c = 0 then 3 else 2)) 1 2 :=
  feldman_accept_implies_consistent (zmodCurveW_lawful 23) [0, 1] (fun i => if i = 0 then 19 else 7) _ 1 2
    (by decide)

/-- through the verifier of the code -/
example : W.smul ((([0, 1] : List ℕ).map fun i =>
      ((fun i => if i = 0 then (⟨1, 2, 19⟩ : Vss.Share) else ⟨1, 2, 7⟩) i).share).sum % 23) W.base =
    pubShare W (combined W [0, 1] fun i c =>
      (((fun i => if i = 0 then [((5 : ℕ), (0 : ℕ)), (7, 0)] else [(3, 0), (2, 0)]) i).map
        (liftD W)).getD c W.zero) 1 2 :=
  (verify_accept_implies_consistent (zmodCurveW_lawful 23) OpsCrypto.curVss [0, 1] 1 2
    (fun i => if i = 0 then ⟨1, 2, 19⟩ else ⟨1, 2, 7⟩)
    (fun i => if i = 0 then [(5, 0), (7, 0)] else [(3, 0), (2, 0)]) (by decide) (by decide)).2

/-- interpolation in the exponent with arbitrary points `V_0 = 8, V_1 = 9` and ids `1, 3`:
`λ = (13, 11)` -/
example : Sign.weight 23 [1, 3] 0 1 = some 13 ∧ Sign.weight 23 [1, 3] 1 1 = some 11 := by decide
example : psum W ((List.range 2).map fun j =>
    W.smul (([13, 11] : List ℕ).getD j 0) (pubShare W (fun c => if c = 0 then 8 else 9) 1
      (([1, 3] : List ℕ).getD j 0))) = 8 :=
  public_shares_interpolate (zmodCurveW_lawful 23) (zmodCurveW_order 23) _ 1 [1, 3] [13, 11] rfl
    (by decide) (by decide) (by decide)

end examples

end TssVerif.C03
