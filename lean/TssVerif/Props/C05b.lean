import TssVerif.Lemmas.C05Ec
/-! # C05b — one deviating participant in ECDSA key generation rounds 2 and 3: who is named

The objects are the round-level models of `Core/BlameEc.lean`: `round2` (`ecdsa/keygen/round_2.go`: sequential
structural checks on every stored round-1 message — the party's own included —, duplicate detection of
`h1`/`h2` across parties, then the verdicts of the DLN-proof jobs handed to the verifier pool) and
`checkPeer` / `round3` (`round_3.go`: per peer the de-commitment, the decoding of the commitment points, the
modulus proof, the Feldman share check, the no-small-factor proof; EVERY failing peer is named).

Everything holds for every hash function `H`, every parser configuration `pcfg` (the no-panic and
totality theorems are stated for the current one), every curve record `C` (`C.Lawful` only for
`r3_no_panic`), and unboundedly many messages / peers.

Round 2
* `r2_pass_iff`, `r2_scan_none_spawns_all` — the round passes iff no structural check fails and all DLN proofs
  are accepted (no hypothesis is needed: a result `.ok _` already means that every job returned a verdict);
* `r2_culprits_are_senders` — whoever is named sent one of the stored messages;
* `r2_structural_blames_sender`, `r2_duplicateCulprits` — a size/shape failure names the sender; a clash names
  the OTHER party when one of the two clashing messages is the reporting party's own, and nobody otherwise;
* `HonestOthers` — the hypotheses "every party except `dev` is honest" as far as round 2 sees them;
  `r2_single_deviator` (errors name nobody but the deviator), `r2_covered_alteration_blamed` (an invalid DLN
  proof), `r2_bad_size_blamed`, `r2_duplicate_with_own_blames_other`, `r2_duplicate_with_third_names_nobody`
  (both in either order of the two messages), `r2_duplicate_general`;
* `r2_no_panic`, `r2_dev_jobs_return`, `r2_returns` — on the current tree the pool jobs and the round always
  return a verdict.

Round 3
* `r3_culprit_iff`, `r3_culprits_sublist`, `r3_never_names_self`, `r3_single_deviator_blamed_exactly`;
* `checkPeer_pass_iff` and the four covered-alteration theorems `r3_bad_decommit_blamed`, `r3_bad_mod_blamed`,
  `r3_bad_share_blamed`, `r3_bad_fac_blamed`, collected in `r3_covered_alteration_blamed`;
* `r3_no_panic` (hypotheses: `C.Lawful`, cofactor 1 on a curve whose identity has no affine form, non-empty
  de-commitments — needed: `r3_empty_decommitment_panics_witness`). -/
set_option autoImplicit false
namespace TssVerif.C05b
open TssVerif BlameEc C05EcL C06L

/-! ## Round 2 -/
section r2
variable (H : HashFn) (pcfg : ParseCfg)

/-- **R2.1** the round passes iff the loop finds no structural failure and both DLN proofs of every message
handed to the pool are accepted. (Stronger than asked: the side condition "every job returns a verdict" is
not needed, it follows from either side.) -/
theorem r2_pass_iff (own : Nat) (msgs : List R1Msg) :
    round2 H pcfg own msgs = .ok .pass ↔
      (scan own [] msgs).2 = none ∧
      ∀ m ∈ (scan own [] msgs).1, dlnCheck H pcfg m.dln1 m.h1 m.h2 m.nTilde = .ok true ∧
        dlnCheck H pcfg m.dln2 m.h2 m.h1 m.nTilde = .ok true :=
  round2_pass_iff own msgs

/-- without a structural failure every stored message is handed to the pool -/
theorem r2_scan_none_spawns_all (own : Nat) (msgs : List R1Msg) (h : (scan own [] msgs).2 = none) :
    (scan own [] msgs).1 = msgs := by
  rcases scan_cases own msgs [] with ⟨h1, _⟩ | ⟨_, _, _, _, _, h2, _, _⟩
  · rw [h1]
  · rw [h2] at h; cases h

/-- … so: pass ⟺ no structural failure and every stored message (the party's own too) has two valid proofs -/
theorem r2_pass_iff_all (own : Nat) (msgs : List R1Msg) :
    round2 H pcfg own msgs = .ok .pass ↔
      (scan own [] msgs).2 = none ∧
      ∀ m ∈ msgs, dlnCheck H pcfg m.dln1 m.h1 m.h2 m.nTilde = .ok true ∧
        dlnCheck H pcfg m.dln2 m.h2 m.h1 m.nTilde = .ok true := by
  rw [r2_pass_iff]
  constructor
  · rintro ⟨h1, h2⟩
    exact ⟨h1, by rw [r2_scan_none_spawns_all own msgs h1] at h2; exact h2⟩
  · rintro ⟨h1, h2⟩
    exact ⟨h1, by rw [r2_scan_none_spawns_all own msgs h1]; exact h2⟩

/-- **R2.2** every culprit is the sender of one of the stored messages -/
theorem r2_culprits_are_senders (own : Nat) (msgs : List R1Msg) (why : String) (cs : List Nat)
    (h : round2 H pcfg own msgs = .ok (.fail why cs)) : ∀ c ∈ cs, ∃ m ∈ msgs, m.idx = c :=
  round2_culprits_are_senders own msgs why cs h

/-- **R2.3a** the three size/shape failures name the sender of the message -/
theorem r2_structural_blames_sender (own : Nat) (seen : List (Nat × Nat)) (m : R1Msg) (why : String)
    (cs : List Nat) (h : structural own seen m = some (why, cs))
    (hw : why = "got paillier modulus with insufficient bits for this party" ∨
      why = "h1j and h2j were equal for this party" ∨
      why = "got NTildej with insufficient bits for this party") : cs = [m.idx] := by
  rcases structural_some_cases own seen m why cs h with ⟨_, hcs, _⟩ | ⟨_, hd, _⟩
  · exact hcs
  · exfalso
    rcases hd with hd | hd <;> rcases hw with hw | hw | hw <;>
      exact absurd (hd.symm.trans hw) (by decide)

/-- … and conversely a failure is either one of these three (culprit: the sender) or a duplicate (culprits:
`duplicateCulprits` of the sender and the index stored with the clashing value) -/
theorem r2_structural_failure_cases (own : Nat) (seen : List (Nat × Nat)) (m : R1Msg) (why : String)
    (cs : List Nat) (h : structural own seen m = some (why, cs)) :
    (cs = [m.idx] ∧ (why = "got paillier modulus with insufficient bits for this party" ∨
      why = "h1j and h2j were equal for this party" ∨
      why = "got NTildej with insufficient bits for this party")) ∨
    ((why = "this h1j was already used by another party" ∨
        why = "this h2j was already used by another party") ∧
      ∃ k, ((m.h1, k) ∈ seen ∨ (m.h2, k) ∈ seen) ∧ cs = duplicateCulprits own m.idx k) := by
  rcases structural_some_cases own seen m why cs h with ⟨_, hcs, hw⟩ | ⟨_, hd, hk⟩
  · exact Or.inl ⟨hcs, hw⟩
  · exact Or.inr ⟨hd, hk⟩

/-- **R2.3b** `duplicateCulprits own j k`: a subset of `{j, k}` that never contains `own` (whether or not
`j = k`); it is `[k]` when `j = own ≠ k`, `[j]` when `k = own ≠ j`, and empty otherwise -/
theorem r2_duplicateCulprits (own j k : Nat) :
    (∀ c ∈ duplicateCulprits own j k, c = j ∨ c = k) ∧
    own ∉ duplicateCulprits own j k ∧
    (j = own → k ≠ own → duplicateCulprits own j k = [k]) ∧
    (k = own → j ≠ own → duplicateCulprits own j k = [j]) ∧
    (j ≠ own → k ≠ own → duplicateCulprits own j k = []) ∧
    (j = own → k = own → duplicateCulprits own j k = []) :=
  ⟨dup_subset own j k, dup_not_own own j k, fun hj hk => by subst hj; exact dup_own_left hk,
    fun hk hj => by subst hk; exact dup_own_right hj, fun hj hk => dup_neither hj hk,
    fun hj hk => by subst hj hk; exact dup_both⟩

/-! ### one deviator -/

/-- **every party other than `dev` is honest**, as far as round 2 of the party `own` sees it: the indices of
the stored messages are pairwise distinct; every message not from `dev` (so also `own`'s) has a 2048-bit
Paillier modulus, `h1 ≠ h2`, a 2048-bit `NTilde` and two DLN proofs that the pool accepts; and no two such
messages share a value `h1`/`h2` -/
structure HonestOthers (own dev : Nat) (msgs : List R1Msg) : Prop where
  dev_ne_own : dev ≠ own
  idx_distinct : (msgs.map (·.idx)).Nodup
  sizes : ∀ m ∈ msgs, m.idx ≠ dev → bitLen m.paillierN = 2048 ∧ m.h1 ≠ m.h2 ∧ bitLen m.nTilde = 2048
  no_clash : ∀ m ∈ msgs, ∀ m' ∈ msgs, m.idx ≠ dev → m'.idx ≠ dev → m.idx ≠ m'.idx →
    m.h1 ≠ m'.h1 ∧ m.h1 ≠ m'.h2 ∧ m.h2 ≠ m'.h1 ∧ m.h2 ≠ m'.h2
  dln : ∀ m ∈ msgs, m.idx ≠ dev → dlnCheck H pcfg m.dln1 m.h1 m.h2 m.nTilde = .ok true ∧
    dlnCheck H pcfg m.dln2 m.h2 m.h1 m.nTilde = .ok true

/-- the two pool jobs on the deviator's message return a verdict (they always do on the current tree:
`r2_no_panic` excludes a crash; an error is excluded by the pool only running on well-formed parts) -/
def DevJobsReturn (dev : Nat) (msgs : List R1Msg) : Prop :=
  ∀ m ∈ msgs, m.idx = dev → (∃ b, dlnCheck H pcfg m.dln1 m.h1 m.h2 m.nTilde = .ok b) ∧
    ∃ b, dlnCheck H pcfg m.dln2 m.h2 m.h1 m.nTilde = .ok b

variable {H pcfg}

theorem HonestOthers.oneDev {own dev : Nat} {msgs : List R1Msg} (h : HonestOthers H pcfg own dev msgs) :
    OneDev own dev msgs :=
  ⟨h.dev_ne_own, h.idx_distinct, h.sizes, fun m hm m' hm' h1 h2 h3 hc => by
    obtain ⟨a, b, c, d⟩ := h.no_clash m hm m' hm' h1 h2 h3
    rcases hc with hc | hc | hc | hc
    · exact a hc
    · exact b hc
    · exact c hc
    · exact d hc⟩

theorem HonestOthers.dlnOk {own dev : Nat} {msgs : List R1Msg} (h : HonestOthers H pcfg own dev msgs)
    (hj : DevJobsReturn H pcfg dev msgs) : DlnOk H pcfg dev msgs := ⟨h.dln, hj⟩

/-- **R2.4 errors name nobody but the deviator**: the round passes, or fails naming at most `dev` -/
theorem r2_single_deviator {own dev : Nat} {msgs : List R1Msg} (hh : HonestOthers H pcfg own dev msgs)
    (hj : DevJobsReturn H pcfg dev msgs) :
    round2 H pcfg own msgs = .ok .pass ∨
      ∃ why cs, round2 H pcfg own msgs = .ok (.fail why cs) ∧ ∀ c ∈ cs, c = dev :=
  round2_single_deviator hh.oneDev (hh.dlnOk hj)

/-- **R2.5 an invalid DLN proof is blamed on its sender**: no structural failure, and one of the two jobs on
the deviator's message says "invalid". (Of `HonestOthers` only the field `dln` is used.) -/
theorem r2_covered_alteration_blamed {own dev : Nat} {msgs : List R1Msg}
    (hh : HonestOthers H pcfg own dev msgs) (hj : DevJobsReturn H pcfg dev msgs)
    (hscan : (scan own [] msgs).2 = none) (md : R1Msg) (hmd : md ∈ msgs) (hdev : md.idx = dev)
    (hbad : dlnCheck H pcfg md.dln1 md.h1 md.h2 md.nTilde = .ok false ∨
      dlnCheck H pcfg md.dln2 md.h2 md.h1 md.nTilde = .ok false) :
    round2 H pcfg own msgs = .ok (.fail "dln proof verification failed" [dev]) :=
  round2_bad_dln (hh.dlnOk hj) hscan hmd hdev hbad

/-- **R2.6 a wrong size or `h1 = h2` is blamed on its sender** (no hypothesis on the deviator's proofs: they
are never handed to the pool) -/
theorem r2_bad_size_blamed {own dev : Nat} {msgs : List R1Msg} (hh : HonestOthers H pcfg own dev msgs)
    (md : R1Msg) (hmd : md ∈ msgs) (hdev : md.idx = dev)
    (hbad : bitLen md.paillierN ≠ 2048 ∨ md.h1 = md.h2 ∨ bitLen md.nTilde ≠ 2048) :
    ∃ why, round2 H pcfg own msgs = .ok (.fail why [dev]) ∧
      (why = "got paillier modulus with insufficient bits for this party" ∨
        why = "h1j and h2j were equal for this party" ∨
        why = "got NTildej with insufficient bits for this party") :=
  round2_bad_size hh.oneDev hh.dln hmd hdev (fun ⟨a, b, c⟩ => by
    rcases hbad with h | h | h
    · exact h a
    · exact b h
    · exact h c)

/-- **R2.7, general form**: the deviator's (structurally fine) message shares a value with an honest one.
Then the round fails with a duplicate error whose culprits are `duplicateCulprits` applied to `dev` and the
index of an honest message `other` sharing a value with the deviator's — in the order in which the loop met
the two -/
theorem r2_duplicate_general {own dev : Nat} {msgs : List R1Msg} (hh : HonestOthers H pcfg own dev msgs)
    (hj : DevJobsReturn H pcfg dev msgs) (md mx : R1Msg) (hmd : md ∈ msgs) (hdev : md.idx = dev)
    (hsz : bitLen md.paillierN = 2048 ∧ md.h1 ≠ md.h2 ∧ bitLen md.nTilde = 2048)
    (hmx : mx ∈ msgs) (hx : mx.idx ≠ dev)
    (hc : md.h1 = mx.h1 ∨ md.h1 = mx.h2 ∨ md.h2 = mx.h1 ∨ md.h2 = mx.h2) :
    ∃ why cs other, round2 H pcfg own msgs = .ok (.fail why cs) ∧
      (why = "this h1j was already used by another party" ∨
        why = "this h2j was already used by another party") ∧
      other ∈ msgs ∧ other.idx ≠ dev ∧
      (md.h1 = other.h1 ∨ md.h1 = other.h2 ∨ md.h2 = other.h1 ∨ md.h2 = other.h2) ∧
      (cs = duplicateCulprits own dev other.idx ∨ cs = duplicateCulprits own other.idx dev) :=
  round2_clash hh.oneDev (hh.dlnOk hj) hmd hdev hsz hmx hx hc

/-- **R2.7a copying a value of the reporting party is blamed on the copier**, whichever of the two messages
is stored first. `hthird`: the deviator's message shares no value with a third party's (otherwise the
lookup may find that one first, see `r2_duplicate_with_third_names_nobody`) -/
theorem r2_duplicate_with_own_blames_other {own dev : Nat} {msgs : List R1Msg}
    (hh : HonestOthers H pcfg own dev msgs) (hj : DevJobsReturn H pcfg dev msgs)
    (md mo : R1Msg) (hmd : md ∈ msgs) (hdev : md.idx = dev)
    (hsz : bitLen md.paillierN = 2048 ∧ md.h1 ≠ md.h2 ∧ bitLen md.nTilde = 2048)
    (hmo : mo ∈ msgs) (hown : mo.idx = own)
    (hc : md.h1 = mo.h1 ∨ md.h1 = mo.h2 ∨ md.h2 = mo.h1 ∨ md.h2 = mo.h2)
    (hthird : ∀ m ∈ msgs, m.idx ≠ dev → m.idx ≠ own →
      md.h1 ≠ m.h1 ∧ md.h1 ≠ m.h2 ∧ md.h2 ≠ m.h1 ∧ md.h2 ≠ m.h2) :
    ∃ why, round2 H pcfg own msgs = .ok (.fail why [dev]) ∧
      (why = "this h1j was already used by another party" ∨
        why = "this h2j was already used by another party") :=
  round2_clash_with_own hh.oneDev (hh.dlnOk hj) hmd hdev hsz hmo hown hc (fun m hm h1 h2 hcl => by
    obtain ⟨a, b, c, d⟩ := hthird m hm h1 h2
    rcases hcl with h | h | h | h
    · exact a h
    · exact b h
    · exact c h
    · exact d h)

/-- **R2.7b copying a value of a third party names nobody** — whether the third party's message is stored
before or after the deviator's. `hnown`: the deviator's message shares no value with the reporting party's -/
theorem r2_duplicate_with_third_names_nobody {own dev : Nat} {msgs : List R1Msg}
    (hh : HonestOthers H pcfg own dev msgs) (hj : DevJobsReturn H pcfg dev msgs)
    (md mt : R1Msg) (hmd : md ∈ msgs) (hdev : md.idx = dev)
    (hsz : bitLen md.paillierN = 2048 ∧ md.h1 ≠ md.h2 ∧ bitLen md.nTilde = 2048)
    (hmt : mt ∈ msgs) (ht : mt.idx ≠ dev)
    (hc : md.h1 = mt.h1 ∨ md.h1 = mt.h2 ∨ md.h2 = mt.h1 ∨ md.h2 = mt.h2)
    (hnown : ∀ m ∈ msgs, m.idx = own → md.h1 ≠ m.h1 ∧ md.h1 ≠ m.h2 ∧ md.h2 ≠ m.h1 ∧ md.h2 ≠ m.h2) :
    ∃ why, round2 H pcfg own msgs = .ok (.fail why []) ∧
      (why = "this h1j was already used by another party" ∨
        why = "this h2j was already used by another party") :=
  round2_clash_with_third hh.oneDev (hh.dlnOk hj) hmd hdev hsz hmt ht hc (fun m hm h1 hcl => by
    obtain ⟨a, b, c, d⟩ := hnown m hm h1
    rcases hcl with h | h | h | h
    · exact a h
    · exact b h
    · exact c h
    · exact d h)

/-- **R2.8 round 2 never crashes** on the current tree, whatever is stored -/
theorem r2_no_panic (H : HashFn) (own : Nat) (msgs : List R1Msg) (tag : String) :
    round2 H Ops16.curParse own msgs ≠ .panic tag :=
  round2_noPanic H own msgs tag

/-- … more: every pool job returns a verdict (a proof that does not decode counts as invalid, the verifier
answers yes or no), so `DevJobsReturn` always holds on the current tree and the round always returns -/
theorem r2_dev_jobs_return (H : HashFn) (dev : Nat) (msgs : List R1Msg) :
    DevJobsReturn H Ops16.curParse dev msgs :=
  fun _ _ _ => ⟨dlnCheck_total H _ _ _ _, dlnCheck_total H _ _ _ _⟩

theorem r2_returns (H : HashFn) (own : Nat) (msgs : List R1Msg) :
    ∃ v, round2 H Ops16.curParse own msgs = .ok v :=
  ⟨_, round2_of_checks_ok H _ own msgs (fun _ _ => dlnCheck_total H _ _ _ _)
    (fun _ _ => dlnCheck_total H _ _ _ _)⟩

end r2

/-! ## Round 3 -/
section r3
variable {P : Type} (C : Curve P) (H : HashFn)
variable (zcfg : Zk.Cfg) (vcfg : Vss.VerifyCfg) (noMod noFac : Bool) (threshold ownId : Nat) (ssid : Bytes)
  (nt h1 h2 : Nat)

/-- **R3.1 exactly the failing peers are named** -/
theorem r3_culprit_iff (peers : List R2Peer) (cs : List Nat)
    (h : round3 C H zcfg vcfg noMod noFac threshold ownId ssid nt h1 h2 peers = .ok cs) (j : Nat) :
    j ∈ cs ↔ ∃ p ∈ peers, p.idx = j ∧
      ∃ why, checkPeer C H zcfg vcfg noMod noFac threshold ownId ssid nt h1 h2 p = .ok (some why) := by
  rw [round3_ok C H zcfg vcfg noMod noFac threshold ownId ssid nt h1 h2 peers cs h, List.mem_map]
  constructor
  · rintro ⟨p, hp, rfl⟩
    obtain ⟨hp1, hp2⟩ := List.mem_filter.1 hp
    exact ⟨p, hp1, rfl, (isCulprit_iff _).1 hp2⟩
  · rintro ⟨p, hp, rfl, hw⟩
    exact ⟨p, List.mem_filter.2 ⟨hp, (isCulprit_iff _).2 hw⟩, rfl⟩

/-- **R3.2 the names are a sub-list of the peer indices** (peer order is preserved; no duplicates when the
indices are distinct) -/
theorem r3_culprits_sublist (peers : List R2Peer) (cs : List Nat)
    (h : round3 C H zcfg vcfg noMod noFac threshold ownId ssid nt h1 h2 peers = .ok cs) :
    cs.Sublist (peers.map (·.idx)) ∧ ((peers.map (·.idx)).Nodup → cs.Nodup) := by
  have hsub : cs.Sublist (peers.map (·.idx)) := by
    rw [round3_ok C H zcfg vcfg noMod noFac threshold ownId ssid nt h1 h2 peers cs h]
    exact (List.filter_sublist).map _
  exact ⟨hsub, fun hnd => hnd.sublist hsub⟩

/-- in particular the party never names itself (its own index is not among the peers') -/
theorem r3_never_names_self (peers : List R2Peer) (cs : List Nat) (self : Nat)
    (hself : ∀ p ∈ peers, p.idx ≠ self)
    (h : round3 C H zcfg vcfg noMod noFac threshold ownId ssid nt h1 h2 peers = .ok cs) : self ∉ cs := by
  intro hm
  obtain ⟨p, hp, he⟩ := List.mem_map.1
    ((r3_culprits_sublist C H zcfg vcfg noMod noFac threshold ownId ssid nt h1 h2 peers cs h).1.subset hm)
  exact hself p hp he

/-- **R3.3 exactly the deviator is named**: every peer other than `dev` passes; if `dev`'s record fails
(indices distinct) the round returns `[dev]`, if it passes too the round returns `[]` -/
theorem r3_single_deviator_blamed_exactly (peers : List R2Peer) (dev : Nat)
    (hothers : ∀ p ∈ peers, p.idx ≠ dev →
      checkPeer C H zcfg vcfg noMod noFac threshold ownId ssid nt h1 h2 p = .ok none) :
    (∀ d ∈ peers, d.idx = dev → (peers.map (·.idx)).Nodup →
      (∃ why, checkPeer C H zcfg vcfg noMod noFac threshold ownId ssid nt h1 h2 d = .ok (some why)) →
      round3 C H zcfg vcfg noMod noFac threshold ownId ssid nt h1 h2 peers = .ok [dev]) ∧
    ((∀ d ∈ peers, d.idx = dev →
      checkPeer C H zcfg vcfg noMod noFac threshold ownId ssid nt h1 h2 d = .ok none) →
      round3 C H zcfg vcfg noMod noFac threshold ownId ssid nt h1 h2 peers = .ok []) :=
  round3_single_deviator C H zcfg vcfg noMod noFac threshold ownId ssid nt h1 h2 peers dev hothers

/-- **R3.4 exact pass condition of the per-peer check**: the de-commitment opens the round-1 commitment, the
opened values are curve points `vs`, the modulus proof decodes and verifies under `ssid ‖ bytes(idx)` — or
does not decode and `noMod` is set —, the share passes the Feldman check against `vs`, and the same for the
no-small-factor proof -/
theorem checkPeer_pass_iff (p : R2Peer) :
    checkPeer C H zcfg vcfg noMod noFac threshold ownId ssid nt h1 h2 p = .ok none ↔
      ∃ flat vs, decommitWith H p.commitment (p.decommitment.map Int.ofNat) = .ok (some flat) ∧
        C.unflatten (flat.map Int.toNat) = some vs ∧
        ((∃ w xs a b zs, modFromBytes p.modProof = some (w, xs, a, b, zs) ∧
            Zk.modVerify zcfg H (Blame.contextJ ssid p.idx) w (xs.map Int.ofNat) a b (zs.map Int.ofNat)
              p.paillierN = .ok true) ∨
          (modFromBytes p.modProof = none ∧ noMod = true)) ∧
        Vss.verify C vcfg threshold ⟨threshold, ownId, p.share⟩ vs = .ok true ∧
        ((∃ pf, facFromBytes p.facProof = some pf ∧
            Zk.facVerify zcfg H C.q (Blame.contextJ ssid p.idx) p.paillierN nt h1 h2 pf = .ok true) ∨
          (facFromBytes p.facProof = none ∧ noFac = true)) := by
  rw [checkPeer_none_iff, modOutcome_iff, facOutcome_iff]

/-- the de-commitment does not open the commitment of round 1 -/
theorem r3_bad_decommit_blamed (p : R2Peer)
    (h : decommitWith H p.commitment (p.decommitment.map Int.ofNat) = .ok none) :
    checkPeer C H zcfg vcfg noMod noFac threshold ownId ssid nt h1 h2 p =
      .ok (some "de-commitment verify failed") :=
  checkPeer_decommit_none C H zcfg vcfg noMod noFac threshold ownId ssid nt h1 h2 p h

/-- the opened values are not curve points (a format failure, also blamed) -/
theorem r3_bad_points_blamed (p : R2Peer) (flat : List Int)
    (hd : decommitWith H p.commitment (p.decommitment.map Int.ofNat) = .ok (some flat))
    (hu : C.unflatten (flat.map Int.toNat) = none) :
    checkPeer C H zcfg vcfg noMod noFac threshold ownId ssid nt h1 h2 p = .ok (some "unflatten") :=
  checkPeer_unflatten_none C H zcfg vcfg noMod noFac threshold ownId ssid nt h1 h2 p flat hd hu

/-- the modulus proof decodes but the verifier rejects it (altered proof, altered Paillier modulus, or a
proof made for another index or session) — or it does not decode and the party does not tolerate that -/
theorem r3_bad_mod_blamed (p : R2Peer) (flat : List Int) (vs : List ECPoint)
    (hd : decommitWith H p.commitment (p.decommitment.map Int.ofNat) = .ok (some flat))
    (hu : C.unflatten (flat.map Int.toNat) = some vs)
    (hm : (∃ w xs a b zs, modFromBytes p.modProof = some (w, xs, a, b, zs) ∧
        Zk.modVerify zcfg H (Blame.contextJ ssid p.idx) w (xs.map Int.ofNat) a b (zs.map Int.ofNat)
          p.paillierN = .ok false) ∨
      (modFromBytes p.modProof = none ∧ noMod = false)) :
    checkPeer C H zcfg vcfg noMod noFac threshold ownId ssid nt h1 h2 p =
      .ok (some "modProof verify failed") := by
  rw [checkPeer_points C H zcfg vcfg noMod noFac threshold ownId ssid nt h1 h2 p flat vs hd hu]
  exact peerTail_bad_mod C H zcfg vcfg noMod noFac threshold ownId ssid nt h1 h2 p vs
    ((modOutcome_iff H zcfg noMod ssid p false).2 hm)

/-- the earlier steps pass and the share fails the Feldman check -/
theorem r3_bad_share_blamed (p : R2Peer) (flat : List Int) (vs : List ECPoint)
    (hd : decommitWith H p.commitment (p.decommitment.map Int.ofNat) = .ok (some flat))
    (hu : C.unflatten (flat.map Int.toNat) = some vs)
    (hm : (∃ w xs a b zs, modFromBytes p.modProof = some (w, xs, a, b, zs) ∧
        Zk.modVerify zcfg H (Blame.contextJ ssid p.idx) w (xs.map Int.ofNat) a b (zs.map Int.ofNat)
          p.paillierN = .ok true) ∨
      (modFromBytes p.modProof = none ∧ noMod = true))
    (hv : Vss.verify C vcfg threshold ⟨threshold, ownId, p.share⟩ vs = .ok false) :
    checkPeer C H zcfg vcfg noMod noFac threshold ownId ssid nt h1 h2 p = .ok (some "vss verify failed") := by
  rw [checkPeer_points C H zcfg vcfg noMod noFac threshold ownId ssid nt h1 h2 p flat vs hd hu]
  exact peerTail_bad_share C H zcfg vcfg noMod noFac threshold ownId ssid nt h1 h2 p vs
    ((modOutcome_iff H zcfg noMod ssid p true).2 hm) hv

/-- the earlier steps pass and the no-small-factor proof decodes but is rejected — or it does not decode and
the party does not tolerate that -/
theorem r3_bad_fac_blamed (p : R2Peer) (flat : List Int) (vs : List ECPoint)
    (hd : decommitWith H p.commitment (p.decommitment.map Int.ofNat) = .ok (some flat))
    (hu : C.unflatten (flat.map Int.toNat) = some vs)
    (hm : (∃ w xs a b zs, modFromBytes p.modProof = some (w, xs, a, b, zs) ∧
        Zk.modVerify zcfg H (Blame.contextJ ssid p.idx) w (xs.map Int.ofNat) a b (zs.map Int.ofNat)
          p.paillierN = .ok true) ∨
      (modFromBytes p.modProof = none ∧ noMod = true))
    (hv : Vss.verify C vcfg threshold ⟨threshold, ownId, p.share⟩ vs = .ok true)
    (hf : (∃ pf, facFromBytes p.facProof = some pf ∧
        Zk.facVerify zcfg H C.q (Blame.contextJ ssid p.idx) p.paillierN nt h1 h2 pf = .ok false) ∨
      (facFromBytes p.facProof = none ∧ noFac = false)) :
    checkPeer C H zcfg vcfg noMod noFac threshold ownId ssid nt h1 h2 p =
      .ok (some "facProof verify failed") := by
  rw [checkPeer_points C H zcfg vcfg noMod noFac threshold ownId ssid nt h1 h2 p flat vs hd hu]
  exact peerTail_bad_fac C H zcfg vcfg noMod noFac threshold ownId ssid nt h1 h2 p vs
    ((modOutcome_iff H zcfg noMod ssid p true).2 hm) hv ((facOutcome_iff C H zcfg noFac ssid nt h1 h2 p false).2 hf)

/-- one of the four covered checks fails on the messages of `p` -/
inductive R3CoveredFailure (C : Curve P) (H : HashFn) (zcfg : Zk.Cfg) (vcfg : Vss.VerifyCfg) (noMod : Bool)
    (threshold ownId : Nat) (ssid : Bytes) (nt h1 h2 : Nat) (p : R2Peer) : Prop
  | decommit (h : decommitWith H p.commitment (p.decommitment.map Int.ofNat) = .ok none)
  | mod (flat : List Int) (vs : List ECPoint) (w : Nat) (xs : List Nat) (a b : Nat) (zs : List Nat)
      (hd : decommitWith H p.commitment (p.decommitment.map Int.ofNat) = .ok (some flat))
      (hu : C.unflatten (flat.map Int.toNat) = some vs)
      (hdec : modFromBytes p.modProof = some (w, xs, a, b, zs))
      (hm : Zk.modVerify zcfg H (Blame.contextJ ssid p.idx) w (xs.map Int.ofNat) a b (zs.map Int.ofNat)
        p.paillierN = .ok false)
  | share (flat : List Int) (vs : List ECPoint)
      (hd : decommitWith H p.commitment (p.decommitment.map Int.ofNat) = .ok (some flat))
      (hu : C.unflatten (flat.map Int.toNat) = some vs)
      (hm : (∃ w xs a b zs, modFromBytes p.modProof = some (w, xs, a, b, zs) ∧
          Zk.modVerify zcfg H (Blame.contextJ ssid p.idx) w (xs.map Int.ofNat) a b (zs.map Int.ofNat)
            p.paillierN = .ok true) ∨
        (modFromBytes p.modProof = none ∧ noMod = true))
      (hv : Vss.verify C vcfg threshold ⟨threshold, ownId, p.share⟩ vs = .ok false)
  | fac (flat : List Int) (vs : List ECPoint) (pf : Zk.FacProof)
      (hd : decommitWith H p.commitment (p.decommitment.map Int.ofNat) = .ok (some flat))
      (hu : C.unflatten (flat.map Int.toNat) = some vs)
      (hm : (∃ w xs a b zs, modFromBytes p.modProof = some (w, xs, a, b, zs) ∧
          Zk.modVerify zcfg H (Blame.contextJ ssid p.idx) w (xs.map Int.ofNat) a b (zs.map Int.ofNat)
            p.paillierN = .ok true) ∨
        (modFromBytes p.modProof = none ∧ noMod = true))
      (hv : Vss.verify C vcfg threshold ⟨threshold, ownId, p.share⟩ vs = .ok true)
      (hdec : facFromBytes p.facProof = some pf)
      (hf : Zk.facVerify zcfg H C.q (Blame.contextJ ssid p.idx) p.paillierN nt h1 h2 pf = .ok false)

/-- **a covered alteration is blamed on its sender**: the check of that peer names it, hence (when the round
returns) its index is in the culprit list -/
theorem r3_covered_alteration_blamed (p : R2Peer)
    (hf : R3CoveredFailure C H zcfg vcfg noMod threshold ownId ssid nt h1 h2 p) :
    (∃ why, checkPeer C H zcfg vcfg noMod noFac threshold ownId ssid nt h1 h2 p = .ok (some why)) ∧
    ∀ peers cs, p ∈ peers →
      round3 C H zcfg vcfg noMod noFac threshold ownId ssid nt h1 h2 peers = .ok cs → p.idx ∈ cs := by
  have hbad : ∃ why, checkPeer C H zcfg vcfg noMod noFac threshold ownId ssid nt h1 h2 p = .ok (some why) := by
    cases hf with
    | decommit h => exact ⟨_, r3_bad_decommit_blamed C H zcfg vcfg noMod noFac threshold ownId ssid nt h1 h2 p h⟩
    | mod flat vs w xs a b zs hd hu hdec hm =>
      exact ⟨_, r3_bad_mod_blamed C H zcfg vcfg noMod noFac threshold ownId ssid nt h1 h2 p flat vs hd hu
        (Or.inl ⟨w, xs, a, b, zs, hdec, hm⟩)⟩
    | share flat vs hd hu hm hv =>
      exact ⟨_, r3_bad_share_blamed C H zcfg vcfg noMod noFac threshold ownId ssid nt h1 h2 p flat vs hd hu hm hv⟩
    | fac flat vs pf hd hu hm hv hdec hf =>
      exact ⟨_, r3_bad_fac_blamed C H zcfg vcfg noMod noFac threshold ownId ssid nt h1 h2 p flat vs hd hu hm hv
        (Or.inl ⟨pf, hdec, hf⟩)⟩
  refine ⟨hbad, fun peers cs hp h => ?_⟩
  exact (r3_culprit_iff C H zcfg vcfg noMod noFac threshold ownId ssid nt h1 h2 peers cs h p.idx).2
    ⟨p, hp, rfl, hbad⟩

/-- **R3.5 round 3 never crashes** on the current tree (`Zk.cur`, zero checks in `Vss.verify`), on a lawful
curve record, for non-empty de-commitments (guaranteed by `ValidateBasic` in Go). `hcof` is the side
condition of the Feldman check's totality: on a curve whose identity has no affine form every point is
killed by `q` (cofactor 1; vacuous on edwards25519). -/
theorem r3_no_panic (hC : C.Lawful)
    (hcof : C.toAffine C.zero = none → ∀ p, C.smul C.q p = C.zero)
    (peers : List R2Peer) (hd : ∀ p ∈ peers, p.decommitment ≠ []) (tag : String) :
    round3 C H Zk.cur ⟨true⟩ noMod noFac threshold ownId ssid nt h1 h2 peers ≠ .panic tag :=
  round3_noPanic_of C H _ _ noMod noFac threshold ownId ssid nt h1 h2 peers
    (fun p hp => checkPeer_noPanic C H noMod noFac threshold ownId ssid nt h1 h2 p hC hcof (hd p hp)) tag

/-- the per-peer form -/
theorem r3_check_no_panic (hC : C.Lawful)
    (hcof : C.toAffine C.zero = none → ∀ p, C.smul C.q p = C.zero)
    (p : R2Peer) (hd : p.decommitment ≠ []) (tag : String) :
    checkPeer C H Zk.cur ⟨true⟩ noMod noFac threshold ownId ssid nt h1 h2 p ≠ .panic tag :=
  checkPeer_noPanic C H noMod noFac threshold ownId ssid nt h1 h2 p hC hcof hd tag

end r3

/-! ## the hypotheses are satisfiable (kernel evaluation of the model) -/
section examples

/-- a trivial "hash" with empty digests: every DLN challenge is `0` -/
def Hnil : HashFn := fun _ => []
/-- a trivial "hash" whose digests are the byte `1`: every commitment value is `1` -/
def Hone : HashFn := fun _ => [1]

/-- a serialized DLN proof `alpha = (a, …, a)`, `t = (2, …, 2)` (128 entries each, with the two length
elements); under the challenge `0` it proves `h^2 = a` -/
def prf (a : UInt8) : List Bytes := [[128]] ++ List.replicate 128 [a] ++ [[128]] ++ List.replicate 128 [2]

/-- a round-1 message with 2048-bit moduli `2^2047`, the values `h1`, `h2` and the proofs `prf a1`, `prf a2`:
honest (accepted under `Hnil`) when `a1 = h1²`, `a2 = h2²` -/
def msg (idx h1 h2 : Nat) (a1 a2 : UInt8) : R1Msg := ⟨idx, 2 ^ 2047, 2 ^ 2047, h1, h2, prf a1, prf a2⟩

/-- R2.1/R2.8: no messages — the round passes -/
example : round2 Hnil Ops16.curParse 1 [] = .ok .pass := by decide

/-- R2.3b -/
example : duplicateCulprits 1 1 2 = [2] ∧ duplicateCulprits 1 2 1 = [2] ∧ duplicateCulprits 1 2 3 = [] ∧
    duplicateCulprits 1 1 1 = [] := by decide

/-- R2.3a: a 3-bit Paillier modulus -/
example : structural 1 [] ⟨2, 5, 5, 3, 4, [], []⟩ =
    some ("got paillier modulus with insufficient bits for this party", [2]) := by decide

/-- R2.6 with a message of wrong sizes only (the honest-party hypotheses are vacuous, the proofs are never
evaluated) … -/
example : HonestOthers Hnil Ops16.curParse 1 2 [⟨2, 5, 5, 3, 4, [], []⟩] :=
  ⟨by decide, by decide, by decide, by decide, by decide⟩

example : round2 Hnil Ops16.curParse 1 [⟨2, 5, 5, 3, 4, [], []⟩] =
    .ok (.fail "got paillier modulus with insufficient bits for this party" [2]) := by decide

/-- … and the full hypotheses on a three-party run: own = 1 (values 3, 5), third party 3 (values 7, 11), and
the deviator 2 in the middle; whatever party 2 stores, parties 1 and 3 satisfy `HonestOthers` -/
theorem honestOthers_witness (md : R1Msg) (hd : md.idx = 2) :
    HonestOthers Hnil Ops16.curParse 1 2 [msg 1 3 5 9 25, md, msg 3 7 11 49 121] := by
  refine ⟨by decide, ?_, ?_, ?_, ?_⟩
  · simp only [List.map_cons, List.map_nil, hd]; decide
  · intro m hm hne
    simp only [List.mem_cons, List.not_mem_nil, or_false] at hm
    rcases hm with rfl | rfl | rfl
    · decide +kernel
    · exact absurd hd hne
    · decide +kernel
  · intro m hm m' hm' hne hne' hij
    simp only [List.mem_cons, List.not_mem_nil, or_false] at hm hm'
    rcases hm with rfl | rfl | rfl <;> rcases hm' with rfl | rfl | rfl <;>
      first
        | exact absurd hd hne
        | exact absurd hd hne'
        | exact absurd rfl hij
        | decide
  · intro m hm hne
    simp only [List.mem_cons, List.not_mem_nil, or_false] at hm
    rcases hm with rfl | rfl | rfl
    · decide +kernel
    · exact absurd hd hne
    · decide +kernel

/-- R2.4: an honest party 2 — the round passes -/
example : round2 Hnil Ops16.curParse 1 [msg 1 3 5 9 25, msg 2 13 15 169 225, msg 3 7 11 49 121] = .ok .pass := by
  decide +kernel

/-- R2.5: party 2's first proof is for another value (`9 ≠ 13²`) -/
example : dlnCheck Hnil Ops16.curParse (msg 2 13 15 9 225).dln1 13 15 (2 ^ 2047) = .ok false ∧
    round2 Hnil Ops16.curParse 1 [msg 1 3 5 9 25, msg 2 13 15 9 225, msg 3 7 11 49 121] =
      .ok (.fail "dln proof verification failed" [2]) := by
  decide +kernel

/-- R2.7a: party 2 copies the reporting party's `h1 = 3` (with a valid proof for it) — named, whichever of the
two messages is stored first -/
example : round2 Hnil Ops16.curParse 1 [msg 1 3 5 9 25, msg 2 3 13 9 169, msg 3 7 11 49 121] =
      .ok (.fail "this h1j was already used by another party" [2]) ∧
    round2 Hnil Ops16.curParse 1 [msg 2 3 13 9 169, msg 1 3 5 9 25, msg 3 7 11 49 121] =
      .ok (.fail "this h1j was already used by another party" [2]) := by
  decide +kernel

/-- R2.7b: party 2 copies the third party's `h1 = 7` — nobody is named, in either order -/
example : round2 Hnil Ops16.curParse 1 [msg 1 3 5 9 25, msg 2 7 13 49 169, msg 3 7 11 49 121] =
      .ok (.fail "this h1j was already used by another party" []) ∧
    round2 Hnil Ops16.curParse 1 [msg 1 3 5 9 25, msg 3 7 11 49 121, msg 2 7 13 49 169] =
      .ok (.fail "this h1j was already used by another party" []) := by
  decide +kernel

/-- the hypotheses of `r2_duplicate_with_own_blames_other` hold in the first of these runs -/
example : ∃ why, round2 Hnil Ops16.curParse 1 [msg 1 3 5 9 25, msg 2 3 13 9 169, msg 3 7 11 49 121] =
    .ok (.fail why [2]) ∧ (why = "this h1j was already used by another party" ∨
      why = "this h2j was already used by another party") :=
  r2_duplicate_with_own_blames_other (honestOthers_witness _ rfl) (r2_dev_jobs_return _ _ _)
    (msg 2 3 13 9 169) (msg 1 3 5 9 25) (by simp) rfl (by decide +kernel) (by simp) rfl (Or.inl rfl)
    (by
      intro m hm hne hno
      simp only [List.mem_cons, List.not_mem_nil, or_false] at hm
      rcases hm with rfl | rfl | rfl
      · exact absurd rfl hno
      · exact absurd rfl hne
      · decide)

/-! round 3 on the toy curve `zmodCurve 23` (order 23, identity with affine coordinates), threshold 1, own
id 2: the peer's polynomial is `3 + 4X`, its share for the party `f(2) = 11`, the commitment points `3·G`,
`4·G`, blinding `5`; under `Hone` every commitment value is `1`. Proofs that do not decode are tolerated
(`noMod = noFac = true`) unless said otherwise. -/

instance fact23 : Fact (Nat.Prime 23) := ⟨by decide⟩
abbrev E := zmodCurve 23

/-- R3.4: an honest record passes -/
example : checkPeer E Hone Zk.cur ⟨true⟩ true true 1 2 [] 0 0 0 ⟨1, 1, 0, [5, 3, 0, 4, 0], [], 11, []⟩ = .ok none := by
  decide

/-- R3.4: a commitment that the de-commitment does not open -/
example : R3CoveredFailure E Hone Zk.cur ⟨true⟩ true 1 2 [] 0 0 0 ⟨1, 0, 0, [5, 3, 0, 4, 0], [], 11, []⟩ :=
  .decommit (by decide)

/-- R3.4: a modulus proof that decodes (163 non-empty parts) and is rejected -/
example : R3CoveredFailure E Hone Zk.cur ⟨true⟩ true 1 2 [] 0 0 0
    ⟨1, 1, 0, [5, 3, 0, 4, 0], List.replicate 163 [1], 11, []⟩ :=
  .mod [3, 0, 4, 0] [(3, 0), (4, 0)] 1 (List.replicate 80 1) 1 1 (List.replicate 80 1) (by decide) (by decide)
    (by decide +kernel) (by decide +kernel)

/-- R3.4: the share altered from `11` to `12` -/
example : R3CoveredFailure E Hone Zk.cur ⟨true⟩ true 1 2 [] 0 0 0 ⟨1, 1, 0, [5, 3, 0, 4, 0], [], 12, []⟩ :=
  .share [3, 0, 4, 0] [(3, 0), (4, 0)] (by decide) (by decide) (Or.inr (by decide)) (by decide)

/-- R3.4: a no-small-factor proof that decodes (11 non-empty parts) and is rejected -/
example : R3CoveredFailure E Hone Zk.cur ⟨true⟩ true 1 2 [] 0 0 0
    ⟨1, 1, 0, [5, 3, 0, 4, 0], [], 11, List.replicate 11 [1]⟩ :=
  .fac [3, 0, 4, 0] [(3, 0), (4, 0)] ⟨1, 1, 1, 1, 1, 1, 1, 1, 1, 1, 1⟩ (by decide) (by decide) (Or.inr (by decide))
    (by decide) (by decide) (by decide)

/-- R3.1–R3.3: peers 1 (honest) and 3 (altered share): exactly `[3]` is reported; with both honest, nobody -/
example : round3 E Hone Zk.cur ⟨true⟩ true true 1 2 [] 0 0 0
      [⟨1, 1, 0, [5, 3, 0, 4, 0], [], 11, []⟩, ⟨3, 1, 0, [5, 3, 0, 4, 0], [], 12, []⟩] = .ok [3] ∧
    round3 E Hone Zk.cur ⟨true⟩ true true 1 2 [] 0 0 0
      [⟨1, 1, 0, [5, 3, 0, 4, 0], [], 11, []⟩, ⟨3, 1, 0, [5, 3, 0, 4, 0], [], 11, []⟩] = .ok [] := by
  decide

/-- R3.5: the hypotheses of `r3_no_panic` hold on the toy curve (its identity has affine coordinates, so
`hcof` is vacuous) -/
example : E.Lawful ∧ (E.toAffine E.zero = none → ∀ p, E.smul E.q p = E.zero) :=
  ⟨zmodCurve_lawful 23, fun h => absurd h (zmodCurve_toAffine_zero 23)⟩

/-- the hypothesis "non-empty de-commitment" of `r3_no_panic` is needed: `DeCommit` of an empty list compares a
nil hash (`ValidateBasic` rejects such a message before it is stored) -/
theorem r3_empty_decommitment_panics_witness :
    checkPeer E Hone Zk.cur ⟨true⟩ true true 1 2 [] 0 0 0 ⟨1, 1, 0, [], [], 11, []⟩ = .panic "nil-hash-cmp" := by
  decide

end examples

end TssVerif.C05b
