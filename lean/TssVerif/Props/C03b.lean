import TssVerif.Props.C03
/-! # C03 (continued) — shares are reduced; ids that agree modulo `q` receive the same share

Property theorems only; corollaries of `Props/C03.lean` over the same definitions (`share`, `sumPoly`),
tied to `ecdsa/keygen`, `eddsa/keygen` and `crypto/vss` by the existing correspondence operations. -/
set_option autoImplicit false
set_option linter.style.haveILetI false
namespace TssVerif.C03
open TssVerif AlgL Polynomial

variable {P : Type} {C : Curve P} {ι : Type}

/-- **every final share is a reduced scalar** `0 ≤ x_k < q`, whatever the dealers' coefficients were -/
theorem keygen_share_reduced (hC : C.Lawful) (ds : List ι) (f : ι → List ℕ) (t : ℕ)
    (hlen : ∀ i ∈ ds, (f i).length = t + 1) (k : ℕ) : share C.q ds f k < C.q := by
  haveI : Fact C.q.Prime := ⟨hC.q_prime⟩
  rw [(keygen_public_points_on_polynomial hC ds f t hlen k).1]
  exact ZMod.val_lt _

/-- **two ids that agree modulo `q` would hold the same share** (and hence the same public share
point): the reason the party ids must be pairwise distinct modulo the group order, as `CheckIndexes`
and `PrepareForSigning` demand -/
theorem keygen_congruent_ids_same_share (hC : C.Lawful) (ds : List ι) (f : ι → List ℕ) (t : ℕ)
    (hlen : ∀ i ∈ ds, (f i).length = t + 1) {k k' : ℕ} (hk : k % C.q = k' % C.q) :
    share C.q ds f k = share C.q ds f k' ∧
    pubShare C (combined C ds (honestCommit C f)) t k = pubShare C (combined C ds (honestCommit C f)) t k' := by
  haveI : Fact C.q.Prime := ⟨hC.q_prime⟩
  have hcast : (k : ZMod C.q) = (k' : ZMod C.q) := (ZMod.natCast_eq_natCast_iff' k k' C.q).mpr hk
  have hs : share C.q ds f k = share C.q ds f k' := by
    rw [(keygen_public_points_on_polynomial hC ds f t hlen k).1,
      (keygen_public_points_on_polynomial hC ds f t hlen k').1, hcast]
  refine ⟨hs, ?_⟩
  rw [← keygen_share_matches_public hC ds f t hlen k, ← keygen_share_matches_public hC ds f t hlen k', hs]

end TssVerif.C03
