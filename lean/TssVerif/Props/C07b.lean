import TssVerif.Props.C07
/-! # C07 (continued) — the named delivery schedules of the harness as instances of schedule independence

Property theorems only; corollaries of `Props/C07.lean`. The correspondence drives the real parties under
FIFO, LIFO (newest first), rotated and duplicate-everything schedules; each is here an instance of
`schedule_independent` / `schedule_independent_up_to_duplicates`, for every table, message list and state. -/
set_option autoImplicit false
namespace TssVerif.C07
open TssVerif TssVerif.Engine TssVerif.EngineL

/-- **LIFO equals FIFO**: delivering the messages newest-first leads to the same state -/
theorem lifo_equals_fifo (tbl : List RoundSpec) (ms : List Msg) (p : Party)
    (hg : GoodList tbl p.self ms) (hc : SlotConsistent ms) :
    delivers tbl ms.reverse p = delivers tbl ms p :=
  (schedule_independent tbl ms ms.reverse p (List.reverse_perm ms).symm hg hc).symm

/-- **a rotated schedule** (some suffix of the traffic overtakes the rest) leads to the same state -/
theorem rotated_equals_fifo (tbl : List RoundSpec) (pre suf : List Msg) (p : Party)
    (hg : GoodList tbl p.self (pre ++ suf)) (hc : SlotConsistent (pre ++ suf)) :
    delivers tbl (suf ++ pre) p = delivers tbl (pre ++ suf) p :=
  (schedule_independent tbl (pre ++ suf) (suf ++ pre) p List.perm_append_comm hg hc).symm

/-- **duplicate-everything**: delivering the whole traffic twice leads to the same state as once -/
theorem duplicate_everything (tbl : List RoundSpec) (ms : List Msg) (p : Party)
    (hg : GoodList tbl p.self ms) (hc : SlotConsistent ms) :
    delivers tbl (ms ++ ms) p = delivers tbl ms p :=
  (schedule_independent_up_to_duplicates tbl ms (ms ++ ms) p (fun m => by simp) hg hc).symm

/-- **replay of a prefix at the end** (a retransmission after the fact) changes nothing -/
theorem late_retransmission (tbl : List RoundSpec) (pre suf : List Msg) (p : Party)
    (hg : GoodList tbl p.self (pre ++ suf)) (hc : SlotConsistent (pre ++ suf)) :
    delivers tbl (pre ++ suf ++ pre) p = delivers tbl (pre ++ suf) p :=
  (schedule_independent_up_to_duplicates tbl (pre ++ suf) (pre ++ suf ++ pre) p
    (fun m => by simp only [List.mem_append]; constructor
                 · intro h; exact Or.inl h
                 · rintro (h | h)
                   · exact h
                   · exact Or.inl h) hg hc).symm

end TssVerif.C07
