import TssVerif.Props.C02
/-! # C02 (continued) — the 32-byte scalar encoding of `s` and of the nonce is exact on reduced values

Property theorems only; corollaries of `Props/C02.lean` over the same executable definitions
(`Sign.Ed.bigIntToEncodedBytes`, `Sign.Ed.encodedBytesToBigInt`), tied to `eddsa/signing/utils.go` by
the existing correspondence operations. -/
set_option autoImplicit false
namespace TssVerif.C02
open TssVerif

/-- the group order of edwards25519 fits in 32 bytes -/
theorem l_lt_two_pow_256 : Sign.Ed.l < 2 ^ 256 := by decide +kernel

/-- **the encoder is injective below `2^256`**: two different scalars never share their 32 bytes -/
theorem enc_injective {a b : ℕ} (ha : a < 2 ^ 256) (hb : b < 2 ^ 256)
    (h : Sign.Ed.bigIntToEncodedBytes a = Sign.Ed.bigIntToEncodedBytes b) : a = b := by
  have h1 := enc_roundtrip ha
  have h2 := enc_roundtrip hb
  rw [h] at h1
  exact h1.symm.trans h2

/-- **every reduced scalar survives the encoding**: what round 3 and finalize encode (`s_i`, `Σs_i`,
each reduced mod `l`) is decoded back exactly, whatever was reduced -/
theorem enc_reduced_roundtrip (a : ℕ) :
    Sign.Ed.encodedBytesToBigInt (Sign.Ed.bigIntToEncodedBytes (a % Sign.Ed.l)) = a % Sign.Ed.l := by
  apply enc_roundtrip
  have hl : 0 < Sign.Ed.l := by decide +kernel
  exact Nat.lt_trans (Nat.mod_lt a hl) l_lt_two_pow_256

/-- two scalars that differ mod `l` have different encodings of their reduced values -/
theorem enc_reduced_injective {a b : ℕ}
    (h : Sign.Ed.bigIntToEncodedBytes (a % Sign.Ed.l) = Sign.Ed.bigIntToEncodedBytes (b % Sign.Ed.l)) :
    a % Sign.Ed.l = b % Sign.Ed.l := by
  have h1 := enc_reduced_roundtrip a
  have h2 := enc_reduced_roundtrip b
  rw [h] at h1
  exact h1.symm.trans h2

/-- recorded behaviour: beyond `2^256` the encoder is not injective (`2^256 + 5` and `2^256 + 6` share
their 32 bytes) — the reason the reduced form above is the one that matters -/
theorem enc_not_injective_witness :
    Sign.Ed.bigIntToEncodedBytes (2 ^ 256 + 5) = Sign.Ed.bigIntToEncodedBytes (2 ^ 256 + 6) := by
  decide +kernel

example : Sign.Ed.encodedBytesToBigInt (Sign.Ed.bigIntToEncodedBytes ((2 ^ 300 + 17) % Sign.Ed.l)) =
    (2 ^ 300 + 17) % Sign.Ed.l := enc_reduced_roundtrip _

end TssVerif.C02
