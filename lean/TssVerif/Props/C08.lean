import TssVerif.Core.EngineTables
import TssVerif.Lemmas.EngineWait
import TssVerif.Props.GenObligations
/-! # C08 — round discipline of one party (`tss/party.go`: `BaseStart`, `BaseUpdate`, `WaitingFor`)

Property theorems only; helper lemmas live in `TssVerif/Lemmas/Engine.lean`, `EngineOrder.lean`, `EngineWait.lean`.

Conventions. `tbl : List RoundSpec` is *any* round table (the four tables of the library are in
`Core/EngineTables.lean`, and `tables_match_code` below ties them to the running Go code); `n` is the
committee size, `self` the party's index. A party is driven by events `Ev.start` (the local `Start` call;
a second call is a no-op) and `Ev.deliver m` (the transport hands over *any* message `m`: early, duplicate,
wrong flag, unknown type, from any sender, before or after `Start`); `run tbl evs p` folds the events over `p`
and `delivers tbl ms p = ms.foldl (fun p m => deliver tbl m p) p`.
`emitsUpTo tbl n k` is the concatenation of `emitList n r.emits` over the first `k` rounds `r` of the table
(a broadcast type once, a per-peer type `n - 1` times), `endsUpTo tbl k` the number of final rounds among them. -/
set_option autoImplicit false
namespace TssVerif.C08
open TssVerif TssVerif.Engine TssVerif.EngineL

/-! ## 1. emissions -/

/-- **Each round's messages are sent exactly once, in table order.** After any sequence of events
whatsoever (deliveries before `Start`, `Start`, any deliveries after it: early, duplicate, wrong flag,
unknown type) the emission log of the party is *exactly* the canonical log of the rounds it has started,
and `end` has been signalled exactly as often as final rounds were started. -/
theorem emits_once_in_order (tbl : List RoundSpec) (n self : Nat) (evs : List Ev) :
    (run tbl evs (fresh n self)).rnd ≤ tbl.length ∧
    (run tbl evs (fresh n self)).out = emitsUpTo tbl n (run tbl evs (fresh n self)).rnd ∧
    (run tbl evs (fresh n self)).ended = endsUpTo tbl (run tbl evs (fresh n self)).rnd := by
  have h := canon_run (tbl := tbl) evs (canon_fresh tbl n self)
  rw [Canon, run_n] at h
  exact h

/-- the same in the shape "deliveries, then `Start`, then deliveries" -/
theorem emits_once_in_order_around_start (tbl : List RoundSpec) (n self : Nat) (pre post : List Msg) :
    let p := delivers tbl post (start tbl (delivers tbl pre (fresh n self)))
    p.rnd ≤ tbl.length ∧ p.out = emitsUpTo tbl n p.rnd ∧ p.ended = endsUpTo tbl p.rnd := by
  have h := canon_delivers (tbl := tbl) post (canon_start (canon_delivers pre (canon_fresh tbl n self)))
  rw [Canon, delivers_n, start_n, delivers_n] at h
  exact h

/-- **Nothing is sent before `Start`**: whatever is delivered to a party that has not been started, it stays
in round 0 with an empty emission log and no `end`. -/
theorem nothing_before_start (tbl : List RoundSpec) (n self : Nat) (pre : List Msg) :
    (delivers tbl pre (fresh n self)).rnd = 0 ∧ (delivers tbl pre (fresh n self)).out = [] ∧
    (delivers tbl pre (fresh n self)).ended = 0 := by
  have h0 : (delivers tbl pre (fresh n self)).rnd = 0 := by
    rw [delivers_of_not_started tbl pre _ rfl, stores_rnd]; rfl
  obtain ⟨_, h2, h3⟩ := canon_delivers (tbl := tbl) pre (canon_fresh tbl n self)
  rw [h0] at h2 h3
  exact ⟨h0, by rw [h2, emitsUpTo_zero], by rw [h3, endsUpTo_zero]⟩

/-- **A round advances only when its requirements are met.** Whenever the update loop advances (`step`
returns a new state: the next round is started and emits, or the party finishes after the last round), every
sender `j < n` is marked `ok` or has every message the current round `r` needs stored with the required flag. -/
theorem round_advances_only_when_satisfied (tbl : List RoundSpec) (p p' : Party) (hs : step tbl p = some p') :
    ∃ r, tbl[p.rnd - 1]? = some r ∧
      (∀ j, j < p.n → p.ok j = true ∨ (r.final = false ∧ sat r p.store j = true)) ∧
      ((p'.rnd = p.rnd + 1 ∧ p'.done = false) ∨ (p'.rnd = p.rnd ∧ p'.done = true ∧ p.rnd = tbl.length)) :=
  advance_requires tbl p p' hs

/-! ## 2. channel kind -/

/-- **A message on the wrong channel kind is not counted.** If round `r` needs type `m.ty` with flag `req`
and `m` carries the other flag, then after storing `m` the requirements of `r` are *not* satisfied for the
sender of `m` — so the scan cannot set `ok[m.frm]` on account of it. -/
theorem flag_flip_not_counted (r : RoundSpec) (m : Msg) (p : Party) (req : Bool)
    (hneed : (m.ty, req) ∈ r.needs) (hflag : m.slot.flag ≠ req) :
    sat r (storeMsg m p).store m.frm = false :=
  sat_storeMsg_flag_flip r m p req hneed hflag

/-- **A wrong-flag message never advances a round.** Delivered to a party at its fixpoint (any state reached
by `start`/`deliver`, see `C07.update_fixpoint`), a message whose flag is wrong for every round that needs its
type changes nothing but the store slot: same round, same `ok` flags, nothing emitted, no `end`. -/
theorem flag_flip_never_advances (tbl : List RoundSpec) (m : Msg) (p : Party) (hs : Settled tbl p)
    (hw : WrongFlag tbl m) : deliver tbl m p = storeMsg m p :=
  deliver_wrongFlag_settled hs hw

/-- the same for any reachable state -/
theorem flag_flip_never_advances_run (tbl : List RoundSpec) (n self : Nat) (evs : List Ev) (m : Msg)
    (hw : WrongFlag tbl m) :
    deliver tbl m (run tbl evs (fresh n self)) = storeMsg m (run tbl evs (fresh n self)) :=
  deliver_wrongFlag_settled (settled_run evs (settled_fresh tbl n self)) hw

/-- **… and in any state at all it is a no-op for the protocol**, provided the slot it lands in holds nothing a
round would count (empty, or an earlier wrong-flag copy) and the message is not from the party itself:
`deliver` = "run the pending update loop, then overwrite the slot". In particular
`(deliver tbl m p).rnd = (settleF tbl p).rnd`, and likewise for `ok`, `out`, `ended`, `done`. -/
theorem flag_flip_is_noop (tbl : List RoundSpec) (m : Msg) (p : Party) (hself : m.frm ≠ p.self)
    (hw : WrongFlag tbl m) (hnc : SlotNotCounted tbl m p) :
    deliver tbl m p = storeMsg m (settle tbl (tbl.length + 1) p) :=
  deliver_wrongFlag tbl m p hself hw hnc

/-- spelled out: round, flags, emission log, `end` count and completion are those of the pending update loop alone -/
theorem flag_flip_same_round (tbl : List RoundSpec) (m : Msg) (p : Party) (hself : m.frm ≠ p.self)
    (hw : WrongFlag tbl m) (hnc : SlotNotCounted tbl m p) :
    (deliver tbl m p).rnd = (settle tbl (tbl.length + 1) p).rnd ∧
    (deliver tbl m p).ok = (settle tbl (tbl.length + 1) p).ok ∧
    (deliver tbl m p).out = (settle tbl (tbl.length + 1) p).out ∧
    (deliver tbl m p).ended = (settle tbl (tbl.length + 1) p).ended ∧
    (deliver tbl m p).done = (settle tbl (tbl.length + 1) p).done := by
  rw [flag_flip_is_noop tbl m p hself hw hnc]
  exact ⟨rfl, rfl, rfl, rfl, rfl⟩

/-- **Model-level observation (the slot hypothesis above is needed).** The store keeps one message per
(type, sender). In EdDSA signing with two parties, a genuine round-2 message that arrives *early* (while the
party is in round 1) is overwritten by a later wrong-flag copy; when round 1 completes the party enters
round 2 and stays there (without the copy it would already be in round 3) until the genuine message is
delivered again. -/
theorem flag_flip_overwrites_witness :
    let tbl := eddsaSigning.table
    let g1 : Msg := ⟨1, 1, ⟨true, 0⟩⟩
    let g2 : Msg := ⟨2, 1, ⟨true, 0⟩⟩
    let w2 : Msg := ⟨2, 1, ⟨false, 0⟩⟩
    let p0 := start tbl (fresh 2 0)
    (delivers tbl [g2, g1] p0).rnd = 3 ∧
    (delivers tbl [g2, w2, g1] p0).rnd = 2 ∧
    awaited tbl (delivers tbl [g2, w2, g1] p0) = [1] ∧
    (delivers tbl [g2, w2, g1, g2] p0).rnd = 3 := by decide

/-! ## 3. `WaitingFor` -/

/-- **`WaitingFor` is exact.** For a table in which no round's `Update` returns at the first missing sender,
after every event the reported set equals the set of peers from whom a message required by the current round
has not been delivered with the right flag (both are empty before `Start` and after the last round). -/
theorem waitingFor_exact (tbl : List RoundSpec) (hne : ∀ r ∈ tbl, r.early = false) (n self : Nat) (evs : List Ev) :
    waitingFor (run tbl evs (fresh n self)) = awaited tbl (run tbl evs (fresh n self)) :=
  waitingFor_eq_awaited (settled_run evs (settled_fresh tbl n self)).2
    (canon_run evs (canon_fresh tbl n self)).1 (fun _ hr => hne _ (List.mem_of_getElem? hr))

/-- `WaitingFor` never under-reports, whatever the table and the state -/
theorem waitingFor_never_underreports (tbl : List RoundSpec) (p : Party) (j : Nat) (h : j ∈ awaited tbl p) :
    j ∈ waitingFor p :=
  awaited_subset_waitingFor tbl p j h

/-- round 1 of ECDSA signing before the W1 repair: `Update` returned at the first sender with a missing message -/
def ecdsaSigningRound1Old : List RoundSpec :=
  [ { needs := [(1, false), (2, true)], selfOk := true, selfStore := [(2, true)], early := true,
      emits := [(1, true), (2, false)], final := false, finalOk := false },
    { needs := [], selfOk := false, selfStore := [], early := false, emits := [], final := true, finalOk := true } ]

/-- **The `early` shape over-reports** (so the hypothesis of `waitingFor_exact` is needed): three parties,
party 0 has both round-1 messages of party 2 and none of party 1; it reports waiting for 1 *and* 2. -/
theorem waitingFor_overreports_witness :
    let tbl := ecdsaSigningRound1Old
    let p := delivers tbl [⟨1, 2, ⟨false, 0⟩⟩, ⟨2, 2, ⟨true, 0⟩⟩] (start tbl (fresh 3 0))
    waitingFor p = [1, 2] ∧ awaited tbl p = [1] := by decide

/-- with the repaired shape the same deliveries are reported exactly -/
example :
    let tbl := ecdsaSigning.table
    let p := delivers tbl [⟨1, 2, ⟨false, 0⟩⟩, ⟨2, 2, ⟨true, 0⟩⟩] (start tbl (fresh 3 0))
    waitingFor p = [1] ∧ awaited tbl p = [1] := by decide

/-! ## 4. the tables are the code's tables -/

/-- the acceptance tables (per round: which types with which broadcast flag `CanAccept` admits) regenerated
from the running Go code equal the model tables -/
theorem tables_match_code :
    Gen.eddsaKeygenAccept = GenObl.acceptOf eddsaKeygen ∧ Gen.eddsaSigningAccept = GenObl.acceptOf eddsaSigning ∧
    Gen.ecdsaKeygenAccept = GenObl.acceptOf ecdsaKeygen ∧ Gen.ecdsaSigningAccept = GenObl.acceptOf ecdsaSigning :=
  ⟨GenObl.eddsaKeygen_accept, GenObl.eddsaSigning_accept, GenObl.ecdsaKeygen_accept, GenObl.ecdsaSigning_accept⟩

theorem types_match_code :
    Gen.eddsaKeygenTypes = eddsaKeygen.types ∧ Gen.eddsaSigningTypes = eddsaSigning.types ∧
    Gen.ecdsaKeygenTypes = ecdsaKeygen.types ∧ Gen.ecdsaSigningTypes = ecdsaSigning.types :=
  ⟨GenObl.eddsaKeygen_types, GenObl.eddsaSigning_types, GenObl.ecdsaKeygen_types, GenObl.ecdsaSigning_types⟩

/-- every message type is accepted in exactly one round with exactly one flag value -/
theorem accepted_once :
    GenObl.AcceptedOnce Gen.eddsaKeygenAccept Gen.eddsaKeygenTypes ∧
    GenObl.AcceptedOnce Gen.eddsaSigningAccept Gen.eddsaSigningTypes ∧
    GenObl.AcceptedOnce Gen.ecdsaKeygenAccept Gen.ecdsaKeygenTypes ∧
    GenObl.AcceptedOnce Gen.ecdsaSigningAccept Gen.ecdsaSigningTypes := GenObl.accepted_once

/-- a type is point-to-point (not flagged broadcast) iff it is addressed to exactly one recipient -/
theorem channel_discipline :
    GenObl.Disciplined Gen.eddsaKeygenRouting ∧ GenObl.Disciplined Gen.eddsaSigningRouting ∧
    GenObl.Disciplined Gen.ecdsaKeygenRouting ∧ GenObl.Disciplined Gen.ecdsaSigningRouting := GenObl.channel_discipline

/-- the secret-bearing types are exactly the point-to-point ones -/
theorem secret_bearing_are_p2p :
    (Gen.eddsaKeygenRouting.filter fun x => !x.2.1).map (·.1) = ["KGRound2Message1"] ∧
    (Gen.ecdsaKeygenRouting.filter fun x => !x.2.1).map (·.1) = ["KGRound2Message1"] ∧
    (Gen.ecdsaSigningRouting.filter fun x => !x.2.1).map (·.1) = ["SignRound1Message1", "SignRound2Message"] ∧
    (Gen.eddsaSigningRouting.filter fun x => !x.2.1).map (·.1) = [] := GenObl.secret_bearing_are_p2p

/-- the routing the code emits equals the routing the model tables prescribe -/
theorem routing_matches_code :
    Gen.eddsaKeygenRouting = GenObl.routingOf eddsaKeygen ∧ Gen.eddsaSigningRouting = GenObl.routingOf eddsaSigning ∧
    Gen.ecdsaKeygenRouting = GenObl.routingOf ecdsaKeygen ∧ Gen.ecdsaSigningRouting = GenObl.routingOf ecdsaSigning :=
  ⟨GenObl.eddsaKeygen_routing, GenObl.eddsaSigning_routing, GenObl.ecdsaKeygen_routing, GenObl.ecdsaSigning_routing⟩

/-! ## 5. the hypotheses are satisfiable, the statements bite -/

/-- none of the four tables has an `early` round: `waitingFor_exact` applies to all of them -/
example : ∀ P ∈ protos, ∀ r ∈ P.table, r.early = false := by decide

/-- the canonical log of a complete two-party EdDSA signing run, and the run that produces it -/
example : emitsUpTo eddsaSigning.table 2 4 = [1, 2, 3] ∧ endsUpTo eddsaSigning.table 4 = 1 := by decide
example :
    let p := delivers eddsaSigning.table [⟨3, 1, ⟨true, 0⟩⟩, ⟨1, 1, ⟨true, 0⟩⟩, ⟨1, 1, ⟨true, 0⟩⟩, ⟨2, 1, ⟨true, 0⟩⟩]
      (start eddsaSigning.table (fresh 2 0))
    p.rnd = 4 ∧ p.out = [1, 2, 3] ∧ p.ended = 1 ∧ p.done = true := by decide
/-- a per-peer type is logged once per peer -/
example : emitsUpTo ecdsaKeygen.table 3 2 = [1, 2, 2, 3] := by decide
/-- `WrongFlag` and `SlotNotCounted` hold for a point-to-point copy of a broadcast type into an empty slot -/
example : WrongFlag eddsaSigning.table ⟨2, 1, ⟨false, 0⟩⟩ := by
  unfold WrongFlag; decide
example : SlotNotCounted eddsaSigning.table ⟨2, 1, ⟨false, 0⟩⟩ (start eddsaSigning.table (fresh 2 0)) := by
  have h : (start eddsaSigning.table (fresh 2 0)).store 2 1 = none := by decide
  intro s hs; rw [h] at hs; cases hs

end TssVerif.C08
