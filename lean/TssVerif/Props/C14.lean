import TssVerif.Core.Paillier
import TssVerif.Lemmas.GoIntSpec
import TssVerif.Lemmas.Paillier
import Mathlib.Tactic.NormNum.Prime
/-! # C14 — Paillier: decryption inverts encryption, homomorphic operations, guards, key shape

Property theorems only; helper lemmas live in `TssVerif/Lemmas/GoIntSpec.lean` (specification of the
`math/big` model: `modPow_spec`, `modInverse_spec`, `modInverse_isSome`) and `TssVerif/Lemmas/Paillier.lean`.

Conventions. `P`, `Q` are the primes, the modulus is `P * Q`; a private key `sk` is *any* record whose
`n` is `P * Q` and whose `lambdaN` is `lcm (P-1) (Q-1)` (`Decrypt` reads no other field), in particular the
record `keyOf P Q` that `GenerateKeyPair` builds. Nothing is assumed about the output of `ModInverse`:
that the call inside `Decrypt` succeeds is proved (fuel sufficiency of the Euclid loop). -/
namespace TssVerif.C14
open TssVerif TssVerif.Paillier TssVerif.PaillierL

/-- the private key record `GenerateKeyPair` returns for primes `P`, `Q` -/
abbrev keyOf (P Q : Nat) : PrivateKey :=
  { n := P * Q, lambdaN := Nat.lcm (P - 1) (Q - 1), phiN := (P - 1) * (Q - 1), p := P, q := Q }

/-! ## when is `λ` a unit modulo `n` -/

theorem lambda_unit_of_not_dvd {P Q : Nat} (hP : P.Prime) (hQ : Q.Prime)
    (h1 : ¬ P ∣ Q - 1) (h2 : ¬ Q ∣ P - 1) : Nat.gcd (Nat.lcm (P - 1) (Q - 1)) (P * Q) = 1 :=
  PaillierL.lambda_unit_of_not_dvd hP hQ h1 h2

/-- the same side condition gives `gcd(n, φ(n)) = 1` (used for freshness and by `Proof`) -/
theorem phi_unit_of_not_dvd {P Q : Nat} (hP : P.Prime) (hQ : Q.Prime)
    (h1 : ¬ P ∣ Q - 1) (h2 : ¬ Q ∣ P - 1) : Nat.gcd (P * Q) ((P - 1) * (Q - 1)) = 1 :=
  PaillierL.phi_unit_of_not_dvd hP hQ h1 h2

/-- odd primes of the same bit length `k` (what `GetRandomSafePrimesConcurrent(bits = k)` returns) -/
theorem lambda_unit_same_bitlen {P Q k : Nat} (hP : P.Prime) (hQ : Q.Prime) (hP2 : P ≠ 2) (hQ2 : Q ≠ 2)
    (hk : 1 ≤ k) (hPlo : 2 ^ (k - 1) ≤ P) (hPhi : P < 2 ^ k) (hQlo : 2 ^ (k - 1) ≤ Q) (hQhi : Q < 2 ^ k) :
    Nat.gcd (Nat.lcm (P - 1) (Q - 1)) (P * Q) = 1 :=
  PaillierL.lambda_unit_of_not_dvd hP hQ
    (not_dvd_pred_of_same_bitlen hP hQ hP2 hPlo hQhi hk)
    (not_dvd_pred_of_same_bitlen hQ hP hQ2 hQlo hPhi hk)

/-- safe primes `P = 2p'+1`, `Q = 2q'+1`. The side conditions `P ≠ q'`, `Q ≠ p'` are necessary:
`P = 11`, `Q = 23 = 2·11+1` are safe primes with `P ∣ Q − 1`, and then `gcd(λ, n) = 11`
(see `safe_primes_side_condition_needed`). -/
theorem lambda_unit_safe_primes {P Q p' q' : Nat} (hP : P.Prime) (hQ : Q.Prime)
    (hp' : p'.Prime) (hq' : q'.Prime) (hPs : P = 2 * p' + 1) (hQs : Q = 2 * q' + 1)
    (h1 : P ≠ q') (h2 : Q ≠ p') : Nat.gcd (Nat.lcm (P - 1) (Q - 1)) (P * Q) = 1 := by
  have hP2 : P ≠ 2 := by have := hp'.two_le; omega
  have hQ2 : Q ≠ 2 := by have := hq'.two_le; omega
  exact PaillierL.lambda_unit_of_not_dvd hP hQ
    (not_dvd_pred_of_safe hP hq' hQs hP2 h1) (not_dvd_pred_of_safe hQ hp' hPs hQ2 h2)

theorem safe_primes_side_condition_needed :
    Nat.gcd (Nat.lcm (11 - 1) (23 - 1)) (11 * 23) = 11 := by decide

/-! ## encryption: range and unit -/

/-- in-range messages are always encrypted (no error, no panic), for every modulus and every `x` -/
theorem enc_ok {n : Nat} {m : Int} (x : Nat) (h0 : 0 ≤ m) (hm : m < n) :
    ∃ c, encryptWith n m x = .ok c :=
  ⟨_, encryptWith_ok_iff.2 ⟨h0, hm, rfl⟩⟩

/-- every ciphertext is `< n²` (every modulus, message, randomiser) -/
theorem enc_lt {n : Nat} {m : Int} {x c : Nat} (h : encryptWith n m x = .ok c) : c < n * n := by
  obtain ⟨h0, hm, rfl⟩ := encryptWith_ok_iff.1 h
  exact Nat.mod_lt _ (Nat.mul_pos (by omega) (by omega))

/-- a ciphertext made with a unit `x` is a unit modulo `n²`, so `Decrypt`'s malformed-check passes
(every modulus; no primality needed) -/
theorem enc_is_unit {n : Nat} {m : Int} {x c : Nat} (hx : Nat.gcd x n = 1)
    (h : encryptWith n m x = .ok c) : Nat.gcd c (n * n) = 1 := by
  obtain ⟨h0, hm, rfl⟩ := encryptWith_ok_iff.1 h
  exact IsCt.coprime (m := m.toNat) ⟨Nat.mod_lt _ (Nat.mul_pos (by omega) (by omega)), x, hx, encNat_modEq _ _ _⟩

/-! ## correctness -/

/-- **`Decrypt ∘ Encrypt = id`**, through every guard and the `ModInverse` call of the Go code -/
theorem dec_enc {P Q : Nat} (hP : P.Prime) (hQ : Q.Prime) (hne : P ≠ Q)
    (hlam : Nat.gcd (Nat.lcm (P - 1) (Q - 1)) (P * Q) = 1)
    (sk : PrivateKey) (hn : sk.n = P * Q) (hl : sk.lambdaN = Nat.lcm (P - 1) (Q - 1))
    {m x : Nat} (hm : m < P * Q) (hx : Nat.gcd x (P * Q) = 1) :
    (encryptWith (P * Q) (m : Int) x >>= fun c => decrypt sk (c : Int)) = .ok m := by
  have hk : LamOK sk.n sk.lambdaN := by rw [hn, hl]; exact lamOK_of_primes hP hQ hne hlam
  have hct : IsCt sk.n m (encNat (P * Q) m x) := by
    rw [hn]; exact isCt_encNat (one_lt_mul_primes hP hQ) hx m
  rw [encryptWith_eq hm, ok_bind, decrypt_isCt hk hct, hn, Nat.mod_eq_of_lt hm]

/-- `dec_enc` for the key record of `GenerateKeyPair` -/
theorem dec_enc_keyOf {P Q : Nat} (hP : P.Prime) (hQ : Q.Prime) (hne : P ≠ Q)
    (hlam : Nat.gcd (Nat.lcm (P - 1) (Q - 1)) (P * Q) = 1)
    {m x : Nat} (hm : m < P * Q) (hx : Nat.gcd x (P * Q) = 1) :
    (encryptWith (P * Q) (m : Int) x >>= fun c => decrypt (keyOf P Q) (c : Int)) = .ok m :=
  dec_enc hP hQ hne hlam (keyOf P Q) rfl rfl hm hx

/-- `dec_enc` from the post-conditions of key generation alone: two distinct `k`-bit odd primes -/
theorem dec_enc_keygen {P Q k : Nat} (hP : P.Prime) (hQ : Q.Prime) (hne : P ≠ Q)
    (hP2 : P ≠ 2) (hQ2 : Q ≠ 2) (hk : 1 ≤ k)
    (hPlo : 2 ^ (k - 1) ≤ P) (hPhi : P < 2 ^ k) (hQlo : 2 ^ (k - 1) ≤ Q) (hQhi : Q < 2 ^ k)
    {m x : Nat} (hm : m < P * Q) (hx : Nat.gcd x (P * Q) = 1) :
    (encryptWith (P * Q) (m : Int) x >>= fun c => decrypt (keyOf P Q) (c : Int)) = .ok m :=
  dec_enc_keyOf hP hQ hne (lambda_unit_same_bitlen hP hQ hP2 hQ2 hk hPlo hPhi hQlo hQhi) hm hx

/-! ## homomorphic operations -/

/-- `Decrypt(HomoAdd(Enc m1, Enc m2)) = (m1 + m2) mod n` -/
theorem homo_add {P Q : Nat} (hP : P.Prime) (hQ : Q.Prime) (hne : P ≠ Q)
    (hlam : Nat.gcd (Nat.lcm (P - 1) (Q - 1)) (P * Q) = 1)
    (sk : PrivateKey) (hn : sk.n = P * Q) (hl : sk.lambdaN = Nat.lcm (P - 1) (Q - 1))
    {m1 m2 x1 x2 c1 c2 : Nat} (hx1 : Nat.gcd x1 (P * Q) = 1) (hx2 : Nat.gcd x2 (P * Q) = 1)
    (h1 : encryptWith (P * Q) (m1 : Int) x1 = .ok c1) (h2 : encryptWith (P * Q) (m2 : Int) x2 = .ok c2) :
    (homoAdd (P * Q) (c1 : Int) (c2 : Int) >>= fun c => decrypt sk (c : Int)) =
      .ok ((m1 + m2) % (P * Q)) := by
  have hk : LamOK sk.n sk.lambdaN := by rw [hn, hl]; exact lamOK_of_primes hP hQ hne hlam
  have hN := one_lt_mul_primes hP hQ
  obtain ⟨-, -, rfl⟩ := encryptWith_ok_iff.1 h1
  obtain ⟨-, -, rfl⟩ := encryptWith_ok_iff.1 h2
  simp only [Int.toNat_natCast]
  have i1 := isCt_encNat hN hx1 m1
  have i2 := isCt_encNat hN hx2 m2
  have i3 := IsCt.homoAdd hN i1 i2
  rw [homoAdd_eq i1.1 i2.1, ok_bind]
  rw [← hn] at i3 ⊢
  exact decrypt_isCt hk i3

/-- `Decrypt(HomoMult(k, Enc m)) = k · m mod n` for `0 ≤ k < n` -/
theorem homo_mult {P Q : Nat} (hP : P.Prime) (hQ : Q.Prime) (hne : P ≠ Q)
    (hlam : Nat.gcd (Nat.lcm (P - 1) (Q - 1)) (P * Q) = 1)
    (sk : PrivateKey) (hn : sk.n = P * Q) (hl : sk.lambdaN = Nat.lcm (P - 1) (Q - 1))
    {k m x c : Nat} (hk : k < P * Q) (hx : Nat.gcd x (P * Q) = 1)
    (h : encryptWith (P * Q) (m : Int) x = .ok c) :
    (homoMult (P * Q) (k : Int) (c : Int) >>= fun c' => decrypt sk (c' : Int)) =
      .ok ((k * m) % (P * Q)) := by
  have hK : LamOK sk.n sk.lambdaN := by rw [hn, hl]; exact lamOK_of_primes hP hQ hne hlam
  have hN := one_lt_mul_primes hP hQ
  obtain ⟨-, -, rfl⟩ := encryptWith_ok_iff.1 h
  simp only [Int.toNat_natCast]
  have i1 := isCt_encNat hN hx m
  have i3 := IsCt.homoMult hN k i1
  rw [homoMult_eq hk i1.1, ok_bind]
  rw [← hn] at i3 ⊢
  exact decrypt_isCt hK i3

/-- Closed form, for iterated use (MtA chains `HomoMult` and `HomoAdd`): the class `IsCt n m ·` of
reduced residues `≡ (n+1)^m x^n (mod n²)` with `x` a unit contains every honest encryption, is closed
under both operations, and every member decrypts to `m mod n`. -/
theorem ct_closed {P Q : Nat} (hP : P.Prime) (hQ : Q.Prime) (hne : P ≠ Q)
    (hlam : Nat.gcd (Nat.lcm (P - 1) (Q - 1)) (P * Q) = 1)
    (sk : PrivateKey) (hn : sk.n = P * Q) (hl : sk.lambdaN = Nat.lcm (P - 1) (Q - 1)) :
    (∀ m x : Nat, m < P * Q → Nat.gcd x (P * Q) = 1 →
      ∃ c, encryptWith (P * Q) (m : Int) x = .ok c ∧ IsCt (P * Q) m c) ∧
    (∀ m1 m2 c1 c2 : Nat, IsCt (P * Q) m1 c1 → IsCt (P * Q) m2 c2 →
      ∃ c, homoAdd (P * Q) (c1 : Int) (c2 : Int) = .ok c ∧ IsCt (P * Q) (m1 + m2) c) ∧
    (∀ k m c : Nat, k < P * Q → IsCt (P * Q) m c →
      ∃ c', homoMult (P * Q) (k : Int) (c : Int) = .ok c' ∧ IsCt (P * Q) (k * m) c') ∧
    (∀ m c : Nat, IsCt (P * Q) m c → decrypt sk (c : Int) = .ok (m % (P * Q))) := by
  have hK : LamOK sk.n sk.lambdaN := by rw [hn, hl]; exact lamOK_of_primes hP hQ hne hlam
  have hN := one_lt_mul_primes hP hQ
  refine ⟨fun m x hm hx => ⟨_, encryptWith_eq hm x, isCt_encNat hN hx m⟩,
    fun m1 m2 c1 c2 h1 h2 => ⟨_, homoAdd_eq h1.1 h2.1, h1.homoAdd hN h2⟩,
    fun k m c hk h => ⟨_, homoMult_eq hk h.1, h.homoMult hN k⟩, fun m c h => ?_⟩
  rw [← hn] at h ⊢
  exact decrypt_isCt hK h

/-! ## freshness -/

/-- for a fixed message, distinct randomisers in `ℤ_n^*` give distinct ciphertexts -/
theorem enc_injective_in_x {P Q : Nat} (hP : P.Prime) (hQ : Q.Prime) (hne : P ≠ Q)
    (hphi : Nat.gcd (P * Q) ((P - 1) * (Q - 1)) = 1)
    {m x x' : Nat} (hm : m < P * Q) (hx : x < P * Q) (hx' : x' < P * Q)
    (hc : Nat.gcd x (P * Q) = 1) (hc' : Nat.gcd x' (P * Q) = 1)
    (h : encryptWith (P * Q) (m : Int) x = encryptWith (P * Q) (m : Int) x') : x = x' := by
  rw [encryptWith_eq hm, encryptWith_eq hm] at h
  injection h with h
  refine encNat_inj_x (one_lt_mul_primes hP hQ) ?_ hc hc' hx hx' h
  rw [totient_mul_primes hP hQ hne]; exact hphi

/-- encryption is injective in the pair (message, randomiser) -/
theorem enc_injective {P Q : Nat} (hP : P.Prime) (hQ : Q.Prime) (hne : P ≠ Q)
    (hlam : Nat.gcd (Nat.lcm (P - 1) (Q - 1)) (P * Q) = 1)
    (hphi : Nat.gcd (P * Q) ((P - 1) * (Q - 1)) = 1)
    {m m' x x' : Nat} (hm : m < P * Q) (hm' : m' < P * Q) (hx : x < P * Q) (hx' : x' < P * Q)
    (hc : Nat.gcd x (P * Q) = 1) (hc' : Nat.gcd x' (P * Q) = 1)
    (h : encryptWith (P * Q) (m : Int) x = encryptWith (P * Q) (m' : Int) x') : m = m' ∧ x = x' := by
  have d1 := dec_enc_keyOf hP hQ hne hlam hm hc
  have d2 := dec_enc_keyOf hP hQ hne hlam hm' hc'
  rw [h, d2] at d1
  injection d1 with d1
  subst d1
  exact ⟨rfl, enc_injective_in_x hP hQ hne hphi hm hx hx' hc hc' h⟩

/-! ## guards: exact characterisation of the error outcomes -/

theorem guards_encrypt (n : Nat) (m : Int) (x : Nat) :
    ((∃ t, encryptWith n m x = .err t) ↔ (m < 0 ∨ m ≥ n)) ∧
    ((∃ c, encryptWith n m x = .ok c) ↔ (0 ≤ m ∧ m < n)) ∧
    (∀ t, encryptWith n m x ≠ .panic t) := by
  by_cases h : m < 0 ∨ m ≥ (n : Int)
  · simp only [encryptWith, if_pos h]
    refine ⟨by simp [h], ?_, by simp⟩
    simp only [reduceCtorEq, exists_false, false_iff]; omega
  · simp only [encryptWith, if_neg h]
    refine ⟨by simp [h], ?_, by simp⟩
    simp only [Outcome.ok.injEq, exists_eq', true_iff]; omega

theorem guards_homoMult (n : Nat) (m c1 : Int) :
    ((∃ t, homoMult n m c1 = .err t) ↔ (m < 0 ∨ m ≥ n ∨ c1 < 0 ∨ c1 ≥ (n * n : Nat))) ∧
    ((∃ c, homoMult n m c1 = .ok c) ↔ (0 ≤ m ∧ m < n ∧ 0 ≤ c1 ∧ c1 < (n * n : Nat))) ∧
    (∀ t, homoMult n m c1 ≠ .panic t) := by
  by_cases h : m < 0 ∨ m ≥ (n : Int)
  · simp only [homoMult, if_pos h]
    refine ⟨by simp; omega, ?_, by simp⟩
    simp only [reduceCtorEq, exists_false, false_iff]; omega
  · by_cases h' : c1 < 0 ∨ c1 ≥ ((nSquare n : Nat) : Int)
    · simp only [homoMult, if_neg h, if_pos h']
      unfold nSquare at h'
      refine ⟨by simp; omega, ?_, by simp⟩
      simp only [reduceCtorEq, exists_false, false_iff]; omega
    · simp only [homoMult, if_neg h, if_neg h']
      unfold nSquare at h'
      refine ⟨by simp; omega, ?_, by simp⟩
      simp only [Outcome.ok.injEq, exists_eq', true_iff]; omega

theorem guards_homoAdd (n : Nat) (c1 c2 : Int) :
    ((∃ t, homoAdd n c1 c2 = .err t) ↔
      (c1 < 0 ∨ c1 ≥ (n * n : Nat) ∨ c2 < 0 ∨ c2 ≥ (n * n : Nat))) ∧
    ((∃ c, homoAdd n c1 c2 = .ok c) ↔
      (0 ≤ c1 ∧ c1 < (n * n : Nat) ∧ 0 ≤ c2 ∧ c2 < (n * n : Nat))) ∧
    (∀ t, homoAdd n c1 c2 ≠ .panic t) := by
  by_cases h : c1 < 0 ∨ c1 ≥ ((nSquare n : Nat) : Int)
  · simp only [homoAdd, if_pos h]
    unfold nSquare at h
    refine ⟨by simp; omega, ?_, by simp⟩
    simp only [reduceCtorEq, exists_false, false_iff]; omega
  · by_cases h' : c2 < 0 ∨ c2 ≥ ((nSquare n : Nat) : Int)
    · simp only [homoAdd, if_neg h, if_pos h']
      unfold nSquare at h h'
      refine ⟨by simp; omega, ?_, by simp⟩
      simp only [reduceCtorEq, exists_false, false_iff]; omega
    · simp only [homoAdd, if_neg h, if_neg h']
      unfold nSquare at h h'
      refine ⟨by simp; omega, ?_, by simp⟩
      simp only [Outcome.ok.injEq, exists_eq', true_iff]; omega

/-- `Decrypt` reports an error exactly for out-of-range or non-unit input, and crashes (nil from
`ModInverse`) exactly when the input passes the guards but `L(γ^λ mod n²)` is not a unit modulo `n`,
which is a property of the key alone. -/
theorem guards_decrypt (sk : PrivateKey) (c : Int) :
    ((∃ t, decrypt sk c = .err t) ↔
      (c < 0 ∨ c ≥ (sk.n * sk.n : Nat) ∨ Nat.gcd c.toNat (sk.n * sk.n) > 1)) ∧
    ((∃ t, decrypt sk c = .panic t) ↔
      (0 ≤ c ∧ c < (sk.n * sk.n : Nat) ∧ Nat.gcd c.toNat (sk.n * sk.n) = 1 ∧
        Int.gcd (L (modPow (sk.n + 1) sk.lambdaN (sk.n * sk.n)) sk.n) sk.n ≠ 1)) := by
  by_cases h : c < 0 ∨ c ≥ ((nSquare sk.n : Nat) : Int)
  · simp only [decrypt, if_pos h]
    unfold nSquare at h
    refine ⟨by simp; omega, ?_⟩
    simp only [reduceCtorEq, exists_false, false_iff]; omega
  · by_cases h' : Nat.gcd c.toNat (nSquare sk.n) > 1
    · simp only [decrypt, if_neg h, if_pos h']
      unfold nSquare at h h'
      refine ⟨by simp; omega, ?_⟩
      simp only [reduceCtorEq, exists_false, false_iff]; omega
    · simp only [decrypt, if_neg h, if_neg h']
      unfold nSquare at h h'
      have hpos : 0 < sk.n * sk.n := by
        rcases Nat.eq_zero_or_pos (sk.n * sk.n) with h0 | h0
        · rw [h0] at h; omega
        · exact h0
      have hn : sk.n ≠ 0 := by rintro h0; rw [h0] at hpos; omega
      have hg : Nat.gcd c.toNat (sk.n * sk.n) = 1 := by
        have := Nat.gcd_pos_of_pos_right c.toNat hpos
        omega
      cases hinv : modInverse (L (modPow (gamma sk.n) sk.lambdaN (nSquare sk.n)) sk.n) sk.n with
      | none =>
        have := (modInverse_eq_none_iff _ _).1 hinv
        unfold gamma nSquare at this
        refine ⟨by simp; omega, ?_⟩
        simp only [Outcome.panic.injEq, exists_eq', true_iff]
        refine ⟨by omega, by omega, hg, ?_⟩
        rcases this with h0 | h0
        · exact absurd h0 hn
        · exact h0
      | some inv =>
        have : Int.gcd (L (modPow (sk.n + 1) sk.lambdaN (sk.n * sk.n)) sk.n) sk.n = 1 := by
          have := (modInverse_isSome_iff _ _).1 (by rw [hinv]; rfl)
          exact this.2
        refine ⟨by simp; omega, ?_⟩
        simp only [reduceCtorEq, exists_false, false_iff]
        rintro ⟨_, _, _, h4⟩
        exact h4 this

/-- **guards**: the error outcomes, exactly. (No operation returns a value for out-of-domain input:
an `err` result is not an `ok` result; the `ok` side is spelled out in `guards_encrypt`,
`guards_homoMult`, `guards_homoAdd`.) -/
theorem guards (n : Nat) (sk : PrivateKey) (m c c1 c2 : Int) (x : Nat) :
    ((∃ t, encryptWith n m x = .err t) ↔ (m < 0 ∨ m ≥ n)) ∧
    ((∃ t, homoMult n m c1 = .err t) ↔ (m < 0 ∨ m ≥ n ∨ c1 < 0 ∨ c1 ≥ (n * n : Nat))) ∧
    ((∃ t, homoAdd n c1 c2 = .err t) ↔
      (c1 < 0 ∨ c1 ≥ (n * n : Nat) ∨ c2 < 0 ∨ c2 ≥ (n * n : Nat))) ∧
    ((∃ t, decrypt sk c = .err t) ↔
      (c < 0 ∨ c ≥ (sk.n * sk.n : Nat) ∨ Nat.gcd c.toNat (sk.n * sk.n) > 1)) :=
  ⟨(guards_encrypt n m x).1, (guards_homoMult n m c1).1, (guards_homoAdd n c1 c2).1,
    (guards_decrypt sk c).1⟩

/-- on a good key `Decrypt` never crashes, whatever the input -/
theorem decrypt_never_panics {P Q : Nat} (hP : P.Prime) (hQ : Q.Prime) (hne : P ≠ Q)
    (hlam : Nat.gcd (Nat.lcm (P - 1) (Q - 1)) (P * Q) = 1)
    (sk : PrivateKey) (hn : sk.n = P * Q) (hl : sk.lambdaN = Nat.lcm (P - 1) (Q - 1)) (c : Int) :
    ∀ t, decrypt sk c ≠ .panic t := by
  intro t ht
  have hK : LamOK sk.n sk.lambdaN := by rw [hn, hl]; exact lamOK_of_primes hP hQ hne hlam
  obtain ⟨-, -, -, h4⟩ := (guards_decrypt sk c).2.1 ⟨t, ht⟩
  obtain ⟨inv, hinv, -⟩ := modInverse_L_gamma hK
  exact h4 ((modInverse_isSome_iff _ _).1 (by rw [hinv]; rfl)).2

/-! ## key generation -/

/-- two `k`-bit numbers with their two top bits set have a product of exactly `2k` bits (this is why
`GetRandomSafePrimesConcurrent` sets both bits; primality and distinctness are not needed), and
`λ` as Go computes it, `φ / gcd(P−1, Q−1)`, is `lcm (P−1) (Q−1)`. -/
theorem keygen_shape {P Q k : Nat} (hk : 2 ≤ k)
    (hPlo : 3 * 2 ^ (k - 2) ≤ P) (hPhi : P < 2 ^ k) (hQlo : 3 * 2 ^ (k - 2) ≤ Q) (hQhi : Q < 2 ^ k) :
    bitLen P = k ∧ bitLen Q = k ∧
    2 ^ (2 * k - 1) ≤ P * Q ∧ P * Q < 2 ^ (2 * k) ∧ bitLen (P * Q) = 2 * k ∧
    Nat.lcm (P - 1) (Q - 1) = (P - 1) * (Q - 1) / Nat.gcd (P - 1) (Q - 1) := by
  obtain ⟨b1, b2⟩ := mul_bounds_of_top_bits hk hPlo hPhi hQlo hQhi
  have hpow : 2 ^ (k - 1) = 2 * 2 ^ (k - 2) := by
    obtain ⟨j, rfl⟩ : ∃ j, k = j + 2 := ⟨k - 2, by omega⟩
    rw [show j + 2 - 1 = j + 1 by omega, Nat.add_sub_cancel, pow_succ, mul_comm]
  exact ⟨bitLen_eq_of_bounds (by omega) (by omega) hPhi, bitLen_eq_of_bounds (by omega) (by omega) hQhi,
    b1, b2, bitLen_eq_of_bounds (by omega) b1 b2, rfl⟩

/-- the key generator's output satisfies every hypothesis of `dec_enc`, `homo_add`, `homo_mult`,
`enc_injective_in_x`: distinct primes of exactly `k` bits with the two top bits set -/
theorem keygen_units {P Q k : Nat} (hP : P.Prime) (hQ : Q.Prime) (hk : 2 ≤ k)
    (hPlo : 3 * 2 ^ (k - 2) ≤ P) (hPhi : P < 2 ^ k) (hQlo : 3 * 2 ^ (k - 2) ≤ Q) (hQhi : Q < 2 ^ k) :
    Nat.gcd (Nat.lcm (P - 1) (Q - 1)) (P * Q) = 1 ∧ Nat.gcd (P * Q) ((P - 1) * (Q - 1)) = 1 := by
  have hpow : 2 ^ (k - 1) = 2 * 2 ^ (k - 2) := by
    obtain ⟨j, rfl⟩ : ∃ j, k = j + 2 := ⟨k - 2, by omega⟩
    rw [show j + 2 - 1 = j + 1 by omega, Nat.add_sub_cancel, pow_succ, mul_comm]
  have hpos : 0 < 2 ^ (k - 2) := Nat.two_pow_pos _
  have h1 := not_dvd_pred_of_same_bitlen hP hQ (by omega) (by omega : 2 ^ (k - 1) ≤ P) hQhi (by omega)
  have h2 := not_dvd_pred_of_same_bitlen hQ hP (by omega) (by omega : 2 ^ (k - 1) ≤ Q) hPhi (by omega)
  exact ⟨lambda_unit_of_not_dvd hP hQ h1 h2, phi_unit_of_not_dvd hP hQ h1 h2⟩

/-! ## the hypotheses are satisfiable; concrete evaluations -/

/-- `P = 29`, `Q = 31`: distinct 5-bit primes with the two top bits set — the shape key generation
produces — satisfy every hypothesis used above -/
example : Nat.Prime 29 ∧ Nat.Prime 31 ∧ 29 ≠ 31 ∧ 3 * 2 ^ (5 - 2) ≤ 29 ∧ 29 < 2 ^ 5 ∧ 3 * 2 ^ (5 - 2) ≤ 31 ∧
    31 < 2 ^ 5 ∧ Nat.gcd (Nat.lcm (29 - 1) (31 - 1)) (29 * 31) = 1 ∧
    Nat.gcd (29 * 31) ((29 - 1) * (31 - 1)) = 1 ∧ bitLen (29 * 31) = 10 := by
  have h29 : Nat.Prime 29 := by norm_num
  have h31 : Nat.Prime 31 := by norm_num
  obtain ⟨u1, u2⟩ := keygen_units (k := 5) h29 h31 (by omega) (by norm_num) (by norm_num) (by norm_num) (by norm_num)
  exact ⟨h29, h31, by omega, by norm_num, by norm_num, by norm_num, by norm_num, u1, u2, by decide⟩

/-- `dec_enc` instantiated … -/
example : (encryptWith (29 * 31) ((123 : Nat) : Int) 2 >>= fun c => decrypt (keyOf 29 31) (c : Int)) = .ok 123 :=
  dec_enc_keyOf (by norm_num) (by norm_num) (by omega) (by decide) (by omega) (by decide)

/-- … and the same run evaluated by the kernel on the executable model -/
example : (encryptWith 899 123 2 >>= fun c => decrypt ⟨899, 420, 840, 29, 31⟩ (c : Int)) = .ok 123 := by decide
example : encryptWith 899 123 2 = .ok 479958 := by decide
example : keyOf 29 31 = ⟨899, 420, 840, 29, 31⟩ := by simp [keyOf, Nat.lcm]

/-- homomorphic operations evaluated: `Dec(Enc 123 ⊕ Enc 800) = 923 mod 899 = 24`, `Dec(7 ⊙ Enc 200) = 1400 mod 899` -/
example : (do let c1 ← encryptWith 899 123 2
              let c2 ← encryptWith 899 800 3
              let c ← homoAdd 899 c1 c2
              decrypt (keyOf 29 31) c) = .ok 24 := by decide
example : (do let c ← encryptWith 899 200 5
              let c' ← homoMult 899 7 c
              decrypt (keyOf 29 31) c') = .ok 501 := by decide

/-- safe primes `59 = 2·29+1`, `83 = 2·41+1` satisfy the side conditions of `lambda_unit_safe_primes` -/
example : Nat.gcd (Nat.lcm (59 - 1) (83 - 1)) (59 * 83) = 1 :=
  lambda_unit_safe_primes (p' := 29) (q' := 41) (by norm_num) (by norm_num) (by norm_num) (by norm_num)
    rfl rfl (by omega) (by omega)

/-- the error outcomes -/
example : encryptWith 899 899 2 = .err "message-too-long" := by decide
example : encryptWith 899 (-1) 2 = .err "message-too-long" := by decide
example : decrypt (keyOf 29 31) (899 * 899) = .err "message-too-long" := by decide
example : decrypt (keyOf 29 31) 29 = .err "message-malformed" := by decide
example : homoAdd 899 (899 * 899) 1 = .err "message-too-long" := by decide
example : homoMult 899 899 1 = .err "message-too-long" := by decide

/-- the hypothesis `gcd(λ, n) = 1` of `dec_enc` cannot be dropped: for the safe primes `11`, `23`
(`11 ∣ 23 − 1`; different bit lengths, so never produced by `GenerateKeyPair`) the Go `Decrypt`
dereferences the nil returned by `ModInverse` on every well-formed ciphertext -/
example : (encryptWith (11 * 23) 5 2 >>= fun c => decrypt (keyOf 11 23) (c : Int)) = .panic "nil-mod-inverse" := by
  decide

end TssVerif.C14
