import TssVerif.Lemmas.C05
import TssVerif.Props.C01
import TssVerif.Props.C03
import TssVerif.Props.C10
import TssVerif.Props.C15
import TssVerif.Props.C16
/-! # C05 — one deviating participant: no bad output, and blame falls on the deviator only

"If one participant deviates from the protocol (sends any altered field in any message, replays another
participant's messages as its own, …), no honest participant ever outputs a signature that fails
verification, a key share inconsistent with the group key, or key data that differs from another honest
participant's. Every error an honest participant reports names no participant other than the deviating
one (or, where the protocol cannot attribute, nobody/itself), and whenever the altered value is covered by
a commitment, share check or zero-knowledge proof the reporting participant names exactly the deviating
one."

The objects are the round-level check models of `Core/Blame.lean`: `kgCheckPeer` / `kgRound3` (EdDSA key
generation round 3, `eddsa/keygen/round_3.go`: ALL failing peers are reported) and `sgCheckPeer` /
`sgRound3` (EdDSA signing round 3, `eddsa/signing/round_3.go`: the FIRST failing peer is reported). The
harness re-judges real tampered runs with the same functions.

Everything holds for every hash function `H`, every curve record `C` (with `C.Lawful` where the group is
used), every value of every field; there is no bound on the number of peers, the threshold or any integer.
Hypotheses that recur:

* `hcof : C.toAffine C.zero = none → ∀ p, C.smul C.q p = C.zero` — on a curve whose identity has no affine
  form every point is killed by `q` (cofactor 1; vacuous on edwards25519);
* `hnz : C.toAffine C.zero = none → cof % C.q ≠ 0 ∧ cofInv % C.q ≠ 0` — ADDED: on such a curve the two
  cofactor-clearing scalars are prime to `q` (vacuous on edwards25519, where `cof = 8`, `cofInv = 8⁻¹ mod l`
  anyway). It is needed: `kg_clear_scalars_needed_witness`;
* `p.decommitment ≠ []` — guaranteed by `ValidateBasic` in Go.

How the sentences of the property are covered:
* "names no participant other than the deviating one": `kg_culprits_subset_peers`, `kg_never_names_self`,
  `kg_culprit_iff` (exactly the peers whose own messages fail a check), `kg_honest_peer_passes` +
  `single_deviator_blame` (honest peers never fail); `sg_error_names_first_failing_peer`,
  `sg_honest_peer_passes`, `sg_single_deviator_blame`;
* "covered by a commitment, share check or zero-knowledge proof ⇒ names exactly the deviating one":
  `kg_covered_alteration_blamed`, `single_deviator_blamed_exactly`; `sg_covered_alteration_blamed`,
  `sg_error_always_blamed` (D1 repair), `sg_single_deviator_blamed_exactly`;
* "the call returns": `kg_no_panic`, `kg_returns`, `sg_returns`, against the witnesses of the old tree
  (`kg_old_panics_witness` K8, `sg_old_nil_panics_witness` K9, `sg_old_unblamed_witness` D1);
* "no bad output": `kg_accept_consistent`, `kg_accept_on_polynomial`, `no_bad_output_*`. -/
set_option autoImplicit false
namespace TssVerif.C05
open TssVerif Blame C05L

variable {P : Type} {C : Curve P}

/-! ## 1. key generation round 3: who can be named -/
section kg
variable (H : HashFn) (zcfg : Zk.Cfg) (vcfg : Vss.VerifyCfg) (lenGuard : Bool)
  (cof cofInv threshold ownId ownShare : Nat) (ssid : Bytes)

/-- **exact form of the culprit list**: the indices of the peers whose check returned `.bad`, in the order
of the peer list (every check did return a verdict), and `xi` is the reduced sum of the shares -/
theorem kg_result (peers : List KgPeer) (res : KgResult)
    (h : kgRound3 C H zcfg vcfg lenGuard cof cofInv threshold ownId ownShare ssid peers = .ok res) :
    (∀ p ∈ peers, ∃ v, kgCheckPeer C H zcfg vcfg lenGuard cof cofInv threshold ownId ssid p = .ok v) ∧
    res.culprits = (peers.filter fun p =>
      isBad (kgCheckPeer C H zcfg vcfg lenGuard cof cofInv threshold ownId ssid p)).map (·.idx) ∧
    res.xi = (ownShare + (peers.map (·.share)).sum) % C.q :=
  kgRound3_ok C H zcfg vcfg lenGuard cof cofInv threshold ownId ownShare ssid peers res h

/-- **an error never names anybody who did not send the checked messages**; the list of names is a
sub-list of the peer indices (peer order is preserved) and has no duplicates when these are distinct -/
theorem kg_culprits_subset_peers (peers : List KgPeer) (res : KgResult)
    (h : kgRound3 C H zcfg vcfg lenGuard cof cofInv threshold ownId ownShare ssid peers = .ok res) :
    (∀ c ∈ res.culprits, ∃ p ∈ peers, p.idx = c) ∧
    res.culprits.Sublist (peers.map (·.idx)) ∧
    ((peers.map (·.idx)).Nodup → res.culprits.Nodup) := by
  obtain ⟨_, hc, _⟩ := kg_result H zcfg vcfg lenGuard cof cofInv threshold ownId ownShare ssid peers res h
  have hsub : res.culprits.Sublist (peers.map (·.idx)) := by
    rw [hc]; exact (List.filter_sublist).map _
  refine ⟨?_, hsub, fun hnd => hnd.sublist hsub⟩
  intro c hcm
  obtain ⟨p, hp, rfl⟩ := List.mem_map.1 (hsub.subset hcm)
  exact ⟨p, hp, rfl⟩

/-- in particular the party never names itself (its own index is not among the peers') -/
theorem kg_never_names_self (peers : List KgPeer) (res : KgResult) (self : Nat)
    (hself : ∀ p ∈ peers, p.idx ≠ self)
    (h : kgRound3 C H zcfg vcfg lenGuard cof cofInv threshold ownId ownShare ssid peers = .ok res) :
    self ∉ res.culprits := by
  intro hm
  obtain ⟨p, hp, he⟩ :=
    (kg_culprits_subset_peers H zcfg vcfg lenGuard cof cofInv threshold ownId ownShare ssid peers res h).1 self hm
  exact hself p hp he

/-! ## 2. exactly the failing peers are named -/

theorem kg_culprit_iff (peers : List KgPeer) (res : KgResult)
    (h : kgRound3 C H zcfg vcfg lenGuard cof cofInv threshold ownId ownShare ssid peers = .ok res) (c : Nat) :
    c ∈ res.culprits ↔ ∃ p ∈ peers, p.idx = c ∧
      ∃ why, kgCheckPeer C H zcfg vcfg lenGuard cof cofInv threshold ownId ssid p = .ok (.bad why) := by
  obtain ⟨_, hc, _⟩ := kg_result H zcfg vcfg lenGuard cof cofInv threshold ownId ownShare ssid peers res h
  rw [hc, List.mem_map]
  constructor
  · rintro ⟨p, hp, rfl⟩
    obtain ⟨hp1, hp2⟩ := List.mem_filter.1 hp
    exact ⟨p, hp1, rfl, (isBad_iff _).1 hp2⟩
  · rintro ⟨p, hp, rfl, hw⟩
    exact ⟨p, List.mem_filter.2 ⟨hp, (isBad_iff _).2 hw⟩, rfl⟩

/-! ## 3. an alteration covered by the commitment, the Schnorr proof or the share check is blamed -/

/-- the de-commitment does not open the commitment of round 1 (any altered commitment, blinding factor or
committed coordinate — by `no_bad_output_binding` anything else is a hash collision) -/
theorem kg_bad_decommit_blamed (p : KgPeer)
    (h : decommitWith H p.commitment (p.decommitment.map Int.ofNat) = .ok none) :
    kgCheckPeer C H zcfg vcfg lenGuard cof cofInv threshold ownId ssid p =
      .ok (.bad "de-commitment verify failed") :=
  kgCheckPeer_decommit_none C H zcfg vcfg lenGuard cof cofInv threshold ownId ssid p h

/-- the points decode but the Schnorr verifier rejects (altered `alpha`, `t`, first commitment point, or a
proof made for another index or session: the context is `ssid ‖ bytes(p.idx)`) -/
theorem kg_bad_schnorr_blamed (p : KgPeer) (flat : List Int) (pts : List ECPoint) (v0 : ECPoint)
    (rest : List ECPoint) (al : ECPoint)
    (hd : decommitWith H p.commitment (p.decommitment.map Int.ofNat) = .ok (some flat))
    (hu : C.unflatten (flat.map Int.toNat) = some pts)
    (hm : pts.mapM (clear C cof cofInv) = .ok (v0 :: rest))
    (hl : lenGuard = true → (v0 :: rest).length = threshold + 1)
    (ha : C.ecNew p.alpha.1 p.alpha.2 = some al)
    (hs : Zk.schnorrVerify C H zcfg (contextJ ssid p.idx) v0 al p.t = .ok false) :
    kgCheckPeer C H zcfg vcfg lenGuard cof cofInv threshold ownId ssid p =
      .ok (.bad "failed to prove schnorr proof") := by
  rw [kgCheckPeer_points C H zcfg vcfg lenGuard cof cofInv threshold ownId ssid p flat pts hd hu, hm]
  exact kgTail_bad_schnorr C H zcfg vcfg lenGuard threshold ownId ssid p hl ha hs

/-- the Schnorr proof is accepted but the share fails the Feldman check -/
theorem kg_bad_share_blamed (p : KgPeer) (flat : List Int) (pts : List ECPoint) (v0 : ECPoint)
    (rest : List ECPoint) (al : ECPoint)
    (hd : decommitWith H p.commitment (p.decommitment.map Int.ofNat) = .ok (some flat))
    (hu : C.unflatten (flat.map Int.toNat) = some pts)
    (hm : pts.mapM (clear C cof cofInv) = .ok (v0 :: rest))
    (hl : lenGuard = true → (v0 :: rest).length = threshold + 1)
    (ha : C.ecNew p.alpha.1 p.alpha.2 = some al)
    (hs : Zk.schnorrVerify C H zcfg (contextJ ssid p.idx) v0 al p.t = .ok true)
    (hv : Vss.verify C vcfg threshold ⟨threshold, ownId, p.share⟩ (v0 :: rest) = .ok false) :
    kgCheckPeer C H zcfg vcfg lenGuard cof cofInv threshold ownId ssid p = .ok (.bad "vss verify failed") := by
  rw [kgCheckPeer_points C H zcfg vcfg lenGuard cof cofInv threshold ownId ssid p flat pts hd hu, hm]
  exact kgTail_bad_share C H zcfg vcfg lenGuard threshold ownId ssid p hl ha hs hv

/-- the other (format) failures: coordinates that are not curve points, a wrong number of points (K8
repair), a proof commitment that is not a curve point -/
theorem kg_bad_format_blamed (p : KgPeer) (flat : List Int)
    (hd : decommitWith H p.commitment (p.decommitment.map Int.ofNat) = .ok (some flat)) :
    (C.unflatten (flat.map Int.toNat) = none →
      kgCheckPeer C H zcfg vcfg lenGuard cof cofInv threshold ownId ssid p = .ok (.bad "unflatten")) ∧
    (∀ pts vs, C.unflatten (flat.map Int.toNat) = some pts → pts.mapM (clear C cof cofInv) = .ok vs →
      lenGuard = true → vs.length ≠ threshold + 1 →
      kgCheckPeer C H zcfg vcfg lenGuard cof cofInv threshold ownId ssid p =
        .ok (.bad "wrong number of commitment points")) ∧
    (∀ pts v0 rest, C.unflatten (flat.map Int.toNat) = some pts →
      pts.mapM (clear C cof cofInv) = .ok (v0 :: rest) →
      (lenGuard = true → (v0 :: rest).length = threshold + 1) → C.ecNew p.alpha.1 p.alpha.2 = none →
      kgCheckPeer C H zcfg vcfg lenGuard cof cofInv threshold ownId ssid p =
        .ok (.bad "failed to unmarshal schnorr proof")) := by
  refine ⟨fun hu => kgCheckPeer_unflatten_none C H zcfg vcfg lenGuard cof cofInv threshold ownId ssid p flat hd hu,
    fun pts vs hu hm hg hl => ?_, fun pts v0 rest hu hm hl ha => ?_⟩
  · rw [kgCheckPeer_points C H zcfg vcfg lenGuard cof cofInv threshold ownId ssid p flat pts hd hu, hm]
    exact kgTail_wrong_length C H zcfg vcfg lenGuard threshold ownId ssid p hg hl
  · rw [kgCheckPeer_points C H zcfg vcfg lenGuard cof cofInv threshold ownId ssid p flat pts hd hu, hm]
    exact kgTail_bad_alpha C H zcfg vcfg lenGuard threshold ownId ssid p hl ha

/-- one of the three covered checks fails on the messages of `p` -/
inductive KgCoveredFailure (C : Curve P) (H : HashFn) (zcfg : Zk.Cfg) (vcfg : Vss.VerifyCfg) (lenGuard : Bool)
    (cof cofInv threshold ownId : Nat) (ssid : Bytes) (p : KgPeer) : Prop
  | decommit (h : decommitWith H p.commitment (p.decommitment.map Int.ofNat) = .ok none)
  | schnorr (flat : List Int) (pts : List ECPoint) (v0 : ECPoint) (rest : List ECPoint) (al : ECPoint)
      (hd : decommitWith H p.commitment (p.decommitment.map Int.ofNat) = .ok (some flat))
      (hu : C.unflatten (flat.map Int.toNat) = some pts)
      (hm : pts.mapM (clear C cof cofInv) = .ok (v0 :: rest))
      (hl : lenGuard = true → (v0 :: rest).length = threshold + 1)
      (ha : C.ecNew p.alpha.1 p.alpha.2 = some al)
      (hs : Zk.schnorrVerify C H zcfg (contextJ ssid p.idx) v0 al p.t = .ok false)
  | share (flat : List Int) (pts : List ECPoint) (v0 : ECPoint) (rest : List ECPoint) (al : ECPoint)
      (hd : decommitWith H p.commitment (p.decommitment.map Int.ofNat) = .ok (some flat))
      (hu : C.unflatten (flat.map Int.toNat) = some pts)
      (hm : pts.mapM (clear C cof cofInv) = .ok (v0 :: rest))
      (hl : lenGuard = true → (v0 :: rest).length = threshold + 1)
      (ha : C.ecNew p.alpha.1 p.alpha.2 = some al)
      (hs : Zk.schnorrVerify C H zcfg (contextJ ssid p.idx) v0 al p.t = .ok true)
      (hv : Vss.verify C vcfg threshold ⟨threshold, ownId, p.share⟩ (v0 :: rest) = .ok false)

/-- **a covered alteration is blamed on its sender**: the check of that peer returns `.bad`, hence (when
the round returns) its index is in the culprit list -/
theorem kg_covered_alteration_blamed (p : KgPeer)
    (hf : KgCoveredFailure C H zcfg vcfg lenGuard cof cofInv threshold ownId ssid p) :
    (∃ why, kgCheckPeer C H zcfg vcfg lenGuard cof cofInv threshold ownId ssid p = .ok (.bad why)) ∧
    ∀ peers res, p ∈ peers →
      kgRound3 C H zcfg vcfg lenGuard cof cofInv threshold ownId ownShare ssid peers = .ok res →
      p.idx ∈ res.culprits := by
  have hbad : ∃ why, kgCheckPeer C H zcfg vcfg lenGuard cof cofInv threshold ownId ssid p = .ok (.bad why) := by
    cases hf with
    | decommit h => exact ⟨_, kg_bad_decommit_blamed H zcfg vcfg lenGuard cof cofInv threshold ownId ssid p h⟩
    | schnorr flat pts v0 rest al hd hu hm hl ha hs =>
      exact ⟨_, kg_bad_schnorr_blamed H zcfg vcfg lenGuard cof cofInv threshold ownId ssid p flat pts v0 rest al
        hd hu hm hl ha hs⟩
    | share flat pts v0 rest al hd hu hm hl ha hs hv =>
      exact ⟨_, kg_bad_share_blamed H zcfg vcfg lenGuard cof cofInv threshold ownId ssid p flat pts v0 rest al
        hd hu hm hl ha hs hv⟩
  refine ⟨hbad, fun peers res hp h => ?_⟩
  exact (kg_culprit_iff H zcfg vcfg lenGuard cof cofInv threshold ownId ownShare ssid peers res h p.idx).2
    ⟨p, hp, rfl, hbad⟩

/-- **exactly the deviator is named**: peer indices distinct, the deviator `d` fails a check, every other
peer passes -/
theorem single_deviator_blamed_exactly (peers : List KgPeer) (res : KgResult) (d : KgPeer)
    (hnd : (peers.map (·.idx)).Nodup) (hd : d ∈ peers)
    (hbad : ∃ why, kgCheckPeer C H zcfg vcfg lenGuard cof cofInv threshold ownId ssid d = .ok (.bad why))
    (hothers : ∀ p ∈ peers, p.idx ≠ d.idx →
      ∃ vs, kgCheckPeer C H zcfg vcfg lenGuard cof cofInv threshold ownId ssid p = .ok (.ok vs))
    (h : kgRound3 C H zcfg vcfg lenGuard cof cofInv threshold ownId ownShare ssid peers = .ok res) :
    res.culprits = [d.idx] := by
  have hiff := kg_culprit_iff H zcfg vcfg lenGuard cof cofInv threshold ownId ownShare ssid peers res h
  have hnd' := (kg_culprits_subset_peers H zcfg vcfg lenGuard cof cofInv threshold ownId ownShare ssid peers
    res h).2.2 hnd
  refine eq_singleton_of_nodup hnd' ((hiff d.idx).2 ⟨d, hd, rfl, hbad⟩) ?_
  intro c hc
  obtain ⟨p, hp, rfl, why, hw⟩ := (hiff c).1 hc
  by_contra hne
  obtain ⟨vs, hvs⟩ := hothers p hp hne
  rw [hvs] at hw
  cases hw

/-! ## 4. an honest peer passes; with one deviator nobody else is named -/

/-- **cofactor clearing is the identity on the prime-order subgroup**: `cof·cofInv ≡ 1 (mod q)` and
`q • P = 0` give `clear (affine P) = affine P`. (The affine form of the intermediate `cof • P` exists
automatically.) On edwards25519: `cof = 8`, `cofInv = eightInv` (`C17.cofactor_const`). -/
theorem clear_id_of_order (hC : C.Lawful) {cof cofInv : Nat} (hinv : cof * cofInv ≡ 1 [MOD C.q])
    {pa : P} {a : ECPoint} (hP : C.toAffine pa = some a) (hq : C.smul C.q pa = C.zero) :
    clear C cof cofInv a = .ok a :=
  C05L.clear_id_of_order hC hinv hP hq

/-- so it is the identity on every multiple of the base point -/
theorem clear_id_of_base_multiple (hC : C.Lawful) {cof cofInv : Nat} (hinv : cof * cofInv ≡ 1 [MOD C.q])
    (k : Nat) {a : ECPoint} (hP : C.toAffine (C.smul k C.base) = some a) :
    clear C cof cofInv a = .ok a := by
  refine clear_id_of_order hC hinv hP ?_
  rw [← hC.smul_mul, Nat.mul_comm, hC.smul_mul, hC.smul_q_base, hC.smul_zero_right]

/-- **an honestly generated peer input passes.** Coefficients `a_0 :: as` (`as.length = threshold`),
commitment points `v_c = affine(a_c·G)` (`IsCommitment`: on a curve whose identity has no affine form this
forces `a_c ≢ 0`), de-commitment `r :: flatten vs`, commitment `H`-hash of it, Schnorr proof
`schnorrProve (ssid ‖ bytes(idx)) a_0 v_0 coin` with a good coin, share `evalPoly q coeffs ownId` — under the
side conditions of `C15.vss_share_verifies` (own id and share `≢ 0`, no vanishing partial sum on a curve
without affine identity) and `hclear` (see `clear_id_of_base_multiple`). The prover returns a proof, and the
check accepts with exactly the points `vs`. -/
theorem kg_honest_peer_passes (hC : C.Lawful) (idx rN a0 : Nat) (as : List Nat) (v0 : ECPoint)
    (rest : List ECPoint) (coin : Nat)
    (hcom : Vss.IsCommitment C (a0 :: as) (v0 :: rest)) (hlen : as.length = threshold)
    (hclear : ∀ v ∈ v0 :: rest, clear C cof cofInv v = .ok v)
    (hgood : C10.Schnorr.GoodCoins C H (contextJ ssid idx) (a0 : Int) v0 coin)
    (hid : ownId % C.q ≠ 0) (hs : Vss.evalPoly C.q (a0 :: as) ownId % C.q ≠ 0)
    (hps : C.toAffine C.zero = none → Vss.PartialSumsNonzero C.q (a0 :: as) ownId) :
    ∃ al t, Zk.schnorrProve C H (contextJ ssid idx) (a0 : Int) v0 coin = .ok (al, t) ∧
      kgCheckPeer C H Zk.cur ⟨true⟩ lenGuard cof cofInv threshold ownId ssid
        { idx := idx
          commitment := (commitWith H (rN : Int) ((flatten (v0 :: rest)).map Int.ofNat)).1
          decommitment := rN :: flatten (v0 :: rest)
          alpha := al
          t := t
          share := Vss.evalPoly C.q (a0 :: as) ownId } = .ok (.ok (v0 :: rest)) :=
  kgCheckPeer_honest hC H lenGuard cof cofInv threshold ownId ssid idx rN a0 as v0 rest coin hcom hlen hclear
    hgood hid hs hps

/-- `p` is the input an honest peer with index `p.idx` produces for the party with id `ownId` -/
def HonestKgPeer (C : Curve P) (H : HashFn) (cof cofInv threshold ownId : Nat) (ssid : Bytes)
    (p : KgPeer) : Prop :=
  ∃ (rN a0 : Nat) (as : List Nat) (v0 : ECPoint) (rest : List ECPoint) (coin : Nat),
    Vss.IsCommitment C (a0 :: as) (v0 :: rest) ∧ as.length = threshold ∧
    (∀ v ∈ v0 :: rest, clear C cof cofInv v = .ok v) ∧
    C10.Schnorr.GoodCoins C H (contextJ ssid p.idx) (a0 : Int) v0 coin ∧
    Vss.evalPoly C.q (a0 :: as) ownId % C.q ≠ 0 ∧
    (C.toAffine C.zero = none → Vss.PartialSumsNonzero C.q (a0 :: as) ownId) ∧
    p.commitment = (commitWith H (rN : Int) ((flatten (v0 :: rest)).map Int.ofNat)).1 ∧
    p.decommitment = rN :: flatten (v0 :: rest) ∧
    Zk.schnorrProve C H (contextJ ssid p.idx) (a0 : Int) v0 coin = .ok (p.alpha, p.t) ∧
    p.share = Vss.evalPoly C.q (a0 :: as) ownId

theorem honest_kg_peer_passes (hC : C.Lawful) (hid : ownId % C.q ≠ 0) (p : KgPeer)
    (hp : HonestKgPeer C H cof cofInv threshold ownId ssid p) :
    ∃ vs, kgCheckPeer C H Zk.cur ⟨true⟩ lenGuard cof cofInv threshold ownId ssid p = .ok (.ok vs) := by
  obtain ⟨rN, a0, as, v0, rest, coin, hcom, hlen, hclear, hgood, hs, hps, h1, h2, h3, h4⟩ := hp
  obtain ⟨al, t, hpr, hk⟩ := kg_honest_peer_passes H lenGuard cof cofInv threshold ownId ssid hC p.idx rN a0 as
    v0 rest coin hcom hlen hclear hgood hid hs hps
  rw [h3] at hpr
  injection hpr with hpr
  injection hpr with ha ht
  obtain ⟨i, c, d, al', t', s⟩ := p
  simp only at h1 h2 h4 ha ht hk
  subst h1 h2 h4 ha ht
  exact ⟨_, hk⟩

/-- **with one deviator, nobody else is ever named**: if every peer other than `d` is honest, every name in
the culprit list is `d` -/
theorem single_deviator_blame (hC : C.Lawful) (hid : ownId % C.q ≠ 0) (peers : List KgPeer) (res : KgResult)
    (d : Nat)
    (hhonest : ∀ p ∈ peers, p.idx ≠ d → HonestKgPeer C H cof cofInv threshold ownId ssid p)
    (h : kgRound3 C H Zk.cur ⟨true⟩ lenGuard cof cofInv threshold ownId ownShare ssid peers = .ok res) :
    ∀ c ∈ res.culprits, c = d := by
  intro c hc
  obtain ⟨p, hp, rfl, why, hw⟩ :=
    (kg_culprit_iff H Zk.cur ⟨true⟩ lenGuard cof cofInv threshold ownId ownShare ssid peers res h c).1 hc
  by_contra hne
  obtain ⟨vs, hvs⟩ := honest_kg_peer_passes H lenGuard cof cofInv threshold ownId ssid hC hid p
    (hhonest p hp hne)
  rw [hvs] at hw
  cases hw

/-- the two halves together: distinct indices, all peers but `d` honest, `d`'s messages fail a covered
check ⟹ the culprit list is exactly `[d]` -/
theorem single_deviator_theorem (hC : C.Lawful) (hid : ownId % C.q ≠ 0) (peers : List KgPeer)
    (res : KgResult) (d : KgPeer) (hnd : (peers.map (·.idx)).Nodup) (hd : d ∈ peers)
    (hhonest : ∀ p ∈ peers, p.idx ≠ d.idx → HonestKgPeer C H cof cofInv threshold ownId ssid p)
    (hf : KgCoveredFailure C H Zk.cur ⟨true⟩ lenGuard cof cofInv threshold ownId ssid d)
    (h : kgRound3 C H Zk.cur ⟨true⟩ lenGuard cof cofInv threshold ownId ownShare ssid peers = .ok res) :
    res.culprits = [d.idx] :=
  single_deviator_blamed_exactly H Zk.cur ⟨true⟩ lenGuard cof cofInv threshold ownId ownShare ssid peers res d
    hnd hd (kg_covered_alteration_blamed H Zk.cur ⟨true⟩ lenGuard cof cofInv threshold ownId ownShare ssid d hf).1
    (fun p hp hne => honest_kg_peer_passes H lenGuard cof cofInv threshold ownId ssid hC hid p
      (hhonest p hp hne)) h

/-! ## 5. the round returns -/

/-- **K8 repaired — and more**: on the current tree every per-peer check RETURNS A VERDICT (no crash, no
unattributed error) whatever the peer sent -/
theorem kg_check_returns (hC : C.Lawful)
    (hcof : C.toAffine C.zero = none → ∀ p, C.smul C.q p = C.zero)
    (hnz : C.toAffine C.zero = none → cof % C.q ≠ 0 ∧ cofInv % C.q ≠ 0)
    (p : KgPeer) (hd : p.decommitment ≠ []) :
    ∃ v, kgCheckPeer C H Zk.cur ⟨true⟩ true cof cofInv threshold ownId ssid p = .ok v :=
  kgCheckPeer_total C H cof cofInv threshold ownId ssid p hC hcof hnz hd

/-- … so the round returns a result (the hypothesis `kgRound3 … = .ok res` of the theorems above always
holds for exactly one `res`) -/
theorem kg_returns (hC : C.Lawful)
    (hcof : C.toAffine C.zero = none → ∀ p, C.smul C.q p = C.zero)
    (hnz : C.toAffine C.zero = none → cof % C.q ≠ 0 ∧ cofInv % C.q ≠ 0)
    (peers : List KgPeer) (hd : ∀ p ∈ peers, p.decommitment ≠ []) :
    ∃ res, kgRound3 C H Zk.cur ⟨true⟩ true cof cofInv threshold ownId ownShare ssid peers = .ok res :=
  kgRound3_total C H _ _ _ cof cofInv threshold ownId ownShare ssid peers
    (fun p hp => kg_check_returns H cof cofInv threshold ownId ssid hC hcof hnz p (hd p hp))

theorem kg_no_panic (hC : C.Lawful)
    (hcof : C.toAffine C.zero = none → ∀ p, C.smul C.q p = C.zero)
    (hnz : C.toAffine C.zero = none → cof % C.q ≠ 0 ∧ cofInv % C.q ≠ 0)
    (peers : List KgPeer) (hd : ∀ p ∈ peers, p.decommitment ≠ []) (tag : String) :
    kgRound3 C H Zk.cur ⟨true⟩ true cof cofInv threshold ownId ownShare ssid peers ≠ .panic tag := by
  obtain ⟨res, hres⟩ := kg_returns H cof cofInv threshold ownId ownShare ssid hC hcof hnz peers hd
  rw [hres]; nofun

end kg

/-! ### witnesses on toy curves (kernel evaluation) -/
section kgWitnesses

instance fact23 : Fact (Nat.Prime 23) := ⟨by decide⟩
/-- toy lawful curve of order 23 whose identity has affine coordinates (like edwards25519) -/
abbrev E := zmodCurve 23
/-- … and one whose identity has none (like secp256k1) -/
abbrev W := zmodCurveW 23
/-- a trivial "hash" with empty digests: every commitment value is `0` -/
def Hnil : HashFn := fun _ => []
/-- a trivial "hash" whose digests are the byte `1`: every challenge is `1` -/
def Hone : HashFn := fun _ => [1]

/-- **K8 as it was** (`lenGuard = false`): a de-commitment `[r]` that opens commitment `0` to NO points makes
the goroutine index `PjVs[0]` out of range; the repaired tree reports the sender -/
theorem kg_old_panics_witness :
    kgCheckPeer E Hnil Zk.old ⟨false⟩ false 8 3 1 2 [] ⟨1, 0, [5], (0, 0), 0, 0⟩ =
      .panic "index-out-of-range" ∧
    kgRound3 E Hnil Zk.old ⟨false⟩ false 8 3 1 2 7 [] [⟨1, 0, [5], (0, 0), 0, 0⟩] =
      .panic "index-out-of-range" ∧
    kgRound3 E Hnil Zk.cur ⟨true⟩ true 8 3 1 2 7 [] [⟨1, 0, [5], (0, 0), 0, 0⟩] = .ok ⟨[1], 7⟩ := by
  decide

/-- the hypothesis `hnz` of `kg_no_panic` is needed: clearing with `cof = q` on a curve whose identity has no
affine form crashes `ScalarMult` (EdDSA is never run on such a curve) -/
theorem kg_clear_scalars_needed_witness :
    kgCheckPeer W Hnil Zk.cur ⟨true⟩ true 23 1 0 2 [] ⟨1, 0, [5, 3, 0], (0, 0), 0, 0⟩ =
      .panic "scalar-mult-identity" := by
  decide

end kgWitnesses

/-! ## 6. no culprit ⟹ the saved share is consistent with the public view -/
section consistent
variable (H : HashFn) (zcfg : Zk.Cfg) (vcfg : Vss.VerifyCfg) (lenGuard : Bool)
  (cof cofInv threshold ownId ownShare : Nat) (ssid : Bytes)

/-- **exact acceptance condition** of the per-peer check: the commitment opens, the coordinates are curve
points, they are cleared to `vs`, `vs` has `threshold + 1` points (K8 repair), the Schnorr proof for `vs[0]`
under `ssid ‖ bytes(idx)` and the Feldman check of the share against `vs` are accepted -/
theorem kg_check_accepts_iff (p : KgPeer) (vs : List ECPoint) :
    kgCheckPeer C H zcfg vcfg lenGuard cof cofInv threshold ownId ssid p = .ok (.ok vs) ↔
      ∃ flat pts, decommitWith H p.commitment (p.decommitment.map Int.ofNat) = .ok (some flat) ∧
        C.unflatten (flat.map Int.toNat) = some pts ∧
        pts.mapM (clear C cof cofInv) = .ok vs ∧
        (lenGuard = true → vs.length = threshold + 1) ∧
        (∃ v0 rest al, vs = v0 :: rest ∧ C.ecNew p.alpha.1 p.alpha.2 = some al ∧
          Zk.schnorrVerify C H zcfg (contextJ ssid p.idx) v0 al p.t = .ok true) ∧
        Vss.verify C vcfg threshold ⟨threshold, ownId, p.share⟩ vs = .ok true := by
  rw [kgCheckPeer_ok_iff]
  constructor
  · rintro ⟨flat, pts, h1, h2, h3, h4⟩
    exact ⟨flat, pts, h1, h2, h3, h4.len, h4.schnorr, h4.share⟩
  · rintro ⟨flat, pts, h1, h2, h3, h4, h5, h6⟩
    exact ⟨flat, pts, h1, h2, h3, ⟨h4, h5, h6⟩⟩

/-- **no culprit ⟹ consistent share.** When the round reports nobody: every peer's check accepted (so every
received share passed `Vss.verify` against that peer's cleared commitment points), the saved share is
`(ownShare + Σ shares) mod q`, and — the party's own share verifying against its own points `ownVs` — the
saved share matches the public share point `BigX_ownId` computed from the combined commitments
(`C03.verify_accept_implies_consistent`): `xi·G = Vc[0] + Σ_c (ownId^c mod q)·Vc[c]`, `Vc = Σ_dealers V`. -/
theorem kg_accept_consistent (hC : C.Lawful) (peers : List KgPeer) (res : KgResult)
    (h : kgRound3 C H zcfg vcfg lenGuard cof cofInv threshold ownId ownShare ssid peers = .ok res)
    (hnil : res.culprits = []) (ownVs : List ECPoint)
    (hown : Vss.verify C vcfg threshold ⟨threshold, ownId, ownShare⟩ ownVs = .ok true) :
    (∀ p ∈ peers, ∃ vs,
      kgCheckPeer C H zcfg vcfg lenGuard cof cofInv threshold ownId ssid p = .ok (.ok vs) ∧
      Vss.verify C vcfg threshold ⟨threshold, ownId, p.share⟩ vs = .ok true) ∧
    res.xi = (ownShare + (peers.map (·.share)).sum) % C.q ∧
    C.smul res.xi C.base =
      AlgL.pubShare C (AlgL.combined C (none :: peers.map some) fun i c =>
        ((kgPointsOf (kgCheckPeer C H zcfg vcfg lenGuard cof cofInv threshold ownId ssid) ownVs i).map
          (AlgL.liftD C)).getD c C.zero) threshold ownId := by
  refine ⟨fun p hp => ?_, (kg_result H zcfg vcfg lenGuard cof cofInv threshold ownId ownShare ssid peers res h).2.2,
    kgRound3_consistent H zcfg vcfg lenGuard cof cofInv threshold ownId ownShare ssid hC peers res h hnil
      ownVs hown⟩
  obtain ⟨vs, hvs⟩ := kgRound3_no_culprits H zcfg vcfg lenGuard cof cofInv threshold ownId ownShare ssid peers
    res h hnil p hp
  obtain ⟨_, _, _, _, _, hacc⟩ :=
    (kgCheckPeer_ok_iff C H zcfg vcfg lenGuard cof cofInv threshold ownId ssid p vs).1 hvs
  exact ⟨vs, hvs, hacc.share⟩

/-- **an accepted share lies on the sender's committed polynomial** (`C15.vss_verify_sound`): if the accepted
points are commitments `a_c·G` to coefficients `as`, then `Σ a_c·ownId^c ≡ share (mod q)`, and neither the
share nor the own id is `0 (mod q)` -/
theorem kg_accept_on_polynomial (hC : C.Lawful) (p : KgPeer) (vs : List ECPoint)
    (h : kgCheckPeer C H zcfg ⟨true⟩ lenGuard cof cofInv threshold ownId ssid p = .ok (.ok vs))
    (as : List Nat) (hcom : Vss.IsCommitment C as vs) :
    as.length = threshold + 1 ∧ ownId % C.q ≠ 0 ∧ p.share % C.q ≠ 0 ∧
      Vss.polyNat as ownId ≡ p.share [MOD C.q] := by
  obtain ⟨_, _, _, _, _, hacc⟩ :=
    (kgCheckPeer_ok_iff C H zcfg ⟨true⟩ lenGuard cof cofInv threshold ownId ssid p vs).1 h
  have hv := hacc.share
  have hlen : as.length = threshold + 1 := by
    rw [hcom.length_eq]
    by_contra hne
    rw [Vss.verify_unfold, if_pos (by simp [hne])] at hv
    cases hv
  obtain ⟨_, h2, h3, h4⟩ := C15.vss_verify_sound hC as vs hcom threshold hlen _ hv
  exact ⟨hlen, h2, h3, h4⟩

end consistent

/-! ## 7. signing round 3 -/
section sg
variable (H : HashFn) (zcfg : Zk.Cfg) (blameDecommit errFirst : Bool) (cof cofInv : Nat) (ssid : Bytes)

/-- **the error names the first failing peer**: `sgRound3 = .ok (some (i, b))` iff the peer list splits as
`pre ++ p :: post` with every peer of `pre` accepted, `p` rejected with blame flag `b`, and `i = p.idx` -/
theorem sg_error_names_first_failing_peer (peers : List SgPeer) (i : Nat) (b : Bool) :
    sgRound3 C H zcfg blameDecommit errFirst cof cofInv ssid peers = .ok (some (i, b)) ↔
      ∃ pre p post why, peers = pre ++ p :: post ∧
        (∀ p' ∈ pre, ∃ r, sgCheckPeer C H zcfg blameDecommit errFirst cof cofInv ssid p' = .ok (.ok r)) ∧
        sgCheckPeer C H zcfg blameDecommit errFirst cof cofInv ssid p = .ok (.bad why b) ∧ p.idx = i :=
  sgRound3_some_iff C H zcfg blameDecommit errFirst cof cofInv ssid peers i b

/-- the round passes iff every peer's check passes -/
theorem sg_pass_iff (peers : List SgPeer) :
    sgRound3 C H zcfg blameDecommit errFirst cof cofInv ssid peers = .ok none ↔
      ∀ p ∈ peers, ∃ r, sgCheckPeer C H zcfg blameDecommit errFirst cof cofInv ssid p = .ok (.ok r) :=
  sgRound3_none_iff C H zcfg blameDecommit errFirst cof cofInv ssid peers

/-- in particular the named index is a peer's, never the party's own -/
theorem sg_error_names_a_peer (peers : List SgPeer) (i : Nat) (b : Bool)
    (h : sgRound3 C H zcfg blameDecommit errFirst cof cofInv ssid peers = .ok (some (i, b))) :
    ∃ p ∈ peers, p.idx = i := by
  obtain ⟨pre, p, post, _, rfl, _, _, hi⟩ :=
    (sg_error_names_first_failing_peer H zcfg blameDecommit errFirst cof cofInv ssid peers i b).1 h
  exact ⟨p, by simp, hi⟩

/-- **D1 repaired**: with `blameDecommit` and `errFirst` every reported error carries its culprit -/
theorem sg_error_always_blamed (peers : List SgPeer) (i : Nat) (b : Bool)
    (h : sgRound3 C H zcfg true true cof cofInv ssid peers = .ok (some (i, b))) : b = true := by
  obtain ⟨_, p, _, why, _, _, hbad, _⟩ :=
    (sg_error_names_first_failing_peer H zcfg true true cof cofInv ssid peers i b).1 h
  exact sgCheckPeer_bad_blamed C H zcfg cof cofInv ssid p why b hbad

/-- exact acceptance condition of the signing check -/
theorem sg_check_accepts_iff (p : SgPeer) (rj : ECPoint) :
    sgCheckPeer C H zcfg blameDecommit errFirst cof cofInv ssid p = .ok (.ok rj) ↔
      ∃ x y rj0 al, decommitWith H p.commitment (p.decommitment.map Int.ofNat) = .ok (some [x, y]) ∧
        C.ecNew x.toNat y.toNat = some rj0 ∧ clear C cof cofInv rj0 = .ok rj ∧
        C.ecNew p.alpha.1 p.alpha.2 = some al ∧
        Zk.schnorrVerify C H zcfg (contextJ ssid p.idx) rj al p.t = .ok true :=
  sgCheckPeer_ok_iff C H zcfg blameDecommit errFirst cof cofInv ssid p rj

/-- **a covered alteration is blamed** (signing): a de-commitment that does not open the commitment, or a
nonce point whose Schnorr proof is rejected, gives `.bad` — with the blame flag set on the repaired tree -/
theorem sg_covered_alteration_blamed (p : SgPeer) :
    (decommitWith H p.commitment (p.decommitment.map Int.ofNat) = .ok none →
      sgCheckPeer C H zcfg blameDecommit errFirst cof cofInv ssid p =
        .ok (.bad "de-commitment verify failed" blameDecommit)) ∧
    (∀ x y rj0 rj al, decommitWith H p.commitment (p.decommitment.map Int.ofNat) = .ok (some [x, y]) →
      C.ecNew x.toNat y.toNat = some rj0 → clear C cof cofInv rj0 = .ok rj →
      C.ecNew p.alpha.1 p.alpha.2 = some al →
      Zk.schnorrVerify C H zcfg (contextJ ssid p.idx) rj al p.t = .ok false →
      sgCheckPeer C H zcfg blameDecommit errFirst cof cofInv ssid p = .ok (.bad "failed to prove Rj" true)) := by
  refine ⟨sgCheckPeer_decommit_none C H zcfg blameDecommit errFirst cof cofInv ssid p, ?_⟩
  intro x y rj0 rj al hd hn hc ha hs
  rw [sgCheckPeer_coords C H zcfg blameDecommit errFirst cof cofInv ssid p x y hd, hn]
  exact sgTail_bad_schnorr C H zcfg cof cofInv ssid p rj0 rj al hc ha hs

/-- **an honest signer passes**: nonce `ri`, `Rj = affine(ri·G)`, de-commitment `[r, Rj.x, Rj.y]`, Schnorr
proof for `ri` under `ssid ‖ bytes(idx)` with a good coin, `Rj` fixed by cofactor clearing
(`clear_id_of_base_multiple`) -/
theorem sg_honest_peer_passes (hC : C.Lawful) (idx rN ri : Nat) (Rj : ECPoint) (coin : Nat)
    (hR : C.toAffine (C.smul ri C.base) = some Rj)
    (hclear : clear C cof cofInv Rj = .ok Rj)
    (hgood : C10.Schnorr.GoodCoins C H (contextJ ssid idx) (ri : Int) Rj coin) :
    ∃ al t, Zk.schnorrProve C H (contextJ ssid idx) (ri : Int) Rj coin = .ok (al, t) ∧
      sgCheckPeer C H Zk.cur blameDecommit errFirst cof cofInv ssid
        { idx := idx
          commitment := (commitWith H (rN : Int) [(Rj.1 : Int), (Rj.2 : Int)]).1
          decommitment := [rN, Rj.1, Rj.2]
          alpha := al
          t := t } = .ok (.ok Rj) :=
  sgCheckPeer_honest H blameDecommit errFirst cof cofInv ssid hC idx rN ri Rj coin hR hclear hgood

/-- **single deviator, signing**: if every peer other than `d` passes, any reported error names `d`; and if
`d`'s check fails (on the repaired tree) the round reports exactly `(d, blamed)` -/
theorem sg_single_deviator_blame (peers : List SgPeer) (d : Nat)
    (hothers : ∀ p ∈ peers, p.idx ≠ d →
      ∃ r, sgCheckPeer C H zcfg blameDecommit errFirst cof cofInv ssid p = .ok (.ok r))
    (i : Nat) (b : Bool)
    (h : sgRound3 C H zcfg blameDecommit errFirst cof cofInv ssid peers = .ok (some (i, b))) : i = d := by
  obtain ⟨pre, p, post, why, rfl, _, hbad, hi⟩ :=
    (sg_error_names_first_failing_peer H zcfg blameDecommit errFirst cof cofInv ssid _ i b).1 h
  by_contra hne
  obtain ⟨r, hr⟩ := hothers p (by simp) (by rw [hi]; exact hne)
  rw [hr] at hbad
  cases hbad

theorem sg_single_deviator_blamed_exactly (peers : List SgPeer) (d : SgPeer)
    (hnd : (peers.map (·.idx)).Nodup) (hd : d ∈ peers)
    (hothers : ∀ p ∈ peers, p.idx ≠ d.idx →
      ∃ r, sgCheckPeer C H zcfg true true cof cofInv ssid p = .ok (.ok r))
    (hbad : ∃ why b, sgCheckPeer C H zcfg true true cof cofInv ssid d = .ok (.bad why b)) :
    sgRound3 C H zcfg true true cof cofInv ssid peers = .ok (some (d.idx, true)) := by
  obtain ⟨pre, post, rfl⟩ := List.append_of_mem hd
  obtain ⟨why, b, hb⟩ := hbad
  have hbt : b = true := sgCheckPeer_bad_blamed C H zcfg cof cofInv ssid d why b hb
  subst hbt
  refine (sg_error_names_first_failing_peer H zcfg true true cof cofInv ssid _ d.idx true).2
    ⟨pre, d, post, why, rfl, ?_, hb, rfl⟩
  intro p hp
  refine hothers p (by simp [hp]) ?_
  intro he
  rw [List.map_append, List.map_cons] at hnd
  have := (List.nodup_append.1 hnd).2.2 p.idx (List.mem_map.2 ⟨p, hp, rfl⟩) d.idx (List.mem_cons_self ..)
  exact this he

/-- the signing round returns (no crash, no unattributed error) on the repaired tree -/
theorem sg_returns (hC : C.Lawful)
    (hcof : C.toAffine C.zero = none → ∀ p, C.smul C.q p = C.zero)
    (hnz : C.toAffine C.zero = none → cof % C.q ≠ 0 ∧ cofInv % C.q ≠ 0)
    (peers : List SgPeer) (hd : ∀ p ∈ peers, p.decommitment ≠ []) :
    ∃ o, sgRound3 C H Zk.cur blameDecommit true cof cofInv ssid peers = .ok o :=
  sgRound3_total H blameDecommit cof cofInv ssid hC hcof hnz peers hd

end sg

/-! ### witnesses on the toy curve -/
section sgWitnesses

/-- **D1 as it was** (`blameDecommit = false`): a de-commitment that does not open the commitment produced an
error WITHOUT a culprit; the repaired tree names the sender -/
theorem sg_old_unblamed_witness :
    sgRound3 E Hnil Zk.old false false 8 3 [] [⟨1, 1, [5, 3, 0], (0, 0), 0⟩] = .ok (some (1, false)) ∧
    sgRound3 E Hnil Zk.cur true true 8 3 [] [⟨1, 1, [5, 3, 0], (0, 0), 0⟩] = .ok (some (1, true)) := by
  decide

/-- **K9 as it was** (`errFirst = false`): coordinates off the curve made `NewECPoint` return nil and the next
line dereference it; the repaired tree reports the sender -/
theorem sg_old_nil_panics_witness :
    sgCheckPeer E Hnil Zk.old false false 8 3 [] ⟨1, 0, [5, 3, 1], (0, 0), 0⟩ = .panic "nil-Rj" ∧
    sgRound3 E Hnil Zk.old false false 8 3 [] [⟨1, 0, [5, 3, 1], (0, 0), 0⟩] = .panic "nil-Rj" ∧
    sgRound3 E Hnil Zk.cur true true 8 3 [] [⟨1, 0, [5, 3, 1], (0, 0), 0⟩] = .ok (some (1, true)) := by
  decide

/-- the second peer fails, the third would too: the first failing one (index 2) is reported -/
theorem sg_first_failing_witness :
    sgRound3 E Hone Zk.cur true true 8 3 []
      [⟨1, 1, [5, 3, 0], (5, 0), 8⟩, ⟨2, 1, [5, 3, 0], (5, 0), 9⟩, ⟨3, 0, [5, 3, 0], (5, 0), 8⟩] =
      .ok (some (2, true)) := by
  decide

/-- a "hash" that depends on its input (sum of the bytes), so that the context `ssid ‖ bytes(j)` matters -/
def Hsum : HashFn := fun b => [b.foldl (fun a x => a + x) 0]

/-- **replaying another participant's messages as one's own is blamed on the replayer**: peer `1`'s honest
round messages are accepted under index `1` and rejected under index `2` (the Schnorr proof was made for the
context `ssid ‖ bytes(1)`), in key generation and in signing; the round names `2` and only `2` -/
theorem replay_blamed_witness :
    kgRound3 E Hsum Zk.cur ⟨true⟩ true 8 3 1 2 7 []
      [⟨1, 200, [5, 3, 0, 4, 0], (5, 0), 12, 11⟩, ⟨2, 200, [5, 3, 0, 4, 0], (5, 0), 12, 11⟩] = .ok ⟨[2], 6⟩ ∧
    sgRound3 E Hsum Zk.cur true true 8 3 []
      [⟨1, 121, [5, 3, 0], (5, 0), 12⟩, ⟨2, 121, [5, 3, 0], (5, 0), 12⟩] = .ok (some (2, true)) := by
  decide +kernel

end sgWitnesses

/-! ## 8. no bad output (re-exports closing the first sentence of the property) -/
section noBadOutput
open Sign

/-- whatever signature `finalize` emits — on ANY inputs, so also after any deviation — verifies
(`C01.finalize_sound`) -/
theorem no_bad_output_signature (C : Curve P) (hq : C.q < 2 ^ 256) (pub : ECPoint)
    (rx ry sumS m fullLen : Nat) (d : SigData) (h : ecdsaFinalize C pub rx ry sumS m fullLen = .ok d) :
    ecdsaVerify C pub (hashToInt C.q d.m) rx (bytesToNat d.s) = true :=
  (C01.finalize_sound C hq pub rx ry sumS m fullLen d h).1

/-- shares that all passed `Vss.verify` — whatever the dealers sent — sum to a share consistent with the public
share point of the combined commitments (`C03.verify_accept_implies_consistent`) -/
theorem no_bad_output_share {ι : Type} (hC : C.Lawful) (cfg : Vss.VerifyCfg) (ds : List ι) (t k : Nat)
    (sh : ι → Vss.Share) (vss : ι → List ECPoint)
    (hid : ∀ i ∈ ds, (sh i).id = k)
    (hv : ∀ i ∈ ds, Vss.verify C cfg t (sh i) (vss i) = .ok true) :
    C.smul ((ds.map fun i => (sh i).share).sum % C.q) C.base =
      AlgL.pubShare C (AlgL.combined C ds fun i c => ((vss i).map (AlgL.liftD C)).getD c C.zero) t k :=
  (C03.verify_accept_implies_consistent hC cfg ds t k sh vss hid hv).2

/-- a different opening of the same commitment is a collision of the hash (`C16.commit_binding`): this is why
an altered committed value is detected by the de-commitment check -/
theorem no_bad_output_binding (H : HashFn) (c : Nat) {d d' : List Nat}
    (hd : C16.Short (d.map natToBytesBE)) (hd' : C16.Short (d'.map natToBytesBE)) (hne : d ≠ d')
    (h1 : commitVerifyWith H c (d.map fun (n : Nat) => (n : Int)) = .ok true)
    (h2 : commitVerifyWith H c (d'.map fun (n : Nat) => (n : Int)) = .ok true) :
    ∃ a b : Bytes, a ≠ b ∧ bytesToNat (H a) = bytesToNat (H b) :=
  C16.commit_binding H c hd hd' hne h1 h2

/-- in the form the rounds use it: if two de-commitments both pass `DeCommit` against one commitment value,
they are equal or exhibit a collision -/
theorem no_bad_output_decommit_unique (H : HashFn) (c : Nat) (d d' : List Nat)
    (hd : C16.Short (d.map natToBytesBE)) (hd' : C16.Short (d'.map natToBytesBE))
    (flat flat' : List Int)
    (h1 : decommitWith H c (d.map Int.ofNat) = .ok (some flat))
    (h2 : decommitWith H c (d'.map Int.ofNat) = .ok (some flat')) :
    d = d' ∨ ∃ a b : Bytes, a ≠ b ∧ bytesToNat (H a) = bytesToNat (H b) := by
  by_cases hne : d = d'
  · exact Or.inl hne
  · right
    have conv : ∀ (l : List Nat) (f : List Int), decommitWith H c (l.map Int.ofNat) = .ok (some f) →
        commitVerifyWith H c (l.map fun (n : Nat) => (n : Int)) = .ok true := by
      intro l f h
      unfold decommitWith at h
      split at h
      · rename_i hv; exact hv
      · cases h
      · cases h
      · cases h
    exact C16.commit_binding H c hd hd' hne (conv d flat h1) (conv d' flat' h2)

end noBadOutput

/-! ## the hypotheses are satisfiable (toy curve `E = zmodCurve 23`, `cof = 8`, `cofInv = 3`) -/
section examples

/-- item 3, de-commitment: with `Hone` every commitment value is `1`; a peer announcing `0` fails to open -/
example : KgCoveredFailure E Hone Zk.cur ⟨true⟩ true 8 3 1 2 [] ⟨1, 0, [5, 3, 0, 4, 0], (5, 0), 8, 11⟩ :=
  .decommit (by decide)

/-- item 3, Schnorr: the honest values with `t` altered from `8` to `9` -/
example : KgCoveredFailure E Hone Zk.cur ⟨true⟩ true 8 3 1 2 [] ⟨1, 1, [5, 3, 0, 4, 0], (5, 0), 9, 11⟩ :=
  .schnorr [3, 0, 4, 0] [(3, 0), (4, 0)] (3, 0) [(4, 0)] (5, 0) (by decide) (by decide) (by decide)
    (by decide) (by decide) (by decide)

/-- item 3, share: the honest values with the share altered from `11` to `12` -/
example : KgCoveredFailure E Hone Zk.cur ⟨true⟩ true 8 3 1 2 [] ⟨1, 1, [5, 3, 0, 4, 0], (5, 0), 8, 12⟩ :=
  .share [3, 0, 4, 0] [(3, 0), (4, 0)] (3, 0) [(4, 0)] (5, 0) (by decide) (by decide) (by decide)
    (by decide) (by decide) (by decide) (by decide)

/-- item 4: polynomial `3 + 4X`, `t = 1`, own id `2`, share `f(2) = 11`, blinding `5`, coin `5` -/
example : HonestKgPeer E Hone 8 3 1 2 [] ⟨1, 1, [5, 3, 0, 4, 0], (5, 0), 8, 11⟩ :=
  ⟨5, 3, [4], (3, 0), [(4, 0)], 5, .cons (by decide) (.cons (by decide) .nil), rfl, by decide, by decide,
    by decide, fun h => absurd h (by decide), by decide, rfl, by decide, by decide⟩

/-- … and the check does accept it (kernel evaluation of the model, agreeing with `honest_kg_peer_passes`) -/
example : kgCheckPeer E Hone Zk.cur ⟨true⟩ true 8 3 1 2 [] ⟨1, 1, [5, 3, 0, 4, 0], (5, 0), 8, 11⟩ =
    .ok (.ok [(3, 0), (4, 0)]) := by decide

/-- `clear_id_of_order`: `8·3 ≡ 1 (mod 23)` -/
example : (8 * 3 ≡ 1 [MOD E.q]) := by decide

/-- a round with the honest peer `1` and the deviator `2` (altered share): exactly `[2]` is reported -/
example : kgRound3 E Hone Zk.cur ⟨true⟩ true 8 3 1 2 7 []
    [⟨1, 1, [5, 3, 0, 4, 0], (5, 0), 8, 11⟩, ⟨2, 1, [5, 3, 0, 4, 0], (5, 0), 8, 12⟩] = .ok ⟨[2], 7⟩ := by
  decide

/-- item 6: the party's own polynomial `2 + 4X` (`f(2) = 10`), one honest peer, nobody blamed: hypotheses of
`kg_accept_consistent`; the saved share is `(10 + 11) mod 23` -/
example : kgRound3 E Hone Zk.cur ⟨true⟩ true 8 3 1 2 10 [] [⟨1, 1, [5, 3, 0, 4, 0], (5, 0), 8, 11⟩] =
      .ok ⟨[], 21⟩ ∧
    Vss.verify E ⟨true⟩ 1 ⟨1, 2, 10⟩ [(2, 0), (4, 0)] = .ok true := by decide

/-- item 7: an honest signer (nonce `3`, coin `5`) passes; hypotheses of `sg_honest_peer_passes` -/
example : E.toAffine (E.smul 3 E.base) = some (3, 0) ∧ clear E 8 3 (3, 0) = .ok (3, 0) ∧
    C10.Schnorr.GoodCoins E Hone (contextJ [] 1) (3 : Int) (3, 0) 5 := by decide

example : sgCheckPeer E Hone Zk.cur true true 8 3 [] ⟨1, 1, [5, 3, 0], (5, 0), 8⟩ = .ok (.ok (3, 0)) := by
  decide

/-- item 7: a failing one (altered `t`): `.bad`, blamed -/
example : sgCheckPeer E Hone Zk.cur true true 8 3 [] ⟨2, 1, [5, 3, 0], (5, 0), 9⟩ =
    .ok (.bad "failed to prove Rj" true) := by decide

end examples

end TssVerif.C05
