import TssVerif.Lemmas.AlgEddsa
import TssVerif.Lemmas.AlgBytes
import TssVerif.Props.C17
import Mathlib.Data.ZMod.Basic
import Mathlib.Data.Fin.VecNotation
/-! # C02 — threshold EdDSA signing

"Threshold EdDSA signing yields a signature `(R, s)` with `s·B = R + h·A` under the group key."

The algebra is stated for ANY additive commutative group `G` (Mathlib `AddCommGroup`) with a base point
`B` killed by `l`: nothing of edwards25519 is used. `eddsa_cofactored_check` adds what the code does to
the received `R_j` (`EightInvEight`, i.e. multiplication by `8·(8⁻¹ mod l)`, see `C17.cofactor_clear`):
honest `R_j` are unchanged, and a small-order component added to an `R_j` is removed.
The little-endian scalar helpers of `eddsa/signing/utils.go` are characterised for every input. -/
set_option autoImplicit false
namespace TssVerif.C02
open TssVerif AlgL

/-! ## the share algebra -/

/-- **EdDSA share algebra**: public key `A = x·B`, nonce point `R = (Σr_i)·B`, shares
`s_i ≡ r_i + h·w_i (mod l)` (`ScMulAdd`), `Σw_i ≡ x (mod l)` (the Lagrange weights, C01), `l·B = 0`.
Then `(Σs_i mod l)·B = R + h·A` — the verification equation of RFC 8032. -/
theorem eddsa_sign_algebra {G : Type*} [AddCommGroup G] {ι : Type*} (s : Finset ι) (B A R : G)
    (l x h : ℕ) (r w sh : ι → ℕ)
    (hl : l • B = 0) (hA : A = x • B) (hR : R = (∑ i ∈ s, r i) • B)
    (hs : ∀ i ∈ s, sh i ≡ r i + h * w i [MOD l]) (hw : ∑ i ∈ s, w i ≡ x [MOD l]) :
    ((∑ i ∈ s, sh i) % l) • B = R + h • A :=
  AlgL.eddsa_sign_algebra s B A R l x h r w sh hl hA hR hs hw

/-- the same with `R` as the sum of the broadcast points `R_i = r_i·B` -/
theorem eddsa_sign_algebra_points {G : Type*} [AddCommGroup G] {ι : Type*} (s : Finset ι) (B A : G)
    (Ri : ι → G) (l x h : ℕ) (r w sh : ι → ℕ)
    (hl : l • B = 0) (hA : A = x • B) (hR : ∀ i ∈ s, Ri i = r i • B)
    (hs : ∀ i ∈ s, sh i ≡ r i + h * w i [MOD l]) (hw : ∑ i ∈ s, w i ≡ x [MOD l]) :
    ((∑ i ∈ s, sh i) % l) • B = (∑ i ∈ s, Ri i) + h • A := by
  apply eddsa_sign_algebra s B A _ l x h r w sh hl hA _ hs hw
  rw [Finset.sum_congr rfl hR, Finset.sum_nsmul_assoc]

/-- **with the cofactor clearing of round 3**: signer `me` uses its own `R_me = r_me·B` as is and replaces
every received `R_j` by `(8e)·R_j` with `8e ≡ 1 (mod l)`. If `R_j = r_j·B + T_j` with `8·T_j = 0`
(honest: `T_j = 0`; a dishonest sender may add a small-order point), the equation still holds with the
`r_j` — the small-order parts are gone. -/
theorem eddsa_cofactored_check {G : Type*} [AddCommGroup G] {ι : Type*} [DecidableEq ι]
    (s : Finset ι) (me : ι) (hme : me ∈ s) (B A : G) (Rj T : ι → G) (l e x h : ℕ) (r w sh : ι → ℕ)
    (he : 8 * e ≡ 1 [MOD l])
    (hl : l • B = 0) (hA : A = x • B)
    (hRj : ∀ j ∈ s, Rj j = r j • B + T j) (hT : ∀ j ∈ s, 8 • T j = 0)
    (hs : ∀ i ∈ s, sh i ≡ r i + h * w i [MOD l]) (hw : ∑ i ∈ s, w i ≡ x [MOD l]) :
    ((∑ i ∈ s, sh i) % l) • B = (r me • B + ∑ j ∈ s.erase me, (8 * e) • Rj j) + h • A := by
  have hclear : ∀ j ∈ s, (8 * e) • Rj j = r j • B := by
    intro j hj
    have hlr : l • (r j • B) = 0 := by rw [smul_comm, hl, nsmul_zero]
    have h8l : (8 * l) • (r j • B) = 0 := by rw [mul_nsmul', hlr, nsmul_zero]
    obtain ⟨_, h2, h3⟩ := C17.cofactor_clear he (r j • B) h8l
    rw [hRj j hj, h3 (T j) (hT j hj)]
    exact h2 hlr
  have hsum : r me • B + ∑ j ∈ s.erase me, (8 * e) • Rj j = (∑ i ∈ s, r i) • B := by
    rw [Finset.sum_congr rfl (fun j hj => hclear j (Finset.mem_of_mem_erase hj)),
      Finset.add_sum_erase s (fun j => r j • B) hme, Finset.sum_nsmul_assoc]
  rw [hsum]
  exact eddsa_sign_algebra s B A _ l x h r w sh hl hA rfl hs hw

/-- honest senders: every `R_j` has order dividing `l` and is left unchanged by the clearing -/
theorem eddsa_cofactored_check_honest {G : Type*} [AddCommGroup G] {ι : Type*} [DecidableEq ι]
    (s : Finset ι) (me : ι) (hme : me ∈ s) (B A : G) (Rj : ι → G) (l e x h : ℕ) (r w sh : ι → ℕ)
    (he : 8 * e ≡ 1 [MOD l])
    (hl : l • B = 0) (hA : A = x • B) (hRj : ∀ j ∈ s, Rj j = r j • B)
    (hs : ∀ i ∈ s, sh i ≡ r i + h * w i [MOD l]) (hw : ∑ i ∈ s, w i ≡ x [MOD l]) :
    (∀ j ∈ s, (8 * e) • Rj j = Rj j) ∧
    ((∑ i ∈ s, sh i) % l) • B = (Rj me + ∑ j ∈ s.erase me, (8 * e) • Rj j) + h • A := by
  constructor
  · intro j hj
    have hlr : l • Rj j = 0 := by rw [hRj j hj, smul_comm, hl, nsmul_zero]
    have h8l : (8 * l) • Rj j = 0 := by rw [mul_nsmul', hlr, nsmul_zero]
    exact (C17.cofactor_clear he (Rj j) h8l).2.1 hlr
  · rw [hRj me hme]
    exact eddsa_cofactored_check s me hme B A Rj (fun _ => 0) l e x h r w sh he hl hA
      (fun j hj => by rw [hRj j hj, add_zero]) (fun _ _ => nsmul_zero 8) hs hw

/-! ## the scalar encoders of `eddsa/signing/utils.go` -/

/-- `bigIntToEncodedBytes` always returns 32 bytes -/
theorem enc_length (a : ℕ) : (Sign.Ed.bigIntToEncodedBytes a).length = 32 :=
  bigIntToEncodedBytes_length a

/-- round trip below `2^256` -/
theorem enc_roundtrip {a : ℕ} (h : a < 2 ^ 256) :
    Sign.Ed.encodedBytesToBigInt (Sign.Ed.bigIntToEncodedBytes a) = a :=
  AlgL.enc_roundtrip h

/-- recorded behaviour, every input: the encoder keeps the 32 MOST significant bytes of the big-endian
representation, so a value of `n > 32` bytes is decoded back as `a / 256^(n − 32)` (the Go comment says
"Caveat: a can be longer than 32 bytes") -/
theorem enc_truncates (a : ℕ) :
    Sign.Ed.encodedBytesToBigInt (Sign.Ed.bigIntToEncodedBytes a) =
      a / 256 ^ ((natToBytesBE a).length - 32) :=
  enc_decode a

/-- concrete witness: `2^256 + 5` (33 bytes `01 00 … 00 05`) is encoded as the 32 bytes `01 00 … 00`,
decoded `2^248` — neither `a` nor `a mod 2^256` -/
theorem bigIntToEncodedBytes_truncates_witness :
    Sign.Ed.bigIntToEncodedBytes (2 ^ 256 + 5) = (1 :: List.replicate 31 0).reverse ∧
    Sign.Ed.encodedBytesToBigInt (Sign.Ed.bigIntToEncodedBytes (2 ^ 256 + 5)) = 2 ^ 248 := by
  decide +kernel

/-! ## Non-vacuity: `G = ZMod 23`, `B = 1`, `l = 23`; two signers

key `x = 5 = 18 + 10 (mod 23)`, nonces `3, 9`, `h = 4`: `s_1 = 3 + 4·18 = 75`, `s_2 = 9 + 4·10 = 49`,
`(75 + 49) mod 23 = 9`, and `9·B = 12·B + 4·(5·B)`. -/
section examples

example : (((∑ i : Fin 2, ![75, 49] i) % 23 : ℕ)) • (1 : ZMod 23) = (12 : ZMod 23) + 4 • (5 : ZMod 23) :=
  eddsa_sign_algebra (G := ZMod 23) Finset.univ 1 5 12 23 5 4 ![3, 9] ![18, 10] ![75, 49]
    (by decide) (by decide) (by decide) (by decide) (by decide)

/-- the model run of the left-hand side -/
example : (((∑ i : Fin 2, ![75, 49] i) % 23 : ℕ)) = 9 := by decide

/-- cofactor clearing on `G = ZMod 184` (`184 = 8·23`, `B = 8` has order 23, `e = 3`: `8·3 = 24 ≡ 1`):
signer 1 adds the 8-torsion point `23` to its `R_1 = 9·B`; the cleared sum is unaffected. -/
example : (((∑ i : Fin 2, ![75, 49] i) % 23 : ℕ)) • (8 : ZMod 184) =
    ((3 • (8 : ZMod 184)) + ∑ j ∈ (Finset.univ : Finset (Fin 2)).erase 0,
      (8 * 3) • (![3 • (8 : ZMod 184), 9 • 8 + 23] j)) + 4 • (5 • (8 : ZMod 184)) :=
  eddsa_cofactored_check (G := ZMod 184) Finset.univ 0 (Finset.mem_univ _) 8 (5 • 8)
    ![3 • 8, 9 • 8 + 23] ![0, 23] 23 3 5 4 ![3, 9] ![18, 10] ![75, 49]
    (by decide) (by decide) rfl (by decide) (by decide) (by decide) (by decide)

example : Sign.Ed.encodedBytesToBigInt (Sign.Ed.bigIntToEncodedBytes 1000) = 1000 :=
  enc_roundtrip (by decide)

end examples

end TssVerif.C02
