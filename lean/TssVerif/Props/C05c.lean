import TssVerif.Lemmas.C05Rs
/-! # C05c — one deviating new member in the parameter checks of ECDSA resharing round 4: who is named

The object is `BlameEc.rsRound4Params` (`ecdsa/resharing/round_4_new_step_2.go`, first part): what a new committee
member checks about the Paillier / ring-Pedersen parameters announced by the other new members in
`DGRound2Message1` — sequential structural checks on every stored message (the party's own included: `h1 ≠ h2`,
duplicate detection of `h1`/`h2` across parties; NO size check, unlike key generation round 2), then the
verdicts of three job lists handed to the verifier pool: the Paillier-Blum modulus proofs first, then the first
DLN proofs, then the second DLN proofs. It is the sibling of `round2` treated in `Props/C05b.lean`.

Everything holds for every hash function `H`, every tree configuration `zcfg`, every parser configuration
`pcfg` (the no-panic and totality theorems are stated for the current ones), every session id, both values
of `noMod`, and unboundedly many messages.

* `rs_pass_iff`, `rs_scan_none_spawns_all`, `rs_pass_iff_all`, `rs_scan_none_iff` — the checks pass iff no
  structural check fails (all `h1 ≠ h2`, no value shared by two messages) and all three proofs of every message
  are accepted (no hypothesis is needed: a result `.ok _` already means that every job returned a verdict);
* `rs_culprits_are_senders` — whoever is named sent one of the stored messages;
* `rs_structural_failure_cases`, `rs_structural_equal_blames_sender`, `rs_duplicate_never_names_own`,
  `rs_duplicateCulprits` — `h1 = h2` names the sender; a clash names the OTHER party when one of the two
  clashing messages is the reporting party's own, and nobody otherwise;
* `HonestOthersRs`, `DevJobsReturnRs` — "every new member except `dev` is honest" as far as these checks see it;
  `rs_single_deviator` (errors name nobody but the deviator), `rs_covered_alteration_blamed` (an invalid
  modulus or DLN proof; the error text is the DLN one in all three cases), `rs_equal_blamed`,
  `rs_missing_mod_proof`, `rs_missing_mod_proof_blamed`, `rs_missing_mod_proof_tolerated`,
  `rs_duplicate_with_own_blames_other`, `rs_duplicate_with_third_names_nobody`, `rs_duplicate_general`;
* `rs_no_panic`, `rs_mod_job_never_errs`, `rs_dev_jobs_return`, `rs_returns` — on the current tree the pool
  jobs and the checks always return a verdict (`rs_old_tree_panics_witness`: not on the old tree);
* `rs_no_size_check_witness`, `rs_tiny_moduli_pass_witness` — a 3-bit Paillier modulus and a 10-bit `NTilde`
  pass here and are refused by key generation round 2. -/
set_option autoImplicit false
namespace TssVerif.C05c
open TssVerif BlameEc C05EcL C06L C05RsL

section rs
variable (H : HashFn) (zcfg : Zk.Cfg) (pcfg : ParseCfg) (noMod : Bool) (ssid : Bytes)

/-- **P1** the checks pass iff the loop finds no structural failure and the modulus proof and both DLN proofs
of every message handed to the pool are accepted. (The side condition "every job returns a verdict" is not
needed, it follows from either side.) -/
theorem rs_pass_iff (own : Nat) (msgs : List RsR2Msg) :
    rsRound4Params H zcfg pcfg noMod own ssid msgs = .ok .pass ↔
      (scanRs own [] msgs).2 = none ∧
      ∀ m ∈ (scanRs own [] msgs).1, modJob H zcfg noMod ssid m = .ok true ∧
        dlnCheck H pcfg m.dln1 m.h1 m.h2 m.nTilde = .ok true ∧
        dlnCheck H pcfg m.dln2 m.h2 m.h1 m.nTilde = .ok true := by
  rw [rs_eq]; exact rsGen_pass_iff _ _ _ own msgs

/-- without a structural failure every stored message is handed to the pool -/
theorem rs_scan_none_spawns_all (own : Nat) (msgs : List RsR2Msg) (h : (scanRs own [] msgs).2 = none) :
    (scanRs own [] msgs).1 = msgs :=
  scanRs_none_spawns_all own msgs [] h

/-- … so: pass ⟺ no structural failure and every stored message (the party's own too) has three valid proofs -/
theorem rs_pass_iff_all (own : Nat) (msgs : List RsR2Msg) :
    rsRound4Params H zcfg pcfg noMod own ssid msgs = .ok .pass ↔
      (scanRs own [] msgs).2 = none ∧
      ∀ m ∈ msgs, modJob H zcfg noMod ssid m = .ok true ∧
        dlnCheck H pcfg m.dln1 m.h1 m.h2 m.nTilde = .ok true ∧
        dlnCheck H pcfg m.dln2 m.h2 m.h1 m.nTilde = .ok true := by
  rw [rs_pass_iff]
  constructor
  · rintro ⟨h1, h2⟩
    exact ⟨h1, by rw [rs_scan_none_spawns_all own msgs h1] at h2; exact h2⟩
  · rintro ⟨h1, h2⟩
    exact ⟨h1, by rw [rs_scan_none_spawns_all own msgs h1]; exact h2⟩

/-- "no structural failure" spelled out: every message has `h1 ≠ h2` and no two messages share a value
(whoever the reporting party is) -/
theorem rs_scan_none_iff (own : Nat) (msgs : List RsR2Msg) :
    (scanRs own [] msgs).2 = none ↔
      (∀ m ∈ msgs, m.h1 ≠ m.h2) ∧
      msgs.Pairwise (fun a b => a.h1 ≠ b.h1 ∧ a.h1 ≠ b.h2 ∧ a.h2 ≠ b.h1 ∧ a.h2 ≠ b.h2) :=
  scanRs_none_iff own msgs

/-- **P2** every culprit is the sender of one of the stored messages -/
theorem rs_culprits_are_senders (own : Nat) (msgs : List RsR2Msg) (why : String) (cs : List Nat)
    (h : rsRound4Params H zcfg pcfg noMod own ssid msgs = .ok (.fail why cs)) :
    ∀ c ∈ cs, ∃ m ∈ msgs, m.idx = c := by
  rw [rs_eq] at h; exact rsGen_culprits_are_senders _ _ _ own msgs why cs h

/-- **P3** the ways the structural check on one message fails: `h1 = h2` (culprit: the sender), or one of its
values was recorded before with the index `k` (culprits: `duplicateCulprits` of the sender and `k`); `h1` is
looked up first -/
theorem rs_structural_failure_cases (own : Nat) (seen : List (Nat × Nat)) (m : RsR2Msg) (why : String)
    (cs : List Nat) (h : structuralRs own seen m = some (why, cs)) :
    (m.h1 = m.h2 ∧ why = "h1j and h2j were equal for this party" ∧ cs = [m.idx]) ∨
    (m.h1 ≠ m.h2 ∧
      ((why = "this h1j was already used by another party" ∧
          ∃ k, (m.h1, k) ∈ seen ∧ cs = duplicateCulprits own m.idx k) ∨
        (why = "this h2j was already used by another party" ∧
          ∃ k, (m.h2, k) ∈ seen ∧ cs = duplicateCulprits own m.idx k))) :=
  structuralRs_some_cases own seen m why cs h

/-- … conversely `h1 = h2` always fails, naming the sender -/
theorem rs_structural_equal_blames_sender (own : Nat) (seen : List (Nat × Nat)) (m : RsR2Msg)
    (h : m.h1 = m.h2) :
    structuralRs own seen m = some ("h1j and h2j were equal for this party", [m.idx]) := by
  unfold structuralRs; rw [if_pos (by simp [h])]

/-- … and the check passes exactly when `h1 ≠ h2` and neither value was recorded before -/
theorem rs_structural_pass_iff (own : Nat) (seen : List (Nat × Nat)) (m : RsR2Msg) :
    structuralRs own seen m = none ↔
      m.h1 ≠ m.h2 ∧ (∀ p ∈ seen, p.1 ≠ m.h1) ∧ (∀ p ∈ seen, p.1 ≠ m.h2) :=
  structuralRs_none_iff own seen m

/-- **P3** a duplicate failure never names the reporting party -/
theorem rs_duplicate_never_names_own (own : Nat) (seen : List (Nat × Nat)) (m : RsR2Msg) (why : String)
    (cs : List Nat) (h : structuralRs own seen m = some (why, cs)) (hne : m.h1 ≠ m.h2) : own ∉ cs := by
  rcases structuralRs_some_cases own seen m why cs h with ⟨he, _⟩ | ⟨_, ⟨_, k, _, hcs⟩ | ⟨_, k, _, hcs⟩⟩
  · exact absurd he hne
  · rw [hcs]; exact dup_not_own own m.idx k
  · rw [hcs]; exact dup_not_own own m.idx k

/-- `duplicateCulprits own j k`: a subset of `{j, k}` that never contains `own`; it is `[k]` when
`j = own ≠ k`, `[j]` when `k = own ≠ j`, and empty otherwise -/
theorem rs_duplicateCulprits (own j k : Nat) :
    (∀ c ∈ duplicateCulprits own j k, c = j ∨ c = k) ∧
    own ∉ duplicateCulprits own j k ∧
    (j = own → k ≠ own → duplicateCulprits own j k = [k]) ∧
    (k = own → j ≠ own → duplicateCulprits own j k = [j]) ∧
    (j ≠ own → k ≠ own → duplicateCulprits own j k = []) ∧
    (j = own → k = own → duplicateCulprits own j k = []) :=
  ⟨dup_subset own j k, dup_not_own own j k, fun hj hk => by subst hj; exact dup_own_left hk,
    fun hk hj => by subst hk; exact dup_own_right hj, fun hj hk => dup_neither hj hk,
    fun hj hk => by subst hj hk; exact dup_both⟩

/-! ### one deviator -/

/-- **every new member other than `dev` is honest**, as far as these checks of the party `own` see it: the
indices of the stored messages are pairwise distinct; every message not from `dev` (so also `own`'s) has
`h1 ≠ h2`, a modulus proof and two DLN proofs that the pool accepts; and no two such messages share a value
`h1`/`h2` -/
structure HonestOthersRs (own dev : Nat) (msgs : List RsR2Msg) : Prop where
  dev_ne_own : dev ≠ own
  idx_distinct : (msgs.map (·.idx)).Nodup
  shape : ∀ m ∈ msgs, m.idx ≠ dev → m.h1 ≠ m.h2
  no_clash : ∀ m ∈ msgs, ∀ m' ∈ msgs, m.idx ≠ dev → m'.idx ≠ dev → m.idx ≠ m'.idx →
    m.h1 ≠ m'.h1 ∧ m.h1 ≠ m'.h2 ∧ m.h2 ≠ m'.h1 ∧ m.h2 ≠ m'.h2
  jobs : ∀ m ∈ msgs, m.idx ≠ dev → modJob H zcfg noMod ssid m = .ok true ∧
    dlnCheck H pcfg m.dln1 m.h1 m.h2 m.nTilde = .ok true ∧
    dlnCheck H pcfg m.dln2 m.h2 m.h1 m.nTilde = .ok true

/-- the three pool jobs on the deviator's message return a verdict (they always do on the current tree:
`rs_dev_jobs_return`) -/
def DevJobsReturnRs (dev : Nat) (msgs : List RsR2Msg) : Prop :=
  ∀ m ∈ msgs, m.idx = dev → (∃ b, modJob H zcfg noMod ssid m = .ok b) ∧
    (∃ b, dlnCheck H pcfg m.dln1 m.h1 m.h2 m.nTilde = .ok b) ∧
    ∃ b, dlnCheck H pcfg m.dln2 m.h2 m.h1 m.nTilde = .ok b

variable {H zcfg pcfg noMod ssid}

theorem HonestOthersRs.oneDev {own dev : Nat} {msgs : List RsR2Msg}
    (h : HonestOthersRs H zcfg pcfg noMod ssid own dev msgs) : OneDevRs own dev msgs :=
  ⟨h.dev_ne_own, h.idx_distinct, h.shape, fun m hm m' hm' h1 h2 h3 hc => by
    obtain ⟨a, b, c, d⟩ := h.no_clash m hm m' hm' h1 h2 h3
    rcases hc with hc | hc | hc | hc
    · exact a hc
    · exact b hc
    · exact c hc
    · exact d hc⟩

theorem HonestOthersRs.jobsOk {own dev : Nat} {msgs : List RsR2Msg}
    (h : HonestOthersRs H zcfg pcfg noMod ssid own dev msgs)
    (hj : DevJobsReturnRs H zcfg pcfg noMod ssid dev msgs) :
    JobsOk (modJob H zcfg noMod ssid) (dlnA H pcfg) (dlnB H pcfg) dev msgs := ⟨h.jobs, hj⟩

/-- **P4 errors name nobody but the deviator**: the checks pass, or fail naming at most `dev` -/
theorem rs_single_deviator {own dev : Nat} {msgs : List RsR2Msg}
    (hh : HonestOthersRs H zcfg pcfg noMod ssid own dev msgs)
    (hj : DevJobsReturnRs H zcfg pcfg noMod ssid dev msgs) :
    rsRound4Params H zcfg pcfg noMod own ssid msgs = .ok .pass ∨
      ∃ why cs, rsRound4Params H zcfg pcfg noMod own ssid msgs = .ok (.fail why cs) ∧ ∀ c ∈ cs, c = dev := by
  rw [rs_eq]; exact rsGen_single_deviator hh.oneDev (hh.jobsOk hj)

/-- **P5 an invalid modulus or DLN proof is blamed on its sender**: no structural failure, and one of the
three jobs on the deviator's message says "invalid". The library reports the DLN text for a failed modulus
proof too. (Of `HonestOthersRs` only the field `jobs` is used.) -/
theorem rs_covered_alteration_blamed {own dev : Nat} {msgs : List RsR2Msg}
    (hh : HonestOthersRs H zcfg pcfg noMod ssid own dev msgs)
    (hj : DevJobsReturnRs H zcfg pcfg noMod ssid dev msgs)
    (hscan : (scanRs own [] msgs).2 = none) (md : RsR2Msg) (hmd : md ∈ msgs) (hdev : md.idx = dev)
    (hbad : modJob H zcfg noMod ssid md = .ok false ∨
      dlnCheck H pcfg md.dln1 md.h1 md.h2 md.nTilde = .ok false ∨
      dlnCheck H pcfg md.dln2 md.h2 md.h1 md.nTilde = .ok false) :
    rsRound4Params H zcfg pcfg noMod own ssid msgs = .ok (.fail "dln proof verification failed" [dev]) := by
  rw [rs_eq]; exact rsGen_bad_job (hh.jobsOk hj) hscan hmd hdev hbad

/-- `h1 = h2` is blamed on its sender (no hypothesis on the deviator's proofs: they are never handed to the
pool) -/
theorem rs_equal_blamed {own dev : Nat} {msgs : List RsR2Msg}
    (hh : HonestOthersRs H zcfg pcfg noMod ssid own dev msgs)
    (md : RsR2Msg) (hmd : md ∈ msgs) (hdev : md.idx = dev) (hbad : md.h1 = md.h2) :
    rsRound4Params H zcfg pcfg noMod own ssid msgs =
      .ok (.fail "h1j and h2j were equal for this party" [dev]) := by
  rw [rs_eq]; exact rsGen_equal hh.oneDev hh.jobs hmd hdev hbad

/-- **P6** a modulus proof that does not decode: the job answers `noMod` -/
theorem rs_missing_mod_proof (H : HashFn) (zcfg : Zk.Cfg) (noMod : Bool) (ssid : Bytes) (m : RsR2Msg)
    (h : modFromBytes m.modProof = none) : modJob H zcfg noMod ssid m = .ok noMod :=
  modJob_undecodable H zcfg noMod ssid m h

/-- … exactly: the modulus job answers `b` iff the proof decodes and the verifier answers `b` under the
context `ssid ‖ bytes(idx)` for the announced Paillier modulus, or it does not decode and `noMod = b` -/
theorem rs_mod_job_iff (H : HashFn) (zcfg : Zk.Cfg) (noMod : Bool) (ssid : Bytes) (m : RsR2Msg) (b : Bool) :
    modJob H zcfg noMod ssid m = .ok b ↔
      (∃ w xs a c zs, modFromBytes m.modProof = some (w, xs, a, c, zs) ∧
        Zk.modVerify zcfg H (Blame.contextJ ssid m.idx) w (xs.map Int.ofNat) a c (zs.map Int.ofNat)
          m.paillierN = .ok b) ∨
      (modFromBytes m.modProof = none ∧ noMod = b) :=
  modJob_iff H zcfg noMod ssid m b

/-- **P6, `noMod = false`**: a missing (undecodable) modulus proof is blamed on its sender -/
theorem rs_missing_mod_proof_blamed {own dev : Nat} {msgs : List RsR2Msg}
    (hh : HonestOthersRs H zcfg pcfg false ssid own dev msgs)
    (hj : DevJobsReturnRs H zcfg pcfg false ssid dev msgs)
    (hscan : (scanRs own [] msgs).2 = none) (md : RsR2Msg) (hmd : md ∈ msgs) (hdev : md.idx = dev)
    (hmiss : modFromBytes md.modProof = none) :
    rsRound4Params H zcfg pcfg false own ssid msgs = .ok (.fail "dln proof verification failed" [dev]) :=
  rs_covered_alteration_blamed hh hj hscan md hmd hdev (Or.inl (modJob_undecodable H zcfg false ssid md hmiss))

/-- **P6, `noMod = true`**: a missing modulus proof does not make the checks fail — if the deviator's two
DLN proofs are accepted, the checks pass (if one is rejected, `rs_covered_alteration_blamed` applies) -/
theorem rs_missing_mod_proof_tolerated {own dev : Nat} {msgs : List RsR2Msg}
    (hh : HonestOthersRs H zcfg pcfg true ssid own dev msgs)
    (hscan : (scanRs own [] msgs).2 = none) (md : RsR2Msg) (hmd : md ∈ msgs) (hdev : md.idx = dev)
    (hmiss : modFromBytes md.modProof = none)
    (h1 : dlnCheck H pcfg md.dln1 md.h1 md.h2 md.nTilde = .ok true)
    (h2 : dlnCheck H pcfg md.dln2 md.h2 md.h1 md.nTilde = .ok true) :
    modJob H zcfg true ssid md = .ok true ∧
      rsRound4Params H zcfg pcfg true own ssid msgs = .ok .pass := by
  have hm := modJob_undecodable H zcfg true ssid md hmiss
  refine ⟨hm, ?_⟩
  rw [rs_pass_iff_all]
  refine ⟨hscan, fun m hx => ?_⟩
  by_cases h : m.idx = dev
  · have : m = md := eq_of_nodup_map (fun q : RsR2Msg => q.idx) hh.idx_distinct hx hmd (h.trans hdev.symm)
    subst this
    exact ⟨hm, h1, h2⟩
  · exact hh.jobs m hx h

/-- **P7, general form**: the deviator's message (with `h1 ≠ h2`) shares a value with an honest one. Then the
checks fail with a duplicate error whose culprits are `duplicateCulprits` applied to `dev` and the index of an
honest message `other` sharing a value with the deviator's — in the order in which the loop met the two -/
theorem rs_duplicate_general {own dev : Nat} {msgs : List RsR2Msg}
    (hh : HonestOthersRs H zcfg pcfg noMod ssid own dev msgs)
    (hj : DevJobsReturnRs H zcfg pcfg noMod ssid dev msgs)
    (md mx : RsR2Msg) (hmd : md ∈ msgs) (hdev : md.idx = dev) (hsz : md.h1 ≠ md.h2)
    (hmx : mx ∈ msgs) (hx : mx.idx ≠ dev)
    (hc : md.h1 = mx.h1 ∨ md.h1 = mx.h2 ∨ md.h2 = mx.h1 ∨ md.h2 = mx.h2) :
    ∃ why cs other, rsRound4Params H zcfg pcfg noMod own ssid msgs = .ok (.fail why cs) ∧
      (why = "this h1j was already used by another party" ∨
        why = "this h2j was already used by another party") ∧
      other ∈ msgs ∧ other.idx ≠ dev ∧
      (md.h1 = other.h1 ∨ md.h1 = other.h2 ∨ md.h2 = other.h1 ∨ md.h2 = other.h2) ∧
      (cs = duplicateCulprits own dev other.idx ∨ cs = duplicateCulprits own other.idx dev) := by
  rw [rs_eq]; exact rsGen_clash hh.oneDev (hh.jobsOk hj) hmd hdev hsz hmx hx hc

/-- **P7a copying a value of the reporting party is blamed on the copier**, whichever of the two messages is
stored first. `hthird`: the deviator's message shares no value with a third party's (otherwise the lookup may
find that one first, see `rs_duplicate_with_third_names_nobody`) -/
theorem rs_duplicate_with_own_blames_other {own dev : Nat} {msgs : List RsR2Msg}
    (hh : HonestOthersRs H zcfg pcfg noMod ssid own dev msgs)
    (hj : DevJobsReturnRs H zcfg pcfg noMod ssid dev msgs)
    (md mo : RsR2Msg) (hmd : md ∈ msgs) (hdev : md.idx = dev) (hsz : md.h1 ≠ md.h2)
    (hmo : mo ∈ msgs) (hown : mo.idx = own)
    (hc : md.h1 = mo.h1 ∨ md.h1 = mo.h2 ∨ md.h2 = mo.h1 ∨ md.h2 = mo.h2)
    (hthird : ∀ m ∈ msgs, m.idx ≠ dev → m.idx ≠ own →
      md.h1 ≠ m.h1 ∧ md.h1 ≠ m.h2 ∧ md.h2 ≠ m.h1 ∧ md.h2 ≠ m.h2) :
    ∃ why, rsRound4Params H zcfg pcfg noMod own ssid msgs = .ok (.fail why [dev]) ∧
      (why = "this h1j was already used by another party" ∨
        why = "this h2j was already used by another party") := by
  rw [rs_eq]
  exact rsGen_clash_with_own hh.oneDev (hh.jobsOk hj) hmd hdev hsz hmo hown hc (fun m hm h1 h2 hcl => by
    obtain ⟨a, b, c, d⟩ := hthird m hm h1 h2
    rcases hcl with h | h | h | h
    · exact a h
    · exact b h
    · exact c h
    · exact d h)

/-- **P7b copying a value of a third party names nobody** — whether the third party's message is stored
before or after the deviator's. `hnown`: the deviator's message shares no value with the reporting party's -/
theorem rs_duplicate_with_third_names_nobody {own dev : Nat} {msgs : List RsR2Msg}
    (hh : HonestOthersRs H zcfg pcfg noMod ssid own dev msgs)
    (hj : DevJobsReturnRs H zcfg pcfg noMod ssid dev msgs)
    (md mt : RsR2Msg) (hmd : md ∈ msgs) (hdev : md.idx = dev) (hsz : md.h1 ≠ md.h2)
    (hmt : mt ∈ msgs) (ht : mt.idx ≠ dev)
    (hc : md.h1 = mt.h1 ∨ md.h1 = mt.h2 ∨ md.h2 = mt.h1 ∨ md.h2 = mt.h2)
    (hnown : ∀ m ∈ msgs, m.idx = own → md.h1 ≠ m.h1 ∧ md.h1 ≠ m.h2 ∧ md.h2 ≠ m.h1 ∧ md.h2 ≠ m.h2) :
    ∃ why, rsRound4Params H zcfg pcfg noMod own ssid msgs = .ok (.fail why []) ∧
      (why = "this h1j was already used by another party" ∨
        why = "this h2j was already used by another party") := by
  rw [rs_eq]
  exact rsGen_clash_with_third hh.oneDev (hh.jobsOk hj) hmd hdev hsz hmt ht hc (fun m hm h1 hcl => by
    obtain ⟨a, b, c, d⟩ := hnown m hm h1
    rcases hcl with h | h | h | h
    · exact a h
    · exact b h
    · exact c h
    · exact d h)

/-- **P8 the parameter checks never crash** on the current tree, whatever is stored -/
theorem rs_no_panic (H : HashFn) (noMod : Bool) (own : Nat) (ssid : Bytes) (msgs : List RsR2Msg)
    (tag : String) : rsRound4Params H Zk.cur Ops16.curParse noMod own ssid msgs ≠ .panic tag :=
  rs_noPanic H noMod own ssid msgs tag

/-- the modulus job never reports an error, on any tree and for any input: `modVerify` only answers yes/no or
crashes (an even or non-positive modulus on the old tree), and a proof that does not decode counts as `noMod` -/
theorem rs_mod_job_never_errs (H : HashFn) (zcfg : Zk.Cfg) (noMod : Bool) (ssid : Bytes) (m : RsR2Msg)
    (e : String) : modJob H zcfg noMod ssid m ≠ .err e :=
  modJob_noErr H zcfg noMod ssid m e

/-- … so every pool job returns a verdict on the current tree: `DevJobsReturnRs` always holds there -/
theorem rs_dev_jobs_return (H : HashFn) (noMod : Bool) (ssid : Bytes) (dev : Nat) (msgs : List RsR2Msg) :
    DevJobsReturnRs H Zk.cur Ops16.curParse noMod ssid dev msgs :=
  fun m _ _ => ⟨modJob_total H noMod ssid m, dlnCheck_total H _ _ _ _, dlnCheck_total H _ _ _ _⟩

/-- … and the checks always return a verdict (never `.err`, never `.panic`) -/
theorem rs_returns (H : HashFn) (noMod : Bool) (own : Nat) (ssid : Bytes) (msgs : List RsR2Msg) :
    ∃ v, rsRound4Params H Zk.cur Ops16.curParse noMod own ssid msgs = .ok v :=
  C05RsL.rs_returns H noMod own ssid msgs

end rs

/-! ## the hypotheses are satisfiable (kernel evaluation of the model) -/
section examples

/-- a trivial "hash" with empty digests: every DLN challenge and every modulus-proof challenge is `0` -/
def Hnil : HashFn := fun _ => []

/-- a serialized DLN proof `alpha = (a, …, a)`, `t = (2, …, 2)` (128 entries each, with the two length
elements); under the challenge `0` it proves `h^2 = a` -/
def prf (a : UInt8) : List Bytes := [[128]] ++ List.replicate 128 [a] ++ [[128]] ++ List.replicate 128 [2]

/-- a stored message with the Paillier modulus `n`, the 10-bit `NTilde = 1000`, the values `h1`, `h2`, the DLN
proofs `prf a1`, `prf a2` — accepted under `Hnil` when `a1 = h1²`, `a2 = h2²` — and the modulus proof `mp` -/
def rmsg (idx n h1 h2 : Nat) (a1 a2 : UInt8) (mp : List Bytes) : RsR2Msg :=
  ⟨idx, n, 1000, h1, h2, prf a1, prf a2, mp⟩

/-- a serialized modulus proof `w = 2`, `x = (3, …, 3)`, `a = b = 2^80`, `z = (3, …, 3)`: accepted for
`N = 27` when all challenges are `0` (`3^27 ≡ 3^4 ≡ 0 mod 27`; the Jacobi symbol of `2` is `−1`) -/
def mp27 : List Bytes :=
  [[2]] ++ List.replicate 80 [3] ++ [natToBytesBE (2 ^ 80), natToBytesBE (2 ^ 80)] ++ List.replicate 80 [3]

/-- **P9 no size check**: a 3-bit Paillier modulus and a 3-bit `NTilde` pass the structural part here; the
same values are refused by key generation round 2 -/
theorem rs_no_size_check_witness :
    structuralRs 1 [] ⟨2, 5, 5, 3, 4, [], [], []⟩ = none ∧
    structural 1 [] ⟨2, 5, 5, 3, 4, [], []⟩ =
      some ("got paillier modulus with insufficient bits for this party", [2]) ∧
    structural 1 [] ⟨2, 2 ^ 2047, 5, 3, 4, [], []⟩ =
      some ("got NTildej with insufficient bits for this party", [2]) := by
  decide +kernel

/-! the pool verdicts used below, one evaluation each -/

theorem dln_1a : dlnCheck Hnil Ops16.curParse (prf 9) 3 5 1000 = .ok true := by decide +kernel
theorem dln_1b : dlnCheck Hnil Ops16.curParse (prf 25) 5 3 1000 = .ok true := by decide +kernel
theorem dln_2a : dlnCheck Hnil Ops16.curParse (prf 169) 13 15 1000 = .ok true := by decide +kernel
theorem dln_2b : dlnCheck Hnil Ops16.curParse (prf 225) 15 13 1000 = .ok true := by decide +kernel
theorem dln_3a : dlnCheck Hnil Ops16.curParse (prf 49) 7 11 1000 = .ok true := by decide +kernel
theorem dln_3b : dlnCheck Hnil Ops16.curParse (prf 121) 11 7 1000 = .ok true := by decide +kernel
theorem mod27_1 : modJob Hnil Zk.cur false [] (rmsg 1 27 3 5 9 25 mp27) = .ok true := by decide +kernel
theorem mod27_3 : modJob Hnil Zk.cur false [] (rmsg 3 27 7 11 49 121 mp27) = .ok true := by decide +kernel

/-- **P9, the whole check**: a message with a 3-bit Paillier modulus and a 10-bit `NTilde` (valid DLN proofs
for it, missing modulus proof tolerated) passes, while key generation round 2 refuses the same values -/
theorem rs_tiny_moduli_pass_witness :
    rsRound4Params Hnil Zk.cur Ops16.curParse true 1 [] [rmsg 1 5 3 5 9 25 []] = .ok .pass ∧
    round2 Hnil Ops16.curParse 1 [⟨1, 5, 1000, 3, 5, prf 9, prf 25⟩] =
      .ok (.fail "got paillier modulus with insufficient bits for this party" [1]) := by
  refine ⟨?_, by decide⟩
  rw [rs_pass_iff_all]
  refine ⟨by decide, fun m hm => ?_⟩
  simp only [List.mem_cons, List.not_mem_nil, or_false] at hm
  subst hm
  exact ⟨by decide, dln_1a, dln_1b⟩

/-- P1/P8: no messages — the checks pass -/
example : rsRound4Params Hnil Zk.cur Ops16.curParse false 1 [] [] = .ok .pass := by decide

/-- P3 -/
example : structuralRs 1 [] ⟨2, 5, 5, 3, 3, [], [], []⟩ =
      some ("h1j and h2j were equal for this party", [2]) ∧
    structuralRs 1 [(3, 1)] ⟨2, 5, 5, 3, 4, [], [], []⟩ =
      some ("this h1j was already used by another party", [2]) ∧
    structuralRs 1 [(4, 3)] ⟨2, 5, 5, 3, 4, [], [], []⟩ =
      some ("this h2j was already used by another party", []) := by decide

/-- `rs_equal_blamed` with a single message (the honest-party hypotheses are vacuous, no job is evaluated) -/
example : HonestOthersRs Hnil Zk.cur Ops16.curParse false [] 1 2 [⟨2, 5, 5, 3, 3, [], [], []⟩] :=
  ⟨by decide, by decide, by decide, by decide, by decide⟩

example : rsRound4Params Hnil Zk.cur Ops16.curParse false 1 [] [⟨2, 5, 5, 3, 3, [], [], []⟩] =
    .ok (.fail "h1j and h2j were equal for this party" [2]) := by decide

/-- the full hypotheses on a three-party run, missing modulus proofs tolerated: own = 1 (values 3, 5), third
party 3 (values 7, 11), and the deviator 2 in the middle; whatever party 2 stores, parties 1 and 3 satisfy
`HonestOthersRs` -/
theorem honestOthersRs_witness (md : RsR2Msg) (hd : md.idx = 2) :
    HonestOthersRs Hnil Zk.cur Ops16.curParse true [] 1 2
      [rmsg 1 5 3 5 9 25 [], md, rmsg 3 5 7 11 49 121 []] := by
  refine ⟨by decide, ?_, ?_, ?_, ?_⟩
  · simp only [List.map_cons, List.map_nil, hd]; decide
  · intro m hm hne
    simp only [List.mem_cons, List.not_mem_nil, or_false] at hm
    rcases hm with rfl | rfl | rfl
    · decide
    · exact absurd hd hne
    · decide
  · intro m hm m' hm' hne hne' hij
    simp only [List.mem_cons, List.not_mem_nil, or_false] at hm hm'
    rcases hm with rfl | rfl | rfl <;> rcases hm' with rfl | rfl | rfl <;>
      first
        | exact absurd hd hne
        | exact absurd hd hne'
        | exact absurd rfl hij
        | decide
  · intro m hm hne
    simp only [List.mem_cons, List.not_mem_nil, or_false] at hm
    rcases hm with rfl | rfl | rfl
    · exact ⟨by decide, dln_1a, dln_1b⟩
    · exact absurd hd hne
    · exact ⟨by decide, dln_3a, dln_3b⟩

/-- the same with real (accepted) modulus proofs for the Paillier modulus 27, missing ones NOT tolerated -/
theorem honestOthersRs_witness_strict (md : RsR2Msg) (hd : md.idx = 2) :
    HonestOthersRs Hnil Zk.cur Ops16.curParse false [] 1 2
      [rmsg 1 27 3 5 9 25 mp27, md, rmsg 3 27 7 11 49 121 mp27] := by
  refine ⟨by decide, ?_, ?_, ?_, ?_⟩
  · simp only [List.map_cons, List.map_nil, hd]; decide
  · intro m hm hne
    simp only [List.mem_cons, List.not_mem_nil, or_false] at hm
    rcases hm with rfl | rfl | rfl
    · decide
    · exact absurd hd hne
    · decide
  · intro m hm m' hm' hne hne' hij
    simp only [List.mem_cons, List.not_mem_nil, or_false] at hm hm'
    rcases hm with rfl | rfl | rfl <;> rcases hm' with rfl | rfl | rfl <;>
      first
        | exact absurd hd hne
        | exact absurd hd hne'
        | exact absurd rfl hij
        | decide
  · intro m hm hne
    simp only [List.mem_cons, List.not_mem_nil, or_false] at hm
    rcases hm with rfl | rfl | rfl
    · exact ⟨mod27_1, dln_1a, dln_1b⟩
    · exact absurd hd hne
    · exact ⟨mod27_3, dln_3a, dln_3b⟩

/-- P4/P6 (`noMod = true`): an honest party 2 without a modulus proof — the checks pass -/
example : rsRound4Params Hnil Zk.cur Ops16.curParse true 1 []
    [rmsg 1 5 3 5 9 25 [], rmsg 2 5 13 15 169 225 [], rmsg 3 5 7 11 49 121 []] = .ok .pass :=
  (rs_missing_mod_proof_tolerated (honestOthersRs_witness _ rfl) (by decide) (rmsg 2 5 13 15 169 225 [])
    (by simp) rfl (by decide) dln_2a dln_2b).2

/-- P5: party 2's first DLN proof does not decode -/
example : rsRound4Params Hnil Zk.cur Ops16.curParse true 1 []
    [rmsg 1 5 3 5 9 25 [], ⟨2, 5, 1000, 13, 15, [], prf 225, []⟩, rmsg 3 5 7 11 49 121 []] =
      .ok (.fail "dln proof verification failed" [2]) :=
  rs_covered_alteration_blamed (honestOthersRs_witness _ rfl) (rs_dev_jobs_return _ _ _ _ _) (by decide)
    ⟨2, 5, 1000, 13, 15, [], prf 225, []⟩ (by simp) rfl (Or.inr (Or.inl (by decide)))

/-- P5: party 2's modulus proof decodes (163 non-empty parts) and is rejected — the text is still the DLN one -/
example : rsRound4Params Hnil Zk.cur Ops16.curParse true 1 []
    [rmsg 1 5 3 5 9 25 [], ⟨2, 5, 1000, 13, 15, [], [], List.replicate 163 [1]⟩, rmsg 3 5 7 11 49 121 []] =
      .ok (.fail "dln proof verification failed" [2]) :=
  rs_covered_alteration_blamed (honestOthersRs_witness _ rfl) (rs_dev_jobs_return _ _ _ _ _) (by decide)
    ⟨2, 5, 1000, 13, 15, [], [], List.replicate 163 [1]⟩ (by simp) rfl (Or.inl (by decide +kernel))

/-- P6 (`noMod = false`): parties 1 and 3 send accepted modulus proofs, party 2 sends none (and valid DLN
proofs) — named -/
example : rsRound4Params Hnil Zk.cur Ops16.curParse false 1 []
    [rmsg 1 27 3 5 9 25 mp27, rmsg 2 27 13 15 169 225 [], rmsg 3 27 7 11 49 121 mp27] =
      .ok (.fail "dln proof verification failed" [2]) :=
  rs_missing_mod_proof_blamed (honestOthersRs_witness_strict _ rfl) (rs_dev_jobs_return _ _ _ _ _) (by decide)
    (rmsg 2 27 13 15 169 225 []) (by simp) rfl (by decide)

/-- P7a: party 2 copies the reporting party's `h1 = 3` — named, whichever of the two messages is stored
first (here: the reporting party's first; no proof of party 2 is evaluated) -/
example : ∃ why, rsRound4Params Hnil Zk.cur Ops16.curParse true 1 []
      [rmsg 1 5 3 5 9 25 [], ⟨2, 5, 1000, 3, 13, [], [], []⟩, rmsg 3 5 7 11 49 121 []] = .ok (.fail why [2]) ∧
    (why = "this h1j was already used by another party" ∨
      why = "this h2j was already used by another party") :=
  rs_duplicate_with_own_blames_other (honestOthersRs_witness _ rfl) (rs_dev_jobs_return _ _ _ _ _)
    ⟨2, 5, 1000, 3, 13, [], [], []⟩ (rmsg 1 5 3 5 9 25 []) (by simp) rfl (by decide) (by simp) rfl (Or.inl rfl)
    (by
      intro m hm hne hno
      simp only [List.mem_cons, List.not_mem_nil, or_false] at hm
      rcases hm with rfl | rfl | rfl
      · exact absurd rfl hno
      · exact absurd rfl hne
      · decide)

/-- P7b: party 2 copies the third party's `h2 = 11` — nobody is named -/
example : ∃ why, rsRound4Params Hnil Zk.cur Ops16.curParse true 1 []
      [rmsg 1 5 3 5 9 25 [], ⟨2, 5, 1000, 13, 11, [], [], []⟩, rmsg 3 5 7 11 49 121 []] = .ok (.fail why []) ∧
    (why = "this h1j was already used by another party" ∨
      why = "this h2j was already used by another party") :=
  rs_duplicate_with_third_names_nobody (honestOthersRs_witness _ rfl) (rs_dev_jobs_return _ _ _ _ _)
    ⟨2, 5, 1000, 13, 11, [], [], []⟩ (rmsg 3 5 7 11 49 121 []) (by simp) rfl (by decide) (by simp) (by decide)
    (Or.inr (Or.inr (Or.inr rfl)))
    (by
      intro m hm ho
      simp only [List.mem_cons, List.not_mem_nil, or_false] at hm
      rcases hm with rfl | rfl | rfl
      · decide
      · exact absurd ho (by decide)
      · exact absurd ho (by decide))

/-- P8: `zcfg = Zk.cur` is needed — on the old tree the modulus job crashes on an even Paillier modulus (the
Jacobi symbol is computed before the parity check) -/
theorem rs_old_tree_panics_witness :
    modJob Hnil Zk.old true [] ⟨2, 4, 1000, 13, 15, [], [], List.replicate 163 [1]⟩ = .panic "jacobi-even" ∧
    rsRound4Params Hnil Zk.old Ops16.curParse true 1 []
      [⟨2, 4, 1000, 13, 15, [], [], List.replicate 163 [1]⟩] = .panic "jacobi-even" := by
  decide +kernel

end examples

end TssVerif.C05c
