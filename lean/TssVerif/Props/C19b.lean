import TssVerif.Props.C19
/-! # C19 (continued) — emitted safe primes are Blum primes; their product is `≡ 1 (mod 4)`

Property theorems only; corollaries of `Props/C19.lean` (`emitted_pair_validates`): the structure
`modproof` and the Paillier/`NTilde` moduli assume (`p ≡ q ≡ 3 mod 4`). -/
namespace TssVerif.C19
set_option autoImplicit false
open TssVerif TssVerif.Primes TssVerif.MiscL

/-- **an emitted safe prime `p = 2q+1` with odd `q` is `≡ 3 (mod 4)`** -/
theorem emitted_pair_blum (prime : Nat → Bool) (hsound : ∀ n, prime n = true → Nat.Prime n)
    (qBitLen q p : Nat) (h : emittedPairOk prime qBitLen q p = true) (hq2 : q ≠ 2) : p % 4 = 3 := by
  obtain ⟨h1, _, hq, _⟩ := emitted_pair_validates prime hsound qBitLen q p h
  rcases hq.eq_two_or_odd with h2 | h2
  · exact absurd h2 hq2
  · omega

/-- the product of two such primes is `≡ 1 (mod 4)` (a Blum integer's residue) -/
theorem blum_modulus {p p' : Nat} (hp : p % 4 = 3) (hp' : p' % 4 = 3) : (p * p') % 4 = 1 := by
  rw [Nat.mul_mod, hp, hp']

/-- both facts for the modulus built from two emitted pairs -/
theorem emitted_modulus_blum (prime : Nat → Bool) (hsound : ∀ n, prime n = true → Nat.Prime n)
    (b q p q' p' : Nat) (h : emittedPairOk prime b q p = true) (h' : emittedPairOk prime b q' p' = true)
    (hq2 : q ≠ 2) (hq2' : q' ≠ 2) : p % 4 = 3 ∧ p' % 4 = 3 ∧ (p * p') % 4 = 1 :=
  ⟨emitted_pair_blum prime hsound b q p h hq2, emitted_pair_blum prime hsound b q' p' h' hq2',
    blum_modulus (emitted_pair_blum prime hsound b q p h hq2) (emitted_pair_blum prime hsound b q' p' h' hq2')⟩

example : (23 : Nat) = 2 * 11 + 1 ∧ 23 % 4 = 3 ∧ (23 * 47) % 4 = 1 := by decide

end TssVerif.C19
