import TssVerif.Core.EngineTables
import TssVerif.Lemmas.EngineWait
import TssVerif.Lemmas.EngineSystem
/-! # C07 — schedule independence of the round engine (`tss/party.go`: `BaseStart`, `BaseUpdate`)

Property theorems only; helper lemmas live in `TssVerif/Lemmas/Engine*.lean`.

Conventions as in `Props/C08.lean`: `tbl` is any round table, `delivers tbl ms p = ms.foldl (fun p m => deliver tbl m p) p`,
`run tbl evs p` folds events `Ev.start | Ev.deliver m`. `Good tbl self m`: `m` is not from the party itself and
carries the flag every round that needs its type requires (a genuine protocol message; wrong-flag messages are
the subject of `C08.flag_flip_*`). `GoodList tbl self ms`: all of `ms` are good; `SlotConsistent ms`: two messages
of `ms` with the same (type, sender) are the same message (a sender does not equivocate within one run). -/
set_option autoImplicit false
namespace TssVerif.C07
open TssVerif TssVerif.Engine TssVerif.EngineL

/-! ## 1. the update loop runs to the fixpoint -/

/-- **After every `Update` the party is at the furthest round its store allows**: no further productive step
is possible and the scan of the current round is already recorded (`Settled = step = none ∧ rest = id`). -/
theorem update_fixpoint (tbl : List RoundSpec) (m : Msg) (p : Party) :
    step tbl (deliver tbl m p) = none ∧ rest tbl (deliver tbl m p) = deliver tbl m p :=
  settled_deliver tbl m p

/-- the same after `Start` (this is the E1 repair: `startOld` does not have it, see `prestart_old_deadlock_witness`) -/
theorem start_fixpoint (tbl : List RoundSpec) (p : Party) (h0 : p.rnd = 0) :
    step tbl (start tbl p) = none ∧ rest tbl (start tbl p) = start tbl p := by
  rw [start_eq_of_rnd_zero h0]; exact settled_settleF tbl _

/-- … and in every reachable state -/
theorem run_fixpoint (tbl : List RoundSpec) (n self : Nat) (evs : List Ev) :
    step tbl (run tbl evs (fresh n self)) = none ∧ rest tbl (run tbl evs (fresh n self)) = run tbl evs (fresh n self) :=
  settled_run evs (settled_fresh tbl n self)

/-- running the loop again changes nothing -/
theorem settle_idempotent (tbl : List RoundSpec) (p : Party) :
    settle tbl (tbl.length + 1) (settle tbl (tbl.length + 1) p) = settle tbl (tbl.length + 1) p :=
  settleF_of_settled (settled_settleF tbl p)

/-! ## 2. order and multiplicity of deliveries -/

/-- **Local confluence**: two good messages for different slots may be delivered in either order, in any state
(started or not, settled or not). -/
theorem local_confluence (tbl : List RoundSpec) (a b : Msg) (p : Party)
    (ha : Good tbl p.self a) (hb : Good tbl p.self b) (hne : ¬ (a.ty = b.ty ∧ a.frm = b.frm)) :
    deliver tbl a (deliver tbl b p) = deliver tbl b (deliver tbl a p) :=
  deliver_comm tbl a b p ha hb hne

/-- **A duplicate delivery changes nothing.** -/
theorem duplicates_idempotent (tbl : List RoundSpec) (a : Msg) (p : Party) (ha : Good tbl p.self a) :
    deliver tbl a (deliver tbl a p) = deliver tbl a p :=
  deliver_dup tbl a p ha

/-- **Schedule independence**: any permutation of a slot-consistent list of good messages leads to the same
state — same round, same flags, same store, same emission log, same `end` count. Messages may be arbitrarily
early; `p` is any state (in particular not yet started). -/
theorem schedule_independent (tbl : List RoundSpec) (ms ms' : List Msg) (p : Party) (hp : ms.Perm ms')
    (hg : GoodList tbl p.self ms) (hc : SlotConsistent ms) :
    delivers tbl ms p = delivers tbl ms' p :=
  delivers_perm tbl hp p hg hc

/-- **… up to duplicates**: the final state depends only on the *set* of messages delivered. -/
theorem schedule_independent_up_to_duplicates (tbl : List RoundSpec) (ms ms' : List Msg) (p : Party)
    (hset : ∀ m, m ∈ ms ↔ m ∈ ms') (hg : GoodList tbl p.self ms) (hc : SlotConsistent ms) :
    delivers tbl ms p = delivers tbl ms' p :=
  delivers_same_set tbl ms ms' p hset hg hc

/-! ## 3. deliveries before the local `Start` -/

/-- **Messages that arrive before `Start` are not lost**: delivering good messages to an un-started party and
then starting it gives the same state as starting it first. -/
theorem prestart_equals_poststart (tbl : List RoundSpec) (n self : Nat) (ms : List Msg)
    (hg : GoodList tbl self ms) :
    start tbl (delivers tbl ms (fresh n self)) = delivers tbl ms (start tbl (fresh n self)) :=
  start_delivers tbl ms (fresh n self) rfl hg

/-- the same for any un-started state, and with `Start` anywhere in the schedule -/
theorem start_commutes_with_deliveries (tbl : List RoundSpec) (pre post : List Msg) (p : Party) (h0 : p.rnd = 0)
    (hg : GoodList tbl p.self pre) :
    delivers tbl post (start tbl (delivers tbl pre p)) = delivers tbl (pre ++ post) (start tbl p) := by
  rw [start_delivers tbl pre p h0 hg, delivers_append]

/-- a toy table: round 1 needs one broadcast from everybody, round 2 is final -/
def toy : List RoundSpec :=
  [ { needs := [(1, true)], selfOk := false, selfStore := [(1, true)], early := false, emits := [(1, false)],
      final := false, finalOk := false },
    { needs := [], selfOk := false, selfStore := [], early := false, emits := [], final := true, finalOk := true } ]

/-- **Before the E1 repair the pre-`Start` delivery deadlocked**: with `startOld` (no look at the store) the only
message the party will ever get is already stored, the party sits in round 1 with nothing outstanding
(`awaited = []`), a productive step is possible, but no further `Update` will come to take it.
With `start` the party finishes. -/
theorem prestart_old_deadlock_witness :
    let m : Msg := ⟨1, 1, ⟨true, 0⟩⟩
    let pOld := startOld toy (delivers toy [m] (fresh 2 0))
    let pNew := start toy (delivers toy [m] (fresh 2 0))
    (pOld.rnd = 1 ∧ pOld.ended = 0 ∧ awaited toy pOld = [] ∧ (step toy pOld).isSome = true) ∧
    (pNew.rnd = 2 ∧ pNew.ended = 1 ∧ pNew.done = true ∧ (step toy pNew).isSome = false) := by decide

/-! ## 4. `end` -/

/-- **The result is signalled at most once, and exactly once iff the final round was started**, for every table
with exactly one final round, in last position (`finalLast`), after any sequence of events. -/
theorem ends_exactly_once (tbl : List RoundSpec) (hfl : finalLast tbl = true) (n self : Nat) (evs : List Ev) :
    (run tbl evs (fresh n self)).ended ≤ 1 ∧
    ((run tbl evs (fresh n self)).ended = 1 ↔ (run tbl evs (fresh n self)).rnd = tbl.length) := by
  obtain ⟨h1, _, h3⟩ := canon_run (tbl := tbl) evs (canon_fresh tbl n self)
  rw [h3, endsUpTo_finalLast tbl hfl _ h1]
  split
  · rename_i h; simp [h]
  · rename_i h; simp [h]

/-! ## 5. no deadlock in the closed system -/

/-- **No quiescent state short of the end.** Closed system of `n` parties over one table `tbl` that has one
final round in last position, is all-to-all (`allToAll`: what a non-final round needs from every sender is
emitted by every party in that round or earlier, and the own share is met by the own `Start`) and respects
channel discipline (`disciplined`: a type is required with the flag it is sent with). In every state reachable
by starting parties and delivering emitted messages — in any order, any number of times, before or after the
recipient's `Start`, any number of rounds early — if every party has been started and every emitted message has
reached every other party, then every party has started the final round and has signalled `end` exactly once. -/
theorem no_deadlock (tbl : List RoundSpec) (n : Nat) (hfl : finalLast tbl = true) (ha : allToAll tbl = true)
    (hd : disciplined tbl = true) (s : Sys) (hreach : Reach tbl n s)
    (hstarted : ∀ i, i < n → (s i).rnd ≠ 0) (hq : Quiescent n s) :
    ∀ i, i < n → (s i).rnd = tbl.length ∧ (s i).ended = 1 := by
  intro i hi
  have hinv := reach_inv ha hreach
  have hge := all_reach_round hfl ha hd hinv hstarted hq tbl.length (Nat.le_refl _) i hi
  have hc := (hinv i).2.2.canon
  have hrnd : (s i).rnd = tbl.length := Nat.le_antisymm hc.1 hge
  refine ⟨hrnd, ?_⟩
  rw [hc.2.2, endsUpTo_finalLast tbl hfl _ hc.1, if_pos hrnd]

/-- the key step of `no_deadlock`, usable on its own: if all other parties have started round `k` and their
messages have been delivered, party `i`'s round-`k` requirements are satisfied for every other sender -/
theorem round_requirements_met (tbl : List RoundSpec) (n : Nat) (ha : allToAll tbl = true)
    (hd : disciplined tbl = true) (s : Sys) (hreach : Reach tbl n s) (hq : Quiescent n s)
    (i k : Nat) (hi : i < n) (hk : 0 < k) (r : RoundSpec) (hr : tbl[k - 1]? = some r) (hf : r.final = false)
    (hall : ∀ j, j < n → j ≠ i → k ≤ (s j).rnd) :
    ∀ j, j < n → j ≠ i → sat r (s i).store j = true :=
  others_satisfied ha hd (reach_inv ha hreach) hq hi hk hr hf hall

/-! ## 6. the hypotheses are satisfiable -/

/-- all four tables of the library meet the hypotheses of `ends_exactly_once` and `no_deadlock` -/
example : ∀ P ∈ protos, finalLast P.table = true ∧ allToAll P.table = true ∧ disciplined P.table = true := by decide
example : finalLast toy = true ∧ allToAll toy = true ∧ disciplined toy = true := by decide

/-- genuine messages are `Good` -/
example : GoodList eddsaSigning.table 0 [⟨2, 1, ⟨true, 0⟩⟩, ⟨1, 1, ⟨true, 0⟩⟩] := by
  unfold GoodList Good; decide
example : SlotConsistent [(⟨2, 1, ⟨true, 0⟩⟩ : Msg), ⟨1, 1, ⟨true, 0⟩⟩, ⟨2, 1, ⟨true, 0⟩⟩] := by
  intro a ha b hb
  simp only [List.mem_cons, List.not_mem_nil, or_false] at ha hb
  rcases ha with rfl | rfl | rfl <;> rcases hb with rfl | rfl | rfl <;> simp

/-- an early message, in both orders, evaluated -/
example :
    let tbl := eddsaSigning.table
    let p0 := start tbl (fresh 2 0)
    (delivers tbl [⟨2, 1, ⟨true, 0⟩⟩, ⟨1, 1, ⟨true, 0⟩⟩] p0).rnd = 3 ∧
    (delivers tbl [⟨1, 1, ⟨true, 0⟩⟩, ⟨2, 1, ⟨true, 0⟩⟩] p0).rnd = 3 ∧
    (start tbl (delivers tbl [⟨2, 1, ⟨true, 0⟩⟩, ⟨1, 1, ⟨true, 0⟩⟩] (fresh 2 0))).rnd = 3 := by decide

/-- a reachable, fully started, quiescent state of the two-party toy system (so `no_deadlock` is not vacuous) -/
def toyFinal : Sys :=
  let s0 : Sys := fun i => fresh 2 i
  let s1 := s0.set 0 (start toy (s0 0))
  let s2 := s1.set 1 (deliver toy ⟨1, 0, ⟨flagOf toy 1, 7⟩⟩ (s1 1))   -- reaches party 1 before its `Start`
  let s3 := s2.set 1 (start toy (s2 1))
  s3.set 0 (deliver toy ⟨1, 1, ⟨flagOf toy 1, 8⟩⟩ (s3 0))

example : Reach toy 2 toyFinal :=
  Reach.deliver _ 0 1 1 8
    (Reach.start _ 1
      (Reach.deliver _ 1 0 1 7 (Reach.start _ 0 Reach.init (by decide)) (by decide) (by decide) (by decide) (by decide))
      (by decide))
    (by decide) (by decide) (by decide) (by decide)

example : (∀ i, i < 2 → (toyFinal i).rnd ≠ 0) ∧ Quiescent 2 toyFinal := by
  have o0 : (toyFinal 0).out = [1] := by decide
  have o1 : (toyFinal 1).out = [1] := by decide
  have s01 : (toyFinal 0).store 1 1 = some ⟨true, 8⟩ := by decide
  have s10 : (toyFinal 1).store 1 0 = some ⟨true, 7⟩ := by decide
  refine ⟨by decide, ?_⟩
  intro i j hi hj hji ty hty
  have hi' : i = 0 ∨ i = 1 := by omega
  have hj' : j = 0 ∨ j = 1 := by omega
  rcases hi' with rfl | rfl <;> rcases hj' with rfl | rfl
  · exact absurd rfl hji
  · rw [o1] at hty; simp at hty; subst hty; exact ⟨_, s01⟩
  · rw [o0] at hty; simp at hty; subst hty; exact ⟨_, s10⟩
  · exact absurd rfl hji

end TssVerif.C07
