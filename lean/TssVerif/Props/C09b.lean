import TssVerif.Gen.Facts
/-! C09, source-derived part: the lock discipline of the party entry points, as facts regenerated from `/repo`
(`tss/party.go`, the six `local_party.go`) by `vh facts` on every run, against the shape the serialisation
theorems of `Props/C09.lean` assume: every entry point takes the party lock before it touches the party, never
with `TryLock`, and releases it on every way out; the per-protocol wrappers only delegate to them (and wrap a
parse error through `BaseWrapError`, which takes the lock, not through `p.WrapError`, which reads the round
unlocked). A rewrite of these functions that keeps the property may still break these obligations; the check then
looks for a failing concurrent run and reports what it found. -/
namespace TssVerif.C09b
open TssVerif.Gen

/-- what the serialisation argument needs of one entry point -/
def LockOk (f : LockFact) : Bool :=
  f.found && f.beforeLock.isEmpty && decide (1 ≤ f.locks) && f.tryLocks == 0 && (f.deferUnlock || f.unguardedExits == 0)

/-- `BaseStart`, `BaseUpdate`, `BaseWrapError` and `WaitingFor` are the functions analysed … -/
theorem entry_points_listed : lockFacts.map (·.fn) = ["BaseStart", "BaseUpdate", "BaseWrapError", "WaitingFor"] := by decide

/-- … and each of them holds the lock from its first touch of the party to every exit -/
theorem entry_points_hold_the_lock : lockFacts.all LockOk = true := by decide

/-- what a per-protocol wrapper may do -/
def WrapperOk : String × String × List String → Bool
  | (_, "Start", cs) => cs.contains "tss.BaseStart" && !cs.contains "p.WrapError"
  | (_, "Update", cs) => cs == ["tss.BaseUpdate"]
  | (_, "UpdateFromBytes", cs) => cs == ["tss.ParseWireMessage", "tss.BaseWrapError", "p.Update"]
  | _ => false

/-- all six protocols, three wrappers each -/
theorem wrappers_listed : wrapperCalls.map (fun w => (w.1, w.2.1)) =
    (["ecdsa/keygen", "ecdsa/signing", "ecdsa/resharing", "eddsa/keygen", "eddsa/signing", "eddsa/resharing"].flatMap
      fun p => [(p, "Start"), (p, "Update"), (p, "UpdateFromBytes")]) := by decide

theorem wrappers_delegate : wrapperCalls.all WrapperOk = true := by decide

/-- the predicate is not vacuous: an entry point that reads the party before locking, or uses `TryLock`, fails it -/
example : LockOk ⟨"BaseStart", true, ["hadPreStart"], 1, 0, true, 9⟩ = false := by decide
example : LockOk ⟨"WaitingFor", true, [], 0, 1, true, 2⟩ = false := by decide
example : LockOk ⟨"BaseUpdate", true, [], 1, 0, false, 1⟩ = false := by decide

end TssVerif.C09b
