import TssVerif.Core.Curve
import TssVerif.Lemmas.C17
import TssVerif.Lemmas.C17Order
/-! # C17 — only valid curve points are accepted; point arithmetic and encodings are exact

Property theorems only (helper lemmas live in `TssVerif/Lemmas/C17.lean`; the two base-point orders,
about one minute of kernel evaluation each, live in `TssVerif/Lemmas/C17Order.lean`).

The group laws of the two executable curves (associativity, closure of `add` on the curve, …) are NOT
proved here: they are tested differentially against btcec / dcrd-edwards. What is proved: the decoders'
checks, the encode/decode round trip, the outcome (ok / err / panic) structure of the Go-level API for
EVERY curve record, the algebra of cofactor clearing in an abstract commutative group, and, by kernel
evaluation of the executable model, the 8-torsion table of edwards25519 and the base-point orders. -/
namespace TssVerif.C17
open TssVerif

/-! ## 1. decoders check the curve (every curve record) -/
section generic
variable {P : Type} (C : Curve P)

/-- `NewECPoint` returns exactly the coordinates it was given, and only if they pass `IsOnCurve`. -/
theorem ecNew_iff {x y : Nat} {p : ECPoint} :
    C.ecNew x y = some p ↔ C.ecIsOnCurve (x, y) = true ∧ p = (x, y) :=
  C17L.ecNew_eq_some_iff C

theorem ecNew_none_iff {x y : Nat} : C.ecNew x y = none ↔ C.ecIsOnCurve (x, y) = false := by
  have := C17L.ecNew_isSome_iff C (x := x) (y := y)
  cases h : C.ecNew x y <;> cases h' : C.ecIsOnCurve (x, y) <;> simp_all

/-- **complete description of `UnFlattenECPoints`**: it succeeds with `ps` iff the input is the
coordinate list of `ps` and every point of `ps` passes the curve check. -/
theorem unflatten_iff (xs : List Nat) (ps : List ECPoint) :
    C.unflatten xs = some ps ↔ xs = flatten ps ∧ ∀ p ∈ ps, C.ecIsOnCurve p = true :=
  C17L.unflatten_eq_some_iff C xs ps

theorem unflatten_odd_fails {xs : List Nat} (h : xs.length % 2 = 1) : C.unflatten xs = none := by
  cases hu : C.unflatten xs with
  | none => rfl
  | some ps =>
    obtain ⟨rfl, _⟩ := (unflatten_iff C xs ps).1 hu
    rw [C17L.flatten_length] at h
    omega

theorem unflatten_length {xs : List Nat} {ps : List ECPoint} (h : C.unflatten xs = some ps) :
    xs.length = 2 * ps.length := by
  obtain ⟨rfl, _⟩ := (unflatten_iff C xs ps).1 h
  exact C17L.flatten_length ps

/-- **decoders check the curve**, for every curve record. -/
theorem decoders_check_curve :
    (∀ x y p, C.ecNew x y = some p → C.ecIsOnCurve (x, y) = true ∧ p = (x, y)) ∧
    (∀ xs ps, C.unflatten xs = some ps → ∀ p ∈ ps, C.ecIsOnCurve p = true) ∧
    (∀ xs, xs.length % 2 = 1 → C.unflatten xs = none) :=
  ⟨fun _ _ _ h => (ecNew_iff C).1 h, fun xs ps h => ((unflatten_iff C xs ps).1 h).2,
   fun _ h => unflatten_odd_fails C h⟩

/-! ## 2. flatten / unflatten -/

/-- decoding the encoding of on-curve points gives the points back -/
theorem unflatten_flatten {ps : List ECPoint} (h : ∀ p ∈ ps, C.ecIsOnCurve p = true) :
    C.unflatten (flatten ps) = some ps :=
  (unflatten_iff C _ ps).2 ⟨rfl, h⟩

/-- re-encoding what was decoded gives back the same coordinates -/
theorem flatten_unflatten {xs : List Nat} {ps : List ECPoint} (h : C.unflatten xs = some ps) :
    flatten ps = xs :=
  ((unflatten_iff C xs ps).1 h).1.symm

/-- a point that fails the check makes the whole decoding fail -/
theorem unflatten_flatten_fails {ps : List ECPoint} {p : ECPoint} (hp : p ∈ ps)
    (h : C.ecIsOnCurve p = false) : C.unflatten (flatten ps) = none := by
  cases hu : C.unflatten (flatten ps) with
  | none => rfl
  | some qs =>
    have hq := (unflatten_iff C _ qs).1 hu
    have : ps = qs := C17L.flatten_injective hq.1
    subst this
    rw [hq.2 p hp] at h; cases h

theorem ecEquals_iff (a b : ECPoint) : ecEquals a b = true ↔ a = b := by
  obtain ⟨a1, a2⟩ := a; obtain ⟨b1, b2⟩ := b
  simp [ecEquals]

/-! ## 6. outcomes of the arithmetic API (every curve record) -/

/-- `(*ECPoint).Add` never panics -/
theorem ecAdd_total (a b : ECPoint) : (C.ecAdd a b).isPanic = false :=
  C17L.ecAdd_total C a b

theorem ecAdd_ok_iff (a b r : ECPoint) : C.ecAdd a b = .ok r ↔
    ∃ pa pb, C.lift a = some pa ∧ C.lift b = some pb ∧ C.toAffine (C.add pa pb) = some r :=
  C17L.ecAdd_ok_iff C a b r

/-- the error cases of `Add`: an operand is off the curve, or the sum has no affine form -/
theorem ecAdd_err_iff (a b : ECPoint) (t : String) : C.ecAdd a b = .err t ↔
    ((C.ecIsOnCurve a = false ∨ C.ecIsOnCurve b = false) ∧ t = "operand-not-on-curve") ∨
    (∃ pa pb, C.lift a = some pa ∧ C.lift b = some pb ∧ C.toAffine (C.add pa pb) = none ∧
      t = "not-on-curve") :=
  C17L.ecAdd_err_iff C a b t

/-- **`ScalarMult` panics exactly when the operand is on the curve and the product has no affine form**;
it reports an error exactly when the operand is off the curve; otherwise it returns the affine product. -/
theorem ecScalarMult_outcomes (a : ECPoint) (k : Int) :
    (∀ t, C.ecScalarMult a k = .panic t ↔
      (∃ pa, C.lift a = some pa ∧ C.toAffine (C.smul k.natAbs pa) = none) ∧ t = "scalar-mult-identity") ∧
    (∀ t, C.ecScalarMult a k = .err t ↔ C.ecIsOnCurve a = false ∧ t = "operand-not-on-curve") ∧
    (∀ r, C.ecScalarMult a k = .ok r ↔
      ∃ pa, C.lift a = some pa ∧ C.toAffine (C.smul k.natAbs pa) = some r) :=
  C17L.ecScalarMult_outcomes C a k

/-- `ScalarBaseMult` panics exactly when the product has no affine form, and never reports an error -/
theorem ecBaseMult_outcomes (k : Int) :
    (∀ t, C.ecBaseMult k = .panic t ↔
      C.toAffine (C.smul k.natAbs C.base) = none ∧ t = "scalar-base-mult-identity") ∧
    (∀ t, C.ecBaseMult k ≠ .err t) ∧
    (∀ r, C.ecBaseMult k = .ok r ↔ C.toAffine (C.smul k.natAbs C.base) = some r) :=
  C17L.ecBaseMult_outcomes C k

/-- Go passes `k.Bytes()`: the sign of the scalar is dropped -/
theorem ecScalarMult_neg (a : ECPoint) (k : Int) : C.ecScalarMult a (-k) = C.ecScalarMult a k := by
  simp only [Curve.ecScalarMult, Int.natAbs_neg]

theorem ecBaseMult_neg (k : Int) : C.ecBaseMult (-k) = C.ecBaseMult k := by
  simp only [Curve.ecBaseMult, Int.natAbs_neg]

end generic

/-! ## 1b. what the curve check is, on the two executable curves -/

/-- the secp256k1 acceptance condition, in the `%`-form of `Secp256k1.onCurve` -/
def SecpValid (x y : Nat) : Prop :=
  x < Secp256k1.p ∧ y < Secp256k1.p ∧ y * y % Secp256k1.p = (x * x % Secp256k1.p * x + 7) % Secp256k1.p

/-- the edwards25519 acceptance condition, in the `%`-form of `Ed25519.onCurve` -/
def EdValid (x y : Nat) : Prop :=
  x < Ed25519.p ∧ y < Ed25519.p ∧
    (y * y + (Ed25519.p - x * x % Ed25519.p)) % Ed25519.p =
      (1 + Ed25519.d * (x * x % Ed25519.p) % Ed25519.p * (y * y % Ed25519.p)) % Ed25519.p

/-- clean restatement: canonical coordinates and `y² = x³ + 7` in `ZMod p` -/
theorem secpValid_iff_zmod (x y : Nat) : SecpValid x y ↔
    x < Secp256k1.p ∧ y < Secp256k1.p ∧ (y : ZMod Secp256k1.p) ^ 2 = (x : ZMod Secp256k1.p) ^ 3 + 7 := by
  unfold SecpValid; rw [C17L.secp_eqn_iff_zmod]

theorem secpValid_iff_modEq (x y : Nat) : SecpValid x y ↔
    x < Secp256k1.p ∧ y < Secp256k1.p ∧ y ^ 2 ≡ x ^ 3 + 7 [MOD Secp256k1.p] := by
  unfold SecpValid; rw [C17L.secp_eqn_iff_modEq]

/-- clean restatement: canonical coordinates and `−x² + y² = 1 + d x² y²` in `ZMod p` -/
theorem edValid_iff_zmod (x y : Nat) : EdValid x y ↔
    x < Ed25519.p ∧ y < Ed25519.p ∧
      -(x : ZMod Ed25519.p) ^ 2 + (y : ZMod Ed25519.p) ^ 2
        = 1 + (Ed25519.d : ZMod Ed25519.p) * (x : ZMod Ed25519.p) ^ 2 * (y : ZMod Ed25519.p) ^ 2 := by
  unfold EdValid; rw [C17L.ed_eqn_iff_zmod]

theorem secp_isOnCurve_iff (x y : Nat) : Secp256k1.curve.ecIsOnCurve (x, y) = true ↔ SecpValid x y :=
  C17L.secp_ecIsOnCurve_iff x y

theorem ed_isOnCurve_iff (x y : Nat) : Ed25519.curve.ecIsOnCurve (x, y) = true ↔ EdValid x y :=
  C17L.ed_ecIsOnCurve_iff x y

/-- `NewECPoint(secp256k1, x, y)` succeeds iff `x, y < p` and `y² ≡ x³ + 7 (mod p)` -/
theorem secp_ecNew_iff (x y : Nat) : Secp256k1.curve.ecNew x y = some (x, y) ↔ SecpValid x y := by
  rw [ecNew_iff, secp_isOnCurve_iff]; simp

theorem secp_ecNew_none_iff (x y : Nat) : Secp256k1.curve.ecNew x y = none ↔ ¬ SecpValid x y := by
  rw [ecNew_none_iff, ← secp_isOnCurve_iff]; simp

/-- `NewECPoint(edwards25519, x, y)` succeeds iff `x, y < p` and `−x² + y² ≡ 1 + d x² y² (mod p)` -/
theorem ed_ecNew_iff (x y : Nat) : Ed25519.curve.ecNew x y = some (x, y) ↔ EdValid x y := by
  rw [ecNew_iff, ed_isOnCurve_iff]; simp

theorem ed_ecNew_none_iff (x y : Nat) : Ed25519.curve.ecNew x y = none ↔ ¬ EdValid x y := by
  rw [ecNew_none_iff, ← ed_isOnCurve_iff]; simp

/-- non-canonical coordinates are rejected, whatever they are congruent to -/
theorem secp_rejects_noncanonical {x y : Nat} (h : Secp256k1.p ≤ x ∨ Secp256k1.p ≤ y) :
    Secp256k1.curve.ecNew x y = none ∧ Secp256k1.curve.ecIsOnCurve (x, y) = false := by
  have hv : ¬ SecpValid x y := by rintro ⟨hx, hy, _⟩; omega
  exact ⟨(secp_ecNew_none_iff x y).2 hv, by rw [← ecNew_none_iff]; exact (secp_ecNew_none_iff x y).2 hv⟩

theorem ed_rejects_noncanonical {x y : Nat} (h : Ed25519.p ≤ x ∨ Ed25519.p ≤ y) :
    Ed25519.curve.ecNew x y = none ∧ Ed25519.curve.ecIsOnCurve (x, y) = false := by
  have hv : ¬ EdValid x y := by rintro ⟨hx, hy, _⟩; omega
  exact ⟨(ed_ecNew_none_iff x y).2 hv, by rw [← ecNew_none_iff]; exact (ed_ecNew_none_iff x y).2 hv⟩

/-- the base points are accepted (the acceptance conditions are satisfiable) … -/
example : Secp256k1.curve.ecNew Secp256k1.gx Secp256k1.gy = some (Secp256k1.gx, Secp256k1.gy) := by
  decide +kernel
example : Ed25519.curve.ecNew Ed25519.gx Ed25519.gy = some (Ed25519.gx, Ed25519.gy) := by
  decide +kernel
/-- … and `(gx + p, gy)`, which satisfies the congruence, is not (the range check is what rejects it) -/
example : Secp256k1.gy ^ 2 ≡ (Secp256k1.gx + Secp256k1.p) ^ 3 + 7 [MOD Secp256k1.p] ∧
    Secp256k1.curve.ecNew (Secp256k1.gx + Secp256k1.p) Secp256k1.gy = none := by
  refine ⟨?_, (secp_rejects_noncanonical (Or.inl (Nat.le_add_left _ _))).1⟩
  decide +kernel
example : EdValid Ed25519.gx Ed25519.gy ∧
    Ed25519.curve.ecNew Ed25519.gx (Ed25519.gy + Ed25519.p) = none :=
  ⟨by rw [← ed_ecNew_iff]; decide +kernel, (ed_rejects_noncanonical (Or.inr (Nat.le_add_left _ _))).1⟩
example : Secp256k1.curve.unflatten [Secp256k1.gx, Secp256k1.gy, Secp256k1.gx, Secp256k1.gy]
    = some [(Secp256k1.gx, Secp256k1.gy), (Secp256k1.gx, Secp256k1.gy)] := by
  decide +kernel

/-! ## 3. cofactor clearing, abstractly

`G` is any additive commutative group (only the commutative-monoid structure is used, so the statement
is made for `AddCommMonoid`; every `AddCommGroup` is one). `x ↦ (8·e)•x` with `8·e ≡ 1 (mod q)` is what
`EightInvEight` computes (multiply by 8, then by `8⁻¹ mod q`) on a group of order `8·q`. -/

/-- **cofactor clearing**: on the `8q`-torsion of a commutative group, with `8·e ≡ 1 (mod q)`,
(i) the image is killed by `q`; (ii) points killed by `q` are fixed; (iii) adding any point killed by `8`
does not change the image. (Coprimality of `8` and `q` follows from `he`, so it is not assumed.) -/
theorem cofactor_clear {G : Type*} [AddCommMonoid G] {q e : Nat} (he : 8 * e ≡ 1 [MOD q])
    (x : G) (hx : (8 * q) • x = 0) :
    q • ((8 * e) • x) = 0 ∧
    (q • x = 0 → (8 * e) • x = x) ∧
    (∀ t : G, 8 • t = 0 → (8 * e) • (x + t) = (8 * e) • x) :=
  ⟨C17L.cofactor_image_order q e x hx, C17L.cofactor_fix q e he x, fun t => C17L.cofactor_kill_torsion e x t⟩

/-- the same, on an additive commutative group, two-step form `e • (8 • x)` as the code computes it -/
theorem cofactor_clear_two_step {G : Type*} [AddCommGroup G] {q e : Nat} (he : 8 * e ≡ 1 [MOD q])
    (x : G) (hx : (8 * q) • x = 0) :
    q • (e • (8 • x)) = 0 ∧
    (q • x = 0 → e • (8 • x) = x) ∧
    (∀ t : G, 8 • t = 0 → e • (8 • (x + t)) = e • (8 • x)) := by
  have h := cofactor_clear he x hx
  simp only [mul_nsmul] at h
  exact h

/-- the constant the code uses: `8 · eightInv ≡ 1 (mod l)` -/
theorem cofactor_const : 8 * Ed25519.eightInv % Ed25519.l = 1 := by decide +kernel

theorem cofactor_const_lt : Ed25519.eightInv < Ed25519.l := by decide +kernel

theorem ed_l_odd : Ed25519.l % 2 = 1 := by decide +kernel

theorem ed_l_coprime_8 : Nat.Coprime 8 Ed25519.l := by decide +kernel

/-- the hypotheses of `cofactor_clear` hold for the model's constants -/
theorem cofactor_clear_ed {G : Type*} [AddCommGroup G] (x : G) (hx : (8 * Ed25519.l) • x = 0) :
    Ed25519.l • ((8 * Ed25519.eightInv) • x) = 0 ∧
    (Ed25519.l • x = 0 → (8 * Ed25519.eightInv) • x = x) ∧
    (∀ t : G, 8 • t = 0 → (8 * Ed25519.eightInv) • (x + t) = (8 * Ed25519.eightInv) • x) :=
  cofactor_clear (q := Ed25519.l) (e := Ed25519.eightInv) cofactor_const x hx

/-! ## 4. the 8-torsion of the executable Edwards curve, by kernel evaluation -/

/-- a point of order 8 -/
def T8 : ECPoint :=
  (43496726750457979451437558183816721346016168361625936758514574428539776020131,
   2707385501144840649318225287225658788936804267575313519463743609750303402022)

/-- the eight torsion points `k·T8`, `k = 0..7` -/
def torsion : List ECPoint :=
  [ (0, 1),
    (43496726750457979451437558183816721346016168361625936758514574428539776020131,
     2707385501144840649318225287225658788936804267575313519463743609750303402022),
    (38214883241950591754978413199355411911188925816896391856984770930832735035197, 0),
    (43496726750457979451437558183816721346016168361625936758514574428539776020131,
     55188659117513257062467267217118295137698188065244968500265048394206261417927),
    (0, 57896044618658097711785492504343953926634992332820282019728792003956564819948),
    (14399317868200118260347934320527232580618823971194345261214217575416788799818,
     55188659117513257062467267217118295137698188065244968500265048394206261417927),
    (19681161376707505956807079304988542015446066515923890162744021073123829784752, 0),
    (14399317868200118260347934320527232580618823971194345261214217575416788799818,
     2707385501144840649318225287225658788936804267575313519463743609750303402022) ]

theorem torsion_generated :
    torsion = (List.range 8).map fun k => Ed25519.curve.smul k T8 := by decide +kernel

/-- the order of each entry: least `k ≥ 1` with `k·t = (0,1)` -/
theorem torsion_orders :
    torsion.map (fun t => (List.range' 1 8).find? fun k => Ed25519.curve.smul k t == (0, 1))
      = [some 1, some 8, some 4, some 8, some 2, some 8, some 4, some 8] := by decide +kernel

/-- **torsion table**: eight pairwise distinct points, all accepted by the curve check, all killed by 8,
and all sent to the identity by the model's `EightInvEight`. -/
theorem torsion_table :
    torsion.length = 8 ∧ torsion.Nodup ∧
    (∀ t ∈ torsion, Ed25519.curve.ecIsOnCurve t = true) ∧
    (∀ t ∈ torsion, Ed25519.curve.smul 8 t = (0, 1)) ∧
    (∀ t ∈ torsion, Ed25519.eightInvEight t = .ok (0, 1)) := by
  refine ⟨rfl, ?_, ?_, ?_, ?_⟩ <;> decide +kernel

/-- readable description of the low-order entries: identity, `(0, p−1)` of order 2, `(±√−1, 0)` of order 4 -/
theorem torsion_low_order :
    torsion[0]? = some (0, 1) ∧ torsion[4]? = some (0, Ed25519.p - 1) ∧
    (∃ i, torsion[6]? = some (i, 0) ∧ torsion[2]? = some (Ed25519.p - i, 0) ∧
      i * i % Ed25519.p = Ed25519.p - 1) := by
  refine ⟨rfl, by decide +kernel, _, rfl, by decide +kernel, by decide +kernel⟩

/-! ### order of the base points (kernel evaluation, in `Lemmas/C17Order.lean`) -/

theorem base_order_ed : Ed25519.curve.smul Ed25519.l Ed25519.curve.base = (0, 1) :=
  C17L.ed_base_order

theorem base_order_secp : Secp256k1.curve.smul Secp256k1.n Secp256k1.curve.base = none :=
  C17L.secp_base_order

/-! ## 5. the identity -/

/-- secp256k1's identity has no affine form: `ScalarBaseMult` crashes on `0` and on the group order
(a crash site of the Go API on locally chosen values) … -/
theorem identity_handling_secp :
    Secp256k1.curve.ecBaseMult 0 = .panic "scalar-base-mult-identity" ∧
    Secp256k1.curve.ecBaseMult (Secp256k1.n : Int) = .panic "scalar-base-mult-identity" ∧
    Secp256k1.curve.ecBaseMult (-(Secp256k1.n : Int)) = .panic "scalar-base-mult-identity" := by
  have h : Secp256k1.curve.ecBaseMult (Secp256k1.n : Int) = .panic "scalar-base-mult-identity" := by
    apply C17L.ecBaseMult_of_none
    rw [Int.natAbs_natCast, base_order_secp]
    rfl
  exact ⟨rfl, h, by rw [ecBaseMult_neg, h]⟩

/-- … while on edwards25519 the identity is the affine point `(0, 1)` and nothing crashes -/
theorem identity_handling_ed :
    Ed25519.curve.ecBaseMult 0 = .ok (0, 1) ∧
    Ed25519.curve.ecBaseMult (Ed25519.l : Int) = .ok (0, 1) := by
  refine ⟨rfl, ?_⟩
  apply C17L.ecBaseMult_of_some
  rw [Int.natAbs_natCast, base_order_ed]
  rfl

/-- the negative of an accepted secp256k1 point is accepted -/
theorem secp_neg_on_curve {x y : Nat} (h : Secp256k1.curve.ecIsOnCurve (x, y) = true) :
    Secp256k1.curve.ecIsOnCurve (x, (Secp256k1.p - y) % Secp256k1.p) = true := by
  rw [C17L.secp_ecIsOnCurve_iff, ← C17L.secp_onCurve_iff] at h ⊢
  exact C17L.secp_neg_onCurve h

/-- **`Add` of a point and its negative is an error on secp256k1** (for every accepted point; the case
`y = 0`, where the point is its own negative, is covered too — it goes through `double`). -/
theorem secp_add_neg_err {x y : Nat} (h : Secp256k1.curve.ecIsOnCurve (x, y) = true) :
    Secp256k1.curve.ecAdd (x, y) (x, (Secp256k1.p - y) % Secp256k1.p) = .err "not-on-curve" :=
  C17L.secp_ecAdd_neg h

example : Secp256k1.curve.ecIsOnCurve (Secp256k1.gx, Secp256k1.gy) = true := by decide +kernel

/-- **identity handling**, the facts above in one statement -/
theorem identity_handling :
    Secp256k1.curve.ecBaseMult 0 = .panic "scalar-base-mult-identity" ∧
    Secp256k1.curve.ecBaseMult (Secp256k1.n : Int) = .panic "scalar-base-mult-identity" ∧
    Ed25519.curve.ecBaseMult 0 = .ok (0, 1) ∧
    Ed25519.curve.ecBaseMult (Ed25519.l : Int) = .ok (0, 1) ∧
    (∀ x y, Secp256k1.curve.ecIsOnCurve (x, y) = true →
      Secp256k1.curve.ecIsOnCurve (x, (Secp256k1.p - y) % Secp256k1.p) = true ∧
      Secp256k1.curve.ecAdd (x, y) (x, (Secp256k1.p - y) % Secp256k1.p) = .err "not-on-curve") :=
  ⟨identity_handling_secp.1, identity_handling_secp.2.1, identity_handling_ed.1, identity_handling_ed.2,
   fun _ _ h => ⟨secp_neg_on_curve h, secp_add_neg_err h⟩⟩

/-- `ScalarMult` by `0` of any accepted secp256k1 point crashes -/
theorem secp_scalarMult_zero_panics {a : ECPoint} (h : Secp256k1.curve.ecIsOnCurve a = true) :
    Secp256k1.curve.ecScalarMult a 0 = .panic "scalar-mult-identity" := by
  obtain ⟨pa, hpa⟩ := Option.isSome_iff_exists.1 h
  have hpa' : Secp256k1.curve.lift a = some pa := hpa
  exact C17L.ecScalarMult_of_none _ a 0 pa hpa' rfl

/-- `ScalarMult` of the base point by the group order crashes -/
theorem secp_scalarMult_order_panics :
    Secp256k1.curve.ecScalarMult (Secp256k1.gx, Secp256k1.gy) (Secp256k1.n : Int)
      = .panic "scalar-mult-identity" := by
  have hl : Secp256k1.curve.lift (Secp256k1.gx, Secp256k1.gy) = some Secp256k1.curve.base := by
    decide +kernel
  apply C17L.ecScalarMult_of_none _ _ _ _ hl
  rw [Int.natAbs_natCast, base_order_secp]
  rfl

/-- on edwards25519 nothing in the arithmetic API panics -/
theorem ed_never_panics (a : ECPoint) (k : Int) :
    (Ed25519.curve.ecScalarMult a k).isPanic = false ∧ (Ed25519.curve.ecBaseMult k).isPanic = false ∧
    (Ed25519.eightInvEight a).isPanic = false :=
  C17L.ed_never_panics a k

/-- on secp256k1 `ScalarMult` panics exactly when the product is the point at infinity -/
theorem secp_scalarMult_panic_iff (x y : Nat) (k : Int) (t : String) :
    Secp256k1.curve.ecScalarMult (x, y) k = .panic t ↔
      SecpValid x y ∧ Secp256k1.curve.smul k.natAbs (some (x, y)) = none ∧ t = "scalar-mult-identity" :=
  C17L.secp_scalarMult_panic_iff x y k t

end TssVerif.C17
