import TssVerif.Lemmas.MiscSubset
import TssVerif.Lemmas.MiscNonce
/-! # C20 — key material re-indexed for any subset and ordering; nonces determine the signature's `r`

* `subset_reindex`, `subset_missing_iff`, `subset_order_independent`, `subset_perm` — `BuildLocalSaveDataSubset`
  (modelled column-wise by `MiscL.subsetBy`, the LAST-wins map of the Go code): for distinct saved keys and any
  selection in ANY order the result holds, at position `j`, the saved entry of the party with key `sel[j]`;
  it panics (`none`) exactly when a selected key is missing; re-ordering the selection re-orders the result alike.
* `nonce_injective`, `nonce_r_determines_nonce`, `nonce_r_collision` — on a lawful curve the nonce point `k⁻¹·G`
  determines `k` modulo `q`, and `r` (the `x` coordinate) determines it up to sign; so two sessions with
  `k ≢ ±k'` have different `r`.
* `coins_fresh` — LABELLED SMALL LEMMA: consecutive sessions read disjoint index ranges of one coin stream. -/
set_option autoImplicit false
namespace TssVerif.C20
open TssVerif TssVerif.MiscL

/-! ## subsets and orderings of the saved parties -/

/-- **re-indexing**: distinct saved keys, full columns, every selected key saved; any order, repetitions allowed -/
theorem subset_reindex {α : Type} (keys : List Nat) (cols : List α) (sel : List Nat)
    (hnd : keys.Nodup) (hlen : cols.length = keys.length) (hsub : ∀ s ∈ sel, s ∈ keys) :
    ∃ r, subsetBy keys cols sel = some r ∧ r.length = sel.length ∧
      ∀ (j idx : Nat) (hj : j < sel.length) (hidx : idx < keys.length),
        keys[idx] = sel[j] → r[j]? = cols[idx]? := by
  have hsome : (subsetBy keys cols sel).isSome :=
    (subsetBy_isSome_iff keys cols sel).2 fun s hs => (entryBy_isSome_iff keys cols hlen s).2 (hsub s hs)
  obtain ⟨r, hr⟩ := Option.isSome_iff_exists.1 hsome
  obtain ⟨hl, hall⟩ := (subsetBy_eq_some_iff keys cols sel r).1 hr
  refine ⟨r, hr, hl, fun j idx hj hidx hk => ?_⟩
  have h1 := hall j hj (by omega)
  rw [← hk] at h1
  unfold entryBy at h1
  rw [lastPos_of_nodup hnd hidx, Option.bind_some] at h1
  rw [h1, List.getElem?_eq_getElem (by omega)]

/-- **panic exactly on a missing key** -/
theorem subset_missing_iff {α : Type} (keys : List Nat) (cols : List α) (sel : List Nat)
    (hlen : cols.length = keys.length) :
    subsetBy keys cols sel = none ↔ ∃ s ∈ sel, s ∉ keys := by
  rw [← Option.not_isSome_iff_eq_none, subsetBy_isSome_iff]
  simp only [entryBy_isSome_iff keys cols hlen, not_forall, exists_prop]

/-- **the entry only depends on the key**, not on where or in which selection it occurs -/
theorem subset_order_independent {α : Type} (keys : List Nat) (cols : List α) (sel sel' : List Nat)
    (r r' : List α) (h : subsetBy keys cols sel = some r) (h' : subsetBy keys cols sel' = some r')
    (j j' : Nat) (hj : j < sel.length) (hj' : j' < sel'.length) (hkey : sel[j] = sel'[j']) :
    r[j]? = r'[j']? := by
  obtain ⟨hl, hall⟩ := (subsetBy_eq_some_iff keys cols sel r).1 h
  obtain ⟨hl', hall'⟩ := (subsetBy_eq_some_iff keys cols sel' r').1 h'
  have h1 := hall j hj (by omega)
  have h2 := hall' j' hj' (by omega)
  rw [hkey, h2] at h1
  rw [List.getElem?_eq_getElem (by omega), List.getElem?_eq_getElem (by omega), Option.some.inj h1]

/-- **it commutes with permutations of the selection** -/
theorem subset_perm {α : Type} (keys : List Nat) (cols : List α) {sel sel' : List Nat}
    (hp : sel.Perm sel') {r : List α} (h : subsetBy keys cols sel = some r) :
    ∃ r', subsetBy keys cols sel' = some r' ∧ (sel.zip r).Perm (sel'.zip r') :=
  subsetBy_perm keys cols hp h

/-- the own-key column (`Ks`): the subset of the keys by a selection is the selection itself -/
theorem subset_keys (keys sel : List Nat) (hnd : keys.Nodup) (hsub : ∀ s ∈ sel, s ∈ keys) :
    subsetBy keys keys sel = some sel := by
  obtain ⟨r, hr, hl, hall⟩ := subset_reindex keys keys sel hnd rfl hsub
  rw [hr]
  congr 1
  apply List.ext_getElem hl
  intro j h1 h2
  obtain ⟨idx, hidx, hk⟩ := List.getElem_of_mem (hsub _ (List.getElem_mem h2))
  have := hall j idx h2 hidx hk
  rw [List.getElem?_eq_getElem h1, List.getElem?_eq_getElem hidx, hk] at this
  exact Option.some.inj this

/-! ## nonces -/

section nonce
variable {P : Type} {C : Curve P}

/-- **the nonce point determines the nonce**: for `k, k' ≢ 0`, `(k⁻¹ mod q)·G = (k'⁻¹ mod q)·G ↔ k ≡ k' (mod q)` -/
theorem nonce_injective (hC : C.Lawful) {k k' : Nat} (hk : k % C.q ≠ 0) (hk' : k' % C.q ≠ 0) :
    ∃ ki ki', modInverse (k : Int) C.q = some ki ∧ modInverse (k' : Int) C.q = some ki' ∧
      (C.smul ki C.base = C.smul ki' C.base ↔ k ≡ k' [MOD C.q]) := by
  obtain ⟨ki, h, _⟩ := modInverse_prime hC.q_prime (a := (k : Int)) (by exact_mod_cast hk)
  obtain ⟨ki', h', _⟩ := modInverse_prime hC.q_prime (a := (k' : Int)) (by exact_mod_cast hk')
  exact ⟨ki, ki', h, h', nonce_point_inj hC h h'⟩

/-- the same for whatever inverses `ModInverse` returned -/
theorem nonce_injective' (hC : C.Lawful) {k k' ki ki' : Nat}
    (h : modInverse (k : Int) C.q = some ki) (h' : modInverse (k' : Int) C.q = some ki') :
    C.smul ki C.base = C.smul ki' C.base ↔ k ≡ k' [MOD C.q] :=
  nonce_point_inj hC h h'

/-- **equal `r` means equal nonce up to sign**, under the explicit hypothesis that an `x` coordinate is shared
only by a point and its negative -/
theorem nonce_r_determines_nonce (hC : C.Lawful) (hX : XDeterminesUpToSign C) {k k' ki ki' : Nat}
    (h : modInverse (k : Int) C.q = some ki) (h' : modInverse (k' : Int) C.q = some ki')
    {r y y' : Nat} (hR : C.toAffine (C.smul ki C.base) = some (r, y))
    (hR' : C.toAffine (C.smul ki' C.base) = some (r, y')) :
    k ≡ k' [MOD C.q] ∨ (k + k') % C.q = 0 :=
  nonce_r_inj hC hX h h' hR hR'

/-- contrapositive, the form used for two sessions: nonces different up to sign ⟹ different `r` -/
theorem distinct_nonces_distinct_r (hC : C.Lawful) (hX : XDeterminesUpToSign C) {k k' ki ki' : Nat}
    (h : modInverse (k : Int) C.q = some ki) (h' : modInverse (k' : Int) C.q = some ki')
    (hne : ¬ k ≡ k' [MOD C.q]) (hne' : (k + k') % C.q ≠ 0)
    {r r' y y' : Nat} (hR : C.toAffine (C.smul ki C.base) = some (r, y))
    (hR' : C.toAffine (C.smul ki' C.base) = some (r', y')) : r ≠ r' := by
  rintro rfl
  rcases nonce_r_inj hC hX h h' hR hR' with h1 | h1
  · exact hne h1
  · exact hne' h1

/-- the converse (why "up to sign" cannot be improved), when negation keeps the `x` coordinate -/
theorem nonce_r_collision (hC : C.Lawful) (hN : NegKeepsX C) {k k' ki ki' : Nat}
    (h : modInverse (k : Int) C.q = some ki) (h' : modInverse (k' : Int) C.q = some ki')
    (hk : k ≡ k' [MOD C.q] ∨ (k + k') % C.q = 0)
    {r y : Nat} (hR : C.toAffine (C.smul ki C.base) = some (r, y)) :
    ∃ y', C.toAffine (C.smul ki' C.base) = some (r, y') :=
  MiscL.nonce_r_collision hC hN h h' hk hR

end nonce

/-! ## coin streams — small list lemma -/

/-- SMALL LEMMA (labelled as such): a session consuming `n` coins uses `cs.take n` and leaves `cs.drop n`; the next
session, consuming `m`, uses positions `n … n+m−1`. The two read disjoint index ranges of the stream, and if the
stream has no repeated value the values are disjoint too. -/
theorem coins_fresh {α : Type} (cs : List α) (n m : Nat) :
    cs.take n ++ (cs.drop n).take m = cs.take (n + m) ∧
    (∀ i, i < n → (cs.take n)[i]? = cs[i]?) ∧
    (∀ j, j < m → ((cs.drop n).take m)[j]? = cs[n + j]?) ∧
    (cs.Nodup → List.Disjoint (cs.take n) ((cs.drop n).take m)) :=
  take_drop_disjoint cs n m

/-! ## the hypotheses are satisfiable; concrete evaluations -/

section examples

/-- five saved parties, signers 40, 10, 30 in that order -/
example : subsetBy [10, 20, 30, 40, 50] ["a", "b", "c", "d", "e"] [40, 10, 30] = some ["d", "a", "c"] := by
  decide
example : subsetBy [10, 20, 30, 40, 50] ["a", "b", "c", "d", "e"] [10, 30, 40] = some ["a", "c", "d"] := by
  decide
/-- a missing signer: Go panics -/
example : subsetBy [10, 20, 30] ["a", "b", "c"] [10, 99] = none := by decide
/-- duplicate saved keys: the map keeps the LAST position (why `Nodup` is a hypothesis of `subset_reindex`) -/
example : subsetBy [10, 20, 10] ["a", "b", "c"] [10] = some ["c"] := by decide

local instance : Fact (Nat.Prime 23) := ⟨by decide⟩

/-- `zmodCurve` satisfies `XDeterminesUpToSign` (its `x` coordinate determines the point) -/
theorem zmodCurve_xdet : XDeterminesUpToSign (zmodCurve 23) := by
  intro a b x y y' ha hb
  left
  apply (zmodCurve_lawful 23).toAffine_inj
  simp only [zmodCurve, Option.some.injEq, Prod.mk.injEq] at ha hb ⊢
  exact ⟨ha.1.trans hb.1.symm, trivial⟩

/-- nonces 3 and 7 on the toy curve: inverses 8 and 10, different points, different `r` -/
example : modInverse 3 23 = some 8 ∧ modInverse 7 23 = some 10 := by decide
example {r r' y y' : Nat} (hR : (zmodCurve 23).toAffine ((zmodCurve 23).smul 8 (zmodCurve 23).base) = some (r, y))
    (hR' : (zmodCurve 23).toAffine ((zmodCurve 23).smul 10 (zmodCurve 23).base) = some (r', y')) : r ≠ r' :=
  distinct_nonces_distinct_r (C := zmodCurve 23) (k := 3) (k' := 7) (zmodCurve_lawful 23) zmodCurve_xdet
    (by decide) (by decide) (by decide) (by decide) hR hR'

example : ([1, 2, 3, 4, 5, 6].take 2, (([1, 2, 3, 4, 5, 6] : List Nat).drop 2).take 3) = ([1, 2], [3, 4, 5]) := rfl

end examples

end TssVerif.C20
