import TssVerif.Lemmas.C05Rs5
/-! # C05f — one deviating new member in ECDSA resharing round 5 (no-small-factor proofs): who is named

Property C05: "A misbehaving peer cannot cause a bad output and is the one blamed: if one party deviates by
sending an altered message, every honest party either finishes with a valid output or reports an error whose
culprit list names nobody but the deviator; when the alteration is one the checks cover (a proof, a commitment
opening, a share), the error names exactly the deviator. No honest party is ever named."

The object is the model of the new-committee side of `ecdsa/resharing/round_5_new_step_3.go` in
`Core/BlameEc5.lean`: after every acknowledgement has arrived a new member checks, sequentially in index order,
the other new members' no-small-factor proofs (`DGRound4Message1`): `rsFacPeer C H zcfg noFac ownIdx ssid
ownNTilde ownH1 ownH2 p` is the judgement about ONE peer (`.ok none` = accepted, `.ok (some why)` = named),
`rsRound5Fac … peers` the loop (`.ok none` = the party emits its key data, `.ok (some (c, why))` = the error that
names `c`). Everything holds for every curve record `C`, every hash `H`, every configuration `zcfg` unless
`Zk.cur` (the tree as it is now) is written, and unboundedly many peers. "Every peer except `dev` is honest" is
"every peer with `idx ≠ dev` is accepted by `rsFacPeer`".

How the clauses of the property are covered (the round names the FIRST failing peer):

* "an error names nobody but the deviator": `rs5_first_failing_named` (exact), `rs5_culprit_is_sender`,
  `rs5_never_names_self`, `rs5_single_deviator` (part 1);
* "a covered alteration (a proof) names exactly the deviator": `rs5_single_deviator` (part 2), with the exact
  judgements `rsFacPeer_none_iff`, `rsFacPeer_named_iff`, `rs5_rejected_proof_blamed`, `rs5_missing_proof_blamed`
  (a proof that does not decode is an alteration the check covers unless the party was configured to tolerate
  it: `rs5_missing_proof_tolerated`);
* "no honest party is ever named": `rs5_honest_peer_not_named`, `rs5_never_names_self`;
* "finishes with a valid output": `rs5_pass_iff` (the key data is emitted iff every proof was accepted);
* the proof is bound to its verifier: `rs5_context_is_verifiers` (the context is `ssid ‖ ownIdx`, the party's OWN
  index, and the ring-Pedersen parameters are the party's own: a proof made for another new member is judged
  under this one's context and parameters);
* "the call returns": `rs5_no_panic`, `rs5_no_unattributed_error`, `rs5_returns`, `rs5_peer_returns` — on the
  current tree WITHOUT any side condition, neither on the peers' values nor on the party's own parameters: a
  decoded proof has non-negative fields (`SetBytes`), which is all `facVerify` needs not to crash, and a
  non-positive `NTilde` is answered by "rejected". No crash is reachable from peer values. -/
set_option autoImplicit false
namespace TssVerif.C05f
open TssVerif BlameEc C05Rs5L

variable {P : Type} (C : Curve P) (H : HashFn) (zcfg : Zk.Cfg) (noFac : Bool) (ownIdx : Nat) (ssid : Bytes)
  (ownNTilde ownH1 ownH2 : Nat)

/-! ## 1. who is named -/

/-- **the error names the first failing peer**: the result is `some (c, why)` iff the peer list splits as
`pre ++ p :: post` with every peer of `pre` accepted, `p` rejected for the reason `why`, and `c = p.idx` -/
theorem rs5_first_failing_named (peers : List RsR4Peer) (c : Nat) (why : String) :
    rsRound5Fac C H zcfg noFac ownIdx ssid ownNTilde ownH1 ownH2 peers = .ok (some (c, why)) ↔
      ∃ pre p post, peers = pre ++ p :: post ∧
        (∀ q ∈ pre, rsFacPeer C H zcfg noFac ownIdx ssid ownNTilde ownH1 ownH2 q = .ok none) ∧
        rsFacPeer C H zcfg noFac ownIdx ssid ownNTilde ownH1 ownH2 p = .ok (some why) ∧ p.idx = c :=
  rsRound5Fac_some_iff C H zcfg noFac ownIdx ssid ownNTilde ownH1 ownH2 peers c why

/-- the party emits its key data iff every peer's proof is accepted -/
theorem rs5_pass_iff (peers : List RsR4Peer) :
    rsRound5Fac C H zcfg noFac ownIdx ssid ownNTilde ownH1 ownH2 peers = .ok none ↔
      ∀ p ∈ peers, rsFacPeer C H zcfg noFac ownIdx ssid ownNTilde ownH1 ownH2 p = .ok none :=
  rsRound5Fac_none_iff C H zcfg noFac ownIdx ssid ownNTilde ownH1 ownH2 peers

/-- the named index is the index of a peer whose own message was rejected, for the reported reason -/
theorem rs5_culprit_is_sender (peers : List RsR4Peer) (c : Nat) (why : String)
    (h : rsRound5Fac C H zcfg noFac ownIdx ssid ownNTilde ownH1 ownH2 peers = .ok (some (c, why))) :
    ∃ p ∈ peers, p.idx = c ∧ rsFacPeer C H zcfg noFac ownIdx ssid ownNTilde ownH1 ownH2 p = .ok (some why) :=
  rsRound5Fac_culprit_mem C H zcfg noFac ownIdx ssid ownNTilde ownH1 ownH2 peers c why h

/-- the party never names itself (its own index is not among the peers it checks) -/
theorem rs5_never_names_self (peers : List RsR4Peer) (hown : ∀ p ∈ peers, p.idx ≠ ownIdx) (c : Nat) (why : String)
    (h : rsRound5Fac C H zcfg noFac ownIdx ssid ownNTilde ownH1 ownH2 peers = .ok (some (c, why))) :
    c ≠ ownIdx := by
  obtain ⟨p, hp, hidx, _⟩ := rs5_culprit_is_sender C H zcfg noFac ownIdx ssid ownNTilde ownH1 ownH2 peers c why h
  rw [← hidx]; exact hown p hp

/-- **no honest party is ever named**: an index all of whose records are accepted is not the one named -/
theorem rs5_honest_peer_not_named (peers : List RsR4Peer) (j : Nat)
    (hj : ∀ p ∈ peers, p.idx = j → rsFacPeer C H zcfg noFac ownIdx ssid ownNTilde ownH1 ownH2 p = .ok none)
    (c : Nat) (why : String)
    (h : rsRound5Fac C H zcfg noFac ownIdx ssid ownNTilde ownH1 ownH2 peers = .ok (some (c, why))) : c ≠ j := by
  obtain ⟨p, hp, hidx, hbad⟩ := rs5_culprit_is_sender C H zcfg noFac ownIdx ssid ownNTilde ownH1 ownH2 peers c why h
  intro hc
  rw [hj p hp (by rw [hidx, hc])] at hbad
  cases hbad

/-- **one deviator**: if every peer other than `dev` is accepted, any reported error names `dev`; if moreover
`dev`'s record is rejected for the reason `why` and the indices are distinct, the result is exactly
`some (dev, why)` -/
theorem rs5_single_deviator (peers : List RsR4Peer) (dev : Nat)
    (hothers : ∀ p ∈ peers, p.idx ≠ dev →
      rsFacPeer C H zcfg noFac ownIdx ssid ownNTilde ownH1 ownH2 p = .ok none) :
    (∀ c why, rsRound5Fac C H zcfg noFac ownIdx ssid ownNTilde ownH1 ownH2 peers = .ok (some (c, why)) → c = dev) ∧
    ((peers.map (·.idx)).Nodup → ∀ d ∈ peers, d.idx = dev → ∀ why,
      rsFacPeer C H zcfg noFac ownIdx ssid ownNTilde ownH1 ownH2 d = .ok (some why) →
      rsRound5Fac C H zcfg noFac ownIdx ssid ownNTilde ownH1 ownH2 peers = .ok (some (dev, why))) := by
  refine ⟨fun c why h =>
    rsRound5Fac_single_deviator C H zcfg noFac ownIdx ssid ownNTilde ownH1 ownH2 peers dev hothers c why h, ?_⟩
  intro hnd d hd hdev why hbad
  subst hdev
  exact rsRound5Fac_deviator_blamed C H zcfg noFac ownIdx ssid ownNTilde ownH1 ownH2 peers d hnd hd hothers why hbad

/-! ## 2. the judgement about one peer -/

/-- **exact acceptance condition**: the proof decodes and the verifier says yes under the party's own context and
parameters, or it does not decode and the party tolerates that -/
theorem rsFacPeer_none_iff (p : RsR4Peer) :
    rsFacPeer C H zcfg noFac ownIdx ssid ownNTilde ownH1 ownH2 p = .ok none ↔
      (∃ pf, facFromBytes p.facProof = some pf ∧
        Zk.facVerify zcfg H C.q (Blame.contextJ ssid ownIdx) p.paillierN ownNTilde ownH1 ownH2 pf = .ok true) ∨
      (facFromBytes p.facProof = none ∧ noFac = true) :=
  C05Rs5L.rsFacPeer_none_iff C H zcfg noFac ownIdx ssid ownNTilde ownH1 ownH2 p

/-- **exact rejection condition**, with the reason reported -/
theorem rsFacPeer_named_iff (p : RsR4Peer) (why : String) :
    rsFacPeer C H zcfg noFac ownIdx ssid ownNTilde ownH1 ownH2 p = .ok (some why) ↔
      (∃ pf, facFromBytes p.facProof = some pf ∧
        Zk.facVerify zcfg H C.q (Blame.contextJ ssid ownIdx) p.paillierN ownNTilde ownH1 ownH2 pf = .ok false ∧
        why = "facProof verify failed") ∨
      (facFromBytes p.facProof = none ∧ noFac = false ∧ why = "facProof does not decode") :=
  rsFacPeer_some_iff C H zcfg noFac ownIdx ssid ownNTilde ownH1 ownH2 p why

/-- **the proof is judged under the VERIFIER's context**: for a proof that decodes, the check is the call of
`facVerify` with the context `ssid ‖ ownIdx` (the party's own index, not the sender's), the sender's Paillier
modulus and the party's own ring-Pedersen parameters; `true ↦ none`, `false ↦ named`, anything else is passed on.
A proof made for another verifier index is therefore judged under this one's context. -/
theorem rs5_context_is_verifiers (p : RsR4Peer) (pf : Zk.FacProof) (hd : facFromBytes p.facProof = some pf) :
    rsFacPeer C H zcfg noFac ownIdx ssid ownNTilde ownH1 ownH2 p =
      (Zk.facVerify zcfg H C.q (Blame.contextJ ssid ownIdx) p.paillierN ownNTilde ownH1 ownH2 pf >>= fun ok =>
        .ok (if ok then none else some "facProof verify failed")) := by
  rw [rsFacPeer_decodable C H zcfg noFac ownIdx ssid ownNTilde ownH1 ownH2 p pf hd]
  congr 1
  funext ok
  cases ok <;> rfl

/-- … and the sender's own index plays no role in the judgement -/
theorem rs5_sender_index_irrelevant (p : RsR4Peer) (j : Nat) :
    rsFacPeer C H zcfg noFac ownIdx ssid ownNTilde ownH1 ownH2 { p with idx := j } =
      rsFacPeer C H zcfg noFac ownIdx ssid ownNTilde ownH1 ownH2 p := rfl

/-- a proof the verifier rejects gets its sender named: first in the list … -/
theorem rs5_rejected_proof_blamed (p : RsR4Peer) (rest : List RsR4Peer) (pf : Zk.FacProof)
    (hd : facFromBytes p.facProof = some pf)
    (hv : Zk.facVerify zcfg H C.q (Blame.contextJ ssid ownIdx) p.paillierN ownNTilde ownH1 ownH2 pf = .ok false) :
    rsFacPeer C H zcfg noFac ownIdx ssid ownNTilde ownH1 ownH2 p = .ok (some "facProof verify failed") ∧
    rsRound5Fac C H zcfg noFac ownIdx ssid ownNTilde ownH1 ownH2 (p :: rest) =
      .ok (some (p.idx, "facProof verify failed")) := by
  have h := rsFacPeer_decodable_ok C H zcfg noFac ownIdx ssid ownNTilde ownH1 ownH2 p pf hd false hv
  exact ⟨h, rsRound5Fac_cons_some C H zcfg noFac ownIdx ssid ownNTilde ownH1 ownH2 p rest _ h⟩

/-- **a missing (undecodable) proof is blamed** when the party does not tolerate it -/
theorem rs5_missing_proof_blamed (p : RsR4Peer) (rest : List RsR4Peer) (hd : facFromBytes p.facProof = none) :
    rsFacPeer C H zcfg false ownIdx ssid ownNTilde ownH1 ownH2 p = .ok (some "facProof does not decode") ∧
    rsRound5Fac C H zcfg false ownIdx ssid ownNTilde ownH1 ownH2 (p :: rest) =
      .ok (some (p.idx, "facProof does not decode")) := by
  have h := rsFacPeer_undecodable C H zcfg false ownIdx ssid ownNTilde ownH1 ownH2 p hd
  exact ⟨h, rsRound5Fac_cons_some C H zcfg false ownIdx ssid ownNTilde ownH1 ownH2 p rest _ h⟩

/-- … and accepted when the party was configured to tolerate it: the loop goes on to the next peer -/
theorem rs5_missing_proof_tolerated (p : RsR4Peer) (rest : List RsR4Peer) (hd : facFromBytes p.facProof = none) :
    rsFacPeer C H zcfg true ownIdx ssid ownNTilde ownH1 ownH2 p = .ok none ∧
    rsRound5Fac C H zcfg true ownIdx ssid ownNTilde ownH1 ownH2 (p :: rest) =
      rsRound5Fac C H zcfg true ownIdx ssid ownNTilde ownH1 ownH2 rest := by
  have h := rsFacPeer_undecodable C H zcfg true ownIdx ssid ownNTilde ownH1 ownH2 p hd
  exact ⟨h, rsRound5Fac_cons_none C H zcfg true ownIdx ssid ownNTilde ownH1 ownH2 p rest h⟩

/-! ## 3. the call returns (current tree) -/

/-- the judgement about one peer is always a verdict on the current tree — no hypothesis at all -/
theorem rs5_peer_returns (p : RsR4Peer) :
    ∃ v, rsFacPeer C H Zk.cur noFac ownIdx ssid ownNTilde ownH1 ownH2 p = .ok v :=
  rsFacPeer_total C H noFac ownIdx ssid ownNTilde ownH1 ownH2 p

/-- **no crash**, whatever the peers sent and whatever the party's own parameters are -/
theorem rs5_no_panic (peers : List RsR4Peer) (tag : String) :
    rsRound5Fac C H Zk.cur noFac ownIdx ssid ownNTilde ownH1 ownH2 peers ≠ .panic tag := by
  obtain ⟨r, hr⟩ := rsRound5Fac_total C H noFac ownIdx ssid ownNTilde ownH1 ownH2 peers
  rw [hr]; nofun

/-- **no error without a culprit** -/
theorem rs5_no_unattributed_error (peers : List RsR4Peer) (e : String) :
    rsRound5Fac C H Zk.cur noFac ownIdx ssid ownNTilde ownH1 ownH2 peers ≠ .err e := by
  obtain ⟨r, hr⟩ := rsRound5Fac_total C H noFac ownIdx ssid ownNTilde ownH1 ownH2 peers
  rw [hr]; nofun

/-- **the round returns**: the key data is emitted or one peer is named -/
theorem rs5_returns (peers : List RsR4Peer) :
    ∃ r, rsRound5Fac C H Zk.cur noFac ownIdx ssid ownNTilde ownH1 ownH2 peers = .ok r :=
  rsRound5Fac_total C H noFac ownIdx ssid ownNTilde ownH1 ownH2 peers

/-! ## 4. the hypotheses are satisfiable, the branches are reachable (toy numbers) -/
section nonvacuity

def Hone : HashFn := fun _ => [1]

/-- only the group order matters here: `q = 2` -/
def T2 : Curve Unit := ⟨"toy", 2, 2, (), fun _ _ => (), fun _ => (), (), fun _ => none, fun _ _ => none, fun _ _ => true⟩

/-- the accepted proof of `Props/C06.lean` (`facVerify_negative_exponent_panics_witness`, last clause:
`q = 2`, `N0 = 9`, `NCap = 5`, `s = 1`, `t = 0`) as eleven non-empty byte strings -/
def okProof : List Bytes := [[1], [1], [1], [1], [1], [0], [0], [0], [0], [0], [0]]
/-- the same with `A = 2`: decodes, rejected -/
def badProof : List Bytes := [[1], [1], [2], [1], [1], [0], [0], [0], [0], [0], [0]]

example : facFromBytes okProof = some ⟨1, 1, 1, 1, 1, 0, 0, 0, 0, 0, 0⟩ := by decide
example : facFromBytes badProof = some ⟨1, 1, 2, 1, 1, 0, 0, 0, 0, 0, 0⟩ := by decide
example : facFromBytes [] = none ∧ facFromBytes (okProof ++ [[1]]) = none ∧ facFromBytes (okProof.set 3 []) = none := by
  decide

/-- accepted -/
theorem rs5_accept_witness : rsFacPeer T2 Hone Zk.cur false 1 [7] 5 1 0 ⟨2, 9, okProof⟩ = .ok none := by
  rw [rsFacPeer_none_iff]
  exact Or.inl ⟨⟨1, 1, 1, 1, 1, 0, 0, 0, 0, 0, 0⟩, by decide, by decide⟩

/-- rejected by the verifier -/
theorem rs5_reject_witness :
    rsFacPeer T2 Hone Zk.cur false 1 [7] 5 1 0 ⟨3, 9, badProof⟩ = .ok (some "facProof verify failed") := by
  rw [rsFacPeer_named_iff]
  exact Or.inl ⟨⟨1, 1, 2, 1, 1, 0, 0, 0, 0, 0, 0⟩, by decide, by decide, rfl⟩

/-- a non-positive own `NTilde`: rejected, not a crash -/
example : rsFacPeer T2 Hone Zk.cur false 1 [7] 0 1 0 ⟨2, 9, okProof⟩ = .ok (some "facProof verify failed") := by
  rw [rsFacPeer_named_iff]
  exact Or.inl ⟨⟨1, 1, 1, 1, 1, 0, 0, 0, 0, 0, 0⟩, by decide, by decide, rfl⟩

/-- missing proof: named, or tolerated -/
example : rsFacPeer T2 Hone Zk.cur false 1 [7] 5 1 0 ⟨4, 9, []⟩ = .ok (some "facProof does not decode") ∧
    rsFacPeer T2 Hone Zk.cur true 1 [7] 5 1 0 ⟨4, 9, []⟩ = .ok none :=
  ⟨(rs5_missing_proof_blamed T2 Hone Zk.cur 1 [7] 5 1 0 ⟨4, 9, []⟩ [] (by decide)).1,
   (rs5_missing_proof_tolerated T2 Hone Zk.cur 1 [7] 5 1 0 ⟨4, 9, []⟩ [] (by decide)).1⟩

/-- the round: everybody accepted → key data; the FIRST failing peer (index 3, before index 4) is named -/
example : rsRound5Fac T2 Hone Zk.cur false 1 [7] 5 1 0 [⟨2, 9, okProof⟩, ⟨3, 9, okProof⟩] = .ok none := by
  rw [rs5_pass_iff]
  intro p hp
  simp only [List.mem_cons, List.not_mem_nil, or_false] at hp
  rcases hp with rfl | rfl <;> exact rs5_accept_witness

example : rsRound5Fac T2 Hone Zk.cur false 1 [7] 5 1 0 [⟨2, 9, okProof⟩, ⟨3, 9, badProof⟩, ⟨4, 9, []⟩] =
    .ok (some (3, "facProof verify failed")) := by
  rw [rs5_first_failing_named]
  refine ⟨[⟨2, 9, okProof⟩], ⟨3, 9, badProof⟩, [⟨4, 9, []⟩], rfl, ?_, rs5_reject_witness, rfl⟩
  intro q hq
  simp only [List.mem_cons, List.not_mem_nil, or_false] at hq
  rw [hq]; exact rs5_accept_witness

/-- the hypotheses of `rs5_single_deviator` (both parts) on that list, `dev = 3` -/
example : (∀ p ∈ [(⟨2, 9, okProof⟩ : RsR4Peer), ⟨3, 9, badProof⟩, ⟨4, 9, okProof⟩], p.idx ≠ 3 →
      rsFacPeer T2 Hone Zk.cur false 1 [7] 5 1 0 p = .ok none) ∧
    ([(⟨2, 9, okProof⟩ : RsR4Peer), ⟨3, 9, badProof⟩, ⟨4, 9, okProof⟩].map (·.idx)).Nodup ∧
    (∀ p ∈ [(⟨2, 9, okProof⟩ : RsR4Peer), ⟨3, 9, badProof⟩, ⟨4, 9, okProof⟩], p.idx ≠ 1) := by
  refine ⟨?_, by decide, by decide⟩
  intro p hp hne
  simp only [List.mem_cons, List.not_mem_nil, or_false] at hp
  rcases hp with rfl | rfl | rfl
  · exact rs5_accept_witness
  · exact absurd rfl hne
  · exact rs5_accept_witness

end nonvacuity
end TssVerif.C05f
