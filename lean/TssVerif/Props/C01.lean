import TssVerif.Lemmas.AlgLagrange
import TssVerif.Lemmas.AlgEcdsa
import TssVerif.Lemmas.AlgSign
import TssVerif.Lemmas.AlgToy
import Mathlib.Tactic.NormNum.Prime
/-! # C01 — threshold ECDSA signing yields one valid, canonical signature

"Threshold ECDSA signing yields one valid, canonical signature under the group key: S in the lower half,
R and S fixed-width, Signature = R||S, the echoed message equals the digest (left-padded when a full
length is requested). A digest not below the curve order is refused."

Layers (all on every `Curve.Lawful` record, any number of signers, integers of any size):
1. `lagrange_weights_sum`, `weight_isSome`, `weight_none_of_collision`: the additive re-sharing
   `w_i` of `PrepareForSigning` (`Sign.weight`) sums to the secret and is defined exactly on ids that are
   distinct modulo `q`.
2. `sigma_sum`, `sign_algebra`: the MtA share relations give `Σθ = kγ`, `Σσ = kx`, `Σs = k(m + r x)`.
3. `ecdsaFromTranscript_point`, `transcript_is_finalize`: what every signer computes from the broadcast
   transcript is `finalize` at `R = k⁻¹·G`.
4. `ecdsa_verify_of_algebra`: `(r, s)` with `s = k(m + r x)`, `r = x(k⁻¹G)` verifies under `x·G`.
5. `finalize_sound` (EVERY input), `finalize_echo`, `finalize_fullLen_too_small_panics`,
   `finalize_complete` (low-S flip keeps validity), `finalize_outcomes`.
6. `threshold_sign_valid`: 2–5 chained: the honest transcript yields `.ok d` with all the properties.

`digest_refused` (round 1 refuses `m ≥ q`) is an engine fact; there is no `Sign.round1Guard` in Core, so
it is not stated here (nothing was added to Core). -/
set_option autoImplicit false
set_option linter.style.haveILetI false
namespace TssVerif.C01
open TssVerif Sign AlgL Polynomial

/-! ## 1. Lagrange weights (`PrepareForSigning`) -/

/-- **The signing weights sum to the secret.** `q` prime, `f` the sharing polynomial of degree below the
number of signers, signer ids pairwise distinct modulo `q`, signer `i` holds `xs[i] ≡ f(ks[i])`.
If every `Sign.weight` call returned a value (`ws[i]`), then `Σ ws[i] ≡ f(0) (mod q)`. -/
theorem lagrange_weights_sum {q : ℕ} [Fact q.Prime] (ks xs ws : List ℕ) (f : (ZMod q)[X])
    (hdeg : f.degree < ks.length)
    (hnd : (ks.map (· % q)).Nodup)
    (hx : ∀ i < ks.length, (xs.getD i 0 : ZMod q) = f.eval (ks.getD i 0 : ZMod q))
    (hw : ∀ i < ks.length, weight q ks i (xs.getD i 0) = some (ws.getD i 0)) :
    ∑ i ∈ Finset.range ks.length, (ws.getD i 0 : ZMod q) = f.eval 0 :=
  weights_sum ks xs ws f hdeg (injOn_of_nodup ks hnd) hx hw

/-- the same with the sum of the list `ws`, as a congruence of naturals -/
theorem lagrange_weights_sum_list {q : ℕ} [Fact q.Prime] (ks xs ws : List ℕ) (f : (ZMod q)[X])
    (hlen : ws.length = ks.length)
    (hdeg : f.degree < ks.length)
    (hnd : (ks.map (· % q)).Nodup)
    (hx : ∀ i < ks.length, (xs.getD i 0 : ZMod q) = f.eval (ks.getD i 0 : ZMod q))
    (hw : ∀ i < ks.length, weight q ks i (xs.getD i 0) = some (ws.getD i 0)) :
    ((ws.sum : ℕ) : ZMod q) = f.eval 0 ∧ ws.sum % q = (f.eval 0).val := by
  have h := lagrange_weights_sum ks xs ws f hdeg hnd hx hw
  rw [sum_range_getD_eq_list_sum ws _ hlen] at h
  exact ⟨h, by rw [← h, ZMod.val_natCast]⟩

/-- **The weight computation never meets a nil inverse** on ids pairwise distinct modulo `q`. -/
theorem weight_isSome {q : ℕ} [Fact q.Prime] (ks : List ℕ) (hnd : (ks.map (· % q)).Nodup)
    (i : ℕ) (hi : i < ks.length) (xi : ℕ) : ∃ w, weight q ks i xi = some w := by
  apply weight_isSome_cast
  intro j hj hji h
  exact hji (injOn_of_nodup ks hnd (by simpa using hj) (by simpa using hi) h)

/-- … and it does (Go: nil dereference in `modQ.Mul`) as soon as another signer's id is congruent to
`ks[i]` modulo `q` — also when the two ids differ as integers, which the `Cmp` guard of
`PrepareForSigning` does not see. -/
theorem weight_none_of_collision {q : ℕ} [Fact q.Prime] (ks : List ℕ) (i j xi : ℕ)
    (hj : j < ks.length) (hji : j ≠ i) (h : ks.getD j 0 % q = ks.getD i 0 % q) :
    weight q ks i xi = none :=
  AlgL.weight_none_of_collision ks i j xi hj hji ((ZMod.natCast_eq_natCast_iff' _ _ _).2 h)

/-! ## 2. the share algebra -/

/-- `Σ_i (k_i·w_i + Σ_{j≠i}(α_ij + β_ji)) = (Σk_i)(Σw_j)` given the MtA relation
`α_ij + β_ij = k_i·w_j` for `i ≠ j` -/
theorem sigma_sum {q : ℕ} {ι : Type} [DecidableEq ι] (s : Finset ι)
    (k w : ι → ZMod q) (α β : ι → ι → ZMod q)
    (h : ∀ i ∈ s, ∀ j ∈ s, i ≠ j → α i j + β i j = k i * w j) :
    ∑ i ∈ s, (k i * w i + ∑ j ∈ s.erase i, (α i j + β j i)) = (∑ i ∈ s, k i) * (∑ j ∈ s, w j) :=
  AlgL.sigma_sum s k w α β h

/-- **from the protocol's share relations to the ECDSA equation**: with `θ_i`, `σ_i`, `s_i` computed as
in rounds 3 and 5 and `Σw_i = x`, one has `Σθ_i = kγ`, `Σσ_i = kx`, `Σs_i = k(m + r x)`
(`k = Σk_i`, `γ = Σγ_i`). -/
theorem sign_algebra {q : ℕ} {ι : Type} [DecidableEq ι] (s : Finset ι)
    (k γ w θ σ sh : ι → ZMod q) (α β μ ν : ι → ι → ZMod q) (m r x : ZMod q)
    (hαβ : ∀ i ∈ s, ∀ j ∈ s, i ≠ j → α i j + β i j = k i * γ j)
    (hμν : ∀ i ∈ s, ∀ j ∈ s, i ≠ j → μ i j + ν i j = k i * w j)
    (hθ : ∀ i ∈ s, θ i = k i * γ i + ∑ j ∈ s.erase i, (α i j + β j i))
    (hσ : ∀ i ∈ s, σ i = k i * w i + ∑ j ∈ s.erase i, (μ i j + ν j i))
    (hs : ∀ i ∈ s, sh i = m * k i + r * σ i)
    (hw : ∑ i ∈ s, w i = x) :
    ∑ i ∈ s, θ i = (∑ i ∈ s, k i) * (∑ i ∈ s, γ i) ∧
    ∑ i ∈ s, σ i = (∑ i ∈ s, k i) * x ∧
    ∑ i ∈ s, sh i = (∑ i ∈ s, k i) * (m + r * x) :=
  AlgL.sign_algebra s k γ w θ σ sh α β μ ν m r x hαβ hμν hθ hσ hs hw

/-! ## 3. the transcript function -/

variable {P : Type} {C : Curve P}

/-- `(Σθ)⁻¹·(ΣΓ_j) = k⁻¹·G` when `Σθ ≡ kγ` and `ΣΓ_j = γ·G` (`kinv` any inverse of `k` mod `q`;
`ti` the value `ModInverse` returned for `Σθ`) -/
theorem ecdsaFromTranscript_point (hC : C.Lawful) (θ k γ kinv ti : ℕ)
    (hθ : θ ≡ k * γ [MOD C.q]) (hk : k * kinv ≡ 1 [MOD C.q])
    (hti : modInverse (((θ % C.q : ℕ)) : Int) C.q = some ti) :
    C.smul ti (C.smul γ C.base) = C.smul kinv C.base :=
  AlgL.ecdsaFromTranscript_point hC θ k γ kinv ti hθ hk hti

/-- **what every signer computes from the transcript is `finalize` at `R = k⁻¹·G`**, `s = Σs_j mod q`.
`hG`/`hγ`: adding the broadcast `Γ_j` succeeded and gave `γ·G` (see `gamma_sum` for when it does). -/
theorem transcript_is_finalize (hC : C.Lawful) (pub : ECPoint) (thetas ss : List ℕ)
    (g0 : ECPoint) (gs : List ECPoint) (m fullLen : ℕ) (sumG R : ECPoint) (k γ kinv : ℕ)
    (hG : gs.foldlM (fun acc g => C.ecAdd acc g) g0 = .ok sumG)
    (hγ : C.toAffine (C.smul γ C.base) = some sumG)
    (hθ : thetas.sum ≡ k * γ [MOD C.q]) (hk : k * kinv ≡ 1 [MOD C.q]) (hγ0 : γ % C.q ≠ 0)
    (hR : C.toAffine (C.smul kinv C.base) = some R) :
    ecdsaFromTranscript C pub thetas (g0 :: gs) ss m fullLen =
      ecdsaFinalize C pub R.1 R.2 (ss.sum % C.q) m fullLen :=
  ecdsaFromTranscript_eq hC pub thetas ss g0 gs m fullLen sumG R k γ kinv hG hγ hθ hk hγ0 hR

/-- adding the points `Γ_j = γ_j·G` (`gs`, after the first one `g0 = γ_0·G`) gives `(Σγ_j)·G`, provided
no partial sum is a point without affine coordinates -/
theorem gamma_sum (hC : C.Lawful) (γ0 : ℕ) (γs : List ℕ) (g0 : ECPoint) (gs : List ECPoint)
    (h0 : C.toAffine (C.smul γ0 C.base) = some g0)
    (hgs : List.Forall₂ (fun γ g => C.toAffine (C.smul γ C.base) = some g) γs gs)
    (hpart : ∀ n, 1 ≤ n → n ≤ γs.length → C.toAffine (C.smul (γ0 + (γs.take n).sum) C.base) ≠ none) :
    ∃ r, gs.foldlM (fun acc g => C.ecAdd acc g) g0 = .ok r ∧
      C.toAffine (C.smul (γ0 + γs.sum) C.base) = some r :=
  ecAdd_fold_base hC γs gs γ0 g0 hgs h0 hpart

/-! ## 4. ECDSA correctness -/

/-- **`(r, s)` with `R = k⁻¹·G`, `r = x(R) mod q ≠ 0`, `s ≡ k(m + r·x)`, `0 < s < q` verifies under the
public key `x·G`** (the model verifier, every lawful curve). Only multiples of `G` occur, so the order
of other points plays no role; `x ≢ 0` is not needed beyond `x·G` having affine coordinates (`hpub`). -/
theorem ecdsa_verify_of_algebra (hC : C.Lawful) (x k kinv m r s Rx Ry : ℕ) (pub : ECPoint)
    (hpub : C.toAffine (C.smul x C.base) = some pub)
    (hk : k * kinv ≡ 1 [MOD C.q])
    (hR : C.toAffine (C.smul kinv C.base) = some (Rx, Ry))
    (hr : r = Rx % C.q) (hr0 : r ≠ 0)
    (hs : s ≡ k * (m + r * x) [MOD C.q]) (hs0 : 0 < s) (hsq : s < C.q) :
    ecdsaVerify C pub m r s = true :=
  AlgL.ecdsa_verify_of_algebra hC x k kinv m r s Rx Ry pub hpub hk hR hr hr0 hs hs0 hsq

/-- the same with `k⁻¹` as `ModInverse` returns it -/
theorem ecdsa_verify_of_algebra_modInverse (hC : C.Lawful) (x k kinv m r s Rx Ry : ℕ) (pub : ECPoint)
    (hpub : C.toAffine (C.smul x C.base) = some pub)
    (hk : modInverse (k : Int) C.q = some kinv)
    (hR : C.toAffine (C.smul kinv C.base) = some (Rx, Ry))
    (hr : r = Rx % C.q) (hr0 : r ≠ 0)
    (hs : s ≡ k * (m + r * x) [MOD C.q]) (hs0 : 0 < s) (hsq : s < C.q) :
    ecdsaVerify C pub m r s = true := by
  refine ecdsa_verify_of_algebra hC x k kinv m r s Rx Ry pub hpub ?_ hR hr hr0 hs hs0 hsq
  have h1 := (modInverse_specV hk).1
  have hq1 : (1 : Int) % (C.q : Int) = 1 := Int.emod_eq_of_lt (by decide) (by exact_mod_cast hC.one_lt_q)
  unfold Nat.ModEq
  rw [Nat.mod_eq_of_lt (a := 1) hC.one_lt_q]
  have : ((k * kinv % C.q : ℕ) : Int) = 1 := by
    rw [hq1] at h1
    exact_mod_cast h1
  exact_mod_cast this

/-! ## 5. `finalize` -/

/-- **Soundness of `finalize`, for EVERY input** (honest or not) and every curve record with
`q < 2^256`: whatever it outputs is a signature that the verifier accepts on the echoed message, with
`S` in the lower half, `R`, `S` of 32 bytes each, `Signature = R ‖ S`, recovery id below 4. -/
theorem finalize_sound (C : Curve P) (hq : C.q < 2 ^ 256) (pub : ECPoint) (rx ry sumS m fullLen : ℕ)
    (d : SigData) (h : ecdsaFinalize C pub rx ry sumS m fullLen = .ok d) :
    ecdsaVerify C pub (hashToInt C.q d.m) rx (bytesToNat d.s) = true ∧
    d.signature = d.r ++ d.s ∧ d.r.length = 32 ∧ d.s.length = 32 ∧
    bytesToNat d.r = rx ∧ 0 < rx ∧ rx < C.q ∧
    0 < bytesToNat d.s ∧ bytesToNat d.s ≤ C.q / 2 ∧
    (bytesToNat d.s = sumS ∨ bytesToNat d.s = C.q - sumS) ∧ d.recid < 4 := by
  rw [ecdsaFinalize_eq] at h
  cases he : echo m fullLen with
  | err e => rw [he] at h; cases h
  | panic e => rw [he] at h; cases h
  | ok mb =>
    rw [he] at h
    simp only at h
    split at h
    · next hv =>
      injection h with h
      subst h
      simp only
      have hlow := lowS_lt_two_pow (q := C.q) (s := sumS) hq
      have hvi := (ecdsaVerify_iff C pub _ rx _).1 hv
      obtain ⟨hr0, hs0, hrq, _, _⟩ := hvi
      have hrx : rx < 2 ^ 256 := by omega
      rw [(padLeft32_natToBytesBE hlow).2, (padLeft32_natToBytesBE hrx).2]
      refine ⟨hv, trivial, (padLeft32_natToBytesBE hrx).1, (padLeft32_natToBytesBE hlow).1, rfl,
        by omega, hrq, by omega, lowS_le_half _ _, ?_, recidOf_lt _ _ _ _⟩
      unfold lowS; split <;> simp
    · cases h

/-- **The echoed message equals the digest**: its minimal big-endian bytes when no length is requested,
left-padded to exactly `fullLen` otherwise; in both cases its value is `m`. -/
theorem finalize_echo (C : Curve P) (pub : ECPoint) (rx ry sumS m fullLen : ℕ)
    (d : SigData) (h : ecdsaFinalize C pub rx ry sumS m fullLen = .ok d) :
    (fullLen = 0 → d.m = natToBytesBE m) ∧
    (fullLen ≠ 0 → d.m = padLeft fullLen (natToBytesBE m) ∧ d.m.length = fullLen ∧
      (natToBytesBE m).length ≤ fullLen) ∧
    bytesToNat d.m = m := by
  rw [ecdsaFinalize_eq] at h
  cases he : echo m fullLen with
  | err e => rw [he] at h; cases h
  | panic e => rw [he] at h; cases h
  | ok mb =>
    rw [he] at h
    simp only at h
    split at h
    · injection h with h
      subst h
      simp only
      unfold echo at he
      by_cases h0 : fullLen = 0
      · rw [if_pos h0] at he
        injection he with he
        subst he
        exact ⟨fun _ => rfl, fun hne => absurd h0 hne, C16L.bytesToNat_natToBytesBE m⟩
      · rw [if_neg h0] at he
        by_cases h1 : (natToBytesBE m).length > fullLen
        · rw [if_pos h1] at he; cases he
        · rw [if_neg h1] at he
          injection he with he
          subst he
          have hle : (natToBytesBE m).length ≤ fullLen := by omega
          exact ⟨fun h => absurd h h0, fun _ => ⟨rfl, padLeft_length_of_le hle, hle⟩,
            by rw [bytesToNat_padLeft, C16L.bytesToNat_natToBytesBE]⟩
    · cases h

/-- recorded behaviour (Go `FillBytes` panic): a requested length that is non-zero and smaller than the
byte length of the digest crashes `finalize` -/
theorem finalize_fullLen_too_small_panics (C : Curve P) (pub : ECPoint) (rx ry sumS m fullLen : ℕ)
    (h0 : fullLen ≠ 0) (hlt : fullLen < (natToBytesBE m).length) :
    ecdsaFinalize C pub rx ry sumS m fullLen = .panic "fill-bytes" := by
  rw [ecdsaFinalize_eq]
  unfold echo
  rw [if_neg h0, if_pos hlt]

/-- the three outcomes of `finalize`: the `FillBytes` crash (exactly when `0 < fullLen < len(m)`),
the error "signature verification failed", or a signature -/
theorem finalize_outcomes (C : Curve P) (pub : ECPoint) (rx ry sumS m fullLen : ℕ) :
    (ecdsaFinalize C pub rx ry sumS m fullLen = .panic "fill-bytes" ∧
        fullLen ≠ 0 ∧ fullLen < (natToBytesBE m).length) ∨
    (ecdsaFinalize C pub rx ry sumS m fullLen = .err "signature verification failed" ∧
        (fullLen = 0 ∨ (natToBytesBE m).length ≤ fullLen)) ∨
    (∃ d, ecdsaFinalize C pub rx ry sumS m fullLen = .ok d ∧
        (fullLen = 0 ∨ (natToBytesBE m).length ≤ fullLen)) := by
  by_cases h0 : fullLen = 0
  · rw [ecdsaFinalize_eq]
    unfold echo
    rw [if_pos h0]
    simp only
    split
    · exact Or.inr (Or.inr ⟨_, rfl, Or.inl h0⟩)
    · exact Or.inr (Or.inl ⟨rfl, Or.inl h0⟩)
  · by_cases h1 : fullLen < (natToBytesBE m).length
    · exact Or.inl ⟨finalize_fullLen_too_small_panics C pub rx ry sumS m fullLen h0 h1, h0, h1⟩
    · rw [ecdsaFinalize_eq]
      unfold echo
      rw [if_neg h0, if_neg (by omega)]
      simp only
      split
      · exact Or.inr (Or.inr ⟨_, rfl, Or.inr (by omega)⟩)
      · exact Or.inr (Or.inl ⟨rfl, Or.inr (by omega)⟩)

/-- **Completeness of `finalize`** on a lawful curve all of whose points are killed by `q` and where
negation keeps the x-coordinate (`NegX`): if `(rx, sumS)` verifies on the echoed bytes, `finalize`
returns a signature — the low-S flip `s ↦ q − s` keeps validity. (The echoed bytes are
`padLeft fullLen (natToBytesBE m)`, which is `natToBytesBE m` for `fullLen = 0`.) -/
theorem finalize_complete (hC : C.Lawful) (hord : ∀ p, C.smul C.q p = C.zero) (hneg : NegX C)
    (pub : ECPoint) (rx ry sumS m fullLen : ℕ)
    (hfl : fullLen = 0 ∨ (natToBytesBE m).length ≤ fullLen)
    (hv : ecdsaVerify C pub (hashToInt C.q (padLeft fullLen (natToBytesBE m))) rx sumS = true) :
    ∃ d, ecdsaFinalize C pub rx ry sumS m fullLen = .ok d := by
  have he : echo m fullLen = .ok (padLeft fullLen (natToBytesBE m)) := by
    unfold echo
    rcases hfl with h0 | hle
    · rw [if_pos h0, h0, padLeft_zero]
    · by_cases h0 : fullLen = 0
      · rw [if_pos h0, h0, padLeft_zero]
      · rw [if_neg h0, if_neg (by omega)]
  rw [ecdsaFinalize_eq, he]
  simp only
  have hv' : ecdsaVerify C pub (hashToInt C.q (padLeft fullLen (natToBytesBE m))) rx (lowS C.q sumS) = true := by
    unfold lowS
    split
    · exact ecdsaVerify_flip hC hord hneg pub _ rx sumS hv
    · exact hv
  rw [if_pos hv']
  exact ⟨_, rfl⟩

/-- the part of completeness that needs nothing of the curve: `sumS` already in the lower half -/
theorem finalize_complete_lowS (C : Curve P) (pub : ECPoint) (rx ry sumS m fullLen : ℕ)
    (hfl : fullLen = 0 ∨ (natToBytesBE m).length ≤ fullLen) (hlow : sumS ≤ C.q / 2)
    (hv : ecdsaVerify C pub (hashToInt C.q (padLeft fullLen (natToBytesBE m))) rx sumS = true) :
    ∃ d, ecdsaFinalize C pub rx ry sumS m fullLen = .ok d := by
  have he : echo m fullLen = .ok (padLeft fullLen (natToBytesBE m)) := by
    unfold echo
    rcases hfl with h0 | hle
    · rw [if_pos h0, h0, padLeft_zero]
    · by_cases h0 : fullLen = 0
      · rw [if_pos h0, h0, padLeft_zero]
      · rw [if_neg h0, if_neg (by omega)]
  rw [ecdsaFinalize_eq, he]
  simp only
  have : lowS C.q sumS = sumS := by unfold lowS; rw [if_neg (by omega)]
  rw [this, if_pos hv]
  exact ⟨_, rfl⟩

/-- the flip itself: `(r, s)` valid ⟹ `(r, q − s)` valid -/
theorem low_s_flip_valid (hC : C.Lawful) (hord : ∀ p, C.smul C.q p = C.zero) (hneg : NegX C)
    (pub : ECPoint) (m r s : ℕ) (h : ecdsaVerify C pub m r s = true) :
    ecdsaVerify C pub m r (C.q - s) = true :=
  ecdsaVerify_flip hC hord hneg pub m r s h

/-! ## 6. end to end -/

/-- **Threshold signing yields one valid canonical signature.** Key `x`, public key `x·G`;
`k = Σk_i`, `γ = Σγ_i` with `k` invertible, `γ ≢ 0`; broadcast `θ_j` with `Σθ_j ≡ kγ`; the `Γ_j` add up to
`γ·G`; `R = k⁻¹·G = (Rx, Ry)` with `0 < Rx < q` (ADDED hypothesis, needed: the code uses `Rx` unreduced
as `r` and the verifier rejects `r ≥ q` and `r = 0`); broadcast `s_j` with `Σs_j ≡ k(m + Rx·x)`,
`Σs_j ≢ 0`; the requested length fits, and the echoed bytes are not longer than the order
(`8·len ≤ bitLen q`, otherwise Go's `hashToInt` truncates them). Then every signer's computation
returns `.ok d`, and `d` has all the properties of `finalize_sound` and echoes `m`. -/
theorem threshold_sign_valid (hC : C.Lawful) (hord : ∀ p, C.smul C.q p = C.zero) (hneg : NegX C)
    (hq : C.q < 2 ^ 256)
    (x k γ kinv m Rx Ry : ℕ) (pub sumG g0 : ECPoint) (gs : List ECPoint) (thetas ss : List ℕ)
    (fullLen : ℕ)
    (hpub : C.toAffine (C.smul x C.base) = some pub)
    (hk : k * kinv ≡ 1 [MOD C.q]) (hγ0 : γ % C.q ≠ 0)
    (hθ : thetas.sum ≡ k * γ [MOD C.q])
    (hG : gs.foldlM (fun acc g => C.ecAdd acc g) g0 = .ok sumG)
    (hγ : C.toAffine (C.smul γ C.base) = some sumG)
    (hR : C.toAffine (C.smul kinv C.base) = some (Rx, Ry)) (hRx0 : Rx ≠ 0) (hRxq : Rx < C.q)
    (hss : ss.sum ≡ k * (m + Rx * x) [MOD C.q]) (hs0 : ss.sum % C.q ≠ 0)
    (hfl : fullLen = 0 ∨ (natToBytesBE m).length ≤ fullLen)
    (hbits : (padLeft fullLen (natToBytesBE m)).length * 8 ≤ bitLen C.q) :
    ∃ d, ecdsaFromTranscript C pub thetas (g0 :: gs) ss m fullLen = .ok d ∧
      ecdsaVerify C pub m Rx (bytesToNat d.s) = true ∧
      d.signature = d.r ++ d.s ∧ d.r.length = 32 ∧ d.s.length = 32 ∧
      bytesToNat d.r = Rx ∧ 0 < bytesToNat d.s ∧ bytesToNat d.s ≤ C.q / 2 ∧
      (bytesToNat d.s = ss.sum % C.q ∨ bytesToNat d.s = C.q - ss.sum % C.q) ∧
      d.recid < 4 ∧ bytesToNat d.m = m ∧
      (fullLen = 0 → d.m = natToBytesBE m) ∧ (fullLen ≠ 0 → d.m.length = fullLen) := by
  have hdig : hashToInt C.q (padLeft fullLen (natToBytesBE m)) = m := by
    rw [hashToInt_of_short _ _ hbits, bytesToNat_padLeft, C16L.bytesToNat_natToBytesBE]
  rw [transcript_is_finalize hC pub thetas ss g0 gs m fullLen sumG (Rx, Ry) k γ kinv hG hγ hθ hk hγ0 hR]
  have hv : ecdsaVerify C pub m Rx (ss.sum % C.q) = true :=
    ecdsa_verify_of_algebra hC x k kinv m Rx (ss.sum % C.q) Rx Ry pub hpub hk hR
      (Nat.mod_eq_of_lt hRxq).symm hRx0 ((Nat.mod_modEq _ _).trans hss) (by omega)
      (Nat.mod_lt _ hC.q_pos)
  obtain ⟨d, hd⟩ := finalize_complete hC hord hneg pub Rx Ry (ss.sum % C.q) m fullLen hfl
    (by rw [hdig]; exact hv)
  obtain ⟨h1, h2, h3, h4, h5, _, _, h8, h9, h10, h11⟩ := finalize_sound C hq pub Rx Ry _ m fullLen d hd
  obtain ⟨e1, e2, e3⟩ := finalize_echo C pub Rx Ry _ m fullLen d hd
  have hdm : d.m = padLeft fullLen (natToBytesBE m) := by
    by_cases h0 : fullLen = 0
    · rw [e1 h0, h0, padLeft_zero]
    · exact (e2 h0).1
  rw [hdm, hdig] at h1
  exact ⟨d, hd, h1, h2, h3, h4, h5, h8, h9, h10, h11, e3, e1, fun h0 => (e2 h0).2.1⟩

/-! ## Non-vacuity: a 2-of-3 signature over the proved-lawful toy curves of order 251

`f = 5 + 7X` (key `x = 5`), ids `1, 2, 3`; signers `1` and `3` hold `12`, `26`; weights `18`, `238`.
`k = 17 + 40`, `γ = 9 + 33`, `k⁻¹ = 229`. On `zmodCurveX` (negation-symmetric affine view) `R = (22, 1)`,
`s_1 + s_2 = 109 + 64 = 173 > 125`: the low-S flip is exercised. `251` has 8 bits, so one digest byte is
not truncated by `hashToInt`. -/
section examples

instance fact251 : Fact (Nat.Prime 251) := ⟨by norm_num⟩

abbrev X := zmodCurveX 251
abbrev E := zmodCurve 251

example : X.Lawful ∧ (∀ p, X.smul X.q p = X.zero) ∧ NegX X :=
  ⟨zmodCurveX_lawful 251, zmodCurveX_order 251, zmodCurveX_negX 251⟩

/-- weights of signers `1`, `3` (run of the model), they exist by the theorem, and sum to `f(0) = 5` -/
example : weight 251 [1, 3] 0 12 = some 18 ∧ weight 251 [1, 3] 1 26 = some 238 := by decide
example : ∃ w, weight 251 [1, 3] 1 26 = some w := weight_isSome [1, 3] (by decide) 1 (by decide) 26
example : ((([18, 238] : List ℕ).sum : ℕ) : ZMod 251) = (Vss.polyZ 251 [5, 7]).eval 0 :=
  (lagrange_weights_sum_list [1, 3] [12, 26] [18, 238] (Vss.polyZ 251 [5, 7]) rfl
    (lt_of_lt_of_le (Vss.polyZ_degree_lt _) (by simp)) (by decide)
    (by
      intro i hi
      have hi' : i < 2 := hi
      have := Vss.polyZ_eval_natCast (q := 251) [5, 7] ([1, 3].getD i 0)
      rw [this]
      interval_cases i <;> rfl)
    (by decide)).1
/-- ids `1` and `252` are different integers, congruent modulo `251`: nil inverse -/
example : weight 251 [1, 252] 0 12 = none :=
  weight_none_of_collision [1, 252] 0 1 12 (by decide) (by decide) (by decide)

/-- the share algebra on the concrete MtA values (`α_12 = 100, β_12 = 210, α_21 = 77, β_21 = 32`, …) -/
example :
    let k : Fin 2 → ZMod 251 := ![17, 40]
    let γ : Fin 2 → ZMod 251 := ![9, 33]
    (∑ i, (![34, 101] : Fin 2 → ZMod 251) i) = (∑ i, k i) * (∑ i, γ i) ∧
    (∑ i, (![76, 209] : Fin 2 → ZMod 251) i) = (∑ i, k i) * 5 ∧
    (∑ i, (![109, 64] : Fin 2 → ZMod 251) i) = (∑ i, k i) * (100 + 22 * 5) :=
  sign_algebra Finset.univ ![17, 40] ![9, 33] ![18, 238] ![34, 101] ![76, 209] ![109, 64]
    ![![0, 100], ![77, 0]] ![![0, 210], ![32, 0]] ![![0, 3], ![200, 0]] ![![0, 27], ![18, 0]] 100 22 5
    (by decide) (by decide) (by decide) (by decide) (by decide) (by decide)

/-- the whole chain through `threshold_sign_valid`, hypotheses discharged by evaluation -/
example : ∃ d, ecdsaFromTranscript X (5, 0) [34, 101] [(9, 0), (33, 0)] [109, 64] 100 0 = .ok d ∧
    ecdsaVerify X (5, 0) 100 22 (bytesToNat d.s) = true ∧ bytesToNat d.s ≤ 125 ∧ bytesToNat d.m = 100 := by
  obtain ⟨d, h1, h2, _, _, _, _, _, h8, _, _, h11, _⟩ :=
    threshold_sign_valid (C := X) (zmodCurveX_lawful 251) (zmodCurveX_order 251) (zmodCurveX_negX 251)
      (by decide) 5 57 42 229 100 22 1 (5, 0) (42, 0) (9, 0) [(33, 0)] [34, 101] [109, 64] 0
      (by decide) (by decide) (by decide) (by decide) (by decide) (by decide) (by decide) (by decide)
      (by decide) (by decide) (by decide) (Or.inl rfl) (by decide +kernel)
  exact ⟨d, h1, h2, h8, h11⟩

/-- and the model run agrees: `S = 251 − 173 = 78`, `R = 22`, recovery id `1 xor 1 = 0` -/
example : ecdsaFromTranscript X (5, 0) [34, 101] [(9, 0), (33, 0)] [109, 64] 100 0 =
    .ok ⟨padLeft 32 [22], padLeft 32 [78], padLeft 32 [22] ++ padLeft 32 [78], 0, [100]⟩ := by
  decide +kernel

/-- `finalize_sound` applies to it -/
example : ecdsaVerify X (5, 0) (hashToInt 251 [100]) 22 78 = true := by decide

/-- a requested length equal to the order size (1 byte here) echoes the digest in that width … -/
example : ∃ d, ecdsaFinalize X (5, 0) 22 1 173 100 1 = .ok d ∧ d.m = [100] :=
  ⟨⟨padLeft 32 [22], padLeft 32 [78], padLeft 32 [22] ++ padLeft 32 [78], 0, [100]⟩,
    by decide +kernel, rfl⟩
/-- … recorded behaviour: a requested length beyond the order size makes the verifier (Go `hashToInt`
keeps the LEFTMOST order-size bytes, here the padding) see another digest, and the honest signature
is refused — this is why `threshold_sign_valid` assumes `8·len ≤ bitLen q` -/
example : ecdsaFinalize X (5, 0) 22 1 173 100 4 = .err "signature verification failed" := by
  decide +kernel
example : hashToInt 251 (padLeft 4 (natToBytesBE 100)) = 0 := by decide +kernel
/-- … and a too small one crashes (`FillBytes`) -/
example : ecdsaFinalize X (5, 0) 22 1 173 1000 1 = .panic "fill-bytes" :=
  finalize_fullLen_too_small_panics X _ _ _ _ 1000 1 (by decide) (by decide +kernel)

/-- on `zmodCurve` (no `NegX`): same key and nonce, `R = (229, 0)`, `Σs = 28 + 155 = 183` -/
example : ecdsaVerify E (5, 0) 100 229 183 = true :=
  ecdsa_verify_of_algebra (C := E) (zmodCurve_lawful 251) 5 57 229 100 229 183 229 0 (5, 0)
    (by decide) (by decide) (by decide) (by decide) (by decide) (by decide) (by decide) (by decide)

end examples

end TssVerif.C01
