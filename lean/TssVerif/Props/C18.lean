import TssVerif.Lemmas.MiscCkd
/-! # C18 — HD child key derivation (BIP32 CKDpub) and signing with the derived offset

Model: `TssVerif/Core/Ckd.lean` (`crypto/ckd/child_key_derivation.go`), `Sign.weight` (`PrepareForSigning`),
the share shift of `ecdsa/signing/round_1.go` (`xi = (delta + xi) mod q`).

* `derive_child_point`, `derive_child_complete` — exact characterisation of one step, for EVERY curve record:
  `IL`, chain code = halves of `HMAC-SHA512(chainCode, ser_P(K) ‖ ser32(i))`, `child = parent + IL·G`, …
* `path_offset_accumulates` (+ `path_offset_invariant`, `path_offset_two_levels`) — over a multi-level path the
  returned offset satisfies `child = parent + off·G`, `off < q`, depth and version bookkeeping;
* `refusals`, `path_propagates_first_refusal`, `path_excessive_depth_refused`, `derive_never_panics`;
* `lagrange_coeffs_sum_one`, `offset_shares`, `offset_shares_code`, `offset_public_key`, `child_key_of_secret` — shifting
  every share by `δ` shifts the shared secret by `δ`, and the public key by `δ·G`;
* `shifted_share_eq` — the shift loses nothing (the stored share is recoverable).

`zmodCurve` cannot run `deriveChild` non-trivially (its affine `y` is always 0, which CKDpub refuses, and `IL < 23`
has probability 2⁻²⁵¹), so non-vacuity of the `= .ok` hypotheses is shown by the converse `derive_child_complete`
and the driver's BIP32 test vectors on `secp256k1`, not by a toy evaluation. -/
set_option autoImplicit false
set_option linter.style.haveILetI false
namespace TssVerif.C18
open TssVerif TssVerif.Ckd TssVerif.MiscL

section ckd
variable {P : Type} (C : Curve P)

/-- **one derivation step, soundness** (every curve record, no law assumed).
Note `k.depth ≠ 255`: the model, like Go, only compares with `maxDepth`; Go's `Depth` is a `uint8`, so with the
byte invariant `k.depth ≤ 255` this is `k.depth < 255` and the child again satisfies the invariant. -/
theorem derive_child_point {i : Nat} {k : ExtKey} {il : Nat} {child : ExtKey}
    (h : deriveChild C i k = .ok (il, child)) :
    i < 2 ^ 31 ∧ k.depth ≠ 255 ∧ (k.depth ≤ 255 → k.depth < 255 ∧ child.depth ≤ 255) ∧
    0 < il ∧ il < C.q ∧
    il = bytesToNat ((hmacSha512 k.chainCode (serP k.pub ++ ser32 i)).take 32) ∧
    child.chainCode = (hmacSha512 k.chainCode (serP k.pub ++ ser32 i)).drop 32 ∧
    child.depth = k.depth + 1 ∧ child.childIndex = i ∧ child.version = k.version ∧
    child.parentFP = (hash160 (serP k.pub)).take 4 ∧
    ∃ parent, C.lift k.pub = some parent ∧
      C.toAffine (C.add parent (C.smul il C.base)) = some child.pub := by
  obtain ⟨h1, h2, h3, h4, h5, parent, hpar, _, c, hc, rfl⟩ := deriveChild_ok C h
  refine ⟨h1, h2, fun hk => ⟨by omega, ?_⟩, h4, h5, h3, rfl, rfl, rfl, rfl, rfl, parent, hpar, hc⟩
  show k.depth + 1 ≤ 255
  omega

/-- BIP32 also rejects a step whose `IL·G` has a zero coordinate (the Go code's extra check) -/
theorem derive_child_delta_point {i : Nat} {k : ExtKey} {il : Nat} {child : ExtKey}
    (h : deriveChild C i k = .ok (il, child)) :
    ∃ dg, C.toAffine (C.smul il C.base) = some dg ∧ dg.1 ≠ 0 ∧ dg.2 ≠ 0 := by
  obtain ⟨_, _, _, _, _, _, _, hdg, _⟩ := deriveChild_ok C h
  exact hdg

/-- **one derivation step, completeness**: the conditions of `derive_child_point` are exactly the success condition -/
theorem derive_child_complete {i : Nat} {k : ExtKey} {parent : P} {dg c : ECPoint}
    (h1 : i < 2 ^ 31) (h2 : k.depth ≠ 255) (hpar : C.lift k.pub = some parent)
    (h3 : 0 < bytesToNat ((hmacSha512 k.chainCode (serP k.pub ++ ser32 i)).take 32))
    (h4 : bytesToNat ((hmacSha512 k.chainCode (serP k.pub ++ ser32 i)).take 32) < C.q)
    (hdg : C.toAffine (C.smul (bytesToNat ((hmacSha512 k.chainCode (serP k.pub ++ ser32 i)).take 32)) C.base)
      = some dg) (hx : dg.1 ≠ 0) (hy : dg.2 ≠ 0)
    (hc : C.toAffine (C.add parent
      (C.smul (bytesToNat ((hmacSha512 k.chainCode (serP k.pub ++ ser32 i)).take 32)) C.base)) = some c) :
    deriveChild C i k = .ok (bytesToNat ((hmacSha512 k.chainCode (serP k.pub ++ ser32 i)).take 32),
      { pub := c, depth := k.depth + 1, childIndex := i,
        chainCode := (hmacSha512 k.chainCode (serP k.pub ++ ser32 i)).drop 32,
        parentFP := (hash160 (serP k.pub)).take 4, version := k.version }) :=
  deriveChild_of C h1 h2 hpar h3 h4 hdg hx hy hc

/-- **the accumulated offset**: starting from accumulator 0, `child = parent + off·G` -/
theorem path_offset_accumulates (hC : C.Lawful) {path : List Nat} {k : ExtKey} {off : Nat}
    {child : ExtKey} {parent : P} (hpar : C.lift k.pub = some parent)
    (h : derivePath C C.q path k 0 = .ok (off, child)) :
    C.toAffine (C.add parent (C.smul off C.base)) = some child.pub ∧ off < C.q ∧
    child.depth = k.depth + path.length ∧ child.version = k.version := by
  obtain ⟨cp, _, g2, g3, g4⟩ := derivePath_invariant C hC hpar h
  obtain ⟨d1, d2, _, _⟩ := derivePath_depth C h
  rw [hC.smul_zero_left, hC.add_zero] at g3
  exact ⟨g3 ▸ g2, g4 (Or.inl hC.q_pos), d1, d2⟩

/-- for a non-empty path the parent point need not be assumed: success implies it is on the curve -/
theorem path_offset_accumulates' (hC : C.Lawful) {path : List Nat} {k : ExtKey} {off : Nat}
    {child : ExtKey} (hne : path ≠ []) (h : derivePath C C.q path k 0 = .ok (off, child)) :
    ∃ parent, C.lift k.pub = some parent ∧
      C.toAffine (C.add parent (C.smul off C.base)) = some child.pub := by
  obtain ⟨i, rest, rfl⟩ := List.exists_cons_of_ne_nil hne
  have h' := h
  rw [derivePath_cons] at h'
  cases hd : deriveChild C i k with
  | ok r =>
    obtain ⟨_, _, _, _, _, parent, hpar, _⟩ := deriveChild_ok C (il := r.1) (child := r.2) hd
    exact ⟨parent, hpar, (path_offset_accumulates C hC hpar h).1⟩
  | err e => rw [hd] at h'; exact absurd h' (by simp)
  | panic e => rw [hd] at h'; exact absurd h' (by simp)

/-- the invariant behind it, for an arbitrary starting accumulator: `child + acc·G = parent + off·G` -/
theorem path_offset_invariant (hC : C.Lawful) {path : List Nat} {k : ExtKey} {acc off : Nat}
    {child : ExtKey} {parent : P} (hpar : C.lift k.pub = some parent)
    (h : derivePath C C.q path k acc = .ok (off, child)) :
    ∃ cp, C.lift child.pub = some cp ∧ C.toAffine cp = some child.pub ∧
      C.add cp (C.smul acc C.base) = C.add parent (C.smul off C.base) :=
  let ⟨cp, g1, g2, g3, _⟩ := derivePath_invariant C hC hpar h
  ⟨cp, g1, g2, g3⟩

/-- two levels, written out: the offsets add modulo `mod` -/
theorem path_offset_two_levels (m i1 i2 il1 il2 : Nat) (k c1 c2 : ExtKey)
    (h1 : deriveChild C i1 k = .ok (il1, c1)) (h2 : deriveChild C i2 c1 = .ok (il2, c2)) :
    derivePath C m [i1, i2] k 0 = .ok ((il2 + (il1 + 0) % m) % m, c2) := by
  rw [derivePath_cons, h1]
  simp only
  rw [derivePath_cons, h2]
  rfl

/-- derivation splits along the path -/
theorem path_append (m : Nat) (pre suf : List Nat) (k : ExtKey) (acc : Nat) :
    derivePath C m (pre ++ suf) k acc =
      match derivePath C m pre k acc with
      | .ok (a, k') => derivePath C m suf k' a
      | .err e => .err e
      | .panic e => .panic e :=
  derivePath_append C m pre suf k acc

/-- **refusals** of one step: hardened index, maximal depth, parent key not on the curve -/
theorem refusals (i : Nat) (k : ExtKey) :
    (2 ^ 31 ≤ i → deriveChild C i k = .err "hardened") ∧
    (i < 2 ^ 31 → k.depth = 255 → deriveChild C i k = .err "max-depth") ∧
    (i < 2 ^ 31 → k.depth ≠ 255 → C.lift k.pub = none → deriveChild C i k = .err "invalid-parent") ∧
    ((2 ^ 31 ≤ i ∨ k.depth = 255 ∨ C.lift k.pub = none) → ∃ e, deriveChild C i k = .err e) :=
  ⟨deriveChild_hardened C k, deriveChild_maxDepth C, deriveChild_invalid_parent C, deriveChild_refused C⟩

/-- the first refused step refuses the whole path, with the same error -/
theorem path_propagates_first_refusal (m : Nat) (pre suf : List Nat) (i : Nat) (k k' : ExtKey)
    (acc a : Nat) (e : String) (hpre : derivePath C m pre k acc = .ok (a, k'))
    (hi : deriveChild C i k' = .err e) : derivePath C m (pre ++ i :: suf) k acc = .err e :=
  derivePath_first_refusal C m pre suf i k k' acc a e hpre hi

/-- a successful path contains no hardened index -/
theorem path_no_hardened {m : Nat} {path : List Nat} {k : ExtKey} {acc off : Nat} {child : ExtKey}
    (h : derivePath C m path k acc = .ok (off, child)) : ∀ i ∈ path, i < 2 ^ 31 :=
  (derivePath_depth C h).2.2.2

/-- **excessive depth**: from a key whose depth is a byte, no path leading beyond depth 255 succeeds -/
theorem path_excessive_depth_refused {m : Nat} {path : List Nat} {k : ExtKey} {acc : Nat}
    (hk : k.depth ≤ 255) (hlong : 255 < k.depth + path.length) (r : Nat × ExtKey) :
    derivePath C m path k acc ≠ .ok r := by
  intro h
  obtain ⟨d1, _, d3, _⟩ := derivePath_depth C (off := r.1) (child := r.2) h
  have := d3 hk
  omega

/-- on a lawful curve the derivation never panics (the only modelled panic is `IL·G = O`) -/
theorem derive_never_panics (hC : C.Lawful) (i : Nat) (k : ExtKey) (e : String) :
    deriveChild C i k ≠ .panic e :=
  deriveChild_no_panic C hC i k e

/-- **the public key moves by `δ·G`**: `((x + δ) mod q)·G = x·G + δ·G` -/
theorem offset_public_key (hC : C.Lawful) (x δ : Nat) :
    C.smul ((δ + x) % C.q) C.base = C.add (C.smul x C.base) (C.smul δ C.base) := by
  rw [← hC.smul_base_mod, hC.smul_add, hC.add_comm]

/-- derive, then sign with the shifted secret: if the parent key is `x·G`, the derived child key is the public key
of the shifted secret `(off + x) mod q` — exactly what the shifted shares share (`offset_shares_code`) -/
theorem child_key_of_secret (hC : C.Lawful) {path : List Nat} {k : ExtKey} {off x : Nat} {child : ExtKey}
    (hpar : C.lift k.pub = some (C.smul x C.base))
    (h : derivePath C C.q path k 0 = .ok (off, child)) :
    C.toAffine (C.smul ((off + x) % C.q) C.base) = some child.pub := by
  rw [offset_public_key C hC]
  exact (path_offset_accumulates C hC hpar h).1

/-- … and, for a non-zero offset, NOT the parent key -/
theorem child_key_ne_parent (hC : C.Lawful) {path : List Nat} {k : ExtKey} {off : Nat} {child : ExtKey}
    {parent : P} (hpar : C.lift k.pub = some parent)
    (h : derivePath C C.q path k 0 = .ok (off, child)) (hoff : off ≠ 0) : child.pub ≠ k.pub := by
  obtain ⟨g1, g2, _⟩ := path_offset_accumulates C hC hpar h
  intro heq
  have hp : C.toAffine parent = some k.pub := hC.ofAffine_toAffine _ _ _ hpar
  rw [heq, ← hp] at g1
  have h0 := hC.toAffine_inj _ _ g1
  letI := hC.groupLaws.addCommGroup
  have h1 : parent + C.smul off C.base = parent := h0
  have h2 : C.smul off C.base = C.zero := by
    have : parent + C.smul off C.base = parent + 0 := by rw [h1, add_zero]
    exact add_left_cancel this
  rw [hC.smul_base_eq_zero_iff, Nat.mod_eq_of_lt g2] at h2
  exact hoff h2

end ckd

/-! ## shares -/

/-- **the Lagrange coefficients at 0 sum to 1** (any field, distinct evaluation points, at least one) -/
theorem lagrange_coeffs_sum_one {F : Type} [Field F] {ι : Type} [DecidableEq ι] (s : Finset ι)
    (v : ι → F) (hinj : Set.InjOn v s) (hs : s.Nonempty) :
    ∑ i ∈ s, ∏ j ∈ s.erase i, (v j / (v j - v i)) = 1 :=
  MiscL.lagrange_coeffs_sum_one s v hinj hs

/-- **shifting every share by `δ` shifts the interpolated secret by `δ`** -/
theorem offset_shares {F : Type} [Field F] {ι : Type} [DecidableEq ι] (s : Finset ι) (v x : ι → F) (δ : F)
    (hinj : Set.InjOn v s) (hs : s.Nonempty) :
    ∑ i ∈ s, (∏ j ∈ s.erase i, (v j / (v j - v i))) * (x i + δ) =
      (∑ i ∈ s, (∏ j ∈ s.erase i, (v j / (v j - v i))) * x i) + δ :=
  shifted_shares_sum s _ x δ (MiscL.lagrange_coeffs_sum_one s v hinj hs)

/-- `Sign.weight` computes `x_i` times the Lagrange coefficient (no hypothesis: a `some` result certifies it) -/
theorem weight_is_lagrange {q : ℕ} [Fact q.Prime] {ks : List ℕ} {i xi w : ℕ}
    (h : Sign.weight q ks i xi = some w) :
    (w : ZMod q) = (xi : ZMod q) * ∏ j ∈ (Finset.range ks.length).erase i,
      ((ks.getD j 0 : ZMod q) / ((ks.getD j 0 : ZMod q) - (ks.getD i 0 : ZMod q))) :=
  weight_cast h

/-- the weights exist when the party ids are distinct modulo `q` -/
theorem weights_exist {q : ℕ} [Fact q.Prime] (ks : List ℕ) (hnd : (ks.map (· % q)).Nodup) (i xi : ℕ)
    (hi : i < ks.length) : ∃ w, Sign.weight q ks i xi = some w := by
  apply weight_isSome
  intro j hj hji heq
  rw [ZMod.natCast_eq_natCast_iff', Vss.getD_eq_getElem' _ _ hj, Vss.getD_eq_getElem' _ _ hi] at heq
  have h1 : j < (ks.map (· % q)).length := by simpa using hj
  have h2 : i < (ks.map (· % q)).length := by simpa using hi
  exact hji ((hnd.getElem_inj_iff (hi := h1) (hj := h2)).1 (by simpa using heq))

/-- **code form**: shares `x i` of `f(0)` (`x i = f(ks[i])`, `deg f <` number of signers), every signer computing
`Sign.weight` on its SHIFTED share `(δ + x i) mod q` as `round_1.go` does: the weights add up to `f(0) + δ` -/
theorem offset_shares_code {q : ℕ} [Fact q.Prime] (ks : List ℕ) (x w : ℕ → ℕ) (f : Polynomial (ZMod q))
    (δ : ℕ) (hne : ks ≠ []) (hnd : (ks.map (· % q)).Nodup)
    (hdeg : f.degree < (ks.length : ℕ))
    (hval : ∀ i, i < ks.length → (x i : ZMod q) = f.eval (ks.getD i 0 : ZMod q))
    (hw : ∀ i, i < ks.length → Sign.weight q ks i ((δ + x i) % q) = some (w i)) :
    ∑ i ∈ Finset.range ks.length, (w i : ZMod q) = f.eval 0 + δ :=
  weights_shifted_sum ks x w f δ hne hnd hdeg hval hw

/-- without the shift (`δ = 0` is `offset_shares_code`; this is the plain statement) -/
theorem weights_sum_secret {q : ℕ} [Fact q.Prime] (ks : List ℕ) (x w : ℕ → ℕ) (f : Polynomial (ZMod q))
    (hnd : (ks.map (· % q)).Nodup) (hdeg : f.degree < (ks.length : ℕ))
    (hval : ∀ i, i < ks.length → (x i : ZMod q) = f.eval (ks.getD i 0 : ZMod q))
    (hw : ∀ i, i < ks.length → Sign.weight q ks i (x i) = some (w i)) :
    ∑ i ∈ Finset.range ks.length, (w i : ZMod q) = f.eval 0 :=
  weights_sum_eval ks x w f hnd hdeg hval hw

/-- **the shift loses nothing**: the stored share is recovered from the shifted one -/
theorem shifted_share_eq (δ x q : Nat) (hq : 0 < q) : ((δ + x) % q + q - δ % q) % q = x % q :=
  MiscL.shifted_share_eq δ x q hq

/-! ## the hypotheses are satisfiable; concrete evaluations -/

section examples
local instance : Fact (Nat.Prime 23) := ⟨by decide⟩
private def E := zmodCurve 23
private def k0 : ExtKey := ⟨(5, 0), 0, 0, [], [0, 0, 0, 0], [4, 136, 178, 30]⟩

/-- the empty path: offset 0, the key itself -/
example : derivePath E E.q [] k0 0 = .ok (0, k0) := rfl
example : E.toAffine (E.add (5 : ZMod 23) (E.smul 0 E.base)) = some k0.pub :=
  (path_offset_accumulates E (zmodCurve_lawful 23) (parent := (5 : ZMod 23)) (by decide)
    (show derivePath E E.q [] k0 0 = .ok (0, k0) from rfl)).1
/-- hardened index and maximal depth are refused on the toy curve too -/
example : deriveChild E (2 ^ 31) k0 = .err "hardened" := (refusals E _ _).1 (le_refl _)
example : deriveChild E 7 { k0 with depth := 255 } = .err "max-depth" :=
  (refusals E _ _).2.1 (by norm_num) rfl
example : deriveChild E 7 { k0 with pub := (5, 1) } = .err "invalid-parent" :=
  (refusals E _ _).2.2.1 (by norm_num) (by decide) (by decide)
example : derivePath E E.q [1, 2 ^ 31, 3] { k0 with depth := 255 } 0 ≠ .ok (0, k0) :=
  path_excessive_depth_refused E (by decide) (by decide) _

/-- `ser32` is the 4-byte big-endian index; `serP` the 33-byte SEC1 compressed point -/
example : ser32 (2 ^ 31 - 1) = [0x7f, 0xff, 0xff, 0xff] ∧ ser32 1 = [0, 0, 0, 1] := by decide
example : (serP (5, 7)).length = 33 ∧ (serP (5, 7)).head? = some 3 ∧ (serP (5, 8)).head? = some 2 := by
  decide +kernel

/-- Lagrange at 0 over `ZMod 23` with ids 1, 2, 3: coefficients 3, −3, 1 -/
example : Sign.weight 23 [1, 2, 3] 0 1 = some 3 ∧ Sign.weight 23 [1, 2, 3] 1 1 = some 20 ∧
    Sign.weight 23 [1, 2, 3] 2 1 = some 1 := by decide
/-- shares of `f = 4 + 5X` at ids 1, 2, 3 (9, 14, 19), shifted by δ = 6: weights sum to 4 + 6 -/
example : (do
    let a ← Sign.weight 23 [1, 2, 3] 0 ((6 + 9) % 23)
    let b ← Sign.weight 23 [1, 2, 3] 1 ((6 + 14) % 23)
    let c ← Sign.weight 23 [1, 2, 3] 2 ((6 + 19) % 23)
    pure ((a + b + c) % 23)) = some 10 := by decide
example : ((6 + 19) % 23 + 23 - 6 % 23) % 23 = 19 % 23 := shifted_share_eq 6 19 23 (by decide)

end examples

end TssVerif.C18
