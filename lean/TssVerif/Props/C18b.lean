import TssVerif.Props.C18
/-! # C18 (continued) — the empty path is the identity; a derivation can be resumed from an intermediate key

Property theorems only; corollaries of `Props/C18.lean` (`path_append`). -/
set_option autoImplicit false
namespace TssVerif.C18
open TssVerif TssVerif.Ckd TssVerif.MiscL
variable {P : Type} (C : Curve P)

/-- **the empty path derives the key itself with offset unchanged** -/
theorem path_empty (m : Nat) (k : ExtKey) (acc : Nat) : derivePath C m [] k acc = .ok (acc, k) := rfl

/-- **a derivation can be resumed**: deriving `pre` first and then `suf` from the intermediate key, carrying the
accumulated offset, gives what deriving `pre ++ suf` in one call gives -/
theorem path_resume (m : Nat) (pre suf : List Nat) (k k' : ExtKey) (acc a : Nat)
    (h : derivePath C m pre k acc = .ok (a, k')) :
    derivePath C m (pre ++ suf) k acc = derivePath C m suf k' a := by
  rw [path_append, h]

/-- a refusal anywhere in the prefix is the refusal of the whole path, whatever follows -/
theorem path_prefix_refusal (m : Nat) (pre suf : List Nat) (k : ExtKey) (acc : Nat) (e : String)
    (h : derivePath C m pre k acc = .err e) : derivePath C m (pre ++ suf) k acc = .err e := by
  rw [path_append, h]

end TssVerif.C18
