import TssVerif.Lemmas.C06
import TssVerif.Props.C14
import TssVerif.Props.C16
/-! # C06 — no exported verifier or decoder can be crashed by its input

"Whatever bytes, message type, field values or sender index a party is handed, the call returns and the
process keeps running: no panic … The same holds for every exported proof verifier and decoder given
arbitrary (non-nil) numbers and points."

Every theorem below is about the CURRENT tree (`Zk.cur`, `Ops16.curParse`, `curVss`, `boundedXs := true`)
and has the shape `f … ≠ .panic tag`, for every hash function `H` and every value of every field; there
is no bound on any integer. Hypotheses, all of them:

* curve-dependent verifiers: `C.Lawful`, and `hcof` (on a curve whose identity has no affine form, every
  point is killed by `q`: cofactor 1, as on secp256k1; vacuous on edwards25519). `hcof` is needed:
  `schnorrVerify_cofactor_needed_witness`. No on-curve hypothesis is needed (an off-curve operand makes
  the model's `ScalarMult` report an error, not crash).
* `facVerify`: `w1, w2, sigma, v` non-negative (they are, coming from `SetBytes`) OR `t` a unit mod `NCap`.
  Needed: `facVerify_negative_exponent_panics_witness`.
* `dlnVerify`: the `t_i` non-negative (wire) OR `h1` a unit mod `N`. Needed:
  `dlnVerify_negative_exponent_panics_witness`.
* `paillierProofVerify`: the proof has `ProofIters` entries (in Go it is an array type
  `[ProofIters]*big.Int`); `paillierProofVerify_panic_iff` is the exact crash condition of the model.
* `aliceEnd`: the key's `L(γ^λ mod n²)` is invertible mod `n` (a property of Alice's OWN key).
* `commitVerify`: the decommitment is not empty.
`rangeVerify`, `bobVerify` (no point check), `modVerify`, `dlnUnmarshal`, the parser need nothing.

The second half reproduces the pre-fix crashes (`Zk.old`) on toy inputs by kernel evaluation, each next
to the verdict the current tree gives on the same input. -/
set_option autoImplicit false
namespace TssVerif.C06
open TssVerif Zk C06L
open _root_.TssVerif.OpsCrypto (curVss curPaiProof)

variable {P : Type} {C : Curve P}

/-! ## 5. Alice's range proof (K3) -/

/-- `c` a unit mod `N²` and `z` a unit mod `Ñ` (both checked) make the two negative exponents harmless;
`N > 0`, `Ñ > 0`, `s1, s2 ≥ q ≥ 0` follow from the interval checks. No hypothesis. -/
theorem rangeVerify_no_panic (H : HashFn) (q : Nat) (n ntilde h1 h2 c : Int) (pf : RangeProof) (tag : String) :
    rangeVerify cur H q n ntilde h1 h2 c pf ≠ .panic tag :=
  rangeVerify_noPanic H q n ntilde h1 h2 c pf tag

/-! ## 1. Schnorr proofs (K1) -/

/-- `t ≢ 0 (mod q)` and `c ≠ 0` are checked, so neither `ScalarBaseMult(t)` nor `X.ScalarMult(c)` reaches
the identity. `X`, `alpha` arbitrary pairs of naturals. -/
theorem schnorrVerify_no_panic (hC : C.Lawful)
    (hcof : C.toAffine C.zero = none → ∀ p, C.smul C.q p = C.zero)
    (H : HashFn) (sess : Bytes) (X alpha : ECPoint) (t : Nat) (tag : String) :
    schnorrVerify C H cur sess X alpha t ≠ .panic tag :=
  schnorrVerify_noPanic hC hcof H sess X alpha t tag

theorem schnorrVVerify_no_panic (hC : C.Lawful)
    (hcof : C.toAffine C.zero = none → ∀ p, C.smul C.q p = C.zero)
    (H : HashFn) (sess : Bytes) (V R alpha : ECPoint) (t u : Nat) (tag : String) :
    schnorrVVerify C H cur sess V R alpha t u ≠ .panic tag :=
  schnorrVVerify_noPanic hC hcof H sess V R alpha t u tag

/-- `hcof` cannot be dropped: on a lawful curve with cofactor 2 whose identity has no affine form, the
on-curve point of order 2 and an even challenge crash the CURRENT verifier. (Neither secp256k1 — cofactor
1 — nor edwards25519 — affine identity — is such a curve.) -/
theorem schnorrVerify_cofactor_needed_witness :
    zmod6W.Lawful ∧ zmod6W.ecIsOnCurve (3, 0) = true ∧
    schnorrVerify zmod6W (fun _ => [2]) cur [] (3, 0) (2, 0) 1 = .panic "scalar-mult-identity" :=
  ⟨zmod6W_lawful, by decide, by decide⟩

/-! ## 6. Bob's proofs (K5) -/

/-- both variants; the point check (`xu = some (X, U)`) needs the curve hypotheses -/
theorem bobVerify_no_panic (hC : C.Lawful)
    (hcof : C.toAffine C.zero = none → ∀ p, C.smul C.q p = C.zero)
    (H : HashFn) (sess : Bytes) (n ntilde h1 h2 c1 c2 : Int) (pf : BobProof)
    (xu : Option (ECPoint × ECPoint)) (tag : String) :
    bobVerify C H cur sess n ntilde h1 h2 c1 c2 pf xu ≠ .panic tag :=
  bobVerify_noPanic hC hcof H sess n ntilde h1 h2 c1 c2 pf xu tag

/-- `(*ProofBob).Verify` (no point check): for EVERY curve record, lawful or not -/
theorem bobVerify_none_no_panic (C : Curve P) (H : HashFn) (sess : Bytes) (n ntilde h1 h2 c1 c2 : Int)
    (pf : BobProof) (tag : String) :
    bobVerify C H cur sess n ntilde h1 h2 c1 c2 pf none ≠ .panic tag :=
  bobVerify_none_noPanic C H sess n ntilde h1 h2 c1 c2 pf tag

/-! ## 3. Paillier-Blum modulus proof (K7) -/

/-- `N` positive and odd is checked first: `Jacobi` never sees an even modulus and the challenge chain
never reduces modulo zero. No hypothesis (also none on signs). -/
theorem modVerify_no_panic (H : HashFn) (sess : Bytes) (w : Int) (xs : List Int) (a b : Int)
    (zs : List Int) (n : Int) (tag : String) :
    modVerify cur H sess w xs a b zs n ≠ .panic tag :=
  modVerify_noPanic H sess w xs a b zs n tag

theorem modYs_no_panic (H : HashFn) (sess : Bytes) (w n : Int) (hn : n ≠ 0) (k : Nat) (acc : List Nat)
    (tag : String) : modYs H sess w n k acc ≠ .panic tag :=
  modYs_noPanic H sess w n hn k acc tag

/-! ## 4. no-small-factor proof -/

/-- `N0 > 0`, `NCap > 0`, `z1, z2 ≥ 0` are checked and the challenge is non-negative. The exponents of `t`
— `w1`, `w2`, `sigma`, `v` — are NOT range-checked: a negative one with `t` not a unit mod `NCap` makes
Go's `Exp` return nil. From the wire (`SetBytes`) they are non-negative: this is the explicit hypothesis
(or: `t` is a unit, which the DLN proof for `NCap, s, t` is there to ensure). -/
theorem facVerify_no_panic (H : HashFn) (q : Nat) (sess : Bytes) (n0 ncap s t : Int) (pf : FacProof)
    (hneg : (0 ≤ pf.w1 ∧ 0 ≤ pf.w2 ∧ 0 ≤ pf.sigma ∧ 0 ≤ pf.v) ∨ Int.gcd t ncap = 1) (tag : String) :
    facVerify cur H q sess n0 ncap s t pf ≠ .panic tag :=
  facVerify_noPanic H q sess n0 ncap s t pf hneg tag

/-- the hypothesis of `facVerify_no_panic` is needed (an in-process caller can build such a proof; the
wire cannot carry it): `t = 0` and, in turn, `w1`, `w2`, `sigma`, `v` equal to `−1`; with all four `0` the
same proof is accepted -/
theorem facVerify_negative_exponent_panics_witness :
    facVerify cur (fun _ => [1]) 2 [] 9 5 1 0 ⟨1, 1, 1, 1, 1, 0, 0, 0, -1, 0, 0⟩ = .panic "nil-exp" ∧
    facVerify cur (fun _ => [1]) 2 [] 9 5 1 0 ⟨1, 1, 1, 1, 1, 0, 0, 0, 0, -1, 0⟩ = .panic "nil-exp" ∧
    facVerify cur (fun _ => [1]) 2 [] 9 5 1 0 ⟨1, 1, 1, 1, 1, -1, 0, 0, 0, 0, 0⟩ = .panic "nil-exp" ∧
    facVerify cur (fun _ => [1]) 2 [] 9 5 1 0 ⟨1, 1, 1, 1, 1, 0, 0, 0, 0, 0, -1⟩ = .panic "nil-exp" ∧
    facVerify cur (fun _ => [1]) 2 [] 9 5 1 0 ⟨1, 1, 1, 1, 1, 0, 0, 0, 0, 0, 0⟩ = .ok true := by
  decide

/-! ## 2. discrete-log proof and its decoder -/

/-- `N > 0` is checked, `h2`'s exponent is a bit. `t_i` is range-checked only modulo `N`, so a negative `t_i`
passes; from the wire it is non-negative (explicit hypothesis; or `h1` is a unit mod `N`). -/
theorem dlnVerify_no_panic (H : HashFn) (alpha t : List Int) (h1 h2 n : Int)
    (hneg : (∀ v ∈ t, 0 ≤ v) ∨ Int.gcd h1 n = 1) (tag : String) :
    dlnVerify H alpha t h1 h2 n ≠ .panic tag :=
  dlnVerify_noPanic H alpha t h1 h2 n hneg tag

theorem dlnVerify_negative_exponent_panics_witness :
    dlnVerify (fun _ => [1]) [] [-7] 3 2 9 = .panic "nil-exp" := by decide

theorem dlnUnmarshal_no_panic (xs : List Int) (tag : String) :
    dlnUnmarshal Ops16.curParse xs ≠ .panic tag :=
  dlnUnmarshal_noPanic xs tag

/-! ## 7. Paillier key proof (K10) -/

/-- exact crash condition of the model, for every configuration: only the index into a proof that has
not `ProofIters` entries. In Go the proof is the array type `[ProofIters]*big.Int`. -/
theorem paillierProofVerify_panic_iff (cfg : Paillier.ProofCfg) (H : HashFn) (pf : List Int) (pkN k : Int)
    (pub : ECPoint) (tag : String) :
    Paillier.proofVerify cfg H pf pkN k pub = .panic tag ↔
      tag = "index" ∧ pf.length ≠ Paillier.proofIters ∧
      Paillier.smallPrimes.any (fun prm => pkN % (prm : Int) == 0) = false ∧
      (Paillier.generateXs H Paillier.proofIters k pkN pub).isSome = true :=
  proofVerify_panic_iff cfg H pf pkN k pub tag

theorem paillierProofVerify_no_panic (H : HashFn) (pf : List Int) (pkN k : Int) (pub : ECPoint)
    (hlen : pf.length = Paillier.proofIters) (tag : String) :
    Paillier.proofVerify curPaiProof H pf pkN k pub ≠ .panic tag :=
  proofVerify_noPanic curPaiProof H pf pkN k pub hlen tag

/-- the length hypothesis is needed in the model -/
theorem paillierProofVerify_short_panics_witness :
    Paillier.proofVerify curPaiProof (fun _ => [1]) [] 1009 5 (1, 2) = .panic "index" :=
  (proofVerify_panic_iff _ _ _ _ _ _ _).2 ⟨rfl, by decide, smallPrimes_any_1009, by decide⟩

/-- **`GenerateXs` stops.** `generateXsI` is `generateXs` with the reason for a `none` made visible
(`generateXsI_erases`); with the fuel `m + maxXsRejections + 2` written in `generateXs` the loop never
runs out of fuel: it ends by returning `m` values or by the explicit rejection bound. -/
theorem generateXs_terminates (H : HashFn) (m : Nat) (k n : Int) (pub : ECPoint) :
    generateXsI H m k n pub ≠ .outOfFuel :=
  generateXsI_ne_outOfFuel H m k n pub

theorem generateXsI_erases (H : HashFn) (m : Nat) (k n : Int) (pub : ECPoint) :
    (generateXsI H m k n pub).toOption = Paillier.generateXs H m k n pub :=
  generateXsI_toOption H m k n pub

/-- so a `none` from `generateXs` IS the rejection-bound exit … -/
theorem generateXs_none_iff_rejected (H : HashFn) (m : Nat) (k n : Int) (pub : ECPoint) :
    Paillier.generateXs H m k n pub = none ↔ generateXsI H m k n pub = .rejected := by
  rw [← generateXsI_erases]
  have := generateXs_terminates H m k n pub
  cases h : generateXsI H m k n pub with
  | outOfFuel => exact absurd h this
  | rejected => simp [XsExit.toOption]
  | done xs => simp [XsExit.toOption]

/-- … which means: for some index `i < m` the candidate with rejection counter `maxXsRejections` (the
`maxXsRejections + 1`-st rejected candidate overall) was not in `Z_N^*` … -/
theorem generateXs_none_rejection (H : HashFn) (m : Nat) (k n : Int) (pub : ECPoint)
    (h : Paillier.generateXs H m k n pub = none) :
    ∃ i, i < m ∧ Paillier.isNumberInMultiplicativeGroup n
      (Paillier.xsCandidate H i Paillier.maxXsRejections (intToBytesBE k) (natToBytesBE pub.1)
        (natToBytesBE pub.2) (intToBytesBE n) ((bitLen n.natAbs + 255) / 256)) = false := by
  have hr := (generateXs_none_iff_rejected H m k n pub).1 h
  unfold generateXsI at hr
  obtain ⟨i, _, h1, h2⟩ := loopI_rejected _ _ _ _ _ _ _ _ _ _ _ _ (Nat.zero_le _) hr
  exact ⟨i, h1, h2⟩

/-- … and more fuel never changes the answer -/
theorem generateXs_fuel_irrelevant (H : HashFn) (m : Nat) (k n : Int) (pub : ECPoint) (extra : Nat) :
    Paillier.generateXsLoop H m (intToBytesBE k) (natToBytesBE pub.1) (natToBytesBE pub.2) (intToBytesBE n) n
      ((bitLen n.natAbs + 255) / 256) (m + Paillier.maxXsRejections + 2 + extra) 0 0 [] =
    Paillier.generateXs H m k n pub := by
  have h := generateXs_terminates H m k n pub
  unfold generateXsI at h
  rw [← loopI_toOption, loopI_fuel_mono _ _ _ _ _ _ _ _ _ _ _ _ _ h, loopI_toOption]
  rfl

/-! ## 8. `AliceEnd`, commitments, parser, VSS -/

/-- `AliceEnd` / `AliceEndWC`: Bob's proof cannot crash Alice, and `Decrypt` cannot when her own key is
sound (`L(γ^λ mod n²)` invertible mod `n`) -/
theorem aliceEnd_no_panic (hC : C.Lawful)
    (hcof : C.toAffine C.zero = none → ∀ p, C.smul C.q p = C.zero)
    (H : HashFn) (sess : Bytes) (sk : Paillier.PrivateKey) (pf : BobProof) (rpA : Mta.RP) (cA cB : Nat)
    (xu : Option (ECPoint × ECPoint))
    (hk : (modInverse (Paillier.L (modPow (Paillier.gamma sk.n) sk.lambdaN (Paillier.nSquare sk.n)) sk.n)
      sk.n).isSome = true) (tag : String) :
    Mta.aliceEnd C H cur sess sk pf rpA cA cB xu ≠ .panic tag :=
  aliceEnd_noPanic_of_decrypt hC hcof H sess sk pf rpA cA cB xu (fun c => decrypt_noPanic sk c hk) tag

/-- the same with the key hypotheses of `C14.decrypt_never_panics` (distinct primes, `gcd(λ, n) = 1`) -/
theorem aliceEnd_no_panic_keygen (hC : C.Lawful)
    (hcof : C.toAffine C.zero = none → ∀ p, C.smul C.q p = C.zero)
    {Pp Q : Nat} (hP : Pp.Prime) (hQ : Q.Prime) (hne : Pp ≠ Q)
    (hlam : Nat.gcd (Nat.lcm (Pp - 1) (Q - 1)) (Pp * Q) = 1)
    (H : HashFn) (sess : Bytes) (sk : Paillier.PrivateKey) (hn : sk.n = Pp * Q)
    (hl : sk.lambdaN = Nat.lcm (Pp - 1) (Q - 1)) (pf : BobProof) (rpA : Mta.RP) (cA cB : Nat)
    (xu : Option (ECPoint × ECPoint)) (tag : String) :
    Mta.aliceEnd C H cur sess sk pf rpA cA cB xu ≠ .panic tag :=
  aliceEnd_noPanic_of_decrypt hC hcof H sess sk pf rpA cA cB xu
    (fun c => C14.decrypt_never_panics hP hQ hne hlam sk hn hl c) tag

/-- `AliceEnd` without the point check: any curve record -/
theorem aliceEnd_none_no_panic (C : Curve P) (H : HashFn) (sess : Bytes) (sk : Paillier.PrivateKey)
    (pf : BobProof) (rpA : Mta.RP) (cA cB : Nat)
    (hk : (modInverse (Paillier.L (modPow (Paillier.gamma sk.n) sk.lambdaN (Paillier.nSquare sk.n)) sk.n)
      sk.n).isSome = true) (tag : String) :
    Mta.aliceEnd C H cur sess sk pf rpA cA cB none ≠ .panic tag :=
  aliceEnd_none_noPanic_of_decrypt C H sess sk pf rpA cA cB (fun c => decrypt_noPanic sk c hk) tag

/-- bonus — `BobMid` / `BobMidWC`, the responder's step: Alice's range proof and ciphertext cannot crash
Bob. The only crash left is Bob's OWN coin `alpha ≡ 0 (mod q)` in the with-check variant (the library
samples `alpha` from `[0, q³)` without excluding multiples of `q`; probability `≈ 1/q`). No `hcof`. -/
theorem bobMid_no_panic (hC : C.Lawful) (H : HashFn) (sess : Bytes) (nA : Nat)
    (rpf : RangeProof) (b cA : Nat) (rpA rpB : Mta.RP) (B : Option ECPoint) (betaPrm xB : Nat) (k : BobCoins)
    (hcoin : B = none ∨ k.alpha % C.q ≠ 0) (tag : String) :
    Mta.bobMid C H cur sess nA rpf b cA rpA rpB B betaPrm xB k ≠ .panic tag :=
  bobMid_noPanic hC H sess nA rpf b cA rpA rpB B betaPrm xB k hcoin tag

/-- `HashCommitDecommit.Verify` on a non-empty decommitment (the empty one crashes:
`C16.commit_verify_empty_panics`; callers guard with `ValidateBasic`) -/
theorem commitVerify_no_panic_nonempty (H : HashFn) (c : Nat) (d : List Int) (hd : d ≠ []) (tag : String) :
    commitVerifyWith H c d ≠ .panic tag :=
  commitVerify_noPanic H c d hd tag

theorem decommit_no_panic_nonempty (H : HashFn) (c : Nat) (d : List Int) (hd : d ≠ []) (tag : String) :
    decommitWith H c d ≠ .panic tag := by
  unfold decommitWith
  have := commitVerify_noPanic H c d hd
  split
  · nofun
  · nofun
  · nofun
  · rename_i h; exact absurd h (this _)

/-- re-export (K4): the parts parser of the current tree -/
theorem parse_never_panics (secrets : List Int) (tag : String) :
    parseSecretsCfg Ops16.curParse secrets ≠ .panic tag :=
  parse_cur_noPanic secrets tag

/-- re-export (K2): Feldman share verification (`C15.vss_verify_no_panic`, taken from
`Lemmas/VssVerify.lean` because `Props/C15` and `Lemmas/GoIntSpec` cannot be imported together:
`Lemmas/ModInverse` and `Lemmas/GoIntSpec` both declare `TssVerif.xgcdAux_bezout`) -/
theorem vss_verify_no_panic (hC : C.Lawful)
    (hcof : C.toAffine C.zero = none → ∀ p, C.smul C.q p = C.zero)
    (t : Nat) (sh : Vss.Share) (vs : List ECPoint) (hvs : ∀ v ∈ vs, C.ecIsOnCurve v = true) (tag : String) :
    Vss.verify C curVss t sh vs ≠ .panic tag := by
  obtain ⟨b, hb⟩ := Vss.verify_no_panic hC hcof t sh vs hvs
  rw [hb]; nofun

/-! ## 9. the crashes before the repairs, and the same inputs now -/
section witnesses

instance fact23 : Fact (Nat.Prime 23) := ⟨by decide⟩
/-- toy lawful curve of order 23 whose identity has no affine form (like secp256k1) -/
abbrev W := zmodCurveW 23
/-- … and one whose identity has (like edwards25519) -/
abbrev E := zmodCurve 23
def Hone : HashFn := fun _ => [1]

/-- K3: Alice sends the ciphertext `c = 0`; the challenge is `1`, and `0⁻¹ mod 9` is nil -/
theorem rangeVerify_old_panics_witness :
    rangeVerify old Hone 2 3 5 2 3 0 ⟨2, 2, 2, 2, 2, 3⟩ = .panic "nil-exp" := by decide
theorem rangeVerify_cur_same_input :
    rangeVerify cur Hone 2 3 5 2 3 0 ⟨2, 2, 2, 2, 2, 3⟩ = .ok false := by decide

/-- K1: `t = 0` (and `t = q`) -/
theorem schnorrVerify_old_panics_witness :
    schnorrVerify W Hone old [] (5, 0) (7, 0) 0 = .panic "scalar-base-mult-identity" ∧
    schnorrVerify W Hone old [] (5, 0) (7, 0) 23 = .panic "scalar-base-mult-identity" := by decide
theorem schnorrVerify_cur_same_input :
    schnorrVerify W Hone cur [] (5, 0) (7, 0) 0 = .ok false ∧
    schnorrVerify W Hone cur [] (5, 0) (7, 0) 23 = .ok false := by decide

/-- K1: `u = 0` in the two-generator variant -/
theorem schnorrVVerify_old_panics_witness :
    schnorrVVerify W Hone old [] (5, 0) (3, 0) (7, 0) 2 0 = .panic "scalar-base-mult-identity" := by decide
theorem schnorrVVerify_cur_same_input :
    schnorrVVerify W Hone cur [] (5, 0) (3, 0) (7, 0) 2 0 = .ok false := by decide

/-- K5: `s1 = q`, every range check passed -/
theorem bobWC_old_panics_witness :
    bobVerify W Hone old [] 3 5 2 3 4 7 ⟨2, 2, 2, 2, 2, 2, 23, 24, 25, 26⟩ (some ((5, 0), (7, 0))) =
      .panic "scalar-base-mult-identity" := by decide
theorem bobWC_cur_same_input :
    bobVerify W Hone cur [] 3 5 2 3 4 7 ⟨2, 2, 2, 2, 2, 2, 23, 24, 25, 26⟩ (some ((5, 0), (7, 0))) =
      .ok false := by decide

/-- K7: an even modulus reaches `big.Jacobi` -/
theorem modVerify_old_panics_witness :
    modVerify old Hone [] 3 [] 0 0 [] 4 = .panic "jacobi-even" := by decide
theorem modVerify_cur_same_input :
    modVerify cur Hone [] 3 [] 0 0 [] 4 = .ok false := by decide

/-- K10: `N = 1` has an empty unit group; `GenerateXs` rejected candidates forever. For EVERY hash, proof,
`k` and point (no evaluation involved). -/
theorem paillierProofVerify_old_hangs_witness (H : HashFn) (pf : List Int) (k : Int) (pub : ECPoint) :
    Paillier.proofVerify ⟨false⟩ H pf 1 k pub = .err "hang" :=
  proofVerify_one ⟨false⟩ H pf k pub
theorem paillierProofVerify_cur_same_input (H : HashFn) (pf : List Int) (k : Int) (pub : ECPoint) :
    Paillier.proofVerify curPaiProof H pf 1 k pub = .err "xs" :=
  proofVerify_one curPaiProof H pf k pub

end witnesses

/-! ## the hypotheses are satisfiable -/
section nonvacuity

example : W.Lawful := zmodCurveW_lawful 23
example : E.Lawful := zmodCurve_lawful 23

/-- cofactor 1 on `W` (identity without affine form): every point is killed by `q = 23` -/
theorem hcofW : W.toAffine W.zero = none → ∀ p, W.smul W.q p = W.zero := by
  intro _ p
  rw [zmodCurveW_smul]
  show ((23 : ℕ) : ZMod 23) * p = 0
  rw [ZMod.natCast_self, zero_mul]

/-- vacuous on `E`: the identity has affine coordinates -/
theorem hcofE : E.toAffine E.zero = none → ∀ p, E.smul E.q p = E.zero :=
  fun h => absurd h (zmodCurve_toAffine_zero 23)

/-- the theorems apply to both toy curves, e.g. to the K1/K5 witness inputs -/
example (tag : String) : schnorrVerify W Hone cur [] (5, 0) (7, 0) 0 ≠ .panic tag :=
  schnorrVerify_no_panic (zmodCurveW_lawful 23) hcofW _ _ _ _ _ _
example (H : HashFn) (X alpha : ECPoint) (t : Nat) (tag : String) :
    schnorrVerify E H cur [] X alpha t ≠ .panic tag :=
  schnorrVerify_no_panic (zmodCurve_lawful 23) hcofE _ _ _ _ _ _
example (H : HashFn) (pf : BobProof) (xu : Option (ECPoint × ECPoint)) (tag : String) :
    bobVerify W H cur [] 3 5 2 3 4 7 pf xu ≠ .panic tag :=
  bobVerify_no_panic (zmodCurveW_lawful 23) hcofW _ _ _ _ _ _ _ _ _ _ _

/-- an honest run is accepted, so the verifiers are not constantly rejecting: Schnorr for `x = 3` -/
example : schnorrProve W Hone [] 3 (3, 0) 4 = .ok ((4, 0), 7) ∧
    schnorrVerify W Hone cur [] (3, 0) (4, 0) 7 = .ok true := by decide

/-- `facVerify` / `dlnVerify` sign hypotheses: all-non-negative fields, or a unit base -/
example : (0 ≤ (⟨1, 1, 1, 1, 1, 0, 0, 0, 0, 0, 0⟩ : FacProof).w1 ∧ 0 ≤ (⟨1, 1, 1, 1, 1, 0, 0, 0, 0, 0, 0⟩ : FacProof).w2 ∧
    0 ≤ (⟨1, 1, 1, 1, 1, 0, 0, 0, 0, 0, 0⟩ : FacProof).sigma ∧ 0 ≤ (⟨1, 1, 1, 1, 1, 0, 0, 0, 0, 0, 0⟩ : FacProof).v) ∨
    Int.gcd 0 5 = 1 := Or.inl (by decide)
example : (∀ v ∈ ([2, 3] : List Int), 0 ≤ v) ∨ Int.gcd 3 9 = 1 := Or.inl (by decide)

/-- the key hypothesis of `aliceEnd_no_panic`: `n = 3·5`, `λ = lcm(2, 4) = 4` -/
example : (modInverse (Paillier.L (modPow (Paillier.gamma 15) 4 (Paillier.nSquare 15)) 15) 15).isSome = true := by
  decide
example : Nat.Prime 3 ∧ Nat.Prime 5 ∧ 3 ≠ 5 ∧ Nat.gcd (Nat.lcm (3 - 1) (5 - 1)) (3 * 5) = 1 := by decide

end nonvacuity
end TssVerif.C06
