import TssVerif.Lemmas.C17Fields
/-! # C17b — every point a modelled round accepts from a message field lies on the curve

Property C17, clause: "Every way a point enters the library from outside (constructor, flattened coordinate
lists, JSON, Gob, message fields) accepts it only if it lies on the stated curve."

This file is about the last item, MESSAGE FIELDS, for the rounds that have a round-level model: for each
per-peer check, if the check passes then every point it decoded from the peer's message — the opened commitment
points, the points of the Schnorr proofs, the point `U` of a Bob proof, the announced group key — satisfies
`C.ecIsOnCurve`, i.e. `(C.ofAffine x y).isSome`: canonical coordinates satisfying the curve equation, by the
contract of `Curve.ofAffine`. (`C17.lean` proves what `ecIsOnCurve` means on the two executable curves.) All
statements hold for every curve record `C` and every hash `H`; the ones about the points AFTER cofactor clearing
need `C.Lawful` (the product of a scalar and a curve point is a curve point).

* decoders: `ecNew_on_curve`, `unflatten_all_on_curve`, `lift_on_curve`;
* ECDSA signing: round 3 `sg3_point_on_curve` (`bobWC_point_on_curve`), round 5 `sg5_point_on_curve`,
  `sg5_round_points_on_curve`, round 7 `sg7_points_on_curve`, `sg7_round_points_on_curve`,
  round 9 `round9_accepts_only_curve_points` (current tree) with the contrast
  `round9_old_tree_accepts_offcurve_is_self_blame`, `round9_old_tree_accepts_only_curve_points`;
* EdDSA signing round 3: `eddsa_sg3_point_on_curve`;
* EdDSA key generation round 3: `eddsa_kg3_points_on_curve`; ECDSA key generation round 3:
  `ecdsa_kg3_points_on_curve`;
* EdDSA resharing, new member: `rs_points_on_curve` (round 4), `rs_key_on_curve` (round 1, both trees). -/
set_option autoImplicit false
namespace TssVerif.C17b
open TssVerif C17FieldsL

variable {P : Type} (C : Curve P) (H : HashFn)

/-! ## 1. the decoders -/

/-- `NewECPoint` -/
theorem ecNew_on_curve (x y : Nat) (g : ECPoint) (h : C.ecNew x y = some g) :
    C.ecIsOnCurve g = true ∧ g = (x, y) :=
  onCurve_of_ecNew C h

/-- `UnFlattenECPoints` -/
theorem unflatten_all_on_curve (xs : List Nat) (ps : List ECPoint) (h : C.unflatten xs = some ps) :
    ∀ p ∈ ps, C.ecIsOnCurve p = true :=
  onCurve_of_unflatten C h

/-- the internal form exists only for points of the curve -/
theorem lift_on_curve (a : ECPoint) (pa : P) (h : C.lift a = some pa) : C.ecIsOnCurve a = true :=
  onCurve_of_ofAffine C h

/-! ## 2. threshold-ECDSA signing -/
section ecdsaSigning
open BlameSg Zk C05SgL C05Sg9L

/-- round 3, `ProofBobWCFromBytes`: the point `U` carried in parts 10 and 11 -/
theorem bobWC_point_on_curve (bzs : List Bytes) (pf : BobProof) (u : ECPoint)
    (h : bobWCFromBytes C bzs = .ok (some (pf, u))) :
    C.ecIsOnCurve u = true ∧ u = (bytesToNat (bzs.getD 10 []), bytesToNat (bzs.getD 11 [])) := by
  unfold bobWCFromBytes at h
  split at h
  · cases h
  · split at h
    · cases h
    · split at h
      · cases h
      · rename_i u' hu
        injection h with h; injection h with h; injection h with _ h2
        subst h2
        exact onCurve_of_ecNew C hu

/-- round 3: a peer that passes sent a Bob proof whose point `U` is on the curve -/
theorem sg3_point_on_curve (cfg : Cfg) (ssid : Bytes) (sk : Paillier.PrivateKey) (own : Mta.RP) (p : R2Peer)
    (a u : Nat) (h : r3Peer C H cfg ssid sk own p = .ok (some (a, u))) :
    ∃ pf uPt, bobWCFromBytes C p.proofBobWC = .ok (some (pf, uPt)) ∧ C.ecIsOnCurve uPt = true := by
  obtain ⟨_, pf2, uPt, _, hw, _⟩ := (r3Peer_some_iff' C H cfg ssid sk own p a u).1 h
  exact ⟨pf2, uPt, hw, (bobWC_point_on_curve C _ _ _ hw).1⟩

/-- round 5: the opened `Γ_j` and the point of its Schnorr proof -/
theorem sg5_point_on_curve (cfg : Cfg) (ssid : Bytes) (p : R4Peer) (g : ECPoint)
    (h : r5Peer C H cfg ssid p = .ok (.pass g)) :
    C.ecIsOnCurve g = true ∧ C.ecIsOnCurve p.alpha = true ∧
      ∃ x y, decommitWith H p.commitment (p.decommitment.map Int.ofNat) = .ok (some [x, y]) ∧
        g = (x.toNat, y.toNat) := by
  obtain ⟨x, y, al, hd, hg, hal, _⟩ := (r5Peer_pass_iff' C H cfg ssid p g).1 h
  obtain ⟨h1, h2⟩ := onCurve_of_ecNew C hg
  exact ⟨h1, onCurve_of_ecNew' C hal, x, y, hd, h2⟩

/-- round 5, whole round: when it passes every peer's `Γ_j` was on the curve -/
theorem sg5_round_points_on_curve (cfg : Cfg) (ssid : Bytes) (ownGamma : ECPoint) (peers : List R4Peer)
    (r : ECPoint) (h : round5 C H cfg ssid ownGamma peers = .ok (.pass r)) :
    ∀ p ∈ peers, ∃ g, r5Peer C H cfg ssid p = .ok (.pass g) ∧ C.ecIsOnCurve g = true ∧
      C.ecIsOnCurve p.alpha = true := by
  obtain ⟨gs, hall, _⟩ := (round5_pass_iff C H cfg ssid peers ownGamma r).1 h
  intro p hp
  obtain ⟨g, hg⟩ := forall₂_left hall p hp
  obtain ⟨h1, h2, _⟩ := sg5_point_on_curve C H cfg ssid p g hg
  exact ⟨g, hg, h1, h2⟩

/-- round 7: the opened `V_j`, `A_j` and the points of the two proofs -/
theorem sg7_points_on_curve (cfg : Cfg) (ssid : Bytes) (bigR : ECPoint) (p : R6Peer) (bigV bigA : ECPoint)
    (h : r7Peer C H cfg ssid bigR p = .ok (.pass (bigV, bigA))) :
    C.ecIsOnCurve bigV = true ∧ C.ecIsOnCurve bigA = true ∧
      C.ecIsOnCurve p.alphaA = true ∧ C.ecIsOnCurve p.alphaV = true := by
  obtain ⟨x1, y1, x2, y2, alA, alV, _, hV, hA, halA, _, halV, _⟩ :=
    (r7Peer_pass_iff' C H cfg ssid bigR p bigV bigA).1 h
  exact ⟨(onCurve_of_ecNew C hV).1, (onCurve_of_ecNew C hA).1, onCurve_of_ecNew' C halA, onCurve_of_ecNew' C halV⟩

/-- round 7, whole round: every `(V_j, A_j)` handed on is a pair of curve points -/
theorem sg7_round_points_on_curve (cfg : Cfg) (ssid : Bytes) (bigR : ECPoint) (peers : List R6Peer)
    (l : List (ECPoint × ECPoint)) (h : round7 C H cfg ssid bigR peers = .ok (.pass l)) :
    ∀ va ∈ l, C.ecIsOnCurve va.1 = true ∧ C.ecIsOnCurve va.2 = true := by
  have hall := (round7_pass_iff C H cfg ssid bigR peers l).1 h
  intro va hva
  obtain ⟨q, _, hq⟩ := C04RsL.forall₂_mem_right hall va hva
  obtain ⟨h1, h2, _⟩ := sg7_points_on_curve C H cfg ssid bigR q va.1 va.2 hq
  exact ⟨h1, h2⟩

/-- **round 9, current tree**: the share is revealed only if every peer's opened `U_j`, `T_j` are points of the
curve (`C.ofAffine … ≠ none`) -/
theorem round9_accepts_only_curve_points (own : Nat) (u t : P) (peers : List R8Peer)
    (h : round9Go C H true own u t peers = .ok (.pass ())) :
    ∀ p ∈ peers, ∃ v, decommitWith H p.commitment (p.decommitment.map Int.ofNat) = .ok (some v) ∧
      4 ≤ v.length ∧
      C.ofAffine (v.getD 0 0).toNat (v.getD 1 0).toNat ≠ none ∧
      C.ofAffine (v.getD 2 0).toNat (v.getD 3 0).toNat ≠ none := by
  obtain ⟨uts, ha, _⟩ := (round9Go_pass_iff C H true own u t peers).1 h
  intro p hp
  obtain ⟨uj, tj, v, hd, hl, hu, ht⟩ := forall_of_allOpen C H ha p hp
  exact ⟨v, hd, hl, by rw [hu]; nofun, by rw [ht]; nofun⟩

/-- … the same in terms of `ecIsOnCurve` -/
theorem round9_accepts_only_curve_points' (own : Nat) (u t : P) (peers : List R8Peer)
    (h : round9Go C H true own u t peers = .ok (.pass ())) :
    ∀ p ∈ peers, ∃ v, decommitWith H p.commitment (p.decommitment.map Int.ofNat) = .ok (some v) ∧
      C.ecIsOnCurve ((v.getD 0 0).toNat, (v.getD 1 0).toNat) = true ∧
      C.ecIsOnCurve ((v.getD 2 0).toNat, (v.getD 3 0).toNat) = true := by
  intro p hp
  obtain ⟨v, hd, _, hu, ht⟩ := round9_accepts_only_curve_points C H own u t peers h p hp
  exact ⟨v, hd, (ofAffine_ne_none_iff C _ _).1 hu, (ofAffine_ne_none_iff C _ _).1 ht⟩

/-- **round 9, tree before the repair, what the model gives**: the modelling convention resolves the
unspecified raw addition of an off-curve pair as an unequal comparison, so in the MODEL a pass also implies
curve points … -/
theorem round9_old_tree_accepts_only_curve_points (own : Nat) (u t : P) (peers : List R8Peer)
    (h : round9Go C H false own u t peers = .ok (.pass ())) :
    ∀ p ∈ peers, ∃ uj tj, Opens C H p uj tj := by
  obtain ⟨uts, ha, _⟩ := (round9Go_pass_iff C H false own u t peers).1 h
  exact forall_of_allOpen C H ha

/-- … but the pair was never CHECKED there: an off-curve pair (after valid openings) is not rejected as the
sender's fault, it surfaces as the party's own failed assertion "U doesn't equal T", naming the party itself;
the current tree rejects it naming the sender. (In Go the old tree fed the coordinates to the curve's raw
addition, whose result on such input is unspecified; no statement about it is made here.) -/
theorem round9_old_tree_accepts_offcurve_is_self_blame (own : Nat) (u t : P) (pre post : List R8Peer)
    (p : R8Peer) (hpre : ∀ q ∈ pre, ∃ uj tj, Opens C H q uj tj)
    (v : List Int) (hv : decommitWith H p.commitment (p.decommitment.map Int.ofNat) = .ok (some v))
    (hl : 4 ≤ v.length)
    (hoff : C.ofAffine (v.getD 0 0).toNat (v.getD 1 0).toNat = none ∨
      C.ofAffine (v.getD 2 0).toNat (v.getD 3 0).toNat = none) :
    round9Go C H false own u t (pre ++ p :: post) = .ok (.fail "U doesn't equal T" own) ∧
    ∃ why, round9Go C H true own u t (pre ++ p :: post) = .ok (.fail why p.idx) ∧
      (why = "NewECPoint(Uj)" ∨ why = "NewECPoint(Tj)") := by
  have hcase : OffU C H p ∨ OffT C H p := by
    cases hu : C.ofAffine (v.getD 0 0).toNat (v.getD 1 0).toNat with
    | none => exact Or.inl ⟨v, hv, hl, hu⟩
    | some uj =>
      rcases hoff with h | h
      · rw [hu] at h; cases h
      · exact Or.inr ⟨v, uj, hv, hl, hu, h⟩
  refine ⟨?_, ?_⟩
  · refine (round9Go_fail_iff C H false own u t _ _ _).2 (Or.inr ⟨pre, p, post, rfl, hpre, ?_⟩)
    rcases hcase with hu | ht
    · rw [peer9_of_offU C H false own p hu]; rfl
    · rw [peer9_of_offT C H false own p ht]; rfl
  · rcases hcase with hu | ht
    · exact ⟨_, (round9Go_fail_iff C H true own u t _ _ _).2
        (Or.inr ⟨pre, p, post, rfl, hpre, by rw [peer9_of_offU C H true own p hu]; rfl⟩), Or.inl rfl⟩
    · exact ⟨_, (round9Go_fail_iff C H true own u t _ _ _).2
        (Or.inr ⟨pre, p, post, rfl, hpre, by rw [peer9_of_offT C H true own p ht]; rfl⟩), Or.inr rfl⟩

end ecdsaSigning

/-! ## 3. EdDSA signing round 3 and key generation round 3; ECDSA key generation round 3 -/
section keygen
open Blame C05L

/-- EdDSA signing round 3: the opened `R_j` (before and, on a lawful curve, after cofactor clearing) and the
point of its Schnorr proof -/
theorem eddsa_sg3_point_on_curve (zcfg : Zk.Cfg) (blameDecommit errFirst : Bool) (cof cofInv : Nat)
    (ssid : Bytes) (p : SgPeer) (rj : ECPoint)
    (h : sgCheckPeer C H zcfg blameDecommit errFirst cof cofInv ssid p = .ok (.ok rj)) :
    (∃ x y, decommitWith H p.commitment (p.decommitment.map Int.ofNat) = .ok (some [x, y]) ∧
      C.ecIsOnCurve (x.toNat, y.toNat) = true ∧ clear C cof cofInv (x.toNat, y.toNat) = .ok rj) ∧
    C.ecIsOnCurve p.alpha = true ∧ (C.Lawful → C.ecIsOnCurve rj = true) := by
  obtain ⟨x, y, rj0, al, hd, h0, hc, hal, _⟩ :=
    (sgCheckPeer_ok_iff C H zcfg blameDecommit errFirst cof cofInv ssid p rj).1 h
  obtain ⟨h1, h2⟩ := onCurve_of_ecNew C h0
  subst h2
  exact ⟨⟨x, y, hd, h1, hc⟩, onCurve_of_ecNew' C hal, fun hC => clear_onCurve hC hc⟩

/-- EdDSA key generation round 3: the opened commitment points `v_j0 … v_jt` (before and, on a lawful curve,
after cofactor clearing) and the point of the Schnorr proof -/
theorem eddsa_kg3_points_on_curve (zcfg : Zk.Cfg) (vcfg : Vss.VerifyCfg) (lenGuard : Bool)
    (cof cofInv threshold ownId : Nat) (ssid : Bytes) (p : KgPeer) (vs : List ECPoint)
    (h : kgCheckPeer C H zcfg vcfg lenGuard cof cofInv threshold ownId ssid p = .ok (.ok vs)) :
    (∃ flat pts, decommitWith H p.commitment (p.decommitment.map Int.ofNat) = .ok (some flat) ∧
      C.unflatten (flat.map Int.toNat) = some pts ∧ pts.mapM (clear C cof cofInv) = .ok vs ∧
      ∀ pt ∈ pts, C.ecIsOnCurve pt = true) ∧
    C.ecIsOnCurve p.alpha = true ∧ (C.Lawful → ∀ v ∈ vs, C.ecIsOnCurve v = true) := by
  obtain ⟨flat, pts, hd, hu, hm, hacc⟩ :=
    (kgCheckPeer_ok_iff C H zcfg vcfg lenGuard cof cofInv threshold ownId ssid p vs).1 h
  obtain ⟨_, _, al, _, hal, _⟩ := hacc.schnorr
  exact ⟨⟨flat, pts, hd, hu, hm, onCurve_of_unflatten C hu⟩, onCurve_of_ecNew' C hal,
    fun hC => mapM_clear_onCurve hC hm⟩

/-- ECDSA key generation round 3: the opened commitment points (no cofactor clearing on this path) -/
theorem ecdsa_kg3_points_on_curve (zcfg : Zk.Cfg) (vcfg : Vss.VerifyCfg) (noMod noFac : Bool)
    (threshold ownId : Nat) (ssid : Bytes) (nt h1 h2 : Nat) (p : BlameEc.R2Peer)
    (h : BlameEc.checkPeer C H zcfg vcfg noMod noFac threshold ownId ssid nt h1 h2 p = .ok none) :
    ∃ flat vs, decommitWith H p.commitment (p.decommitment.map Int.ofNat) = .ok (some flat) ∧
      C.unflatten (flat.map Int.toNat) = some vs ∧ ∀ v ∈ vs, C.ecIsOnCurve v = true := by
  obtain ⟨flat, vs, hd, hu, _⟩ :=
    (C05EcL.checkPeer_none_iff C H zcfg vcfg noMod noFac threshold ownId ssid nt h1 h2 p).1 h
  exact ⟨flat, vs, hd, hu, onCurve_of_unflatten C hu⟩

end keygen

/-! ## 4. EdDSA resharing, new committee member -/
section resharing
open BlameRs Blame C05L C04RsL

/-- round 4: the commitment points an old member opened (before and, on a lawful curve, after clearing) -/
theorem rs_points_on_curve (vcfg : Vss.VerifyCfg) (cof cofInv t' ownId : Nat) (m : OldMsg) (vs : List ECPoint)
    (h : checkOld C H vcfg cof cofInv t' ownId m = .ok (.pass vs)) :
    (∃ flat pts, decommitWith H m.commitment (m.decommitment.map Int.ofNat) = .ok (some flat) ∧
      C.unflatten (flat.map Int.toNat) = some pts ∧ pts.mapM (clear C cof cofInv) = .ok vs ∧
      ∀ pt ∈ pts, C.ecIsOnCurve pt = true) ∧
    (C.Lawful → ∀ v ∈ vs, C.ecIsOnCurve v = true) := by
  obtain ⟨flat, pts, hd, _, hu, hm, _⟩ := (checkOld_pass_iff C H vcfg cof cofInv t' ownId m vs).1 h
  exact ⟨⟨flat, pts, hd, hu, hm, onCurve_of_unflatten C hu⟩, fun hC => mapM_clear_onCurve hC hm⟩

/-- round 1: the group key the new member fixes is a point of the curve, on both trees (the repaired one
reads every old member's announcement, the one before the repair only the first member's) -/
theorem rs_key_on_curve (everyMember : Bool) (msgs : List OldMsg) (key : ECPoint)
    (h : round1Key C everyMember msgs = .pass key) : C.ecIsOnCurve key = true := by
  cases everyMember with
  | true =>
    rw [round1Key_eq] at h
    obtain ⟨hall, hs⟩ := (r1go_true_pass_iff C msgs.head? msgs none key).1 h
    rcases hs with hs | ⟨_, hne⟩
    · cases hs
    · cases msgs with
      | nil => exact absurd rfl hne
      | cons m rest => exact (onCurve_of_ecNew C (hall m (List.mem_cons_self ..))).1
  | false =>
    cases msgs with
    | nil => rw [round1Key_eq] at h; rw [r1go_nil] at h; cases h
    | cons m0 rest =>
      rw [round1Key_false_cons] at h
      cases h0 : C.ecNew m0.pub.1 m0.pub.2 with
      | none => rw [h0] at h; cases h
      | some k =>
        rw [h0] at h
        injection h with h
        subst h
        exact (onCurve_of_ecNew C h0).1

/-- … on the repaired tree every old member's announced key is that point -/
theorem rs_every_announced_key_on_curve (msgs : List OldMsg) (key : ECPoint)
    (h : round1Key C true msgs = .pass key) :
    ∀ m ∈ msgs, C.ecIsOnCurve m.pub = true ∧ m.pub = key := by
  rw [round1Key_eq] at h
  obtain ⟨hall, _⟩ := (r1go_true_pass_iff C msgs.head? msgs none key).1 h
  intro m hm
  obtain ⟨h1, h2⟩ := (C17L.ecNew_eq_some_iff C).1 (hall m hm)
  exact ⟨h1, h2.symm⟩

end resharing

end TssVerif.C17b
