import TssVerif.Props.C20
/-! # C20 (continued) — the full selection returns the saved columns unchanged; a subset of a subset is the subset

Property theorems only; corollaries of `Props/C20.lean` over the same executable `MiscL.subsetBy`
(the model of `BuildLocalSaveDataSubset`), under the same correspondence operations. -/
set_option autoImplicit false
namespace TssVerif.C20
open TssVerif TssVerif.MiscL

/-- **selecting every saved party, in saved order, changes nothing** -/
theorem subset_identity {α : Type} (keys : List Nat) (cols : List α)
    (hnd : keys.Nodup) (hlen : cols.length = keys.length) :
    subsetBy keys cols keys = some cols := by
  obtain ⟨r, hr, hl, hall⟩ := subset_reindex keys cols keys hnd hlen (fun _ h => h)
  rw [hr]
  congr 1
  apply List.ext_getElem (by omega)
  intro j h1 h2
  have := hall j j (by omega) (by omega) rfl
  rw [List.getElem?_eq_getElem h1, List.getElem?_eq_getElem h2] at this
  exact Option.some.inj this

/-- **repeated use**: re-indexing an already re-indexed save data for a smaller selection gives what
re-indexing the original for that selection gives (any orders) -/
theorem subset_of_subset {α : Type} (keys : List Nat) (cols : List α) (sel sel' : List Nat) (r : List α)
    (hnd : keys.Nodup) (hlen : cols.length = keys.length) (hnds : sel.Nodup)
    (hsub : ∀ s ∈ sel, s ∈ keys) (hsub' : ∀ s ∈ sel', s ∈ sel)
    (hr : subsetBy keys cols sel = some r) :
    subsetBy sel r sel' = subsetBy keys cols sel' := by
  obtain ⟨r1, hr1, hl1, hall1⟩ := subset_reindex keys cols sel hnd hlen hsub
  rw [hr] at hr1
  cases hr1
  obtain ⟨r2, hr2, hl2, hall2⟩ := subset_reindex sel r sel' hnds hl1 hsub'
  obtain ⟨r3, hr3, hl3, hall3⟩ := subset_reindex keys cols sel' hnd hlen (fun s hs => hsub s (hsub' s hs))
  rw [hr2, hr3]
  congr 1
  apply List.ext_getElem (by omega)
  intro j h1 h2
  have hj : j < sel'.length := by omega
  obtain ⟨idx, hidx, hk⟩ := List.getElem_of_mem (hsub' _ (List.getElem_mem hj))
  obtain ⟨idx', hidx', hk'⟩ := List.getElem_of_mem (hsub _ (List.getElem_mem hidx))
  have e1 := hall2 j idx hj hidx hk
  have e2 := hall1 idx idx' hidx hidx' hk'
  have e3 := hall3 j idx' hj hidx' (hk'.trans hk)
  have : r2[j]? = r3[j]? := by rw [e1, e2, e3]
  rw [List.getElem?_eq_getElem h1, List.getElem?_eq_getElem h2] at this
  exact Option.some.inj this

example : subsetBy [10, 20, 30] ["a", "b", "c"] [30, 10] = some ["c", "a"] ∧
    subsetBy [30, 10] ["c", "a"] [10] = subsetBy [10, 20, 30] ["a", "b", "c"] [10] := by decide

end TssVerif.C20
