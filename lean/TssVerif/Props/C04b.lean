import TssVerif.Core.Engine2
import TssVerif.Lemmas.Engine2
import TssVerif.Lemmas.Engine2Hist
import TssVerif.Lemmas.Engine2System
import TssVerif.Lemmas.Engine2Order
import TssVerif.Lemmas.Engine2Live
/-! # C04b — the hand-over discipline of resharing at the level of the round engine
(`tss/party.go` `BaseStart`/`BaseUpdate` driving `ecdsa/resharing`, `eddsa/resharing`)

"… no old share is erased, and no new member emits key material, until every new member has verified its shares
and acknowledged; if the run stops anywhere before that, every old member's key data is still intact."

Property theorems only; helper lemmas live in `TssVerif/Lemmas/Engine2*.lean` (namespace `TssVerif.E2L`).

Conventions. `Core/Engine2.lean` is the model of the two-committee engine (tied to the running code by the
harness after every delivery of whole resharing runs). `tbl : List RSpec` is *any* per-role round table;
`P.old` / `P.new` are the tables of the two roles of protocol `P`, `tblOf P c` is `P.new` for `c = true` and
`P.old` for `c = false`; `IsLib P` says `P` is `eddsaResharing` or `ecdsaResharing`.
One party is driven by events `Ev.start pre` (the local `Start`; `pre` is the library's "a message was stored
before `Start`" flag, arbitrary here) and `Ev.deliver m` (the transport hands over *any* message: early, duplicate,
wrong flag, unknown type, any sender index, before or after `Start`); `run tbl evs p` folds the events,
`hist evs` is the list of messages delivered, `Deliv ms ty j fl` = "a message of type `ty` from index `j` with
broadcast flag `fl` is among `ms`".
`finalAck P` is the last message type of `P` (`DGRound4Message` = 5 for EdDSA, `DGRound4Message2` = 7 for ECDSA): the
acknowledgement a new member broadcasts to both committees after it has verified its shares. The final round
(round 5) of an old member erases its share and signals `end`, that of a new member saves the new key data and
signals `end`; so `ended = 1` ⟺ "has erased" resp. "has saved" (`ended_iff_final_round`).
The closed system `Reach2 P nOld nNew strict s` (`Lemmas/Engine2System.lean`): `nOld` old-role and `nNew` new-role
parties; any member may be started at any time; the network may deliver to any member a message of a type that the
member `(c, j)` (committee `c`, index `j`) has in its emission log, with the flag the tables prescribe
(`flagOf2`), any number of times, in any order, also before the recipient's `Start`. `s.logOld i` / `s.logNew i`
are ghost fields recording what has been delivered to old / new member `i`. -/
set_option autoImplicit false
namespace TssVerif.C04b
open TssVerif TssVerif.Engine2 TssVerif.E2L

/-! ## 1. emissions -/

/-- **Each round's messages are sent exactly once, in table order; `end` once per final round started.**
After any sequence of events whatsoever the emission log is *exactly* the canonical log of the rounds started
(`emitsUpTo`: a `once` type once, a `perNew` type `nNew` times, a `perNewOther` type `nNew - 1` times per round)
and `ended` is the number of final rounds among them. -/
theorem emits_once_in_order2 (tbl : List RSpec) (nOld nNew : Nat) (isNew : Bool) (self : Nat) (evs : List Ev) :
    (run tbl evs (fresh nOld nNew isNew self)).rnd ≤ tbl.length ∧
    (run tbl evs (fresh nOld nNew isNew self)).out = emitsUpTo tbl nNew (run tbl evs (fresh nOld nNew isNew self)).rnd ∧
    (run tbl evs (fresh nOld nNew isNew self)).ended = endsUpTo tbl (run tbl evs (fresh nOld nNew isNew self)).rnd := by
  have h := canon_run (tbl := tbl) evs (canon_fresh tbl nOld nNew isNew self)
  rw [Canon, run_nNew] at h
  exact h

/-- **A round advances only when its requirements are met.** Whenever the update loop advances, every old index
`j < nOld` is marked ok or has every message the current round needs from old members stored with the required
flag (and the round does need something from them), and likewise every new index `j < nNew`. -/
theorem advance_requires2 (tbl : List RSpec) (p p' : Party) (hs : step tbl p = some p') :
    ∃ r, tbl[p.rnd - 1]? = some r ∧
      (∀ j, j < p.nOld → p.okOld j = true ∨ (r.final = false ∧ r.needsOld ≠ [] ∧ sat r.needsOld p.store j = true)) ∧
      (∀ j, j < p.nNew → p.okNew j = true ∨ (r.final = false ∧ r.needsNew ≠ [] ∧ sat r.needsNew p.store j = true)) ∧
      ((p'.rnd = p.rnd + 1 ∧ p'.done = false) ∨ (p'.rnd = p.rnd ∧ p'.done = true ∧ p.rnd = tbl.length)) :=
  advance_requires tbl p p' hs

/-! ## 2. the update loop runs to the fixpoint -/

/-- **After every `Update` the party is at the furthest round its store allows**: no further productive step is
possible and the scan of the current round is already recorded. -/
theorem update_fixpoint2 (tbl : List RSpec) (m : Msg) (p : Party) :
    step tbl (deliver tbl m p) = none ∧ rest tbl (deliver tbl m p) = deliver tbl m p :=
  settled_deliver tbl m p

/-- the same after a `Start` that found stored messages (`pre = true`) -/
theorem start_fixpoint2 (tbl : List RSpec) (p : Party) (h0 : p.rnd = 0) :
    step tbl (start tbl true p) = none ∧ rest tbl (start tbl true p) = start tbl true p :=
  settled_start_true (settled_of_not_started (Or.inl h0))

/-- a `Start` that found nothing stored (`pre = false`) scans once and does not run the loop: an old member of the
resharing protocols then sits in round 1 although it could advance (it does on the first delivery) -/
example : (step eddsaResharing.old (start eddsaResharing.old false (fresh 2 2 false 0))).isSome = true ∧
    (start eddsaResharing.old false (fresh 2 2 false 0)).rnd = 1 ∧
    (deliver eddsaResharing.old ⟨0, 0, ⟨true, 0⟩⟩ (start eddsaResharing.old false (fresh 2 2 false 0))).rnd = 2 := by decide

/-! ## 3. order and multiplicity of deliveries

`Good tbl self m`: `m` carries the flag every round of `tbl` that needs its type (from either committee) requires,
and it is not for a slot the party's own `Start` writes (own index *and* a type the party stores itself). -/

/-- **Local confluence**: two good messages for different slots may be delivered in either order, in any state. -/
theorem local_confluence2 (tbl : List RSpec) (a b : Msg) (p : Party)
    (ha : Good tbl p.self a) (hb : Good tbl p.self b) (hne : ¬ (a.ty = b.ty ∧ a.frm = b.frm)) :
    deliver tbl a (deliver tbl b p) = deliver tbl b (deliver tbl a p) :=
  deliver_comm tbl a b p ha hb hne

/-- **A duplicate delivery changes nothing.** -/
theorem duplicates_idempotent2 (tbl : List RSpec) (a : Msg) (p : Party) (ha : Good tbl p.self a) :
    deliver tbl a (deliver tbl a p) = deliver tbl a p :=
  deliver_dup tbl a p ha

/-- **Schedule independence**: any permutation of a slot-consistent list of good messages leads to the same state. -/
theorem schedule_independent2 (tbl : List RSpec) (ms ms' : List Msg) (p : Party) (hp : ms.Perm ms')
    (hg : GoodList tbl p.self ms) (hc : SlotConsistent ms) :
    delivers tbl ms p = delivers tbl ms' p :=
  delivers_perm tbl hp p hg hc

/-- **… up to duplicates**: the final state depends only on the *set* of messages delivered. -/
theorem schedule_independent_up_to_duplicates2 (tbl : List RSpec) (ms ms' : List Msg) (p : Party)
    (hset : ∀ m, m ∈ ms ↔ m ∈ ms') (hg : GoodList tbl p.self ms) (hc : SlotConsistent ms) :
    delivers tbl ms p = delivers tbl ms' p :=
  delivers_same_set tbl ms ms' p hset hg hc

/-- **Messages that arrive before `Start` are not lost**: delivering good messages to an un-started party and then
starting it (with the flag "something was stored" as the library computes it) gives the same state as starting it
first (nothing stored) and delivering afterwards. -/
theorem prestart_equals_poststart2 (tbl : List RSpec) (nOld nNew : Nat) (isNew : Bool) (self : Nat) (ms : List Msg)
    (hg : GoodList tbl self ms) :
    start tbl (!ms.isEmpty) (delivers tbl ms (fresh nOld nNew isNew self)) =
      delivers tbl ms (start tbl false (fresh nOld nNew isNew self)) :=
  start_delivers tbl ms (fresh nOld nNew isNew self) rfl hg

/-! ## 4. one party: the final round needs every new member's final acknowledgement -/

/-- `end` has been signalled once ⟺ the final round (round 5: erase resp. save) has been started; never twice -/
theorem ended_iff_final_round (P : Proto) (hP : IsLib P) (nOld nNew : Nat) (isNew : Bool) (self : Nat) (evs : List Ev) :
    let p := run (tblOf P isNew) evs (fresh nOld nNew isNew self)
    (p.ended = 1 ↔ p.rnd = 5) ∧ p.ended ≤ 1 := by
  have F := ackFacts_of_isLib hP
  have hc := canon_run (tbl := tblOf P isNew) evs (canon_fresh _ nOld nNew isNew self)
  refine ⟨?_, ended_le_one F isNew hc⟩
  cases isNew
  · exact ended_iff_rnd_old F hc
  · exact ended_iff_rnd_new F hc

/-- **An old member erases its share only after the final acknowledgement of EVERY new member has been delivered
to it**, with the broadcast flag — whatever else was delivered, in whatever order, before or after `Start`. -/
theorem old_final_needs_all_acks (P : Proto) (hP : IsLib P) (nOld nNew self : Nat) (evs : List Ev)
    (he : (run P.old evs (fresh nOld nNew false self)).ended = 1) :
    ∀ j, j < nNew → Deliv (hist evs) (finalAck P) j true := by
  intro j hj
  exact old_final_acks (ackFacts_of_isLib hP) (canon_run evs (canon_fresh _ _ _ _ _)) (hist_run P.old _ _ _ _ evs) he j
    (by rw [run_nNew]; exact hj)

/-- **A new member saves the new key only after the final acknowledgement of every OTHER new member has been
delivered to it** (its own acknowledgement sits in its own slot / its own flag is set by its round-4 `Start`). -/
theorem new_final_needs_all_acks (P : Proto) (hP : IsLib P) (nOld nNew self : Nat) (evs : List Ev)
    (he : (run P.new evs (fresh nOld nNew true self)).ended = 1) :
    ∀ j, j < nNew → j ≠ self → Deliv (hist evs) (finalAck P) j true := by
  intro j hj hne
  exact new_final_acks (ackFacts_of_isLib hP) (canon_run evs (canon_fresh _ _ _ _ _)) (hist_run P.new _ _ _ _ evs) he j
    (by rw [run_nNew]; exact hj) (by rw [run_self]; exact hne)

/-- … and it has emitted its own: the final acknowledgement is in the emission log from round 4 on -/
theorem new_final_has_acked (P : Proto) (hP : IsLib P) (nOld nNew self : Nat) (evs : List Ev) :
    finalAck P ∈ (run P.new evs (fresh nOld nNew true self)).out ↔ 4 ≤ (run P.new evs (fresh nOld nNew true self)).rnd :=
  ack_in_out_iff (ackFacts_of_isLib hP) (canon_run evs (canon_fresh _ _ _ _ _))

/-- **A new member acknowledges only after the share (point-to-point) and the de-commitment (broadcast) of every
old member have been delivered to it.** -/
theorem new_ack_needs_all_shares (P : Proto) (hP : IsLib P) (nOld nNew self : Nat) (evs : List Ev)
    (hack : finalAck P ∈ (run P.new evs (fresh nOld nNew true self)).out) :
    ∀ j, j < nOld → Deliv (hist evs) (shareTy P) j false ∧ Deliv (hist evs) (decomTy P) j true := by
  intro j hj
  have F := ackFacts_of_isLib hP
  have h4 := (ack_in_out_iff F (canon_run evs (canon_fresh _ _ _ _ _))).mp hack
  exact new_round4_shares F (hist_run P.new _ _ _ _ evs) h4 j (by rw [run_nOld]; exact hj)

/-! ## 5. the closed system: nothing is erased or saved before everybody has acknowledged -/

/-- **No old share is erased until every new member has verified its shares and acknowledged.** In every reachable
state, if some old member has started its final round (`ended = 1`: share erased), then EVERY new member has emitted
its final acknowledgement. -/
theorem erase_after_all_acks (P : Proto) (hP : IsLib P) (nOld nNew : Nat) (strict : Bool) (s : Sys2)
    (hr : Reach2 P nOld nNew strict s) (i : Nat) (he : (s.old i).ended = 1) :
    ∀ j, j < nNew → finalAck P ∈ (s.new j).out :=
  erase_after_all_acks_inv (ackFacts_of_isLib hP) (reach2_inv hr) he

/-- **No new member saves (emits) key material until every new member has acknowledged.** -/
theorem save_after_all_acks (P : Proto) (hP : IsLib P) (nOld nNew : Nat) (strict : Bool) (s : Sys2)
    (hr : Reach2 P nOld nNew strict s) (i : Nat) (he : (s.new i).ended = 1) :
    ∀ j, j < nNew → finalAck P ∈ (s.new j).out :=
  save_after_all_acks_inv (ackFacts_of_isLib hP) (reach2_inv hr) he

/-- **A new member acknowledges only after it has received — from every old member, who did send them — its share
and the de-commitment**: the acknowledgement is in its emission log only if it has started round 4, and then a
share message (point-to-point) and a de-commitment message (broadcast) from EVERY old index were delivered to it
before, and every old member has these types in its own emission log. -/
theorem ack_after_shares (P : Proto) (hP : IsLib P) (nOld nNew : Nat) (strict : Bool) (s : Sys2)
    (hr : Reach2 P nOld nNew strict s) (i : Nat) (hack : finalAck P ∈ (s.new i).out) :
    4 ≤ (s.new i).rnd ∧ ∀ j, j < nOld →
      Deliv (s.logNew i) (shareTy P) j false ∧ Deliv (s.logNew i) (decomTy P) j true ∧
      shareTy P ∈ (s.old j).out ∧ decomTy P ∈ (s.old j).out :=
  ack_after_shares_inv (ackFacts_of_isLib hP) (reach2_inv hr) hack

/-- **If the run stops anywhere before that, every old member's key data is still intact.** Every prefix of a run is
a reachable state: in every reachable state in which some new member has NOT yet emitted its final
acknowledgement, no old member has started its final round — nothing has been erased. -/
theorem cut_leaves_old_intact (P : Proto) (hP : IsLib P) (nOld nNew : Nat) (strict : Bool) (s : Sys2)
    (hr : Reach2 P nOld nNew strict s) (j : Nat) (hj : j < nNew) (hno : finalAck P ∉ (s.new j).out) :
    ∀ i, (s.old i).ended = 0 ∧ (s.old i).rnd < 5 := by
  intro i
  have F := ackFacts_of_isLib hP
  have hinv := reach2_inv hr
  have hc : Canon P.old (s.old i) := (hinv false i).canon
  have hle : (s.old i).ended ≤ 1 := ended_le_one F false hc
  have hne : (s.old i).ended ≠ 1 := fun he => hno (erase_after_all_acks_inv F hinv he j hj)
  refine ⟨by omega, ?_⟩
  have h5 : (s.old i).rnd ≠ 5 := fun h => hne ((ended_iff_rnd_old F hc).mpr h)
  have := hc.1
  rw [F.lenOld] at this
  omega

/-- … and in such a state no new member has saved key material either -/
theorem cut_no_key_material (P : Proto) (hP : IsLib P) (nOld nNew : Nat) (strict : Bool) (s : Sys2)
    (hr : Reach2 P nOld nNew strict s) (j : Nat) (hj : j < nNew) (hno : finalAck P ∉ (s.new j).out) :
    ∀ i, (s.new i).ended = 0 ∧ (s.new i).rnd < 5 := by
  intro i
  have F := ackFacts_of_isLib hP
  have hinv := reach2_inv hr
  have hc : Canon P.new (s.new i) := (hinv true i).canon
  have hle : (s.new i).ended ≤ 1 := ended_le_one F true hc
  have hne : (s.new i).ended ≠ 1 := fun he => hno (save_after_all_acks_inv F hinv he j hj)
  refine ⟨by omega, ?_⟩
  have h5 : (s.new i).rnd ≠ 5 := fun h => hne ((ended_iff_rnd_new F hc).mpr h)
  have := hc.1
  rw [F.lenNew] at this
  omega

/-! ## 6. no deadlock -/

/-- **No quiescent state short of the end.** Closed system of `nOld ≥ 1` old and `nNew ≥ 1` new members in which
`Start` runs the advance loop whenever a message was stored before it (`strict = true`, as the library does).
In every reachable state, if every member of both committees has been started and every emitted message has
reached every member (other than its sender) whose table needs its type, then every member of both committees has
started the final round and has signalled `end` exactly once. -/
theorem no_deadlock2 (P : Proto) (hP : IsLib P) (nOld nNew : Nat) (hO : 0 < nOld) (hN : 0 < nNew) (s : Sys2)
    (hreach : Reach2 P nOld nNew true s) (hst : AllStarted nOld nNew s) (hq : Quiescent2 P nOld nNew s) :
    (∀ i, i < nOld → (s.old i).rnd = 5 ∧ (s.old i).ended = 1) ∧
    (∀ i, i < nNew → (s.new i).rnd = 5 ∧ (s.new i).ended = 1) := by
  have F := liveFacts_of_isLib hP
  have h := no_deadlock2_gen F hO hN hreach hst hq
  have h5 : P.old.length = 5 := (ackFacts_of_isLib hP).lenOld
  rw [h5] at h
  exact ⟨fun i hi => h false i hi, fun i hi => h true i hi⟩

/-- the same for any protocol whose tables meet `LiveFacts` (one final round in last position in both tables, equal
lengths, every non-preset requirement supplied by the committee it is on in the same round or earlier, channel
discipline, and the two wake-up conditions) -/
theorem no_deadlock2_any (P : Proto) (F : LiveFacts P) (nOld nNew : Nat) (hO : 0 < nOld) (hN : 0 < nNew) (s : Sys2)
    (hreach : Reach2 P nOld nNew true s) (hst : AllStarted nOld nNew s) (hq : Quiescent2 P nOld nNew s) :
    ∀ c i, i < csize nOld nNew c → (s.party c i).rnd = P.old.length ∧ (s.party c i).ended = 1 :=
  no_deadlock2_gen F hO hN hreach hst hq

/-! ## 7. the hypotheses are satisfiable, the statements bite -/

example : finalAck eddsaResharing = 5 ∧ typeName eddsaResharing 5 = "DGRound4Message" ∧
    finalAck ecdsaResharing = 7 ∧ typeName ecdsaResharing 7 = "DGRound4Message2" := by decide
example : shareTy eddsaResharing = 3 ∧ decomTy eddsaResharing = 4 ∧ shareTy ecdsaResharing = 4 ∧
    decomTy ecdsaResharing = 5 := by decide
/-- the flags the tables prescribe: only the shares (and the ECDSA `DGRound4Message1`) are point-to-point -/
example : (List.range 6).map (flagOf2 eddsaResharing) = [true, true, true, false, true, true] ∧
    (List.range 8).map (flagOf2 ecdsaResharing) = [true, true, true, true, false, true, false, true] := by decide

/-- both library protocols have the table facts the proofs use -/
example : ∀ P, IsLib P → AckFacts P ∧ LiveFacts P := fun _ h => ⟨ackFacts_of_isLib h, liveFacts_of_isLib h⟩

def bc (ty j : Nat) : Msg := ⟨ty, j, ⟨true, 0⟩⟩
def pp (ty j : Nat) : Msg := ⟨ty, j, ⟨false, 0⟩⟩

/-- an old member of a 2+2 EdDSA resharing: a complete honest run … -/
example :
    let p := run eddsaResharing.old
      [.start false, .deliver (bc 2 0), .deliver (bc 2 1), .deliver (bc 5 0), .deliver (bc 5 1)] (fresh 2 2 false 0)
    p.rnd = 5 ∧ p.ended = 1 ∧ p.done = true ∧ p.out = [1, 3, 3, 4] := by decide
/-- … one acknowledgement missing, or on the wrong channel kind: round 4, nothing erased -/
example :
    let p := run eddsaResharing.old [.start false, .deliver (bc 2 0), .deliver (bc 2 1), .deliver (bc 5 0)] (fresh 2 2 false 0)
    p.rnd = 4 ∧ p.ended = 0 ∧ waitingFor p = ["n1"] := by decide
example :
    let p := run eddsaResharing.old
      [.start false, .deliver (bc 2 0), .deliver (bc 2 1), .deliver (bc 5 0), .deliver (pp 5 1)] (fresh 2 2 false 0)
    p.rnd = 4 ∧ p.ended = 0 ∧ waitingFor p = ["n1"] := by decide
/-- a wrong-flag copy may overwrite the slot after the flag was set: the store at the end need not hold the
acknowledgement any more, the history does (this is why `old_final_needs_all_acks` speaks about `hist`) -/
example :
    let p := run eddsaResharing.old
      [.start false, .deliver (bc 2 0), .deliver (bc 2 1), .deliver (bc 5 0), .deliver (pp 5 0), .deliver (bc 5 1)]
      (fresh 2 2 false 0)
    p.ended = 1 ∧ p.store 5 0 = some ⟨false, 0⟩ := by decide
/-- a new member (ECDSA, 2+2): everything early and before `Start`, in a scrambled order -/
example :
    let p := run ecdsaResharing.new
      [.deliver (bc 7 1), .deliver (pp 6 1), .deliver (bc 5 0), .deliver (pp 4 1), .deliver (bc 2 1), .deliver (bc 1 1),
       .deliver (bc 5 1), .deliver (pp 4 0), .deliver (bc 1 0), .start true] (fresh 2 2 true 0)
    p.rnd = 5 ∧ p.ended = 1 ∧ p.out = [3, 2, 6, 7] := by decide
example : emitsUpTo ecdsaResharing.new 3 5 = [3, 2, 6, 6, 7] ∧ emitsUpTo eddsaResharing.old 3 5 = [1, 3, 3, 3, 4] ∧
    endsUpTo eddsaResharing.old 5 = 1 ∧ endsUpTo eddsaResharing.old 4 = 0 := by decide

/-- genuine messages are `Good` -/
example : GoodList eddsaResharing.new 0 [bc 1 0, bc 1 1, pp 3 0, bc 4 0, bc 5 1] := by
  unfold GoodList Good; decide
/-- … a member's own acknowledgement coming back is not (`Start` writes that slot) -/
example : ¬ Good eddsaResharing.new 0 (bc 5 0) := by
  unfold Good; decide

/-- all deliveries of type `ty` from every member of committee `c` to every member of the new (`toNew`) or old committee
(2+2 members) -/
def allTo (toNew c : Bool) (ty : Nat) : List Act :=
  [0, 1].flatMap fun j => [0, 1].map fun i => if toNew then Act.toNew i c j ty 0 else Act.toOld i c j ty 0

/-- a complete honest schedule of a 2+2 resharing -/
def honest (P : Proto) : List Act :=
  [.startOld 0 false, .startOld 1 false, .startNew 0 false, .startNew 1 false] ++
  (if P.types.length = 5 then
    allTo true false 1 ++ allTo false true 2 ++ allTo true false 3 ++ allTo true false 4 ++ allTo false true 5 ++
    allTo true true 5
  else
    allTo true false 1 ++ allTo true true 2 ++ allTo false true 3 ++ allTo true false 4 ++ allTo true false 5 ++
    allTo true true 6 ++ allTo false true 7 ++ allTo true true 7)

/-- the state an honest run ends in is reachable, everybody has started, it is quiescent — and everybody has ended
(so `no_deadlock2`, `erase_after_all_acks`, `save_after_all_acks` are not vacuous) -/
example : Reach2 eddsaResharing 2 2 true (exec eddsaResharing 2 2 true (honest eddsaResharing)) := reach2_exec _ _ _ _ _
set_option maxRecDepth 100000 in
example : AllStarted 2 2 (exec eddsaResharing 2 2 true (honest eddsaResharing)) ∧
    Quiescent2 eddsaResharing 2 2 (exec eddsaResharing 2 2 true (honest eddsaResharing)) :=
  ⟨allStartedB_spec (by decide), quiescentB_spec (by decide)⟩
set_option maxRecDepth 100000 in
example : let s := exec eddsaResharing 2 2 true (honest eddsaResharing)
    (s.old 0).ended = 1 ∧ (s.old 1).ended = 1 ∧ (s.new 0).ended = 1 ∧ (s.new 1).ended = 1 ∧
    5 ∈ (s.new 0).out ∧ 5 ∈ (s.new 1).out := by decide
set_option maxRecDepth 100000 in
example : AllStarted 2 2 (exec ecdsaResharing 2 2 true (honest ecdsaResharing)) ∧
    Quiescent2 ecdsaResharing 2 2 (exec ecdsaResharing 2 2 true (honest ecdsaResharing)) :=
  ⟨allStartedB_spec (by decide), quiescentB_spec (by decide)⟩
set_option maxRecDepth 100000 in
example : let s := exec ecdsaResharing 2 2 true (honest ecdsaResharing)
    (s.old 0).ended = 1 ∧ (s.old 1).ended = 1 ∧ (s.new 0).ended = 1 ∧ (s.new 1).ended = 1 ∧
    7 ∈ (s.new 0).out ∧ 7 ∈ (s.new 1).out := by decide

/-- a cut: the run stops after new member 0 has acknowledged to everybody and before new member 1 has received its
shares from old member 1 — new member 1 has not acknowledged, and (as `cut_leaves_old_intact` says) no old member
has erased, although old member 0 already holds the acknowledgement of new member 0 -/
def cutRun : List Act :=
  [.startOld 0 false, .startOld 1 false, .startNew 0 false, .startNew 1 false] ++
  allTo true false 1 ++ allTo false true 2 ++
  [.toNew 0 false 0 3 0, .toNew 0 false 0 4 0, .toNew 0 false 1 3 0, .toNew 0 false 1 4 0,
   .toNew 1 false 0 3 0, .toNew 1 false 0 4 0,
   .toOld 0 true 0 5 0, .toOld 1 true 0 5 0, .toNew 1 true 0 5 0]

set_option maxRecDepth 100000 in
example : let s := exec eddsaResharing 2 2 true cutRun
    5 ∈ (s.new 0).out ∧ 5 ∉ (s.new 1).out ∧ (s.new 1).rnd = 3 ∧
    (s.old 0).rnd = 4 ∧ (s.old 0).ended = 0 ∧ (s.old 1).ended = 0 ∧ (s.new 0).ended = 0 ∧
    ((s.old 0).store 5 0).isSome = true ∧ waitingFor (s.old 0) = ["n1"] := by decide

/- The executable model's string-level trace of the old-member run above (`runTrace` parses strings with
well-founded `String` functions the kernel does not evaluate, so `decide` does not apply; the `run`/`exec` examples
above evaluate the same model functions without the string layer):
`#eval runTrace eddsaResharing false 2 2 0 ["S", "D:DGRound2Message:0:b", "D:DGRound2Message:1:b", "D:DGRound4Message:0:b", "D:DGRound4Message:1:b"]`
gives `some ["1//DGRound1Message/0", "2/n1//0", "4/n0,n1/DGRound3Message1,DGRound3Message1,DGRound3Message2/0", "4/n1//0", "done///1"]`. -/

end TssVerif.C04b
