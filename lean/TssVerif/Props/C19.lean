import TssVerif.Lemmas.MiscPrimes
import TssVerif.Lemmas.MiscShape
import TssVerif.Props.C14
import Mathlib.Tactic.NormNum.Prime
/-! # C19 — generated primes and pre-parameters have the structure the proofs assume

Model: `TssVerif/Core/Primes.lean` (`common/safe_prime.go`, `common/random.go`, `ecdsa/keygen/prepare.go`).

* `candidate_shape` — the byte masking of the generator: odd `q` of exactly `pBitLen − 1` bits with its two top
  bits set, hence `p = 2q+1` has exactly `pBitLen` bits, two top bits set, and `p ≡ 3 (mod 4)`;
* `pocklington_2q1`, `pocklington_code`, `emitted_pair_validates`, `emitted_pair_pocklington` — what an emitted
  pair has passed, and why the Pocklington test with witness 2 proves `p` prime once `q` is;
* `sampler_*` / `sampler_ranges` — range and coprimality contracts of the samplers, for every bound and every
  candidate stream, with the exact liveness condition (`*_returns_iff`) and the `n = 1` dead loop;
* `preparams_algebra`, `preparams_h2_square`, `ntilde_bits` — `h2 = h1^alpha`, `h1 = h2^beta`, `alpha·beta ≡ 1 (mod pq)`,
  both are squares, `Ñ` has exactly `2k` bits. -/
set_option autoImplicit false
namespace TssVerif.C19
open TssVerif TssVerif.Primes TssVerif.MiscL
open scoped NumberTheorySymbols

/-! ## the candidate -/

/-- **shape of the candidate** for every requested length `pBitLen ≥ 6` (the generator's minimum) and every
random byte string of the length the generator reads -/
theorem candidate_shape (pBitLen : Nat) (bytes : List UInt8) (hp : 6 ≤ pBitLen)
    (hlen : bytes.length = (pBitLen - 1 + 7) / 8) :
    shapeCandidate pBitLen bytes % 2 = 1 ∧
    bitLen (shapeCandidate pBitLen bytes) = pBitLen - 1 ∧
    3 * 2 ^ (pBitLen - 3) ≤ shapeCandidate pBitLen bytes ∧
    shapeCandidate pBitLen bytes < 2 ^ (pBitLen - 1) ∧
    bitLen (safePrimeOf (shapeCandidate pBitLen bytes)) = pBitLen ∧
    3 * 2 ^ (pBitLen - 2) ≤ safePrimeOf (shapeCandidate pBitLen bytes) ∧
    safePrimeOf (shapeCandidate pBitLen bytes) < 2 ^ pBitLen ∧
    safePrimeOf (shapeCandidate pBitLen bytes) % 4 = 3 := by
  obtain ⟨qB, rfl⟩ : ∃ qB, pBitLen = qB + 1 := ⟨pBitLen - 1, by omega⟩
  simp only [Nat.add_sub_cancel] at hlen ⊢
  cases bytes with
  | nil => simp only [List.length_nil] at hlen; omega
  | cons b0 rest =>
    simp only [List.length_cons] at hlen
    obtain ⟨h1, h2, h3⟩ := shape_core qB b0 rest (by omega) hlen
    obtain ⟨g1, g2, g3⟩ := safePrime_shape (k := qB) (by omega) h2 h3
    rw [show qB + 1 - 3 = qB - 2 by omega, show qB + 1 - 2 = qB - 1 by omega]
    rw [show qB + 1 - 2 = qB - 1 by omega] at g1
    refine ⟨h1, bitLen_of_top_bits (by omega) h2 h3, h2, h3, g3, g1, g2, ?_⟩
    unfold safePrimeOf
    omega

/-! ## primality of the emitted pair -/

/-- **Pocklington's criterion for `p = 2q+1`, witness 2.** Stronger than the usual statement: the side
condition `3 ∤ p` (i.e. `gcd(2² − 1, p) = 1`) is not needed, a factor 3 is excluded by the order of 2 modulo 9. -/
theorem pocklington_2q1 {q p : Nat} (hq : q.Prime) (hp : p = 2 * q + 1)
    (hpow : 2 ^ (p - 1) % p = 1) : p.Prime :=
  MiscL.pocklington_2q1 hq hp hpow

/-- primality of `q` IS needed: `q = 170`, `p = 341 = 11 · 31` passes the congruence -/
example : 2 ^ (341 - 1) % 341 = 1 ∧ 341 = 2 * 170 + 1 ∧ ¬ Nat.Prime 341 := by
  refine ⟨by decide +kernel, rfl, by norm_num⟩

/-- the code's `isPocklingtonCriterionSatisfied` is exactly that congruence -/
theorem pocklington_code (p : Nat) : pocklington p = true ↔ 2 ^ (p - 1) % p = 1 :=
  pocklington_iff p

/-- the conjunction an emitted pair has passed, unfolded -/
theorem emitted_pair_checks (prime : Nat → Bool) (qBitLen q p : Nat) :
    emittedPairOk prime qBitLen q p = true ↔
      prime q = true ∧ 2 ^ (p - 1) % p = 1 ∧ bitLen q = qBitLen ∧ p = 2 * q + 1 ∧ prime p = true :=
  emittedPairOk_iff prime qBitLen q p

/-- with a sound primality test both members are prime, `p = 2q+1`, `q` has exactly the requested length -/
theorem emitted_pair_validates (prime : Nat → Bool) (hsound : ∀ n, prime n = true → Nat.Prime n)
    (qBitLen q p : Nat) (h : emittedPairOk prime qBitLen q p = true) :
    p = 2 * q + 1 ∧ bitLen q = qBitLen ∧ Nat.Prime q ∧ Nat.Prime p := by
  obtain ⟨h1, _, h3, h4, h5⟩ := (emittedPairOk_iff prime qBitLen q p).1 h
  exact ⟨h4, h3, hsound q h1, hsound p h5⟩

/-- the test only has to be trusted on `q`: the Pocklington check then PROVES `p` prime -/
theorem emitted_pair_pocklington (prime : Nat → Bool) (qBitLen q p : Nat)
    (h : emittedPairOk prime qBitLen q p = true) (hq : Nat.Prime q) :
    p = 2 * q + 1 ∧ bitLen q = qBitLen ∧ Nat.Prime p := by
  obtain ⟨_, h2, h3', h4, _⟩ := (emittedPairOk_iff prime qBitLen q p).1 h
  exact ⟨h4, h3', MiscL.pocklington_2q1 hq h4 h2⟩

/-! ## samplers -/

theorem sampler_mustGetRandomInt {bits raw v : Nat} (h : mustGetRandomInt bits raw = some v) :
    v < 2 ^ bits - 1 ∧ v = raw % 2 ^ bits :=
  ⟨(mustGetRandomInt_some h).2, (mustGetRandomInt_some h).1⟩

theorem sampler_positive {b : Nat} {cs : List Nat} {v : Nat} (h : getRandomPositiveInt b cs = some v) :
    v < b :=
  (getRandomPositiveInt_some h).1

theorem sampler_relprime {n : Nat} {cs : List Nat} {v : Nat} (h : getRandomRelPrime n cs = some v) :
    1 ≤ v ∧ v < n ∧ Nat.gcd v n = 1 :=
  ⟨(getRandomRelPrime_some h).1, (getRandomRelPrime_some h).2.1, (getRandomRelPrime_some h).2.2.1⟩

theorem sampler_qnr {n : Nat} {cs : List Nat} {w : Nat} (h : getRandomQNR n cs = .ok (some w)) :
    n % 2 = 1 ∧ w < n ∧ J((w : Int) | n) = -1 :=
  ⟨(getRandomQNR_some h).1, (getRandomQNR_some h).2.1, (getRandomQNR_some h).2.2.1⟩

/-- **all range contracts at once**, for every bound and every candidate stream -/
theorem sampler_ranges (bound n bits raw : Nat) (cs : List Nat) :
    (∀ v, mustGetRandomInt bits raw = some v → v < 2 ^ bits - 1) ∧
    (∀ v, getRandomPositiveInt bound cs = some v → v < bound) ∧
    (∀ v, getRandomRelPrime n cs = some v → 1 ≤ v ∧ v < n ∧ Nat.gcd v n = 1) ∧
    (∀ w, getRandomQNR n cs = .ok (some w) → w < n ∧ J((w : Int) | n) = -1) :=
  ⟨fun _ h => (sampler_mustGetRandomInt h).1, fun _ h => sampler_positive h,
    fun _ h => sampler_relprime h, fun _ h => (sampler_qnr h).2⟩

/-- every returned value is one of the offered candidates, masked to the bit length of the bound -/
theorem sampler_from_stream (bound n : Nat) (cs : List Nat) :
    (∀ v, getRandomPositiveInt bound cs = some v → ∃ raw ∈ cs, v = raw % 2 ^ bitLen bound) ∧
    (∀ v, getRandomRelPrime n cs = some v → ∃ raw ∈ cs, v = raw % 2 ^ bitLen n) ∧
    (∀ w, getRandomQNR n cs = .ok (some w) → ∃ raw ∈ cs, w = raw % 2 ^ bitLen n) :=
  ⟨fun _ h => (getRandomPositiveInt_some h).2, fun _ h => (getRandomRelPrime_some h).2.2.2,
    fun _ h => (getRandomQNR_some h).2.2.2⟩

/-- liveness, exactly: the samplers answer iff the stream contains a qualifying candidate -/
theorem sampler_positive_returns_iff (b : Nat) (cs : List Nat) :
    (getRandomPositiveInt b cs).isSome ↔
      ∃ raw ∈ cs, raw % 2 ^ bitLen b < 2 ^ bitLen b - 1 ∧ raw % 2 ^ bitLen b < b :=
  getRandomPositiveInt_isSome_iff b cs

theorem sampler_relprime_returns_iff (n : Nat) (cs : List Nat) :
    (getRandomRelPrime n cs).isSome ↔
      ∃ raw ∈ cs, raw % 2 ^ bitLen n < 2 ^ bitLen n - 1 ∧ 1 ≤ raw % 2 ^ bitLen n ∧
        raw % 2 ^ bitLen n < n ∧ Nat.gcd (raw % 2 ^ bitLen n) n = 1 :=
  getRandomRelPrime_isSome_iff n cs

/-- **the Go loop never ends for `n = 1`** (and for `n = 0`): no stream makes the sampler return -/
theorem relprime_one_never_returns (cs : List Nat) :
    getRandomRelPrime 1 cs = none ∧ getRandomRelPrime 0 cs = none :=
  ⟨getRandomRelPrime_one cs, rfl⟩

/-- by contrast `GetRandomPositiveInt` with bound 1 does return: `MustGetRandomInt(1)` draws below
`2^1 − 1 = 1`, so the only value it can return is 0 -/
theorem positive_one_returns_zero (cs : List Nat) (v : Nat) (h : getRandomPositiveInt 1 cs = some v) :
    v = 0 := by
  have := sampler_positive h
  omega

/-- the quadratic-non-residue sampler panics exactly on a positive even modulus -/
theorem qnr_panics_iff (n : Nat) (cs : List Nat) :
    (∃ e, getRandomQNR n cs = .panic e) ↔ n ≠ 0 ∧ n % 2 = 0 :=
  getRandomQNR_panic_iff n cs

/-! ## pre-parameters -/

/-- **`h1`, `h2`, `alpha`, `beta`**: for safe primes `P = 2p+1 ≠ Q = 2q+1`, `f1` a unit modulo `Ñ = PQ` and
`alpha` a unit modulo `pq`. (Primality of `p`, `q` themselves is not needed for these relations.) -/
theorem preparams_algebra {P Q p q f1 alpha : Nat} (hP : P.Prime) (hQ : Q.Prime)
    (hPp : P = 2 * p + 1) (hQq : Q = 2 * q + 1) (hpq : p ≠ q)
    (hf : Nat.Coprime f1 (P * Q)) (ha : Nat.gcd alpha (p * q) = 1) :
    (preParams p q f1 alpha).ntilde = P * Q ∧
    (preParams p q f1 alpha).h1 = f1 ^ 2 % (P * Q) ∧
    (preParams p q f1 alpha).h2 = (preParams p q f1 alpha).h1 ^ alpha % (P * Q) ∧
    ∃ b, (preParams p q f1 alpha).beta = some b ∧ b < p * q ∧ alpha * b ≡ 1 [MOD p * q] ∧
      (preParams p q f1 alpha).h1 = (preParams p q f1 alpha).h2 ^ b % (P * Q) :=
  preParams_algebra hP hQ hPp hQq hpq hf ha

/-- `h2` is a square too -/
theorem preparams_h2_square (p q f1 alpha : Nat) :
    (preParams p q f1 alpha).h2 = (f1 ^ alpha) ^ 2 % (preParams p q f1 alpha).ntilde :=
  preParams_h2_square p q f1 alpha

/-- without a unit `alpha` there is no `beta`: Go's `ModInverse` returns nil -/
theorem preparams_beta_none_iff (p q f1 alpha : Nat) :
    (preParams p q f1 alpha).beta = none ↔ p * q = 0 ∨ Nat.gcd alpha (p * q) ≠ 1 := by
  show modInverse (alpha : Int) (p * q) = none ↔ _
  rw [modInverse_eq_none_iff, Int.gcd_natCast_natCast]

/-- two `k`-bit factors with their two top bits set give a modulus of exactly `2k` bits -/
theorem ntilde_bits {P Q k : Nat} (hk : 2 ≤ k) (hPlo : 3 * 2 ^ (k - 2) ≤ P) (hPhi : P < 2 ^ k)
    (hQlo : 3 * 2 ^ (k - 2) ≤ Q) (hQhi : Q < 2 ^ k) : bitLen (P * Q) = 2 * k :=
  (C14.keygen_shape hk hPlo hPhi hQlo hQhi).2.2.2.2.1

/-- the production size -/
theorem ntilde_bits_2048 {P Q : Nat} (hPlo : 3 * 2 ^ 1022 ≤ P) (hPhi : P < 2 ^ 1024)
    (hQlo : 3 * 2 ^ 1022 ≤ Q) (hQhi : Q < 2 ^ 1024) : bitLen (P * Q) = 2048 := by
  have h := ntilde_bits (P := P) (Q := Q) (k := 1024) (by omega)
  simp only [Nat.reduceSub, Nat.reduceMul] at h
  exact h hPlo hPhi hQlo hQhi

/-- end to end: whatever bytes the generator reads, the product of two emitted `p` has exactly `2·pBitLen` bits -/
theorem ntilde_bits_of_candidates (pBitLen : Nat) (bytes1 bytes2 : List UInt8) (hp : 6 ≤ pBitLen)
    (h1 : bytes1.length = (pBitLen - 1 + 7) / 8) (h2 : bytes2.length = (pBitLen - 1 + 7) / 8) :
    bitLen (safePrimeOf (shapeCandidate pBitLen bytes1) * safePrimeOf (shapeCandidate pBitLen bytes2)) =
      2 * pBitLen := by
  obtain ⟨_, _, _, _, _, a1, a2, _⟩ := candidate_shape pBitLen bytes1 hp h1
  obtain ⟨_, _, _, _, _, b1, b2, _⟩ := candidate_shape pBitLen bytes2 hp h2
  exact ntilde_bits (by omega) a1 a2 b1 b2

/-! ## the hypotheses are satisfiable; concrete evaluations -/

section examples

/-- minimum size, all-zero and all-one entropy: `q = 25, p = 51` and `q = 31, p = 63` (6 bits, top bits set) -/
example : shapeCandidate 6 [0x00] = 25 ∧ shapeCandidate 6 [0xff] = 31 := by decide
/-- `qBitLen = 9`: one bit in the first byte, the second top bit goes to the next byte -/
example : shapeCandidate 10 [0x00, 0x00] = 0x181 ∧ shapeCandidate 10 [0xfe, 0x7e] = 0x1ff := by decide
example : shapeCandidate 17 [0x12, 0x34] = 0xd235 := by decide

example : pocklington 23 = true ∧ pocklington 15 = false := by
  constructor
  · rw [pocklington_code]; norm_num
  · rw [Bool.eq_false_iff, Ne, pocklington_code]; norm_num

/-- `q = 11`, `p = 23` passes everything (with trial division as the sound test) -/
example : Nat.Prime 23 :=
  pocklington_2q1 (q := 11) (by norm_num) rfl (by norm_num)

/-- a safe-prime toy instance of `preparams_algebra`: `P = 23`, `Q = 47`, `p = 11`, `q = 23`, `f1 = 2`, `alpha = 3` -/
example : ∃ b, (preParams 11 23 2 3).beta = some b ∧ 3 * b ≡ 1 [MOD 11 * 23] ∧
    (preParams 11 23 2 3).h1 = (preParams 11 23 2 3).h2 ^ b % (23 * 47) := by
  obtain ⟨-, -, -, b, hb, -, hinv, hh⟩ := preparams_algebra (P := 23) (Q := 47) (p := 11) (q := 23)
    (f1 := 2) (alpha := 3) (by norm_num) (by norm_num) rfl rfl (by decide) (by decide) (by decide)
  exact ⟨b, hb, hinv, hh⟩

example : getRandomRelPrime 15 [0, 3, 5, 15, 7, 2] = some 7 := by decide
example : getRandomPositiveInt 10 [15, 12, 9, 3] = some 9 := by decide
example : getRandomRelPrime 1 [0, 1, 2, 3] = none := (relprime_one_never_returns _).1

end examples

end TssVerif.C19
