import TssVerif.Props.C13
/-! # C13 (continued) — both additive shares are reduced scalars; the no-wrap hypothesis is needed

Property theorems only, about the same expressions as `C13.mta_arith`. -/
set_option autoImplicit false
namespace TssVerif.C13
open TssVerif

/-- **both MtA shares are reduced**: Alice's `(a b + β') mod n mod q` and Bob's `(0 − β') mod q` lie in `[0, q)` -/
theorem mta_shares_reduced {q n a b betaPrm : Nat} (hq : 0 < q) :
    (a * b + betaPrm) % n % q < q ∧ (((0 : Int) - (betaPrm : Int)) % (q : Int)).toNat < q := by
  refine ⟨Nat.mod_lt _ hq, ?_⟩
  have h1 : (0 : Int) < (q : Int) := by exact_mod_cast hq
  have h2 := Int.emod_lt_of_pos ((0 : Int) - (betaPrm : Int)) h1
  have h3 := Int.emod_nonneg ((0 : Int) - (betaPrm : Int)) (Int.ne_of_gt h1)
  omega

/-- **the no-wrap hypothesis of `mta_arith` cannot be dropped**: with `n = 7`, `q = 5`, `a = 3`, `b = 4`,
`β' = 2` the plaintext wraps modulo `n` and the shares sum to `3`, not to `a b mod q = 2` (why the range
proofs that bound `a`, `b`, `β'` matter) -/
theorem mta_wrap_breaks_witness :
    ((3 * 4 + 2) % 7 % 5 + (((0 : Int) - ((2 : Nat) : Int)) % ((5 : Nat) : Int)).toNat) % 5 = 3 ∧ 3 * 4 % 5 = 2 := by
  decide

end TssVerif.C13
