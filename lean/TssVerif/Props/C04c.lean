import TssVerif.Lemmas.C04Rs
import TssVerif.Props.C05
/-! # C04c — what a new committee member of EdDSA resharing has checked when it acknowledges

The objects are the executable model `Core/BlameRs.lean` of the new-committee side of EdDSA resharing
(`eddsa/resharing/round_1_old_step_1.go` `Update`, `round_4_new_step_2.go` `Start`): `round1Key` (which group
key the member will check against), `checkOld` (the per-old-member checks of round 4), `sumColumns`, `round4`,
`newMember` (both rounds).

Everything holds for every hash function `H`, every curve record `C` (with `C.Lawful` where the group is used),
every list of messages, every threshold and every integer.

* K1–K3, round 1. `everyMember = true` (the repaired tree): a key is accepted only if EVERY old member announced
  it (`key_agreed_by_every_old_member`, `key_agreed_iff`); a disagreement is an error naming nobody, and the only
  names a round-1 error can carry are senders of a key that does not decode (`key_mismatch_names_nobody`,
  `key_failure_cases`). `everyMember = false` (the tree before the repair): the first old member's announcement
  alone decides, whatever the others say (`old_tree_first_member_decides`,
  `old_tree_accepts_disagreement_witness`).
* R1, `ack_implies_every_check` (+ `round4_ack_iff`, `check_old_pass_iff`): an acknowledgement means every old
  member's de-commitment opened to `2(t'+1)` coordinates of curve points, cleared of the cofactor, against which
  its share verified; the new share is the plain sum; the column sums exist and start with the agreed key.
* R2, `failure_culprits` (+ `failure_iff`, `new_member_failure_names`, `single_deviator_old_member`,
  `single_deviator_old_member_blamed`): who is named.
* R3, `altered_share_blamed`, `altered_decommitment_blamed` (+ `new_member_of_key` to lift them to `newMember`).
* R4, `ack_share_consistent` (+ `ack_each_share_on_committed_polynomial`, `ack_share_on_summed_polynomial`).
* R5, `newMember_returns`, `newMember_no_panic`.

Hypotheses that recur in R5 (as in `Props/C05.lean`): `hcof` — on a curve whose identity has no affine form every
point is killed by `q`; `hnz` — on such a curve the two cofactor-clearing scalars are prime to `q` (both vacuous
on edwards25519); `m.decommitment ≠ []` — guaranteed by `ValidateBasic` in Go. -/
set_option autoImplicit false
namespace TssVerif.C04c
open TssVerif BlameRs Blame C04RsL

variable {P : Type} {C : Curve P}

/-! ## K. round 1: which group key -/
section key

/-- **K1. the key is agreed by every old member** (repaired tree): if round 1 fixes `key`, there is at least one
old member and every old member's own announcement decodes to `key` -/
theorem key_agreed_by_every_old_member (msgs : List OldMsg) (key : ECPoint)
    (h : round1Key C true msgs = .pass key) :
    (∀ m ∈ msgs, C.ecNew m.pub.1 m.pub.2 = some key) ∧ msgs ≠ [] := by
  rw [round1Key_eq] at h
  obtain ⟨h1, h2⟩ := (r1go_true_pass_iff C msgs.head? msgs none key).1 h
  refine ⟨h1, ?_⟩
  rcases h2 with h2 | ⟨_, h2⟩
  · cases h2
  · exact h2

/-- … and conversely: exact acceptance condition of round 1 on the repaired tree -/
theorem key_agreed_iff (msgs : List OldMsg) (key : ECPoint) :
    round1Key C true msgs = .pass key ↔ msgs ≠ [] ∧ ∀ m ∈ msgs, C.ecNew m.pub.1 m.pub.2 = some key := by
  rw [round1Key_eq, r1go_true_pass_iff]
  constructor
  · rintro ⟨h1, h2 | ⟨_, h2⟩⟩
    · cases h2
    · exact ⟨h2, h1⟩
  · rintro ⟨h1, h2⟩
    exact ⟨h2, Or.inr ⟨rfl, h1⟩⟩

/-- **every way round 1 fails on the repaired tree**: no message; a disagreement — the messages before `m`
agree on a valid key `k`, `m` announces another valid key, NOBODY is named; or the key of `m` does not decode
(all earlier keys do) and `m`'s sender is named -/
theorem key_failure_cases (msgs : List OldMsg) (why : String) (cs : List Nat)
    (h : round1Key C true msgs = .fail why cs) :
    (why = "no old member" ∧ cs = [] ∧ msgs = []) ∨
    (why = "eddsa pub key did not match what we received previously" ∧ cs = [] ∧
      ∃ pre m post k k', msgs = pre ++ m :: post ∧ pre ≠ [] ∧
        (∀ p ∈ pre, C.ecNew p.pub.1 p.pub.2 = some k) ∧ C.ecNew m.pub.1 m.pub.2 = some k' ∧ k' ≠ k) ∨
    (why = "unable to unmarshal the eddsa pub key" ∧
      ∃ pre m post, msgs = pre ++ m :: post ∧ cs = [m.idx] ∧ C.ecNew m.pub.1 m.pub.2 = none ∧
        ∀ p ∈ pre, ∃ k, C.ecNew p.pub.1 p.pub.2 = some k) := by
  rw [round1Key_eq] at h
  rcases r1go_true_fail C msgs.head? msgs none why cs h with ⟨h1, h2, h3, _⟩ |
    ⟨h1, h2, pre, m, post, k, k', hs, hp, hk, hm, hne⟩ | h3
  · exact Or.inl ⟨h1, h2, h3⟩
  · refine Or.inr (Or.inl ⟨h1, h2, pre, m, post, k, k', hs, ?_, hp, hm, hne⟩)
    rcases hk with hk | ⟨_, hk⟩
    · cases hk
    · exact hk
  · exact Or.inr (Or.inr h3)

/-- **K2. a key mismatch names nobody**, and in general every culprit of a round-1 error is the sender of a
message whose OWN key fails to decode -/
theorem key_mismatch_names_nobody (msgs : List OldMsg) (why : String) (cs : List Nat)
    (h : round1Key C true msgs = .fail why cs) :
    (why = "eddsa pub key did not match what we received previously" → cs = []) ∧
    ∀ c ∈ cs, ∃ m ∈ msgs, m.idx = c ∧ C.ecNew m.pub.1 m.pub.2 = none := by
  rcases key_failure_cases msgs why cs h with ⟨_, h2, _⟩ | ⟨_, h2, _⟩ | ⟨h1, pre, m, post, hs, hcs, hm, _⟩
  · subst h2
    exact ⟨fun _ => rfl, fun c hc => by cases hc⟩
  · subst h2
    exact ⟨fun _ => rfl, fun c hc => by cases hc⟩
  · refine ⟨fun hw => absurd (h1.symm.trans hw) (by decide), ?_⟩
    intro c hc
    rw [hcs] at hc
    rcases List.mem_cons.1 hc with rfl | hc
    · exact ⟨m, by rw [hs]; simp, rfl, hm⟩
    · cases hc

/-- **K3. on the tree before the repair the first old member decides**: an accepted key is the first old
member's announcement; and as soon as that announcement decodes, round 1 passes with it WHATEVER the other old
members announce -/
theorem old_tree_first_member_decides (msgs : List OldMsg) (key : ECPoint) :
    (round1Key C false msgs = .pass key →
      ∃ m0, msgs.head? = some m0 ∧ C.ecNew m0.pub.1 m0.pub.2 = some key) ∧
    (∀ m0 rest, msgs = m0 :: rest → C.ecNew m0.pub.1 m0.pub.2 = some key →
      round1Key C false msgs = .pass key) := by
  constructor
  · intro h
    cases msgs with
    | nil => cases h
    | cons m0 rest =>
      rw [round1Key_false_cons] at h
      cases h0 : C.ecNew m0.pub.1 m0.pub.2 with
      | none => rw [h0] at h; cases h
      | some k =>
        rw [h0] at h
        injection h with h
        exact ⟨m0, rfl, by rw [h0, h]⟩
  · rintro m0 rest rfl h0
    rw [round1Key_false_cons, h0]

/-- on the old tree a round-1 error can only come from the FIRST old member's key (no message, or that key
does not decode — and then whoever is first in the list is named); the mismatch error is never produced -/
theorem old_tree_failure (msgs : List OldMsg) (why : String) (cs : List Nat)
    (h : round1Key C false msgs = .fail why cs) :
    (msgs = [] ∧ cs = [] ∧ why = "no old member") ∨
      ∃ m0 rest, msgs = m0 :: rest ∧ C.ecNew m0.pub.1 m0.pub.2 = none ∧ cs = [m0.idx] ∧
        why = "unable to unmarshal the eddsa pub key" := by
  cases msgs with
  | nil =>
    injection h with h1 h2
    exact Or.inl ⟨rfl, h2.symm, h1.symm⟩
  | cons m0 rest =>
    rw [round1Key_false_cons] at h
    cases h0 : C.ecNew m0.pub.1 m0.pub.2 with
    | none =>
      rw [h0] at h
      injection h with h1 h2
      exact Or.inr ⟨m0, rest, rfl, h0, h2.symm, h1.symm⟩
    | some k => rw [h0] at h; cases h

/-- in particular the old tree can never report a disagreement between old members -/
theorem old_tree_never_reports_mismatch (msgs : List OldMsg) (cs : List Nat) :
    round1Key C false msgs ≠ .fail "eddsa pub key did not match what we received previously" cs := by
  intro h
  rcases old_tree_failure msgs _ cs h with ⟨_, _, hw⟩ | ⟨_, _, _, _, _, hw⟩
  · exact absurd hw (by decide)
  · exact absurd hw (by decide)

end key

/-! ### witnesses on the toy curve `E = zmodCurve 23` (`C05.E`; `C05.Hone`: every commitment value is `1`) -/
section keyWitness
open TssVerif.C05 (E W Hone)

/-- two old members announcing DIFFERENT valid keys `5·G` and `6·G`: the tree before the repair accepts the
first one's key — and goes on to acknowledge —, the repaired tree reports the mismatch and names nobody -/
theorem old_tree_accepts_disagreement_witness :
    round1Key E false [⟨1, (5, 0), 1, [5, 3, 0, 4, 0], 11⟩, ⟨2, (6, 0), 1, [5, 2, 0, 4, 0], 10⟩] = .pass (5, 0) ∧
    round1Key E true [⟨1, (5, 0), 1, [5, 3, 0, 4, 0], 11⟩, ⟨2, (6, 0), 1, [5, 2, 0, 4, 0], 10⟩] =
      .fail "eddsa pub key did not match what we received previously" [] ∧
    newMember E Hone false ⟨true⟩ 8 3 1 2 7
      [⟨1, (5, 0), 1, [5, 3, 0, 4, 0], 11⟩, ⟨2, (6, 0), 1, [5, 2, 0, 4, 0], 10⟩] =
        .ok (.pass ⟨21, [(5, 0), (8, 0)]⟩) ∧
    newMember E Hone true ⟨true⟩ 8 3 1 2 7
      [⟨1, (5, 0), 1, [5, 3, 0, 4, 0], 11⟩, ⟨2, (6, 0), 1, [5, 2, 0, 4, 0], 10⟩] =
        .ok (.fail "eddsa pub key did not match what we received previously" []) := by
  decide

end keyWitness

/-! ## R. round 4 -/
section round4
variable (H : HashFn) (vcfg : Vss.VerifyCfg) (cof cofInv t' ownId ownIdx : Nat)

/-- **exact acceptance condition of the per-old-member check** -/
theorem check_old_pass_iff (m : OldMsg) (vs : List ECPoint) :
    checkOld C H vcfg cof cofInv t' ownId m = .ok (.pass vs) ↔
      ∃ flat pts, decommitWith H m.commitment (m.decommitment.map Int.ofNat) = .ok (some flat) ∧
        flat.length = (t' + 1) * 2 ∧
        C.unflatten (flat.map Int.toNat) = some pts ∧
        pts.mapM (clear C cof cofInv) = .ok vs ∧
        Vss.verify C vcfg t' ⟨t', ownId, m.share⟩ vs = .ok true :=
  checkOld_pass_iff C H vcfg cof cofInv t' ownId m vs

/-- a rejection by the per-old-member check names the sender of the checked material, nobody else -/
theorem check_old_fail_names_sender (m : OldMsg) (why : String) (cs : List Nat)
    (h : checkOld C H vcfg cof cofInv t' ownId m = .ok (.fail why cs)) : cs = [m.idx] :=
  ((checkOld_fail_iff C H vcfg cof cofInv t' ownId m why cs).1 h).1

/-- **exact acknowledgement condition of round 4**: every old member passes (`rows` = the accepted points, in
message order), the share is the plain sum, the column sums exist and `V_0 = key` -/
theorem round4_ack_iff (key : ECPoint) (msgs : List OldMsg) (ack : Ack) :
    round4 C H vcfg cof cofInv t' ownId ownIdx key msgs = .ok (.pass ack) ↔
      ∃ rows, List.Forall₂ (fun m vs => checkOld C H vcfg cof cofInv t' ownId m = .ok (.pass vs)) msgs rows ∧
        ack.xi = (msgs.map (·.share)).sum ∧ sumColumns C rows = some ack.vc ∧ ack.vc.head? = some key :=
  round4_pass_iff C H vcfg cof cofInv t' ownId ownIdx key msgs ack

/-- once round 1 fixed `key`, the member runs round 4 against it -/
theorem new_member_of_key (em : Bool) (msgs : List OldMsg) (key : ECPoint)
    (hk : round1Key C em msgs = .pass key) :
    newMember C H em vcfg cof cofInv t' ownId ownIdx msgs =
      round4 C H vcfg cof cofInv t' ownId ownIdx key msgs := by
  rw [newMember_eq, hk]

/-- an acknowledgement (either tree) comes from a key fixed in round 1 and an acknowledging round 4 -/
theorem ack_inv (em : Bool) (msgs : List OldMsg) (ack : Ack)
    (h : newMember C H em vcfg cof cofInv t' ownId ownIdx msgs = .ok (.pass ack)) :
    ∃ key, round1Key C em msgs = .pass key ∧
      round4 C H vcfg cof cofInv t' ownId ownIdx key msgs = .ok (.pass ack) := by
  rw [newMember_eq] at h
  cases hk : round1Key C em msgs with
  | fail why cs => rw [hk] at h; cases h
  | pass key => rw [hk] at h; exact ⟨key, rfl, h⟩

/-- **R1. an acknowledgement implies every check**: the key of K1 exists; every old member's commitment opens
to `2(t'+1)` coordinates, these are curve points, cofactor clearing returns `vs`, and the member's share verifies
against `vs` under this member's id (`rows` lists those `vs` in message order); the new share is the plain sum
of the received shares; the column sums of `rows` exist, are `ack.vc`, and start with the agreed key -/
theorem ack_implies_every_check (msgs : List OldMsg) (ack : Ack)
    (h : newMember C H true vcfg cof cofInv t' ownId ownIdx msgs = .ok (.pass ack)) :
    ∃ key, round1Key C true msgs = .pass key ∧ msgs ≠ [] ∧
      (∀ m ∈ msgs, C.ecNew m.pub.1 m.pub.2 = some key) ∧
      ∃ rows : List (List ECPoint),
        List.Forall₂ (fun m vs =>
          ∃ flat pts, decommitWith H m.commitment (m.decommitment.map Int.ofNat) = .ok (some flat) ∧
            flat.length = (t' + 1) * 2 ∧
            C.unflatten (flat.map Int.toNat) = some pts ∧
            pts.mapM (clear C cof cofInv) = .ok vs ∧
            Vss.verify C vcfg t' ⟨t', ownId, m.share⟩ vs = .ok true) msgs rows ∧
        (∀ m ∈ msgs, ∃ flat pts vs, vs ∈ rows ∧
          decommitWith H m.commitment (m.decommitment.map Int.ofNat) = .ok (some flat) ∧
          flat.length = (t' + 1) * 2 ∧
          C.unflatten (flat.map Int.toNat) = some pts ∧
          pts.mapM (clear C cof cofInv) = .ok vs ∧
          Vss.verify C vcfg t' ⟨t', ownId, m.share⟩ vs = .ok true) ∧
        ack.xi = (msgs.map (·.share)).sum ∧
        sumColumns C rows = some ack.vc ∧
        ack.vc.head? = some key := by
  obtain ⟨key, hk, h4⟩ := ack_inv H vcfg cof cofInv t' ownId ownIdx true msgs ack h
  obtain ⟨hall, hne⟩ := key_agreed_by_every_old_member msgs key hk
  obtain ⟨rows, hf, hxi, hs, hh⟩ := (round4_ack_iff H vcfg cof cofInv t' ownId ownIdx key msgs ack).1 h4
  have hf' := forall₂_imp (fun m vs hp => (check_old_pass_iff H vcfg cof cofInv t' ownId m vs).1 hp) hf
  refine ⟨key, hk, hne, hall, rows, hf', ?_, hxi, hs, hh⟩
  intro m hm
  obtain ⟨vs, hvs, flat, pts, hp⟩ := forall₂_mem_left hf' m hm
  exact ⟨flat, pts, vs, hvs, hp⟩

/-- **exact failure condition of round 4** -/
theorem failure_iff (key : ECPoint) (msgs : List OldMsg) (why : String) (cs : List Nat) :
    round4 C H vcfg cof cofInv t' ownId ownIdx key msgs = .ok (.fail why cs) ↔
      (∃ pre m post, msgs = pre ++ m :: post ∧
        (∀ p ∈ pre, ∃ vs, checkOld C H vcfg cof cofInv t' ownId p = .ok (.pass vs)) ∧
        checkOld C H vcfg cof cofInv t' ownId m = .ok (.fail why cs)) ∨
      (∃ rows, List.Forall₂ (fun m vs => checkOld C H vcfg cof cofInv t' ownId m = .ok (.pass vs)) msgs rows ∧
        ((why = "Vc[c].Add(vjc[j][c])" ∧ cs = [] ∧
            (sumColumns C rows = none ∨ ∃ vc, sumColumns C rows = some vc ∧ vc.head? = none)) ∨
          (why = "assertion failed: V_0 != y" ∧ cs = [ownIdx] ∧
            ∃ vc v0, sumColumns C rows = some vc ∧ vc.head? = some v0 ∧ v0 ≠ key))) :=
  round4_fail_iff C H vcfg cof cofInv t' ownId ownIdx key msgs why cs

/-- **R2. the culprits of a round-4 failure**: either the FIRST old member (in message order) whose material is
rejected — all earlier ones pass — is named, alone; or nobody (every old member passes but the column sums are not
representable); or the reporter itself (every old member passes, `V_0 ≠ key`) -/
theorem failure_culprits (key : ECPoint) (msgs : List OldMsg) (why : String) (cs : List Nat)
    (h : round4 C H vcfg cof cofInv t' ownId ownIdx key msgs = .ok (.fail why cs)) :
    (∃ pre m post, msgs = pre ++ m :: post ∧
      (∀ p ∈ pre, ∃ vs, checkOld C H vcfg cof cofInv t' ownId p = .ok (.pass vs)) ∧
      checkOld C H vcfg cof cofInv t' ownId m = .ok (.fail why [m.idx]) ∧ cs = [m.idx]) ∨
    (cs = [] ∧ why = "Vc[c].Add(vjc[j][c])" ∧
      ∃ rows, List.Forall₂ (fun m vs => checkOld C H vcfg cof cofInv t' ownId m = .ok (.pass vs)) msgs rows ∧
        (sumColumns C rows = none ∨ ∃ vc, sumColumns C rows = some vc ∧ vc.head? = none)) ∨
    (cs = [ownIdx] ∧ why = "assertion failed: V_0 != y" ∧
      ∃ rows vc v0,
        List.Forall₂ (fun m vs => checkOld C H vcfg cof cofInv t' ownId m = .ok (.pass vs)) msgs rows ∧
        sumColumns C rows = some vc ∧ vc.head? = some v0 ∧ v0 ≠ key) := by
  rcases (failure_iff H vcfg cof cofInv t' ownId ownIdx key msgs why cs).1 h with
    ⟨pre, m, post, hs, hpre, hbad⟩ | ⟨rows, hf, ⟨h1, h2, h3⟩ | ⟨h1, h2, vc, v0, h3⟩⟩
  · have hcs := check_old_fail_names_sender H vcfg cof cofInv t' ownId m why cs hbad
    subst hcs
    exact Or.inl ⟨pre, m, post, hs, hpre, hbad, rfl⟩
  · exact Or.inr (Or.inl ⟨h2, h1, rows, hf, h3⟩)
  · exact Or.inr (Or.inr ⟨h2, h1, rows, vc, v0, hf, h3⟩)

/-- **who can be named by the new member at all** (repaired tree): an old member whose OWN material fails (its
announced key does not decode, or its round-3 material is rejected), or — with the `V_0` assertion — the
reporter itself. Nobody else. -/
theorem new_member_failure_names (msgs : List OldMsg) (why : String) (cs : List Nat)
    (h : newMember C H true vcfg cof cofInv t' ownId ownIdx msgs = .ok (.fail why cs)) :
    ∀ c ∈ cs,
      (∃ m ∈ msgs, m.idx = c ∧ (C.ecNew m.pub.1 m.pub.2 = none ∨
        ∃ why', checkOld C H vcfg cof cofInv t' ownId m = .ok (.fail why' [m.idx]))) ∨
      (c = ownIdx ∧ why = "assertion failed: V_0 != y") := by
  rw [newMember_eq] at h
  cases hk : round1Key C true msgs with
  | fail why' cs' =>
    rw [hk] at h
    injection h with h
    injection h with h1 h2
    subst h1 h2
    intro c hc
    obtain ⟨m, hm, hi, hn⟩ := (key_mismatch_names_nobody msgs why' cs' hk).2 c hc
    exact Or.inl ⟨m, hm, hi, Or.inl hn⟩
  | pass key =>
    rw [hk] at h
    intro c hc
    rcases failure_culprits H vcfg cof cofInv t' ownId ownIdx key msgs why cs h with
      ⟨pre, m, post, hs, _, hbad, hcs⟩ | ⟨hcs, _⟩ | ⟨hcs, hw, _⟩
    · rw [hcs] at hc
      rcases List.mem_cons.1 hc with rfl | hc
      · exact Or.inl ⟨m, by rw [hs]; simp, rfl, Or.inr ⟨why, hbad⟩⟩
      · cases hc
    · rw [hcs] at hc; cases hc
    · rw [hcs] at hc
      rcases List.mem_cons.1 hc with rfl | hc
      · exact Or.inr ⟨rfl, hw⟩
      · cases hc

/-- **single deviator**: if every message except those of index `dev` passes the per-member check, a round-4
failure names `dev` and nobody else — or nobody / the reporter with the two unattributable errors -/
theorem single_deviator_old_member (key : ECPoint) (msgs : List OldMsg) (dev : Nat)
    (hothers : ∀ m ∈ msgs, m.idx ≠ dev → ∃ vs, checkOld C H vcfg cof cofInv t' ownId m = .ok (.pass vs))
    (why : String) (cs : List Nat)
    (h : round4 C H vcfg cof cofInv t' ownId ownIdx key msgs = .ok (.fail why cs)) :
    cs = [dev] ∨ (cs = [] ∧ why = "Vc[c].Add(vjc[j][c])") ∨
      (cs = [ownIdx] ∧ why = "assertion failed: V_0 != y") := by
  rcases failure_culprits H vcfg cof cofInv t' ownId ownIdx key msgs why cs h with
    ⟨pre, m, post, hs, _, hbad, hcs⟩ | ⟨hcs, hw, _⟩ | ⟨hcs, hw, _⟩
  · left
    by_cases hm : m.idx = dev
    · rw [hcs, hm]
    · obtain ⟨vs, hvs⟩ := hothers m (by rw [hs]; simp) hm
      rw [hvs] at hbad
      cases hbad
  · exact Or.inr (Or.inl ⟨hcs, hw⟩)
  · exact Or.inr (Or.inr ⟨hcs, hw⟩)

/-- … and when the deviator's material IS rejected (indices distinct, everybody else passes), round 4 reports
exactly that rejection with the culprit list `[dev]` -/
theorem single_deviator_old_member_blamed (key : ECPoint) (msgs : List OldMsg) (d : OldMsg)
    (hnd : (msgs.map (·.idx)).Nodup) (hd : d ∈ msgs)
    (hothers : ∀ m ∈ msgs, m.idx ≠ d.idx → ∃ vs, checkOld C H vcfg cof cofInv t' ownId m = .ok (.pass vs))
    (why : String) (cs : List Nat)
    (hbad : checkOld C H vcfg cof cofInv t' ownId d = .ok (.fail why cs)) :
    round4 C H vcfg cof cofInv t' ownId ownIdx key msgs = .ok (.fail why [d.idx]) := by
  have hcs := check_old_fail_names_sender H vcfg cof cofInv t' ownId d why cs hbad
  subst hcs
  obtain ⟨pre, post, rfl⟩ := List.append_of_mem hd
  refine (failure_iff H vcfg cof cofInv t' ownId ownIdx key _ why [d.idx]).2 (Or.inl ⟨pre, d, post, rfl, ?_, hbad⟩)
  intro p hp
  refine hothers p (by simp [hp]) ?_
  intro he
  rw [List.map_append, List.map_cons] at hnd
  exact (List.nodup_append.1 hnd).2.2 p.idx (List.mem_map.2 ⟨p, hp, rfl⟩) d.idx (List.mem_cons_self ..) he

/-- **R3. an altered share is blamed on its sender**: all earlier old members pass, `m`'s commitment opens
correctly to points `vs`, but `m`'s share fails `Vss.verify` against them -/
theorem altered_share_blamed (key : ECPoint) (pre post : List OldMsg) (m : OldMsg) (flat : List Int)
    (pts vs : List ECPoint)
    (hpre : ∀ p ∈ pre, ∃ ws, checkOld C H vcfg cof cofInv t' ownId p = .ok (.pass ws))
    (hd : decommitWith H m.commitment (m.decommitment.map Int.ofNat) = .ok (some flat))
    (hl : flat.length = (t' + 1) * 2) (hu : C.unflatten (flat.map Int.toNat) = some pts)
    (hm : pts.mapM (clear C cof cofInv) = .ok vs)
    (hv : Vss.verify C vcfg t' ⟨t', ownId, m.share⟩ vs = .ok false) :
    round4 C H vcfg cof cofInv t' ownId ownIdx key (pre ++ m :: post) =
      .ok (.fail "share from old committee did not pass Verify()" [m.idx]) :=
  (failure_iff H vcfg cof cofInv t' ownId ownIdx key _ _ _).2 (Or.inl ⟨pre, m, post, rfl, hpre,
    checkOld_of_rejected C H vcfg cof cofInv t' ownId m _ (.share flat pts vs hd hl hu hm hv)⟩)

/-- **R3. an altered de-commitment is blamed on its sender**: all earlier old members pass, and `m`'s
de-commitment does not open its round-1 commitment, or opens it to the wrong number of coordinates -/
theorem altered_decommitment_blamed (key : ECPoint) (pre post : List OldMsg) (m : OldMsg)
    (hpre : ∀ p ∈ pre, ∃ ws, checkOld C H vcfg cof cofInv t' ownId p = .ok (.pass ws))
    (hbad : decommitWith H m.commitment (m.decommitment.map Int.ofNat) = .ok none ∨
      ∃ flat, decommitWith H m.commitment (m.decommitment.map Int.ofNat) = .ok (some flat) ∧
        flat.length ≠ (t' + 1) * 2) :
    round4 C H vcfg cof cofInv t' ownId ownIdx key (pre ++ m :: post) =
      .ok (.fail "de-commitment of v_j0..v_jt failed" [m.idx]) := by
  refine (failure_iff H vcfg cof cofInv t' ownId ownIdx key _ _ _).2 (Or.inl ⟨pre, m, post, rfl, hpre, ?_⟩)
  rcases hbad with hd | ⟨flat, hd, hl⟩
  · exact checkOld_of_rejected C H vcfg cof cofInv t' ownId m _ (.decommit hd)
  · exact checkOld_of_rejected C H vcfg cof cofInv t' ownId m _ (.length flat hd hl)

/-- the remaining (format) rejection: the opened coordinates are not curve points -/
theorem off_curve_points_blamed (key : ECPoint) (pre post : List OldMsg) (m : OldMsg) (flat : List Int)
    (hpre : ∀ p ∈ pre, ∃ ws, checkOld C H vcfg cof cofInv t' ownId p = .ok (.pass ws))
    (hd : decommitWith H m.commitment (m.decommitment.map Int.ofNat) = .ok (some flat))
    (hl : flat.length = (t' + 1) * 2) (hu : C.unflatten (flat.map Int.toNat) = none) :
    round4 C H vcfg cof cofInv t' ownId ownIdx key (pre ++ m :: post) = .ok (.fail "unflatten" [m.idx]) :=
  (failure_iff H vcfg cof cofInv t' ownId ownIdx key _ _ _).2 (Or.inl ⟨pre, m, post, rfl, hpre,
    checkOld_of_rejected C H vcfg cof cofInv t' ownId m _ (.unflatten flat hd hl hu)⟩)

/-! ### R4. the acknowledged share matches the acknowledged commitment points -/

/-- **R4. the new share is consistent with the summed commitments** (either tree, any `Vss.verify`
configuration, no side condition beyond `C.Lawful`): when the member acknowledges, `ack.vc` consists of `t'+1`
curve points and

  `(ack.xi mod q)·G = Vc[0] + Σ_{c=1..t'} (ownId^c mod q)·Vc[c]`,   `Vc[c]` = the point `ack.vc[c]` denotes,

i.e. `(ack.xi mod q)·G` is the evaluation at `ownId` "in the exponent" of the summed commitment polynomial
(`AlgL.pubShare`, the quantity the library computes as this member's public share point `BigXj`). The equation is
in the group of the lawful curve (`C.add`/`C.smul`); `AlgL.liftD C v` is the point with affine coordinates `v`. -/
theorem ack_share_consistent (hC : C.Lawful) (em : Bool) (msgs : List OldMsg) (ack : Ack)
    (h : newMember C H em vcfg cof cofInv t' ownId ownIdx msgs = .ok (.pass ack)) :
    ack.vc.length = t' + 1 ∧ (∀ v ∈ ack.vc, C.ecIsOnCurve v = true) ∧
    C.smul (ack.xi % C.q) C.base =
      AlgL.pubShare C (fun c => (ack.vc.map (AlgL.liftD C)).getD c C.zero) t' ownId := by
  obtain ⟨key, _, h4⟩ := ack_inv H vcfg cof cofInv t' ownId ownIdx em msgs ack h
  obtain ⟨rows, hf, hxi, hs, _⟩ := (round4_ack_iff H vcfg cof cofInv t' ownId ownIdx key msgs ack).1 h4
  have hp := forall₂_imp (fun m vs hp => (checkOld_pass_iff C H vcfg cof cofInv t' ownId m vs).1 hp) hf
  have hshape : ∀ row ∈ rows, row.length = t' + 1 ∧ ∀ v ∈ row, C.ecIsOnCurve v = true := by
    intro row hr
    obtain ⟨m, _, hm⟩ := forall₂_mem_right hp row hr
    exact passes_shape C H vcfg cof cofInv t' ownId m hC row hm
  obtain ⟨hne, hlen, hon, _⟩ := sumColumns_some hC rows ack.vc hs
  refine ⟨?_, hon fun row hr => (hshape row hr).2, ?_⟩
  · cases rows with
    | nil => exact absurd rfl hne
    | cons r rs =>
      rw [← hlen r (List.mem_cons_self ..)]
      exact (hshape r (List.mem_cons_self ..)).1
  · rw [hxi]
    exact shares_sum_consistent hC vcfg t' ownId msgs rows ack.vc
      (forall₂_imp (fun m vs hq => by obtain ⟨_, _, _, _, _, _, hv⟩ := hq; exact hv) hp) hs

/-- the per-old-member statement: every accepted share satisfies the Feldman equation against the points its
sender is accepted with, `share·G = v[0] + Σ_{c=1..t'} (ownId^c mod q)·v[c]` -/
theorem ack_each_share_consistent (hC : C.Lawful) (m : OldMsg) (vs : List ECPoint)
    (h : checkOld C H vcfg cof cofInv t' ownId m = .ok (.pass vs)) :
    C.smul m.share C.base = AlgL.pubShare C (fun c => (vs.map (AlgL.liftD C)).getD c C.zero) t' ownId := by
  obtain ⟨_, _, _, _, _, _, hv⟩ := (checkOld_pass_iff C H vcfg cof cofInv t' ownId m vs).1 h
  obtain ⟨V, hV, _, _, heq⟩ := AlgL.verify_true_feldman hC vcfg t' _ vs hv
  rw [AlgL.forall₂_lift_eq_map hV] at heq
  exact heq

/-- on the repaired `Vss.verify`: **each accepted share lies on its sender's committed polynomial** — if the
accepted points are commitments `a_c·G` to coefficients `as`, then `as` has `t'+1` entries, neither the share nor
the own id is `0 (mod q)`, and `Σ a_c·ownId^c ≡ share (mod q)` (`C15.vss_verify_sound`) -/
theorem ack_each_share_on_committed_polynomial (hC : C.Lawful) (m : OldMsg) (vs : List ECPoint)
    (h : checkOld C H ⟨true⟩ cof cofInv t' ownId m = .ok (.pass vs))
    (as : List Nat) (hcom : Vss.IsCommitment C as vs) :
    as.length = t' + 1 ∧ ownId % C.q ≠ 0 ∧ m.share % C.q ≠ 0 ∧ Vss.polyNat as ownId ≡ m.share [MOD C.q] := by
  obtain ⟨_, _, _, _, _, _, hv⟩ := (checkOld_pass_iff C H ⟨true⟩ cof cofInv t' ownId m vs).1 h
  exact accepted_on_polynomial hC t' ownId m.share vs hv as hcom

/-- … and **the acknowledged share is the value at `ownId` of the sum of the committed polynomials**: if the
accepted rows are commitments to coefficient lists `fs` (one per old member, in message order), then
`Σ_j f_j(ownId) ≡ ack.xi (mod q)` -/
theorem ack_share_on_summed_polynomial (hC : C.Lawful) (key : ECPoint) (msgs : List OldMsg) (ack : Ack)
    (rows : List (List ECPoint)) (fs : List (List Nat))
    (h : round4 C H ⟨true⟩ cof cofInv t' ownId ownIdx key msgs = .ok (.pass ack))
    (hrows : List.Forall₂ (fun m vs => checkOld C H ⟨true⟩ cof cofInv t' ownId m = .ok (.pass vs)) msgs rows)
    (hcom : List.Forall₂ (fun as vs => Vss.IsCommitment C as vs) fs rows) :
    (fs.map fun as => Vss.polyNat as ownId).sum ≡ ack.xi [MOD C.q] := by
  obtain ⟨_, _, hxi, _, _⟩ := (round4_ack_iff H ⟨true⟩ cof cofInv t' ownId ownIdx key msgs ack).1 h
  rw [hxi]
  refine accepted_sum_on_polynomials hC t' ownId msgs rows fs (forall₂_imp (fun m vs hq => ?_) hrows) hcom
  obtain ⟨_, _, _, _, _, _, hv⟩ := (checkOld_pass_iff C H ⟨true⟩ cof cofInv t' ownId m vs).1 hq
  exact hv

/-! ### R5. the member returns -/

/-- the per-old-member check returns a verdict whatever the old member sent -/
theorem check_old_returns (hC : C.Lawful)
    (hcof : C.toAffine C.zero = none → ∀ p, C.smul C.q p = C.zero)
    (hnz : C.toAffine C.zero = none → cof % C.q ≠ 0 ∧ cofInv % C.q ≠ 0)
    (m : OldMsg) (hd : m.decommitment ≠ []) :
    ∃ v, checkOld C H ⟨true⟩ cof cofInv t' ownId m = .ok v :=
  checkOld_total C H cof cofInv t' ownId m hC hcof hnz hd

/-- **the new member always returns a verdict** (either tree of round 1): an acknowledgement, or an error with
its culprit list; never a crash, never an unattributed Go error -/
theorem newMember_returns (hC : C.Lawful)
    (hcof : C.toAffine C.zero = none → ∀ p, C.smul C.q p = C.zero)
    (hnz : C.toAffine C.zero = none → cof % C.q ≠ 0 ∧ cofInv % C.q ≠ 0)
    (em : Bool) (msgs : List OldMsg) (hd : ∀ m ∈ msgs, m.decommitment ≠ []) :
    ∃ v, newMember C H em ⟨true⟩ cof cofInv t' ownId ownIdx msgs = .ok v := by
  rw [newMember_eq]
  cases round1Key C em msgs with
  | fail why cs => exact ⟨_, rfl⟩
  | pass key =>
    exact round4_total C H ⟨true⟩ cof cofInv t' ownId ownIdx key msgs
      (fun m hm => check_old_returns H cof cofInv t' ownId hC hcof hnz m (hd m hm))

/-- **R5. no crash** -/
theorem newMember_no_panic (hC : C.Lawful)
    (hcof : C.toAffine C.zero = none → ∀ p, C.smul C.q p = C.zero)
    (hnz : C.toAffine C.zero = none → cof % C.q ≠ 0 ∧ cofInv % C.q ≠ 0)
    (em : Bool) (msgs : List OldMsg) (hd : ∀ m ∈ msgs, m.decommitment ≠ []) (tag : String) :
    newMember C H em ⟨true⟩ cof cofInv t' ownId ownIdx msgs ≠ .panic tag := by
  obtain ⟨v, hv⟩ := newMember_returns H cof cofInv t' ownId ownIdx hC hcof hnz em msgs hd
  rw [hv]; nofun

end round4

/-! ## the hypotheses are satisfiable (toy curves `E = zmodCurve 23`, `W = zmodCurveW 23`; `cof = 8`,
`cofInv = 3`, `t' = 1`, own id `2`, own index `7`; `Hone`: every commitment value is `1`)

Old member 1 deals `3 + 4X` (points `3·G, 4·G`, share `f(2) = 11`), old member 2 deals `2 + 4X` (points
`2·G, 4·G`, share `10`); the group key is `5·G`; `Vc = [5·G, 8·G]`, the new share is `21` and
`21·G = 5·G + 2·8·G`. -/
section examples
open TssVerif.C05 (E W Hone)

/-- the honest old members -/
def o1 : OldMsg := ⟨1, (5, 0), 1, [5, 3, 0, 4, 0], 11⟩
def o2 : OldMsg := ⟨2, (5, 0), 1, [5, 2, 0, 4, 0], 10⟩

/-- K1, R1, R4: the honest run is acknowledged (hypothesis of `ack_implies_every_check`, `ack_share_consistent`) -/
example : newMember E Hone true ⟨true⟩ 8 3 1 2 7 [o1, o2] = .ok (.pass ⟨21, [(5, 0), (8, 0)]⟩) := by decide

/-- … and the conclusions, computed: the key, the per-member checks, the column sums -/
example : round1Key E true [o1, o2] = .pass (5, 0) ∧
    checkOld E Hone ⟨true⟩ 8 3 1 2 o1 = .ok (.pass [(3, 0), (4, 0)]) ∧
    checkOld E Hone ⟨true⟩ 8 3 1 2 o2 = .ok (.pass [(2, 0), (4, 0)]) ∧
    sumColumns E [[(3, 0), (4, 0)], [(2, 0), (4, 0)]] = some [(5, 0), (8, 0)] := by decide

/-- R4 on the instance, from the theorem (the curve is lawful) and by computation -/
example : E.smul (21 % E.q) E.base =
    AlgL.pubShare E (fun c => ([((5 : Nat), (0 : Nat)), (8, 0)].map (AlgL.liftD E)).getD c E.zero) 1 2 :=
  (ack_share_consistent Hone ⟨true⟩ 8 3 1 2 7 (zmodCurve_lawful 23) true [o1, o2] ⟨21, [(5, 0), (8, 0)]⟩
    (by decide)).2.2
example : E.smul 21 E.base = 21 ∧
    AlgL.pubShare E (fun c => ([((5 : Nat), (0 : Nat)), (8, 0)].map (AlgL.liftD E)).getD c E.zero) 1 2 = 21 := by
  decide

/-- R4, polynomial form: the rows are commitments to `3 + 4X` and `2 + 4X`; `11 + 10 ≡ 21` -/
example : Vss.IsCommitment E [3, 4] [(3, 0), (4, 0)] ∧ Vss.IsCommitment E [2, 4] [(2, 0), (4, 0)] :=
  ⟨.cons (by decide) (.cons (by decide) .nil), .cons (by decide) (.cons (by decide) .nil)⟩
example : Vss.polyNat [3, 4] 2 = 11 ∧ Vss.polyNat [2, 4] 2 = 10 := by decide

/-- K2: a second old member announcing another valid key — mismatch, nobody named; a first old member whose key
does not decode — it is named -/
example : round1Key E true [o1, ⟨2, (6, 0), 1, [5, 2, 0, 4, 0], 10⟩] =
      .fail "eddsa pub key did not match what we received previously" [] ∧
    round1Key E true [⟨1, (6, 1), 1, [5, 3, 0, 4, 0], 11⟩, o2] =
      .fail "unable to unmarshal the eddsa pub key" [1] := by decide

/-- R2/R3: old member 2 alters its share (`10 → 12`), its commitment value (`1 → 0`), or sends a de-commitment
of the wrong length: each time exactly `[2]` is reported -/
example : newMember E Hone true ⟨true⟩ 8 3 1 2 7 [o1, ⟨2, (5, 0), 1, [5, 2, 0, 4, 0], 12⟩] =
      .ok (.fail "share from old committee did not pass Verify()" [2]) ∧
    newMember E Hone true ⟨true⟩ 8 3 1 2 7 [o1, ⟨2, (5, 0), 0, [5, 2, 0, 4, 0], 10⟩] =
      .ok (.fail "de-commitment of v_j0..v_jt failed" [2]) ∧
    newMember E Hone true ⟨true⟩ 8 3 1 2 7 [o1, ⟨2, (5, 0), 1, [5, 2, 0, 4, 0, 1, 0], 10⟩] =
      .ok (.fail "de-commitment of v_j0..v_jt failed" [2]) := by decide

/-- hypotheses of `altered_share_blamed` (`pre = [o1]`, `m` = old member 2 with share `12`) -/
example : (∀ p ∈ [o1], ∃ ws, checkOld E Hone ⟨true⟩ 8 3 1 2 p = .ok (.pass ws)) ∧
    decommitWith Hone 1 (([5, 2, 0, 4, 0] : List Nat).map Int.ofNat) = .ok (some [2, 0, 4, 0]) ∧
    E.unflatten (([2, 0, 4, 0] : List Int).map Int.toNat) = some [(2, 0), (4, 0)] ∧
    [((2 : Nat), (0 : Nat)), (4, 0)].mapM (clear E 8 3) = .ok [(2, 0), (4, 0)] ∧
    Vss.verify E ⟨true⟩ 1 ⟨1, 2, 12⟩ [(2, 0), (4, 0)] = .ok false := by
  refine ⟨?_, by decide, by decide, by decide, by decide⟩
  intro p hp
  rcases List.mem_cons.1 hp with rfl | hp
  · exact ⟨[(3, 0), (4, 0)], by decide⟩
  · cases hp

/-- hypotheses of `altered_decommitment_blamed`: the commitment value `0` is not opened; a de-commitment with
three points has the wrong length -/
example : decommitWith Hone 0 (([5, 2, 0, 4, 0] : List Nat).map Int.ofNat) = .ok none ∧
    decommitWith Hone 1 (([5, 2, 0, 4, 0, 1, 0] : List Nat).map Int.ofNat) = .ok (some [2, 0, 4, 0, 1, 0]) := by
  decide

/-- R2, third case: both old members agree on the key `6·G`, which is not the sum of their contributions: the
reporter names itself -/
example : newMember E Hone true ⟨true⟩ 8 3 1 2 7
    [⟨1, (6, 0), 1, [5, 3, 0, 4, 0], 11⟩, ⟨2, (6, 0), 1, [5, 2, 0, 4, 0], 10⟩] =
      .ok (.fail "assertion failed: V_0 != y" [7]) := by decide

/-- R2, second case, on the curve `W` whose identity has no affine form (never used with EdDSA): the two
`X`-coefficients `4·G` and `19·G` cancel, the column sum is not representable, nobody is named -/
example : newMember W Hone true ⟨true⟩ 1 1 1 2 7
    [⟨1, (5, 0), 1, [5, 3, 0, 4, 0], 11⟩, ⟨2, (5, 0), 1, [5, 2, 0, 19, 0], 17⟩] =
      .ok (.fail "Vc[c].Add(vjc[j][c])" []) := by decide

/-- `single_deviator_old_member_blamed`: distinct indices, old member 1 passes, old member 2's share is rejected -/
example : (([o1, ⟨2, (5, 0), 1, [5, 2, 0, 4, 0], 12⟩] : List OldMsg).map (·.idx)).Nodup ∧
    checkOld E Hone ⟨true⟩ 8 3 1 2 ⟨2, (5, 0), 1, [5, 2, 0, 4, 0], 12⟩ =
      .ok (.fail "share from old committee did not pass Verify()" [2]) := by decide

/-- R5: the side conditions hold on `E` (`hcof`, `hnz` are vacuous: the identity has affine coordinates) -/
example (msgs : List OldMsg) (hd : ∀ m ∈ msgs, m.decommitment ≠ []) (tag : String) :
    newMember E Hone true ⟨true⟩ 8 3 1 2 7 msgs ≠ .panic tag :=
  newMember_no_panic Hone 8 3 1 2 7 (zmodCurve_lawful 23)
    (fun h => absurd h (zmodCurve_toAffine_zero 23)) (fun h => absurd h (zmodCurve_toAffine_zero 23))
    true msgs hd tag

end examples

end TssVerif.C04c
