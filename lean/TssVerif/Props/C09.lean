import TssVerif.Core.EngineTables
import TssVerif.Lemmas.EngineConc
/-! # C09 — concurrent `Update`/`WaitingFor` callers (logic part)

The runtime part (no data race) is the Go race detector's; here is what the mutex discipline buys logically.
`BaseUpdate` and `WaitingFor` hold the party's lock for the whole store-and-settle step respectively the whole
read, so a concurrent history *is* a list of critical sections `Sec.update m | Sec.query`, in the order in which
the lock was acquired (`runSecs`). The only unlocked part of `Update` is `ValidateMessage`, which reads no party
state in the model. `Interleave ls merged`: `merged` is a merge of the callers' message lists `ls` that keeps
each caller's own order. Helper lemmas live in `TssVerif/Lemmas/EngineConc.lean`, `EngineOrder.lean`. -/
set_option autoImplicit false
namespace TssVerif.C09
open TssVerif TssVerif.Engine TssVerif.EngineL

/-- **Queries do not disturb updates**: the state after a history of critical sections is the state after its
updates alone, in lock order. -/
theorem queries_transparent (tbl : List RoundSpec) (ss : List Sec) (p : Party) :
    (runSecs tbl ss p).1 = delivers tbl (msgsOf ss) p :=
  runSecs_state tbl ss p

/-- every merge of the callers' lists is a permutation of their concatenation -/
theorem interleave_is_permutation (ls : List (List Msg)) (merged : List Msg) (h : Interleave ls merged) :
    merged.Perm ls.flatten :=
  interleave_perm h

/-- **Atomic sections serialise.** Let `k` callers deliver the lists `ls` concurrently (with `WaitingFor` queries
in between), the lock serialising their sections into a history whose updates are some merge of `ls`.
If the messages are good and slot-consistent, the final state equals the state after one caller delivers the
concatenation sequentially — same round, same store and flags, same emission log, same `end` count. -/
theorem atomic_sections_serialise (tbl : List RoundSpec) (ls : List (List Msg)) (ss : List Sec) (p : Party)
    (hmerge : Interleave ls (msgsOf ss)) (hg : GoodList tbl p.self ls.flatten) (hc : SlotConsistent ls.flatten) :
    (runSecs tbl ss p).1 = delivers tbl ls.flatten p := by
  rw [runSecs_state]
  have hp := interleave_perm hmerge
  exact (delivers_perm tbl hp.symm p hg hc).symm

/-- the same without queries, as a statement about `foldl deliver` -/
theorem interleavings_agree (tbl : List RoundSpec) (ls : List (List Msg)) (merged : List Msg) (p : Party)
    (hmerge : Interleave ls merged) (hg : GoodList tbl p.self ls.flatten) (hc : SlotConsistent ls.flatten) :
    merged.foldl (fun p m => deliver tbl m p) p = ls.flatten.foldl (fun p m => deliver tbl m p) p :=
  (delivers_perm tbl (interleave_perm hmerge).symm p hg hc).symm

/-- **Each result is emitted once, also under concurrency**: after `Start` and any history of critical sections
(any messages whatsoever) the log is the canonical one, `end` was signalled at most once, and exactly once iff
the final round was started. -/
theorem end_emitted_once_concurrent (tbl : List RoundSpec) (hfl : finalLast tbl = true) (n self : Nat)
    (pre : List Msg) (ss : List Sec) :
    let p := (runSecs tbl ss (start tbl (delivers tbl pre (fresh n self)))).1
    p.out = emitsUpTo tbl n p.rnd ∧ p.ended ≤ 1 ∧ (p.ended = 1 ↔ p.rnd = tbl.length) := by
  intro p
  have hc : Canon tbl p := by
    show Canon tbl (runSecs tbl ss _).1
    rw [runSecs_state]
    exact canon_delivers _ (canon_start (canon_delivers pre (canon_fresh tbl n self)))
  have hn : p.n = n := by
    show (runSecs tbl ss _).1.n = n
    rw [runSecs_state, delivers_n, start_n, delivers_n]; rfl
  obtain ⟨h1, h2, h3⟩ := hc
  rw [hn] at h2
  refine ⟨h2, ?_⟩
  rw [h3, endsUpTo_finalLast tbl hfl _ h1]
  split
  · rename_i h; simp [h]
  · rename_i h; simp [h]

/-- every answer a `WaitingFor` query gets is the exact awaited set of the state it ran in (tables without an
`early` round): a query between two sections sees a settled state, never a half-updated one -/
theorem query_answers_exact (tbl : List RoundSpec) (hne : ∀ r ∈ tbl, r.early = false) (p : Party)
    (hs : Settled tbl p) (hc : Canon tbl p) (ss : List Sec) :
    ∀ a ∈ (runSecs tbl ss p).2, ∃ ms, a = awaited tbl (delivers tbl ms p) := by
  induction ss generalizing p with
  | nil => intro a ha; cases ha
  | cons s ss ih =>
    cases s with
    | update m =>
      intro a ha
      obtain ⟨ms, hms⟩ := ih (deliver tbl m p) (settled_deliver tbl m p) (canon_deliver m hc) a ha
      exact ⟨m :: ms, hms⟩
    | query =>
      intro a ha
      rcases List.mem_cons.mp ha with h | h
      · refine ⟨[], ?_⟩
        rw [h]
        exact waitingFor_eq_awaited hs.2 hc.1 (fun _ hr => hne _ (List.mem_of_getElem? hr))
      · exact ih p hs hc a h

/-! ## the hypotheses are satisfiable -/

/-- two callers, two messages each (one early), merged in a non-sequential order -/
example : Interleave [[⟨1, 1, ⟨true, 0⟩⟩, ⟨3, 1, ⟨true, 0⟩⟩], [⟨2, 1, ⟨true, 0⟩⟩]]
    [⟨1, 1, ⟨true, 0⟩⟩, ⟨2, 1, ⟨true, 0⟩⟩, ⟨3, 1, ⟨true, 0⟩⟩] :=
  Interleave.pick [] _ _ _ _ (Interleave.pick [[⟨3, 1, ⟨true, 0⟩⟩]] [] [] _ _
    (Interleave.pick [] [] [[]] _ _ (Interleave.done _ (by simp))))

example :
    let tbl := eddsaSigning.table
    let p0 := start tbl (fresh 2 0)
    let h : List Sec := [.query, .update ⟨2, 1, ⟨true, 0⟩⟩, .query, .update ⟨1, 1, ⟨true, 0⟩⟩, .update ⟨3, 1, ⟨true, 0⟩⟩, .query]
    (runSecs tbl h p0).1.rnd = 4 ∧ (runSecs tbl h p0).1.ended = 1 ∧ (runSecs tbl h p0).2 = [[1], [1], []] ∧
    (delivers tbl [⟨1, 1, ⟨true, 0⟩⟩, ⟨3, 1, ⟨true, 0⟩⟩, ⟨2, 1, ⟨true, 0⟩⟩] p0).rnd = 4 := by decide

end TssVerif.C09
