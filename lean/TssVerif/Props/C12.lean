import TssVerif.Core.Zk
import TssVerif.Props.C16
import TssVerif.Lemmas.C12
import TssVerif.Lemmas.C12Mod
/-! # C12 — zero-knowledge proofs are bound to their context and are not malleable

"A proof accepted for one (session string, public statement) is rejected for any other session string
and for any other statement, so a proof cannot be replayed by another participant (whose context differs
by its index) or in another context. Replacing any single component of an accepted proof … by a value not
equivalent to it in the group it lives in, or shifting a commitment and its response together along the
algebraic relation the verifier checks, makes the verifier reject."

This holds *up to a hash collision*, and the theorems say so explicitly: they hold for EVERY function
`H : Bytes → Bytes` (of fixed output length where the tag digest must be split off), and whenever
two different contexts are not told apart they exhibit the two colliding inputs.

Layout
1. what each challenge hashes (`X_challenge_eq`), the pre-image lists determine statement and first
   moves (`X_preimage_injective`), so do the hashed *bytes* (`X_challenge_binding`), and two different
   contexts with the same hashed bytes are a collision of the tag hash
   (`X_other_context_needs_collision`); which systems hash NO session (`dln_no_session`,
   `range_no_session`) and what the Paillier key proof binds;
2. the protocol's session strings `ssid ++ bytes(i)` differ for different participants;
3. a proof accepted under two challenges forces the challenges to coincide (group algebra);
4. responses are determined modulo the group order; the fourth roots of `modproof` are determined
   (the verifier accepts only the smaller of `x`, `N − x`; any other accepted root factors `N`);
5. moving a commitment changes the hashed bytes.

Definitions of the pre-image lists (`Schnorr.preimage`, …) and `NonNeg` are in `TssVerif/Lemmas/C12.lean`.
Only non-negative integers are determined by their bytes (Go's `Bytes()` drops the sign,
`C16.neg_collides_witness`); points contribute natural numbers, for the other systems the hypothesis
`NonNeg` is carried. `Short` (every element shorter than 2^64 bytes) is discharged by
`short_of_lt_pow` for all integers below `256^k`, `k < 2^64`. -/
set_option autoImplicit false
namespace TssVerif.C12
open TssVerif Zk
open _root_.TssVerif.C16 (Short)

variable {P : Type} (C : Curve P) (H : HashFn)

/-! ## 0. generic statements -/

/-- the framed bytes of an integer list determine the absolute values -/
theorem frame_int_natAbs_injective {l l' : List Int} (hs : Short (l.map intToBytesBE))
    (hs' : Short (l'.map intToBytesBE))
    (h : frame (l.map intToBytesBE) = frame (l'.map intToBytesBE)) :
    l.map Int.natAbs = l'.map Int.natAbs :=
  C12L.frame_int_natAbs hs hs' h

/-- **untagged challenges** (`SHA512_256i`): the hashed bytes determine the non-negative inputs -/
theorem untagged_challenge_binding {l l' : List Int} (hn : NonNeg l) (hn' : NonNeg l')
    (hs : Short (l.map intToBytesBE)) (hs' : Short (l'.map intToBytesBE))
    (h : frame (l.map intToBytesBE) = frame (l'.map intToBytesBE)) : l = l' :=
  C12L.frame_int_inj hn hn' hs hs' h

/-- **tagged challenges** (`SHA512_256i_TAGGED`): the hashed bytes determine the inputs and the tag
digest, for every hash with digests of one fixed length -/
theorem tagged_challenge_binding (hlen : ∀ x y, (H x).length = (H y).length)
    {sess sess' : Bytes} {l l' : List Int} (hn : NonNeg l) (hn' : NonNeg l')
    (hs : Short (l.map intToBytesBE)) (hs' : Short (l'.map intToBytesBE))
    (h : taggedPreimage H sess l = taggedPreimage H sess' l') :
    l = l' ∧ H (frame [sess]) = H (frame [sess']) :=
  C12L.tagged_int_inj H hlen hn hn' hs hs' h

/-- … hence two contexts with the same hashed bytes have the same inputs, and the same session or
two different byte strings `frame [sess] ≠ frame [sess']` on which `H` collides -/
theorem tagged_other_context_needs_collision (hlen : ∀ x y, (H x).length = (H y).length)
    {sess sess' : Bytes} {l l' : List Int} (hn : NonNeg l) (hn' : NonNeg l')
    (hs : Short (l.map intToBytesBE)) (hs' : Short (l'.map intToBytesBE))
    (h : taggedPreimage H sess l = taggedPreimage H sess' l') :
    l = l' ∧ (sess = sess' ∨
      (sess ≠ sess' ∧ frame [sess] ≠ frame [sess'] ∧ H (frame [sess]) = H (frame [sess']))) :=
  C12L.tagged_context H hlen hn hn' hs hs' h

/-- the same one level up: equal challenge *digests* from two different (session, inputs) pairs give
two different byte strings with the same digest value -/
theorem tagged_digest_needs_collision (hlen : ∀ x y, (H x).length = (H y).length)
    {sess sess' : Bytes} {l l' : List Int} (hn : NonNeg l) (hn' : NonNeg l')
    (hs : Short (l.map intToBytesBE)) (hs' : Short (l'.map intToBytesBE))
    (hl : l ≠ []) (hl' : l' ≠ []) (hne : (sess, l) ≠ (sess', l'))
    (h : sha512_256iTaggedWith H sess l = sha512_256iTaggedWith H sess' l') :
    ∃ a b : Bytes, a ≠ b ∧ bytesToNat (H a) = bytesToNat (H b) :=
  C12L.tagged_digest_collision H hlen hn hn' hs hs' hl hl' hne h

theorem untagged_digest_needs_collision {l l' : List Int} (hn : NonNeg l) (hn' : NonNeg l')
    (hs : Short (l.map intToBytesBE)) (hs' : Short (l'.map intToBytesBE))
    (hl : l ≠ []) (hl' : l' ≠ []) (hne : l ≠ l')
    (h : sha512_256iWith H l = sha512_256iWith H l') :
    ∃ a b : Bytes, a ≠ b ∧ bytesToNat (H a) = bytesToNat (H b) :=
  C12L.untagged_digest_collision H hn hn' hs hs' hl hl' hne h

/-- `Short` holds for every list of integers below `256^k` in absolute value (`k < 2^64` bytes) -/
theorem short_of_lt_pow (k : Nat) (hk : k < 2 ^ 64) {l : List Int}
    (h : ∀ x ∈ l, x.natAbs < 256 ^ k) : Short (l.map intToBytesBE) :=
  C12L.short_of_lt_pow k hk h

/-! ## 1. pre-image injectivity, system by system -/

/-! ### Schnorr (`ZKProof`) -/

theorem schnorr_challenge_eq (sess : Bytes) (X α : ECPoint) :
    schnorrChallenge C H sess X α =
      rejectionSample C.q ((sha512_256iTaggedWith H sess (Schnorr.preimage (baseXY C) X α)).getD 0) :=
  rfl

theorem schnorr_preimage_injective {g X α g' X' α' : ECPoint}
    (h : Schnorr.preimage g X α = Schnorr.preimage g' X' α') : g = g' ∧ X = X' ∧ α = α' :=
  C12L.schnorr_preimage_inj h

theorem schnorr_challenge_binding (hlen : ∀ x y, (H x).length = (H y).length)
    {sess sess' : Bytes} {g X α g' X' α' : ECPoint}
    (hs : Short ((Schnorr.preimage g X α).map intToBytesBE))
    (hs' : Short ((Schnorr.preimage g' X' α').map intToBytesBE))
    (h : taggedPreimage H sess (Schnorr.preimage g X α) =
      taggedPreimage H sess' (Schnorr.preimage g' X' α')) :
    (g = g' ∧ X = X' ∧ α = α') ∧ H (frame [sess]) = H (frame [sess']) := by
  obtain ⟨h1, h2⟩ := C12L.tagged_int_inj H hlen (C12L.nonNeg_schnorr _ _ _)
    (C12L.nonNeg_schnorr _ _ _) hs hs' h
  exact ⟨C12L.schnorr_preimage_inj h1, h2⟩

/-- **another context needs a collision**: a different (session, statement, commitment) with the same
hashed bytes differs in the session only, and the tag hash collides on the two sessions -/
theorem schnorr_other_context_needs_collision (hlen : ∀ x y, (H x).length = (H y).length)
    {sess sess' : Bytes} {g X α X' α' : ECPoint}
    (hs : Short ((Schnorr.preimage g X α).map intToBytesBE))
    (hs' : Short ((Schnorr.preimage g X' α').map intToBytesBE))
    (hne : (sess, X, α) ≠ (sess', X', α'))
    (h : taggedPreimage H sess (Schnorr.preimage g X α) =
      taggedPreimage H sess' (Schnorr.preimage g X' α')) :
    sess ≠ sess' ∧ frame [sess] ≠ frame [sess'] ∧ H (frame [sess]) = H (frame [sess']) := by
  obtain ⟨h1, h2⟩ := C12L.tagged_context H hlen (C12L.nonNeg_schnorr _ _ _)
    (C12L.nonNeg_schnorr _ _ _) hs hs' h
  obtain ⟨_, rfl, rfl⟩ := C12L.schnorr_preimage_inj h1
  rcases h2 with rfl | h2
  · exact absurd rfl hne
  · exact h2

/-! ### Schnorr-V (`ZKVProof`) -/

theorem schnorrV_challenge_eq (sess : Bytes) (V R α : ECPoint) :
    schnorrVChallenge C H sess V R α =
      rejectionSample C.q
        ((sha512_256iTaggedWith H sess (SchnorrV.preimage (baseXY C) V R α)).getD 0) :=
  rfl

theorem schnorrV_preimage_injective {g V R α g' V' R' α' : ECPoint}
    (h : SchnorrV.preimage g V R α = SchnorrV.preimage g' V' R' α') :
    g = g' ∧ V = V' ∧ R = R' ∧ α = α' :=
  C12L.schnorrV_preimage_inj h

theorem schnorrV_challenge_binding (hlen : ∀ x y, (H x).length = (H y).length)
    {sess sess' : Bytes} {g V R α g' V' R' α' : ECPoint}
    (hs : Short ((SchnorrV.preimage g V R α).map intToBytesBE))
    (hs' : Short ((SchnorrV.preimage g' V' R' α').map intToBytesBE))
    (h : taggedPreimage H sess (SchnorrV.preimage g V R α) =
      taggedPreimage H sess' (SchnorrV.preimage g' V' R' α')) :
    (g = g' ∧ V = V' ∧ R = R' ∧ α = α') ∧ H (frame [sess]) = H (frame [sess']) := by
  obtain ⟨h1, h2⟩ := C12L.tagged_int_inj H hlen (C12L.nonNeg_schnorrV _ _ _ _)
    (C12L.nonNeg_schnorrV _ _ _ _) hs hs' h
  exact ⟨C12L.schnorrV_preimage_inj h1, h2⟩

theorem schnorrV_other_context_needs_collision (hlen : ∀ x y, (H x).length = (H y).length)
    {sess sess' : Bytes} {g V R α V' R' α' : ECPoint}
    (hs : Short ((SchnorrV.preimage g V R α).map intToBytesBE))
    (hs' : Short ((SchnorrV.preimage g V' R' α').map intToBytesBE))
    (hne : (sess, V, R, α) ≠ (sess', V', R', α'))
    (h : taggedPreimage H sess (SchnorrV.preimage g V R α) =
      taggedPreimage H sess' (SchnorrV.preimage g V' R' α')) :
    sess ≠ sess' ∧ frame [sess] ≠ frame [sess'] ∧ H (frame [sess]) = H (frame [sess']) := by
  obtain ⟨h1, h2⟩ := C12L.tagged_context H hlen (C12L.nonNeg_schnorrV _ _ _ _)
    (C12L.nonNeg_schnorrV _ _ _ _) hs hs' h
  obtain ⟨_, rfl, rfl, rfl⟩ := C12L.schnorrV_preimage_inj h1
  rcases h2 with rfl | h2
  · exact absurd rfl hne
  · exact h2

/-! ### Bob's proofs (`ProofBob`, `ProofBobWC`)

Recorded: the challenge hashes the Paillier key `(N, N+1)`, the ciphertexts, the point statement and
the first moves, and NOT the verifier's auxiliary parameters `Ñ, h1, h2` (`bobChallenge` does not
take them). -/

theorem bob_challenge_eq (sess : Bytes) (n c1 c2 : Int) (xu : Option (ECPoint × ECPoint))
    (pf : BobProof) :
    bobChallenge C H sess n c1 c2 xu pf =
      rejectionSample C.q ((sha512_256iTaggedWith H sess (Bob.preimage n c1 c2 xu pf)).getD 0) := by
  rcases xu with _ | ⟨X, U⟩ <;> rfl

theorem bob_preimage_injective {n c1 c2 n' c1' c2' : Int} {xu xu' : Option (ECPoint × ECPoint)}
    {pf pf' : BobProof} (h : Bob.preimage n c1 c2 xu pf = Bob.preimage n' c1' c2' xu' pf') :
    n = n' ∧ c1 = c1' ∧ c2 = c2' ∧ xu = xu' ∧ pf.z = pf'.z ∧ pf.zPrm = pf'.zPrm ∧ pf.t = pf'.t ∧
      pf.v = pf'.v ∧ pf.w = pf'.w :=
  C12L.bob_preimage_inj h

theorem bob_challenge_binding (hlen : ∀ x y, (H x).length = (H y).length)
    {sess sess' : Bytes} {n c1 c2 n' c1' c2' : Int} {xu xu' : Option (ECPoint × ECPoint)}
    {pf pf' : BobProof}
    (hn : NonNeg (Bob.preimage n c1 c2 xu pf)) (hn' : NonNeg (Bob.preimage n' c1' c2' xu' pf'))
    (hs : Short ((Bob.preimage n c1 c2 xu pf).map intToBytesBE))
    (hs' : Short ((Bob.preimage n' c1' c2' xu' pf').map intToBytesBE))
    (h : taggedPreimage H sess (Bob.preimage n c1 c2 xu pf) =
      taggedPreimage H sess' (Bob.preimage n' c1' c2' xu' pf')) :
    (n = n' ∧ c1 = c1' ∧ c2 = c2' ∧ xu = xu' ∧ pf.z = pf'.z ∧ pf.zPrm = pf'.zPrm ∧ pf.t = pf'.t ∧
      pf.v = pf'.v ∧ pf.w = pf'.w) ∧ H (frame [sess]) = H (frame [sess']) := by
  obtain ⟨h1, h2⟩ := C12L.tagged_int_inj H hlen hn hn' hs hs' h
  exact ⟨C12L.bob_preimage_inj h1, h2⟩

theorem bob_other_context_needs_collision (hlen : ∀ x y, (H x).length = (H y).length)
    {sess sess' : Bytes} {n c1 c2 n' c1' c2' : Int} {xu xu' : Option (ECPoint × ECPoint)}
    {pf pf' : BobProof}
    (hn : NonNeg (Bob.preimage n c1 c2 xu pf)) (hn' : NonNeg (Bob.preimage n' c1' c2' xu' pf'))
    (hs : Short ((Bob.preimage n c1 c2 xu pf).map intToBytesBE))
    (hs' : Short ((Bob.preimage n' c1' c2' xu' pf').map intToBytesBE))
    (h : taggedPreimage H sess (Bob.preimage n c1 c2 xu pf) =
      taggedPreimage H sess' (Bob.preimage n' c1' c2' xu' pf')) :
    (n = n' ∧ c1 = c1' ∧ c2 = c2' ∧ xu = xu' ∧ pf.z = pf'.z ∧ pf.zPrm = pf'.zPrm ∧ pf.t = pf'.t ∧
      pf.v = pf'.v ∧ pf.w = pf'.w) ∧
    (sess = sess' ∨
      (sess ≠ sess' ∧ frame [sess] ≠ frame [sess'] ∧ H (frame [sess]) = H (frame [sess']))) := by
  obtain ⟨h1, h2⟩ := C12L.tagged_context H hlen hn hn' hs hs' h
  exact ⟨C12L.bob_preimage_inj h1, h2⟩

/-! ### no-small-factor proof (`facproof`) -/

theorem fac_challenge_eq (q : Nat) (sess : Bytes) (n0 ncap s t : Int) (pf : FacProof) :
    facChallenge H q sess n0 ncap s t pf =
      rejectionSample q ((sha512_256iTaggedWith H sess (Fac.preimage n0 ncap s t pf)).getD 0) :=
  rfl

theorem fac_preimage_injective {n0 ncap s t n0' ncap' s' t' : Int} {pf pf' : FacProof}
    (h : Fac.preimage n0 ncap s t pf = Fac.preimage n0' ncap' s' t' pf') :
    n0 = n0' ∧ ncap = ncap' ∧ s = s' ∧ t = t' ∧ pf.P = pf'.P ∧ pf.Q = pf'.Q ∧ pf.A = pf'.A ∧
      pf.B = pf'.B ∧ pf.T = pf'.T ∧ pf.sigma = pf'.sigma :=
  C12L.fac_preimage_inj h

theorem fac_challenge_binding (hlen : ∀ x y, (H x).length = (H y).length)
    {sess sess' : Bytes} {n0 ncap s t n0' ncap' s' t' : Int} {pf pf' : FacProof}
    (hn : NonNeg (Fac.preimage n0 ncap s t pf)) (hn' : NonNeg (Fac.preimage n0' ncap' s' t' pf'))
    (hs : Short ((Fac.preimage n0 ncap s t pf).map intToBytesBE))
    (hs' : Short ((Fac.preimage n0' ncap' s' t' pf').map intToBytesBE))
    (h : taggedPreimage H sess (Fac.preimage n0 ncap s t pf) =
      taggedPreimage H sess' (Fac.preimage n0' ncap' s' t' pf')) :
    (n0 = n0' ∧ ncap = ncap' ∧ s = s' ∧ t = t' ∧ pf.P = pf'.P ∧ pf.Q = pf'.Q ∧ pf.A = pf'.A ∧
      pf.B = pf'.B ∧ pf.T = pf'.T ∧ pf.sigma = pf'.sigma) ∧
    H (frame [sess]) = H (frame [sess']) := by
  obtain ⟨h1, h2⟩ := C12L.tagged_int_inj H hlen hn hn' hs hs' h
  exact ⟨C12L.fac_preimage_inj h1, h2⟩

theorem fac_other_context_needs_collision (hlen : ∀ x y, (H x).length = (H y).length)
    {sess sess' : Bytes} {n0 ncap s t n0' ncap' s' t' : Int} {pf pf' : FacProof}
    (hn : NonNeg (Fac.preimage n0 ncap s t pf)) (hn' : NonNeg (Fac.preimage n0' ncap' s' t' pf'))
    (hs : Short ((Fac.preimage n0 ncap s t pf).map intToBytesBE))
    (hs' : Short ((Fac.preimage n0' ncap' s' t' pf').map intToBytesBE))
    (h : taggedPreimage H sess (Fac.preimage n0 ncap s t pf) =
      taggedPreimage H sess' (Fac.preimage n0' ncap' s' t' pf')) :
    (n0 = n0' ∧ ncap = ncap' ∧ s = s' ∧ t = t' ∧ pf.P = pf'.P ∧ pf.Q = pf'.Q ∧ pf.A = pf'.A ∧
      pf.B = pf'.B ∧ pf.T = pf'.T ∧ pf.sigma = pf'.sigma) ∧
    (sess = sess' ∨
      (sess ≠ sess' ∧ frame [sess] ≠ frame [sess'] ∧ H (frame [sess]) = H (frame [sess']))) := by
  obtain ⟨h1, h2⟩ := C12L.tagged_context H hlen hn hn' hs hs' h
  exact ⟨C12L.fac_preimage_inj h1, h2⟩

/-! ### Paillier-Blum modulus proof (`modproof`): a chain of challenges -/

/-- one step of the chain: `Y_i` is the tagged digest of `(W, N, Y_0 … Y_{i-1})` reduced mod `N` -/
theorem mod_challenge_eq (sess : Bytes) (w n : Int) (k : Nat) (acc : List Nat) (hn : n ≠ 0) :
    modYs H sess w n (k + 1) acc =
      modYs H sess w n k
        (acc ++ [((((sha512_256iTaggedWith H sess (Mod.preimage w n acc)).getD 0 : Nat) : Int) % n).toNat]) := by
  rw [modYs, if_neg hn]
  rfl

theorem mod_preimage_injective {w n w' n' : Int} {ys ys' : List Nat}
    (h : Mod.preimage w n ys = Mod.preimage w' n' ys') : w = w' ∧ n = n' ∧ ys = ys' :=
  C12L.mod_preimage_inj h

theorem mod_challenge_binding (hlen : ∀ x y, (H x).length = (H y).length)
    {sess sess' : Bytes} {w n w' n' : Int} {ys ys' : List Nat}
    (hn : NonNeg (Mod.preimage w n ys)) (hn' : NonNeg (Mod.preimage w' n' ys'))
    (hs : Short ((Mod.preimage w n ys).map intToBytesBE))
    (hs' : Short ((Mod.preimage w' n' ys').map intToBytesBE))
    (h : taggedPreimage H sess (Mod.preimage w n ys) = taggedPreimage H sess' (Mod.preimage w' n' ys')) :
    (w = w' ∧ n = n' ∧ ys = ys') ∧ H (frame [sess]) = H (frame [sess']) := by
  obtain ⟨h1, h2⟩ := C12L.tagged_int_inj H hlen hn hn' hs hs' h
  exact ⟨C12L.mod_preimage_inj h1, h2⟩

theorem mod_other_context_needs_collision (hlen : ∀ x y, (H x).length = (H y).length)
    {sess sess' : Bytes} {w n w' n' : Int} {ys ys' : List Nat}
    (hn : NonNeg (Mod.preimage w n ys)) (hn' : NonNeg (Mod.preimage w' n' ys'))
    (hs : Short ((Mod.preimage w n ys).map intToBytesBE))
    (hs' : Short ((Mod.preimage w' n' ys').map intToBytesBE))
    (h : taggedPreimage H sess (Mod.preimage w n ys) = taggedPreimage H sess' (Mod.preimage w' n' ys')) :
    (w = w' ∧ n = n' ∧ ys = ys') ∧
    (sess = sess' ∨
      (sess ≠ sess' ∧ frame [sess] ≠ frame [sess'] ∧ H (frame [sess]) = H (frame [sess']))) := by
  obtain ⟨h1, h2⟩ := C12L.tagged_context H hlen hn hn' hs hs' h
  exact ⟨C12L.mod_preimage_inj h1, h2⟩

/-! ### Alice's range proof (`RangeProofAlice`): NO session -/

theorem range_challenge_eq (q : Nat) (n c z u w : Int) :
    rangeChallenge H q n c z u w =
      rejectionSample q ((sha512_256iWith H (Range.preimage n c z u w)).getD 0) :=
  rfl

/-- **recorded**: the bytes hashed for Alice's challenge are the frame of `(N, N+1, c, z, u, w)` and
nothing else: no session string, no participant index, and not the verifier's `Ñ, h1, h2`
(`rangeChallenge` and `rangeVerify` take no session argument). -/
theorem range_no_session (q : Nat) (n c z u w : Int) :
    rangeChallenge H q n c z u w =
      bytesToNat (H (frame ((Range.preimage n c z u w).map intToBytesBE))) % q :=
  rfl

theorem range_preimage_injective {n c z u w n' c' z' u' w' : Int}
    (h : Range.preimage n c z u w = Range.preimage n' c' z' u' w') :
    n = n' ∧ c = c' ∧ z = z' ∧ u = u' ∧ w = w' :=
  C12L.range_preimage_inj h

theorem range_challenge_binding {n c z u w n' c' z' u' w' : Int}
    (hn : NonNeg (Range.preimage n c z u w)) (hn' : NonNeg (Range.preimage n' c' z' u' w'))
    (hs : Short ((Range.preimage n c z u w).map intToBytesBE))
    (hs' : Short ((Range.preimage n' c' z' u' w').map intToBytesBE))
    (h : frame ((Range.preimage n c z u w).map intToBytesBE) =
      frame ((Range.preimage n' c' z' u' w').map intToBytesBE)) :
    n = n' ∧ c = c' ∧ z = z' ∧ u = u' ∧ w = w' :=
  C12L.range_preimage_inj (C12L.frame_int_inj hn hn' hs hs' h)

/-! ### discrete-log proof (`dlnproof`): NO session -/

theorem dln_challenge_eq (h1 h2 n : Int) (alpha : List Int) :
    dlnChallenge H h1 h2 n alpha = (sha512_256iWith H (Dln.preimage h1 h2 n alpha)).getD 0 :=
  rfl

/-- **recorded**: the bytes hashed for the `dlnproof` challenge are the frame of
`(h1, h2, N, alpha_1 … alpha_128)` and nothing else: no session string and no participant index
(`dlnChallenge` and `dlnVerify` take no session argument). -/
theorem dln_no_session (h1 h2 n : Int) (alpha : List Int) :
    dlnChallenge H h1 h2 n alpha =
      bytesToNat (H (frame ((Dln.preimage h1 h2 n alpha).map intToBytesBE))) :=
  rfl

theorem dln_preimage_injective {h1 h2 n h1' h2' n' : Int} {al al' : List Int}
    (h : Dln.preimage h1 h2 n al = Dln.preimage h1' h2' n' al') :
    h1 = h1' ∧ h2 = h2' ∧ n = n' ∧ al = al' :=
  C12L.dln_preimage_inj h

theorem dln_challenge_binding {h1 h2 n h1' h2' n' : Int} {al al' : List Int}
    (hn : NonNeg (Dln.preimage h1 h2 n al)) (hn' : NonNeg (Dln.preimage h1' h2' n' al'))
    (hs : Short ((Dln.preimage h1 h2 n al).map intToBytesBE))
    (hs' : Short ((Dln.preimage h1' h2' n' al').map intToBytesBE))
    (h : frame ((Dln.preimage h1 h2 n al).map intToBytesBE) =
      frame ((Dln.preimage h1' h2' n' al').map intToBytesBE)) :
    h1 = h1' ∧ h2 = h2' ∧ n = n' ∧ al = al' :=
  C12L.dln_preimage_inj (C12L.frame_int_inj hn hn' hs hs' h)

/-! ### the Paillier key proof (`paillier.Proof`) binds `(k, X, N)` and no session -/

/-- what `GenerateXs(m, k, N, pub)` hashes for candidate `(i, cnt)`: `blocks` digests of
`(itoa i, itoa j, itoa cnt, k, X.x, X.y, N)` as byte strings (this is the call made by
`Paillier.generateXs`, by definition) -/
theorem paillier_candidate_eq (i cnt : Nat) (k : Int) (pub : ECPoint) (n : Int) (blocks : Nat) :
    Paillier.xsCandidate H i cnt (intToBytesBE k) (natToBytesBE pub.1) (natToBytesBE pub.2)
        (intToBytesBE n) blocks =
      bytesToNat ((List.range blocks).flatMap fun j => H (frame (PaillierKey.preimage i j cnt k pub n))) :=
  rfl

/-- the hashed bytes determine the counters' decimal strings, `|k|`, the point `X` and `|N|`
(so `k`, `N` themselves when non-negative); there is no session string among them -/
theorem paillier_key_binding {i j cnt i' j' cnt' : Nat} {k k' n n' : Int} {pub pub' : ECPoint}
    (hs : Short (PaillierKey.preimage i j cnt k pub n))
    (hs' : Short (PaillierKey.preimage i' j' cnt' k' pub' n'))
    (h : frame (PaillierKey.preimage i j cnt k pub n) = frame (PaillierKey.preimage i' j' cnt' k' pub' n')) :
    Paillier.itoa i = Paillier.itoa i' ∧ Paillier.itoa j = Paillier.itoa j' ∧
      Paillier.itoa cnt = Paillier.itoa cnt' ∧ k.natAbs = k'.natAbs ∧ pub = pub' ∧
      n.natAbs = n'.natAbs :=
  C12L.paillier_key_inj hs hs' h

theorem paillier_key_binding_nonneg {i j cnt i' j' cnt' : Nat} {k k' n n' : Int} {pub pub' : ECPoint}
    (hk : 0 ≤ k) (hk' : 0 ≤ k') (hn : 0 ≤ n) (hn' : 0 ≤ n')
    (hs : Short (PaillierKey.preimage i j cnt k pub n))
    (hs' : Short (PaillierKey.preimage i' j' cnt' k' pub' n'))
    (h : frame (PaillierKey.preimage i j cnt k pub n) = frame (PaillierKey.preimage i' j' cnt' k' pub' n')) :
    k = k' ∧ pub = pub' ∧ n = n' := by
  obtain ⟨_, _, _, h1, h2, h3⟩ := C12L.paillier_key_inj hs hs' h
  exact ⟨by omega, h2, by omega⟩

/-! ## 2. the protocol's contexts: `ssid ++ bytes(i)` (Go: `append(ssid, big.Int(i).Bytes()...)`) -/

theorem context_injective (ssid : Bytes) {i j : Nat}
    (h : ssid ++ natToBytesBE i = ssid ++ natToBytesBE j) : i = j :=
  C16.natBytes_injective (List.append_cancel_left h)

theorem context_index_distinct (ssid : Bytes) {i j : Nat} (h : i ≠ j) :
    ssid ++ natToBytesBE i ≠ ssid ++ natToBytesBE j :=
  fun e => h (context_injective ssid e)

/-- recorded: the concatenation is not framed, so it is injective in the index only for a FIXED `ssid`:
`[1] ++ bytes(0x0203) = [1, 2] ++ bytes(3)` -/
theorem context_not_framed_witness :
    [(1 : UInt8)] ++ natToBytesBE 0x0203 = [1, 2] ++ natToBytesBE 3 := by
  simp [natToBytesBE, natToBytesLE]


/-! ## 3. a proof accepted under two challenges forces them to coincide

Group algebra only. `Curve.Lawful` also covers curves with a cofactor (edwards25519), where a
non-identity point of small order satisfies `c·X = c'·X` for `c ≢ c' (mod q)`; hence the statement
point must have order `q`: `X ≠ 0` AND `q·X = 0` (on a prime-order curve the second is automatic).
The hypothesis `X ≠ 0` alone, as the property was first phrased, is not enough. -/

theorem schnorr_two_challenges (hL : C.Lawful) {X α : P} {t c c' : Nat}
    (hX : X ≠ C.zero) (hXq : C.smul C.q X = C.zero) (hc : c < C.q) (hc' : c' < C.q)
    (h1 : C.smul t C.base = C.add α (C.smul c X))
    (h2 : C.smul t C.base = C.add α (C.smul c' X)) : c = c' :=
  C12L.two_challenges hL hX hXq hc hc' h1 h2

theorem schnorrV_two_challenges (hL : C.Lawful) {V R α : P} {t u c c' : Nat}
    (hV : V ≠ C.zero) (hVq : C.smul C.q V = C.zero) (hc : c < C.q) (hc' : c' < C.q)
    (h1 : C.add (C.smul t R) (C.smul u C.base) = C.add α (C.smul c V))
    (h2 : C.add (C.smul t R) (C.smul u C.base) = C.add α (C.smul c' V)) : c = c' :=
  C12L.two_challenges hL hV hVq hc hc' h1 h2

/-- the order hypothesis cannot be dropped: on the lawful curve `C12L.cofactorCurve` (cyclic of order 6,
base point of order `q = 3`) the non-identity point `X = 3` of order 2 passes with `c = 0` and with `c' = 2` -/
theorem schnorr_two_challenges_needs_order :
    ∃ (X α : ZMod 6) (t c c' : Nat), C12L.cofactorCurve.Lawful ∧ X ≠ C12L.cofactorCurve.zero ∧
      c < C12L.cofactorCurve.q ∧ c' < C12L.cofactorCurve.q ∧
      C12L.cofactorCurve.smul t C12L.cofactorCurve.base =
        C12L.cofactorCurve.add α (C12L.cofactorCurve.smul c X) ∧
      C12L.cofactorCurve.smul t C12L.cofactorCurve.base =
        C12L.cofactorCurve.add α (C12L.cofactorCurve.smul c' X) ∧ c ≠ c' :=
  ⟨3, 0, 0, 0, 2, C12L.cofactorCurve_lawful, C12L.cofactor_witness.1, C12L.cofactor_witness.2.1,
    C12L.cofactor_witness.2.2.1, C12L.cofactor_witness.2.2.2.1, C12L.cofactor_witness.2.2.2.2, by decide⟩

/-- what acceptance means (current guards): `t·G = α + c·X` with `c` the challenge of this context -/
theorem schnorr_accept_equation (hL : C.Lawful) {sess : Bytes} {X α : ECPoint} {t : Nat}
    (h : schnorrVerify C H cur sess X α t = .ok true) :
    t % C.q ≠ 0 ∧ schnorrChallenge C H sess X α ≠ 0 ∧
    ∃ pX pα, C.lift X = some pX ∧ C.lift α = some pα ∧
      C.smul t C.base = C.add pα (C.smul (schnorrChallenge C H sess X α) pX) :=
  C12L.schnorrVerify_accept C H hL h

theorem schnorrV_accept_equation (hL : C.Lawful) {sess : Bytes} {V R α : ECPoint} {t u : Nat}
    (h : schnorrVVerify C H cur sess V R α t u = .ok true) :
    t % C.q ≠ 0 ∧ u % C.q ≠ 0 ∧ schnorrVChallenge C H sess V R α ≠ 0 ∧
    ∃ pV pR pα, C.lift V = some pV ∧ C.lift R = some pR ∧ C.lift α = some pα ∧
      C.add (C.smul t pR) (C.smul u C.base) =
        C.add pα (C.smul (schnorrVChallenge C H sess V R α) pV) :=
  C12L.schnorrVVerify_accept C H hL h

/-- **replay in another session**: one proof `(α, t)` accepted for `X` under two sessions forces the
two challenges to be the same number -/
theorem schnorr_accepted_two_sessions (hL : C.Lawful) {sess sess' : Bytes} {X α : ECPoint} {t : Nat}
    (hX : ∀ pX, C.lift X = some pX → pX ≠ C.zero ∧ C.smul C.q pX = C.zero)
    (h : schnorrVerify C H cur sess X α t = .ok true)
    (h' : schnorrVerify C H cur sess' X α t = .ok true) :
    schnorrChallenge C H sess X α = schnorrChallenge C H sess' X α :=
  C12L.schnorr_two_sessions C H hL hX h h'

/-- … and that is a collision: for EVERY hash `H` (fixed digest length), a Schnorr proof accepted under
two different session strings exhibits two different byte strings whose digests agree modulo `q`
(the tag hash collides on the two sessions, or the challenge hash does on the two tagged pre-images) -/
theorem schnorr_replay_other_session_needs_collision (hL : C.Lawful)
    (hlen : ∀ x y, (H x).length = (H y).length) {sess sess' : Bytes} {X α : ECPoint} {t : Nat}
    (hX : ∀ pX, C.lift X = some pX → pX ≠ C.zero ∧ C.smul C.q pX = C.zero)
    (hs : Short ((Schnorr.preimage (baseXY C) X α).map intToBytesBE))
    (hne : sess ≠ sess')
    (h : schnorrVerify C H cur sess X α t = .ok true)
    (h' : schnorrVerify C H cur sess' X α t = .ok true) :
    ∃ a b : Bytes, a ≠ b ∧ bytesToNat (H a) % C.q = bytesToNat (H b) % C.q :=
  C12L.schnorr_replay_collision C H hL hlen hX hs hne h h'

/-- the same for Schnorr-V (`V` of order `q`) -/
theorem schnorrV_accepted_two_sessions (hL : C.Lawful) {sess sess' : Bytes} {V R α : ECPoint} {t u : Nat}
    (hV : ∀ pV, C.lift V = some pV → pV ≠ C.zero ∧ C.smul C.q pV = C.zero)
    (h : schnorrVVerify C H cur sess V R α t u = .ok true)
    (h' : schnorrVVerify C H cur sess' V R α t u = .ok true) :
    schnorrVChallenge C H sess V R α = schnorrVChallenge C H sess' V R α :=
  C12L.schnorrV_two_sessions C H hL hV h h'

theorem schnorrV_replay_other_session_needs_collision (hL : C.Lawful)
    (hlen : ∀ x y, (H x).length = (H y).length) {sess sess' : Bytes} {V R α : ECPoint} {t u : Nat}
    (hV : ∀ pV, C.lift V = some pV → pV ≠ C.zero ∧ C.smul C.q pV = C.zero)
    (hs : Short ((SchnorrV.preimage (baseXY C) V R α).map intToBytesBE))
    (hne : sess ≠ sess')
    (h : schnorrVVerify C H cur sess V R α t u = .ok true)
    (h' : schnorrVVerify C H cur sess' V R α t u = .ok true) :
    ∃ a b : Bytes, a ≠ b ∧ bytesToNat (H a) % C.q = bytesToNat (H b) % C.q :=
  C12L.schnorrV_replay_collision C H hL hlen hV hs hne h h'

/-- **replay for another statement**: one proof `(α, t)` accepted for `X` and for `X'` forces the
relation `c·X = c'·X'` between the two challenges (hash outputs) and the two statements -/
theorem schnorr_replay_other_statement (hL : C.Lawful) {sess sess' : Bytes} {X X' α : ECPoint} {t : Nat}
    (h : schnorrVerify C H cur sess X α t = .ok true)
    (h' : schnorrVerify C H cur sess' X' α t = .ok true) :
    ∃ pX pX', C.lift X = some pX ∧ C.lift X' = some pX' ∧
      C.smul (schnorrChallenge C H sess X α) pX = C.smul (schnorrChallenge C H sess' X' α) pX' :=
  C12L.schnorr_two_statements C H hL h h'

/-! RSA-group systems: the first verification equation of each, as a congruence of naturals.
`a·z^e ≡ L ≡ a·z^e'` with `a`, `z` units gives `z^e ≡ z^e'`, hence `z^|e−e'| ≡ 1`. -/

/-- Alice's range proof, second check `w ≡ h1^s1·h2^s2·z^(−e)`, i.e. `w·z^e ≡ h1^s1·h2^s2 (mod Ñ)`;
`z` and `w` are units (the verifier checks `gcd(z, Ñ) = gcd(w, Ñ) = 1`) -/
theorem range_two_challenges {Nt w z h1 h2 s1 s2 e e' : Nat}
    (hw : Nat.Coprime w Nt) (hz : Nat.Coprime z Nt)
    (h : w * z ^ e % Nt = h1 ^ s1 * h2 ^ s2 % Nt) (h' : w * z ^ e' % Nt = h1 ^ s1 * h2 ^ s2 % Nt) :
    z ^ e % Nt = z ^ e' % Nt ∧ z ^ ((e : Int) - (e' : Int)).natAbs % Nt = 1 % Nt :=
  C12L.rsa_two_challenges hw hz h h'

/-- `facproof`, first check `s^z1·t^w1 ≡ A·P^e (mod N̂)` (`L` is the left side); the verifier does
NOT check that `A`, `P` are units, the hypotheses are needed -/
theorem fac_two_challenges {Nc A Pc L e e' : Nat}
    (hA : Nat.Coprime A Nc) (hP : Nat.Coprime Pc Nc)
    (h : A * Pc ^ e % Nc = L % Nc) (h' : A * Pc ^ e' % Nc = L % Nc) :
    Pc ^ e % Nc = Pc ^ e' % Nc ∧ Pc ^ ((e : Int) - (e' : Int)).natAbs % Nc = 1 % Nc :=
  C12L.rsa_two_challenges hA hP h h'

/-- Bob's proof, first check `h1^s1·h2^s2 ≡ z^e·z' (mod Ñ)`; `z`, `z'` are units (checked) -/
theorem bob_two_challenges {Nt z zPrm h1 h2 s1 s2 e e' : Nat}
    (hz' : Nat.Coprime zPrm Nt) (hz : Nat.Coprime z Nt)
    (h : zPrm * z ^ e % Nt = h1 ^ s1 * h2 ^ s2 % Nt) (h' : zPrm * z ^ e' % Nt = h1 ^ s1 * h2 ^ s2 % Nt) :
    z ^ e % Nt = z ^ e' % Nt ∧ z ^ ((e : Int) - (e' : Int)).natAbs % Nt = 1 % Nt :=
  C12L.rsa_two_challenges hz' hz h h'

/-! The same on the verifiers themselves (current guards). Acceptance gives the first congruence, with
the unit conditions the verifier checks; one proof accepted in two contexts then gives `z^e ≡ z^e'`
for the two challenges `e`, `e'`, i.e. `z^|e−e'| ≡ 1`: trivial when the challenges coincide (a hash
coincidence), otherwise a multiple of the order of `z` in the RSA group. -/

/-- Bob's verifier accepts ⟹ `z'·z^e ≡ h1^s1·h2^s2 (mod Ñ)`, `z`, `z'` units in `[0, Ñ)`, `s1, s2 ≥ q` -/
theorem bob_accept_equation {sess : Bytes} {n ntilde h1 h2 c1 c2 : Int} {pf : BobProof}
    {xu : Option (ECPoint × ECPoint)}
    (h : bobVerify C H cur sess n ntilde h1 h2 c1 c2 pf xu = .ok true) :
    (0 ≤ pf.z ∧ pf.z < ntilde) ∧ (0 ≤ pf.zPrm ∧ pf.zPrm < ntilde) ∧ Int.gcd pf.z ntilde = 1 ∧
      Int.gcd pf.zPrm ntilde = 1 ∧ (C.q : Int) ≤ pf.s1 ∧ (C.q : Int) ≤ pf.s2 ∧
      pf.zPrm.toNat * pf.z.toNat ^ (bobChallenge C H sess n c1 c2 xu pf) % ntilde.toNat =
        (h1 % ntilde).toNat ^ pf.s1.toNat * (h2 % ntilde).toNat ^ pf.s2.toNat % ntilde.toNat := by
  obtain ⟨hz, hz', gz, gz', hs1, hs2, ht⟩ := C12L.bobVerify_accept C H h
  have hq0 : (0 : Int) ≤ C.q := Int.natCast_nonneg _
  exact ⟨hz, hz', gz, gz', hs1, hs2, C12L.bobTail_first C H hz hz'.1 (by omega) (by omega) ht⟩

/-- **Bob's proof replayed**: one proof accepted under two (session, Paillier key, ciphertexts, point
statement) with the same `Ñ, h1, h2` -/
theorem bob_accepted_two_contexts {sess sess' : Bytes} {n n' ntilde h1 h2 c1 c1' c2 c2' : Int}
    {pf : BobProof} {xu xu' : Option (ECPoint × ECPoint)}
    (h : bobVerify C H cur sess n ntilde h1 h2 c1 c2 pf xu = .ok true)
    (h' : bobVerify C H cur sess' n' ntilde h1 h2 c1' c2' pf xu' = .ok true) :
    pf.z.toNat ^ (bobChallenge C H sess n c1 c2 xu pf) % ntilde.toNat =
        pf.z.toNat ^ (bobChallenge C H sess' n' c1' c2' xu' pf) % ntilde.toNat ∧
      pf.z.toNat ^ ((bobChallenge C H sess n c1 c2 xu pf : Int) -
        (bobChallenge C H sess' n' c1' c2' xu' pf : Int)).natAbs % ntilde.toNat = 1 % ntilde.toNat :=
  C12L.bob_two_contexts C H h h'

/-- `facproof` verifier accepts ⟹ `A·P^e ≡ s^z1·t^w1 (mod N̂)`; the right side (`a·b`, Go's `Exp` values)
does not depend on the challenge -/
theorem fac_accept_equation {q : Nat} {sess : Bytes} {n0 ncap s t : Int} {pf : FacProof}
    (h : facVerify cur H q sess n0 ncap s t pf = .ok true) :
    0 < ncap ∧ ∃ a b, expP s pf.z1 ncap.toNat = .ok a ∧ expP t pf.w1 ncap.toNat = .ok b ∧
      (pf.A % ncap).toNat * (pf.P % ncap).toNat ^ (facChallenge H q sess n0 ncap s t pf) % ncap.toNat =
        a * b % ncap.toNat :=
  C12L.facVerify_accept H h

/-- **`facproof` replayed**: one proof accepted under two (session, `N0`) with the same `N̂, s, t`;
`A`, `P` units is a hypothesis (the verifier does not check it) -/
theorem fac_accepted_two_contexts {q q' : Nat} {sess sess' : Bytes} {n0 n0' ncap s t : Int}
    {pf : FacProof}
    (hA : Nat.Coprime (pf.A % ncap).toNat ncap.toNat) (hP : Nat.Coprime (pf.P % ncap).toNat ncap.toNat)
    (h : facVerify cur H q sess n0 ncap s t pf = .ok true)
    (h' : facVerify cur H q' sess' n0' ncap s t pf = .ok true) :
    (pf.P % ncap).toNat ^ (facChallenge H q sess n0 ncap s t pf) % ncap.toNat =
        (pf.P % ncap).toNat ^ (facChallenge H q' sess' n0' ncap s t pf) % ncap.toNat ∧
      (pf.P % ncap).toNat ^ ((facChallenge H q sess n0 ncap s t pf : Int) -
        (facChallenge H q' sess' n0' ncap s t pf : Int)).natAbs % ncap.toNat = 1 % ncap.toNat :=
  C12L.fac_two_contexts H hA hP h h'

/-- Alice's range verifier accepts ⟹ `w·z^e ≡ h1^s1·h2^s2 (mod Ñ)`, `z`, `w` units in `[0, Ñ)` -/
theorem range_accept_equation {q : Nat} {n ntilde h1 h2 c : Int} {pf : RangeProof}
    (h : rangeVerify cur H q n ntilde h1 h2 c pf = .ok true) :
    0 < ntilde ∧ (0 ≤ pf.z ∧ pf.z < ntilde) ∧ (0 ≤ pf.w ∧ pf.w < ntilde) ∧
      Int.gcd pf.z ntilde = 1 ∧ Int.gcd pf.w ntilde = 1 ∧ (q : Int) ≤ pf.s1 ∧ (q : Int) ≤ pf.s2 ∧
      pf.w.toNat * pf.z.toNat ^ (rangeChallenge H q n c pf.z pf.u pf.w) % ntilde.toNat =
        (h1 % ntilde).toNat ^ pf.s1.toNat * (h2 % ntilde).toNat ^ pf.s2.toNat % ntilde.toNat :=
  C12L.rangeVerify_accept H h

/-- **range proof replayed** for another Paillier key or ciphertext (there is no session to change) -/
theorem range_accepted_two_statements {q q' : Nat} {n n' ntilde h1 h2 c c' : Int} {pf : RangeProof}
    (h : rangeVerify cur H q n ntilde h1 h2 c pf = .ok true)
    (h' : rangeVerify cur H q' n' ntilde h1 h2 c' pf = .ok true) :
    pf.z.toNat ^ (rangeChallenge H q n c pf.z pf.u pf.w) % ntilde.toNat =
        pf.z.toNat ^ (rangeChallenge H q' n' c' pf.z pf.u pf.w) % ntilde.toNat ∧
      pf.z.toNat ^ ((rangeChallenge H q n c pf.z pf.u pf.w : Int) -
        (rangeChallenge H q' n' c' pf.z pf.u pf.w : Int)).natAbs % ntilde.toNat = 1 % ntilde.toNat :=
  C12L.range_two_contexts H h h'

/-! ## 4. responses are determined modulo the group order -/

/-- **Schnorr**: same commitment, a response not congruent to the accepted one is not accepted -/
theorem schnorr_response_nonmalleable (hL : C.Lawful) {sess : Bytes} {X α : ECPoint} {t t' : Nat}
    (h : schnorrVerify C H cur sess X α t = .ok true) (hne : t' % C.q ≠ t % C.q) :
    schnorrVerify C H cur sess X α t' ≠ .ok true :=
  C12L.schnorr_nonmalleable C H hL h hne

/-- … and congruence is exactly the equivalence: the verdict depends on `t` through `t mod q` only -/
theorem schnorr_response_equivalent (hL : C.Lawful) (cfg : Cfg) (sess : Bytes) (X α : ECPoint)
    {t t' : Nat} (ht : t % C.q = t' % C.q) :
    schnorrVerify C H cfg sess X α t = schnorrVerify C H cfg sess X α t' :=
  C12L.schnorrVerify_congr C H hL cfg sess X α ht

/-- **Schnorr-V**, response `t` (coefficient of `R`): needs `R` of order `q` -/
theorem schnorrV_response_nonmalleable (hL : C.Lawful) {sess : Bytes} {V R α : ECPoint} {t t' u : Nat}
    (hR : ∀ pR, C.lift R = some pR → pR ≠ C.zero ∧ C.smul C.q pR = C.zero)
    (h : schnorrVVerify C H cur sess V R α t u = .ok true) (hne : t' % C.q ≠ t % C.q) :
    schnorrVVerify C H cur sess V R α t' u ≠ .ok true :=
  C12L.schnorrV_nonmalleable_t C H hL hR h hne

/-- **Schnorr-V**, response `u` (coefficient of the base point) -/
theorem schnorrV_response_nonmalleable_u (hL : C.Lawful) {sess : Bytes} {V R α : ECPoint} {t u u' : Nat}
    (h : schnorrVVerify C H cur sess V R α t u = .ok true) (hne : u' % C.q ≠ u % C.q) :
    schnorrVVerify C H cur sess V R α t u' ≠ .ok true :=
  C12L.schnorrV_nonmalleable_u C H hL h hne

/-- **dlnproof**: two response vectors accepted with the same commitments give, in every round, the
same power of `h1` (Go's `Exp`, non-nil) -/
theorem dln_response_nonmalleable {alpha t t' : List Int} {h1 h2 n : Int}
    (h : dlnVerify H alpha t h1 h2 n = .ok true) (h' : dlnVerify H alpha t' h1 h2 n = .ok true) :
    ∀ i < dlnIterations, ∃ r, goExp h1 (t.getD i 0) n.toNat = some r ∧
      goExp h1 (t'.getD i 0) n.toNat = some r :=
  C12L.dln_nonmalleable H h h'

/-- … for non-negative responses: `h1^{t_i} ≡ h1^{t_i'} (mod N)` -/
theorem dln_response_nonmalleable_pow {alpha t t' : List Int} {h1 h2 n : Int}
    (h : dlnVerify H alpha t h1 h2 n = .ok true) (h' : dlnVerify H alpha t' h1 h2 n = .ok true)
    {i : Nat} (hi : i < dlnIterations) (ht : 0 ≤ t.getD i 0) (ht' : 0 ≤ t'.getD i 0) :
    (h1 % n).toNat ^ (t.getD i 0).toNat % n.toNat = (h1 % n).toNat ^ (t'.getD i 0).toNat % n.toNat :=
  C12L.dln_nonmalleable_pow H h h' hi ht ht'

/-- … and when `h1` is a unit (not checked by the verifier): `h1^{|t_i − t_i'|} ≡ 1 (mod N)` -/
theorem dln_response_order {alpha t t' : List Int} {h1 h2 n : Int}
    (h : dlnVerify H alpha t h1 h2 n = .ok true) (h' : dlnVerify H alpha t' h1 h2 n = .ok true)
    (hg : Nat.Coprime (h1 % n).toNat n.toNat)
    {i : Nat} (hi : i < dlnIterations) (ht : 0 ≤ t.getD i 0) (ht' : 0 ≤ t'.getD i 0) :
    (h1 % n).toNat ^ (t.getD i 0 - t'.getD i 0).natAbs % n.toNat = 1 % n.toNat :=
  C12L.dln_order H h h' hg hi ht ht'

/-! ### Paillier-Blum modulus proof: the fourth roots `X_i`

`x` and `N − x` have the same fourth power modulo `N`, so a verifier that only checks `X_i^4 ≡ ±W^b·Y_i` accepts
both (`mod_old_negated_root_accepted_witness`). The prover sends, and the current verifier accepts, only the
representative with `2·x ≤ N`. The two remaining fourth roots `±x·√1` in that range differ from `x` by a
non-trivial square root of `1`, which reveals a factor of `N` (`mod_other_root_reveals_factor`). -/

/-- the verifier before the repair: both `x` and `N − x` pass -/
abbrev modPreCanonical : Cfg := { cur with modCanonicalRoot := false }

/-- the current verifier accepts only roots in `(0, N/2]` -/
theorem mod_accept_canonical {sess : Bytes} {w : Int} {xs : List Int} {a b : Int} {zs : List Int} {n : Int}
    (h : modVerify cur H sess w xs a b zs n = .ok true) : ∀ x ∈ xs, 2 * x ≤ n :=
  C12L.modVerify_accept_canonical H sess w xs a b zs n h

/-- **negating a root**: replacing an entry `x` (with `2·x < N`, which for odd `N` is `2·x ≤ N`) of the root
vector by `N − x` is never accepted, whatever the other components are -/
theorem mod_negated_root_rejected (sess : Bytes) (w : Int) (xs : List Int) (a b : Int) (zs : List Int)
    (n x : Int) (i : Nat) (hi : xs[i]? = some x) (hlt : 2 * x < n) :
    modVerify cur H sess w (xs.set i (n - x)) a b zs n ≠ .ok true :=
  C12L.modVerify_negated_root H sess w xs a b zs n x i hi hlt

/-- **before the repair the negated root was accepted**: `N = 77 = 7·11`, `W = 2`, all challenges `3`. The
prover's proof (roots `13`) passes both verifiers; with the first root replaced by `77 − 13 = 64` it still
passes the verifier without the canonical-root check and is rejected by the current one. -/
theorem mod_old_negated_root_accepted_witness :
    (modProve (fun _ => [3]) [] 77 7 11 2 >>= fun pf =>
      modVerify modPreCanonical (fun _ => [3]) [] (pf.1 : Int) (pf.2.1.map Int.ofNat) (pf.2.2.1 : Int)
        (pf.2.2.2.1 : Int) (pf.2.2.2.2.map Int.ofNat) 77) = .ok true ∧
    (modProve (fun _ => [3]) [] 77 7 11 2 >>= fun pf =>
      modVerify modPreCanonical (fun _ => [3]) [] (pf.1 : Int)
        ((pf.2.1.map Int.ofNat).set 0 (77 - (pf.2.1.map Int.ofNat).getD 0 0)) (pf.2.2.1 : Int)
        (pf.2.2.2.1 : Int) (pf.2.2.2.2.map Int.ofNat) 77) = .ok true ∧
    (modProve (fun _ => [3]) [] 77 7 11 2 >>= fun pf =>
      modVerify cur (fun _ => [3]) [] (pf.1 : Int)
        ((pf.2.1.map Int.ofNat).set 0 (77 - (pf.2.1.map Int.ofNat).getD 0 0)) (pf.2.2.1 : Int)
        (pf.2.2.2.1 : Int) (pf.2.2.2.2.map Int.ofNat) 77) = .ok false ∧
    (modProve (fun _ => [3]) [] 77 7 11 2 >>= fun pf =>
      modVerify cur (fun _ => [3]) [] (pf.1 : Int) (pf.2.1.map Int.ofNat) (pf.2.2.1 : Int)
        (pf.2.2.2.1 : Int) (pf.2.2.2.2.map Int.ofNat) 77) = .ok true ∧
    (modProve (fun _ => [3]) [] 77 7 11 2).bind (fun pf => .ok (pf.2.1.getD 0 0)) = .ok 13 := by
  decide +kernel

/-- **two accepted roots of one challenge**: different `x`, `x'` in `(0, N/2]` with `x^4 ≡ x'^4` modulo an odd `N`
give the multiple `(x + x')·|x − x'|·(x² + x'²)` of `N`, and neither `x + x'` nor `|x − x'|` is a multiple -/
theorem mod_root_unique_up_to_factoring {n x x' : Nat} (hn : n % 2 = 1) (hx : 0 < x) (hx' : 0 < x')
    (hx2 : 2 * x ≤ n) (hx2' : 2 * x' ≤ n) (hne : x ≠ x') (h4 : x ^ 4 % n = x' ^ 4 % n) :
    n ∣ (x + x') * (max x x' - min x x') * (x ^ 2 + x' ^ 2) ∧ ¬ n ∣ x + x' ∧ ¬ n ∣ max x x' - min x x' :=
  C12L.fourth_root_diff hn hx hx' hx2 hx2' hne h4

/-- … and for a Blum integer `N = p·q`, `p ≡ q ≡ 3 (mod 4)` (`−1` is a square modulo neither prime, so
`x² + x'²` is a unit when `x` is): **any second root in the accepted range yields a proper factor of `N`** -/
theorem mod_other_root_reveals_factor {n p q x x' : Nat} (hn : n = p * q) (hp : p.Prime) (hq : q.Prime)
    (hp4 : p % 4 = 3) (hq4 : q % 4 = 3) (hx : 0 < x) (hx' : 0 < x') (hx2 : 2 * x ≤ n) (hx2' : 2 * x' ≤ n)
    (hne : x ≠ x') (hxc : Nat.Coprime x n) (h4 : x ^ 4 % n = x' ^ 4 % n) :
    1 < Nat.gcd (max x x' - min x x') n ∧ Nat.gcd (max x x' - min x x') n < n :=
  C12L.blum_gcd_proper hn hp hq hp4 hq4 hx hx' hx2 hx2' hne hxc h4

/-! ## 5. moving a commitment changes what is hashed -/

/-- generic: a pre-image map that determines its arguments separates different commitments -/
theorem preimage_ne_of_commitment_ne {σ κ : Type} (pre : σ → κ → List Int)
    (hinj : ∀ s a s' a', pre s a = pre s' a' → s = s' ∧ a = a') (s : σ) {a a' : κ} (h : a' ≠ a) :
    pre s a' ≠ pre s a :=
  fun e => h (hinj _ _ _ _ e).2

/-- generic, on the hashed bytes: different non-negative input lists give different tagged pre-images,
whatever the sessions -/
theorem tagged_bytes_ne_of_preimage_ne (hlen : ∀ x y, (H x).length = (H y).length)
    {sess sess' : Bytes} {l l' : List Int} (hn : NonNeg l) (hn' : NonNeg l')
    (hs : Short (l.map intToBytesBE)) (hs' : Short (l'.map intToBytesBE)) (h : l ≠ l') :
    taggedPreimage H sess l ≠ taggedPreimage H sess' l' :=
  fun e => h (C12L.tagged_int_inj H hlen hn hn' hs hs' e).1

theorem schnorr_shift_changes_preimage (g X : ECPoint) {α α' : ECPoint} (h : α' ≠ α) :
    Schnorr.preimage g X α' ≠ Schnorr.preimage g X α :=
  preimage_ne_of_commitment_ne (fun (s : ECPoint × ECPoint) a => Schnorr.preimage s.1 s.2 a)
    (fun _ _ _ _ e => by
      obtain ⟨h1, h2, h3⟩ := C12L.schnorr_preimage_inj e
      exact ⟨Prod.ext h1 h2, h3⟩) (g, X) h

theorem schnorr_shift_changes_hashed_bytes (hlen : ∀ x y, (H x).length = (H y).length)
    (sess : Bytes) (g X : ECPoint) {α α' : ECPoint}
    (hs : Short ((Schnorr.preimage g X α).map intToBytesBE))
    (hs' : Short ((Schnorr.preimage g X α').map intToBytesBE)) (h : α' ≠ α) :
    taggedPreimage H sess (Schnorr.preimage g X α') ≠ taggedPreimage H sess (Schnorr.preimage g X α) :=
  tagged_bytes_ne_of_preimage_ne H hlen (C12L.nonNeg_schnorr _ _ _) (C12L.nonNeg_schnorr _ _ _) hs' hs
    (schnorr_shift_changes_preimage g X h)

/-- **replacing the commitment alone**: if `(α, t)` and `(α', t)` are both accepted with `α' ≠ α`, the two
challenges are different numbers (with equal challenges the verifier's equation forces `α' = α`) -/
theorem schnorr_commitment_replaced (hL : C.Lawful) {sess : Bytes} {X α α' : ECPoint} {t : Nat}
    (h : schnorrVerify C H cur sess X α t = .ok true)
    (h' : schnorrVerify C H cur sess X α' t = .ok true) (hne : α' ≠ α) :
    schnorrChallenge C H sess X α' ≠ schnorrChallenge C H sess X α :=
  C12L.schnorr_commitment_replaced C H hL h h' hne

/-- **shifting commitment and response together** along `t·G = α + c·X`: if `(α, t)` passes with
challenge `c` and the shifted pair `(α + δ·G, t + δ)` passes with challenge `c'`, then `c' = c`:
the shift survives only if the hash gives the same challenge on the two different pre-images -/
theorem schnorr_shift_needs_same_challenge (hL : C.Lawful) {X α : P} {t δ c c' : Nat}
    (hX : X ≠ C.zero) (hXq : C.smul C.q X = C.zero) (hc : c < C.q) (hc' : c' < C.q)
    (h1 : C.smul t C.base = C.add α (C.smul c X))
    (h2 : C.smul (t + δ) C.base = C.add (C.add α (C.smul δ C.base)) (C.smul c' X)) : c = c' :=
  C12L.schnorr_shift C hL hX hXq hc hc' h1 h2

/-! ## hypotheses are satisfiable -/
section examples

instance fact23 : Fact (Nat.Prime 23) := ⟨by decide⟩

/-- the proved-lawful toy curve of order 23 (point `a` is `a·G`, affine form `(a, 0)`) -/
abbrev E := zmodCurve 23
/-- constant hashes: fixed output length, and they collide everywhere -/
abbrev H0 : HashFn := fun _ => [0]
abbrev H5 : HashFn := fun _ => [5]

example : E.Lawful := zmodCurve_lawful 23
example : ∀ x y, (H5 x).length = (H5 y).length := fun _ _ => rfl

/-- `Short` for small concrete values, through `short_of_lt_pow` -/
example : Short ((Schnorr.preimage (1, 0) (3, 0) (2, 0)).map intToBytesBE) :=
  short_of_lt_pow 1 (by decide) (by decide)

example : NonNeg (Range.preimage 35 4 2 3 5) := by unfold NonNeg Range.preimage; decide

/-- secret `x = 3`, `X = 3·G`, coin `a = 2`, challenge `5`: response `2 + 5·3 = 17` is accepted … -/
theorem toy_challenge (sess : Bytes) (X α : ECPoint) : schnorrChallenge E H5 sess X α = 5 := rfl

theorem schnorr_toy_accept (sess : Bytes) : schnorrVerify E H5 cur sess (3, 0) (2, 0) 17 = .ok true := by
  unfold schnorrVerify
  rw [toy_challenge]
  decide

/-- … `18` is not, by the theorem and by running the model -/
example (sess : Bytes) : schnorrVerify E H5 cur sess (3, 0) (2, 0) 18 ≠ .ok true :=
  schnorr_response_nonmalleable E H5 (zmodCurve_lawful 23) (schnorr_toy_accept sess) (by decide)
example (sess : Bytes) : schnorrVerify E H5 cur sess (3, 0) (2, 0) 18 = .ok false := by
  unfold schnorrVerify
  rw [toy_challenge]
  decide
/-- … `17 + 23` is -/
example (sess : Bytes) : schnorrVerify E H5 cur sess (3, 0) (2, 0) 40 = .ok true :=
  (schnorr_response_equivalent E H5 (zmodCurve_lawful 23) cur sess (3, 0) (2, 0) (by decide)).trans
    (schnorr_toy_accept sess)

/-- with a constant challenge no other commitment is accepted with the same response -/
example (sess : Bytes) (α' : ECPoint) (hne : α' ≠ (2, 0)) :
    schnorrVerify E H5 cur sess (3, 0) α' 17 ≠ .ok true := fun h' =>
  schnorr_commitment_replaced E H5 (zmodCurve_lawful 23) (schnorr_toy_accept sess) h' hne rfl

theorem toy_order : ∀ pX, E.lift (3, 0) = some pX → pX ≠ E.zero ∧ E.smul E.q pX = E.zero := by
  intro pX h
  have : pX = (3 : ZMod 23) := by
    simp only [Curve.lift, zmodCurve] at h
    rw [if_pos (by decide)] at h
    exact (Option.some.inj h).symm
  subst this
  decide

/-- the constant hash accepts the same proof under every session, and the theorem exhibits the collision -/
example : ∃ a b : Bytes, a ≠ b ∧ bytesToNat (H5 a) % 23 = bytesToNat (H5 b) % 23 :=
  schnorr_replay_other_session_needs_collision E H5 (zmodCurve_lawful 23) (fun _ _ => rfl) toy_order
    (short_of_lt_pow 1 (by decide) (by decide)) (by decide : ([1] : Bytes) ≠ [2])
    (schnorr_toy_accept [1]) (schnorr_toy_accept [2])

/-- `2` has order 3 modulo 7: `1·2^1 ≡ 2 ≡ 1·2^4` gives `2^3 ≡ 1` -/
example : 2 ^ 3 % 7 = 1 % 7 :=
  (range_two_challenges (Nt := 7) (w := 1) (z := 2) (h1 := 2) (h2 := 1) (s1 := 1) (s2 := 0)
    (e := 1) (e' := 4) (by decide) (by decide) (by decide) (by decide)).2

/-- `dlnproof` modulo 35 with `h1 = 2` (order 12), challenge bits all zero: responses `2` and `14`
are both accepted for the commitments `4 = 2^2`, and `2^12 ≡ 1` follows -/
theorem dln_toy_accept :
    dlnVerify H0 (List.replicate 128 4) (List.replicate 128 2) 2 3 35 = .ok true ∧
    dlnVerify H0 (List.replicate 128 4) (List.replicate 128 14) 2 3 35 = .ok true := by
  decide +kernel

example : 2 ^ 12 % 35 = 1 % 35 :=
  dln_response_order H0 dln_toy_accept.1 dln_toy_accept.2 (by decide) (i := 0) (by decide)
    (by decide) (by decide)

/-! Toy RSA-group instances: Paillier `N = 35`, `Ñ = 77`, `h1 = 2`, `h2 = 4`, `q = 23`;
the proofs are the outputs of the model's provers (`bobProve`, `facProve`, `rangeProve`). -/

theorem bob_toy_accept :
    bobVerify E H5 cur [1] 35 77 2 4 683 493 ⟨15, 9, 9, 768, 71, 29, 40, 33, 60, 37⟩ none = .ok true ∧
    bobVerify E H5 cur [2] 35 77 2 4 683 493 ⟨15, 9, 9, 768, 71, 29, 40, 33, 60, 37⟩ none = .ok true := by
  decide +kernel

example : 9 * 15 ^ 5 % 77 = 2 ^ 40 * 4 ^ 33 % 77 :=
  (bob_accept_equation E H5 bob_toy_accept.1).2.2.2.2.2.2

example := bob_accepted_two_contexts E H5 bob_toy_accept.1 bob_toy_accept.2

theorem fac_toy_accept :
    facVerify cur H5 23 [1] 35 77 2 4 ⟨72, 74, 29, 1, 43, 9, 30, 41, 46, 52, -145⟩ = .ok true := by
  decide +kernel

example := fac_accepted_two_contexts H5 (pf := ⟨72, 74, 29, 1, 43, 9, 30, 41, 46, 52, -145⟩)
  (by decide) (by decide) fac_toy_accept fac_toy_accept

theorem range_toy_accept : rangeVerify cur H5 23 35 77 2 4 683 ⟨43, 957, 23, 26, 45, 35⟩ = .ok true := by
  decide +kernel

example : 23 * 43 ^ 5 % 77 = 2 ^ 45 * 4 ^ 35 % 77 :=
  (range_accept_equation H5 range_toy_accept).2.2.2.2.2.2.2

/-- `modproof`, `N = 77`: the entry `13` of a root vector replaced by `77 − 13` is rejected -/
example (a b : Int) (zs : List Int) :
    modVerify cur H5 [] 2 ((List.replicate 80 (13 : Int)).set 0 (77 - 13)) a b zs 77 ≠ .ok true :=
  mod_negated_root_rejected H5 [] 2 _ a b zs 77 13 0 rfl (by decide)

/-- `13` and `20` are the two fourth roots of `71` modulo `77` in `(0, 38]`; their difference is the factor `7` -/
example : (77 ∣ (13 + 20) * (max 13 20 - min 13 20) * (13 ^ 2 + 20 ^ 2) ∧ ¬ 77 ∣ 13 + 20 ∧
    ¬ 77 ∣ max 13 20 - min 13 20) :=
  mod_root_unique_up_to_factoring (by decide) (by decide) (by decide) (by decide) (by decide) (by decide)
    (by decide)
example : 1 < Nat.gcd (max 13 20 - min 13 20) 77 ∧ Nat.gcd (max 13 20 - min 13 20) 77 < 77 :=
  mod_other_root_reveals_factor (p := 7) (q := 11) (by decide) (by decide) (by decide) (by decide) (by decide)
    (by decide) (by decide) (by decide) (by decide) (by decide) (by decide) (by decide)
example : Nat.gcd (max 13 20 - min 13 20) 77 = 7 := by decide

/-- participants 1 and 2 of one `ssid` have different session strings -/
example : ([7, 7] : Bytes) ++ natToBytesBE 1 ≠ [7, 7] ++ natToBytesBE 2 :=
  context_index_distinct [7, 7] (by decide)

end examples

end TssVerif.C12
